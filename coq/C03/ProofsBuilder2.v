(* C03 -- builder, part 2: length bound / invariant over operation lists,
   error atomicity, finish / into_name / append_origin, the known class. *)
From Coq Require Import NArith List Bool Arith Lia ZArith.
From Coq Require Import ZifyN ZifyBool ZifyNat.
From DV Require Import Base.Outcome Base.Bytes Base.Names C03.Gen C03.Model C03.Spec C03.ProofsBuilder.
Import ListNotations.
Ltac Zify.zify_post_hook ::= Z.div_mod_to_equations.

Lemma repr_head a st : repr a st ->
  head st = match opn a with Some _ => Some (wire_len (closed a)) | None => None end.
Proof. unfold repr. destruct (opn a); [intros [ph ->]|intros ->]; reflexivity. Qed.

(* ---------------------------------------------------------------- bounds *)
Lemma a_push_bound cap a ch : (alen a <= 254)%nat -> (alen (fst (a_push cap a ch)) <= 254)%nat.
Proof.
  intros H. unfold a_push. destruct (Nat.leb_spec 254 (alen a)); [exact H|].
  destruct (opn a) as [c|] eqn:E.
  - destruct (63 <=? length c)%nat; [exact H|]. destruct (fits cap a 1); [|exact H].
    cbn [fst]. unfold alen in *. rewrite E in *. cbn [closed opn]. rewrite app_length. cbn [length]. lia.
  - destruct (Nat.leb_spec 253 (alen a)); [exact H|]. destruct (fits cap a 2); [|exact H].
    cbn [fst]. unfold alen in *. rewrite E in *. cbn [closed opn length]. lia.
Qed.

Lemma a_pushes_bound cap l : forall a, (alen a <= 254)%nat -> (alen (fst (a_pushes cap a l)) <= 254)%nat.
Proof.
  induction l as [|ch l IH]; intros a H; [exact H|]. cbn [a_pushes].
  pose proof (a_push_bound cap a ch H) as Hb.
  destruct (a_push cap a ch) as [a1 [[]|e|p|]]; cbn [a_then fst] in *; auto.
Qed.

Lemma a_then_end_bound r : (alen (fst r) <= 254)%nat ->
  (alen (fst (a_then r (fun a => (aend a, Ok tt)))) <= 254)%nat.
Proof. destruct r as [a1 [[]|e|p|]]; cbn [a_then fst]; auto. rewrite alen_aend. auto. Qed.

(* new-label append_slice on the abstract state: bound unless len + n = 254 *)
Lemma a_slice_bound cap a s : (alen a <= 254)%nat ->
  (alen (fst (a_slice cap a s)) <= 254)%nat \/
  (opn a = None /\ (1 <= length s <= 63)%nat /\ (alen a + length s = 254)%nat /\ fits cap a (S (length s)) = true /\
   fst (a_slice cap a s) = mk_a (closed a) (Some s)).
Proof.
  intros H. unfold a_slice. destruct s as [|x s']; [left; exact H|]. set (s := x :: s').
  assert (Hn : (1 <= length s)%nat) by (subst s; cbn [length]; lia).
  destruct (opn a) as [c|] eqn:E.
  - left. destruct (Nat.ltb_spec 63 (length c + length s)); [exact H|].
    destruct (Nat.ltb_spec 254 (alen a + length s)); [exact H|].
    destruct (fits cap a (length s)); [|exact H]. cbn [fst].
    unfold alen in *. rewrite E in *. cbn [closed opn]. rewrite app_length. lia.
  - destruct (Nat.ltb_spec 63 (length s)); [left; exact H|].
    destruct (Nat.ltb_spec 254 (alen a + length s)); [left; exact H|].
    destruct (fits cap a (S (length s))) eqn:F; [|left; exact H]. cbn [fst].
    destruct (Nat.eq_dec (alen a + length s) 254) as [Heq|Hne].
    + right. repeat split; auto; lia.
    + left. unfold alen in *. rewrite E in *. cbn [closed opn]. lia.
Qed.

Lemma gap_false_slice cap a st (s : bytes) : repr a st -> opn a = None -> (1 <= length s <= 63)%nat ->
  (alen a + length s = 254)%nat -> fits cap a (S (length s)) = true ->
  new_label_at_254 cap st (length s) = true.
Proof.
  intros Hr Ho Hn He Hf. unfold new_label_at_254. rewrite (repr_len _ _ Hr).
  destruct (Nat.leb_spec 1 (length s)); [|lia]. destruct (Nat.leb_spec (length s) 63); [|lia].
  destruct (Nat.eqb_spec (alen a + length s) 254); [|lia]. cbn [andb].
  unfold fits in Hf. destruct cap as [c|]; [|reflexivity].
  replace (alen a + length s + 1)%nat with (alen a + S (length s))%nat by lia. exact Hf.
Qed.

Lemma step_bound cap a st o : awf a -> repr a st -> (alen a <= 254)%nat -> wf_op o ->
  gap_step cap st o = false -> (alen (fst (a_step cap a o)) <= 254)%nat.
Proof.
  intros Hw Hr H Ho Hg. destruct o; cbn [a_step gap_step] in *.
  - apply a_push_bound; exact H.
  - destruct (a_slice_bound cap a s H) as [Hb|(Hn & Hl & He & Hf & _)]; [exact Hb|].
    rewrite (repr_head _ _ Hr), Hn in Hg.
    rewrite (gap_false_slice cap a st s Hr Hn Hl He Hf) in Hg. discriminate.
  - cbn [fst]. rewrite alen_aend. exact H.
  - unfold a_label.
    assert (H1 : (alen (aend a) <= 254)%nat) by (rewrite alen_aend; exact H).
    destruct (a_slice_bound cap (aend a) l H1) as [Hb|(Hn & Hl & He & Hf & _)].
    + destruct (a_slice cap (aend a) l) as [a2 [[]|e|p|]]; cbn [fst] in *; auto. rewrite alen_aend. exact Hb.
    + exfalso. destruct (end_ok a st Hw Hr) as (st1 & E1 & Hr1).
      pose proof (gap_false_slice cap (aend a) st1 l Hr1 Hn Hl He Hf) as Hg1.
      unfold new_label_at_254 in *. rewrite (repr_len _ _ Hr1), alen_aend in Hg1.
      rewrite (repr_len _ _ Hr) in Hg. rewrite Hg1 in Hg. discriminate.
  - unfold a_dec. apply a_then_end_bound. apply a_pushes_bound. rewrite alen_aend. exact H.
  - unfold a_hex. apply a_then_end_bound. apply a_pushes_bound. rewrite alen_aend. exact H.
  - unfold a_name. destruct (Nat.ltb_spec 254 (alen (aend a) + wire_len nm)); [exact H|].
    destruct (fits cap (aend a) (wire_len nm)); [|exact H]. cbn [fst].
    unfold alen in *. rewrite opn_aend in *. cbn [closed opn]. rewrite wire_len_app. lia.
Qed.

(* ---------------------------------------------------------------- invariant over runs *)
Lemma inv_run cap ops : forall a st, avalid a -> repr a st -> Forall wf_op ops ->
  hits_from cap st ops = false ->
  repr (a_run cap a ops) (run cap st ops) /\ avalid (a_run cap a ops).
Proof.
  induction ops as [|o ops IH]; intros a st [Hw Hl] Hr Ho Hh; [cbn; split; [assumption|split; assumption]|].
  inversion Ho as [|? ? Ho1 Ho2]; subst. cbn [hits_from] in Hh. apply orb_false_iff in Hh as [Hg Hh].
  destruct (step_refines cap a st o Hw Hr Ho1) as (R1 & R2 & R3 & R4).
  cbn [a_run run fold_left]. apply IH; auto.
  split; [exact R3|]. eapply step_bound; eauto.
Qed.

Lemma avalid_init : avalid a_init.
Proof. split; [apply awf_init|cbn; lia]. Qed.

Theorem builder_inv cap ops : Forall wf_op ops -> hits_relname_255 cap ops = false ->
  Inv (run cap b_init ops).
Proof.
  intros Ho Hh. exists (a_run cap a_init ops).
  apply (inv_run cap ops a_init b_init avalid_init repr_init Ho Hh).
Qed.

(* the predicate is exact: on a valid builder it is true precisely for the
   steps that make the buffer longer than 254 octets *)
Theorem gap_exact cap st o : Inv st -> wf_op o ->
  (gap_step cap st o = true <-> (254 < length (buf (fst (step cap st o))))%nat).
Proof.
  intros (a & Hr & Hw & Hl) Ho.
  destruct (step_refines cap a st o Hw Hr Ho) as (R1 & R2 & R3 & R4).
  rewrite (repr_len _ _ R1). split.
  - intros Hg. destruct o; cbn [gap_step] in Hg; try discriminate.
    + rewrite (repr_head _ _ Hr) in Hg. destruct (opn a) as [c|] eqn:E; [discriminate|].
      unfold new_label_at_254 in Hg. rewrite (repr_len _ _ Hr) in Hg.
      apply andb_true_iff in Hg as [Hg Hf]. apply andb_true_iff in Hg as [Hg He].
      apply andb_true_iff in Hg as [H1 H2].
      apply Nat.leb_le in H1, H2. apply Nat.eqb_eq in He.
      cbn [a_step]. unfold a_slice. destruct s as [|x s']; [cbn [length] in H1; lia|].
      set (s := x :: s') in *. rewrite E.
      destruct (Nat.ltb_spec 63 (length s)); [lia|]. destruct (Nat.ltb_spec 254 (alen a + length s)); [lia|].
      assert (F : fits cap a (S (length s)) = true).
      { unfold fits. destruct cap as [c|]; [|reflexivity].
        replace (alen a + S (length s))%nat with (alen a + length s + 1)%nat by lia. exact Hf. }
      rewrite F. cbn [fst]. unfold alen in *. rewrite E in *. cbn [closed opn]. lia.
    + unfold new_label_at_254 in Hg. rewrite (repr_len _ _ Hr) in Hg.
      apply andb_true_iff in Hg as [Hg Hf]. apply andb_true_iff in Hg as [Hg He].
      apply andb_true_iff in Hg as [H1 H2].
      apply Nat.leb_le in H1, H2. apply Nat.eqb_eq in He.
      cbn [a_step]. unfold a_label, a_slice. destruct l as [|x s']; [cbn [length] in H1; lia|].
      set (s := x :: s') in *. rewrite opn_aend, alen_aend.
      destruct (Nat.ltb_spec 63 (length s)); [lia|]. destruct (Nat.ltb_spec 254 (alen a + length s)); [lia|].
      assert (F : fits cap (aend a) (S (length s)) = true).
      { unfold fits. rewrite alen_aend. destruct cap as [c|]; [|reflexivity].
        replace (alen a + S (length s))%nat with (alen a + length s + 1)%nat by lia. exact Hf. }
      rewrite F. cbn [fst]. rewrite alen_aend.
      pose proof (alen_aend a) as Hae. unfold alen in *. rewrite opn_aend in Hae. cbn [closed opn]. lia.
  - intros Hgt. destruct (gap_step cap st o) eqn:Hg; [reflexivity|].
    pose proof (step_bound cap a st o Hw Hr Hl Ho Hg). lia.
Qed.

(* ---------------------------------------------------------------- errors *)
Lemma a_step_err_same cap a o e : atomic_op o = true ->
  snd (a_step cap a o) = Err e -> fst (a_step cap a o) = a.
Proof.
  destruct o; cbn [atomic_op a_step]; intros Ha He; try discriminate.
  - eapply a_push_err; eauto.
  - eapply a_slice_err; eauto.
  - unfold a_label in *. destruct (a_slice cap (aend a) l) as [a2 [[]|e'|p|]]; cbn [fst snd] in *; try discriminate; reflexivity.
  - unfold a_name in *. destruct (254 <? _)%nat; [reflexivity|]. destruct (fits cap _ _); [discriminate|reflexivity].
Qed.

Lemma a_step_err_bound cap a o e : (alen a <= 254)%nat ->
  snd (a_step cap a o) = Err e -> (alen (fst (a_step cap a o)) <= 254)%nat.
Proof.
  intros H He. destruct (atomic_op o) eqn:At.
  - rewrite (a_step_err_same cap a o e At He). exact H.
  - destruct o; try discriminate; cbn [a_step].
    + unfold a_dec. apply a_then_end_bound. apply a_pushes_bound. rewrite alen_aend. exact H.
    + unfold a_hex. apply a_then_end_bound. apply a_pushes_bound. rewrite alen_aend. exact H.
Qed.

Definition same_but_placeholder (st st' : bstate) : Prop :=
  st' = st \/ exists h v, head st = Some h /\ st' = mk_b (set_nth h (buf st) v) (Some h).

Lemma repr_same_but_placeholder a st st' : repr a st -> repr a st' -> same_but_placeholder st st'.
Proof.
  unfold repr, same_but_placeholder. destruct (opn a) as [c|].
  - intros [ph ->] [ph' ->]. right. exists (wire_len (closed a)), ph'. cbn [head buf]. split; [reflexivity|].
    rewrite <- (wire_rel_length (closed a)), set_nth_app. reflexivity.
  - intros -> ->. left. reflexivity.
Qed.

(* "returns an error and leaves the builder usable": after any error (limit
   or ShortBuf, any capacity) the builder still satisfies the invariant; for
   push / append_slice / append_label / append_name it denotes the same
   abstract state as before (the only octet that may differ is the
   placeholder of the open label, which no operation reads) *)
Theorem error_leaves_usable cap st o st' e : Inv st -> wf_op o ->
  step cap st o = (st', Err e) ->
  Inv st' /\
  (atomic_op o = true ->
     (forall a, awf a -> repr a st -> repr a st') /\ same_but_placeholder st st').
Proof.
  intros (a & Hr & Hw & Hl) Ho Hs.
  destruct (step_refines cap a st o Hw Hr Ho) as (R1 & R2 & R3 & R4).
  rewrite Hs in R1, R2. cbn [fst snd] in R1, R2. symmetry in R2.
  split.
  - exists (fst (a_step cap a o)). split; [exact R1|]. split; [exact R3|].
    eapply a_step_err_bound; eauto.
  - intros At. split.
    + intros a0 Hw0 Hr0.
      destruct (step_refines cap a0 st o Hw0 Hr0 Ho) as (Q1 & Q2 & _ & _).
      rewrite Hs in Q1, Q2. cbn [fst snd] in Q1, Q2. symmetry in Q2.
      rewrite (a_step_err_same cap a0 o e At Q2) in Q1. exact Q1.
    + rewrite (a_step_err_same cap a o e At R2) in R1.
      eapply repr_same_but_placeholder; eauto.
Qed.

(* two concrete builders denoting the same abstract state behave alike *)
Theorem same_abstract_same_behaviour cap a st1 st2 o : awf a -> repr a st1 -> repr a st2 -> wf_op o ->
  snd (step cap st1 o) = snd (step cap st2 o) /\
  exists a', awf a' /\ repr a' (fst (step cap st1 o)) /\ repr a' (fst (step cap st2 o)).
Proof.
  intros Hw H1 H2 Ho.
  destruct (step_refines cap a st1 o Hw H1 Ho) as (R1 & R2 & R3 & _).
  destruct (step_refines cap a st2 o Hw H2 Ho) as (Q1 & Q2 & _ & _).
  split; [congruence|]. exists (fst (a_step cap a o)). auto.
Qed.

(* a growable buffer never reports ShortBuf *)
Lemma a_push_unbounded a ch : snd (a_push None a ch) <> Err E_ShortBuf.
Proof.
  unfold a_push, fits. destruct (254 <=? alen a)%nat; [discriminate|]. destruct (opn a).
  - destruct (63 <=? length b)%nat; discriminate.
  - destruct (253 <=? alen a)%nat; discriminate.
Qed.

Lemma a_pushes_unbounded l : forall a, snd (a_pushes None a l) <> Err E_ShortBuf.
Proof.
  induction l as [|ch l IH]; intros a; [discriminate|]. cbn [a_pushes].
  pose proof (a_push_unbounded a ch) as H.
  destruct (a_push None a ch) as [a1 [[]|e|p|]]; cbn [a_then snd] in *; auto.
Qed.

Lemma a_slice_unbounded a s : snd (a_slice None a s) <> Err E_ShortBuf.
Proof.
  unfold a_slice, fits. destruct s; [discriminate|]. destruct (opn a).
  - destruct (63 <? _)%nat; [discriminate|]. destruct (254 <? _)%nat; discriminate.
  - destruct (63 <? _)%nat; [discriminate|]. destruct (254 <? _)%nat; discriminate.
Qed.

Theorem unbounded_never_shortbuf st o : Inv st -> wf_op o -> snd (step None st o) <> Err E_ShortBuf.
Proof.
  intros (a & Hr & Hw & Hl) Ho.
  destruct (step_refines None a st o Hw Hr Ho) as (_ & R2 & _ & _). rewrite R2.
  destruct o; cbn [a_step snd].
  - apply a_push_unbounded.
  - apply a_slice_unbounded.
  - discriminate.
  - unfold a_label. pose proof (a_slice_unbounded (aend a) l) as H.
    destruct (a_slice None (aend a) l) as [a2 [[]|e|p|]]; cbn [snd] in *; auto; discriminate.
  - unfold a_dec. pose proof (a_pushes_unbounded (dec_digits v) (aend a)) as H.
    destruct (a_pushes None (aend a) (dec_digits v)) as [a2 [[]|e|p|]]; cbn [a_then snd] in *; auto; discriminate.
  - unfold a_hex. pose proof (a_pushes_unbounded [hex_char v] (aend a)) as H.
    destruct (a_pushes None (aend a) [hex_char v]) as [a2 [[]|e|p|]]; cbn [a_then snd] in *; auto; discriminate.
  - unfold a_name, fits. destruct (254 <? _)%nat; discriminate.
Qed.

(* ---------------------------------------------------------------- consuming operations *)
Definition final_name (a : astate) : name := closed (aend a).

Lemma final_valid a : avalid a -> valid_rel (final_name a).
Proof.
  intros [Hw Hl]. unfold final_name, valid_rel. split; [apply (awf_aend a Hw)|].
  pose proof (alen_aend a) as H. unfold alen in H at 1. rewrite opn_aend in H. lia.
Qed.

Theorem finish_spec a st : avalid a -> repr a st ->
  b_finish st = Ok (wire_rel (final_name a)) /\ valid_rel (final_name a).
Proof.
  intros Hv Hr. split; [|apply final_valid; exact Hv]. destruct Hv as [Hw _].
  destruct (end_ok a st Hw Hr) as (st1 & E1 & Hr1). unfold b_finish. rewrite E1.
  unfold repr in Hr1. rewrite opn_aend in Hr1. subst st1. reflexivity.
Qed.

Theorem into_name_spec cap a st : avalid a -> repr a st ->
  b_into_name cap st = (if fits cap a 1 then Ok (wire_abs (final_name a)) else Err E_ShortBuf) /\
  valid_abs (final_name a) /\
  decode_abs (wire_abs (final_name a)) = inl (Some (final_name a, [])).
Proof.
  intros Hv Hr. pose proof (final_valid a Hv) as Hf. destruct Hv as [Hw _].
  split; [|split; [exact Hf|]].
  - destruct (end_ok a st Hw Hr) as (st1 & E1 & Hr1). unfold b_into_name. rewrite E1.
    rewrite (raw_append_fits cap (aend a)) by (apply repr_len; exact Hr1).
    unfold fits. rewrite alen_aend. cbn [length]. unfold into_name_root.
    unfold repr in Hr1. rewrite opn_aend in Hr1. subst st1.
    destruct (match cap with Some c => (alen a + 1 <=? c)%nat | None => true end); reflexivity.
  - rewrite <- (app_nil_r (wire_abs _)). apply decode_wire_abs. exact Hf.
Qed.

Lemma compose_labels_snd0 c nm : forall b, (length b <= c)%nat -> Forall (fun l => (length l < 256)%nat) nm ->
  compose_labels (Some c) b nm =
  if (length b + wire_len nm <=? c)%nat then (b ++ wire_rel nm, true)
  else (fst (compose_labels (Some c) b nm), false).
Proof.
  induction nm as [|l nm IH]; intros b Hb Hv.
  - cbn [compose_labels wire_len]. rewrite app_nil_r.
    destruct (Nat.leb_spec (length b + 0) c); [reflexivity|lia].
  - inversion Hv as [|? ? Hl Hv']; subst. cbn [compose_labels wire_len].
    unfold compose_label, raw_append. cbn [length].
    destruct (Nat.leb_spec (length b + 1) c).
    + rewrite app_length. cbn [length].
      destruct (Nat.leb_spec (length b + 1 + length l) c).
      * rewrite IH by (try assumption; rewrite !app_length; cbn [length]; lia). rewrite !app_length. cbn [length].
        replace (length b + 1 + length l + wire_len nm)%nat with (length b + (S (length l) + wire_len nm))%nat by lia.
        destruct (length b + (S (length l) + wire_len nm) <=? c)%nat; [|reflexivity].
        f_equal. unfold wire_rel. cbn [map concat]. unfold wire_label.
        rewrite N.mod_small by lia. rewrite <- !app_assoc. reflexivity.
      * destruct (Nat.leb_spec (length b + (S (length l) + wire_len nm)) c); [lia|reflexivity].
    + destruct (Nat.leb_spec (length b + (S (length l) + wire_len nm)) c); [lia|reflexivity].
Qed.

Lemma compose_labels_snd c nm b : nm <> [] -> Forall (fun l => (length l < 256)%nat) nm ->
  compose_labels (Some c) b nm =
  if (length b + wire_len nm <=? c)%nat then (b ++ wire_rel nm, true)
  else (fst (compose_labels (Some c) b nm), false).
Proof.
  intros Hne Hv. destruct (Nat.le_gt_cases (length b) c) as [Hb|Hb]; [apply compose_labels_snd0; assumption|].
  destruct nm as [|l nm]; [contradiction|]. cbn [compose_labels wire_len].
  unfold compose_label, raw_append. cbn [length].
  destruct (Nat.leb_spec (length b + 1) c); [lia|].
  destruct (Nat.leb_spec (length b + (S (length l) + wire_len nm)) c); [lia|reflexivity].
Qed.

Lemma compose_labels_none nm : forall b, Forall (fun l => (length l < 256)%nat) nm ->
  compose_labels None b nm = (b ++ wire_rel nm, true).
Proof.
  induction nm as [|l nm IH]; intros b Hv.
  - cbn. rewrite app_nil_r. reflexivity.
  - inversion Hv as [|? ? Hl Hv']; subst. cbn [compose_labels].
    unfold compose_label, raw_append. rewrite IH; auto.
    f_equal. unfold wire_rel. cbn [map concat]. unfold wire_label.
    rewrite N.mod_small by lia. rewrite <- !app_assoc. reflexivity.
Qed.

Lemma origin_labels og : Forall valid_label og ->
  Forall (fun l => (length l < 256)%nat) (og ++ [[]]) /\
  wire_rel (og ++ [[]]) = wire_abs og /\ wire_len (og ++ [[]]) = S (wire_len og).
Proof.
  intros Hv. split; [|split].
  - apply Forall_app. split; [|repeat constructor; cbn; lia].
    eapply Forall_impl; [|exact Hv]. intros l [[H1 H2] _]. lia.
  - rewrite wire_rel_app. reflexivity.
  - rewrite wire_len_app. cbn. lia.
Qed.

Theorem append_origin_spec cap a st og : avalid a -> repr a st -> Forall valid_label og ->
  b_append_origin cap st og =
    (if (255 <? alen a + (wire_len og + 1))%nat then Err E_LongName
     else if fits cap a (wire_len og + 1) then Ok (wire_abs (final_name a ++ og))
     else Err E_ShortBuf) /\
  ((alen a + (wire_len og + 1) <= 255)%nat ->
     valid_abs (final_name a ++ og) /\
     decode_abs (wire_abs (final_name a ++ og)) = inl (Some (final_name a ++ og, []))).
Proof.
  intros Hv Hr Ho. pose proof (final_valid a Hv) as [Hf1 Hf2]. pose proof Hv as [Hw Hl].
  destruct (origin_labels og Ho) as (O1 & O2 & O3).
  assert (Hfl : wire_len (final_name a) = alen a).
  { pose proof (alen_aend a) as H. unfold alen in H at 1. rewrite opn_aend in H. unfold final_name. lia. }
  split.
  - destruct (end_ok a st Hw Hr) as (st1 & E1 & Hr1). unfold b_append_origin. rewrite E1.
    pose proof (repr_len _ _ Hr1) as Hlen. rewrite alen_aend in Hlen. rewrite Hlen.
    unfold append_origin_ge, append_origin_lim, name_max. rewrite exceeds_gt.
    destruct (Nat.ltb_spec 255 (alen a + (wire_len og + 1))); [reflexivity|].
    unfold repr in Hr1. rewrite opn_aend in Hr1. subst st1. cbn [buf] in *.
    unfold wire_abs at 1. rewrite wire_rel_app, <- app_assoc. fold (wire_abs og). rewrite <- O2.
    destruct cap as [c|].
    + rewrite compose_labels_snd by (try exact O1; destruct og; discriminate). rewrite Hlen, O3. unfold fits.
      replace (alen a + S (wire_len og))%nat with (alen a + (wire_len og + 1))%nat by lia.
      destruct (alen a + (wire_len og + 1) <=? c)%nat; reflexivity.
    + rewrite compose_labels_none by exact O1. reflexivity.
  - intros Hle.
    assert (Hva : valid_abs (final_name a ++ og)).
    { split; [apply Forall_app; split; assumption|]. rewrite wire_len_app. lia. }
    split; [exact Hva|]. rewrite <- (app_nil_r (wire_abs _)). apply decode_wire_abs. exact Hva.
Qed.

(* ---------------------------------------------------------------- run-level corollaries *)
Theorem finish_valid cap ops : Forall wf_op ops -> hits_relname_255 cap ops = false ->
  exists n, b_finish (run cap b_init ops) = Ok (wire_rel n) /\ valid_rel n /\
            n = final_name (a_run cap a_init ops).
Proof.
  intros Ho Hh. destruct (inv_run cap ops a_init b_init avalid_init repr_init Ho Hh) as [Hr Hv].
  destruct (finish_spec _ _ Hv Hr) as [H1 H2]. eauto.
Qed.

Theorem into_name_valid cap ops : Forall wf_op ops -> hits_relname_255 cap ops = false ->
  exists n, valid_abs n /\ decode_abs (wire_abs n) = inl (Some (n, [])) /\
    (b_into_name cap (run cap b_init ops) = Ok (wire_abs n) \/
     (cap <> None /\ b_into_name cap (run cap b_init ops) = Err E_ShortBuf)).
Proof.
  intros Ho Hh. destruct (inv_run cap ops a_init b_init avalid_init repr_init Ho Hh) as [Hr Hv].
  destruct (into_name_spec cap _ _ Hv Hr) as (H1 & H2 & H3).
  exists (final_name (a_run cap a_init ops)). split; [exact H2|]. split; [exact H3|].
  rewrite H1. unfold fits. destruct cap as [c|]; [|left; reflexivity].
  destruct (_ <=? c)%nat; [left; reflexivity|right; split; [discriminate|reflexivity]].
Qed.

Theorem append_origin_valid cap ops og w : Forall wf_op ops -> hits_relname_255 cap ops = false ->
  Forall valid_label og -> b_append_origin cap (run cap b_init ops) og = Ok w ->
  exists n, w = wire_abs n /\ valid_abs n /\ decode_abs w = inl (Some (n, [])) /\
            n = final_name (a_run cap a_init ops) ++ og.
Proof.
  intros Ho Hh Hog Hw. destruct (inv_run cap ops a_init b_init avalid_init repr_init Ho Hh) as [Hr Hv].
  destruct (append_origin_spec cap _ _ og Hv Hr Hog) as (H1 & H2).
  rewrite H1 in Hw. destruct (Nat.ltb_spec 255 (alen (a_run cap a_init ops) + (wire_len og + 1))); [discriminate|].
  destruct (fits cap _ _); [|discriminate]. injection Hw as <-.
  destruct (H2 ltac:(lia)) as [V D]. eauto.
Qed.

(* ---------------------------------------------------------------- the known class and other witnesses *)
Definition st250 : bstate := run None b_init (repeat (OLabel lab9) 25).

Theorem builder_limit_refuted :
  hits_relname_255 None limit_witness = true /\
  Forall wf_op limit_witness /\
  exists w, b_finish (run None b_init limit_witness) = Ok w /\ length w = 255%nat /\
            (forall n, valid_rel n -> w <> wire_rel n) /\
            exists w', b_into_name None (run None b_init limit_witness) = Ok w' /\ length w' = 256%nat.
Proof.
  split; [vm_compute; reflexivity|]. split.
  { unfold limit_witness. apply Forall_app. split.
    - apply Forall_forall. intros o Hin. apply repeat_spec in Hin. subst o. cbn. unfold lab9, wf_bytes. repeat constructor.
    - repeat constructor. }
  eexists. split; [vm_compute; reflexivity|]. split; [vm_compute; reflexivity|]. split.
  - intros n [_ Hl] He. apply (f_equal (@length N)) in He. rewrite wire_rel_length in He.
    match type of He with ?L = _ => assert (HL : L = 255%nat) by (vm_compute; reflexivity) end. lia.
  - eexists. split; vm_compute; reflexivity.
Qed.

(* append_dec_u8_label / append_hex_digit_label are not atomic on error: the
   builder stays valid (error_leaves_usable) but is not the builder it was *)
Theorem dec_hex_error_not_atomic_refuted :
  (exists st st' e, Inv st /\ step None st (ODec 123) = (st', Err e) /\ b_finish st' <> b_finish st) /\
  (exists st st' e, Inv st /\ step None st (OHex 5) = (st', Err e) /\
      snd (step None st' (OPush 99)) <> snd (step None st (OPush 99))).
Proof.
  split.
  - exists (run None b_init (repeat (OLabel lab9) 25 ++ [OLabel [49%N]])). eexists. eexists.
    split; [|split; [vm_compute; reflexivity|vm_compute; discriminate]].
    apply builder_inv; [|vm_compute; reflexivity].
    apply Forall_app. split; [|repeat constructor].
    apply Forall_forall. intros o Hin. apply repeat_spec in Hin. subst o. cbn. unfold lab9, wf_bytes. repeat constructor.
  - exists (run None b_init (repeat (OLabel lab9) 25 ++ [OPush 97; OPush 98])). eexists. eexists.
    split; [|split; [vm_compute; reflexivity|vm_compute; discriminate]].
    apply builder_inv; [|vm_compute; reflexivity].
    apply Forall_app. split; [|repeat constructor; cbn; lia].
    apply Forall_forall. intros o Hin. apply repeat_spec in Hin. subst o. cbn. unfold lab9, wf_bytes. repeat constructor.
Qed.

(* ---------------------------------------------------------------- non-vacuity *)
Example builder_example :
  let ops := [OPush 119; OSlice [119; 119]; OLabel [101; 120]; OSlice [99]; ODec 205; OHex 10; OName [[97]; [98]]]%N in
  hits_relname_255 None ops = false /\
  b_finish (run None b_init ops) = Ok [3; 119; 119; 119; 2; 101; 120; 1; 99; 3; 50; 48; 53; 1; 65; 1; 97; 1; 98]%N /\
  step (Some 3) (run (Some 3) b_init [OPush 1; OPush 2]%N) (OPush 3)%N =
    (run (Some 3) b_init [OPush 1; OPush 2]%N, Err E_ShortBuf) /\
  snd (step None st250 (OLabel [49; 50; 51; 52; 53]%N)) = Err E_LongName /\
  snd (step None (run None b_init [OSlice (repeat 7%N 63)]) (OSlice [1%N])) = Err E_LongLabel.
Proof. vm_compute. repeat split; reflexivity. Qed.
