(* C03 -- names taken from a message: every ParsedName that parse_ref accepts
   flattens (to_name / flatten_into / compose over its label iterator) to a valid
   absolute name of exactly the cached length.  Uses C01's soundness theorem
   for the shared model of parse_ref (Base/PName.v). *)
From Coq Require Import NArith List Bool Arith Lia ZArith.
From Coq Require Import ZifyN ZifyBool ZifyNat.
From DV Require Import Base.Outcome Base.Bytes Base.Names Base.PName C01.Model C01.Proofs.
Import ListNotations.
Local Open Scope N_scope.

(* ParsedName::to_name / flatten_into / compose by iterating the labels: the
   labels are composed one after the other, the iterator ends with the root *)
Definition parsed_to_name (m : bytes) (p : pname) : outcome bytes :=
  do r <- pname_labels m p; Ok (wire_abs (fst r)).

Theorem parsed_name_valid m pos lim p : parse_ref m pos lim = Ok p -> lim <= mlen m -> wf_bytes m ->
  exists n, parsed_to_name m p = Ok (wire_abs n) /\ valid_abs n /\
            N.of_nat (length (wire_abs n)) = pn_len p.
Proof.
  intros H Hl Hw. destruct (parse_ref_sound m pos lim p H Hl Hw) as (labels & E & Hv & Hlen & Hmax).
  exists labels. unfold parsed_to_name. rewrite E. cbn [bind fst]. split; [reflexivity|]. split.
  - split; [exact Hv|lia].
  - rewrite wire_abs_length. lia.
Qed.
