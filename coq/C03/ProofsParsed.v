(* C03 -- names taken from a message: every ParsedName that parse_ref accepts
   flattens (to_name / flatten_into / compose over its label iterator) to a valid
   absolute name of exactly the cached length.  Uses C01's soundness theorem
   for the shared model of parse_ref (Base/PName.v). *)
From Coq Require Import NArith List Bool Arith Lia ZArith.
From Coq Require Import ZifyN ZifyBool ZifyNat.
From DV Require Import Base.Outcome Base.Bytes Base.Names Base.PName C01.Model C01.Proofs C04.ProofsIter C04.ProofsParsed C04.ProofsCompressed.
Import ListNotations.
Local Open Scope N_scope.

(* ParsedName::to_name / flatten_into / compose by iterating the labels: the
   labels are composed one after the other, the iterator ends with the root *)
Definition parsed_to_name (m : bytes) (p : pname) : outcome bytes :=
  do r <- pname_labels m p; Ok (wire_abs (fst r)).

Theorem parsed_name_valid m pos lim p : parse_ref m pos lim = Ok p -> lim <= mlen m -> wf_bytes m ->
  exists n, parsed_to_name m p = Ok (wire_abs n) /\ valid_abs n /\
            N.of_nat (length (wire_abs n)) = pn_len p.
Proof.
  intros H Hl Hw. destruct (parse_ref_sound m pos lim p H Hl Hw) as (labels & E & Hv & Hlen & Hmax).
  exists labels. unfold parsed_to_name. rewrite E. cbn [bind fst]. split; [reflexivity|]. split.
  - split; [exact Hv|lia].
  - rewrite wire_abs_length. lia.
Qed.

(* ---- the as_flat_slice fast path.  ParsedName::to_name / flatten_into /
   to_cow / compose copy octets[pos .. pos + name_len] when the name is flagged
   uncompressed and iterate the labels otherwise.  C04 proved that an
   uncompressed ParsedName is one contiguous run of labels (flat_ok). *)
Definition parsed_flatten (m : bytes) (p : pname) : outcome bytes :=
  if pn_compressed p then parsed_to_name m p
  else if mlen m <? pn_pos p + pn_len p then Panic 13     (* slice out of range *)
  else Ok (slice m (pn_pos p) (pn_pos p + pn_len p)).

Theorem parsed_flatten_valid m pos lim p : parse_ref m pos lim = Ok p -> lim <= mlen m -> wf_bytes m ->
  exists n, valid_abs n /\ parsed_flatten m p = Ok (wire_abs n) /\ parsed_to_name m p = Ok (wire_abs n) /\
            N.of_nat (length (wire_abs n)) = pn_len p.
Proof.
  intros H Hl Hw.
  destruct (C04.ProofsCompressed.parsed_inv m pos lim p H Hl Hw) as (n & Hv & Hp & _ & Hf).
  destruct (parse_ref_sound m pos lim p H Hl Hw) as (n' & Hp' & _ & Hlen & _).
  rewrite Hp in Hp'. injection Hp' as <-.
  assert (Ht : parsed_to_name m p = Ok (wire_abs n)) by (unfold parsed_to_name; rewrite Hp; reflexivity).
  exists n. split; [exact Hv|]. split; [|split; [exact Ht|rewrite wire_abs_length; lia]].
  unfold parsed_flatten. destruct (pn_compressed p) eqn:C; [exact Ht|].
  destruct (Hf C) as [Hr Hs]. rewrite C04.ProofsIter.wire_labels_abs in Hs.
  destruct (N.ltb_spec (mlen m) (pn_pos p + pn_len p)); [lia|]. rewrite Hs. reflexivity.
Qed.
