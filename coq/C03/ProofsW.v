(* C03 proofs, widening round W: totality and exactness of the wire-side
   constructors (Name::parse on a parser, UncertainName::from_octets), and
   split-then-chain round trips. *)
From Coq Require Import NArith List Bool Arith Lia ZArith.
From Coq Require Import ZifyN ZifyBool ZifyNat.
From DV Require Import Base.Outcome Base.Bytes Base.Names C03.Gen C03.Model C03.ModelWire C03.Spec
  C03.ProofsBuilder C03.ProofsWire C03.ModelSlice C03.ProofsSlice.
Import ListNotations.
Ltac Zify.zify_post_hook ::= Z.div_mod_to_equations.

(* ---- Name::parse: complete on the wire form of every valid name, whatever follows *)
Lemma wire_abs_cons_label l n : wire_abs (l :: n) = wire_label l ++ wire_abs n.
Proof. unfold wire_abs, wire_rel. cbn [map concat]. rewrite <- app_assoc. reflexivity. Qed.

Lemma nparse_loop_complete n : forall f rest c, Forall valid_label n -> (length n < f)%nat ->
  nparse_loop f (wire_abs n ++ rest) c = Ok (c + length (wire_abs n))%nat.
Proof.
  induction n as [|l n IH]; intros f rest c Hv Hf; (destruct f as [|f]; [lia|]).
  - cbn. f_equal. lia.
  - inversion Hv as [|? ? [[H1 H2] Hb] Hv']; subst. cbn [nparse_loop].
    rewrite wire_abs_cons_label, <- app_assoc.
    assert (He : is_empty (wire_label l ++ wire_abs n ++ rest) = false) by reflexivity.
    rewrite He. rewrite split_from_wire by lia.
    destruct l as [|x l']; [cbn in H1; lia|]. cbn [is_root].
    rewrite IH by (try assumption; cbn [length] in Hf; lia).
    f_equal. rewrite app_length, !wire_abs_length. unfold wire_label. cbn [length wire_len]. lia.
Qed.

Theorem name_parse_roundtrip n rest : valid_abs n ->
  name_parse (wire_abs n ++ rest) = Ok (wire_abs n).
Proof.
  intros [Hv Hl]. unfold name_parse.
  rewrite nparse_loop_complete.
  - cbn [bind Nat.add]. unfold name_parse_ge, name_parse_lim, name_max. rewrite exceeds_gt.
    rewrite wire_abs_length. destruct (Nat.ltb_spec 255 (S (wire_len n))); [lia|].
    rewrite <- (wire_abs_length n). f_equal. apply take_app_length.
  - exact Hv.
  - rewrite app_length, wire_abs_length. pose proof (labels_le_wire n). lia.
Qed.

Theorem name_parse_iff b w : wf_bytes b ->
  (name_parse b = Ok w <-> exists n rest, valid_abs n /\ w = wire_abs n /\ b = w ++ rest).
Proof.
  intros Hw. split; [apply name_parse_valid; exact Hw|].
  intros (n & rest & Hn & -> & ->). apply name_parse_roundtrip. exact Hn.
Qed.

Example name_parse_roundtrip_ex :
  name_parse (wire_abs [[119;119;119]; [97]] ++ [1;2])%N = Ok (wire_abs [[119;119;119]; [97]])%N.
Proof. reflexivity. Qed.

(* ---- no panic, enough fuel: Name::parse and UncertainName::from_octets on any octets *)
Lemma nparse_loop_fuel f : forall b c, (length b < f)%nat -> no_panic (nparse_loop f b c).
Proof.
  induction f as [|f IH]; intros b c Hf; [lia|]. cbn [nparse_loop].
  destruct b as [|h t]; [exact I|]. cbn [is_empty]. unfold split_from.
  destruct (h <=? split_normal_hi)%N.
  - destruct (Nat.ltb_spec (length (h :: t)) (N.to_nat h + split_end_add)); [exact I|].
    destruct (is_root _); [exact I|]. apply IH.
    rewrite skipn_length. cbn [length] in *. lia.
  - destruct (_ && _); [exact I|]. destruct (_ && _); [|exact I].
    destruct (_ <? _)%nat; exact I.
Qed.

Theorem name_parse_total b : no_panic (name_parse b).
Proof.
  unfold name_parse.
  pose proof (nparse_loop_fuel (S (length b)) b 0 ltac:(lia)) as H.
  destruct (nparse_loop (S (length b)) b 0); cbn [bind]; try exact H.
  destruct (exceeds _ _ _); exact I.
Qed.

Lemma unc_loop_fuel f len : forall b, (length b < f)%nat -> no_panic (unc_loop f len b).
Proof.
  induction f as [|f IH]; intros b Hf; [lia|]. cbn [unc_loop].
  unfold split_from. destruct b as [|h t]; [exact I|].
  destruct (h <=? split_normal_hi)%N.
  - destruct (Nat.ltb_spec (length (h :: t)) (N.to_nat h + split_end_add)); [exact I|].
    destruct (is_root _); [destruct (is_empty _); exact I|].
    destruct (is_empty _); [destruct (_ && _); exact I|]. apply IH.
    rewrite skipn_length. cbn [length] in *. lia.
  - destruct (_ && _); [exact I|]. destruct (_ && _); [|exact I].
    destruct (_ <? _)%nat; exact I.
Qed.

Theorem uncertain_check_total b : no_panic (uncertain_check b).
Proof.
  unfold uncertain_check. destruct (exceeds _ _ _); [exact I|].
  apply unc_loop_fuel. lia.
Qed.

Example total_ex : no_panic (name_parse [192; 12]%N) /\ no_panic (uncertain_check [64]%N) /\
  name_parse [192; 12]%N = Err W_CompressedName /\ uncertain_check [64]%N = Err W_BadLabel.
Proof. repeat split. Qed.

(* ---- UncertainName::from_octets: the relative verdict is exact *)
Lemma unc_loop_complete_rel n : forall f len, Forall valid_label n -> n <> [] -> (length n < f)%nat ->
  exceeds uncertain_rel_ge len uncertain_rel_lim = false ->
  unc_loop f len (wire_rel n) = Ok false.
Proof.
  induction n as [|l n IH]; intros f len Hv Hne Hf Hlen; [congruence|].
  destruct f as [|f]; [lia|].
  inversion Hv as [|? ? [[H1 H2] Hb] Hv']; subst. cbn [unc_loop].
  replace (wire_rel (l :: n)) with (wire_label l ++ wire_rel n) by reflexivity.
  rewrite split_from_wire by lia.
  destruct l as [|x l']; [cbn in H1; lia|]. cbn [is_root].
  destruct n as [|l2 n'].
  - cbn [wire_rel map concat is_empty]. rewrite Hlen, andb_false_r. reflexivity.
  - assert (He : is_empty (wire_rel (l2 :: n')) = false) by reflexivity.
    rewrite He. apply IH; [assumption|discriminate|cbn [length] in *; lia|exact Hlen].
Qed.

Theorem uncertain_relative_iff b : wf_bytes b ->
  (uncertain_check b = Ok false <-> exists n, valid_rel n /\ n <> [] /\ b = wire_rel n).
Proof.
  intros Hw. split; [apply uncertain_relative_valid_full; exact Hw|].
  intros (n & [Hv Hl] & Hne & ->). unfold uncertain_check, uncertain_ge, uncertain_lim.
  rewrite exceeds_gt, wire_rel_length.
  match goal with |- context [(?a <? ?x)%nat] => destruct (Nat.ltb_spec a x) as [Hlt|Hge] end.
  - exfalso. revert Hlt. unfold name_max. lia.
  - apply unc_loop_complete_rel; [exact Hv|exact Hne|pose proof (labels_le_wire n); lia|].
    unfold uncertain_rel_ge, uncertain_rel_lim. rewrite exceeds_gt.
    match goal with |- (?a <? ?x)%nat = false => destruct (Nat.ltb_spec a x) as [Hlt2|Hge2] end; [|reflexivity].
    exfalso. revert Hlt2. unfold name_max. lia.
Qed.

Example uncertain_relative_ex : uncertain_check (wire_rel [[119;119;119]; [97]])%N = Ok false.
Proof. reflexivity. Qed.

(* ---- split at any accepted index, then chain the halves: accepted, and the
   composed octets are the original name *)
Theorem split_chain_roundtrip absolute n i l r : valid_rel n ->
  n_split absolute (wire_of absolute n) i = Ok (l, r) ->
  l ++ r = wire_of absolute n /\ chain_new (length l) (length r) = Ok tt /\
  (exists a, valid_rel a /\ l = wire_rel a) /\ (exists c, valid_rel c /\ r = wire_of absolute c).
Proof.
  intros Hn E. pose proof (split_spec absolute n i Hn) as H. rewrite E in H.
  destruct H as (k & Hk & -> & -> & -> & Hf & Hs).
  assert (Hcat : wire_rel (firstn k n) ++ wire_of absolute (skipn k n) = wire_of absolute n).
  { unfold wire_of. rewrite app_assoc, <- wire_rel_app, firstn_skipn. reflexivity. }
  split; [exact Hcat|]. split.
  - unfold chain_new, chain_ge, chain_lim, name_max. rewrite exceeds_gt.
    rewrite <- app_length, Hcat. unfold wire_of. rewrite app_length, wire_rel_length.
    destruct Hn as [_ Hl].
    destruct (Nat.ltb_spec 255 (wire_len n + length (if absolute then [0%N] else []))) as [Hlt|]; [|reflexivity].
    exfalso. destruct absolute; cbn [length] in Hlt; lia.
  - split; [exists (firstn k n)|exists (skipn k n)]; auto.
Qed.

Example split_chain_ex :
  n_split true (wire_of true [[119;119;119]; [97]])%N 4 = Ok ([3;119;119;119], [1;97;0])%N.
Proof. reflexivity. Qed.

(* ---- Chain::new is exact for an absolute right side, and complete for a
   relative one: a chain whose composed name is valid is never refused *)
Theorem chain_abs_iff l r : valid_rel l -> valid_abs r ->
  (chain_new (wire_len l) (wire_len r + 1) = Ok tt <-> valid_abs (l ++ r)).
Proof.
  intros Hl Hr. split; [apply chain_abs_valid; assumption|].
  intros [_ Hlen]. rewrite wire_len_app in Hlen.
  unfold chain_new, chain_ge, chain_lim, name_max. rewrite exceeds_gt.
  destruct (Nat.ltb_spec 255 (wire_len l + (wire_len r + 1))); [lia|reflexivity].
Qed.

Theorem chain_rel_complete l r : valid_rel (l ++ r) -> chain_new (wire_len l) (wire_len r) = Ok tt.
Proof.
  intros [_ Hlen]. rewrite wire_len_app in Hlen.
  unfold chain_new, chain_ge, chain_lim, name_max. rewrite exceeds_gt.
  destruct (Nat.ltb_spec 255 (wire_len l + wire_len r)); [lia|reflexivity].
Qed.

Example chain_iff_ex : chain_new 250 6 = Err W_LongChain /\ chain_new 250 5 = Ok tt.
Proof. split; reflexivity. Qed.

(* ---- conversions between the representations are inverse to each other, and
   truncate at the split point followed by the rest is the name again *)
Theorem relative_absolute_roundtrip n : valid_abs n ->
  (do r <- n_into_relative (wire_abs n); n_into_absolute None r) = Ok (wire_abs n) /\
  (do a <- n_into_absolute None (wire_rel n); n_into_relative a) = Ok (wire_rel n) /\
  (do r <- n_into_relative (wire_abs n); n_chain_root r) = Ok (wire_abs n).
Proof.
  intros Hn. destruct (into_relative_spec n Hn) as [H1 _]. destruct (into_absolute_spec n Hn) as [H2 _].
  destruct (chain_root_spec n Hn) as [H3 _].
  rewrite H1, H2. cbn [bind]. rewrite H1, H2, H3. auto.
Qed.

Example relative_absolute_ex :
  (do r <- n_into_relative [1;97;0]%N; n_into_absolute None r) = Ok [1;97;0]%N.
Proof. reflexivity. Qed.
