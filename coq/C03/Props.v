(* C03 -- property theorems only.  Proofs live in C03/Proofs*.v. *)
From Coq Require Import NArith List Bool Arith.
From DV Require Import Base.Outcome Base.Bytes Base.Names C03.Gen C03.Model C03.Spec
  C03.ProofsBuilder C03.ProofsBuilder2 C03.ModelWire C03.ProofsWire C03.ModelText C03.ProofsText C03.ModelSlice C03.ProofsSlice Base.PName C03.ProofsParsed.
Import ListNotations.

(* the transcribed NameBuilder code refines the abstract builder, for every
   operation, every capacity, with equal results; it never panics *)
Theorem C03_builder_refines_spec : forall cap a st o, awf a -> repr a st -> wf_op o ->
  repr (fst (a_step cap a o)) (fst (step cap st o)) /\
  snd (step cap st o) = snd (a_step cap a o) /\
  awf (fst (a_step cap a o)) /\ okerr (snd (a_step cap a o)).
Proof. exact step_refines. Qed.
Print Assumptions C03_builder_refines_spec.

Theorem C03_builder_no_panic : forall cap a st o, awf a -> repr a st -> wf_op o ->
  okerr (snd (step cap st o)).
Proof. exact step_no_panic. Qed.
Print Assumptions C03_builder_no_panic.

(* invariant over arbitrary operation lists, excluding exactly the known class *)
Theorem C03_builder_inv : forall cap ops, Forall wf_op ops -> hits_relname_255 cap ops = false ->
  Inv (run cap b_init ops).
Proof. exact builder_inv. Qed.
Print Assumptions C03_builder_inv.

Theorem C03_known_class_exact : forall cap st o, Inv st -> wf_op o ->
  (gap_step cap st o = true <-> (254 < length (buf (fst (step cap st o))))%nat).
Proof. exact gap_exact. Qed.
Print Assumptions C03_known_class_exact.

Theorem C03_error_leaves_usable : forall cap st o st' e, Inv st -> wf_op o ->
  step cap st o = (st', Err e) ->
  Inv st' /\
  (atomic_op o = true ->
     (forall a, awf a -> repr a st -> repr a st') /\ same_but_placeholder st st').
Proof. exact error_leaves_usable. Qed.
Print Assumptions C03_error_leaves_usable.

Theorem C03_same_abstract_same_behaviour : forall cap a st1 st2 o,
  awf a -> repr a st1 -> repr a st2 -> wf_op o ->
  snd (step cap st1 o) = snd (step cap st2 o) /\
  exists a', awf a' /\ repr a' (fst (step cap st1 o)) /\ repr a' (fst (step cap st2 o)).
Proof. exact same_abstract_same_behaviour. Qed.
Print Assumptions C03_same_abstract_same_behaviour.

Theorem C03_unbounded_never_shortbuf : forall st o, Inv st -> wf_op o ->
  snd (step None st o) <> Err E_ShortBuf.
Proof. exact unbounded_never_shortbuf. Qed.
Print Assumptions C03_unbounded_never_shortbuf.

Theorem C03_finish_valid : forall cap ops, Forall wf_op ops -> hits_relname_255 cap ops = false ->
  exists n, b_finish (run cap b_init ops) = Ok (wire_rel n) /\ valid_rel n /\
            n = final_name (a_run cap a_init ops).
Proof. exact finish_valid. Qed.
Print Assumptions C03_finish_valid.

Theorem C03_into_name_valid : forall cap ops, Forall wf_op ops -> hits_relname_255 cap ops = false ->
  exists n, valid_abs n /\ decode_abs (wire_abs n) = inl (Some (n, [])) /\
    (b_into_name cap (run cap b_init ops) = Ok (wire_abs n) \/
     (cap <> None /\ b_into_name cap (run cap b_init ops) = Err E_ShortBuf)).
Proof. exact into_name_valid. Qed.
Print Assumptions C03_into_name_valid.

Theorem C03_append_origin_valid : forall cap ops og w, Forall wf_op ops ->
  hits_relname_255 cap ops = false -> Forall valid_label og ->
  b_append_origin cap (run cap b_init ops) og = Ok w ->
  exists n, w = wire_abs n /\ valid_abs n /\ decode_abs w = inl (Some (n, [])) /\
            n = final_name (a_run cap a_init ops) ++ og.
Proof. exact append_origin_valid. Qed.
Print Assumptions C03_append_origin_valid.

(* the known finding relname_255_new_label: 25 x append_label "123456789",
   append_label "1234" -> finish gives 255 octets, into_name 256 *)
Theorem C03_builder_limit_refuted :
  hits_relname_255 None limit_witness = true /\
  Forall wf_op limit_witness /\
  exists w, b_finish (run None b_init limit_witness) = Ok w /\ length w = 255%nat /\
            (forall n, valid_rel n -> w <> wire_rel n) /\
            exists w', b_into_name None (run None b_init limit_witness) = Ok w' /\ length w' = 256%nat.
Proof. exact builder_limit_refuted. Qed.
Print Assumptions C03_builder_limit_refuted.

Theorem C03_dec_hex_error_not_atomic_refuted :
  (exists st st' e, Inv st /\ step None st (ODec 123) = (st', Err e) /\ b_finish st' <> b_finish st) /\
  (exists st st' e, Inv st /\ step None st (OHex 5) = (st', Err e) /\
      snd (step None st' (OPush 99)) <> snd (step None st (OPush 99))).
Proof. exact dec_hex_error_not_atomic_refuted. Qed.
Print Assumptions C03_dec_hex_error_not_atomic_refuted.

(* ---- validating constructors: Name::from_octets / from_slice and
   RelativeName::from_octets / from_slice accept exactly the wire forms of
   valid names; total *)
Theorem C03_check_abs_iff : forall b, wf_bytes b ->
  (check_abs b = Ok tt <-> exists n, valid_abs n /\ b = wire_abs n).
Proof. exact check_abs_iff. Qed.
Print Assumptions C03_check_abs_iff.

Theorem C03_check_rel_iff : forall b, wf_bytes b ->
  (check_rel b = Ok tt <-> exists n, valid_rel n /\ b = wire_rel n).
Proof. exact check_rel_iff. Qed.
Print Assumptions C03_check_rel_iff.

Theorem C03_check_total : forall b, no_panic (check_abs b) /\ no_panic (check_rel b).
Proof. exact check_total. Qed.
Print Assumptions C03_check_total.

Theorem C03_label_from_slice_iff : forall s, label_from_slice s = Ok s <-> (length s <= 63)%nat.
Proof. exact label_from_slice_iff. Qed.
Print Assumptions C03_label_from_slice_iff.

Theorem C03_chain_abs_valid : forall l r, valid_rel l -> valid_abs r ->
  chain_new (wire_len l) (wire_len r + 1) = Ok tt -> valid_abs (l ++ r).
Proof. exact chain_abs_valid. Qed.
Print Assumptions C03_chain_abs_valid.

Theorem C03_chain_rel_valid : forall l r, valid_rel l -> valid_rel r ->
  chain_new (wire_len l) (wire_len r) = Ok tt -> chain_relative_255 l r = false -> valid_rel (l ++ r).
Proof. exact chain_rel_valid. Qed.
Print Assumptions C03_chain_rel_valid.

(* the known finding chain_relative_255 *)
Theorem C03_chain_limit_refuted :
  let l := repeat lab9w 25 in let r := [[49;50;51;52]%N] in
  valid_rel l /\ valid_rel r /\ chain_new (wire_len l) (wire_len r) = Ok tt /\
  chain_relative_255 l r = true /\ ~ valid_rel (l ++ r).
Proof. exact chain_limit_refuted. Qed.
Print Assumptions C03_chain_limit_refuted.

(* ---- round trips *)
Theorem C03_display_parse_roundtrip : forall n, valid_abs n ->
  name_from_chars None (display_name n) = Ok (wire_abs n).
Proof. exact display_parse_roundtrip. Qed.
Print Assumptions C03_display_parse_roundtrip.

Theorem C03_wire_roundtrip : forall n, valid_abs n ->
  check_abs (wire_abs n) = Ok tt /\ decode_abs (wire_abs n) = inl (Some (n, [])) /\
  check_rel (wire_rel n) = Ok tt.
Proof. exact wire_roundtrip. Qed.
Print Assumptions C03_wire_roundtrip.

(* whatever the string, a name returned by Name::from_chars (FromStr),
   RelativeName::from_chars or UncertainName::from_chars is valid *)
Theorem C03_from_chars_valid : forall cs,
  (forall w, name_from_chars None cs = Ok w -> exists n, valid_abs n /\ w = wire_abs n) /\
  (forall w, rel_from_chars None cs = Ok w -> exists n, valid_rel n /\ w = wire_rel n) /\
  (forall f w, uncertain_from_chars None cs = Ok (f, w) ->
      exists n, valid_rel n /\ w = if f then wire_abs n else wire_rel n).
Proof. exact from_chars_valid. Qed.
Print Assumptions C03_from_chars_valid.

(* the literals at the message / zone-file name sites agree with the limits *)
Theorem C03_message_zonefile_limits : forall s c : nat,
  (exceeds parse_ref_phase1_ge s parse_ref_phase1_lim = false <-> (s + 1 <= name_max)%nat) /\
  (exceeds parse_ref_phase2_ge s parse_ref_phase2_lim = false <-> (s + 1 <= name_max)%nat) /\
  (exceeds name_parse_ge s name_parse_lim = false <-> (s <= name_max)%nat) /\
  (exceeds zf_label_fast_ge (1 + c) (1 + zf_label_latest_add) = false <-> (c <= label_max)%nat) /\
  (exceeds zf_label_slow_ge (1 + c) (1 + zf_label_latest_add) = false <-> (c <= label_max)%nat) /\
  (exceeds zf_name_ge s zf_name_lim = false <-> (s <= check_rel_lim)%nat) /\
  ((s =? c + zf_empty_label_add)%nat = true <-> s = S c).
Proof. exact message_zonefile_limits. Qed.
Print Assumptions C03_message_zonefile_limits.

(* ---- slicing at label boundaries (absolute = true: Name, false: RelativeName;
   wire_of true n = wire_abs n, wire_of false n = wire_rel n) *)
Theorem C03_is_label_start_spec : forall absolute n i, Forall valid_label n ->
  is_label_start absolute (wire_of absolute n) i = Ok ((i =? 0)%nat || is_start n i) /\
  (((i =? 0)%nat || is_start n i = true) <-> at_label n i).
Proof. exact is_label_start_full. Qed.
Print Assumptions C03_is_label_start_spec.

Theorem C03_split_spec : forall absolute n i, valid_rel n ->
  match n_split absolute (wire_of absolute n) i with
  | Ok (l, r) => exists k, (k <= length n)%nat /\ i = wire_len (firstn k n) /\
                   l = wire_rel (firstn k n) /\ r = wire_of absolute (skipn k n) /\
                   valid_rel (firstn k n) /\ valid_rel (skipn k n)
  | Panic p => p = 8%N /\ ~ at_label n i
  | _ => False
  end.
Proof. exact split_spec. Qed.
Print Assumptions C03_split_spec.

Theorem C03_truncate_spec : forall absolute n i, valid_rel n ->
  match n_truncate absolute (wire_of absolute n) i with
  | Ok l => exists k, (k <= length n)%nat /\ i = wire_len (firstn k n) /\
              l = wire_rel (firstn k n) /\ valid_rel (firstn k n)
  | Panic p => p = 8%N /\ ~ at_label n i
  | _ => False
  end.
Proof. exact truncate_spec. Qed.
Print Assumptions C03_truncate_spec.

Theorem C03_range_from_spec : forall n i, valid_abs n ->
  match n_range_from (wire_abs n) i with
  | Ok r => exists k, (k <= length n)%nat /\ i = wire_len (firstn k n) /\
              r = wire_abs (skipn k n) /\ valid_abs (skipn k n)
  | Panic p => p = 8%N /\ ~ at_label n i
  | _ => False
  end.
Proof. exact range_from_spec. Qed.
Print Assumptions C03_range_from_spec.

Theorem C03_range_spec : forall absolute n lo hi, valid_rel n ->
  match n_range absolute (wire_of absolute n) lo hi with
  | Ok r => exists k1 k2, (k1 <= k2 <= length n)%nat /\
              lo_of lo = wire_len (firstn k1 n) /\ hi_of (wire_of absolute n) hi = wire_len (firstn k2 n) /\
              r = wire_rel (firstn (k2 - k1) (skipn k1 n)) /\ valid_rel (firstn (k2 - k1) (skipn k1 n))
  | Panic p =>
      (p = 8%N /\ (~ at_label n (lo_of lo) \/ ~ at_label n (hi_of (wire_of absolute n) hi))) \/
      (p = 9%N /\ (hi_of (wire_of absolute n) hi < lo_of lo)%nat) \/
      (p = 10%N /\ absolute = true /\ hi = EUnb)
  | _ => False
  end.
Proof. exact range_spec. Qed.
Print Assumptions C03_range_spec.

Theorem C03_parent_spec : forall absolute n, valid_rel n ->
  n_parent absolute (wire_of absolute n) =
    Ok (match n with [] => None | _ :: n' => Some (wire_of absolute n') end) /\
  match n with [] => True | _ :: n' => valid_rel n' end.
Proof. exact parent_spec. Qed.
Print Assumptions C03_parent_spec.

Theorem C03_into_relative_spec : forall n, valid_abs n ->
  n_into_relative (wire_abs n) = Ok (wire_rel n) /\ valid_rel n.
Proof. exact into_relative_spec. Qed.
Print Assumptions C03_into_relative_spec.

Theorem C03_into_absolute_spec : forall n, valid_rel n ->
  n_into_absolute None (wire_rel n) = Ok (wire_abs n) /\ valid_abs n.
Proof. exact into_absolute_spec. Qed.
Print Assumptions C03_into_absolute_spec.

Theorem C03_abs_strip_suffix_spec : forall n base, valid_abs n ->
  match abs_strip_suffix n base with
  | Ok (Some t) => exists p s, n = p ++ s /\ canon s = canon base /\ t = wire_rel p /\ valid_rel p
  | Ok None => ends_with (n ++ [[]]) (base ++ [[]]) = false
  | _ => False
  end.
Proof. exact abs_strip_suffix_spec. Qed.
Print Assumptions C03_abs_strip_suffix_spec.

Theorem C03_rel_strip_suffix_spec : forall n base, valid_rel n ->
  match rel_strip_suffix n base with
  | Ok (Some t) => exists p s, n = p ++ s /\ canon s = canon base /\ t = wire_rel p /\ valid_rel p
  | Ok None => ends_with n base = false
  | _ => False
  end.
Proof. exact rel_strip_suffix_spec. Qed.
Print Assumptions C03_rel_strip_suffix_spec.

(* ---- names taken from a message (model of parse_ref shared with C01) *)
Theorem C03_parsed_name_valid : forall m pos lim p,
  parse_ref m pos lim = Ok p -> (lim <= mlen m)%N -> wf_bytes m ->
  exists n, parsed_to_name m p = Ok (wire_abs n) /\ valid_abs n /\
            N.of_nat (length (wire_abs n)) = pn_len p.
Proof. exact parsed_name_valid. Qed.
Print Assumptions C03_parsed_name_valid.

(* ---- UncertainName::from_octets / from_slice, Chain::new_uncertain *)
Theorem C03_uncertain_absolute_iff : forall b, wf_bytes b ->
  (uncertain_check b = Ok true <-> exists n, valid_abs n /\ b = wire_abs n).
Proof. exact uncertain_absolute_iff. Qed.
Print Assumptions C03_uncertain_absolute_iff.

Theorem C03_uncertain_relative_valid : forall b, wf_bytes b -> uncertain_check b = Ok false ->
  exists n, valid_rel n /\ n <> [] /\ b = wire_rel n.
Proof. exact uncertain_relative_valid_full. Qed.
Print Assumptions C03_uncertain_relative_valid.

Theorem C03_chain_uncertain_valid : forall l r, valid_rel l -> valid_abs r ->
  chain_new_uncertain true (wire_len l) (wire_len r + 1) = Ok tt -> valid_abs (l ++ r).
Proof. exact chain_uncertain_valid. Qed.
Print Assumptions C03_chain_uncertain_valid.

(* ---- OwnedLabel::from_chars *)
Theorem C03_owned_label_valid : forall cs l,
  owned_label_from_chars cs = Ok l -> wf_bytes l /\ (length l <= 63)%nat.
Proof. exact owned_label_valid. Qed.
Print Assumptions C03_owned_label_valid.

Theorem C03_display_parse_roundtrip_rel : forall n, valid_rel n ->
  rel_from_chars None (display_rel n) = Ok (wire_rel n).
Proof. exact display_parse_roundtrip_rel. Qed.
Print Assumptions C03_display_parse_roundtrip_rel.

(* to_name / flatten_into / to_cow / compose of a ParsedName, fast path included *)
Theorem C03_parsed_flatten_valid : forall m pos lim p,
  parse_ref m pos lim = Ok p -> (lim <= mlen m)%N -> wf_bytes m ->
  exists n, valid_abs n /\ parsed_flatten m p = Ok (wire_abs n) /\ parsed_to_name m p = Ok (wire_abs n) /\
            N.of_nat (length (wire_abs n)) = pn_len p.
Proof. exact parsed_flatten_valid. Qed.
Print Assumptions C03_parsed_flatten_valid.

(* ---- chain_root / UncertainName::chain *)
Theorem C03_chain_root_spec : forall n, valid_rel n ->
  n_chain_root (wire_rel n) = Ok (wire_abs n) /\ valid_abs n.
Proof. exact chain_root_spec. Qed.
Print Assumptions C03_chain_root_spec.

Theorem C03_chain_root_255_panics : forall w, length w = 255%nat -> n_chain_root w = Panic 14.
Proof. exact chain_root_255_panics. Qed.
Print Assumptions C03_chain_root_255_panics.

Theorem C03_unc_chain_valid : forall l r w, valid_abs r ->
  (valid_abs l /\ unc_chain true (wire_abs l) (wire_abs r) = Ok w -> w = wire_abs l) /\
  (valid_rel l /\ unc_chain false (wire_rel l) (wire_abs r) = Ok w -> w = wire_abs (l ++ r) /\ valid_abs (l ++ r)).
Proof. exact unc_chain_valid. Qed.
Print Assumptions C03_unc_chain_valid.

(* ---- names scanned from zone-file text (model of scan_name / convert_label:
   C07/Model.v): every returned name is the wire form of a valid absolute name *)
From DV Require C07.Model C03.ProofsZonefile.
Theorem C03_scan_name_valid : forall origin s n s',
  (forall o, origin = Some o -> exists m, valid_abs m /\ o = wire_abs m) -> wf_bytes (C07.Model.buf s) ->
  C07.Model.scan_name origin s = Ok (n, s') -> exists k, valid_abs k /\ n = wire_abs k.
Proof. exact C03.ProofsZonefile.scan_name_valid. Qed.
Print Assumptions C03_scan_name_valid.

(* ---- round 3: serde, UncertainName display, three-part chains, constants *)
Theorem C03_serde_de_rel_valid : forall cs w,
  serde_de_rel None cs = Ok w -> exists n, valid_rel n /\ w = wire_rel n.
Proof. exact serde_de_rel_valid. Qed.
Print Assumptions C03_serde_de_rel_valid.

Theorem C03_uncertain_display_parse_roundtrip : forall n,
  (valid_rel n -> uncertain_from_chars None (display_uncertain false n) = Ok (false, wire_rel n)) /\
  (valid_abs n -> n <> [] \/ uncertain_display_root_special && uncertain_from_chars_root_special = true ->
     uncertain_from_chars None (display_uncertain true n) = Ok (true, wire_abs n)).
Proof. exact uncertain_display_parse_roundtrip. Qed.
Print Assumptions C03_uncertain_display_parse_roundtrip.

Theorem C03_chain3_abs_valid : forall a b c, valid_rel a -> valid_rel b -> valid_abs c ->
  chain3 (wire_len a) (wire_len b) (wire_len c + 1) = Ok tt -> valid_abs (a ++ b ++ c).
Proof. exact chain3_abs_valid. Qed.
Print Assumptions C03_chain3_abs_valid.

Theorem C03_constants_valid :
  check_abs const_root = Ok tt /\ const_root = wire_abs [] /\ const_root_slice = const_root /\
  const_from_symbols_root = const_root /\
  check_rel const_empty = Ok tt /\ const_empty = wire_rel [] /\ const_empty_slice = const_empty /\
  check_rel const_wildcard = Ok tt /\ const_wildcard = wire_rel [[42%N]] /\ const_wildcard_slice = const_wildcard.
Proof. exact constants_valid. Qed.
Print Assumptions C03_constants_valid.

Theorem C03_from_builder_inv : forall w st, wf_bytes w -> b_from_builder w = Ok st -> Inv st.
Proof. exact from_builder_inv. Qed.
Print Assumptions C03_from_builder_inv.

Theorem C03_name_parse_valid : forall b w, wf_bytes b -> name_parse b = Ok w ->
  exists n rest, valid_abs n /\ w = wire_abs n /\ b = w ++ rest.
Proof. exact name_parse_valid. Qed.
Print Assumptions C03_name_parse_valid.

Theorem C03_uncertain_display_parse_roundtrip_full : forall n, valid_abs n ->
  uncertain_from_chars None (display_uncertain true n) = Ok (true, wire_abs n) /\
  uncertain_from_chars None (display_uncertain false n) = Ok (false, wire_rel n).
Proof. exact uncertain_display_parse_roundtrip_full. Qed.
Print Assumptions C03_uncertain_display_parse_roundtrip_full.

(* ---- ParsedName::parent / split_first / iter_suffixes (model: C04.Model.parent_gen
   with the T1 flags; steps: true = parent, false = split_first): after any
   sequence of steps the name flattens, on the as_flat_slice path and through
   the label iterator alike, to the wire form of a valid absolute name - the
   corresponding suffix of the labels; split_first hands out a valid label *)
From DV Require C04.Model C03.ProofsSuffix.
Theorem C03_parsed_suffix_flatten : forall m pos lim p,
  parse_ref m pos lim = Ok p -> (lim <= mlen m)%N -> wf_bytes m ->
  exists n0, valid_abs n0 /\ parsed_flatten m p = Ok (wire_abs n0) /\
  forall ss, exists q, C03.ProofsSuffix.steps ss m p = Ok q /\
    let n := skipn (length ss) n0 in
    valid_abs n /\ parsed_flatten m q = Ok (wire_abs n) /\ parsed_to_name m q = Ok (wire_abs n) /\
    pn_len q = N.of_nat (length (wire_abs n)).
Proof. exact C03.ProofsSuffix.parsed_suffix_flatten. Qed.
Print Assumptions C03_parsed_suffix_flatten.

Theorem C03_parsed_split_first_label : forall m pos lim p,
  parse_ref m pos lim = Ok p -> (lim <= mlen m)%N -> wf_bytes m ->
  exists n0, valid_abs n0 /\ parsed_flatten m p = Ok (wire_abs n0) /\
  forall ss, exists q, C03.ProofsSuffix.steps ss m p = Ok q /\
    match skipn (length ss) n0 with
    | [] => C03.ProofsSuffix.split_first_label m q = Ok None
    | l :: _ => C03.ProofsSuffix.split_first_label m q = Ok (Some (wire_rel [l])) /\ valid_rel [l]
    end.
Proof. exact C03.ProofsSuffix.parsed_split_first_label. Qed.
Print Assumptions C03_parsed_split_first_label.
(* ---- proof-widening round (ProofsW / ProofsX / ProofsY): exactness and
   totality of the wire and text constructors, split-then-chain round trip,
   and completeness of the builder on the valid names *)
From DV Require C03.ProofsW C03.ProofsX C03.ProofsY.
Theorem C03_name_parse_roundtrip : forall n rest, valid_abs n ->
  name_parse (wire_abs n ++ rest) = Ok (wire_abs n).
Proof. exact C03.ProofsW.name_parse_roundtrip. Qed.
Print Assumptions C03_name_parse_roundtrip.
Theorem C03_name_parse_iff : forall b w, wf_bytes b ->
  (name_parse b = Ok w <-> exists n rest, valid_abs n /\ w = wire_abs n /\ b = w ++ rest).
Proof. exact C03.ProofsW.name_parse_iff. Qed.
Print Assumptions C03_name_parse_iff.
Theorem C03_name_parse_total : forall b, no_panic (name_parse b).
Proof. exact C03.ProofsW.name_parse_total. Qed.
Print Assumptions C03_name_parse_total.
Theorem C03_uncertain_check_total : forall b, no_panic (uncertain_check b).
Proof. exact C03.ProofsW.uncertain_check_total. Qed.
Print Assumptions C03_uncertain_check_total.
Theorem C03_uncertain_relative_iff : forall b, wf_bytes b ->
  (uncertain_check b = Ok false <-> exists n, valid_rel n /\ n <> [] /\ b = wire_rel n).
Proof. exact C03.ProofsW.uncertain_relative_iff. Qed.
Print Assumptions C03_uncertain_relative_iff.
Theorem C03_split_chain_roundtrip : forall absolute n i l r, valid_rel n ->
  n_split absolute (wire_of absolute n) i = Ok (l, r) ->
  l ++ r = wire_of absolute n /\ chain_new (length l) (length r) = Ok tt /\
  (exists a, valid_rel a /\ l = wire_rel a) /\ (exists c, valid_rel c /\ r = wire_of absolute c).
Proof. exact C03.ProofsW.split_chain_roundtrip. Qed.
Print Assumptions C03_split_chain_roundtrip.
Theorem C03_from_chars_total : forall cap cs,
  no_panic (name_from_chars cap cs) /\ no_panic (rel_from_chars cap cs) /\
  no_panic (uncertain_from_chars cap cs) /\ no_panic (serde_de_rel cap cs).
Proof. exact C03.ProofsX.from_chars_total. Qed.
Print Assumptions C03_from_chars_total.
Theorem C03_from_chars_valid_cap : forall cap cs,
  (forall w, name_from_chars cap cs = Ok w -> exists n, valid_abs n /\ w = wire_abs n) /\
  (forall w, rel_from_chars cap cs = Ok w -> exists n, valid_rel n /\ w = wire_rel n) /\
  (forall f w, uncertain_from_chars cap cs = Ok (f, w) ->
      exists n, valid_rel n /\ w = if f then wire_abs n else wire_rel n) /\
  (forall w, serde_de_rel cap cs = Ok w -> exists n, valid_rel n /\ w = wire_rel n).
Proof. exact C03.ProofsX.from_chars_valid_cap. Qed.
Print Assumptions C03_from_chars_valid_cap.
Theorem C03_display_injective : forall n1 n2, valid_abs n1 -> valid_abs n2 ->
  (display_name n1 = display_name n2 -> n1 = n2) /\ (display_rel n1 = display_rel n2 -> n1 = n2).
Proof. exact C03.ProofsX.display_injective. Qed.
Print Assumptions C03_display_injective.
Theorem C03_text_reparse_stable : forall cs,
  (forall w, name_from_chars None cs = Ok w ->
     exists n, valid_abs n /\ w = wire_abs n /\ name_from_chars None (display_name n) = Ok w) /\
  (forall w, rel_from_chars None cs = Ok w ->
     exists n, valid_rel n /\ w = wire_rel n /\ rel_from_chars None (display_rel n) = Ok w).
Proof. exact C03.ProofsX.text_reparse_stable. Qed.
Print Assumptions C03_text_reparse_stable.
Theorem C03_builder_complete_labels : forall n, valid_rel n ->
  fst (run_log None b_init (map OLabel n)) = repeat (Ok tt) (length n) /\
  b_finish (run None b_init (map OLabel n)) = Ok (wire_rel n) /\
  b_into_name None (run None b_init (map OLabel n)) = Ok (wire_abs n).
Proof. exact C03.ProofsY.builder_complete_labels. Qed.
Print Assumptions C03_builder_complete_labels.
Theorem C03_builder_complete_octets : forall n, valid_rel n ->
  fst (run_log None b_init (C03.ProofsY.octet_ops n)) = repeat (Ok tt) (length (C03.ProofsY.octet_ops n)) /\
  b_finish (run None b_init (C03.ProofsY.octet_ops n)) = Ok (wire_rel n) /\
  b_into_name None (run None b_init (C03.ProofsY.octet_ops n)) = Ok (wire_abs n).
Proof. exact C03.ProofsY.builder_complete_octets. Qed.
Print Assumptions C03_builder_complete_octets.
Theorem C03_chain_abs_iff : forall l r, valid_rel l -> valid_abs r ->
  (chain_new (wire_len l) (wire_len r + 1) = Ok tt <-> valid_abs (l ++ r)).
Proof. exact C03.ProofsW.chain_abs_iff. Qed.
Print Assumptions C03_chain_abs_iff.
Theorem C03_chain_rel_complete : forall l r, valid_rel (l ++ r) ->
  chain_new (wire_len l) (wire_len r) = Ok tt.
Proof. exact C03.ProofsW.chain_rel_complete. Qed.
Print Assumptions C03_chain_rel_complete.
(* ---- Name::reverse_from_addr for every address (builder sequence of both
   arms; suffix labels and arm shape are T1 items) *)
From DV Require C03.ProofsV.
Theorem C03_reverse_v4_valid : forall a b c d, (a < 256)%N -> (b < 256)%N -> (c < 256)%N -> (d < 256)%N ->
  let n := [dec_digits d; dec_digits c; dec_digits b; dec_digits a; rev_v4_label1; rev_v4_label2] in
  fst (run_log None b_init (C03.ProofsV.reverse_v4_ops a b c d)) = repeat (Ok tt) 6 /\
  valid_abs n /\
  b_into_name None (run None b_init (C03.ProofsV.reverse_v4_ops a b c d)) = Ok (wire_abs n).
Proof. exact C03.ProofsV.reverse_v4_valid. Qed.
Print Assumptions C03_reverse_v4_valid.
Theorem C03_reverse_v6_valid : forall o, wf_bytes o -> (length o <= 16)%nat ->
  let ops := C03.ProofsV.reverse_v6_ops o in
  let n := map C03.ProofsV.label_of ops in
  fst (run_log None b_init ops) = repeat (Ok tt) (2 * length o + 2) /\
  valid_abs n /\ b_into_name None (run None b_init ops) = Ok (wire_abs n) /\
  n = flat_map (fun x => [[hex_char x]; [hex_char (x / 16)]]) (rev o) ++ [rev_v6_label1; rev_v6_label2].
Proof. exact C03.ProofsV.reverse_v6_valid. Qed.
Print Assumptions C03_reverse_v6_valid.
Theorem C03_append_origin_exact : forall cap ops og, Forall wf_op ops -> hits_relname_255 cap ops = false ->
  Forall valid_label og ->
  let n := final_name (a_run cap a_init ops) in
  b_append_origin cap (run cap b_init ops) og =
    (if (254 <? wire_len n + wire_len og)%nat then Err E_LongName
     else if fits cap (a_run cap a_init ops) (wire_len og + 1) then Ok (wire_abs (n ++ og))
     else Err E_ShortBuf) /\
  ((wire_len n + wire_len og <= 254)%nat -> valid_abs (n ++ og)).
Proof. exact C03.ProofsY.append_origin_exact. Qed.
Print Assumptions C03_append_origin_exact.
Theorem C03_relative_absolute_roundtrip : forall n, valid_abs n ->
  (do r <- n_into_relative (wire_abs n); n_into_absolute None r) = Ok (wire_abs n) /\
  (do a <- n_into_absolute None (wire_rel n); n_into_relative a) = Ok (wire_rel n) /\
  (do r <- n_into_relative (wire_abs n); n_chain_root r) = Ok (wire_abs n).
Proof. exact C03.ProofsW.relative_absolute_roundtrip. Qed.
Print Assumptions C03_relative_absolute_roundtrip.
