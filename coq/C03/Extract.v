From Coq Require Import Extraction ExtrOcamlBasic NArith.
From DV Require Import Base.Outcome Base.Bytes Base.Names C03.Gen C03.Model C03.Spec C03.ModelWire C03.ModelText.
Extraction Language OCaml.
Extraction "../build/ml/C03/model.ml" run_log b_finish b_into_name b_append_origin hits_relname_255
  check_abs check_rel chain_new label_from_slice
  name_from_chars rel_from_chars uncertain_from_chars display_name.
