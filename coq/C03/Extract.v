From Coq Require Import Extraction ExtrOcamlBasic NArith.
From DV Require Import Base.Outcome Base.Bytes Base.Names C03.Gen C03.Model C03.Spec.
Extraction Language OCaml.
Extraction "../build/ml/C03/model.ml" run_log b_finish b_into_name b_append_origin hits_relname_255.
