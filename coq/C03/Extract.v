From Coq Require Import Extraction ExtrOcamlBasic NArith.
From DV Require Import Base.Outcome Base.Bytes Base.Names C03.Gen C03.Model C03.Spec C03.ModelWire C03.ModelText C03.ModelSlice Base.PName C03.ProofsParsed C03.ProofsText.
Extraction Language OCaml.
Extraction "../build/ml/C03/model.ml" run_log b_finish b_into_name b_append_origin hits_relname_255
  check_abs check_rel chain_new label_from_slice
  name_from_chars rel_from_chars uncertain_from_chars display_name
  is_label_start n_split n_truncate n_range n_range_from n_parent n_into_relative n_into_absolute
  abs_strip_suffix rel_strip_suffix parse_ref mlen parsed_to_name parsed_flatten uncertain_check chain_new_uncertain owned_label_from_chars display_rel ends_with starts_with n_chain_root unc_chain chain3 serde_de_rel display_uncertain b_from_builder name_parse
  const_root const_root_slice const_empty const_wildcard const_empty_slice const_wildcard_slice.
