(* C03 model, part 3: presentation format.
   base/scan.rs Symbol::from_chars, Symbol::into_octet, Symbols (iterator that
   stops at the first bad symbol and reports it from Symbols::with after the
   consumer has finished), NameBuilder::push_symbol / append_symbols /
   append_chars, Name::from_symbols / from_chars (FromStr),
   RelativeName::from_chars, UncertainName::from_chars, Display for Label and
   Name.  Characters are Unicode scalar values as N, text is a list of them.
   Error words (in addition to 1 LongLabel 2 LongName 3 ShortBuf):
   11 ShortInput 12 BadEscape 13 NonAscii 14 BinaryLabel 15 EmptyLabel
   16 AbsoluteName. *)
From Coq Require Import NArith List Bool Arith.
From DV Require Import Base.Outcome Base.Bytes Base.Names C03.Gen C03.Model.
Import ListNotations.
Local Open Scope N_scope.

Definition T_ShortInput : N := 11.
Definition T_BadEscape : N := 12.
Definition T_NonAscii : N := 13.
Definition T_BinaryLabel : N := 14.
Definition T_EmptyLabel : N := 15.
Definition T_AbsoluteName : N := 16.

Inductive symbol := SChar (c : N) | SSimple (b : N) | SDecimal (b : N).

Definition is_digit (c : N) : bool := (48 <=? c) && (c <=? 57).
Definition backslash : N := 92.

(* Symbol::from_chars: Ok None at the end of input *)
Definition sym_next (cs : list N) : outcome (option (symbol * list N)) :=
  match cs with
  | [] => Ok None
  | ch :: r =>
      if negb (ch =? backslash) then Ok (Some (SChar ch, r)) else
      match r with
      | [] => Err T_ShortInput
      | c1 :: r1 =>
          if is_digit c1 then
            match r1 with
            | [] => Err T_ShortInput
            | c2 :: r2 =>
                if negb (is_digit c2) then Err T_BadEscape else
                match r2 with
                | [] => Err T_ShortInput
                | c3 :: r3 =>
                    if negb (is_digit c3) then Err T_BadEscape else
                    let v := (c1 - 48) * 100 + (c2 - 48) * 10 + (c3 - 48) in
                    if sym_dec_max <? v then Err T_BadEscape else Ok (Some (SDecimal v, r3))
                end
            end
          else if 255 <? c1 then Err T_BadEscape                 (* u8::try_from *)
          else if (c1 <? sym_simple_lo) || (sym_simple_hi <? c1) then Err T_BadEscape
          else Ok (Some (SSimple c1, r1))
      end
  end.

(* Symbol::into_octet *)
Definition into_octet (s : symbol) : outcome N :=
  match s with
  | SChar ch => if (ch <? 128) && (octet_char_lo <=? ch) && (ch <=? octet_char_hi) then Ok ch else Err T_NonAscii
  | SSimple b | SDecimal b => Ok b
  end.

Definition in_label (st : bstate) : bool := match head st with Some _ => true | None => false end.

Definition is_char (s : symbol) (c : N) : bool := match s with SChar x => x =? c | _ => false end.
Definition is_simple (s : symbol) (c : N) : bool := match s with SSimple x => x =? c | _ => false end.

(* NameBuilder::push_symbol *)
Definition push_symbol (cap : option nat) (st : bstate) (s : symbol) : res :=
  if is_char s sym_dot then
    (if negb (in_label st) then (st, Err T_EmptyLabel) else b_end_label st)
  else if is_simple s sym_bracket && negb (in_label st) then (st, Err T_BinaryLabel)
  else match into_octet s with
       | Ok o => b_push cap st o
       | Err e => (st, Err e) | Panic p => (st, Panic p) | OutOfFuel => (st, OutOfFuel)
       end.

(* append_symbols over the Symbols iterator: the iterator ends at the first bad
   symbol and keeps the error, which Symbols::with returns after a successful
   consumer.  Result: builder state and the kept error. *)
Fixpoint append_syms (fuel : nat) (cap : option nat) (st : bstate) (cs : list N)
  : outcome (bstate * option N) :=
  match fuel with
  | O => OutOfFuel
  | S f =>
      match sym_next cs with
      | Err e => Ok (st, Some e)
      | Ok None => Ok (st, None)
      | Ok (Some (s, rest)) =>
          match push_symbol cap st s with
          | (st', Ok _) => append_syms f cap st' rest
          | (_, Err e) => Err e
          | (_, Panic p) => Panic p
          | (_, OutOfFuel) => OutOfFuel
          end
      | Panic p => Panic p
      | OutOfFuel => OutOfFuel
      end
  end.

Definition kept (e : option N) {A} (r : outcome A) : outcome A :=
  match r, e with
  | Ok a, Some e => Err e
  | r, _ => r
  end.

(* Name::from_chars = Symbols::with(chars, from_symbols) *)
Definition name_from_chars (cap : option nat) (cs : list N) : outcome bytes :=
  match sym_next cs with
  | Err _ => Err T_ShortInput            (* next() = None: "short input" from from_symbols wins *)
  | Ok None => Err T_ShortInput
  | Ok (Some (first, rest)) =>
      if is_char first sym_dot then
        match sym_next rest with
        | Ok (Some _) => Err T_EmptyLabel
        | Ok None => match raw_append cap [] const_from_symbols_root with Some b => Ok b | None => Err E_ShortBuf end
        | Err e => match raw_append cap [] const_from_symbols_root with Some b => Err e | None => Err E_ShortBuf end
        | Panic p => Panic p | OutOfFuel => OutOfFuel
        end
      else
        match push_symbol cap b_init first with
        | (st, Ok _) =>
            match append_syms (S (length rest)) cap st rest with
            | Ok (st', e) => kept e (b_into_name cap st')
            | Err e => Err e | Panic p => Panic p | OutOfFuel => OutOfFuel
            end
        | (_, Err e) => Err e | (_, Panic p) => Panic p | (_, OutOfFuel) => OutOfFuel
        end
  | Panic p => Panic p | OutOfFuel => OutOfFuel
  end.

Definition is_nil (b : bytes) : bool := match b with [] => true | _ => false end.

(* RelativeName::from_chars: append_chars (with the kept error checked first),
   then relative iff a label is open or nothing was read *)
Definition rel_from_chars (cap : option nat) (cs : list N) : outcome bytes :=
  match append_syms (S (length cs)) cap b_init cs with
  | Ok (_, Some e) => Err e
  | Ok (st, None) =>
      if in_label st || is_nil (buf st) then b_finish st else Err T_AbsoluteName
  | Err e => Err e | Panic p => Panic p | OutOfFuel => OutOfFuel
  end.

(* UncertainName::from_chars: relative as above, otherwise into_name; the
   flag is true for an absolute name *)
Definition uncertain_from_chars_plain (cap : option nat) (cs : list N) : outcome (bool * bytes) :=
  match append_syms (S (length cs)) cap b_init cs with
  | Ok (_, Some e) => Err e
  | Ok (st, None) =>
      if in_label st || is_nil (buf st) then (do b <- b_finish st; Ok (false, b))
      else (do b <- b_into_name cap st; Ok (true, b))
  | Err e => Err e | Panic p => Panic p | OutOfFuel => OutOfFuel
  end.

(* with uncertain_from_chars_root_special the function reads the first symbol
   itself: a single dot is the root name, a dot followed by anything is an
   empty label (an unreadable second symbol ends the iteration: the root is
   built and Symbols::with then reports the kept error) *)
Definition first_is_dot (cs : list N) : bool :=
  match sym_next cs with Ok (Some (s, _)) => is_char s sym_dot | _ => false end.

Definition uncertain_from_chars (cap : option nat) (cs : list N) : outcome (bool * bytes) :=
  if uncertain_from_chars_root_special && first_is_dot cs then
    match sym_next cs with
    | Ok (Some (_, rest)) =>
        match sym_next rest with
        | Ok (Some _) => Err T_EmptyLabel
        | Ok None => match raw_append cap [] const_from_symbols_root with Some b => Ok (true, b) | None => Err E_ShortBuf end
        | Err e => Err e
        | Panic p => Panic p | OutOfFuel => OutOfFuel
        end
    | _ => Err T_ShortInput
    end
  else uncertain_from_chars_plain cap cs.

(* ---- Display for Label / Name *)
Definition dec3 (b : N) : list N := [48 + b / 100; 48 + (b / 10) mod 10; 48 + b mod 10].

Definition display_octet (b : N) : list N :=
  if existsb (N.eqb b) display_simple_escaped then [backslash; b]
  else if negb ((display_plain_lo <=? b) && (b <? display_plain_hi_excl)) then backslash :: dec3 b
  else [b].

Definition display_label (l : label) : list N := flat_map display_octet l.

(* Display for Name: "." for the root, otherwise the labels joined by dots
   without a trailing dot *)
Fixpoint display_labels (n : name) : list N :=
  match n with
  | [] => []
  | [l] => display_label l
  | l :: n' => display_label l ++ sym_dot :: display_labels n'
  end.

Definition display_name (n : name) : list N :=
  match n with [] => [sym_dot] | _ => display_labels n end.

(* ---- builder.rs parse_escape (the backslash has been consumed) and
   label.rs OwnedLabel::from_chars: one label from a whole character sequence.
   `ch as u8` keeps the low eight bits of the character. *)
Definition parse_escape (cs : list N) (in_lbl : bool) : outcome (N * list N) :=
  match cs with
  | [] => Err T_ShortInput
  | c1 :: r1 =>
      if is_digit c1 then
        match r1 with
        | [] => Err T_ShortInput
        | c2 :: r2 =>
            if negb (is_digit c2) then Err T_BadEscape else
            match r2 with
            | [] => Err T_ShortInput
            | c3 :: r3 =>
                if negb (is_digit c3) then Err T_BadEscape else
                let v := (c1 - 48) * 100 + (c2 - 48) * 10 + (c3 - 48) in
                if escape_dec_max <? v then Err T_BadEscape else Ok (v, r3)
            end
        end
      else if c1 =? sym_bracket then (if in_lbl then Ok (sym_bracket, r1) else Err T_BinaryLabel)
      else Ok (c1 mod 256, r1)
  end.

Definition in_ranges (c : N) (rs : list (N * N)) : bool :=
  existsb (fun p => (fst p <=? c) && (c <=? snd p)) rs.

Fixpoint owned_loop (fuel : nat) (cs : list N) (acc : bytes) : outcome bytes :=
  match fuel with
  | O => OutOfFuel
  | S f =>
      match cs with
      | [] => Ok acc
      | ch :: r =>
          if exceeds olabel_full_ge (length acc) olabel_full_lim then Err E_LongLabel else
          if in_ranges ch olabel_plain_ranges then owned_loop f r (acc ++ [ch])
          else if ch =? backslash then
            match parse_escape r (0 <? length acc)%nat with
            | Ok (b, r') => owned_loop f r' (acc ++ [b])
            | Err e => Err e | Panic p => Panic p | OutOfFuel => OutOfFuel
            end
          else Err T_NonAscii
      end
  end.

Definition owned_label_from_chars (cs : list N) : outcome bytes := owned_loop (S (length cs)) cs [].

(* ---- human-readable serde: Serialize writes the Display text, Deserialize
   reads a string through from_str -- except RelativeName's visitor, which
   builds the name itself (serde_rel_checks_absolute tells whether it applies
   the test of RelativeName::from_chars) *)
Definition serde_de_rel (cap : option nat) (cs : list N) : outcome bytes :=
  if serde_rel_checks_absolute then rel_from_chars cap cs else
  match append_syms (S (length cs)) cap b_init cs with
  | Ok (_, Some e) => Err e
  | Ok (st, None) => b_finish st
  | Err e => Err e | Panic p => Panic p | OutOfFuel => OutOfFuel
  end.

(* Display for RelativeName and for UncertainName *)
Definition display_relative (n : name) : list N := display_labels n.
Definition display_uncertain (absolute : bool) (n : name) : list N :=
  if absolute then
    (if uncertain_display_root_special && (match n with [] => true | _ => false end)
     then display_name n else display_name n ++ [sym_dot])
  else display_relative n.
