(* C03 -- names derived from a parsed name by ParsedName::parent / split_first
   (and iter_suffixes, which is parent): after any number of steps, in any
   order, the shortened name still flattens -- through the as_flat_slice fast
   path (compose / to_cow / flatten_into) and through the label iterator
   (to_name / to_vec) -- to the wire form of a valid absolute name, namely the
   corresponding suffix of the original labels; the label split_first hands
   out is a valid one-label relative name.
   The model of parent / split_first (pos, name_len and the compressed flag,
   with the T1 flags parent_keeps_compressed_flag /
   split_first_keeps_compressed_flag) is C04.Model.parent_gen; C04 proved the
   single step (parent_step), C01 the soundness of parse_ref. *)
From Coq Require Import NArith List Bool Arith Lia ZArith.
From Coq Require Import ZifyN ZifyBool ZifyNat.
From DV Require Import Base.Outcome Base.Bytes Base.Names Base.PName C01.Model C01.Proofs
  C04.Gen C04.Model C04.ProofsIter C04.ProofsParsed C04.ProofsCompressed C04.ProofsSuffix C03.ProofsParsed.
Import ListNotations.
Local Open Scope N_scope.
Ltac Zify.zify_post_hook ::= Z.div_mod_to_equations.

(* a sequence of steps: true = parent(), false = split_first(); a step on the
   root name does nothing *)
Fixpoint steps (ss : list bool) (m : bytes) (p : pname) : outcome pname :=
  match ss with
  | [] => Ok p
  | b :: r =>
      do o <- (if b then m_parent m p else m_split_first_rest m p);
      match o with Some p' => steps r m p' | None => steps r m p end
  end.

(* the octets split_first returns: octets[header .. header + 1 + len] *)
Definition split_first_label (m : bytes) (p : pname) : outcome (option bytes) :=
  if pn_len p =? 1 then Ok None else
  do r <- first_label (S (length m)) m (pn_pos p) false;
  let '(t, len, _) := r in Ok (Some (slice m t (t + len))).

(* ---- the label iterator reads what plabels describes *)
Lemma iter_labels_of_plabels m n : forall fuel pos len acc,
  plabels m pos len (n ++ [[]]) -> Forall (fun l => l <> []) n -> (length n < fuel)%nat ->
  iter_labels fuel m pos len acc = Ok (rev acc ++ n, true).
Proof.
  induction n as [|l n IH]; intros fuel pos len acc H Hne Hf; (destruct fuel as [|f]; [cbn in Hf; lia|]).
  - cbn [app] in H. inversion H as [|? ? ? pos' ? Hz Hg Hc Hp]; subst. inversion Hp; subst.
    cbn [iter_labels]. destruct (N.eqb_spec len 0) as [E|E]; [congruence|].
    rewrite Hg. cbn [bind length]. unfold clen in *. cbn [length] in *.
    destruct (N.ltb_spec len (N.of_nat 0 + 1)); [lia|]. cbn [Nat.eqb].
    assert (E0 : (len - (N.of_nat 0 + 1) =? 0) = true) by (apply N.eqb_eq; lia). rewrite E0.
    rewrite app_nil_r. reflexivity.
  - cbn [app] in H. inversion H as [|? ? ? pos' ? Hz Hg Hc Hp]; subst.
    inversion Hne as [|? ? Hl Hne']; subst.
    cbn [iter_labels]. destruct (N.eqb_spec len 0) as [E|E]; [congruence|].
    rewrite Hg. cbn [bind]. unfold clen in *.
    destruct (N.ltb_spec len (N.of_nat (length l) + 1)); [lia|].
    assert (E0 : Nat.eqb (length l) 0 = false) by (apply Nat.eqb_neq; destruct l; [congruence|cbn; lia]). rewrite E0.
    etransitivity; [apply (IH f pos' _ (l :: acc) Hp Hne'); cbn [length] in Hf; lia|].
    cbn [rev]. rewrite <- app_assoc. reflexivity.
Qed.

(* the invariant every step keeps *)
Definition pgood (m : bytes) (p : pname) (n : name) : Prop :=
  valid_abs n /\ plabels m (pn_pos p) (pn_len p) (n ++ [[]]) /\ flat_ok m p (n ++ [[]]).

Lemma valid_nonempty n : Forall valid_label n -> Forall (fun l : label => l <> []) n.
Proof. intros H. eapply Forall_impl; [|exact H]. intros l [[H1 _] _] ->. cbn in H1. lia. Qed.

Lemma plabels_len m p n : plabels m (pn_pos p) (pn_len p) (n ++ [[]]) -> Forall valid_label n ->
  pn_len p = N.of_nat (wire_len n) + 1.
Proof.
  generalize (pn_pos p) (pn_len p). induction n as [|l n IH]; intros pos len H Hv.
  - cbn [app] in H. apply plabels_root_len in H. cbn. lia.
  - cbn [app] in H. inversion H as [|? ? ? pos' ? Hz Hg Hc Hp]; subst. inversion Hv; subst.
    specialize (IH _ _ Hp ltac:(assumption)). unfold clen in *. cbn [wire_len]. lia.
Qed.

(* what a good parsed name flattens to, on both paths *)
Theorem pgood_flatten m p n : pgood m p n ->
  parsed_to_name m p = Ok (wire_abs n) /\ parsed_flatten m p = Ok (wire_abs n) /\
  pn_len p = N.of_nat (length (wire_abs n)).
Proof.
  intros ([Hv Hl] & Hp & Hf).
  assert (Hlen : (length n <= wire_len n)%nat) by (clear; induction n; cbn [length wire_len]; lia).
  assert (Ht : parsed_to_name m p = Ok (wire_abs n)).
  { unfold parsed_to_name, pname_labels.
    assert (Hfu : (length n < PARSE_FUEL)%nat).
    { apply Nat.le_lt_trans with (wire_len n); [exact Hlen|]. apply Nat.le_lt_trans with 254%nat; [exact Hl|].
      apply Nat.ltb_lt. vm_compute. reflexivity. }
    rewrite (iter_labels_of_plabels m n PARSE_FUEL _ _ [] Hp (valid_nonempty n Hv) Hfu).
    reflexivity. }
  split; [exact Ht|]. split.
  - unfold parsed_flatten. destruct (pn_compressed p) eqn:C; [exact Ht|].
    destruct (Hf C) as [Hr Hs]. rewrite wire_labels_abs in Hs.
    destruct (N.ltb_spec (mlen m) (pn_pos p + pn_len p)); [lia|]. rewrite Hs. reflexivity.
  - rewrite wire_abs_length. rewrite (plabels_len m p n Hp Hv). lia.
Qed.

(* one step of either kind *)
Lemma step_good m p n (b : bool) : pgood m p n ->
  match n with
  | [] => (if b then m_parent m p else m_split_first_rest m p) = Ok None
  | _ :: n' => exists q, (if b then m_parent m p else m_split_first_rest m p) = Ok (Some q) /\ pgood m q n' /\
                         pn_compressed q = pn_compressed p
  end.
Proof.
  intros ([Hv Hl] & Hp & Hf).
  assert (Hk : (if b then m_parent m p else m_split_first_rest m p) = parent_gen true m p).
  { destruct parent_flag_kept as (K1 & K2 & _). unfold m_parent, m_split_first_rest. rewrite K1, K2. destruct b; reflexivity. }
  rewrite Hk. destruct n as [|l n'].
  - cbn [app] in Hp. apply plabels_root_len in Hp. unfold parent_gen. rewrite Hp. reflexivity.
  - inversion Hv as [|? ? [[L1 L2] L3] Hv']; subst.
    assert (Hne : n' ++ [[]] <> []) by (destruct n'; discriminate).
    destruct (parent_step m p l (n' ++ [[]]) Hp Hf ltac:(lia) Hne) as (q & Hq & Hpq & Hfq & Hc).
    exists q. split; [exact Hq|]. split; [|exact Hc].
    split; [split; [exact Hv'|cbn [wire_len] in Hl; lia]|]. split; assumption.
Qed.

Lemma steps_good ss : forall m p n, pgood m p n ->
  exists q, steps ss m p = Ok q /\ pgood m q (skipn (length ss) n).
Proof.
  induction ss as [|b r IH]; intros m p n Hg; [exists p; split; [reflexivity|exact Hg]|].
  cbn [steps length]. pose proof (step_good m p n b Hg) as S. destruct n as [|l n'].
  - rewrite S. cbn [bind]. destruct (IH m p [] Hg) as (q & Hq & Gq). exists q. split; [exact Hq|].
    rewrite skipn_nil in *. exact Gq.
  - destruct S as (q1 & E1 & G1 & _). rewrite E1. cbn [bind skipn]. apply IH. exact G1.
Qed.

(* ---- the theorem: any sequence of parent / split_first steps on any name
   parse_ref accepts *)
Theorem parsed_suffix_flatten m pos lim p : parse_ref m pos lim = Ok p -> lim <= mlen m -> wf_bytes m ->
  exists n0, valid_abs n0 /\ parsed_flatten m p = Ok (wire_abs n0) /\
  forall ss, exists q, steps ss m p = Ok q /\
    let n := skipn (length ss) n0 in
    valid_abs n /\ parsed_flatten m q = Ok (wire_abs n) /\ parsed_to_name m q = Ok (wire_abs n) /\
    pn_len q = N.of_nat (length (wire_abs n)).
Proof.
  intros H Hl Hw. destruct (parsed_inv m pos lim p H Hl Hw) as (n0 & Vn & _ & Hp & Hf).
  assert (G : pgood m p n0) by (split; [exact Vn|split; assumption]).
  exists n0. split; [exact Vn|]. split; [apply (pgood_flatten m p n0 G)|].
  intros ss. destruct (steps_good ss m p n0 G) as (q & Hq & Gq). exists q. split; [exact Hq|].
  cbv zeta. destruct (pgood_flatten m q _ Gq) as (T & F & L). split; [apply Gq|]. auto.
Qed.

(* ---- the label that split_first returns *)
Lemma first_label_slice : forall fuel m pos l e crossed t len cr,
  get_label fuel m pos = Ok (l, e) -> first_label fuel m pos crossed = Ok (t, len, cr) ->
  slice m t (t + len) = wire_label l /\ len = clen l.
Proof.
  induction fuel as [|fuel IH]; intros m pos l e crossed t len cr H F; [discriminate|].
  cbn [get_label] in H. cbn [first_label] in F.
  destruct (mlen m - pos <? 1); [discriminate|].
  destruct (get m pos) as [b|] eqn:Eb; [|discriminate].
  destruct (N.leb_spec b 63) as [H63|H63].
  - cbv zeta in H. destruct (N.ltb_spec (mlen m) (pos + 1 + b)) as [Hs|Hs]; [discriminate|].
    destruct (b =? 0); [discriminate|]. injection F as <- <- <-. injection H as <- <-.
    unfold clen. rewrite slice_length by lia. split; [|lia].
    replace (pos + (b + 1)) with (pos + 1 + b) by lia.
    rewrite (slice_split m pos (pos + 1)) by lia. rewrite (slice_one m pos b Eb).
    unfold wire_label. rewrite slice_length by lia.
    replace (N.of_nat (N.to_nat (pos + 1 + b - (pos + 1)))) with b by lia. reflexivity.
  - destruct (192 <=? b); [|discriminate].
    destruct (mlen m - pos <? 2); [discriminate|].
    destruct (get m (pos + 1)) as [c|]; [|discriminate].
    destruct (mlen m <? c + 256 * (b mod 64)); [discriminate|].
    eapply IH; eauto.
Qed.

Theorem split_first_label_valid m p l n' : pgood m p (l :: n') ->
  split_first_label m p = Ok (Some (wire_rel [l])) /\ valid_rel [l].
Proof.
  intros ([Hv Hl] & Hp & Hf). inversion Hv as [|? ? [[L1 L2] L3] Hv']; subst.
  split; [|split; [constructor; [repeat split; auto|constructor]|cbn [wire_len]; lia]].
  cbn [app] in Hp. inversion Hp as [|? ? ? pos' ? Hz Hg Hc Hrest]; subst.
  assert (Hne : l <> []) by (intros ->; cbn in L1; lia).
  destruct (get_label_first_label _ _ _ _ _ false Hg Hne) as (t & cr & F & _ & _).
  unfold split_first_label.
  assert (E1 : (pn_len p =? 1) = false).
  { apply N.eqb_neq. destruct n' as [|x y]; cbn [app] in Hrest.
    - apply plabels_cons_len in Hrest. unfold clen in *. lia.
    - apply plabels_cons_len in Hrest. unfold clen in *. lia. }
  rewrite E1, F. cbn [bind].
  destruct (first_label_slice _ _ _ _ _ _ _ _ _ Hg F) as [S _]. rewrite S.
  unfold wire_rel. cbn [map concat]. rewrite app_nil_r. reflexivity.
Qed.

Theorem parsed_split_first_label m pos lim p : parse_ref m pos lim = Ok p -> lim <= mlen m -> wf_bytes m ->
  exists n0, valid_abs n0 /\ parsed_flatten m p = Ok (wire_abs n0) /\
  forall ss, exists q, steps ss m p = Ok q /\
    match skipn (length ss) n0 with
    | [] => split_first_label m q = Ok None
    | l :: _ => split_first_label m q = Ok (Some (wire_rel [l])) /\ valid_rel [l]
    end.
Proof.
  intros H Hl Hw. destruct (parsed_inv m pos lim p H Hl Hw) as (n0 & Vn & _ & Hp & Hf).
  assert (G : pgood m p n0) by (split; [exact Vn|split; assumption]).
  exists n0. split; [exact Vn|]. split; [apply (pgood_flatten m p n0 G)|].
  intros ss. destruct (steps_good ss m p n0 G) as (q & Hq & Gq). exists q. split; [exact Hq|].
  destruct (skipn (length ss) n0) as [|l n'].
  - destruct Gq as (_ & Hpq & _). cbn [app] in Hpq. apply plabels_root_len in Hpq.
    unfold split_first_label. rewrite Hpq. reflexivity.
  - eapply split_first_label_valid. exact Gq.
Qed.

(* non-vacuity: "a.b.com." stored as a + ptr -> (b + ptr -> com.), the shape
   of the seeded change C03-r4-3: two steps cross a pointer while another one
   is still ahead; the suffix "com." flattens to 03 63 6f 6d 00 on both paths *)
Example suffix_example :
  let m := [0;0;0;0;0;0;0;0;0;0;0;0; 3;99;111;109;0; 1;98;192;12; 1;97;192;17; 0;0;0;0;0] in
  exists p q, parse_ref m 21 (mlen m) = Ok p /\ steps [true; false] m p = Ok q /\
    pn_compressed q = true /\
    parsed_flatten m q = Ok [3;99;111;109;0] /\ parsed_to_name m q = Ok [3;99;111;109;0] /\
    split_first_label m p = Ok (Some [1;97]) /\
    steps [true; true; true; true; false] m p = steps [false; true; true] m p.
Proof.
  exists (mkPName 21 9 true 25), (mkPName 19 5 true 25). vm_compute. repeat split; reflexivity.
Qed.
