(* C03 proofs, widening round V: Name::reverse_from_addr for EVERY address.
   The constructor is the builder sequence written below (the T2 kind
   reverse_from_addr runs exactly these sequences on the model and the oracle
   compares the constructor's result with them): four append_dec_u8_label and
   two append_label for IPv4; for IPv6, per octet from the last to the first,
   append_hex_digit_label(item) and append_hex_digit_label(item >> 4), then two
   append_label.  For every address every step returns Ok and into_name gives
   the wire form of a valid absolute name with the expected labels. *)
From Coq Require Import NArith List Bool Arith Lia ZArith.
From Coq Require Import ZifyN ZifyBool ZifyNat.
From DV Require Import Base.Outcome Base.Bytes Base.Names C03.Gen C03.Model C03.Spec
  C03.ProofsBuilder C03.ProofsBuilder2 C03.ProofsY.
Import ListNotations.
Ltac Zify.zify_post_hook ::= Z.div_mod_to_equations.

(* the suffix labels rev_v4_label1/2 ("in-addr", "arpa") and rev_v6_label1/2
   ("ip6", "arpa") are T1 items read from the source together with the shape of
   both arms (C03/Gen.v) *)

Definition reverse_v4_ops (a b c d : N) : list op :=
  [ODec d; ODec c; ODec b; ODec a; OLabel rev_v4_label1; OLabel rev_v4_label2].
Definition reverse_v6_ops (o : list N) : list op :=
  flat_map (fun x => [OHex x; OHex (x / 16)%N]) (rev o) ++ [OLabel rev_v6_label1; OLabel rev_v6_label2].

(* the label an operation of these sequences appends *)
Definition label_of (o : op) : bytes :=
  match o with ODec v => dec_digits v | OHex v => [hex_char v] | OLabel l => l | _ => [] end.
Definition lab_op (o : op) : Prop :=
  match o with ODec v => (v < 256)%N | OHex v => (v < 256)%N | OLabel l => valid_label l | _ => False end.

Lemma dec_digits_length v : (1 <= length (dec_digits v) <= 3)%nat.
Proof.
  unfold dec_digits. destruct (0 <? v / 100)%N; destruct (_ || _); cbn [app length]; lia.
Qed.

Lemma a_pushes_open' p : forall rest c, (1 <= length c)%nat -> (length c + length rest <= 63)%nat ->
  (wire_len p + S (length c) + length rest <= 254)%nat ->
  a_pushes None (mk_a p (Some c)) rest = (mk_a p (Some (c ++ rest)), Ok tt).
Proof.
  induction rest as [|ch rest IH]; intros c Hc H63 H254.
  - cbn. rewrite app_nil_r. reflexivity.
  - cbn [length] in *. cbn [a_pushes].
    unfold a_push. unfold alen. cbn [opn closed fits].
    destruct (Nat.leb_spec 254 (wire_len p + S (length c))); [lia|].
    destruct (Nat.leb_spec 63 (length c)); [lia|]. cbn [a_then].
    rewrite IH by (rewrite ?app_length; cbn [length]; lia).
    rewrite <- app_assoc. reflexivity.
Qed.

Lemma a_pushes_closed p l : (1 <= length l <= 63)%nat -> (wire_len p + S (length l) <= 254)%nat ->
  a_pushes None (mk_a p None) l = (mk_a p (Some l), Ok tt).
Proof.
  intros L Hl. destruct l as [|x l']; [cbn in L; lia|]. cbn [length] in *. cbn [a_pushes].
  unfold a_push, alen. cbn [opn closed fits].
  destruct (Nat.leb_spec 254 (wire_len p + 0)); [lia|].
  destruct (Nat.leb_spec 253 (wire_len p + 0)); [lia|]. cbn [a_then].
  rewrite a_pushes_open' by (cbn [length]; lia). reflexivity.
Qed.

Lemma a_lab_step p o : lab_op o -> (wire_len p + S (length (label_of o)) <= 254)%nat ->
  a_step None (mk_a p None) o = (mk_a (p ++ [label_of o]) None, Ok tt).
Proof.
  destruct o; cbn [lab_op label_of]; intros Ho Hl; try contradiction.
  - apply a_label_closed; assumption.
  - cbn [a_step]. unfold a_dec, aend. cbn [opn closed].
    pose proof (dec_digits_length v).
    rewrite a_pushes_closed by lia. cbn [a_then opn closed]. reflexivity.
  - cbn [a_step]. unfold a_hex, aend. cbn [opn closed]. cbn [length] in Hl.
    rewrite a_pushes_closed by (cbn [length]; lia). cbn [a_then opn closed]. reflexivity.
Qed.

Lemma a_lab_ops_run : forall ops p, Forall lab_op ops ->
  (wire_len p + wire_len (map label_of ops) <= 254)%nat ->
  a_all_ok None (mk_a p None) ops /\
  a_run None (mk_a p None) ops = mk_a (p ++ map label_of ops) None.
Proof.
  induction ops as [|o ops IH]; intros p Hv Hl.
  - cbn. rewrite app_nil_r. auto.
  - inversion Hv as [|? ? Hv1 Hv2]; subst. cbn [map wire_len] in Hl.
    cbn [map a_all_ok]. unfold a_run. cbn [fold_left].
    rewrite a_lab_step by (auto; lia). cbn [fst snd].
    destruct (IH (p ++ [label_of o]) Hv2) as [I1 I2]; [rewrite wire_len_app; cbn [wire_len]; lia|].
    split; [split; [reflexivity|exact I1]|].
    unfold a_run in I2. rewrite I2, <- app_assoc. reflexivity.
Qed.

Lemma lab_op_wf ops : Forall lab_op ops -> Forall wf_op ops.
Proof.
  apply Forall_impl. intros o. destruct o; cbn [lab_op wf_op]; try tauto. intros [_ H]; exact H.
Qed.

Lemma lab_ops_built ops : Forall lab_op ops -> (wire_len (map label_of ops) <= 254)%nat ->
  fst (run_log None b_init ops) = repeat (Ok tt) (length ops) /\
  valid_abs (map label_of ops) /\
  b_into_name None (run None b_init ops) = Ok (wire_abs (map label_of ops)).
Proof.
  intros Ho Hl. destruct (a_lab_ops_run ops [] Ho) as [H1 H2]; [cbn; exact Hl|]. cbn [app] in H2.
  pose proof (lab_op_wf ops Ho) as Hw.
  destruct (run_follows None ops a_init b_init awf_init repr_init Hw H1) as (R1 & _ & R3 & R4).
  change (a_run None a_init ops = mk_a (map label_of ops) None) in H2. rewrite H2 in R3, R4.
  assert (Hav : avalid (mk_a (map label_of ops) None)).
  { split; [exact R4|]. unfold alen. cbn [opn closed]. lia. }
  split; [exact R1|].
  destruct (into_name_spec None _ _ Hav R3) as (H & Hva & _).
  unfold final_name, aend in *. cbn [opn closed] in *. split; [exact Hva|exact H].
Qed.

Theorem reverse_v4_valid a b c d : (a < 256)%N -> (b < 256)%N -> (c < 256)%N -> (d < 256)%N ->
  let n := [dec_digits d; dec_digits c; dec_digits b; dec_digits a; rev_v4_label1; rev_v4_label2] in
  fst (run_log None b_init (reverse_v4_ops a b c d)) = repeat (Ok tt) 6 /\
  valid_abs n /\
  b_into_name None (run None b_init (reverse_v4_ops a b c d)) = Ok (wire_abs n).
Proof.
  intros Ha Hb Hc Hd.
  assert (Hlab : forall l, l = rev_v4_label1 \/ l = rev_v4_label2 \/ l = rev_v6_label1 \/ l = rev_v6_label2 -> valid_label l).
  { intros l [ -> | [ -> | [ -> | -> ] ] ]; (split; [cbn; lia|repeat constructor]). }
  apply (lab_ops_built (reverse_v4_ops a b c d)).
  - unfold reverse_v4_ops. repeat constructor; cbn [lab_op]; auto; apply Hlab; auto.
  - unfold reverse_v4_ops. cbn [map label_of wire_len].
    pose proof (dec_digits_length a). pose proof (dec_digits_length b).
    pose proof (dec_digits_length c). pose proof (dec_digits_length d).
    unfold rev_v4_label1, rev_v4_label2. cbn [length]. lia.
Qed.

Lemma hex_labels_len (l : list N) :
  wire_len (map label_of (flat_map (fun x => [OHex x; OHex (x / 16)%N]) l)) = (4 * length l)%nat.
Proof. induction l as [|x l IH]; [reflexivity|]. cbn [flat_map app map label_of wire_len length]. rewrite IH. lia. Qed.

Theorem reverse_v6_valid o : wf_bytes o -> (length o <= 16)%nat ->
  let ops := reverse_v6_ops o in
  let n := map label_of ops in
  fst (run_log None b_init ops) = repeat (Ok tt) (2 * length o + 2) /\
  valid_abs n /\ b_into_name None (run None b_init ops) = Ok (wire_abs n) /\
  n = flat_map (fun x => [[hex_char x]; [hex_char (x / 16)]]) (rev o) ++ [rev_v6_label1; rev_v6_label2].
Proof.
  intros Hw Hlen ops n.
  assert (Hlab : forall l, l = rev_v4_label1 \/ l = rev_v4_label2 \/ l = rev_v6_label1 \/ l = rev_v6_label2 -> valid_label l).
  { intros l [ -> | [ -> | [ -> | -> ] ] ]; (split; [cbn; lia|repeat constructor]). }
  assert (Hops : Forall lab_op ops).
  { unfold ops, reverse_v6_ops. apply Forall_app. split.
    - apply Forall_forall. intros x Hx. apply in_flat_map in Hx as (y & Hy & Hx).
      apply in_rev in Hy. unfold wf_bytes in Hw. rewrite Forall_forall in Hw. specialize (Hw y Hy).
      destruct Hx as [<-|[<-|[]]]; cbn [lab_op]; [exact Hw|].
      apply N.div_lt_upper_bound; lia.
    - repeat constructor; cbn [lab_op]; apply Hlab; auto. }
  assert (Hl : (wire_len n <= 254)%nat).
  { unfold n, ops, reverse_v6_ops. rewrite map_app, wire_len_app, hex_labels_len, rev_length.
    cbn [map label_of wire_len]. unfold rev_v6_label1, rev_v6_label2. cbn [length]. lia. }
  destruct (lab_ops_built ops Hops Hl) as (H1 & H2 & H3).
  split; [|split; [exact H2|split; [exact H3|]]].
  - rewrite H1. f_equal. unfold ops, reverse_v6_ops. rewrite app_length. cbn [length].
    rewrite <- (rev_length o). generalize (rev o). intros l. induction l as [|x l IH]; [reflexivity|].
    cbn [flat_map app length]. lia.
  - unfold n, ops, reverse_v6_ops. rewrite map_app. f_equal.
    generalize (rev o). intros l. induction l as [|x l IH]; [reflexivity|].
    cbn [flat_map app map label_of]. rewrite IH. reflexivity.
Qed.

Example reverse_ex :
  b_into_name None (run None b_init (reverse_v4_ops 192 0 2 12)) =
    Ok [2;49;50; 1;50; 1;48; 3;49;57;50; 7;105;110;45;97;100;100;114; 4;97;114;112;97; 0]%N /\
  length (reverse_v6_ops (repeat 255%N 16)) = 34%nat.
Proof. vm_compute. split; reflexivity. Qed.
