(* C03 model, part 4: slicing a name at label boundaries.
   base/name/absolute.rs Name::{is_label_start, check_index, check_bounds,
   slice, slice_from, range, range_from, split, truncate, split_first, parent,
   strip_suffix, into_relative}; base/name/relative.rs RelativeName::{
   is_label_start, check_index, check_bounds, slice, range, split, truncate,
   split_first, parent, strip_suffix, into_absolute, chain_root};
   base/name/traits.rs ToLabelIter::{starts_with, ends_with}.
   Names are their wire octets.  Panic sites:
     7  Label::split_from(tmp).unwrap() inside is_label_start
     8  check_index: "index not at start of a label"
     9  slicing the octets out of bounds / begin > end
     10 check_bounds: excluded lower bound (not expressible here) / unbounded
        end bound on an absolute name
     11 usize subtraction in strip_suffix / into_relative
     12 idx.checked_add(1).expect(..) (unreachable below 2^64, kept for shape) *)
From Coq Require Import NArith List Bool Arith.
From DV Require Import Base.Outcome Base.Bytes Base.Names C03.Gen C03.Model C03.ModelWire.
Import ListNotations.

(* the loop of is_label_start; [root_stops] is the `|| len == 1` test that only
   the absolute variant has *)
Fixpoint ils_loop (root_stops : bool) (fuel : nat) (tmp : bytes) (index : nat) : outcome bool :=
  match fuel with
  | O => OutOfFuel
  | S f =>
      if is_empty tmp then Ok false else
      match split_from tmp with
      | Ok (l, tail) =>
          let len := (length l + ils_len_add)%nat in
          if (index <? len)%nat || (root_stops && (len =? ils_root_len)%nat) then Ok false
          else if (index =? len)%nat then Ok true
          else ils_loop root_stops f tail (index - len)
      | _ => Panic 7
      end
  end.

Definition is_label_start (absolute : bool) (w : bytes) (index : nat) : outcome bool :=
  if (index =? 0)%nat then Ok true else ils_loop absolute (S (length w)) w index.

Definition check_index (absolute : bool) (w : bytes) (index : nat) : outcome unit :=
  do b <- is_label_start absolute w index; if b then Ok tt else Panic 8.

(* &w[a..b] *)
Definition sub (w : bytes) (a b : nat) : outcome bytes :=
  if (b <? a)%nat || (length w <? b)%nat then Panic 9 else Ok (firstn (b - a) (skipn a w)).

Inductive ebound := EIncl (n : nat) | EExcl (n : nat) | EUnb.

(* check_bounds: start is Included or Unbounded *)
Definition check_bounds (absolute : bool) (w : bytes) (lo : option nat) (hi : ebound) : outcome unit :=
  do _ <- (match lo with Some i => check_index absolute w i | None => Ok tt end);
  match hi with
  | EIncl i => check_index absolute w (i + 1)
  | EExcl i => check_index absolute w i
  | EUnb => if absolute then Panic 10 else Ok tt
  end.

Definition lo_of (lo : option nat) : nat := match lo with Some i => i | None => O end.
Definition hi_of (w : bytes) (hi : ebound) : nat :=
  match hi with EIncl i => (i + 1)%nat | EExcl i => i | EUnb => length w end.

(* Name::slice / range and RelativeName::slice / range: a relative name *)
Definition n_range (absolute : bool) (w : bytes) (lo : option nat) (hi : ebound) : outcome bytes :=
  do _ <- check_bounds absolute w lo hi; sub w (lo_of lo) (hi_of w hi).

(* Name::slice_from / range_from: an absolute name *)
Definition n_range_from (w : bytes) (begin : nat) : outcome bytes :=
  do _ <- check_index true w begin; sub w begin (length w).

(* split: (left, right) *)
Definition n_split (absolute : bool) (w : bytes) (mid : nat) : outcome (bytes * bytes) :=
  do _ <- check_index absolute w mid;
  do l <- sub w 0 mid; do r <- sub w mid (length w); Ok (l, r).

(* truncate (Vec::truncate does nothing when len > length; check_index comes first) *)
Definition n_truncate (absolute : bool) (w : bytes) (len : nat) : outcome bytes :=
  do _ <- check_index absolute w len; Ok (firstn len w).

(* split_first / parent: None for the root name / the empty name *)
Definition n_parent (absolute : bool) (w : bytes) : outcome (option bytes) :=
  if (if absolute then (length w =? 1)%nat else is_empty w) then Ok None else
  match split_from w with                       (* self.iter().next() *)
  | Ok (l, _) => do p <- n_split absolute w (length l + 1); Ok (Some (snd p))
  | _ => Panic 7
  end.

Definition n_into_relative (w : bytes) : outcome bytes :=
  if (length w <? into_relative_sub)%nat then Panic 11 else Ok (firstn (length w - into_relative_sub) w).

(* RelativeName::into_absolute = into_builder().into_name(); chain_root composes the same octets *)
Definition n_into_absolute (cap : option nat) (w : bytes) : outcome bytes :=
  b_into_name cap (mk_b w None).

(* ToLabelIter::starts_with / ends_with over label lists (an absolute name's
   list ends with the root label []), labels compared ignoring ASCII case *)
Fixpoint starts_with (a b : list label) : bool :=
  match a, b with
  | _, [] => true
  | [], _ :: _ => false
  | x :: a', y :: b' => if negb (eq_ci x y) then false else starts_with a' b'
  end.
Definition ends_with (a b : list label) : bool := starts_with (rev a) (rev b).

(* Name::strip_suffix(base): Ok(relative name) or Err(self) (None) *)
Definition abs_strip_suffix (n base : name) : outcome (option bytes) :=
  let w := wire_abs n in
  if ends_with (n ++ [[]]) (base ++ [[]]) then
    if (length w <? wire_len base + 1)%nat then Panic 11 else
    do t <- n_truncate true w (length w - (wire_len base + 1)); Ok (Some t)
  else Ok None.

(* RelativeName::strip_suffix(base): truncates without check_index *)
Definition rel_strip_suffix (n base : name) : outcome (option bytes) :=
  let w := wire_rel n in
  if ends_with n base then
    if (length w <? wire_len base)%nat then Panic 11 else Ok (Some (firstn (length w - wire_len base) w))
  else Ok None.
