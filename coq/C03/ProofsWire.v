(* C03 -- the validators accept exactly the wire forms of valid names. *)
From Coq Require Import NArith List Bool Arith Lia ZArith.
From Coq Require Import ZifyN ZifyBool ZifyNat.
From DV Require Import Base.Outcome Base.Bytes Base.Names C03.Gen C03.Model C03.ModelWire C03.Spec C03.ProofsBuilder.
Import ListNotations.
Ltac Zify.zify_post_hook ::= Z.div_mod_to_equations.

Lemma split_from_ok b l tail : wf_bytes b -> split_from b = Ok (l, tail) ->
  b = wire_label l ++ tail /\ (length l <= 63)%nat /\ wf_bytes l /\ wf_bytes tail.
Proof.
  unfold split_from. destruct b as [|h t]; [discriminate|]. intros Hw.
  unfold split_normal_hi, split_end_add, split_ext_lo, split_ext_hi, split_ptr_lo, split_ptr_hi, split_ptr_min_len.
  destruct (N.leb_spec h 63).
  - destruct (Nat.ltb_spec (length (h :: t)) (N.to_nat h + 1)); [discriminate|].
    intros E. injection E as <- <-. cbn [length] in *.
    replace (N.to_nat h + 1 - 1)%nat with (N.to_nat h) by lia.
    inversion Hw as [|? ? Hh Ht]; subst.
    assert (Hl : length (firstn (N.to_nat h) t) = N.to_nat h) by (apply firstn_length_le; lia).
    assert (Ht' : Forall (fun b => (b < 256)%N) (firstn (N.to_nat h) t ++ skipn (N.to_nat h) t))
      by (rewrite firstn_skipn; exact Ht).
    apply Forall_app in Ht' as [A B].
    repeat split.
    + unfold wire_label. rewrite Hl, N2Nat.id. cbn [app]. rewrite firstn_skipn. reflexivity.
    + lia.
    + exact A.
    + exact B.
  - destruct ((64 <=? h)%N && (h <=? 127)%N); [discriminate|].
    destruct ((192 <=? h)%N && (h <=? 255)%N); [|discriminate].
    destruct (length (h :: t) <? 2)%nat; discriminate.
Qed.

Lemma split_from_wire l rest : (length l <= 63)%nat ->
  split_from (wire_label l ++ rest) = Ok (l, rest).
Proof.
  intros Hl. unfold wire_label, split_from. cbn [app].
  unfold split_normal_hi, split_end_add.
  destruct (N.leb_spec (N.of_nat (length l)) 63); [|lia].
  rewrite Nat2N.id. cbn [length]. rewrite app_length.
  destruct (Nat.ltb_spec (S (length l + length rest)) (length l + 1)); [lia|].
  replace (length l + 1 - 1)%nat with (length l) by lia.
  rewrite firstn_app, firstn_all, Nat.sub_diag, skipn_app, skipn_all, Nat.sub_diag.
  cbn [firstn skipn app]. rewrite app_nil_r. reflexivity.
Qed.

Lemma is_root_false l : is_root l = false <-> (1 <= length l)%nat.
Proof. destruct l; cbn; split; intros; try lia; try discriminate; reflexivity. Qed.

(* ---- absolute *)
Lemma abs_loop_sound f : forall b, wf_bytes b -> abs_loop f b = Ok tt ->
  exists n, Forall valid_label n /\ b = wire_abs n.
Proof.
  induction f as [|f IH]; intros b Hw H; [discriminate|]. cbn [abs_loop] in H.
  destruct (split_from b) as [[l tail]|e|p|] eqn:E; try discriminate.
  destruct (split_from_ok b l tail Hw E) as (-> & Hl & Hwl & Hwt).
  destruct (is_root l) eqn:R.
  - destruct l; [|discriminate]. destruct tail; [|discriminate]. exists []. split; [constructor|reflexivity].
  - apply is_root_false in R. destruct (is_empty tail) eqn:Et; [discriminate|].
    destruct (IH tail Hwt H) as (n & Hn & ->). exists (l :: n). split.
    + constructor; [|exact Hn]. split; [lia|exact Hwl].
    + unfold wire_abs, wire_rel. cbn [map concat]. rewrite <- app_assoc. reflexivity.
Qed.

Lemma abs_loop_complete n : forall f, Forall valid_label n -> (length n < f)%nat ->
  abs_loop f (wire_abs n) = Ok tt.
Proof.
  induction n as [|l n IH]; intros f Hv Hf; (destruct f as [|f]; [lia|]).
  - reflexivity.
  - inversion Hv as [|? ? [[H1 H2] Hb] Hv']; subst. cbn [abs_loop].
    replace (wire_abs (l :: n)) with (wire_label l ++ wire_abs n)
      by (unfold wire_abs, wire_rel; cbn [map concat]; rewrite <- app_assoc; reflexivity).
    rewrite split_from_wire by lia.
    destruct l as [|x l']; [cbn in H1; lia|]. cbn [is_root].
    assert (He : is_empty (wire_abs n) = false) by (unfold wire_abs; destruct (wire_rel n); reflexivity).
    rewrite He. apply IH; [assumption|cbn [length] in Hf; lia].
Qed.

Lemma labels_le_wire (n : name) : (length n <= wire_len n)%nat.
Proof. induction n; cbn [length wire_len]; lia. Qed.

Theorem check_abs_iff b : wf_bytes b ->
  (check_abs b = Ok tt <-> exists n, valid_abs n /\ b = wire_abs n).
Proof.
  intros Hw. unfold check_abs, check_abs_ge, check_abs_lim, name_max. rewrite exceeds_gt. split.
  - destruct (Nat.ltb_spec 255 (length b)) as [Hgt|Hle]; [discriminate|]. intros H.
    destruct (abs_loop_sound _ b Hw H) as (n & Hn & ->). exists n. split; [|reflexivity].
    split; [exact Hn|]. rewrite wire_abs_length in *. lia.
  - intros (n & [Hn Hl] & ->). rewrite wire_abs_length.
    destruct (Nat.ltb_spec 255 (S (wire_len n))); [lia|].
    apply abs_loop_complete; [exact Hn|]. pose proof (labels_le_wire n). lia.
Qed.

(* ---- relative *)
Lemma rel_loop_sound f : forall b, wf_bytes b -> rel_loop f b = Ok tt ->
  exists n, Forall valid_label n /\ b = wire_rel n.
Proof.
  induction f as [|f IH]; intros b Hw H; [discriminate|]. cbn [rel_loop] in H.
  destruct b as [|h t]; [exists []; split; [constructor|reflexivity]|]. cbn [is_empty] in H.
  destruct (split_from (h :: t)) as [[l tail]|e|p|] eqn:E; try discriminate.
  destruct (split_from_ok _ l tail Hw E) as (Hb & Hl & Hwl & Hwt).
  destruct (is_root l) eqn:R; [discriminate|]. apply is_root_false in R.
  destruct (IH tail Hwt H) as (n & Hn & ->). exists (l :: n). split.
  - constructor; [|exact Hn]. split; [lia|exact Hwl].
  - rewrite Hb. reflexivity.
Qed.

Lemma rel_loop_complete n : forall f, Forall valid_label n -> (length n < f)%nat ->
  rel_loop f (wire_rel n) = Ok tt.
Proof.
  induction n as [|l n IH]; intros f Hv Hf; (destruct f as [|f]; [lia|]).
  - reflexivity.
  - inversion Hv as [|? ? [[H1 H2] Hb] Hv']; subst. cbn [rel_loop].
    replace (wire_rel (l :: n)) with (wire_label l ++ wire_rel n) by reflexivity.
    assert (He : is_empty (wire_label l ++ wire_rel n) = false) by reflexivity. rewrite He.
    rewrite split_from_wire by lia.
    destruct l as [|x l']; [cbn in H1; lia|]. cbn [is_root].
    apply IH; [assumption|cbn [length] in Hf; lia].
Qed.

Theorem check_rel_iff b : wf_bytes b ->
  (check_rel b = Ok tt <-> exists n, valid_rel n /\ b = wire_rel n).
Proof.
  intros Hw. unfold check_rel, check_rel_ge, check_rel_lim. rewrite exceeds_gt. split.
  - destruct (Nat.ltb_spec 254 (length b)) as [Hgt|Hle]; [discriminate|]. intros H.
    destruct (rel_loop_sound _ b Hw H) as (n & Hn & ->). exists n. split; [|reflexivity].
    split; [exact Hn|]. rewrite wire_rel_length in *. lia.
  - intros (n & [Hn Hl] & ->). rewrite wire_rel_length.
    destruct (Nat.ltb_spec 254 (wire_len n)); [lia|].
    apply rel_loop_complete; [exact Hn|]. pose proof (labels_le_wire n). lia.
Qed.

(* the fuel given by check_abs / check_rel is enough *)
Lemma abs_loop_fuel f : forall b, (length b < f)%nat -> abs_loop f b <> OutOfFuel.
Proof.
  induction f as [|f IH]; intros b Hf; [lia|]. cbn [abs_loop].
  unfold split_from. destruct b as [|h t]; [discriminate|].
  destruct (h <=? split_normal_hi)%N.
  - destruct (Nat.ltb_spec (length (h :: t)) (N.to_nat h + split_end_add)); [discriminate|].
    destruct (is_root _); [destruct (is_empty _); discriminate|].
    destruct (is_empty _); [discriminate|]. apply IH.
    rewrite skipn_length. cbn [length] in *. lia.
  - destruct (_ && _); [discriminate|]. destruct (_ && _); [|discriminate].
    destruct (_ <? _)%nat; discriminate.
Qed.

Lemma rel_loop_fuel f : forall b, (length b < f)%nat -> rel_loop f b <> OutOfFuel.
Proof.
  induction f as [|f IH]; intros b Hf; [lia|]. cbn [rel_loop].
  destruct b as [|h t]; [discriminate|]. cbn [is_empty].
  unfold split_from.
  destruct (h <=? split_normal_hi)%N.
  - destruct (Nat.ltb_spec (length (h :: t)) (N.to_nat h + split_end_add)); [discriminate|].
    destruct (is_root _); [discriminate|]. apply IH.
    rewrite skipn_length. cbn [length] in *. lia.
  - destruct (_ && _); [discriminate|]. destruct (_ && _); [|discriminate].
    destruct (_ <? _)%nat; discriminate.
Qed.

Theorem check_total b : no_panic (check_abs b) /\ no_panic (check_rel b).
Proof.
  split.
  - unfold check_abs. destruct (exceeds _ _ _); [exact I|].
    pose proof (abs_loop_fuel (S (length b)) b ltac:(lia)) as H.
    assert (Hp : forall f b, match abs_loop f b with Panic _ => False | _ => True end).
    { induction f as [|f IH]; intros b0; [exact I|]. cbn [abs_loop]. unfold split_from.
      destruct b0 as [|h t]; [exact I|]. destruct (h <=? split_normal_hi)%N.
      - destruct (_ <? _)%nat; [exact I|]. destruct (is_root _); [destruct (is_empty _); exact I|].
        destruct (is_empty _); [exact I|]. apply IH.
      - destruct (_ && _); [exact I|]. destruct (_ && _); [|exact I]. destruct (_ <? _)%nat; exact I. }
    specialize (Hp (S (length b)) b). destruct (abs_loop (S (length b)) b); cbn; try exact I; try contradiction; apply H; reflexivity.
  - unfold check_rel. destruct (exceeds _ _ _); [exact I|].
    pose proof (rel_loop_fuel (S (length b)) b ltac:(lia)) as H.
    assert (Hp : forall f b, match rel_loop f b with Panic _ => False | _ => True end).
    { induction f as [|f IH]; intros b0; [exact I|]. cbn [rel_loop].
      destruct b0 as [|h t]; [exact I|]. cbn [is_empty]. unfold split_from.
      destruct (h <=? split_normal_hi)%N.
      - destruct (_ <? _)%nat; [exact I|]. destruct (is_root _); [exact I|]. apply IH.
      - destruct (_ && _); [exact I|]. destruct (_ && _); [|exact I]. destruct (_ <? _)%nat; exact I. }
    specialize (Hp (S (length b)) b). destruct (rel_loop (S (length b)) b); cbn; try exact I; try contradiction; apply H; reflexivity.
Qed.

(* compose -> from_octets: the wire form of a valid name is accepted and decodes
   to the same labels *)
Theorem wire_roundtrip n : valid_abs n ->
  check_abs (wire_abs n) = Ok tt /\ decode_abs (wire_abs n) = inl (Some (n, [])) /\
  check_rel (wire_rel n) = Ok tt.
Proof.
  intros Hv. assert (Hw : wf_bytes (wire_abs n)).
  { destruct Hv as [Hl _]. unfold wire_abs. apply wf_bytes_app. split; [|repeat constructor; lia].
    unfold wire_rel. induction Hl as [|l n' [[H1 H2] Hb] Hl IH]; [constructor|].
    cbn [map concat]. apply wf_bytes_app. split; [|exact IH]. constructor; [lia|exact Hb]. }
  split; [apply check_abs_iff; [exact Hw|eauto]|]. split.
  - rewrite <- (app_nil_r (wire_abs n)). apply decode_wire_abs. exact Hv.
  - apply check_rel_iff; [|exists n; split; [exact Hv|reflexivity]].
    unfold wire_abs in Hw. apply wf_bytes_app in Hw. apply Hw.
Qed.

(* ---- Label::from_slice *)
Theorem label_from_slice_iff s : label_from_slice s = Ok s <-> (length s <= 63)%nat.
Proof.
  unfold label_from_slice, label_from_slice_ge, label_from_slice_lim, label_max. rewrite exceeds_gt.
  destruct (Nat.ltb_spec 63 (length s)); split; intros; try lia; try discriminate; reflexivity.
Qed.

(* ---- Chain::new *)
(* absolute right side: the chain is a valid absolute name *)
Theorem chain_abs_valid l r : valid_rel l -> valid_abs r ->
  chain_new (wire_len l) (wire_len r + 1) = Ok tt -> valid_abs (l ++ r).
Proof.
  unfold chain_new, chain_ge, chain_lim, name_max. rewrite exceeds_gt.
  intros [Hl _] [Hr _]. destruct (Nat.ltb_spec 255 (wire_len l + (wire_len r + 1))); [discriminate|].
  intros _. split; [apply Forall_app; split; assumption|]. rewrite wire_len_app. lia.
Qed.

(* relative right side: valid unless the known class *)
Theorem chain_rel_valid l r : valid_rel l -> valid_rel r ->
  chain_new (wire_len l) (wire_len r) = Ok tt -> chain_relative_255 l r = false -> valid_rel (l ++ r).
Proof.
  unfold chain_new, chain_ge, chain_lim, name_max, chain_relative_255. rewrite exceeds_gt.
  intros [Hl _] [Hr _]. destruct (Nat.ltb_spec 255 (wire_len l + wire_len r)); [discriminate|].
  intros _ Hk. apply Nat.eqb_neq in Hk.
  split; [apply Forall_app; split; assumption|]. rewrite wire_len_app. lia.
Qed.

Definition lab9w : bytes := [49;50;51;52;53;54;55;56;57]%N.
Theorem chain_limit_refuted :
  let l := repeat lab9w 25 in let r := [[49;50;51;52]%N] in
  valid_rel l /\ valid_rel r /\ chain_new (wire_len l) (wire_len r) = Ok tt /\
  chain_relative_255 l r = true /\ ~ valid_rel (l ++ r).
Proof.
  cbv zeta. repeat split.
  - apply Forall_forall. intros x Hx. apply repeat_spec in Hx. subst x. split; [cbn; lia|repeat constructor].
  - vm_compute. lia.
  - repeat constructor.
  - vm_compute. lia.
  - intros [_ H]. vm_compute in H. lia.
Qed.

Example wire_examples :
  check_abs [3;119;119;119;0]%N = Ok tt /\ check_abs [3;119;119;119]%N = Err W_RelativeName /\
  check_abs [0;0]%N = Err W_TrailingData /\ check_abs [64;1]%N = Err W_BadLabel /\
  check_abs [192;1]%N = Err W_CompressedName /\ check_abs [5;1]%N = Err W_ShortInput /\
  check_rel [1;97;0]%N = Err W_AbsoluteName /\ check_rel [1;97]%N = Ok tt /\ check_rel [] = Ok tt /\
  check_abs [] = Err W_ShortInput /\ chain_new 250 5 = Ok tt /\ chain_new 250 6 = Err W_LongChain.
Proof. vm_compute. repeat split; reflexivity. Qed.

(* ---- the length tests at the other sites that produce names (T1 items):
   ParsedName::parse_ref (both phases; s = octets of the non-root labels read
   so far), Name::parse_name_len (whole length), zone-file convert_label (c =
   content octets written, on the fast and on the slow path) and scan_name
   (write = relative length after a dot) enforce the same limits as the
   validators *)
Theorem message_zonefile_limits : forall s c : nat,
  (exceeds parse_ref_phase1_ge s parse_ref_phase1_lim = false <-> (s + 1 <= name_max)%nat) /\
  (exceeds parse_ref_phase2_ge s parse_ref_phase2_lim = false <-> (s + 1 <= name_max)%nat) /\
  (exceeds name_parse_ge s name_parse_lim = false <-> (s <= name_max)%nat) /\
  (exceeds zf_label_fast_ge (1 + c) (1 + zf_label_latest_add) = false <-> (c <= label_max)%nat) /\
  (exceeds zf_label_slow_ge (1 + c) (1 + zf_label_latest_add) = false <-> (c <= label_max)%nat) /\
  (exceeds zf_name_ge s zf_name_lim = false <-> (s <= check_rel_lim)%nat) /\
  ((s =? c + zf_empty_label_add)%nat = true <-> s = S c).
Proof.
  intros s c. rewrite Nat.eqb_eq.
  unfold parse_ref_phase1_ge, parse_ref_phase1_lim, parse_ref_phase2_ge, parse_ref_phase2_lim,
    name_parse_ge, name_parse_lim, zf_label_fast_ge, zf_label_slow_ge, zf_label_latest_add,
    zf_name_ge, zf_name_lim, name_max, label_max, check_rel_lim, zf_empty_label_add.
  rewrite ?exceeds_ge, ?exceeds_gt.
  repeat split; intros H;
    try (apply Nat.leb_gt in H; lia); try (apply Nat.ltb_ge in H; lia);
    try (apply Nat.leb_gt; lia); try (apply Nat.ltb_ge; lia); try lia.
Qed.

(* ---- UncertainName::from_octets *)
Lemma unc_loop_true f len : forall b, unc_loop f len b = Ok true <-> abs_loop f b = Ok tt.
Proof.
  induction f as [|f IH]; intros b; cbn [unc_loop abs_loop]; [split; discriminate|].
  destruct (split_from b) as [[l tail]|e|p|]; try (split; discriminate).
  destruct (is_root l).
  - destruct (is_empty tail); split; intros; try discriminate; reflexivity.
  - destruct (is_empty tail); [|apply IH].
    destruct (uncertain_rel_checked && _); split; discriminate.
Qed.

Lemma unc_loop_false f len : forall b, wf_bytes b -> unc_loop f len b = Ok false ->
  (exists n, Forall valid_label n /\ n <> [] /\ b = wire_rel n) /\
  (uncertain_rel_checked = true -> exceeds uncertain_rel_ge len uncertain_rel_lim = false).
Proof.
  induction f as [|f IH]; intros b Hw H; [discriminate|]. cbn [unc_loop] in H.
  destruct (split_from b) as [[l tail]|e|p|] eqn:E; try discriminate.
  destruct (split_from_ok b l tail Hw E) as (-> & Hl & Hwl & Hwt).
  destruct (is_root l) eqn:R; [destruct (is_empty tail); discriminate|]. apply is_root_false in R.
  assert (Vl : valid_label l) by (split; [lia|exact Hwl]).
  destruct (is_empty tail) eqn:Et.
  - destruct tail; [|discriminate]. split.
    + exists [l]. split; [constructor; [exact Vl|constructor]|]. split; [discriminate|].
      unfold wire_rel. cbn [map concat]. reflexivity.
    + intros Hc. rewrite Hc in H. cbn [andb] in H. destruct (exceeds _ _ _); [discriminate|reflexivity].
  - destruct (IH tail Hwt H) as [(n & Hn & _ & ->) Hc]. split; [|exact Hc].
    exists (l :: n). split; [constructor; assumption|]. split; [discriminate|reflexivity].
Qed.

Theorem uncertain_absolute_iff b : wf_bytes b ->
  (uncertain_check b = Ok true <-> exists n, valid_abs n /\ b = wire_abs n).
Proof.
  intros Hw. rewrite <- (check_abs_iff b Hw). unfold uncertain_check, check_abs.
  unfold uncertain_ge, uncertain_lim, check_abs_ge, check_abs_lim, name_max.
  destruct (exceeds false (length b) 255); [split; discriminate|]. apply unc_loop_true.
Qed.

(* a relative result is a valid, non-empty relative name -- unless it is the
   class uncertain_relative_255 and the source does not test the relative length *)
Theorem uncertain_relative_valid b : wf_bytes b -> uncertain_check b = Ok false ->
  uncertain_rel_checked = true \/ uncertain_relative_255 b = false ->
  exists n, valid_rel n /\ n <> [] /\ b = wire_rel n.
Proof.
  intros Hw H Hk. unfold uncertain_check, uncertain_ge, uncertain_lim, name_max in H. rewrite exceeds_gt in H.
  destruct (Nat.ltb_spec 255 (length b)) as [Hgt|Hle]; [discriminate|].
  destruct (unc_loop_false _ _ b Hw H) as [(n & Hn & Hne & ->) Hc].
  exists n. split; [|auto]. split; [exact Hn|]. rewrite wire_rel_length in *.
  destruct Hk as [Hk|Hk].
  - specialize (Hc Hk). revert Hc. unfold uncertain_rel_ge, uncertain_rel_lim. rewrite ?exceeds_gt, ?exceeds_ge.
    intros Hc. first [apply Nat.ltb_ge in Hc | apply Nat.leb_gt in Hc]; lia.
  - unfold uncertain_relative_255 in Hk. rewrite wire_rel_length in Hk. apply Nat.eqb_neq in Hk. lia.
Qed.

Definition lab63 (c : N) : bytes := repeat c 63.
Definition unc_witness : name := [lab63 97; lab63 97; lab63 97; repeat 98%N 62].

(* the source tests the relative length (T1: uncertain_rel_checked), so every
   relative result is valid; 63a.63a.63a.62b (255 octets, no root) is refused *)
Theorem uncertain_relative_valid_full b : wf_bytes b -> uncertain_check b = Ok false ->
  exists n, valid_rel n /\ n <> [] /\ b = wire_rel n.
Proof. intros Hw H. apply uncertain_relative_valid; [exact Hw|exact H|left; reflexivity]. Qed.

Example uncertain_witness_refused :
  length (wire_rel unc_witness) = 255%nat /\ uncertain_check (wire_rel unc_witness) = Err W_LongName /\
  uncertain_check [1; 97]%N = Ok false /\ uncertain_check [1; 97; 0]%N = Ok true /\ uncertain_check [] = Err W_ShortInput.
Proof. vm_compute. repeat split; reflexivity. Qed.

Theorem chain_uncertain_valid l r : valid_rel l -> valid_abs r ->
  chain_new_uncertain true (wire_len l) (wire_len r + 1) = Ok tt -> valid_abs (l ++ r).
Proof.
  unfold chain_new_uncertain, chain_unc_ge, chain_unc_lim, name_max. rewrite exceeds_gt.
  intros [Hl _] [Hr _]. destruct (Nat.ltb_spec 255 (wire_len l + (wire_len r + 1))); [discriminate|].
  intros _. split; [apply Forall_app; split; assumption|]. rewrite wire_len_app. lia.
Qed.

(* ---- chain_root / UncertainName::chain *)
Theorem chain_root_spec n : valid_rel n -> n_chain_root (wire_rel n) = Ok (wire_abs n) /\ valid_abs n.
Proof.
  intros Hv. split; [|exact Hv]. destruct Hv as [_ Hl]. unfold n_chain_root, chain_new, chain_ge, chain_lim, name_max.
  rewrite exceeds_gt, wire_rel_length. destruct (Nat.ltb_spec 255 (wire_len n + 1)); [lia|]. reflexivity.
Qed.

(* a consequence of the known 255-octet relative names: chain_root panics on them *)
Theorem chain_root_255_panics w : length w = 255%nat -> n_chain_root w = Panic 14.
Proof. intros H. unfold n_chain_root, chain_new, chain_ge, chain_lim, name_max. rewrite H. reflexivity. Qed.

Theorem unc_chain_valid l r w : valid_abs r ->
  (valid_abs l /\ unc_chain true (wire_abs l) (wire_abs r) = Ok w -> w = wire_abs l) /\
  (valid_rel l /\ unc_chain false (wire_rel l) (wire_abs r) = Ok w -> w = wire_abs (l ++ r) /\ valid_abs (l ++ r)).
Proof.
  intros Hr. split.
  - intros [_ H]. unfold unc_chain, chain_new_uncertain in H. cbn in H. injection H as <-. reflexivity.
  - intros [Hl H]. unfold unc_chain in H. cbn [negb] in H.
    destruct (chain_new_uncertain true (length (wire_rel l)) (length (wire_abs r))) as [[]|e|p|] eqn:E; try discriminate.
    cbn [bind] in H. injection H as <-. rewrite wire_rel_length, wire_abs_length in E.
    split.
    + unfold wire_abs. rewrite wire_rel_app, app_assoc. reflexivity.
    + apply chain_uncertain_valid; auto. replace (wire_len r + 1)%nat with (S (wire_len r)) by lia. exact E.
Qed.

(* ---- a chain of three parts ending in an absolute name is valid -- also when
   the inner relative chain is the known 255-octet class: the outer test then
   refuses it *)
Theorem chain3_abs_valid a b c : valid_rel a -> valid_rel b -> valid_abs c ->
  chain3 (wire_len a) (wire_len b) (wire_len c + 1) = Ok tt -> valid_abs (a ++ b ++ c).
Proof.
  unfold chain3, chain_new, chain_ge, chain_lim, name_max. rewrite !exceeds_gt.
  intros [Ha _] [Hb _] [Hc _].
  destruct (Nat.ltb_spec 255 (wire_len a + wire_len b)); [discriminate|]. cbn [bind].
  destruct (Nat.ltb_spec 255 (wire_len a + wire_len b + (wire_len c + 1))); [discriminate|]. intros _.
  split; [repeat (apply Forall_app; split); assumption|]. rewrite !wire_len_app. lia.
Qed.

(* ---- the constant names *)
Theorem constants_valid :
  check_abs const_root = Ok tt /\ const_root = wire_abs [] /\ const_root_slice = const_root /\
  const_from_symbols_root = const_root /\
  check_rel const_empty = Ok tt /\ const_empty = wire_rel [] /\ const_empty_slice = const_empty /\
  check_rel const_wildcard = Ok tt /\ const_wildcard = wire_rel [[42%N]] /\ const_wildcard_slice = const_wildcard.
Proof. vm_compute. repeat split; reflexivity. Qed.

(* ---- NameBuilder::from_builder starts from a state satisfying the builder invariant *)
Theorem from_builder_inv w st : wf_bytes w -> b_from_builder w = Ok st -> C03.Spec.Inv st.
Proof.
  intros Hw H. unfold b_from_builder in H. destruct (check_rel w) as [[]|e|p|] eqn:E; try discriminate.
  cbn [bind] in H. injection H as <-.
  apply (check_rel_iff w Hw) in E. destruct E as (n & [Hn Hl] & ->).
  exists (C03.Spec.mk_a n None). split; [reflexivity|]. split; [split; [exact Hn|exact I]|].
  unfold C03.Spec.alen. cbn. lia.
Qed.

(* ---- Name::parse *)
Lemma nparse_loop_sound f : forall tmp c len, wf_bytes tmp -> nparse_loop f tmp c = Ok len ->
  exists n rest, Forall valid_label n /\ tmp = wire_abs n ++ rest /\ len = (c + length (wire_abs n))%nat.
Proof.
  induction f as [|f IH]; intros tmp c len Hw H; [discriminate|]. cbn [nparse_loop] in H.
  destruct (is_empty tmp); [discriminate|].
  destruct (split_from tmp) as [[l tail]|e|p|] eqn:E; try discriminate.
  destruct (split_from_ok tmp l tail Hw E) as (-> & Hl & Hwl & Hwt).
  destruct (is_root l) eqn:R.
  - destruct l; [|discriminate]. injection H as <-. exists [], tail. split; [constructor|]. split; [reflexivity|]. cbn. lia.
  - apply is_root_false in R. destruct (IH tail _ len Hwt H) as (n & rest & Hn & -> & ->).
    exists (l :: n), rest. split; [constructor; [split; [lia|exact Hwl]|exact Hn]|]. split.
    + unfold wire_abs, wire_rel. cbn [map concat]. rewrite <- !app_assoc. reflexivity.
    + rewrite !wire_abs_length. cbn [wire_len]. lia.
Qed.

Theorem name_parse_valid b w : wf_bytes b -> name_parse b = Ok w ->
  exists n rest, valid_abs n /\ w = wire_abs n /\ b = w ++ rest.
Proof.
  intros Hw H. unfold name_parse in H.
  destruct (nparse_loop (S (length b)) b 0) as [len|e|p|] eqn:E; try discriminate. cbn [bind] in H.
  unfold name_parse_ge, name_parse_lim, name_max in H. rewrite exceeds_gt in H.
  destruct (Nat.ltb_spec 255 len); [discriminate|]. injection H as <-.
  destruct (nparse_loop_sound _ _ _ _ Hw E) as (n & rest & Hn & -> & ->). cbn [Nat.add] in *.
  exists n, rest. rewrite take_app_length. split; [|auto]. split; [exact Hn|]. rewrite wire_abs_length in *. lia.
Qed.
