(* C03 -- abstract reading of the name builder (definitions only).

   Abstract state: the labels already closed and the content of the label
   under construction.  The abstract operations are the documented behaviour of
   NameBuilder written over label lists with literal RFC 1035 limits (63, 254,
   255); they do not mention offsets, placeholders or Gen.v.  Proofs show that
   the transcribed code (Model.v) refines them step by step. *)
From Coq Require Import NArith List Bool Arith.
From DV Require Import Base.Outcome Base.Bytes Base.Names C03.Gen C03.Model.
Import ListNotations.

Record astate := mk_a { closed : name; opn : option bytes }.
Definition a_init : astate := mk_a [] None.

Definition alen (a : astate) : nat :=
  (wire_len (closed a) + match opn a with Some c => S (length c) | None => 0 end)%nat.

Definition fits (cap : option nat) (a : astate) (k : nat) : bool :=
  match cap with None => true | Some c => (alen a + k <=? c)%nat end.

Definition aend (a : astate) : astate :=
  match opn a with Some c => mk_a (closed a ++ [c]) None | None => a end.

Definition ares := (astate * outcome unit)%type.

Definition a_push (cap : option nat) (a : astate) (ch : N) : ares :=
  if (254 <=? alen a)%nat then (a, Err E_LongName) else
  match opn a with
  | Some c =>
      if (63 <=? length c)%nat then (a, Err E_LongLabel)
      else if fits cap a 1 then (mk_a (closed a) (Some (c ++ [ch])), Ok tt)
      else (a, Err E_ShortBuf)
  | None =>
      if (253 <=? alen a)%nat then (a, Err E_LongName)
      else if fits cap a 2 then (mk_a (closed a) (Some [ch]), Ok tt)
      else (a, Err E_ShortBuf)
  end.

(* NOTE the new-label branch compares alen + n (without the length octet)
   against 254: this is the known finding relname_255_new_label, kept because
   the code does so (pinned by builder::test::name_limit). *)
Definition a_slice (cap : option nat) (a : astate) (s : bytes) : ares :=
  match s with
  | [] => (a, Ok tt)
  | _ :: _ =>
    let n := length s in
    match opn a with
    | Some c =>
        if (63 <? length c + n)%nat then (a, Err E_LongLabel)
        else if (254 <? alen a + n)%nat then (a, Err E_LongName)
        else if fits cap a n then (mk_a (closed a) (Some (c ++ s)), Ok tt)
        else (a, Err E_ShortBuf)
    | None =>
        if (63 <? n)%nat then (a, Err E_LongLabel)
        else if (254 <? alen a + n)%nat then (a, Err E_LongName)
        else if fits cap a (S n) then (mk_a (closed a) (Some s), Ok tt)
        else (a, Err E_ShortBuf)
    end
  end.

Definition a_label (cap : option nat) (a : astate) (l : bytes) : ares :=
  match a_slice cap (aend a) l with
  | (a2, Ok _) => (aend a2, Ok tt)
  | (_, r) => (a, r)            (* error: nothing happened *)
  end.

Definition a_then (r : ares) (k : astate -> ares) : ares :=
  match r with (a, Ok _) => k a | r => r end.

(* decimal digits of v, no leading zeros *)
Definition dec_digits (v : N) : bytes :=
  let h := (v / 100)%N in let d := ((v / 10) mod 10)%N in let u := (v mod 10)%N in
  (if (0 <? h)%N then [(h + 48)%N] else []) ++
  (if (0 <? h)%N || (0 <? d)%N then [(d + 48)%N] else []) ++ [(u + 48)%N].

Fixpoint a_pushes (cap : option nat) (a : astate) (l : bytes) : ares :=
  match l with
  | [] => (a, Ok tt)
  | ch :: l' => a_then (a_push cap a ch) (fun a => a_pushes cap a l')
  end.

(* append_dec_u8_label / append_hex_digit_label: end the label, push the
   digits one by one (an error leaves the digits pushed so far), end the label *)
Definition a_dec (cap : option nat) (a : astate) (v : N) : ares :=
  a_then (a_pushes cap (aend a) (dec_digits v)) (fun a => (aend a, Ok tt)).

Definition hex_char (v : N) : N :=
  let d := N.land v 15 in if (d <? 10)%N then (48 + d)%N else (55 + d)%N.

Definition a_hex (cap : option nat) (a : astate) (v : N) : ares :=
  a_then (a_pushes cap (aend a) [hex_char v]) (fun a => (aend a, Ok tt)).

Definition a_name (cap : option nat) (a : astate) (nm : name) : ares :=
  let a1 := aend a in
  if (254 <? alen a1 + wire_len nm)%nat then (a, Err E_LongName)
  else if fits cap a1 (wire_len nm) then (mk_a (closed a1 ++ nm) None, Ok tt)
  else (a, Err E_ShortBuf).

Definition a_step (cap : option nat) (a : astate) (o : op) : ares :=
  match o with
  | OPush ch => a_push cap a ch
  | OSlice s => a_slice cap a s
  | OEnd => (aend a, Ok tt)
  | OLabel l => a_label cap a l
  | ODec v => a_dec cap a v
  | OHex v => a_hex cap a v
  | OName nm => a_name cap a nm
  end.

Definition a_run (cap : option nat) (a : astate) (ops : list op) : astate :=
  fold_left (fun a o => fst (a_step cap a o)) ops a.

(* ---- representation relation and invariants *)
Definition repr (a : astate) (st : bstate) : Prop :=
  match opn a with
  | None => st = mk_b (wire_rel (closed a)) None
  | Some c => exists ph, st = mk_b (wire_rel (closed a) ++ ph :: c) (Some (wire_len (closed a)))
  end.

(* well-formed: every closed label is a valid label, the open one has 1..63
   octets *)
Definition awf (a : astate) : Prop :=
  Forall valid_label (closed a) /\
  match opn a with Some c => valid_label c | None => True end.

(* valid: well-formed and, once the open label is closed, a valid relative
   name (<= 254 octets) *)
Definition avalid (a : astate) : Prop := awf a /\ (alen a <= 254)%nat.

Definition Inv (st : bstate) : Prop := exists a, repr a st /\ avalid a.

Definition wf_op (o : op) : Prop :=
  match o with
  | OPush ch => (ch < 256)%N
  | OSlice s => wf_bytes s
  | OEnd => True
  | OLabel l => wf_bytes l
  | ODec v => (v < 256)%N
  | OHex v => (v < 256)%N
  | OName nm => Forall valid_label nm
  end.

(* ---- the known finding class relname_255_new_label, as a decidable
   predicate on the concrete state and operation: append_slice / append_label
   starts a new label of n octets (1..63) at length len with len + n = 254
   (and the octets fit the buffer) *)
Definition new_label_at_254 (cap : option nat) (st : bstate) (n : nat) : bool :=
  (1 <=? n)%nat && (n <=? 63)%nat && (length (buf st) + n =? 254)%nat &&
  match cap with None => true | Some c => (length (buf st) + n + 1 <=? c)%nat end.

Definition gap_step (cap : option nat) (st : bstate) (o : op) : bool :=
  match o with
  | OSlice s => match head st with None => new_label_at_254 cap st (length s) | Some _ => false end
  | OLabel l => new_label_at_254 cap st (length l)
  | _ => false
  end.

Fixpoint hits_from (cap : option nat) (st : bstate) (ops : list op) : bool :=
  match ops with
  | [] => false
  | o :: ops' => gap_step cap st o || hits_from cap (fst (step cap st o)) ops'
  end.

Definition hits_relname_255 (cap : option nat) (ops : list op) : bool := hits_from cap b_init ops.

(* the ops whose error path touches nothing but the placeholder octet *)
Definition atomic_op (o : op) : bool :=
  match o with ODec _ | OHex _ => false | _ => true end.

(* witnesses *)
Definition lab9 : bytes := [49;50;51;52;53;54;55;56;57]%N.
Definition limit_witness : list op := repeat (OLabel lab9) 25 ++ [OLabel [49;50;51;52]%N].
