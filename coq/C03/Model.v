(* C03 model, part 1: base/name/builder.rs  NameBuilder.

   State: the octets buffer and `head` (offset of the length octet of the
   label under construction).  `cap` models the underlying octets builder:
   None = growable (Vec<u8>, BytesMut, SmallVec: append never fails),
   Some n = fixed capacity n (octseq Array<n>, heapless Vec: an append that
   does not fit appends nothing and fails with ShortBuf).

   Lengths are nat (usize; no wrap-around is reachable below 2^64), octets N.
   Debug-profile arithmetic: every usize subtraction that can underflow is an
   explicit Panic site:
     1  push:         len - head
     2  append_slice: self.len() - head - 1
     3  append_slice: buf[1..=slice.len()] on the 64-octet stack buffer
     4  end_label:    self.len() - head - 1
     5  end_label:    as_mut()[head] index
   Error words: 1 LongLabel, 2 LongName, 3 ShortBuf.
   Limits / operators / statement order come from Gen.v (T1). *)
From Coq Require Import NArith List Bool Arith.
From DV Require Import Base.Outcome Base.Bytes Base.Names C03.Gen.
Import ListNotations.

Definition E_LongLabel : N := 1%N.
Definition E_LongName : N := 2%N.
Definition E_ShortBuf : N := 3%N.

Record bstate := mk_b { buf : bytes; head : option nat }.
Definition b_init : bstate := mk_b [] None.

(* `a > lim` or `a >= lim` as written at the site *)
Definition exceeds (ge : bool) (a lim : nat) : bool :=
  if ge then (lim <=? a)%nat else (lim <? a)%nat.

(* OctetsBuilder::append_slice of the underlying builder: all or nothing *)
Definition raw_append (cap : option nat) (b s : bytes) : option bytes :=
  match cap with
  | None => Some (b ++ s)
  | Some c => if (length b + length s <=? c)%nat then Some (b ++ s) else None
  end.

Fixpoint set_nth (i : nat) (l : bytes) (v : N) : bytes :=
  match l, i with
  | [], _ => []
  | _ :: t, O => v :: t
  | x :: t, S i' => x :: set_nth i' t v
  end.

Definition res := (bstate * outcome unit)%type.

(* ---- push *)
Definition b_push (cap : option nat) (st : bstate) (ch : N) : res :=
  let len := length (buf st) in
  if exceeds push_total_ge len push_total_lim then (st, Err E_LongName) else
  match head st with
  | Some h =>
      if (len <? h)%nat then (st, Panic 1) else
      if exceeds push_label_ge (len - h) push_label_lim then (st, Err E_LongLabel) else
      match raw_append cap (buf st) [ch] with
      | Some b => (mk_b b (Some h), Ok tt)
      | None => (st, Err E_ShortBuf)
      end
  | None =>
      if exceeds push_new_ge len push_new_lim then (st, Err E_LongName) else
      match raw_append cap (buf st) [0%N; ch] with
      | Some b => (mk_b b (Some len), Ok tt)
      | None => (if push_head_first then mk_b (buf st) (Some len) else st, Err E_ShortBuf)
      end
  end.

(* ---- append_slice *)
Definition b_append_slice (cap : option nat) (st : bstate) (s : bytes) : res :=
  match s with
  | [] => (st, Ok tt)
  | _ :: _ =>
    let len := length (buf st) in
    let n := length s in
    match head st with
    | Some h =>
        if (len <? h + asl_in_label_sub)%nat then (st, Panic 2) else
        if exceeds asl_in_label_ge (len - h - asl_in_label_sub + n) asl_in_label_lim then (st, Err E_LongLabel) else
        if exceeds asl_in_total_ge (len + n) asl_in_total_lim then (st, Err E_LongName) else
        match raw_append cap (buf st) s with
        | Some b => (mk_b b (Some h), Ok tt)
        | None => (st, Err E_ShortBuf)
        end
    | None =>
        if exceeds asl_new_label_ge n asl_new_label_lim then (st, Err E_LongLabel) else
        if exceeds asl_new_total_ge (len + n) asl_new_total_lim then (st, Err E_LongName) else
        (* let mut buf = [0u8; Label::MAX_LEN + 1]; buf[1..=n].copy_from_slice(slice);
           self._append_slice(&buf[..=n])?; self.head = Some(head); *)
        if (label_max + 1 <? n + 1)%nat then (st, Panic 3) else
        match raw_append cap (buf st) (asl_placeholder :: s) with
        | None => (st, Err E_ShortBuf)
        | Some b => (mk_b b (Some len), Ok tt)
        end
    end
  end.

(* ---- end_label (returns () in Rust; the outcome only carries panics) *)
Definition b_end_label (st : bstate) : res :=
  match head st with
  | Some h =>
      let len := length (buf st) in
      if (len <? h + end_label_sub)%nat then (st, Panic 4) else
      if (len <=? h)%nat then (st, Panic 5) else
      (mk_b (set_nth h (buf st) (N.of_nat (len - h - end_label_sub) mod 256)%N) None, Ok tt)
  | None => (st, Ok tt)
  end.

(* ---- append_label *)
Definition b_append_label (cap : option nat) (st : bstate) (l : bytes) : res :=
  let h0 := head st in
  match b_end_label st with
  | (st1, Ok _) =>
      match b_append_slice cap st1 l with
      | (st2, Ok _) => b_end_label st2
      | (st2, Err e) => (mk_b (buf st2) (if append_label_restores_head then h0 else head st2), Err e)
      | r => r
      end
  | r => r
  end.

(* `self.push(x)?; rest` *)
Definition and_then (r : res) (k : bstate -> res) : res :=
  match r with
  | (st, Ok _) => k st
  | r => r
  end.

(* ---- append_dec_u8_label *)
Definition b_append_dec (cap : option nat) (st : bstate) (v : N) : res :=
  and_then (b_end_label st) (fun st =>
  let hecto := (v / dec_hundred)%N in
  and_then (if (0 <? hecto)%N then b_push cap st (hecto + 48)%N else (st, Ok tt)) (fun st =>
  let deka := ((v / dec_ten_a) mod dec_ten_b)%N in
  and_then (if (0 <? hecto)%N || (0 <? deka)%N then b_push cap st (deka + 48)%N else (st, Ok tt)) (fun st =>
  and_then (b_push cap st (v mod dec_ten_c + 48)%N) (fun st =>
  b_end_label st)))).

(* ---- append_hex_digit_label *)
Definition hex_digit (nibble : N) : outcome N :=
  match nth_error hex_table (N.to_nat (N.land nibble hex_mask)) with
  | Some d => Ok d
  | None => Panic 6        (* unreachable!() *)
  end.

Definition b_append_hex (cap : option nat) (st : bstate) (nibble : N) : res :=
  and_then (b_end_label st) (fun st =>
  match hex_digit nibble with
  | Ok d => and_then (b_push cap st d) (fun st => b_end_label st)
  | Err e => (st, Err e) | Panic p => (st, Panic p) | OutOfFuel => (st, OutOfFuel)
  end).

(* Label::compose: append_slice(&[len as u8])?; append_slice(content) *)
Definition compose_label (cap : option nat) (b : bytes) (l : label) : bytes * bool :=
  match raw_append cap b [(N.of_nat (length l) mod 256)%N] with
  | None => (b, false)
  | Some b1 =>
      match raw_append cap b1 l with
      | None => (b1, false)
      | Some b2 => (b2, true)
      end
  end.

Fixpoint compose_labels (cap : option nat) (b : bytes) (nm : name) : bytes * bool :=
  match nm with
  | [] => (b, true)
  | l :: nm' =>
      match compose_label cap b l with
      | (b1, true) => compose_labels cap b1 nm'
      | r => r
      end
  end.

(* ---- append_name; the argument is the label list of a RelativeName, its
   compose_len is the wire length *)
Definition b_append_name (cap : option nat) (st : bstate) (nm : name) : res :=
  let h0 := head st in
  match b_end_label st with
  | (st1, Ok _) =>
      if exceeds append_name_ge (length (buf st1) + wire_len nm) append_name_lim
      then (mk_b (buf st1) h0, Err E_LongName)
      else
        (* the labels are composed into a stack Array<254> first and then
           appended in one go; head is restored on every error *)
        match compose_labels (Some append_name_tmp_cap) [] nm with
        | (_, false) => (mk_b (buf st1) h0, Err E_LongName)
        | (tmp, true) =>
            match raw_append cap (buf st1) tmp with
            | None => (mk_b (buf st1) h0, Err E_ShortBuf)
            | Some b => (mk_b b (head st1), Ok tt)
            end
        end
  | r => r
  end.

Inductive op :=
| OPush (ch : N)
| OSlice (s : bytes)
| OEnd
| OLabel (l : bytes)
| ODec (v : N)
| OHex (v : N)
| OName (nm : name).

Definition step (cap : option nat) (st : bstate) (o : op) : res :=
  match o with
  | OPush ch => b_push cap st ch
  | OSlice s => b_append_slice cap st s
  | OEnd => b_end_label st
  | OLabel l => b_append_label cap st l
  | ODec v => b_append_dec cap st v
  | OHex v => b_append_hex cap st v
  | OName nm => b_append_name cap st nm
  end.

Definition run (cap : option nat) (st : bstate) (ops : list op) : bstate :=
  fold_left (fun st o => fst (step cap st o)) ops st.

(* ---- consuming operations: the outcome carries the octets of the name *)
Definition b_finish (st : bstate) : outcome bytes :=
  match b_end_label st with
  | (st1, Ok _) => Ok (buf st1)
  | (_, Err e) => Err e | (_, Panic p) => Panic p | (_, OutOfFuel) => OutOfFuel
  end.

Definition b_into_name (cap : option nat) (st : bstate) : outcome bytes :=
  match b_end_label st with
  | (st1, Ok _) =>
      match raw_append cap (buf st1) [into_name_root] with
      | Some b => Ok b
      | None => Err E_ShortBuf
      end
  | (_, Err e) => Err e | (_, Panic p) => Panic p | (_, OutOfFuel) => OutOfFuel
  end.

(* origin: label list of an absolute name (root label implicit); its
   compose_len is wire_len + 1; iter_labels ends with the root label, whose
   compose appends [0] and then the empty slice *)
Definition b_append_origin (cap : option nat) (st : bstate) (og : name) : outcome bytes :=
  match b_end_label st with
  | (st1, Ok _) =>
      if exceeds append_origin_ge (length (buf st1) + (wire_len og + 1)) append_origin_lim
      then Err E_LongName
      else
        match compose_labels cap (buf st1) (og ++ [[]]) with
        | (b, true) => Ok b
        | (_, false) => Err E_ShortBuf
        end
  | (_, Err e) => Err e | (_, Panic p) => Panic p | (_, OutOfFuel) => OutOfFuel
  end.

(* ---- entry point of the correspondence driver: run a whole sequence,
   stopping at the first panic; returns the per-op results (in order) and the
   state reached *)
Fixpoint run_log (cap : option nat) (st : bstate) (ops : list op) : list (outcome unit) * bstate :=
  match ops with
  | [] => ([], st)
  | o :: ops' =>
      match step cap st o with
      | (st', Panic p) => ([Panic p], st')
      | (st', OutOfFuel) => ([OutOfFuel], st')
      | (st', r) => let (rs, fin) := run_log cap st' ops' in (r :: rs, fin)
      end
  end.
