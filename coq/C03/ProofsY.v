(* C03 proofs, widening round Y: the limits are not over-enforced.  Every
   valid relative name can be built label by label (append_label) and octet by
   octet (push ... end_label): every step returns Ok, finish gives exactly the
   wire form of the name and into_name the absolute name.  Together with
   C03_builder_inv / C03_finish_valid this makes the builder exact on the
   valid names. *)
From Coq Require Import NArith List Bool Arith Lia ZArith.
From Coq Require Import ZifyN ZifyBool ZifyNat.
From DV Require Import Base.Outcome Base.Bytes Base.Names C03.Gen C03.Model C03.Spec
  C03.ProofsBuilder C03.ProofsBuilder2.
Import ListNotations.
Ltac Zify.zify_post_hook ::= Z.div_mod_to_equations.

(* every abstract step of the list succeeds *)
Fixpoint a_all_ok (cap : option nat) (a : astate) (ops : list op) : Prop :=
  match ops with
  | [] => True
  | o :: r => snd (a_step cap a o) = Ok tt /\ a_all_ok cap (fst (a_step cap a o)) r
  end.

Lemma a_run_app cap a o1 o2 : a_run cap a (o1 ++ o2) = a_run cap (a_run cap a o1) o2.
Proof. unfold a_run. apply fold_left_app. Qed.

Lemma a_all_ok_app cap : forall o1 a o2,
  a_all_ok cap a o1 -> a_all_ok cap (a_run cap a o1) o2 -> a_all_ok cap a (o1 ++ o2).
Proof.
  induction o1 as [|o o1 IH]; intros a o2 H1 H2; cbn [app]; [exact H2|].
  destruct H1 as [Ha Hb]. split; [exact Ha|]. apply IH; [exact Hb|exact H2].
Qed.

(* the concrete run follows an all-Ok abstract run *)
Lemma run_follows cap : forall ops a st, awf a -> repr a st -> Forall wf_op ops ->
  a_all_ok cap a ops ->
  fst (run_log cap st ops) = repeat (Ok tt) (length ops) /\
  snd (run_log cap st ops) = run cap st ops /\
  repr (a_run cap a ops) (run cap st ops) /\ awf (a_run cap a ops).
Proof.
  induction ops as [|o ops IH]; intros a st Hw Hr Ho Hok.
  - cbn. auto.
  - inversion Ho as [|? ? Ho1 Ho2]; subst. destruct Hok as [Hs Hrest].
    destruct (step_refines cap a st o Hw Hr Ho1) as (R1 & R2 & R3 & _).
    rewrite Hs in R2.
    destruct (IH _ _ R3 R1 Ho2 Hrest) as (I1 & I2 & I3 & I4).
    cbn [run_log run a_run fold_left length repeat].
    destruct (step cap st o) as [st' r] eqn:Es. cbn [fst snd] in *. subst r.
    destruct (run_log cap st' ops) as [rs fin] eqn:El. cbn [fst snd] in *.
    subst rs fin. auto.
Qed.

(* ---- label by label *)
Lemma a_label_closed p l : valid_label l -> (wire_len p + S (length l) <= 254)%nat ->
  a_step None (mk_a p None) (OLabel l) = (mk_a (p ++ [l]) None, Ok tt).
Proof.
  intros [[L1 L2] _] Hl. cbn [a_step]. unfold a_label, aend. cbn [opn closed].
  unfold a_slice. destruct l as [|x l']; [cbn in L1; lia|]. cbn [opn closed].
  destruct (Nat.ltb_spec 63 (length (x :: l'))); [lia|].
  unfold alen. cbn [opn closed].
  destruct (Nat.ltb_spec 254 (wire_len p + 0 + length (x :: l'))); [lia|].
  cbn [fits opn closed]. reflexivity.
Qed.

Lemma a_labels_run : forall rest p, Forall valid_label rest -> (wire_len p + wire_len rest <= 254)%nat ->
  a_all_ok None (mk_a p None) (map OLabel rest) /\
  a_run None (mk_a p None) (map OLabel rest) = mk_a (p ++ rest) None.
Proof.
  induction rest as [|l rest IH]; intros p Hv Hl.
  - cbn. rewrite app_nil_r. auto.
  - inversion Hv as [|? ? Hv1 Hv2]; subst. cbn [wire_len] in Hl.
    cbn [map a_all_ok]. unfold a_run. cbn [fold_left].
    rewrite a_label_closed by (auto; lia). cbn [fst snd].
    destruct (IH (p ++ [l]) Hv2) as [I1 I2]; [rewrite wire_len_app; cbn [wire_len]; lia|].
    split; [split; [reflexivity|exact I1]|].
    unfold a_run in I2. rewrite I2, <- app_assoc. reflexivity.
Qed.

(* ---- octet by octet *)
Definition octet_ops (n : name) : list op := flat_map (fun l => map OPush l ++ [OEnd]) n.

Lemma a_pushes_open p : forall rest c, (1 <= length c)%nat -> (length c + length rest <= 63)%nat ->
  (wire_len p + S (length c) + length rest <= 254)%nat ->
  a_all_ok None (mk_a p (Some c)) (map OPush rest) /\
  a_run None (mk_a p (Some c)) (map OPush rest) = mk_a p (Some (c ++ rest)).
Proof.
  induction rest as [|ch rest IH]; intros c Hc H63 H254.
  - cbn. rewrite app_nil_r. auto.
  - cbn [length] in *. cbn [map a_all_ok]. unfold a_run. cbn [fold_left a_step].
    unfold a_push at 1 2 3. unfold alen. cbn [opn closed fits].
    destruct (Nat.leb_spec 254 (wire_len p + S (length c))); [lia|].
    destruct (Nat.leb_spec 63 (length c)); [lia|]. cbn [fst snd].
    destruct (IH (c ++ [ch])) as [I1 I2]; try (rewrite app_length; cbn [length]; lia).
    split; [split; [reflexivity|exact I1]|].
    unfold a_run in I2. rewrite I2, <- app_assoc. reflexivity.
Qed.

Lemma a_label_octets p l : valid_label l -> (wire_len p + S (length l) <= 254)%nat ->
  a_all_ok None (mk_a p None) (map OPush l ++ [OEnd]) /\
  a_run None (mk_a p None) (map OPush l ++ [OEnd]) = mk_a (p ++ [l]) None.
Proof.
  intros [[L1 L2] _] Hl. destruct l as [|x l']; [cbn in L1; lia|]. cbn [length] in *.
  destruct (a_pushes_open p l' [x]) as [I1 I2]; try (cbn [length]; lia).
  assert (E : a_step None (mk_a p None) (OPush x) = (mk_a p (Some [x]), Ok tt)).
  { cbn [a_step]. unfold a_push, alen. cbn [opn closed fits].
    destruct (Nat.leb_spec 254 (wire_len p + 0)); [lia|].
    destruct (Nat.leb_spec 253 (wire_len p + 0)); [lia|]. reflexivity. }
  cbn [map app]. split.
  - cbn [a_all_ok]. rewrite E. cbn [fst snd]. split; [reflexivity|].
    apply a_all_ok_app; [exact I1|]. rewrite I2. cbn. auto.
  - unfold a_run in *. cbn [fold_left]. rewrite E. cbn [fst]. rewrite fold_left_app, I2.
    cbn [fold_left a_step fst aend opn closed app]. reflexivity.
Qed.

Lemma a_octets_run : forall rest p, Forall valid_label rest -> (wire_len p + wire_len rest <= 254)%nat ->
  a_all_ok None (mk_a p None) (octet_ops rest) /\
  a_run None (mk_a p None) (octet_ops rest) = mk_a (p ++ rest) None.
Proof.
  induction rest as [|l rest IH]; intros p Hv Hl.
  - cbn. rewrite app_nil_r. auto.
  - inversion Hv as [|? ? Hv1 Hv2]; subst. cbn [wire_len] in Hl.
    unfold octet_ops. cbn [flat_map]. fold (octet_ops rest).
    destruct (a_label_octets p l Hv1) as [L1 L2]; [lia|].
    destruct (IH (p ++ [l]) Hv2) as [I1 I2]; [rewrite wire_len_app; cbn [wire_len]; lia|].
    split.
    + apply a_all_ok_app; [exact L1|]. rewrite L2. exact I1.
    + rewrite a_run_app, L2, I2, <- app_assoc. reflexivity.
Qed.

Lemma wf_octet_ops n : Forall valid_label n -> Forall wf_op (octet_ops n).
Proof.
  induction 1 as [|l n [_ Hb] _ IH]; [constructor|].
  unfold octet_ops. cbn [flat_map]. fold (octet_ops n).
  apply Forall_app. split; [|exact IH]. apply Forall_app. split; [|repeat constructor].
  apply Forall_map. revert Hb. apply Forall_impl. intros a Ha. exact Ha.
Qed.

Lemma wf_label_ops n : Forall valid_label n -> Forall wf_op (map OLabel n).
Proof.
  intros H. apply Forall_map. revert H. apply Forall_impl. intros l [_ Hb]. exact Hb.
Qed.

(* the consequence for any op list whose abstract run is all-Ok and ends in
   the closed name n *)
Lemma built_exact ops n : valid_rel n -> Forall wf_op ops ->
  a_all_ok None a_init ops -> a_run None a_init ops = mk_a n None ->
  fst (run_log None b_init ops) = repeat (Ok tt) (length ops) /\
  b_finish (run None b_init ops) = Ok (wire_rel n) /\
  b_into_name None (run None b_init ops) = Ok (wire_abs n).
Proof.
  intros [Hv Hl] Ho Hok Hrun.
  destruct (run_follows None ops a_init b_init awf_init repr_init Ho Hok) as (R1 & _ & R3 & R4).
  rewrite Hrun in R3, R4.
  assert (Hav : avalid (mk_a n None)).
  { split; [exact R4|]. unfold alen. cbn [opn closed]. lia. }
  split; [exact R1|]. split.
  - destruct (finish_spec _ _ Hav R3) as [H _]. exact H.
  - destruct (into_name_spec None _ _ Hav R3) as [H _]. exact H.
Qed.

Theorem builder_complete_labels n : valid_rel n ->
  fst (run_log None b_init (map OLabel n)) = repeat (Ok tt) (length n) /\
  b_finish (run None b_init (map OLabel n)) = Ok (wire_rel n) /\
  b_into_name None (run None b_init (map OLabel n)) = Ok (wire_abs n).
Proof.
  intros Hn. destruct (a_labels_run n [] (proj1 Hn)) as [H1 H2]; [cbn; exact (proj2 Hn)|].
  pose proof (built_exact (map OLabel n) n Hn (wf_label_ops n (proj1 Hn)) H1 H2) as H.
  rewrite map_length in H. exact H.
Qed.

Theorem builder_complete_octets n : valid_rel n ->
  fst (run_log None b_init (octet_ops n)) = repeat (Ok tt) (length (octet_ops n)) /\
  b_finish (run None b_init (octet_ops n)) = Ok (wire_rel n) /\
  b_into_name None (run None b_init (octet_ops n)) = Ok (wire_abs n).
Proof.
  intros Hn. destruct (a_octets_run n [] (proj1 Hn)) as [H1 H2]; [cbn; exact (proj2 Hn)|].
  apply built_exact; [exact Hn|apply wf_octet_ops; exact (proj1 Hn)|exact H1|exact H2].
Qed.

Example builder_complete_ex :
  b_finish (run None b_init (octet_ops [[119;119;119]; [97]]%N)) = Ok [3;119;119;119;1;97]%N /\
  b_into_name None (run None b_init (map OLabel [[119;119;119]; [97]]%N)) = Ok [3;119;119;119;1;97;0]%N.
Proof. vm_compute. split; reflexivity. Qed.

(* ---- append_origin is exact: after any operation list outside the known
   class, it fails exactly when the absolute name would exceed 255 octets (or,
   on a fixed buffer, would not fit) and otherwise returns the built name
   followed by the origin *)
Theorem append_origin_exact cap ops og : Forall wf_op ops -> hits_relname_255 cap ops = false ->
  Forall valid_label og ->
  let n := final_name (a_run cap a_init ops) in
  b_append_origin cap (run cap b_init ops) og =
    (if (254 <? wire_len n + wire_len og)%nat then Err E_LongName
     else if fits cap (a_run cap a_init ops) (wire_len og + 1) then Ok (wire_abs (n ++ og))
     else Err E_ShortBuf) /\
  ((wire_len n + wire_len og <= 254)%nat -> valid_abs (n ++ og)).
Proof.
  intros Ho Hh Hog n.
  destruct (inv_run cap ops a_init b_init avalid_init repr_init Ho Hh) as [Hr Hv].
  destruct (append_origin_spec cap _ _ og Hv Hr Hog) as (H1 & H2).
  assert (Hfl : wire_len n = alen (a_run cap a_init ops)).
  { pose proof (alen_aend (a_run cap a_init ops)) as H. unfold alen in H at 1. rewrite opn_aend in H.
    unfold n, final_name. lia. }
  split.
  - rewrite H1. fold n. rewrite <- Hfl.
    destruct (Nat.ltb_spec 255 (wire_len n + (wire_len og + 1)));
      destruct (Nat.ltb_spec 254 (wire_len n + wire_len og)); try lia; reflexivity.
  - intros Hle. apply H2. lia.
Qed.

Example append_origin_exact_ex :
  b_append_origin None (run None b_init [OLabel [119;119;119]%N]) [[99;111;109]%N] = Ok [3;119;119;119;3;99;111;109;0]%N /\
  b_append_origin None (run None b_init (repeat (OLabel lab9) 25)) [[49;50;51;52]%N] = Err E_LongName.
Proof. vm_compute. split; reflexivity. Qed.
