(* C03 -- proofs about the name builder: the transcribed code refines the
   abstract builder (Spec.v) for every operation and capacity; invariant,
   error atomicity, validity of finish / into_name / append_origin, the known
   255-octet class and its witness. *)
From Coq Require Import NArith List Bool Arith Lia ZArith.
From Coq Require Import ZifyN ZifyBool ZifyNat.
From DV Require Import Base.Outcome Base.Bytes Base.Names C03.Gen C03.Model C03.Spec.
Import ListNotations.
Ltac Zify.zify_post_hook ::= Z.div_mod_to_equations.

(* ---------------------------------------------------------------- basics *)
Lemma exceeds_ge a lim : exceeds true a lim = (lim <=? a)%nat.
Proof. reflexivity. Qed.
Lemma exceeds_gt a lim : exceeds false a lim = (lim <? a)%nat.
Proof. reflexivity. Qed.

Lemma set_nth_app p x c v : set_nth (length p) (p ++ x :: c) v = p ++ v :: c.
Proof. induction p as [|y p IH]; [reflexivity|]. cbn [length app set_nth]. rewrite IH. reflexivity. Qed.

Lemma wire_rel_snoc cl c : wire_rel (cl ++ [c]) = wire_rel cl ++ N.of_nat (length c) :: c.
Proof.
  rewrite wire_rel_app. f_equal. unfold wire_rel. cbn [map concat]. rewrite app_nil_r. reflexivity.
Qed.

Lemma wire_len_snoc cl c : wire_len (cl ++ [c]) = (wire_len cl + S (length c))%nat.
Proof. rewrite wire_len_app. cbn [wire_len]. lia. Qed.

Lemma repr_len a st : repr a st -> length (buf st) = alen a.
Proof.
  unfold repr, alen. destruct (opn a) as [c|].
  - intros [ph ->]. cbn [buf]. rewrite app_length, wire_rel_length. cbn [length]. lia.
  - intros ->. cbn [buf]. rewrite wire_rel_length. lia.
Qed.

Lemma alen_aend a : alen (aend a) = alen a.
Proof.
  unfold aend, alen. destruct (opn a) as [c|] eqn:E; cbn [closed opn]; [|rewrite E; reflexivity].
  rewrite wire_len_snoc. lia.
Qed.

Lemma awf_aend a : awf a -> awf (aend a).
Proof.
  unfold awf, aend. destruct (opn a) as [c|] eqn:E; cbn [closed opn]; [|rewrite E; auto].
  intros [H1 H2]. split; [|exact I]. apply Forall_app. split; auto.
Qed.

Lemma opn_aend a : opn (aend a) = None.
Proof. unfold aend. destruct (opn a) eqn:E; cbn [opn]; auto. Qed.

Lemma raw_append_fits cap a b s : length b = alen a ->
  raw_append cap b s = if fits cap a (length s) then Some (b ++ s) else None.
Proof. intros H. unfold raw_append, fits. destruct cap; [rewrite H|]; reflexivity. Qed.

Definition okerr (r : outcome unit) : Prop :=
  match r with Ok _ | Err _ => True | _ => False end.

Definition refines (ar : ares) (r : res) : Prop :=
  repr (fst ar) (fst r) /\ snd r = snd ar /\ awf (fst ar) /\ okerr (snd ar).

(* ---------------------------------------------------------------- end_label *)
Lemma mk_refines a' st' r : repr a' st' -> awf a' -> okerr r -> refines (a', r) (st', r).
Proof. unfold refines. cbn [fst snd]. auto. Qed.

Lemma repr_some a c ph : opn a = Some c ->
  repr a (mk_b (wire_rel (closed a) ++ ph :: c) (Some (wire_len (closed a)))).
Proof. intros E. unfold repr. rewrite E. eauto. Qed.

Lemma repr_none a : opn a = None -> repr a (mk_b (wire_rel (closed a)) None).
Proof. intros E. unfold repr. rewrite E. reflexivity. Qed.

Lemma end_refines a st : awf a -> repr a st -> refines (aend a, Ok tt) (b_end_label st).
Proof.
  intros Hw Hr. assert (Hw' := awf_aend a Hw). destruct Hw as [Hc Ho].
  unfold repr in Hr. unfold b_end_label. destruct (opn a) as [c|] eqn:E.
  - destruct Hr as [ph ->]. cbn [head buf]. destruct Ho as [[Hl1 Hl2] Hb].
    rewrite app_length, wire_rel_length. cbn [length]. unfold end_label_sub.
    destruct (Nat.ltb_spec (wire_len (closed a) + S (length c)) (wire_len (closed a) + 1)); [lia|].
    destruct (Nat.leb_spec (wire_len (closed a) + S (length c)) (wire_len (closed a))); [lia|].
    apply mk_refines; [|exact Hw'|exact I].
    unfold repr, aend. rewrite E. cbn [opn closed]. rewrite wire_rel_snoc.
    rewrite <- (wire_rel_length (closed a)), set_nth_app. rewrite wire_rel_length.
    replace (wire_len (closed a) + S (length c) - wire_len (closed a) - 1)%nat with (length c) by lia.
    rewrite N.mod_small by lia. reflexivity.
  - subst st. cbn [head]. apply mk_refines; [|exact Hw'|exact I].
    unfold aend. rewrite E. apply repr_none. exact E.
Qed.

Lemma end_ok a st : awf a -> repr a st -> exists st', b_end_label st = (st', Ok tt) /\ repr (aend a) st'.
Proof.
  intros Hw Hr. destruct (end_refines a st Hw Hr) as (H1 & H2 & _). cbn [fst snd] in *.
  destruct (b_end_label st) as [st' r]. cbn [fst snd] in *. subst r. eauto.
Qed.

(* ---------------------------------------------------------------- push *)
Lemma push_refines cap a st ch : awf a -> repr a st -> (ch < 256)%N ->
  refines (a_push cap a ch) (b_push cap st ch).
Proof.
  intros Hw Hr Hch. pose proof (repr_len a st Hr) as Hlen. pose proof Hw as [Hc Ho].
  unfold b_push, a_push. rewrite Hlen.
  unfold push_total_ge, push_total_lim. rewrite exceeds_ge.
  destruct (Nat.leb_spec 254 (alen a)) as [Hge|Hlt].
  { apply mk_refines; [assumption|assumption|exact I]. }
  unfold repr in Hr. destruct (opn a) as [c|] eqn:E.
  - destruct Hr as [ph ->]. cbn [head buf] in *. destruct Ho as [[Hl1 Hl2] Hb].
    assert (Ha : alen a = (wire_len (closed a) + S (length c))%nat) by (unfold alen; rewrite E; reflexivity).
    destruct (Nat.ltb_spec (alen a) (wire_len (closed a))); [lia|].
    unfold push_label_ge, push_label_lim, label_max. rewrite exceeds_gt.
    destruct (Nat.ltb_spec 63 (alen a - wire_len (closed a))); destruct (Nat.leb_spec 63 (length c)); try lia.
    { apply mk_refines; [apply repr_some; assumption|assumption|exact I]. }
    rewrite (raw_append_fits cap a) by exact Hlen. cbn [length].
    destruct (fits cap a 1).
    + apply mk_refines; [| |exact I].
      * unfold repr. cbn [opn closed]. exists ph. rewrite <- app_assoc. reflexivity.
      * split; cbn [opn closed]; [assumption|]. split.
        -- rewrite app_length. cbn [length]. lia.
        -- apply wf_bytes_app. split; auto. repeat constructor. exact Hch.
    + apply mk_refines; [apply repr_some; assumption|assumption|exact I].
  - subst st. cbn [head buf] in *.
    assert (Ha : alen a = wire_len (closed a)) by (unfold alen; rewrite E; lia).
    unfold push_new_ge, push_new_lim. rewrite exceeds_ge.
    destruct (Nat.leb_spec 253 (alen a)).
    { apply mk_refines; [apply repr_none; assumption|assumption|exact I]. }
    rewrite (raw_append_fits cap a) by exact Hlen. cbn [length].
    destruct (fits cap a 2).
    + apply mk_refines; [| |exact I].
      * unfold repr. cbn [opn closed]. exists 0%N. rewrite Ha. reflexivity.
      * split; cbn [opn closed]; [assumption|]. split; [cbn [length]; lia|].
        repeat constructor. exact Hch.
    + unfold push_head_first. apply mk_refines; [apply repr_none; assumption|assumption|exact I].
Qed.

(* ---------------------------------------------------------------- append_slice *)
Lemma slice_refines cap a st s : awf a -> repr a st -> wf_bytes s ->
  refines (a_slice cap a s) (b_append_slice cap st s).
Proof.
  intros Hw Hr Hs. pose proof (repr_len a st Hr) as Hlen. pose proof Hw as [Hc Ho].
  unfold b_append_slice, a_slice.
  destruct s as [|x s']; [apply mk_refines; [assumption|assumption|exact I]|].
  set (s := x :: s') in *. rewrite Hlen.
  unfold repr in Hr. destruct (opn a) as [c|] eqn:E.
  - destruct Hr as [ph ->]. cbn [head buf] in *. destruct Ho as [[Hl1 Hl2] Hb].
    assert (Ha : alen a = (wire_len (closed a) + S (length c))%nat) by (unfold alen; rewrite E; reflexivity).
    unfold asl_in_label_sub, asl_in_label_ge, asl_in_label_lim, label_max, asl_in_total_ge, asl_in_total_lim.
    rewrite !exceeds_gt.
    destruct (Nat.ltb_spec (alen a) (wire_len (closed a) + 1)); [lia|].
    replace (alen a - wire_len (closed a) - 1)%nat with (length c) by lia.
    destruct (Nat.ltb_spec 63 (length c + length s)).
    { apply mk_refines; [apply repr_some; assumption|assumption|exact I]. }
    destruct (Nat.ltb_spec 254 (alen a + length s)).
    { apply mk_refines; [apply repr_some; assumption|assumption|exact I]. }
    rewrite (raw_append_fits cap a) by exact Hlen.
    destruct (fits cap a (length s)).
    + apply mk_refines; [| |exact I].
      * unfold repr. cbn [opn closed]. exists ph. rewrite <- app_assoc. reflexivity.
      * split; cbn [opn closed]; [assumption|]. split.
        -- rewrite app_length. lia.
        -- apply wf_bytes_app. split; auto.
    + apply mk_refines; [apply repr_some; assumption|assumption|exact I].
  - subst st. cbn [head buf] in *.
    assert (Ha : alen a = wire_len (closed a)) by (unfold alen; rewrite E; lia).
    unfold asl_new_label_ge, asl_new_label_lim, label_max, asl_new_total_ge, asl_new_total_lim, asl_placeholder.
    rewrite !exceeds_gt.
    destruct (Nat.ltb_spec 63 (length s)).
    { apply mk_refines; [apply repr_none; assumption|assumption|exact I]. }
    destruct (Nat.ltb_spec 254 (alen a + length s)).
    { apply mk_refines; [apply repr_none; assumption|assumption|exact I]. }
    destruct (Nat.ltb_spec (63 + 1) (length s + 1)); [lia|].
    rewrite (raw_append_fits cap a) by exact Hlen.
    change (length (0%N :: s)) with (S (length s)).
    destruct (fits cap a (S (length s))).
    + apply mk_refines; [| |exact I].
      * unfold repr. cbn [opn closed]. exists 0%N. rewrite Ha. reflexivity.
      * split; cbn [opn closed]; [assumption|]. split; [subst s; cbn [length] in *; lia|assumption].
    + apply mk_refines; [apply repr_none; assumption|assumption|exact I].
Qed.

Lemma a_push_err cap a ch e : snd (a_push cap a ch) = Err e -> fst (a_push cap a ch) = a.
Proof.
  unfold a_push. destruct (254 <=? alen a)%nat; [reflexivity|].
  destruct (opn a).
  - destruct (63 <=? length b)%nat; [reflexivity|]. destruct (fits cap a 1); [discriminate|reflexivity].
  - destruct (253 <=? alen a)%nat; [reflexivity|]. destruct (fits cap a 2); [discriminate|reflexivity].
Qed.

Lemma a_slice_err cap a s e : snd (a_slice cap a s) = Err e -> fst (a_slice cap a s) = a.
Proof.
  unfold a_slice. destruct s as [|x s']; [discriminate|].
  destruct (opn a).
  - destruct (63 <? _)%nat; [reflexivity|]. destruct (254 <? _)%nat; [reflexivity|].
    destruct (fits cap a _); [discriminate|reflexivity].
  - destruct (63 <? _)%nat; [reflexivity|]. destruct (254 <? _)%nat; [reflexivity|].
    destruct (fits cap a _); [discriminate|reflexivity].
Qed.

(* restoring the saved head after the label has been ended: the same abstract
   state, the placeholder octet now holds the length *)
Lemma restore_head a st st1 : repr a st -> repr (aend a) st1 -> repr a (mk_b (buf st1) (head st)).
Proof.
  unfold repr, aend. destruct (opn a) as [c|] eqn:E; cbn [opn closed].
  - intros [ph ->] ->. cbn [buf head]. rewrite wire_rel_snoc. eauto.
  - rewrite E. intros -> ->. reflexivity.
Qed.

(* ---------------------------------------------------------------- append_label *)
Lemma label_refines cap a st l : awf a -> repr a st -> wf_bytes l ->
  refines (a_label cap a l) (b_append_label cap st l).
Proof.
  intros Hw Hr Hl. unfold b_append_label, a_label.
  destruct (end_ok a st Hw Hr) as (st1 & E1 & Hr1). rewrite E1.
  pose proof (slice_refines cap (aend a) st1 l (awf_aend a Hw) Hr1 Hl) as (R1 & R2 & R3 & R4).
  destruct (b_append_slice cap st1 l) as [st2 r2] eqn:E2.
  destruct (a_slice cap (aend a) l) as [a2 ar2] eqn:EA. cbn [fst snd] in *. subst r2.
  destruct ar2 as [[]|e|p|]; try contradiction.
  - apply end_refines; assumption.
  - unfold append_label_restores_head.
    assert (a2 = aend a) by (pose proof (a_slice_err cap (aend a) l e) as H; rewrite EA in H; apply H; reflexivity).
    subst a2. apply mk_refines; [apply restore_head; assumption|assumption|exact I].
Qed.

(* ---------------------------------------------------------------- pushes, dec, hex *)
Fixpoint b_pushes (cap : option nat) (st : bstate) (l : bytes) : res :=
  match l with
  | [] => (st, Ok tt)
  | ch :: l' => and_then (b_push cap st ch) (fun st => b_pushes cap st l')
  end.

Lemma pushes_refines cap l : forall a st, awf a -> repr a st -> wf_bytes l ->
  refines (a_pushes cap a l) (b_pushes cap st l).
Proof.
  induction l as [|ch l IH]; intros a st Hw Hr Hl.
  - apply mk_refines; [assumption|assumption|exact I].
  - inversion Hl as [|? ? Hch Hl']; subst. cbn [a_pushes b_pushes].
    pose proof (push_refines cap a st ch Hw Hr Hch) as (R1 & R2 & R3 & R4).
    destruct (b_push cap st ch) as [st1 r1]. destruct (a_push cap a ch) as [a1 ar1].
    cbn [fst snd] in *. subst r1. unfold and_then, a_then.
    destruct ar1 as [[]|e|p|]; try contradiction.
    + apply IH; assumption.
    + apply mk_refines; [assumption|assumption|exact I].
Qed.

Lemma then_end_refines ar r :
  refines ar r -> refines (a_then ar (fun a => (aend a, Ok tt))) (and_then r (fun st => b_end_label st)).
Proof.
  intros (R1 & R2 & R3 & R4). destruct ar as [a1 ar1]. destruct r as [st1 r1].
  cbn [fst snd] in *. subst r1. unfold and_then, a_then.
  destruct ar1 as [[]|e|p|]; try contradiction.
  - apply end_refines; assumption.
  - apply mk_refines; [assumption|assumption|exact I].
Qed.

Lemma and_then_ok st k : and_then (st, Ok tt) k = k st.
Proof. reflexivity. Qed.

Lemma b_dec_unfold cap st v :
  b_append_dec cap st v =
  and_then (b_end_label st) (fun st => and_then (b_pushes cap st (dec_digits v)) (fun st => b_end_label st)).
Proof.
  unfold b_append_dec, dec_digits, dec_hundred, dec_ten_a, dec_ten_b, dec_ten_c.
  destruct (b_end_label st) as [st1 [[]|e|p|]]; cbn [and_then]; try reflexivity.
  destruct (0 <? v / 100)%N; cbn [orb app b_pushes].
  - destruct (b_push cap st1 (v / 100 + 48)) as [st2 [[]|e|p|]]; cbn [and_then]; try reflexivity.
    destruct (b_push cap st2 ((v / 10) mod 10 + 48)) as [st3 [[]|e|p|]]; cbn [and_then]; try reflexivity.
    destruct (b_push cap st3 (v mod 10 + 48)) as [st4 [[]|e|p|]]; cbn [and_then]; reflexivity.
  - rewrite and_then_ok. destruct (0 <? (v / 10) mod 10)%N; cbn [app b_pushes].
    + destruct (b_push cap st1 ((v / 10) mod 10 + 48)) as [st3 [[]|e|p|]]; cbn [and_then]; try reflexivity.
      destruct (b_push cap st3 (v mod 10 + 48)) as [st4 [[]|e|p|]]; cbn [and_then]; reflexivity.
    + rewrite and_then_ok.
      destruct (b_push cap st1 (v mod 10 + 48)) as [st4 [[]|e|p|]]; cbn [and_then]; reflexivity.
Qed.

Lemma dec_digits_wf v : (v < 256)%N -> wf_bytes (dec_digits v).
Proof.
  intros H. unfold dec_digits, wf_bytes.
  apply Forall_app. split; [destruct (0 <? v / 100)%N; repeat constructor; lia|].
  apply Forall_app. split; [destruct ((0 <? v / 100)%N || (0 <? (v / 10) mod 10)%N); repeat constructor; lia|].
  repeat constructor. lia.
Qed.

Lemma end_then_refines a st (ka : astate -> ares) (kb : bstate -> res) : awf a -> repr a st ->
  (forall a1 st1, awf a1 -> repr a1 st1 -> opn a1 = None -> refines (ka a1) (kb st1)) ->
  refines (ka (aend a)) (and_then (b_end_label st) kb).
Proof.
  intros Hw Hr H. destruct (end_ok a st Hw Hr) as (st1 & E1 & Hr1). rewrite E1. cbn [and_then].
  apply H; auto using awf_aend, opn_aend.
Qed.

Lemma dec_refines cap a st v : awf a -> repr a st -> (v < 256)%N ->
  refines (a_dec cap a v) (b_append_dec cap st v).
Proof.
  intros Hw Hr Hv. rewrite b_dec_unfold. unfold a_dec.
  apply (end_then_refines a st (fun a1 => a_then (a_pushes cap a1 (dec_digits v)) (fun a => (aend a, Ok tt)))); auto.
  intros a1 st1 Hw1 Hr1 _. apply then_end_refines. apply pushes_refines; auto using dec_digits_wf.
Qed.

Lemma hex_digit_char v : hex_digit v = Ok (hex_char v).
Proof.
  unfold hex_digit, hex_char, hex_mask.
  assert (H : (N.land v 15 < 16)%N).
  { change 15%N with (N.ones 4). rewrite N.land_ones. apply N.mod_upper_bound. discriminate. }
  remember (N.land v 15) as d. clear Heqd.
  assert (Hd : (d = 0 \/ d = 1 \/ d = 2 \/ d = 3 \/ d = 4 \/ d = 5 \/ d = 6 \/ d = 7 \/ d = 8 \/ d = 9 \/
          d = 10 \/ d = 11 \/ d = 12 \/ d = 13 \/ d = 14 \/ d = 15)%N) by lia.
  repeat (destruct Hd as [->|Hd]; [reflexivity|]). subst d. reflexivity.
Qed.

Lemma hex_char_byte v : (hex_char v < 256)%N.
Proof.
  unfold hex_char.
  assert (H : (N.land v 15 < 16)%N).
  { change 15%N with (N.ones 4). rewrite N.land_ones. apply N.mod_upper_bound. discriminate. }
  destruct (N.land v 15 <? 10)%N; lia.
Qed.

Lemma hex_refines cap a st v : awf a -> repr a st -> refines (a_hex cap a v) (b_append_hex cap st v).
Proof.
  intros Hw Hr. unfold b_append_hex, a_hex. rewrite hex_digit_char.
  apply (end_then_refines a st (fun a1 => a_then (a_pushes cap a1 [hex_char v]) (fun a => (aend a, Ok tt)))); auto.
  intros a1 st1 Hw1 Hr1 _.
  replace (and_then (b_push cap st1 (hex_char v)) (fun st => b_end_label st))
    with (and_then (b_pushes cap st1 [hex_char v]) (fun st => b_end_label st)).
  - apply then_end_refines. apply pushes_refines; auto. repeat constructor. apply hex_char_byte.
  - cbn [b_pushes]. destruct (b_push cap st1 (hex_char v)) as [st2 [[]|e|p|]]; reflexivity.
Qed.

(* ---------------------------------------------------------------- append_name *)
Lemma compose_labels_fits c : forall nm b, Forall valid_label nm -> (length b + wire_len nm <= c)%nat ->
  compose_labels (Some c) b nm = (b ++ wire_rel nm, true).
Proof.
  induction nm as [|l nm IH]; intros b Hv Hl.
  - cbn. rewrite app_nil_r. reflexivity.
  - inversion Hv as [|? ? [[H1 H2] Hb] Hv']; subst. cbn [compose_labels wire_len] in *.
    unfold compose_label, raw_append. cbn [length].
    destruct (Nat.leb_spec (length b + 1) c); [|lia].
    rewrite app_length. cbn [length].
    destruct (Nat.leb_spec (length b + 1 + length l) c); [|lia].
    rewrite IH; auto; [|rewrite !app_length; cbn [length]; lia].
    f_equal. unfold wire_rel. cbn [map concat]. unfold wire_label.
    rewrite N.mod_small by lia. rewrite <- !app_assoc. reflexivity.
Qed.

Lemma compose_labels_unbounded : forall nm b, Forall valid_label nm ->
  compose_labels None b nm = (b ++ wire_rel nm, true).
Proof.
  induction nm as [|l nm IH]; intros b Hv.
  - cbn. rewrite app_nil_r. reflexivity.
  - inversion Hv as [|? ? [[H1 H2] Hb] Hv']; subst. cbn [compose_labels].
    unfold compose_label, raw_append. rewrite IH; auto.
    f_equal. unfold wire_rel. cbn [map concat]. unfold wire_label.
    rewrite N.mod_small by lia. rewrite <- !app_assoc. reflexivity.
Qed.

Lemma name_refines cap a st nm : awf a -> repr a st -> Forall valid_label nm ->
  refines (a_name cap a nm) (b_append_name cap st nm).
Proof.
  intros Hw Hr Hn. unfold b_append_name, a_name.
  destruct (end_ok a st Hw Hr) as (st1 & E1 & Hr1). rewrite E1.
  pose proof (repr_len _ _ Hr1) as Hlen. rewrite Hlen.
  pose proof (awf_aend a Hw) as Hw1. pose proof (opn_aend a) as Ho1.
  unfold append_name_ge, append_name_lim, append_name_tmp_cap. rewrite exceeds_gt.
  destruct (Nat.ltb_spec 254 (alen (aend a) + wire_len nm)).
  { apply mk_refines; [apply restore_head; assumption|assumption|exact I]. }
  rewrite compose_labels_fits by (auto; cbn [length]; lia). cbn [app].
  rewrite (raw_append_fits cap (aend a)) by exact Hlen. rewrite wire_rel_length.
  destruct (fits cap (aend a) (wire_len nm)).
  - unfold repr in Hr1. rewrite Ho1 in Hr1. subst st1. cbn [buf head].
    apply mk_refines; [| |exact I].
    + unfold repr. cbn [opn closed]. rewrite wire_rel_app. reflexivity.
    + split; cbn [opn closed]; [|exact I]. apply Forall_app. split; [apply Hw1|assumption].
  - apply mk_refines; [apply restore_head; assumption|assumption|exact I].
Qed.

(* ---------------------------------------------------------------- step / run *)
Theorem step_refines cap a st o : awf a -> repr a st -> wf_op o ->
  refines (a_step cap a o) (step cap st o).
Proof.
  intros Hw Hr Ho. destruct o; cbn [step a_step wf_op] in *.
  - apply push_refines; assumption.
  - apply slice_refines; assumption.
  - apply end_refines; assumption.
  - apply label_refines; assumption.
  - apply dec_refines; assumption.
  - apply hex_refines; assumption.
  - apply name_refines; assumption.
Qed.

Lemma repr_init : repr a_init b_init.
Proof. reflexivity. Qed.
Lemma awf_init : awf a_init.
Proof. split; [constructor|exact I]. Qed.

Theorem run_refines cap ops : forall a st, awf a -> repr a st -> Forall wf_op ops ->
  repr (a_run cap a ops) (run cap st ops) /\ awf (a_run cap a ops).
Proof.
  induction ops as [|o ops IH]; intros a st Hw Hr Ho; [cbn; auto|].
  inversion Ho as [|? ? Ho1 Ho2]; subst.
  destruct (step_refines cap a st o Hw Hr Ho1) as (R1 & R2 & R3 & R4).
  cbn [a_run run fold_left]. apply IH; assumption.
Qed.

(* no operation on a well-formed builder panics *)
Theorem step_no_panic cap a st o : awf a -> repr a st -> wf_op o -> okerr (snd (step cap st o)).
Proof.
  intros Hw Hr Ho. destruct (step_refines cap a st o Hw Hr Ho) as (_ & R2 & _ & R4). rewrite R2. exact R4.
Qed.
