(* C03 -- slicing at label boundaries: is_label_start accepts exactly the
   offsets of label starts; every accepted split / truncate / range / parent /
   strip_suffix yields valid names; every other index panics. *)
From Coq Require Import NArith List Bool Arith Lia ZArith.
From Coq Require Import ZifyN ZifyBool ZifyNat.
From DV Require Import Base.Outcome Base.Bytes Base.Names C03.Gen C03.Model C03.Spec C03.ModelWire
  C03.ModelSlice C03.ProofsBuilder C03.ProofsBuilder2 C03.ProofsWire.
Import ListNotations.
Ltac Zify.zify_post_hook ::= Z.div_mod_to_equations.

(* the wire octets of a name: relative, or absolute with the root label *)
Definition wire_of (absolute : bool) (n : name) : bytes :=
  wire_rel n ++ (if absolute then [0%N] else []).

Lemma wire_of_abs n : wire_of true n = wire_abs n.
Proof. reflexivity. Qed.
Lemma wire_of_rel n : wire_of false n = wire_rel n.
Proof. unfold wire_of. apply app_nil_r. Qed.

(* label-list reading of is_label_start for index > 0 *)
Fixpoint is_start (n : name) (i : nat) : bool :=
  match n with
  | [] => false
  | l :: n' =>
      let len := S (length l) in
      if (i <? len)%nat then false else if (i =? len)%nat then true else is_start n' (i - len)
  end.

Lemma ils_loop_spec absolute n : Forall valid_label n -> forall fuel i, (length n < fuel)%nat ->
  ils_loop absolute fuel (wire_of absolute n) i = Ok (is_start n i).
Proof.
  induction n as [|l n IH]; intros Hv fuel i Hf; (destruct fuel as [|f]; [cbn in Hf; lia|]).
  - destruct absolute; [|reflexivity]. cbn [ils_loop wire_of wire_rel map concat app is_empty].
    change (split_from [0%N]) with (Ok (@nil N, @nil N)). unfold ils_len_add, ils_root_len. cbn [length is_start].
    rewrite orb_true_r. reflexivity.
  - inversion Hv as [|? ? [[L1 L2] L3] Hv']; subst.
    assert (E : wire_of absolute (l :: n) = wire_label l ++ wire_of absolute n).
    { unfold wire_of, wire_rel. cbn [map concat]. rewrite <- app_assoc. reflexivity. }
    rewrite E. cbn [ils_loop]. assert (He : is_empty (wire_label l ++ wire_of absolute n) = false) by reflexivity.
    rewrite He. rewrite split_from_wire by lia. unfold ils_len_add, ils_root_len. cbn [is_start].
    replace (length l + 1)%nat with (S (length l)) by lia.
    assert (H1 : (S (length l) =? 1)%nat = false) by (apply Nat.eqb_neq; lia). rewrite H1, andb_false_r, orb_false_r.
    destruct (i <? S (length l))%nat; [reflexivity|]. destruct (i =? S (length l))%nat; [reflexivity|].
    apply IH; [assumption|cbn [length] in Hf; lia].
Qed.

Theorem is_label_start_spec absolute n i : Forall valid_label n ->
  is_label_start absolute (wire_of absolute n) i = Ok ((i =? 0)%nat || is_start n i).
Proof.
  intros Hv. unfold is_label_start. destruct (i =? 0)%nat; [reflexivity|]. cbn [orb].
  apply ils_loop_spec; [exact Hv|].
  unfold wire_of. rewrite app_length, wire_rel_length. pose proof (labels_le_wire n). lia.
Qed.

(* an index is accepted iff it is the wire length of a prefix of the labels *)
Definition at_label (n : name) (i : nat) : Prop := exists k, (k <= length n)%nat /\ i = wire_len (firstn k n).

Lemma is_start_prefix n : forall i, is_start n i = true <->
  exists k, (1 <= k <= length n)%nat /\ i = wire_len (firstn k n).
Proof.
  induction n as [|l n IH]; intros i; cbn [is_start].
  - split; [discriminate|]. intros (k & Hk & _). cbn in Hk. lia.
  - destruct (Nat.ltb_spec i (S (length l))) as [Hlt|Hge].
    { split; [discriminate|]. intros (k & Hk & ->). destruct k as [|k]; [lia|]. cbn [firstn wire_len] in Hlt. lia. }
    destruct (Nat.eqb_spec i (S (length l))) as [He|Hne].
    { split; [|reflexivity]. intros _. exists 1%nat. cbn [length firstn wire_len]. split; lia. }
    rewrite IH. split.
    + intros (k & Hk & He). exists (S k). cbn [length firstn wire_len]. split; lia.
    + intros (k & Hk & He). destruct k as [|k]; [lia|]. cbn [length firstn wire_len] in *.
      destruct k as [|k]; [cbn [firstn wire_len] in He; lia|]. exists (S k). split; lia.
Qed.

Lemma accepted_iff n i : ((i =? 0)%nat || is_start n i = true) <-> at_label n i.
Proof.
  unfold at_label. rewrite orb_true_iff, Nat.eqb_eq, is_start_prefix. split.
  - intros [->|(k & Hk & ->)]; [exists 0%nat; cbn; split; [lia|reflexivity]|exists k; split; [lia|reflexivity]].
  - intros (k & Hk & ->). destruct k as [|k]; [left; reflexivity|right; exists (S k); split; [lia|reflexivity]].
Qed.

Theorem is_label_start_full absolute n i : Forall valid_label n ->
  is_label_start absolute (wire_of absolute n) i = Ok ((i =? 0)%nat || is_start n i) /\
  (((i =? 0)%nat || is_start n i = true) <-> at_label n i).
Proof. intros; split; [apply is_label_start_spec; assumption|apply accepted_iff]. Qed.

Theorem check_index_spec absolute n i : Forall valid_label n ->
  (at_label n i /\ check_index absolute (wire_of absolute n) i = Ok tt) \/
  (~ at_label n i /\ check_index absolute (wire_of absolute n) i = Panic 8).
Proof.
  intros Hv. unfold check_index. rewrite is_label_start_spec by exact Hv. cbn [bind].
  destruct ((i =? 0)%nat || is_start n i) eqn:E.
  - left. split; [apply accepted_iff; exact E|reflexivity].
  - right. split; [|reflexivity]. intros H. apply accepted_iff in H. congruence.
Qed.

(* cutting the octets at a label start cuts the label list *)
Lemma cut_at_prefix n k t : (k <= length n)%nat ->
  firstn (wire_len (firstn k n)) (wire_rel n ++ t) = wire_rel (firstn k n) /\
  skipn (wire_len (firstn k n)) (wire_rel n ++ t) = wire_rel (skipn k n) ++ t.
Proof.
  intros Hk.
  assert (E : wire_rel n = wire_rel (firstn k n) ++ wire_rel (skipn k n))
    by (rewrite <- wire_rel_app, firstn_skipn; reflexivity).
  rewrite E, <- app_assoc, <- (wire_rel_length (firstn k n)). split.
  - apply (take_app_length (wire_rel (firstn k n))).
  - apply (drop_app_length (wire_rel (firstn k n))).
Qed.

Lemma sub_names_valid n k : Forall valid_label n -> (wire_len n <= 254)%nat ->
  valid_rel (firstn k n) /\ valid_rel (skipn k n).
Proof.
  intros Hv Hl. rewrite <- (firstn_skipn k n) in Hv, Hl. apply Forall_app in Hv as [H1 H2].
  rewrite wire_len_app in Hl. split; split; auto; lia.
Qed.

Lemma wire_of_length absolute n : length (wire_of absolute n) = (wire_len n + if absolute then 1 else 0)%nat.
Proof. unfold wire_of. rewrite app_length, wire_rel_length. destruct absolute; reflexivity. Qed.

Lemma prefix_le n k : (wire_len (firstn k n) <= wire_len n)%nat.
Proof. rewrite <- (firstn_skipn k n) at 2. rewrite wire_len_app. lia. Qed.

Lemma sub_prefix w m : (m <= length w)%nat -> sub w 0 m = Ok (firstn m w).
Proof.
  intros H. unfold sub. destruct (Nat.ltb_spec m 0); [lia|]. destruct (Nat.ltb_spec (length w) m); [lia|].
  cbn [orb skipn]. rewrite Nat.sub_0_r. reflexivity.
Qed.

Lemma sub_suffix w m : (m <= length w)%nat -> sub w m (length w) = Ok (skipn m w).
Proof.
  intros H. unfold sub. destruct (Nat.ltb_spec (length w) m); [lia|]. rewrite Nat.ltb_irrefl. cbn [orb].
  rewrite firstn_all2; [reflexivity|]. rewrite skipn_length. lia.
Qed.

(* ---- split *)
Theorem split_spec absolute n i : valid_rel n ->
  match n_split absolute (wire_of absolute n) i with
  | Ok (l, r) => exists k, (k <= length n)%nat /\ i = wire_len (firstn k n) /\
                   l = wire_rel (firstn k n) /\ r = wire_of absolute (skipn k n) /\
                   valid_rel (firstn k n) /\ valid_rel (skipn k n)
  | Panic p => p = 8%N /\ ~ at_label n i
  | _ => False
  end.
Proof.
  intros [Hv Hl]. unfold n_split.
  destruct (check_index_spec absolute n i Hv) as [[(k & Hk & ->) E]|[Hn E]]; rewrite E; cbn [bind]; [|auto].
  pose proof (prefix_le n k) as Hp.
  rewrite sub_prefix by (rewrite wire_of_length; lia). cbn [bind].
  rewrite sub_suffix by (rewrite wire_of_length; lia). cbn [bind].
  destruct (cut_at_prefix n k (if absolute then [0%N] else []) Hk) as [C1 C2].
  destruct (sub_names_valid n k Hv Hl) as [V1 V2].
  exists k. unfold wire_of in *. rewrite C1, C2. repeat split; auto; try apply V1; try apply V2.
Qed.

(* ---- truncate *)
Theorem truncate_spec absolute n i : valid_rel n ->
  match n_truncate absolute (wire_of absolute n) i with
  | Ok l => exists k, (k <= length n)%nat /\ i = wire_len (firstn k n) /\
              l = wire_rel (firstn k n) /\ valid_rel (firstn k n)
  | Panic p => p = 8%N /\ ~ at_label n i
  | _ => False
  end.
Proof.
  intros [Hv Hl]. unfold n_truncate.
  destruct (check_index_spec absolute n i Hv) as [[(k & Hk & ->) E]|[Hn E]]; rewrite E; cbn [bind]; [|auto].
  destruct (cut_at_prefix n k (if absolute then [0%N] else []) Hk) as [C1 _].
  destruct (sub_names_valid n k Hv Hl) as [V1 _].
  exists k. unfold wire_of. rewrite C1. auto.
Qed.

(* ---- slice_from / range_from (absolute names) *)
Theorem range_from_spec n i : valid_abs n ->
  match n_range_from (wire_abs n) i with
  | Ok r => exists k, (k <= length n)%nat /\ i = wire_len (firstn k n) /\
              r = wire_abs (skipn k n) /\ valid_abs (skipn k n)
  | Panic p => p = 8%N /\ ~ at_label n i
  | _ => False
  end.
Proof.
  intros [Hv Hl]. unfold n_range_from. rewrite <- wire_of_abs.
  destruct (check_index_spec true n i Hv) as [[(k & Hk & ->) E]|[Hn E]]; rewrite E; cbn [bind]; [|auto].
  pose proof (prefix_le n k) as Hp.
  rewrite sub_suffix by (rewrite wire_of_length; lia).
  destruct (cut_at_prefix n k [0%N] Hk) as [_ C2].
  destruct (sub_names_valid n k Hv Hl) as [_ V2].
  exists k. unfold wire_of. rewrite C2. auto.
Qed.

(* ---- slice / range *)
Lemma prefix_mono n : forall k1 k2, (k1 <= k2 <= length n)%nat ->
  wire_len (firstn k2 n) = (wire_len (firstn k1 n) + wire_len (firstn (k2 - k1) (skipn k1 n)))%nat.
Proof.
  induction n as [|l n IH]; intros k1 k2 H.
  - cbn [length] in H. replace k1 with 0%nat by lia. replace k2 with 0%nat by lia. reflexivity.
  - destruct k1 as [|k1]; [cbn [firstn wire_len skipn]; rewrite Nat.sub_0_r; reflexivity|].
    destruct k2 as [|k2]; [lia|]. cbn [firstn wire_len skipn length] in *.
    rewrite (IH k1 k2) by lia. replace (S k2 - S k1)%nat with (k2 - k1)%nat by lia. lia.
Qed.

Lemma prefix_strict n : Forall valid_label n -> forall k1 k2, (k1 < k2 <= length n)%nat ->
  (wire_len (firstn k1 n) < wire_len (firstn k2 n))%nat.
Proof.
  intros Hv k1 k2 H. rewrite (prefix_mono n k1 k2) by lia.
  assert (Hs : (k2 - k1 <= length (skipn k1 n))%nat) by (rewrite skipn_length; lia).
  destruct (skipn k1 n) as [|x s] eqn:Es; [cbn [length] in Hs; lia|].
  destruct (k2 - k1)%nat as [|d] eqn:Ed; [lia|]. cbn [firstn wire_len]. lia.
Qed.

Theorem range_spec absolute n lo hi : valid_rel n ->
  match n_range absolute (wire_of absolute n) lo hi with
  | Ok r => exists k1 k2, (k1 <= k2 <= length n)%nat /\
              lo_of lo = wire_len (firstn k1 n) /\ hi_of (wire_of absolute n) hi = wire_len (firstn k2 n) /\
              r = wire_rel (firstn (k2 - k1) (skipn k1 n)) /\ valid_rel (firstn (k2 - k1) (skipn k1 n))
  | Panic p =>
      (p = 8%N /\ (~ at_label n (lo_of lo) \/ ~ at_label n (hi_of (wire_of absolute n) hi))) \/
      (p = 9%N /\ (hi_of (wire_of absolute n) hi < lo_of lo)%nat) \/
      (p = 10%N /\ absolute = true /\ hi = EUnb)
  | _ => False
  end.
Proof.
  intros [Hv Hl]. unfold n_range, check_bounds.
  assert (Hlo : (at_label n (lo_of lo) /\ match lo with Some i => check_index absolute (wire_of absolute n) i | None => Ok tt end = Ok tt) \/
                (~ at_label n (lo_of lo) /\ match lo with Some i => check_index absolute (wire_of absolute n) i | None => Ok tt end = Panic 8)).
  { destruct lo as [i|]; [apply check_index_spec; exact Hv|]. left. split; [|reflexivity].
    exists 0%nat. cbn. split; [lia|reflexivity]. }
  destruct Hlo as [[(k1 & Hk1 & E1) C1]|[Hn C1]]; rewrite C1; cbn [bind]; [|left; auto].
  assert (Hhi : (absolute = true /\ hi = EUnb) \/
     (at_label n (hi_of (wire_of absolute n) hi) /\
        match hi with EIncl i => check_index absolute (wire_of absolute n) (i + 1) | EExcl i => check_index absolute (wire_of absolute n) i
                 | EUnb => if absolute then Panic 10 else Ok tt end = Ok tt) \/
     (~ at_label n (hi_of (wire_of absolute n) hi) /\
        match hi with EIncl i => check_index absolute (wire_of absolute n) (i + 1) | EExcl i => check_index absolute (wire_of absolute n) i
                 | EUnb => if absolute then Panic 10 else Ok tt end = Panic 8)).
  { destruct hi as [i|i|]; cbn [hi_of].
    - right. apply check_index_spec; exact Hv.
    - right. apply check_index_spec; exact Hv.
    - destruct absolute; [left; auto|]. right. left. split; [|reflexivity].
      exists (length n). rewrite firstn_all, wire_of_rel, wire_rel_length. split; [lia|reflexivity]. }
  destruct Hhi as [[-> ->]|[[(k2 & Hk2 & E2) C2]|[Hn C2]]].
  - cbn. right. right. auto.
  - rewrite C2. cbn [bind]. unfold sub. rewrite E1, E2.
    pose proof (prefix_le n k2) as Hp2.
    destruct (Nat.ltb_spec (wire_len (firstn k2 n)) (wire_len (firstn k1 n))) as [Hlt|Hge]; cbn [orb].
    { right. left. split; [reflexivity|lia]. }
    destruct (Nat.ltb_spec (length (wire_of absolute n)) (wire_len (firstn k2 n))) as [Hb|Hb];
      [rewrite wire_of_length in Hb; lia|].
    assert (Hk : (k1 <= k2)%nat).
    { destruct (Nat.le_gt_cases k1 k2); [assumption|]. pose proof (prefix_strict n Hv k2 k1 ltac:(lia)). lia. }
    exists k1, k2. split; [lia|]. split; [reflexivity|]. split; [reflexivity|].
    destruct (cut_at_prefix n k1 (if absolute then [0%N] else []) Hk1) as [_ S1].
    unfold wire_of. rewrite S1. rewrite (prefix_mono n k1 k2) by lia.
    replace (wire_len (firstn k1 n) + wire_len (firstn (k2 - k1) (skipn k1 n)) - wire_len (firstn k1 n))%nat
      with (wire_len (firstn (k2 - k1) (skipn k1 n))) by lia.
    assert (Hd : (k2 - k1 <= length (skipn k1 n))%nat) by (rewrite skipn_length; lia).
    destruct (cut_at_prefix (skipn k1 n) (k2 - k1) (if absolute then [0%N] else []) Hd) as [F1 _].
    rewrite F1. split; [reflexivity|].
    destruct (sub_names_valid n k1 Hv Hl) as [_ [V2 V2l]].
    destruct (sub_names_valid (skipn k1 n) (k2 - k1) V2 V2l) as [V3 _]. exact V3.
  - rewrite C2. cbn [bind]. left. auto.
Qed.

(* ---- parent *)
Theorem parent_spec absolute n : valid_rel n ->
  n_parent absolute (wire_of absolute n) =
    Ok (match n with [] => None | _ :: n' => Some (wire_of absolute n') end) /\
  match n with [] => True | _ :: n' => valid_rel n' end.
Proof.
  intros [Hv Hl]. unfold n_parent. destruct n as [|l n'].
  - split; [|exact I]. destruct absolute; reflexivity.
  - inversion Hv as [|? ? [[L1 L2] L3] Hv']; subst. split; [|split; [exact Hv'|cbn [wire_len] in Hl; lia]].
    assert (E : wire_of absolute (l :: n') = wire_label l ++ wire_of absolute n').
    { unfold wire_of, wire_rel. cbn [map concat]. rewrite <- app_assoc. reflexivity. }
    assert (Hne : (if absolute then (length (wire_of absolute (l :: n')) =? 1)%nat else is_empty (wire_of absolute (l :: n'))) = false).
    { destruct absolute; [|rewrite E; reflexivity]. rewrite wire_of_length. cbn [wire_len]. apply Nat.eqb_neq. lia. }
    rewrite Hne. rewrite E at 1. rewrite split_from_wire by lia.
    pose proof (split_spec absolute (l :: n') (length l + 1) (conj Hv Hl)) as S.
    destruct (n_split absolute (wire_of absolute (l :: n')) (length l + 1)) as [[a b]|e|p|]; try contradiction.
    + destruct S as (k & Hk & Ei & -> & -> & _). cbn [bind snd].
      assert (k = 1%nat).
      { destruct k as [|k]; [cbn in Ei; lia|]. destruct k as [|k]; [reflexivity|].
        pose proof (prefix_strict (l :: n') Hv 1 (S (S k)) ltac:(lia)) as Hs. cbn [firstn wire_len] in Hs, Ei. lia. }
      subst k. reflexivity.
    + exfalso. destruct S as [_ Hn]. apply Hn. exists 1%nat. cbn [length firstn wire_len]. split; lia.
Qed.

(* ---- into_relative / into_absolute *)
Theorem into_relative_spec n : valid_abs n -> n_into_relative (wire_abs n) = Ok (wire_rel n) /\ valid_rel n.
Proof.
  intros Hv. split; [|exact Hv]. unfold n_into_relative, into_relative_sub. rewrite wire_abs_length.
  destruct (Nat.ltb_spec (S (wire_len n)) 1); [lia|].
  replace (S (wire_len n) - 1)%nat with (length (wire_rel n)) by (rewrite wire_rel_length; lia).
  unfold wire_abs. rewrite firstn_app, firstn_all, Nat.sub_diag. cbn [firstn]. rewrite app_nil_r. reflexivity.
Qed.

Theorem into_absolute_spec n : valid_rel n -> n_into_absolute None (wire_rel n) = Ok (wire_abs n) /\ valid_abs n.
Proof.
  intros Hv. split; [|exact Hv]. unfold n_into_absolute.
  assert (Hr : repr (mk_a n None) (mk_b (wire_rel n) None)) by reflexivity.
  assert (Ha : avalid (mk_a n None)).
  { destruct Hv as [H1 H2]. split; [split; [exact H1|exact I]|]. unfold alen. cbn [closed opn]. lia. }
  destruct (into_name_spec None _ _ Ha Hr) as (H1 & _ & _). rewrite H1. reflexivity.
Qed.

(* ---- strip_suffix *)
Lemma starts_with_decomp : forall a b, starts_with a b = true ->
  exists s r, a = s ++ r /\ canon s = canon b.
Proof.
  induction a as [|x a IH]; intros [|y b] H; cbn [starts_with] in H.
  - exists [], []. auto.
  - discriminate.
  - exists [], (x :: a). auto.
  - destruct (eq_ci x y) eqn:E; cbn [negb] in H; [|discriminate].
    destruct (IH b H) as (s & r & -> & Hc). exists (x :: s), r. split; [reflexivity|].
    unfold canon in *. cbn [map]. apply eq_ci_spec in E. congruence.
Qed.

Lemma canon_wire_len : forall s b : name, canon s = canon b -> wire_len s = wire_len b.
Proof.
  unfold canon. induction s as [|x s IH]; intros [|y b] H; cbn [map] in H; try discriminate; [reflexivity|].
  injection H as H1 H2. cbn [wire_len]. rewrite (IH b H2).
  rewrite <- (lowers_length x), <- (lowers_length y), H1. reflexivity.
Qed.

Lemma ends_with_decomp n base : ends_with n base = true ->
  exists p s, n = p ++ s /\ canon s = canon base.
Proof.
  unfold ends_with. intros H. destruct (starts_with_decomp _ _ H) as (s & r & E & Hc).
  exists (rev r), (rev s). split.
  - rewrite <- rev_app_distr, <- E. symmetry. apply rev_involutive.
  - unfold canon in *.
    assert (M : forall l : list (list N), map lowers (rev l) = rev (map lowers l)) by (intros; apply map_rev).
    etransitivity; [apply M|]. rewrite Hc. etransitivity; [apply f_equal; apply M|]. apply rev_involutive.
Qed.

Lemma ends_with_root n base : ends_with (n ++ [[]]) (base ++ [[]]) = ends_with n base.
Proof. unfold ends_with. rewrite !rev_app_distr. reflexivity. Qed.

Lemma prefix_inj n : Forall valid_label n -> forall k1 k2, (k1 <= length n)%nat -> (k2 <= length n)%nat ->
  wire_len (firstn k1 n) = wire_len (firstn k2 n) -> k1 = k2.
Proof.
  intros Hv k1 k2 H1 H2 E. destruct (Nat.lt_trichotomy k1 k2) as [L|[L|L]]; [|exact L|].
  - pose proof (prefix_strict n Hv k1 k2 ltac:(lia)). lia.
  - pose proof (prefix_strict n Hv k2 k1 ltac:(lia)). lia.
Qed.

Theorem abs_strip_suffix_spec n base : valid_abs n ->
  match abs_strip_suffix n base with
  | Ok (Some t) => exists p s, n = p ++ s /\ canon s = canon base /\ t = wire_rel p /\ valid_rel p
  | Ok None => ends_with (n ++ [[]]) (base ++ [[]]) = false
  | _ => False
  end.
Proof.
  intros Hv. unfold abs_strip_suffix. destruct (ends_with (n ++ [[]]) (base ++ [[]])) eqn:E; [|reflexivity].
  rewrite ends_with_root in E. destruct (ends_with_decomp n base E) as (p & s & -> & Hc).
  pose proof (canon_wire_len s base Hc) as Hw. rewrite wire_abs_length, wire_len_app.
  destruct (Nat.ltb_spec (S (wire_len p + wire_len s)) (wire_len base + 1)); [lia|].
  replace (S (wire_len p + wire_len s) - (wire_len base + 1))%nat with (wire_len p) by lia.
  pose proof (truncate_spec true (p ++ s) (wire_len p) Hv) as T. rewrite wire_of_abs in T.
  assert (Hp : firstn (length p) (p ++ s) = p) by apply take_app_length.
  destruct (n_truncate true (wire_abs (p ++ s)) (wire_len p)) as [l|e|q|]; try contradiction; cbn [bind].
  - destruct T as (k & Hk & Ei & -> & Vk).
    assert (k = length p).
    { apply (prefix_inj (p ++ s) (proj1 Hv)); [exact Hk|rewrite app_length; lia|]. rewrite Hp. symmetry. exact Ei. }
    subst k. rewrite Hp in *. exists p, s. auto.
  - destruct T as [_ Hn]. apply Hn. exists (length p). rewrite Hp, app_length. split; [lia|reflexivity].
Qed.

Theorem rel_strip_suffix_spec n base : valid_rel n ->
  match rel_strip_suffix n base with
  | Ok (Some t) => exists p s, n = p ++ s /\ canon s = canon base /\ t = wire_rel p /\ valid_rel p
  | Ok None => ends_with n base = false
  | _ => False
  end.
Proof.
  intros Hv. unfold rel_strip_suffix. destruct (ends_with n base) eqn:E; [|reflexivity].
  destruct (ends_with_decomp n base E) as (p & s & -> & Hc).
  pose proof (canon_wire_len s base Hc) as Hw. rewrite wire_rel_length, wire_len_app.
  destruct (Nat.ltb_spec (wire_len p + wire_len s) (wire_len base)); [lia|].
  replace (wire_len p + wire_len s - wire_len base)%nat with (length (wire_rel p)) by (rewrite wire_rel_length; lia).
  rewrite wire_rel_app. exists p, s. split; [reflexivity|]. split; [exact Hc|]. split; [apply take_app_length|].
  destruct Hv as [H1 H2]. apply Forall_app in H1 as [H1 _]. rewrite wire_len_app in H2. split; [exact H1|lia].
Qed.

Example slice_examples :
  let w := wire_abs [[119;119;119]; [97;98]]%N in
  is_label_start true w 4 = Ok true /\ is_label_start true w 7 = Ok true /\ is_label_start true w 8 = Ok false /\
  is_label_start true w 1 = Ok false /\ n_split true w 4 = Ok ([3;119;119;119], [2;97;98;0])%N /\
  n_split true w 5 = Panic 8 /\ n_range true w (Some 4%nat) (EExcl 7) = Ok [2;97;98]%N /\
  n_range true w (Some 4%nat) EUnb = Panic 10 /\ n_range true w (Some 7%nat) (EExcl 4) = Panic 9 /\
  n_parent true w = Ok (Some [2;97;98;0]%N) /\ n_parent true [0%N] = Ok None /\
  n_truncate false [1;97;1;98]%N 4 = Ok [1;97;1;98]%N /\ n_truncate false [1;97;1;98]%N 3 = Panic 8.
Proof. vm_compute. repeat split; reflexivity. Qed.
