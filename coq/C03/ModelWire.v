(* C03 model, part 2: validating constructors.
   Label::split_from, Label::from_slice, Name::check_slice (from_octets,
   from_slice), RelativeName::check_slice (from_octets, from_slice,
   NameBuilder::from_builder), Chain::new length rule.
   Error words: 1 LongName 2 TrailingData 3 RelativeName 4 ShortInput
   5 BadLabel 6 CompressedName 7 AbsoluteName 8 LongLabel 9 LongChain.
   The loops of check_slice run on fuel (S (length input) suffices). *)
From Coq Require Import NArith List Bool Arith.
From DV Require Import Base.Outcome Base.Bytes Base.Names C03.Gen C03.Model.
Import ListNotations.

Definition W_LongName : N := 1%N.
Definition W_TrailingData : N := 2%N.
Definition W_RelativeName : N := 3%N.
Definition W_ShortInput : N := 4%N.
Definition W_BadLabel : N := 5%N.
Definition W_CompressedName : N := 6%N.
Definition W_AbsoluteName : N := 7%N.
Definition W_LongLabel : N := 8%N.
Definition W_LongChain : N := 9%N.

(* Label::split_from: the match on the first octet, arms in source order *)
Definition split_from (b : bytes) : outcome (label * bytes) :=
  match b with
  | [] => Err W_ShortInput
  | h :: t =>
      if (h <=? split_normal_hi)%N then
        let e := (N.to_nat h + split_end_add)%nat in
        if (length b <? e)%nat then Err W_ShortInput
        else Ok (firstn (e - 1) t, skipn (e - 1) t)
      else if (split_ext_lo <=? h)%N && (h <=? split_ext_hi)%N then Err W_BadLabel
      else if (split_ptr_lo <=? h)%N && (h <=? split_ptr_hi)%N then
        (if (length b <? split_ptr_min_len)%nat then Err W_ShortInput else Err W_CompressedName)
      else Err W_BadLabel
  end.

Definition label_from_slice (s : bytes) : outcome label :=
  if exceeds label_from_slice_ge (length s) label_from_slice_lim then Err W_LongLabel else Ok s.

Definition is_root (l : label) : bool := match l with [] => true | _ => false end.
Definition is_empty (b : bytes) : bool := match b with [] => true | _ => false end.

Fixpoint abs_loop (fuel : nat) (b : bytes) : outcome unit :=
  match fuel with
  | O => OutOfFuel
  | S f =>
      match split_from b with
      | Ok (l, tail) =>
          if is_root l then (if is_empty tail then Ok tt else Err W_TrailingData)
          else if is_empty tail then Err W_RelativeName
          else abs_loop f tail
      | Err e => Err e | Panic p => Panic p | OutOfFuel => OutOfFuel
      end
  end.

Definition check_abs (b : bytes) : outcome unit :=
  if exceeds check_abs_ge (length b) check_abs_lim then Err W_LongName
  else abs_loop (S (length b)) b.

Fixpoint rel_loop (fuel : nat) (b : bytes) : outcome unit :=
  match fuel with
  | O => OutOfFuel
  | S f =>
      if is_empty b then Ok tt else
      match split_from b with
      | Ok (l, tail) => if is_root l then Err W_AbsoluteName else rel_loop f tail
      | Err e => Err e | Panic p => Panic p | OutOfFuel => OutOfFuel
      end
  end.

Definition check_rel (b : bytes) : outcome unit :=
  if exceeds check_rel_ge (length b) check_rel_lim then Err W_LongName
  else rel_loop (S (length b)) b.

(* Chain::new: compose_len of the two sides (a relative name: wire length, an
   absolute name: wire length + 1) *)
Definition chain_new (left_len right_len : nat) : outcome unit :=
  if exceeds chain_ge (left_len + right_len) chain_lim then Err W_LongChain else Ok tt.

(* the known finding chain_relative_255: both sides relative, accepted, and the
   chain (itself a relative name) is 255 octets long *)
Definition chain_relative_255 (l r : name) : bool := (wire_len l + wire_len r =? 255)%nat.

(* ---- UncertainName::from_octets / from_slice: is_slice_absolute.  Ok true:
   absolute, Ok false: relative.  [len] is the length of the whole input (the
   relative exit tests it when the source does: uncertain_rel_checked). *)
Fixpoint unc_loop (fuel : nat) (len : nat) (b : bytes) : outcome bool :=
  match fuel with
  | O => OutOfFuel
  | S f =>
      match split_from b with
      | Ok (l, tail) =>
          if is_root l then (if is_empty tail then Ok true else Err W_TrailingData)
          else if is_empty tail then
            (if uncertain_rel_checked && exceeds uncertain_rel_ge len uncertain_rel_lim
             then Err W_LongName else Ok false)
          else unc_loop f len tail
      | Err e => Err e | Panic p => Panic p | OutOfFuel => OutOfFuel
      end
  end.

Definition uncertain_check (b : bytes) : outcome bool :=
  if exceeds uncertain_ge (length b) uncertain_lim then Err W_LongName
  else unc_loop (S (length b)) (length b) b.

(* finding class uncertain_relative_255: a relative spelling of 255 octets *)
Definition uncertain_relative_255 (b : bytes) : bool := (length b =? 255)%nat.

(* Chain::new_uncertain: only a relative left side is measured *)
Definition chain_new_uncertain (left_relative : bool) (left_len right_len : nat) : outcome unit :=
  if left_relative then
    (if exceeds chain_unc_ge (left_len + right_len) chain_unc_lim then Err W_LongChain else Ok tt)
  else Ok tt.

(* ---- RelativeName::chain_root = self.chain(Name::root()).unwrap(), and
   UncertainName::chain(suffix) with an absolute suffix: the composed octets.
   Panic site 14: the unwrap in chain_root. *)
Definition n_chain_root (w : bytes) : outcome bytes :=
  match chain_new (length w) 1 with
  | Ok _ => Ok (w ++ [0%N])
  | Err _ => Panic 14
  | Panic p => Panic p
  | OutOfFuel => OutOfFuel
  end.

Definition unc_chain (left_absolute : bool) (lw rw : bytes) : outcome bytes :=
  do _ <- chain_new_uncertain (negb left_absolute) (length lw) (length rw);
  Ok (if left_absolute then lw else lw ++ rw).

(* a chain of three parts: (a.chain(b))?.chain(c)?, lengths as compose_len *)
Definition chain3 (l1 l2 l3 : nat) : outcome unit :=
  do _ <- chain_new l1 l2; chain_new (l1 + l2) l3.

(* NameBuilder::from_builder: RelativeName::check_slice on what is in the
   octets builder, then a builder with no label open *)
Definition b_from_builder (w : bytes) : outcome bstate :=
  do _ <- check_rel w; Ok (mk_b w None).

(* ---- Name::parse on a parser: parse_name_len walks the labels from the
   current position to the root label, then tests the length; the octets of the
   name are taken, the rest stays in the parser *)
Fixpoint nparse_loop (fuel : nat) (tmp : bytes) (consumed : nat) : outcome nat :=
  match fuel with
  | O => OutOfFuel
  | S f =>
      if is_empty tmp then Err W_ShortInput else
      match split_from tmp with
      | Ok (l, tail) =>
          let c := (consumed + length l + 1)%nat in
          if is_root l then Ok c else nparse_loop f tail c
      | Err e => Err e | Panic p => Panic p | OutOfFuel => OutOfFuel
      end
  end.

Definition name_parse (b : bytes) : outcome bytes :=
  do len <- nparse_loop (S (length b)) b 0;
  if exceeds name_parse_ge len name_parse_lim then Err W_LongName else Ok (firstn len b).
