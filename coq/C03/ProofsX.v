(* C03 proofs, widening round X: the text constructors (Name::from_chars /
   FromStr, RelativeName::from_chars, UncertainName::from_chars, the serde
   visitor of RelativeName) are total over a growable buffer: whatever the
   character sequence, the result is a name or an error - never a panic, and
   the fuel of the model's symbol loop is enough. *)
From Coq Require Import NArith List Bool Arith Lia ZArith.
From Coq Require Import ZifyN ZifyBool ZifyNat.
From DV Require Import Base.Outcome Base.Bytes Base.Names C03.Gen C03.Model C03.Spec
  C03.ProofsBuilder C03.ProofsBuilder2 C03.ModelText C03.ProofsText.
Import ListNotations.
Ltac Zify.zify_post_hook ::= Z.div_mod_to_equations.

Lemma sym_next_total cs : no_panic (sym_next cs).
Proof.
  unfold sym_next. destruct cs as [|ch r0]; [exact I|].
  destruct (negb _); [exact I|].
  destruct r0 as [|c1 r1]; [exact I|].
  destruct (is_digit c1).
  { destruct r1 as [|c2 r2]; [exact I|]. destruct (negb _); [exact I|].
    destruct r2 as [|c3 r3]; [exact I|]. destruct (negb _); [exact I|].
    destruct (_ <? _)%N; exact I. }
  destruct (_ <? _)%N; [exact I|]. destruct (_ || _); exact I.
Qed.

Lemma sym_next_shorter cs s r : sym_next cs = Ok (Some (s, r)) -> (length r < length cs)%nat.
Proof.
  unfold sym_next. destruct cs as [|ch r0]; [discriminate|].
  destruct (negb _).
  { intros E; injection E as <- <-. cbn [length]. lia. }
  destruct r0 as [|c1 r1]; [discriminate|].
  destruct (is_digit c1).
  { destruct r1 as [|c2 r2]; [discriminate|]. destruct (negb _); [discriminate|].
    destruct r2 as [|c3 r3]; [discriminate|]. destruct (negb _); [discriminate|].
    destruct (_ <? _)%N; [discriminate|].
    intros E; injection E as <- <-. cbn [length]. lia. }
  destruct (_ <? _)%N; [discriminate|]. destruct (_ || _); [discriminate|].
  intros E; injection E as <- <-. cbn [length]. lia.
Qed.

Lemma push_symbol_okerr cap st s r cs : Inv st -> sym_next cs = Ok (Some (s, r)) ->
  okerr (snd (push_symbol cap st s)).
Proof.
  intros (a & Hr & Hw & Hl) Hs. unfold push_symbol. destruct (is_char s sym_dot).
  - destruct (negb (in_label st)); [exact I|].
    exact (step_no_panic cap a st OEnd Hw Hr I).
  - destruct (is_simple s sym_bracket && negb (in_label st)); [exact I|].
    destruct (into_octet s) as [o|e|p|] eqn:Eo.
    + destruct (sym_next_octet cs s r o Hs Eo) as [Ho _].
      exact (step_no_panic cap a st (OPush o) Hw Hr Ho).
    + exact I.
    + exfalso. destruct s; cbn [into_octet] in Eo; try discriminate.
      destruct (_ && _); discriminate.
    + exfalso. destruct s; cbn [into_octet] in Eo; try discriminate.
      destruct (_ && _); discriminate.
Qed.

Lemma push_symbol_inv_cap cap st s r cs st' : Inv st -> sym_next cs = Ok (Some (s, r)) ->
  push_symbol cap st s = (st', Ok tt) -> Inv st'.
Proof.
  intros Hi Hs. unfold push_symbol. destruct (is_char s sym_dot).
  - destruct (negb (in_label st)); [discriminate|]. intros E.
    pose proof (step_inv cap st OEnd Hi I eq_refl) as H. cbn [step] in H. rewrite E in H. exact H.
  - destruct (is_simple s sym_bracket && negb (in_label st)); [discriminate|].
    destruct (into_octet s) as [o|e|p|] eqn:Eo; try discriminate. intros E.
    destruct (sym_next_octet cs s r o Hs Eo) as [Ho _].
    pose proof (step_inv cap st (OPush o) Hi Ho eq_refl) as H. cbn [step] in H. rewrite E in H. exact H.
Qed.

Lemma append_syms_inv_cap cap fuel : forall st cs st' e, Inv st ->
  append_syms fuel cap st cs = Ok (st', e) -> Inv st'.
Proof.
  induction fuel as [|f IH]; intros st cs st' e Hi; [discriminate|]. cbn [append_syms].
  destruct (sym_next cs) as [[[s r]|]|e0|p|] eqn:Es; try discriminate.
  - destruct (push_symbol cap st s) as [st1 [[]|e1|p1|]] eqn:Ep; try discriminate.
    intros H. eapply IH; [|exact H]. eapply push_symbol_inv_cap; eauto.
  - intros E; injection E as <- <-. exact Hi.
  - intros E; injection E as <- <-. exact Hi.
Qed.

Lemma append_syms_total cap fuel : forall st cs, Inv st -> (length cs < fuel)%nat ->
  no_panic (append_syms fuel cap st cs).
Proof.
  induction fuel as [|f IH]; intros st cs Hi Hf; [lia|]. cbn [append_syms].
  pose proof (sym_next_total cs) as Ht.
  destruct (sym_next cs) as [[[s r]|]|e0|p|] eqn:Es; try exact I; try contradiction.
  pose proof (push_symbol_okerr cap st s r cs Hi Es) as Hp.
  destruct (push_symbol cap st s) as [st1 [[]|e1|p1|]] eqn:Ep; cbn [snd] in Hp; try exact I; try contradiction.
  apply IH.
  - eapply push_symbol_inv_cap; eauto.
  - apply sym_next_shorter in Es. lia.
Qed.

Lemma into_name_total cap st : Inv st -> no_panic (b_into_name cap st).
Proof.
  intros (a & Hr & Hv). destruct (into_name_spec cap a st Hv Hr) as (H1 & _).
  rewrite H1. destruct (fits cap a 1); exact I.
Qed.

Lemma finish_total st : Inv st -> no_panic (b_finish st).
Proof.
  intros (a & Hr & Hv). destruct (finish_spec a st Hv Hr) as (H1 & _). rewrite H1. exact I.
Qed.

Theorem from_chars_total cap cs :
  no_panic (name_from_chars cap cs) /\ no_panic (rel_from_chars cap cs) /\
  no_panic (uncertain_from_chars cap cs) /\ no_panic (serde_de_rel cap cs).
Proof.
  assert (Hrel : no_panic (rel_from_chars cap cs)).
  { unfold rel_from_chars.
    pose proof (append_syms_total cap (S (length cs)) b_init cs inv_init ltac:(lia)) as Ht.
    destruct (append_syms (S (length cs)) cap b_init cs) as [[st2 [e|]]|e2|p2|] eqn:Ea; try exact I; try contradiction.
    pose proof (append_syms_inv_cap _ _ _ _ _ _ inv_init Ea) as Hi2.
    destruct (in_label st2 || is_nil (buf st2)); [|exact I]. apply finish_total. exact Hi2. }
  split; [|split; [exact Hrel|split]].
  - unfold name_from_chars.
    pose proof (sym_next_total cs) as Ht.
    destruct (sym_next cs) as [[[s r]|]|e0|p|] eqn:Es; try exact I; try contradiction.
    destruct (is_char s sym_dot).
    + pose proof (sym_next_total r) as Ht2.
      destruct (sym_next r) as [[[s2 r2]|]|e1|p1|]; try exact I; try contradiction;
        destruct (raw_append cap [] const_from_symbols_root); exact I.
    + pose proof (push_symbol_okerr cap b_init s r cs inv_init Es) as Hp.
      destruct (push_symbol cap b_init s) as [st1 [[]|e1|p1|]] eqn:Ep; cbn [snd] in Hp; try exact I; try contradiction.
      pose proof (push_symbol_inv_cap _ _ _ _ _ _ inv_init Es Ep) as Hi1.
      pose proof (append_syms_total cap (S (length r)) st1 r Hi1 ltac:(lia)) as Ht2.
      destruct (append_syms (S (length r)) cap st1 r) as [[st2 e]|e2|p2|] eqn:Ea; try exact I; try contradiction.
      pose proof (append_syms_inv_cap _ _ _ _ _ _ Hi1 Ea) as Hi2.
      pose proof (into_name_total cap st2 Hi2) as Hn.
      unfold kept. destruct (b_into_name cap st2); destruct e; try exact I; try contradiction.
  - unfold uncertain_from_chars.
    destruct (uncertain_from_chars_root_special && first_is_dot cs).
    { pose proof (sym_next_total cs) as Ht.
      destruct (sym_next cs) as [[[s0 r0]|]|e0|p0|]; try exact I; try contradiction.
      pose proof (sym_next_total r0) as Ht2.
      destruct (sym_next r0) as [[[s1 r1]|]|e1|p1|]; try exact I; try contradiction.
      destruct (raw_append cap [] const_from_symbols_root); exact I. }
    unfold uncertain_from_chars_plain.
    pose proof (append_syms_total cap (S (length cs)) b_init cs inv_init ltac:(lia)) as Ht.
    destruct (append_syms (S (length cs)) cap b_init cs) as [[st2 [e|]]|e2|p2|] eqn:Ea; try exact I; try contradiction.
    pose proof (append_syms_inv_cap _ _ _ _ _ _ inv_init Ea) as Hi2.
    destruct (in_label st2 || is_nil (buf st2)).
    + pose proof (finish_total st2 Hi2) as Hn. destruct (b_finish st2); cbn [bind]; try exact I; try contradiction.
    + pose proof (into_name_total cap st2 Hi2) as Hn. destruct (b_into_name cap st2); cbn [bind]; try exact I; try contradiction.
  - unfold serde_de_rel. destruct serde_rel_checks_absolute; [exact Hrel|].
    pose proof (append_syms_total cap (S (length cs)) b_init cs inv_init ltac:(lia)) as Ht.
    destruct (append_syms (S (length cs)) cap b_init cs) as [[st2 [e|]]|e2|p2|] eqn:Ea; try exact I; try contradiction.
    pose proof (append_syms_inv_cap _ _ _ _ _ _ inv_init Ea) as Hi2. apply finish_total. exact Hi2.
Qed.

Example from_chars_total_ex :
  name_from_chars None [97; 46; 46; 98]%N = Err T_EmptyLabel /\
  name_from_chars None [92; 50; 53; 54]%N = Err T_ShortInput /\
  no_panic (name_from_chars None [92; 91]%N).
Proof. vm_compute. repeat split. Qed.

(* ---- the presentation form determines the name, and text -> name -> text ->
   name is stable: whatever string was accepted, displaying the name and
   reading it again gives the same octets *)
Lemma wire_abs_inj n1 n2 : valid_abs n1 -> valid_abs n2 -> wire_abs n1 = wire_abs n2 -> n1 = n2.
Proof.
  intros H1 H2 E. pose proof (decode_wire_abs n1 [] H1) as D1. pose proof (decode_wire_abs n2 [] H2) as D2.
  rewrite E in D1. rewrite D1 in D2. injection D2 as ->. reflexivity.
Qed.

Theorem display_injective n1 n2 : valid_abs n1 -> valid_abs n2 ->
  (display_name n1 = display_name n2 -> n1 = n2) /\ (display_rel n1 = display_rel n2 -> n1 = n2).
Proof.
  intros H1 H2. split; intros E.
  - pose proof (display_parse_roundtrip n1 H1) as R1. pose proof (display_parse_roundtrip n2 H2) as R2.
    rewrite E in R1. rewrite R1 in R2. injection R2 as R2. apply wire_abs_inj; assumption.
  - pose proof (display_parse_roundtrip_rel n1 H1) as R1. pose proof (display_parse_roundtrip_rel n2 H2) as R2.
    rewrite E in R1. rewrite R1 in R2. injection R2 as R2. apply wire_abs_inj; try assumption.
    unfold wire_abs. rewrite R2. reflexivity.
Qed.

Theorem text_reparse_stable cs :
  (forall w, name_from_chars None cs = Ok w ->
     exists n, valid_abs n /\ w = wire_abs n /\ name_from_chars None (display_name n) = Ok w) /\
  (forall w, rel_from_chars None cs = Ok w ->
     exists n, valid_rel n /\ w = wire_rel n /\ rel_from_chars None (display_rel n) = Ok w).
Proof.
  destruct (from_chars_valid cs) as (Ha & Hr & _). split; intros w E.
  - destruct (Ha w E) as (n & Hn & ->). exists n. split; [exact Hn|]. split; [reflexivity|].
    apply display_parse_roundtrip. exact Hn.
  - destruct (Hr w E) as (n & Hn & ->). exists n. split; [exact Hn|]. split; [reflexivity|].
    apply display_parse_roundtrip_rel. exact Hn.
Qed.

Example text_reparse_ex :
  name_from_chars None [97; 92; 48; 52; 54; 98; 46]%N = Ok [3; 97; 46; 98; 0]%N /\
  display_name [[97; 46; 98]]%N = [97; 92; 46; 98]%N /\
  name_from_chars None [97; 92; 46; 98]%N = Ok [3; 97; 46; 98; 0]%N.
Proof. vm_compute. repeat split. Qed.

(* ---- C03_from_chars_valid for every capacity of the octets builder (names
   read into fixed-size arrays): an accepted string still gives a valid name;
   a buffer that is too small gives ShortBuf (from_chars_total), never a
   truncated name *)
Theorem from_chars_valid_cap cap cs :
  (forall w, name_from_chars cap cs = Ok w -> exists n, valid_abs n /\ w = wire_abs n) /\
  (forall w, rel_from_chars cap cs = Ok w -> exists n, valid_rel n /\ w = wire_rel n) /\
  (forall f w, uncertain_from_chars cap cs = Ok (f, w) ->
      exists n, valid_rel n /\ w = if f then wire_abs n else wire_rel n) /\
  (forall w, serde_de_rel cap cs = Ok w -> exists n, valid_rel n /\ w = wire_rel n).
Proof.
  assert (Hinto : forall st w, Inv st -> b_into_name cap st = Ok w -> exists n, valid_abs n /\ w = wire_abs n).
  { intros st w (a & Hr & Hv) H. destruct (into_name_spec cap a st Hv Hr) as (H1 & H2 & _).
    rewrite H1 in H. destruct (fits cap a 1); [|discriminate]. injection H as <-. eauto. }
  assert (Hfin : forall st w, Inv st -> b_finish st = Ok w -> exists n, valid_rel n /\ w = wire_rel n).
  { intros st w (a & Hr & Hv) H. destruct (finish_spec a st Hv Hr) as (H1 & H2).
    rewrite H1 in H. injection H as <-. eauto. }
  assert (Hroot : forall b, raw_append cap [] const_from_symbols_root = Some b -> b = wire_abs []).
  { intros b. unfold raw_append, const_from_symbols_root. destruct cap as [c|].
    - destruct (_ <=? _)%nat; [|discriminate]. intros E; injection E as <-. reflexivity.
    - intros E; injection E as <-. reflexivity. }
  assert (Hvroot : valid_abs []) by (split; [constructor|cbn; lia]).
  assert (Hrel : forall w, rel_from_chars cap cs = Ok w -> exists n, valid_rel n /\ w = wire_rel n).
  { intros w. unfold rel_from_chars.
    destruct (append_syms (S (length cs)) cap b_init cs) as [[st2 [e|]]|e2|p2|] eqn:Ea; try discriminate.
    pose proof (append_syms_inv_cap _ _ _ _ _ _ inv_init Ea) as Hi2.
    destruct (in_label st2 || is_nil (buf st2)); [|discriminate]. intros H. eapply Hfin; eauto. }
  split; [|split; [exact Hrel|split]].
  - intros w. unfold name_from_chars.
    destruct (sym_next cs) as [[[s r]|]|e0|p|] eqn:Es; try discriminate.
    destruct (is_char s sym_dot).
    + destruct (sym_next r) as [[[s2 r2]|]|e1|p1|]; try discriminate.
      * destruct (raw_append cap [] const_from_symbols_root) as [b|] eqn:Er; [|discriminate].
        intros E; injection E as <-. exists []. split; [exact Hvroot|]. apply Hroot. reflexivity.
      * destruct (raw_append cap [] const_from_symbols_root); discriminate.
    + destruct (push_symbol cap b_init s) as [st1 [[]|e1|p1|]] eqn:Ep; try discriminate.
      pose proof (push_symbol_inv_cap _ _ _ _ _ _ inv_init Es Ep) as Hi1.
      destruct (append_syms (S (length r)) cap st1 r) as [[st2 e]|e2|p2|] eqn:Ea; try discriminate.
      pose proof (append_syms_inv_cap _ _ _ _ _ _ Hi1 Ea) as Hi2.
      unfold kept. destruct (b_into_name cap st2) as [w2|e3|p3|] eqn:Ei; destruct e; try discriminate.
      intros E; injection E as <-. eapply Hinto; eauto.
  - intros f w. unfold uncertain_from_chars.
    destruct (uncertain_from_chars_root_special && first_is_dot cs).
    { destruct (sym_next cs) as [[[s0 r0]|]|e0|p0|]; try discriminate.
      destruct (sym_next r0) as [[[s1 r1]|]|e1|p1|]; try discriminate.
      destruct (raw_append cap [] const_from_symbols_root) as [b|] eqn:Er; [|discriminate].
      intros E; injection E as <- <-. exists []. split; [exact Hvroot|]. apply Hroot. reflexivity. }
    unfold uncertain_from_chars_plain.
    destruct (append_syms (S (length cs)) cap b_init cs) as [[st2 [e|]]|e2|p2|] eqn:Ea; try discriminate.
    pose proof (append_syms_inv_cap _ _ _ _ _ _ inv_init Ea) as Hi2.
    destruct (in_label st2 || is_nil (buf st2)).
    + destruct (b_finish st2) as [w2|e3|p3|] eqn:Ef; try discriminate. cbn [bind].
      intros E; injection E as <- <-. eapply Hfin; eauto.
    + destruct (b_into_name cap st2) as [w2|e3|p3|] eqn:Ef; try discriminate. cbn [bind].
      intros E; injection E as <- <-. destruct (Hinto _ _ Hi2 Ef) as (n & Hn & ->). eauto.
  - intros w. unfold serde_de_rel. destruct serde_rel_checks_absolute; [apply Hrel|].
    destruct (append_syms (S (length cs)) cap b_init cs) as [[st2 [e|]]|e2|p2|] eqn:Ea; try discriminate.
    pose proof (append_syms_inv_cap _ _ _ _ _ _ inv_init Ea) as Hi2. intros H. eapply Hfin; eauto.
Qed.

Example from_chars_cap_ex :
  name_from_chars (Some 4%nat) [97; 46; 98]%N = Err E_ShortBuf /\
  name_from_chars (Some 5%nat) [97; 46; 98]%N = Ok [1; 97; 1; 98; 0]%N.
Proof. vm_compute. split; reflexivity. Qed.
