(* C03 -- presentation format round trip: parsing the displayed form of a valid
   absolute name gives back the same octets. *)
From Coq Require Import NArith List Bool Arith Lia ZArith.
From Coq Require Import ZifyN ZifyBool ZifyNat.
From DV Require Import Base.Outcome Base.Bytes Base.Names C03.Gen C03.Model C03.Spec C03.ModelText
  C03.ProofsBuilder C03.ProofsBuilder2.
Import ListNotations.
Ltac Zify.zify_post_hook ::= Z.div_mod_to_equations.
Local Open Scope N_scope.

(* Symbol::from_chars only looks at the characters it consumes: a successful
   read is unchanged by appending more text *)
Lemma sym_next_app p s r rest : sym_next p = Ok (Some (s, r)) ->
  sym_next (p ++ rest) = Ok (Some (s, r ++ rest)).
Proof.
  unfold sym_next. destruct p as [|ch r0]; [discriminate|]. cbn [app].
  destruct (negb (ch =? backslash)); [intros E; injection E as <- <-; reflexivity|].
  destruct r0 as [|c1 r1]; [discriminate|]. cbn [app].
  destruct (is_digit c1).
  - destruct r1 as [|c2 r2]; [discriminate|]. cbn [app]. destruct (negb (is_digit c2)); [discriminate|].
    destruct r2 as [|c3 r3]; [discriminate|]. cbn [app]. destruct (negb (is_digit c3)); [discriminate|].
    destruct (sym_dec_max <? _); [discriminate|]. intros E; injection E as <- <-. reflexivity.
  - destruct (255 <? c1); [discriminate|]. destruct (_ || _); [discriminate|].
    intros E; injection E as <- <-. reflexivity.
Qed.

(* the finite table obligation: for each of the 256 octets, the displayed form
   (whatever escape set and ranges T1 extracted) is read back as exactly one
   symbol that stands for the octet and is neither the label separator nor the
   binary-label marker.  Checked by computation, so a change of the escape set
   in the Rust source re-checks itself. *)
Definition outcome_is (o : outcome N) (b : N) : bool :=
  match o with Ok x => x =? b | _ => false end.

Definition display_octet_ok (b : N) : bool :=
  match sym_next (display_octet b) with
  | Ok (Some (s, [])) =>
      outcome_is (into_octet s) b && negb (is_char s sym_dot) && negb (is_simple s sym_bracket)
  | _ => false
  end.

Definition all_octets : list N := map N.of_nat (seq 0 256).

Lemma display_table : forallb display_octet_ok all_octets = true.
Proof. vm_compute. reflexivity. Qed.

Lemma in_all_octets b : b < 256 -> In b all_octets.
Proof.
  intros H. unfold all_octets. apply in_map_iff. exists (N.to_nat b). split; [apply N2Nat.id|].
  apply in_seq. lia.
Qed.

(* every displayed octet is read back as one symbol that stands for the octet
   and is neither the label separator nor the binary-label marker *)
Lemma sym_display_octet b rest : b < 256 ->
  exists s, sym_next (display_octet b ++ rest) = Ok (Some (s, rest)) /\ into_octet s = Ok b /\
            is_char s sym_dot = false /\ is_simple s sym_bracket = false.
Proof.
  intros Hb. pose proof display_table as T. rewrite forallb_forall in T.
  specialize (T b (in_all_octets b Hb)). unfold display_octet_ok in T.
  destruct (sym_next (display_octet b)) as [[[s [|x r]]|]|e|p|] eqn:E; try discriminate.
  apply andb_true_iff in T as [T T3]. apply andb_true_iff in T as [T1 T2].
  exists s. split; [apply (sym_next_app _ _ _ rest) in E; exact E|].
  split; [|split; [apply negb_true_iff; exact T2|apply negb_true_iff; exact T3]].
  unfold outcome_is in T1. destruct (into_octet s) as [o|e|p|]; try discriminate.
  apply N.eqb_eq in T1. subst o. reflexivity.
Qed.

Lemma display_octet_nonempty b : (1 <= length (display_octet b))%nat.
Proof.
  unfold display_octet. destruct (existsb _ _); [cbn; lia|].
  destruct (negb _); cbn; lia.
Qed.

(* the abstract builder with `c` as the content of the open label ([] = none) *)
Definition mkopen (cl : name) (c : bytes) : astate :=
  mk_a cl (match c with [] => None | _ => Some c end).

Lemma push_mkopen cl c b : (length c < 63)%nat -> (wire_len cl + length c + 2 <= 254)%nat ->
  a_push None (mkopen cl c) b = (mkopen cl (c ++ [b]), Ok tt).
Proof.
  intros H1 H2. unfold a_push, mkopen, alen, fits. cbn [closed opn].
  destruct c as [|x c'].
  - cbn [app]. destruct (Nat.leb_spec 254 (wire_len cl + 0)); [lia|].
    destruct (Nat.leb_spec 253 (wire_len cl + 0)); [cbn [length] in *; lia|]. reflexivity.
  - destruct (Nat.leb_spec 254 (wire_len cl + S (length (x :: c')))); [lia|].
    destruct (Nat.leb_spec 63 (length (x :: c'))); [lia|]. reflexivity.
Qed.

Lemma awf_mkopen cl c : Forall valid_label cl -> (length c <= 63)%nat -> wf_bytes c -> awf (mkopen cl c).
Proof.
  intros H1 H2 H3. split; [exact H1|]. unfold mkopen. cbn [opn].
  destruct c; [exact I|]. split; [cbn [length] in *; lia|exact H3].
Qed.

(* reading the displayed form of the octets l into the open label *)
Lemma text_label cl l : forall c st fuel rest,
  Forall valid_label cl -> wf_bytes c -> wf_bytes l -> repr (mkopen cl c) st ->
  (length c + length l <= 63)%nat -> (wire_len cl + length c + length l + 1 <= 254)%nat ->
  (length (display_label l ++ rest) < fuel)%nat ->
  exists fuel' st', append_syms fuel None st (display_label l ++ rest) = append_syms fuel' None st' rest /\
    (length rest < fuel')%nat /\ repr (mkopen cl (c ++ l)) st'.
Proof.
  induction l as [|b l IH]; intros c st fuel rest Hcl Hc Hl Hr B1 B2 Hf.
  - exists fuel, st. rewrite app_nil_r. cbn [display_label flat_map app] in *. auto.
  - inversion Hl as [|? ? Hb Hl']; subst. cbn [length] in *.
    destruct fuel as [|f]; [lia|].
    unfold display_label in *. cbn [flat_map] in *. rewrite <- app_assoc in *.
    destruct (sym_display_octet b (flat_map display_octet l ++ rest) Hb) as (s & S1 & S2 & S3 & S4).
    cbn [append_syms]. rewrite S1. unfold push_symbol. rewrite S3, S4. cbn [andb]. rewrite S2.
    assert (Hw : awf (mkopen cl c)) by (apply awf_mkopen; auto; lia).
    destruct (push_refines None _ st b Hw Hr Hb) as (R1 & R2 & _ & _).
    rewrite push_mkopen in R1, R2 by lia. cbn [fst snd] in R1, R2.
    destruct (b_push None st b) as [st1 r1]. cbn [fst snd] in R1, R2. subst r1.
    pose proof (display_octet_nonempty b) as Hne. rewrite app_length in Hf.
    destruct (IH (c ++ [b]) st1 f rest Hcl) as (fuel' & st' & E & F & R); auto.
    + apply wf_bytes_app. split; auto. repeat constructor. exact Hb.
    + rewrite app_length. cbn [length]. lia.
    + rewrite app_length. cbn [length]. lia.
    + lia.
    + exists fuel', st'. rewrite <- app_assoc in R. cbn [app] in R. auto.
Qed.

Definition tail_text (more : name) : list N :=
  match more with [] => [] | _ => sym_dot :: display_labels more end.

Lemma display_labels_cons m ms : display_labels (m :: ms) = display_label m ++ tail_text ms.
Proof. destruct ms; cbn [display_labels tail_text]; [rewrite app_nil_r|]; reflexivity. Qed.

Lemma text_names more : forall cl c l st fuel,
  Forall valid_label cl -> valid_label (c ++ l) -> wf_bytes c -> wf_bytes l -> Forall valid_label more ->
  (wire_len (cl ++ (c ++ l) :: more) <= 254)%nat -> repr (mkopen cl c) st ->
  (length (display_label l ++ tail_text more) < fuel)%nat ->
  exists st', append_syms fuel None st (display_label l ++ tail_text more) = Ok (st', None) /\
              b_into_name None st' = Ok (wire_abs (cl ++ (c ++ l) :: more)) /\
              b_finish st' = Ok (wire_rel (cl ++ (c ++ l) :: more)) /\ in_label st' = true.
Proof.
  induction more as [|m ms IH]; intros cl c l st fuel Hcl [[V1 V2] V3] Hc Hl Hm Hlen Hr Hf;
    rewrite wire_len_app in Hlen; cbn [wire_len] in Hlen; rewrite app_length in V1, V2, Hlen.
  - destruct (text_label cl l c st fuel [] Hcl Hc Hl Hr) as (fuel' & st' & E & F & R); try lia; auto.
    cbn [tail_text]. rewrite E. destruct fuel' as [|f']; [cbn in F; lia|]. cbn [append_syms sym_next].
    exists st'. split; [reflexivity|].
    assert (Hv : avalid (mkopen cl (c ++ l))).
    { split.
      - apply awf_mkopen; [exact Hcl|rewrite app_length; lia|apply wf_bytes_app; auto].
      - unfold alen, mkopen. cbn [closed opn]. destruct (c ++ l) eqn:El; [lia|]. rewrite <- El, app_length. lia. }
    destruct (into_name_spec None _ st' Hv R) as (H1 & _ & _). rewrite H1. cbn [fits].
    destruct (finish_spec _ st' Hv R) as (H2 & _). rewrite H2.
    assert (Hfn : final_name (mkopen cl (c ++ l)) = cl ++ [c ++ l]).
    { unfold final_name, aend, mkopen. cbn [closed opn].
      destruct (c ++ l) eqn:El; [apply (f_equal (@length N)) in El; rewrite app_length in El; cbn [length] in El; lia|]. reflexivity. }
    rewrite Hfn. split; [reflexivity|]. split; [reflexivity|].
    unfold in_label. rewrite (repr_head _ _ R). unfold mkopen. cbn [opn].
    destruct (c ++ l) eqn:El; [apply (f_equal (@length N)) in El; rewrite app_length in El; cbn [length] in El; lia|]. reflexivity.
  - inversion Hm as [|? ? Hm1 Hm2]; subst. cbn [wire_len] in Hlen.
    set (rest := tail_text (m :: ms)) in *.
    destruct (text_label cl l c st fuel rest Hcl Hc Hl Hr) as (fuel' & st' & E & F & R); try lia; auto.
    rewrite E. subst rest. cbn [tail_text] in *. destruct fuel' as [|f']; [lia|].
    cbn [append_syms]. unfold sym_next at 1, backslash, sym_dot.
    change (46 =? 92) with false. cbn [negb]. unfold push_symbol, is_char, sym_dot.
    change (46 =? 46) with true.
    assert (Hw : awf (mkopen cl (c ++ l))).
    { apply awf_mkopen; [exact Hcl|rewrite app_length; lia|apply wf_bytes_app; auto]. }
    assert (Hin : in_label st' = true).
    { unfold in_label. rewrite (repr_head _ _ R). unfold mkopen. cbn [opn].
      destruct (c ++ l) eqn:El; [apply (f_equal (@length N)) in El; rewrite app_length in El; cbn [length] in El; lia|]. reflexivity. }
    rewrite Hin. cbn [negb].
    destruct (end_ok _ st' Hw R) as (st2 & E2 & R2). rewrite E2.
    assert (Ha : aend (mkopen cl (c ++ l)) = mkopen (cl ++ [c ++ l]) []).
    { unfold aend, mkopen. cbn [closed opn]. destruct (c ++ l) eqn:El; [apply (f_equal (@length N)) in El; rewrite app_length in El; cbn [length] in El; lia|]. reflexivity. }
    rewrite Ha in R2. destruct Hm1 as [[M1 M2] M3].
    rewrite display_labels_cons.
    destruct (IH (cl ++ [c ++ l]) [] m st2 f') as (st3 & E3 & I3 & F3 & L3); auto.
    + apply Forall_app. split; [exact Hcl|]. constructor; [|constructor].
      split; [rewrite app_length; lia|apply wf_bytes_app; auto].
    + cbn [app]. repeat split; auto.
    + constructor.
    + rewrite wire_len_app. cbn [wire_len app]. rewrite wire_len_app. cbn [wire_len]. rewrite app_length. lia.
    + rewrite display_labels_cons in F. cbn [length] in F. lia.
    + exists st3. split; [exact E3|]. rewrite I3, F3. rewrite <- app_assoc. auto.
Qed.

Theorem display_parse_roundtrip n : valid_abs n ->
  name_from_chars None (display_name n) = Ok (wire_abs n).
Proof.
  intros [Hv Hl]. destruct n as [|l n']; [reflexivity|].
  inversion Hv as [|? ? [[L1 L2] L3] Hv']; subst.
  destruct l as [|b0 l']; [cbn in L1; lia|]. inversion L3 as [|? ? Hb0 Hl']; subst.
  unfold display_name. rewrite display_labels_cons. unfold display_label at 1. cbn [flat_map].
  rewrite <- app_assoc. fold (display_label l').
  destruct (sym_display_octet b0 (display_label l' ++ tail_text n') Hb0) as (s & S1 & S2 & S3 & S4).
  unfold name_from_chars. rewrite S1, S3. unfold push_symbol. rewrite S3, S4. cbn [andb]. rewrite S2.
  destruct (push_refines None a_init b_init b0 awf_init repr_init Hb0) as (R1 & R2 & _ & _).
  change a_init with (mkopen [] []) in R1, R2. rewrite push_mkopen in R1, R2 by (cbn; lia).
  cbn [fst snd app] in R1, R2. destruct (b_push None b_init b0) as [st1 r1]. cbn [fst snd] in R1, R2. subst r1.
  cbn [wire_len length] in *.
  assert (P1 : Forall valid_label (@nil label)) by constructor.
  assert (P2 : valid_label ([b0] ++ l')) by (cbn [app]; repeat split; auto).
  assert (P3 : wf_bytes [b0]) by (repeat constructor; exact Hb0).
  assert (P4 : (wire_len ([] ++ ([b0] ++ l') :: n') <= 254)%nat) by (cbn [app wire_len length]; lia).
  assert (P5 : (length (display_label l' ++ tail_text n') < S (length (display_label l' ++ tail_text n')))%nat) by lia.
  destruct (text_names n' [] [b0] l' st1 _ P1 P2 P3 Hl' Hv' P4 R1 P5) as (st' & E & I & _ & _).
  rewrite E. unfold kept. cbn [app] in I. rewrite I. reflexivity.
Qed.

(* Display for RelativeName and back through RelativeName::from_chars *)
Definition display_rel (n : name) : list N := display_labels n.

Theorem display_parse_roundtrip_rel n : valid_rel n ->
  rel_from_chars None (display_rel n) = Ok (wire_rel n).
Proof.
  intros [Hv Hl]. unfold rel_from_chars, display_rel. destruct n as [|l n']; [reflexivity|].
  inversion Hv as [|? ? [[L1 L2] L3] Hv']; subst. rewrite display_labels_cons.
  assert (P1 : Forall valid_label (@nil label)) by constructor.
  assert (P2 : valid_label ([] ++ l)) by (cbn [app]; repeat split; auto).
  assert (P3 : wf_bytes []) by constructor.
  assert (P4 : (wire_len ([] ++ ([] ++ l) :: n') <= 254)%nat) by (cbn [app]; exact Hl).
  assert (R0 : repr (mkopen [] []) b_init) by reflexivity.
  destruct (text_names n' [] [] l b_init (S (length (display_label l ++ tail_text n'))) P1 P2 P3 L3 Hv' P4 R0 ltac:(lia))
    as (st' & E & _ & F & I).
  rewrite E, I. cbn [orb app] in *. exact F.
Qed.

Example display_parse_example :
  display_name [[119; 46; 32]; [0; 255; 65]]%N = [119; 92; 46; 92; 32; 46; 92; 48; 48; 48; 92; 50; 53; 53; 65]%N /\
  name_from_chars None (display_name [[119; 46; 32]; [0; 255; 65]]%N) = Ok [3; 119; 46; 32; 3; 0; 255; 65; 0]%N /\
  name_from_chars None [92; 91; 97]%N = Err T_BinaryLabel /\ name_from_chars None [97; 46; 46]%N = Err T_EmptyLabel.
Proof. vm_compute. repeat split; reflexivity. Qed.

(* ---------------------------------------------------------------- every parsed name is valid *)
Lemma sym_next_octet cs s r o : sym_next cs = Ok (Some (s, r)) -> into_octet s = Ok o ->
  o < 256 /\ (length r < length cs)%nat.
Proof.
  unfold sym_next. destruct cs as [|ch r0]; [discriminate|].
  destruct (negb (ch =? backslash)).
  { intros E; injection E as <- <-. unfold into_octet.
    destruct ((ch <? 128) && (octet_char_lo <=? ch) && (ch <=? octet_char_hi)) eqn:C; [|discriminate].
    intros E; injection E as <-. apply andb_true_iff in C as [C _]. apply andb_true_iff in C as [C _].
    apply N.ltb_lt in C. cbn [length]. split; lia. }
  destruct r0 as [|c1 r1]; [discriminate|].
  destruct (is_digit c1).
  { destruct r1 as [|c2 r2]; [discriminate|]. destruct (negb (is_digit c2)); [discriminate|].
    destruct r2 as [|c3 r3]; [discriminate|]. destruct (negb (is_digit c3)); [discriminate|].
    unfold sym_dec_max.
    destruct (N.ltb_spec 255 ((c1 - 48) * 100 + (c2 - 48) * 10 + (c3 - 48))); [discriminate|].
    intros E; injection E as <- <-. cbn [into_octet]. intros E; injection E as <-. cbn [length]. split; lia. }
  destruct (255 <? c1) eqn:C1; [discriminate|]. destruct (_ || _); [discriminate|].
  intros E; injection E as <- <-. cbn [into_octet]. intros E; injection E as <-.
  apply N.ltb_ge in C1. cbn [length]. split; lia.
Qed.

Lemma step_inv cap st o : Inv st -> wf_op o -> gap_step cap st o = false -> Inv (fst (step cap st o)).
Proof.
  intros (a & Hr & Hw & Hl) Ho Hg.
  destruct (step_refines cap a st o Hw Hr Ho) as (R1 & _ & R3 & _).
  exists (fst (a_step cap a o)). split; [exact R1|]. split; [exact R3|].
  eapply step_bound; eauto.
Qed.

Lemma inv_init : Inv b_init.
Proof. exists a_init. split; [exact repr_init|exact avalid_init]. Qed.

Lemma push_symbol_inv st s r cs st' : Inv st -> sym_next cs = Ok (Some (s, r)) ->
  push_symbol None st s = (st', Ok tt) -> Inv st'.
Proof.
  intros Hi Hs. unfold push_symbol. destruct (is_char s sym_dot).
  - destruct (negb (in_label st)); [discriminate|]. intros E.
    pose proof (step_inv None st OEnd Hi I eq_refl) as H. cbn [step] in H. rewrite E in H. exact H.
  - destruct (is_simple s sym_bracket && negb (in_label st)); [discriminate|].
    destruct (into_octet s) as [o|e|p|] eqn:Eo; try discriminate. intros E.
    destruct (sym_next_octet cs s r o Hs Eo) as [Ho _].
    pose proof (step_inv None st (OPush o) Hi Ho eq_refl) as H. cbn [step] in H. rewrite E in H. exact H.
Qed.

Lemma append_syms_inv fuel : forall st cs st' e, Inv st ->
  append_syms fuel None st cs = Ok (st', e) -> Inv st'.
Proof.
  induction fuel as [|f IH]; intros st cs st' e Hi; [discriminate|]. cbn [append_syms].
  destruct (sym_next cs) as [[[s r]|]|e0|p|] eqn:Es; try discriminate.
  - destruct (push_symbol None st s) as [st1 [[]|e1|p1|]] eqn:Ep; try discriminate.
    intros H. eapply IH; [|exact H]. eapply push_symbol_inv; eauto.
  - intros E; injection E as <- <-. exact Hi.
  - intros E; injection E as <- <-. exact Hi.
Qed.

(* Name::from_str / from_chars, RelativeName::from_chars and
   UncertainName::from_chars over a growable buffer: whatever the string, a
   returned name is valid *)
Theorem from_chars_valid cs :
  (forall w, name_from_chars None cs = Ok w -> exists n, valid_abs n /\ w = wire_abs n) /\
  (forall w, rel_from_chars None cs = Ok w -> exists n, valid_rel n /\ w = wire_rel n) /\
  (forall f w, uncertain_from_chars None cs = Ok (f, w) ->
      exists n, valid_rel n /\ w = if f then wire_abs n else wire_rel n).
Proof.
  assert (Hinto : forall st w, Inv st -> b_into_name None st = Ok w -> exists n, valid_abs n /\ w = wire_abs n).
  { intros st w (a & Hr & Hv) H. destruct (into_name_spec None a st Hv Hr) as (H1 & H2 & _).
    rewrite H1 in H. cbn [fits] in H. injection H as <-. eauto. }
  assert (Hfin : forall st w, Inv st -> b_finish st = Ok w -> exists n, valid_rel n /\ w = wire_rel n).
  { intros st w (a & Hr & Hv) H. destruct (finish_spec a st Hv Hr) as (H1 & H2).
    rewrite H1 in H. injection H as <-. eauto. }
  split; [|split].
  - intros w. unfold name_from_chars.
    destruct (sym_next cs) as [[[s r]|]|e0|p|] eqn:Es; try discriminate.
    destruct (is_char s sym_dot).
    + destruct (sym_next r) as [[[s2 r2]|]|e1|p1|]; try discriminate.
      unfold const_from_symbols_root. cbn [raw_append app]. intros E; injection E as <-. exists []. split; [|reflexivity].
      split; [constructor|cbn; lia].
    + destruct (push_symbol None b_init s) as [st1 [[]|e1|p1|]] eqn:Ep; try discriminate.
      pose proof (push_symbol_inv _ _ _ _ _ inv_init Es Ep) as Hi1.
      destruct (append_syms (S (length r)) None st1 r) as [[st2 e]|e2|p2|] eqn:Ea; try discriminate.
      pose proof (append_syms_inv _ _ _ _ _ Hi1 Ea) as Hi2.
      unfold kept. destruct (b_into_name None st2) as [w2|e3|p3|] eqn:Ei; destruct e; try discriminate.
      intros E; injection E as <-. eapply Hinto; eauto.
  - intros w. unfold rel_from_chars.
    destruct (append_syms (S (length cs)) None b_init cs) as [[st2 [e|]]|e2|p2|] eqn:Ea; try discriminate.
    pose proof (append_syms_inv _ _ _ _ _ inv_init Ea) as Hi2.
    destruct (in_label st2 || is_nil (buf st2)); [|discriminate]. intros H. eapply Hfin; eauto.
  - intros f w. unfold uncertain_from_chars.
    destruct (uncertain_from_chars_root_special && first_is_dot cs).
    { destruct (sym_next cs) as [[[s0 r0]|]|e0|p0|]; try discriminate.
      destruct (sym_next r0) as [[[s1 r1]|]|e1|p1|]; try discriminate.
      unfold const_from_symbols_root. cbn [raw_append app]. intros E; injection E as <- <-.
      exists []. split; [split; [constructor|cbn; lia]|reflexivity]. }
    unfold uncertain_from_chars_plain.
    destruct (append_syms (S (length cs)) None b_init cs) as [[st2 [e|]]|e2|p2|] eqn:Ea; try discriminate.
    pose proof (append_syms_inv _ _ _ _ _ inv_init Ea) as Hi2.
    destruct (in_label st2 || is_nil (buf st2)).
    + destruct (b_finish st2) as [w2|e3|p3|] eqn:Ef; try discriminate. cbn [bind].
      intros E; injection E as <- <-. eapply Hfin; eauto.
    + destruct (b_into_name None st2) as [w2|e3|p3|] eqn:Ef; try discriminate. cbn [bind].
      intros E; injection E as <- <-. destruct (Hinto _ _ Hi2 Ef) as (n & Hn & ->). eauto.
Qed.

(* ---------------------------------------------------------------- OwnedLabel::from_chars *)
Lemma parse_escape_octet cs il b r : parse_escape cs il = Ok (b, r) -> b < 256 /\ (length r < length cs)%nat.
Proof.
  unfold parse_escape. destruct cs as [|c1 r1]; [discriminate|].
  destruct (is_digit c1).
  - destruct r1 as [|c2 r2]; [discriminate|]. destruct (negb (is_digit c2)); [discriminate|].
    destruct r2 as [|c3 r3]; [discriminate|]. destruct (negb (is_digit c3)); [discriminate|].
    unfold escape_dec_max.
    destruct (N.ltb_spec 255 ((c1 - 48) * 100 + (c2 - 48) * 10 + (c3 - 48))); [discriminate|].
    intros E; injection E as <- <-. cbn [length]. split; lia.
  - destruct (c1 =? sym_bracket).
    + destruct il; [|discriminate]. intros E; injection E as <- <-. unfold sym_bracket. cbn [length]. split; lia.
    + intros E; injection E as <- <-. cbn [length]. split; [apply N.mod_upper_bound; discriminate|lia].
Qed.

Lemma owned_loop_valid fuel : forall cs acc l, wf_bytes acc -> (length acc <= 63)%nat ->
  owned_loop fuel cs acc = Ok l -> wf_bytes l /\ (length l <= 63)%nat.
Proof.
  induction fuel as [|f IH]; intros cs acc l Hw Hl; [discriminate|]. cbn [owned_loop].
  destruct cs as [|ch r]; [intros E; injection E as <-; auto|].
  unfold olabel_full_ge, olabel_full_lim. cbn [exceeds].
  destruct (Nat.leb_spec 63 (length acc)); [discriminate|].
  destruct (in_ranges ch olabel_plain_ranges) eqn:R.
  - apply IH; [|rewrite app_length; cbn [length]; lia].
    apply wf_bytes_app. split; [exact Hw|]. repeat constructor.
    unfold in_ranges, olabel_plain_ranges in R. cbn [existsb fst snd] in R.
    rewrite !orb_true_iff, !andb_true_iff, !N.leb_le in R. lia.
  - destruct (ch =? backslash); [|discriminate].
    destruct (parse_escape r (0 <? length acc)%nat) as [[b r']|e|p|] eqn:E; try discriminate.
    destruct (parse_escape_octet _ _ _ _ E) as [Hb _].
    apply IH; [|rewrite app_length; cbn [length]; lia].
    apply wf_bytes_app. split; [exact Hw|]. repeat constructor. exact Hb.
Qed.

(* every label OwnedLabel::from_chars returns has at most 63 octets *)
Theorem owned_label_valid cs l : owned_label_from_chars cs = Ok l -> wf_bytes l /\ (length l <= 63)%nat.
Proof. apply owned_loop_valid; [constructor|cbn; lia]. Qed.

Example owned_label_examples :
  owned_label_from_chars [119; 92; 46; 92; 48; 48; 55]%N = Ok [119; 46; 7]%N /\
  owned_label_from_chars [119; 46]%N = Err T_NonAscii /\ owned_label_from_chars [92; 91]%N = Err T_BinaryLabel /\
  owned_label_from_chars [97; 92; 91]%N = Ok [97; 91]%N /\ owned_label_from_chars (repeat 97%N 64) = Err E_LongLabel /\
  owned_label_from_chars [92; 233]%N = Ok [233]%N /\ owned_label_from_chars [92; 128512]%N = Ok [0]%N.
Proof. vm_compute. repeat split; reflexivity. Qed.

(* ---------------------------------------------------------------- serde / UncertainName *)
Theorem serde_de_rel_valid cs w : serde_de_rel None cs = Ok w -> exists n, valid_rel n /\ w = wire_rel n.
Proof.
  unfold serde_de_rel. destruct serde_rel_checks_absolute.
  - apply (proj1 (proj2 (from_chars_valid cs))).
  - destruct (append_syms (S (length cs)) None b_init cs) as [[st2 [e|]]|e2|p2|] eqn:Ea; try discriminate.
    pose proof (append_syms_inv _ _ _ _ _ inv_init Ea) as (a & Hr & Hv). intros H.
    destruct (finish_spec a st2 Hv Hr) as (H1 & H2). rewrite H1 in H. injection H as <-. eauto.
Qed.

(* reading the displayed labels and continuing with more text *)
Lemma text_names_rest more : forall cl c l st fuel rest,
  Forall valid_label cl -> valid_label (c ++ l) -> wf_bytes c -> wf_bytes l -> Forall valid_label more ->
  (wire_len (cl ++ (c ++ l) :: more) <= 254)%nat -> repr (mkopen cl c) st ->
  (length (display_label l ++ (tail_text more ++ rest)) < fuel)%nat ->
  exists fuel' st' cl' lastl, append_syms fuel None st (display_label l ++ (tail_text more ++ rest)) = append_syms fuel' None st' rest /\
    (length rest < fuel')%nat /\ cl' ++ [lastl] = cl ++ (c ++ l) :: more /\ repr (mkopen cl' lastl) st'.
Proof.
  induction more as [|m ms IH]; intros cl c l st fuel rest Hcl [[V1 V2] V3] Hc Hl Hm Hlen Hr Hf;
    rewrite wire_len_app in Hlen; cbn [wire_len] in Hlen; rewrite app_length in V1, V2, Hlen.
  - cbn [tail_text app] in *.
    destruct (text_label cl l c st fuel rest Hcl Hc Hl Hr) as (fuel' & st' & E & F & R); try lia; auto.
    exists fuel', st', cl, (c ++ l). auto.
  - inversion Hm as [|? ? Hm1 Hm2]; subst. cbn [wire_len] in Hlen.
    set (rest' := tail_text (m :: ms) ++ rest) in *.
    destruct (text_label cl l c st fuel rest' Hcl Hc Hl Hr) as (fuel' & st' & E & F & R); try lia; auto.
    rewrite E. subst rest'. cbn [tail_text app] in *. destruct fuel' as [|f']; [lia|].
    cbn [append_syms]. unfold sym_next at 1, backslash, sym_dot.
    change (46 =? 92) with false. cbn [negb]. unfold push_symbol, is_char, sym_dot.
    change (46 =? 46) with true.
    assert (Hw : awf (mkopen cl (c ++ l))).
    { apply awf_mkopen; [exact Hcl|rewrite app_length; lia|apply wf_bytes_app; auto]. }
    assert (Hin : in_label st' = true).
    { unfold in_label. rewrite (repr_head _ _ R). unfold mkopen. cbn [opn].
      destruct (c ++ l) eqn:El; [apply (f_equal (@length N)) in El; rewrite app_length in El; cbn [length] in El; lia|]. reflexivity. }
    rewrite Hin. cbn [negb].
    destruct (end_ok _ st' Hw R) as (st2 & E2 & R2). rewrite E2.
    assert (Ha : aend (mkopen cl (c ++ l)) = mkopen (cl ++ [c ++ l]) []).
    { unfold aend, mkopen. cbn [closed opn]. destruct (c ++ l) eqn:El; [apply (f_equal (@length N)) in El; rewrite app_length in El; cbn [length] in El; lia|]. reflexivity. }
    rewrite Ha in R2. destruct Hm1 as [[M1 M2] M3].
    rewrite display_labels_cons, <- app_assoc.
    destruct (IH (cl ++ [c ++ l]) [] m st2 f' rest) as (f3 & st3 & cl3 & l3 & E3 & F3 & C3 & R3); auto.
    + apply Forall_app. split; [exact Hcl|]. constructor; [|constructor].
      split; [rewrite app_length; lia|apply wf_bytes_app; auto].
    + cbn [app]. repeat split; auto.
    + constructor.
    + rewrite wire_len_app. cbn [wire_len app]. rewrite wire_len_app. cbn [wire_len]. rewrite app_length. lia.
    + rewrite display_labels_cons, <- app_assoc in F. cbn [length] in F. lia.
    + exists f3, st3, cl3, l3. split; [exact E3|]. split; [exact F3|]. split; [|exact R3].
      rewrite C3. rewrite <- app_assoc. reflexivity.
Qed.

(* Display for UncertainName and back through UncertainName::from_chars (FromStr,
   serde): a relative name always; an absolute name unless it is the root and
   the source does not special-case it *)
Lemma first_not_dot l rest : valid_label l -> first_is_dot (display_label l ++ rest) = false.
Proof.
  intros [[L1 L2] L3]. destruct l as [|b0 l']; [cbn in L1; lia|]. inversion L3; subst.
  unfold display_label. cbn [flat_map]. rewrite <- app_assoc.
  destruct (sym_display_octet b0 (flat_map display_octet l' ++ rest)) as (s & S1 & _ & S3 & _); [assumption|].
  unfold first_is_dot. rewrite S1. exact S3.
Qed.

Theorem uncertain_display_parse_roundtrip n :
  (valid_rel n -> uncertain_from_chars None (display_uncertain false n) = Ok (false, wire_rel n)) /\
  (valid_abs n -> n <> [] \/ uncertain_display_root_special && uncertain_from_chars_root_special = true ->
     uncertain_from_chars None (display_uncertain true n) = Ok (true, wire_abs n)).
Proof.
  split.
  - intros [Hv Hl]. unfold uncertain_from_chars, display_uncertain, display_relative.
    destruct n as [|l n']; [rewrite andb_false_r; reflexivity|].
    inversion Hv as [|? ? [[L1 L2] L3] Hv']; subst. rewrite display_labels_cons.
    rewrite first_not_dot by (repeat split; auto). rewrite andb_false_r. unfold uncertain_from_chars_plain.
    assert (P2 : valid_label ([] ++ l)) by (cbn [app]; repeat split; auto).
    assert (R0 : repr (mkopen [] []) b_init) by reflexivity.
    destruct (text_names n' [] [] l b_init (S (length (display_label l ++ tail_text n')))
                ltac:(constructor) P2 ltac:(constructor) L3 Hv' Hl R0 ltac:(lia)) as (st' & E & _ & F & I).
    rewrite E, I. cbn [orb app bind] in *. rewrite F. reflexivity.
  - intros [Hv Hl] Hk. unfold uncertain_from_chars, display_uncertain.
    destruct n as [|l n'].
    + destruct Hk as [Hk|Hk]; [congruence|]. apply andb_true_iff in Hk as [K1 K2]. rewrite K1, K2. reflexivity.
    + rewrite (andb_false_r uncertain_display_root_special). unfold display_name. rewrite display_labels_cons, <- app_assoc.
      inversion Hv as [|? ? [[L1 L2] L3] Hv']; subst.
      rewrite first_not_dot by (repeat split; auto). rewrite andb_false_r. unfold uncertain_from_chars_plain.
      assert (P2 : valid_label ([] ++ l)) by (cbn [app]; repeat split; auto).
      assert (R0 : repr (mkopen [] []) b_init) by reflexivity.
      destruct (text_names_rest n' [] [] l b_init (S (length (display_label l ++ (tail_text n' ++ [sym_dot])))) [sym_dot]
                  ltac:(constructor) P2 ltac:(constructor) L3 Hv' Hl R0 ltac:(lia))
        as (f' & st' & cl' & lastl & E & F & C & R).
      rewrite E. cbn [app] in C.
      assert (Hall : Forall valid_label (cl' ++ [lastl])) by (rewrite C; exact Hv).
      apply Forall_app in Hall as [Hcl' Hlast]. inversion Hlast as [|? ? [[A1 A2] A3] _]; subst.
      destruct f' as [|f2]; [cbn in F; lia|]. destruct f2 as [|f3]; [cbn in F; lia|].
      cbn [append_syms]. unfold sym_next at 1, backslash, sym_dot.
      change (46 =? 92) with false. cbn [negb]. unfold push_symbol, is_char, sym_dot.
      change (46 =? 46) with true.
      assert (Hw : awf (mkopen cl' lastl)) by (apply awf_mkopen; auto).
      assert (Hin : in_label st' = true).
      { unfold in_label. rewrite (repr_head _ _ R). unfold mkopen. cbn [opn]. destruct lastl; [cbn in A1; lia|reflexivity]. }
      rewrite Hin. cbn [negb].
      destruct (end_ok _ st' Hw R) as (st2 & E2 & R2). rewrite E2. cbn [append_syms sym_next].
      assert (Ha : aend (mkopen cl' lastl) = mk_a (l :: n') None).
      { unfold aend, mkopen. cbn [closed opn]. destruct lastl as [|x y]; [cbn in A1; lia|]. cbn [closed opn]. f_equal. exact C. }
      rewrite Ha in R2. unfold repr in R2. cbn [opn closed] in R2. subst st2.
      cbn [in_label head buf orb].
      assert (Hnil : is_nil (wire_rel (l :: n')) = false).
      { unfold wire_rel. cbn [map concat]. reflexivity. }
      rewrite Hnil.
      assert (Hav : avalid (mk_a (l :: n') None)).
      { split; [split; [exact Hv|exact I]|]. unfold alen. cbn [closed opn]. lia. }
      destruct (into_name_spec None _ (mk_b (wire_rel (l :: n')) None) Hav ltac:(reflexivity)) as (H1 & _ & _).
      rewrite H1. reflexivity.
Qed.

(* the root name as an UncertainName: displayed ".." while the source does not special-case it *)
(* the root name as an UncertainName does not read back while either site lacks its special case *)
Theorem uncertain_root_display_refuted : uncertain_display_root_special && uncertain_from_chars_root_special = false ->
  uncertain_from_chars None (display_uncertain true []) = Err T_EmptyLabel.
Proof.
  intros H. unfold display_uncertain, uncertain_from_chars. apply andb_false_iff in H as [H|H]; rewrite H.
  - destruct uncertain_from_chars_root_special; reflexivity.
  - destruct uncertain_display_root_special; reflexivity.
Qed.

Theorem serde_rel_absolute_refuted : serde_rel_checks_absolute = false ->
  serde_de_rel None [97; 46]%N = Ok [1; 97]%N /\ rel_from_chars None [97; 46]%N = Err T_AbsoluteName.
Proof. intros H. unfold serde_de_rel. rewrite H. split; reflexivity. Qed.

(* both special cases are in the source (T1): the round trip holds for every name, the root included *)
Theorem uncertain_display_parse_roundtrip_full n : valid_abs n ->
  uncertain_from_chars None (display_uncertain true n) = Ok (true, wire_abs n) /\
  uncertain_from_chars None (display_uncertain false n) = Ok (false, wire_rel n).
Proof.
  intros Hv. destruct (uncertain_display_parse_roundtrip n) as [H1 H2]. split; [|apply H1; exact Hv].
  apply H2; [exact Hv|]. right. reflexivity.
Qed.
