From Coq Require Import Extraction ExtrOcamlBasic NArith.
From DV Require Import Base.Outcome C18.Gen C18.Model C18.ModelName.
Extraction Language OCaml.
Extraction "../build/ml/C18/model.ml" c18_enc64 c18_enc32 c18_enc16 c18_dec64 c18_dec32 c18_dec16
  c18_push64 c18_push32 c18_push16 c18_deccap64 c18_deccap32 c18_deccap16
  c18_pushcap64 c18_pushcap32 c18_pushcap16 c18_tok64 c18_tok32 c18_tok16 c18_ent64 c18_ent32 c18_ent16
  c18_soct c18_scstr c18_sstr c18_sascii c18_scent c18_ssym c18_sesym c18_smark c18_encw64 c18_encw16 c18_encw32
  c18_serc c18_saltcd c18_hashcd
  c18_sname
  c18_saltstr c18_saltdisp c18_saltscan c18_hashstr c18_hashdisp c18_hashscan c18_conv64 c18_conv32 c18_conv16
  c18_spec_enc64 c18_spec_enc32 c18_spec_enc16 c18_spec_dec64 c18_spec_dec32 c18_spec_dec16.
