(* C18 proofs, part 15: IterScanner::scan_name with the name syntax taken from
   the C03 development.  scan_name = Name::from_symbols(&mut symbols) followed
   by symbols.ok(), which is Symbols::with(chars, from_symbols) = C03's
   name_from_chars; so the abstract from_symbols of scan_name_with is
   discharged: a token with a malformed escape is refused. *)
From Coq Require Import NArith List Bool Lia ZArith.
From Coq Require Import ZifyN ZifyBool ZifyNat.
Import ListNotations.
From DV Require Import Base.Outcome C18.Gen C18.Model C18.ModelName C18.ProofsUsers.
From DV Require C03.Gen C03.Model C03.ModelText.
Local Open Scope N_scope.
Ltac Zify.zify_post_hook ::= Z.div_mod_to_equations.

(* C03's Symbol::from_chars step and this development's `symbols` read the same
   escape syntax *)
Lemma sym_next_ok cs :
  match C03.ModelText.sym_next cs with
  | Err _ => snd (symbols cs) = false
  | Ok None => cs = []
  | Ok (Some (_, rest)) => snd (symbols cs) = snd (symbols rest) /\ (length rest < length cs)%nat
  | _ => False
  end.
Proof.
  unfold C03.ModelText.sym_next, C03.ModelText.backslash, C03.ModelText.is_digit.
  cbv [C03.Gen.sym_dec_max C03.Gen.sym_simple_lo C03.Gen.sym_simple_hi].
  destruct cs as [|c r]; [reflexivity|]. cbn [symbols]. unfold is_digit.
  change sym_decimal_max with 255. change sym_simple_min with 32. change sym_simple_max with 126.
  destruct (negb (c =? 92)).
  { destruct (symbols r). cbn [snd length]. split; [reflexivity|lia]. }
  destruct r as [|d1 r1]; [reflexivity|].
  destruct ((48 <=? d1) && (d1 <=? 57)).
  - destruct r1 as [|d2 r2]; [reflexivity|].
    destruct ((48 <=? d2) && (d2 <=? 57)); cbn [negb]; [|reflexivity].
    destruct r2 as [|d3 r3]; [reflexivity|].
    destruct ((48 <=? d3) && (d3 <=? 57)); cbn [negb]; [|reflexivity].
    destruct (255 <? (d1 - 48) * 100 + (d2 - 48) * 10 + (d3 - 48)); [reflexivity|].
    destruct (symbols r3). cbn [snd length]. split; [reflexivity|lia].
  - destruct (255 <? d1); [reflexivity|].
    destruct ((d1 <? 32) || (126 <? d1)); [reflexivity|].
    destruct (symbols r1). cbn [snd length]. split; [reflexivity|lia].
Qed.

Lemma append_syms_kept fuel : forall cap st cs st' e,
  C03.ModelText.append_syms fuel cap st cs = Ok (st', e) -> e = None -> snd (symbols cs) = true.
Proof.
  induction fuel as [|f IH]; intros cap st cs st' e H En; cbn [C03.ModelText.append_syms] in H; [discriminate|].
  pose proof (sym_next_ok cs) as S.
  destruct (C03.ModelText.sym_next cs) as [[[y rest]|]|e0| |]; try contradiction.
  - destruct S as [S _]. rewrite S.
    destruct (C03.ModelText.push_symbol cap st y) as [st1 [u|e1|p|]]; try discriminate.
    exact (IH cap st1 rest st' e H En).
  - subst cs. reflexivity.
  - injection H as _ <-. discriminate En.
Qed.

Theorem scan_name_refuses_bad_escapes token : snd (symbols token) = false ->
  forall w, scan_name token <> Ok w.
Proof.
  intros B w H. unfold scan_name, C03.ModelText.name_from_chars in H.
  pose proof (sym_next_ok token) as Hs.
  destruct (C03.ModelText.sym_next token) as [[[first rest]|]|e0| |]; try discriminate; try contradiction.
  destruct Hs as [Hs _]. rewrite Hs in B.
  destruct (C03.ModelText.is_char first C03.Gen.sym_dot).
  - pose proof (sym_next_ok rest) as S2.
    destruct (C03.ModelText.sym_next rest) as [[[y r2]|]|e1| |]; try discriminate; try contradiction;
      try (destruct (C03.Model.raw_append None [] [0]); discriminate).
    subst rest. discriminate B.
  - destruct (C03.ModelText.push_symbol None C03.Model.b_init first) as [st [u|e1|p|]]; try discriminate.
    destruct (C03.ModelText.append_syms (S (length rest)) None st rest) as [[st' e]| | |] eqn:A; try discriminate.
    destruct e as [e|].
    + unfold C03.ModelText.kept in H. destruct (C03.Model.b_into_name None st'); discriminate.
    + rewrite (append_syms_kept _ _ _ _ _ _ A eq_refl) in B. discriminate.
Qed.

(* that an accepted token is a valid absolute name is C03's theorem
   from_chars_valid about the same function name_from_chars *)

Example scan_name_examples :
  scan_name [119; 46; 99; 46] = Ok [1; 119; 1; 99; 0] /\
  (forall w, scan_name [119; 46; 99; 92] <> Ok w) /\ (forall w, scan_name [119; 92; 51; 48; 48; 46] <> Ok w).
Proof.
  split; [vm_compute; reflexivity|]. split; apply scan_name_refuses_bad_escapes; vm_compute; reflexivity.
Qed.
