(* C18 proofs, widening round 5: corollaries at property level.
   - rejection is exactly non-membership of the grammar, for Base32hex / Base16
     (Base64 has it in ProofsGrammar);
   - the encoders are injective and their output is in the grammar;
   - the per-push Decoder API over ANY list of chunks (n-ary chunking);
   - decode is not injective: left-over bits / letter case are ignored (the
     assumption recorded in tools/meta/C18.json), with concrete witnesses. *)
From Coq Require Import NArith List Bool Lia.
Import ListNotations.
From DV Require Import Base.Outcome C18.Gen C18.Model C18.Proofs C18.ProofsEnc C18.ProofsSpec
  C18.ProofsDec64 C18.ProofsDec32 C18.ProofsApi C18.ProofsGrammar.
Local Open Scope N_scope.

(* ------------------------------------------------ rejection = not grammar *)

Theorem b32_rejects_iff_not_grammar s :
  (exists e, b32_decode s = Err e) <-> ~ wf_unpadded 5 val32 s.
Proof.
  split.
  - intros [e E] W.
    assert (H : b32_decode s = Ok (octets_unpadded 5 val32 s))
      by (apply b32_accepts_iff_grammar; split; [exact W|reflexivity]).
    rewrite H in E. discriminate.
  - intros NW. destruct (b32_decode_total s) as [NP _].
    destruct (b32_decode s) as [bs|e|p|] eqn:E.
    + exfalso. apply NW. apply b32_accepts_iff_grammar in E. exact (proj1 E).
    + exists e. reflexivity.
    + destruct NP.
    + destruct NP.
Qed.

Theorem b16_rejects_iff_not_grammar s :
  (exists e, b16_decode s = Err e) <-> ~ wf_unpadded 4 val16 s.
Proof.
  split.
  - intros [e E] W.
    assert (H : b16_decode s = Ok (octets_unpadded 4 val16 s))
      by (apply b16_accepts_iff_grammar; split; [exact W|reflexivity]).
    rewrite H in E. discriminate.
  - intros NW. destruct (b16_decode_total s) as [NP _].
    destruct (b16_decode s) as [bs|e|p|] eqn:E.
    + exfalso. apply NW. apply b16_accepts_iff_grammar in E. exact (proj1 E).
    + exists e. reflexivity.
    + destruct NP.
    + destruct NP.
Qed.

Example b32_rejects_dangling : exists e, b32_decode [48] = Err e.
Proof. vm_compute. eexists. reflexivity. Qed.
Example b16_rejects_dangling : exists e, b16_decode [48] = Err e.
Proof. vm_compute. eexists. reflexivity. Qed.

(* ------------------------------------------------ encoders are injective *)

Theorem encoders_injective a b : octets a -> octets b ->
  (b64_display a = b64_display b -> a = b) /\
  (b32_display a = b32_display b -> a = b) /\
  (b16_display a = b16_display b -> a = b).
Proof.
  intros Ha Hb. repeat split; intros E.
  - destruct (b64_decode_encode a Ha) as [ta [Da Ra]]. destruct (b64_decode_encode b Hb) as [tb [Db Rb]].
    rewrite Da, Db in E. injection E as E. subst tb. rewrite Ra in Rb. injection Rb as Rb. exact Rb.
  - destruct (b32_decode_encode a Ha) as [ta [Da Ra]]. destruct (b32_decode_encode b Hb) as [tb [Db Rb]].
    rewrite Da, Db in E. injection E as E. subst tb. rewrite Ra in Rb. injection Rb as Rb. exact Rb.
  - destruct (b16_decode_encode a Ha) as [ta [Da Ra]]. destruct (b16_decode_encode b Hb) as [tb [Db Rb]].
    rewrite Da, Db in E. injection E as E. subst tb. rewrite Ra in Rb. injection Rb as Rb. exact Rb.
Qed.

Example encoders_distinguish : b64_display [0] <> b64_display [0; 0].
Proof. vm_compute. discriminate. Qed.

(* ------------------------------------- encoder output is in the grammar *)

Theorem encoded_is_wellformed bs : octets bs ->
  (exists t, b64_display bs = Ok t /\ wf64 t /\ octets64 t = bs) /\
  (exists t, b32_display bs = Ok t /\ wf_unpadded 5 val32 t /\ octets_unpadded 5 val32 t = bs) /\
  (exists t, b16_display bs = Ok t /\ wf_unpadded 4 val16 t /\ octets_unpadded 4 val16 t = bs).
Proof.
  intros H. repeat split.
  - destruct (b64_decode_encode bs H) as [t [D R]]. exists t. split; [exact D|].
    apply b64_accepts_iff_grammar in R. destruct R as [W V]. split; [exact W|symmetry; exact V].
  - destruct (b32_decode_encode bs H) as [t [D R]]. exists t. split; [exact D|].
    apply b32_accepts_iff_grammar in R. destruct R as [W V]. split; [exact W|symmetry; exact V].
  - destruct (b16_decode_encode bs H) as [t [D R]]. exists t. split; [exact D|].
    apply b16_accepts_iff_grammar in R. destruct R as [W V]. split; [exact W|symmetry; exact V].
Qed.

Example encoded_is_wellformed_ex : exists t, b64_display [102] = Ok t /\ t = [90; 103; 61; 61].
Proof. eexists. split; vm_compute; reflexivity. Qed.

(* --------------------------------------------------- n-ary chunking (API) *)

Fixpoint runs_list {D} (run : D -> list N -> list (option N) * outcome D) (d : D)
    (chunks : list (list N)) : list (option N) * outcome D :=
  match chunks with
  | [] => ([], Ok d)
  | c :: r =>
      let '(ta, fa) := run d c in
      match fa with
      | Ok d' => let '(tb, fb) := runs_list run d' r in (ta ++ tb, fb)
      | _ => (ta, fa)
      end
  end.

Lemma runs_list_concat {D} (run : D -> list N -> list (option N) * outcome D) :
  (forall d, run d [] = ([], Ok d)) ->
  (forall a b d, run d (a ++ b) = seq_runs run d a b) ->
  forall chunks d, run d (concat chunks) = runs_list run d chunks.
Proof.
  intros Hnil Happ chunks. induction chunks as [|c r IH]; intros d.
  - cbn [concat runs_list]. apply Hnil.
  - cbn [concat runs_list]. rewrite Happ. unfold seq_runs.
    destruct (run d c) as [ta fa]. destruct fa as [d'|e|p|]; try reflexivity.
    rewrite IH. reflexivity.
Qed.

Theorem push_chunks_independent chunks :
  (forall sticky d, b64_run_with sticky d (concat chunks) = runs_list (b64_run_with sticky) d chunks) /\
  (forall d, b32_run d (concat chunks) = runs_list b32_run d chunks) /\
  (forall d, b16_run d (concat chunks) = runs_list b16_run d chunks).
Proof.
  repeat split; intros.
  - apply runs_list_concat; [reflexivity|]. intros a b d0. apply b64_chunk_independent.
  - apply runs_list_concat; [reflexivity|]. intros a b d0. apply b32_chunk_independent.
  - apply runs_list_concat; [reflexivity|]. intros a b d0. apply b16_chunk_independent.
Qed.

(* two chunkings of the same text give the same pushes and the same decoder *)
Theorem push_rechunk_independent c1 c2 : concat c1 = concat c2 ->
  (forall sticky d, runs_list (b64_run_with sticky) d c1 = runs_list (b64_run_with sticky) d c2) /\
  (forall d, runs_list b32_run d c1 = runs_list b32_run d c2) /\
  (forall d, runs_list b16_run d c1 = runs_list b16_run d c2).
Proof.
  intros E. destruct (push_chunks_independent c1) as [A1 [B1 C1]].
  destruct (push_chunks_independent c2) as [A2 [B2 C2]].
  repeat split; intros.
  - rewrite <- A1, <- A2, E. reflexivity.
  - rewrite <- B1, <- B2, E. reflexivity.
  - rewrite <- C1, <- C2, E. reflexivity.
Qed.

Example runs_list_ex :
  fst (runs_list b16_run b16_new [[52]; []; [49; 52]; [50]]) = fst (b16_run b16_new [52; 49; 52; 50]).
Proof. vm_compute. reflexivity. Qed.

(* ----------------------- decode is not injective: ignored bits and case *)

Theorem decode_not_injective :
  (exists s1 s2 bs, s1 <> s2 /\ b64_decode s1 = Ok bs /\ b64_decode s2 = Ok bs) /\
  (exists s1 s2 bs, s1 <> s2 /\ b32_decode s1 = Ok bs /\ b32_decode s2 = Ok bs) /\
  (exists s1 s2 bs, s1 <> s2 /\ b16_decode s1 = Ok bs /\ b16_decode s2 = Ok bs).
Proof.
  split; [|split].
  - (* "QQ==" and "QR==": the four left-over bits are not checked *)
    exists [81; 81; 61; 61], [81; 82; 61; 61], [65].
    split; [discriminate|]. split; vm_compute; reflexivity.
  - (* "84" and "85": the two left-over bits are not checked *)
    exists [56; 52], [56; 53], [65].
    split; [discriminate|]. split; vm_compute; reflexivity.
  - (* "4a" and "4A": either case *)
    exists [52; 97], [52; 65], [74].
    split; [discriminate|]. split; vm_compute; reflexivity.
Qed.

(* ------------------------- accepted text always yields octets (< 256) *)

Lemma bits_val8_octet a b c d e f g h : octet (bits_val [a; b; c; d; e; f; g; h]).
Proof. destruct a, b, c, d, e, f, g, h; vm_compute; reflexivity. Qed.

Lemma take_octets_octets_n n : forall l, (length l <= n)%nat -> octets (take_octets l).
Proof.
  induction n as [|n IH]; intros l L.
  - destruct l; [constructor|cbn [length] in L; lia].
  - destruct l as [|a [|b [|c [|d [|e [|f [|g [|h r]]]]]]]]; try (cbn [take_octets]; constructor).
    + apply bits_val8_octet.
    + apply IH. cbn [length] in L. lia.
Qed.

Lemma take_octets_octets l : octets (take_octets l).
Proof. exact (take_octets_octets_n (length l) l (le_n _)). Qed.

Theorem decode_yields_octets s bs :
  (b64_decode s = Ok bs -> octets bs) /\ (b32_decode s = Ok bs -> octets bs) /\
  (b16_decode s = Ok bs -> octets bs).
Proof.
  repeat split; intros E.
  - apply b64_accepts_iff_grammar in E. destruct E as [_ ->]. unfold octets64.
    destruct (values val64 (data64 s)); [apply take_octets_octets|constructor].
  - apply b32_accepts_iff_grammar in E. destruct E as [_ ->]. unfold octets_unpadded.
    destruct (values val32 s); [apply take_octets_octets|constructor].
  - apply b16_accepts_iff_grammar in E. destruct E as [_ ->]. unfold octets_unpadded.
    destruct (values val16 s); [apply take_octets_octets|constructor].
Qed.

(* decode, re-encode, decode: every accepted text has a canonical form with the
   same octets (encode . decode is a retraction onto the encoder's image) *)
Theorem decode_reencode s bs :
  (b64_decode s = Ok bs -> exists t, b64_display bs = Ok t /\ b64_decode t = Ok bs) /\
  (b32_decode s = Ok bs -> exists t, b32_display bs = Ok t /\ b32_decode t = Ok bs) /\
  (b16_decode s = Ok bs -> exists t, b16_display bs = Ok t /\ b16_decode t = Ok bs).
Proof.
  destruct (decode_yields_octets s bs) as [A [B C]].
  repeat split; intros E.
  - apply b64_decode_encode. exact (A E).
  - apply b32_decode_encode. exact (B E).
  - apply b16_decode_encode. exact (C E).
Qed.

Example decode_reencode_ex : b64_decode [81; 82; 61; 61] = Ok [65] /\ b64_display [65] = Ok [81; 81; 61; 61].
Proof. split; vm_compute; reflexivity. Qed.

(* ------------------------------------------------------------- lengths *)
From Coq Require Import ZArith ZifyN ZifyBool ZifyNat.
Ltac Zify.zify_post_hook ::= Z.div_mod_to_equations.

Lemma take_octets_length_n n : forall l, (length l <= n)%nat ->
  length (take_octets l) = (length l / 8)%nat.
Proof.
  induction n as [|n IH]; intros l L.
  - destruct l; [reflexivity|cbn [length] in L; lia].
  - destruct l as [|a [|b [|c [|d [|e [|f [|g [|h r]]]]]]]];
      try (cbn [take_octets length]; symmetry; apply Nat.div_small; lia).
    cbn [take_octets length]. rewrite IH by (cbn [length] in L; lia). lia.
Qed.

Lemma take_octets_length l : length (take_octets l) = (length l / 8)%nat.
Proof. exact (take_octets_length_n (length l) l (le_n _)). Qed.

Lemma bits_msb_length k v : length (bits_msb k v) = k.
Proof. induction k as [|k IH]; cbn [bits_msb length]; [reflexivity|rewrite IH; reflexivity]. Qed.

Lemma flat_bits_length k vs : length (flat_map (bits_msb k) vs) = (k * length vs)%nat.
Proof.
  induction vs as [|v r IH]; cbn [flat_map length]; [lia|].
  rewrite app_length, bits_msb_length, IH. lia.
Qed.

Lemma octets_unpadded_length k val s : wf_unpadded k val s ->
  length (octets_unpadded k val s) = (k * length s / 8)%nat.
Proof.
  intros [F _]. unfold octets_unpadded. destruct (values val s) as [vs|] eqn:V.
  - rewrite take_octets_length, flat_bits_length, (values_length val s vs V). reflexivity.
  - exfalso. clear -F V. induction s as [|c r IH]; cbn [values] in V; [discriminate|].
    pose proof (Forall_inv F) as Hc. apply Forall_inv_tail in F.
    cbv beta in Hc. destruct (val c) eqn:Ec; [|apply Hc; reflexivity].
    destruct (values val r); [discriminate|]. apply IH; [exact F|reflexivity].
Qed.

Theorem decoded_length_unpadded s bs :
  (b32_decode s = Ok bs -> length bs = (5 * length s / 8)%nat /\ (Nat.modulo (5 * length s) 8 < 5)%nat) /\
  (b16_decode s = Ok bs -> length s = (2 * length bs)%nat).
Proof.
  split; intros E.
  - apply b32_accepts_iff_grammar in E. destruct E as [W ->]. split.
    + apply octets_unpadded_length. exact W.
    + exact (proj2 W).
  - apply b16_accepts_iff_grammar in E. destruct E as [W ->].
    rewrite (octets_unpadded_length 4 val16 s W). destruct W as [_ M]. lia.
Qed.

Theorem encoded_length_unpadded bs t : octets bs ->
  (b32_display bs = Ok t -> length t = ((8 * length bs + 4) / 5)%nat) /\
  (b16_display bs = Ok t -> length t = (2 * length bs)%nat).
Proof.
  intros H. split; intros D.
  - destruct (b32_decode_encode bs H) as [t' [D' R]]. rewrite D in D'. injection D' as <-.
    destruct (decoded_length_unpadded t bs) as [A _]. destruct (A R) as [L M]. lia.
  - destruct (b16_decode_encode bs H) as [t' [D' R]]. rewrite D in D'. injection D' as <-.
    destruct (decoded_length_unpadded t bs) as [_ A]. exact (A R).
Qed.

Example encoded_length_ex : b32_display [1; 2; 3] = Ok [48; 52; 49; 48; 54] /\ ((8 * 3 + 4) / 5 = 5)%nat.
Proof. split; vm_compute; reflexivity. Qed.

(* Base64: accepted text is a whole number of 4-character quanta *)
Lemma wf64_length s : wf64 s -> (Nat.modulo (length s) 4 = 0)%nat.
Proof.
  induction 1 as [|a b c d r Ha Hb Hc Hd W IH| |]; try reflexivity.
  cbn [length]. lia.
Qed.

Theorem b64_decoded_length s bs : b64_decode s = Ok bs ->
  (Nat.modulo (length s) 4 = 0)%nat /\ length bs = (6 * length (data64 s) / 8)%nat.
Proof.
  intros E. apply b64_accepts_iff_grammar in E. destruct E as [W ->]. split.
  - exact (wf64_length s W).
  - unfold octets64. destruct (values val64 (data64 s)) as [vs|] eqn:V.
    + rewrite take_octets_length, flat_bits_length, (values_length val64 _ vs V). reflexivity.
    + exfalso. induction W as [|a b c d r Ha Hb Hc Hd W IH|a b c Ha Hb Hc|a b Ha Hb];
        unfold data64 in V; cbn [filter] in V.
      * discriminate.
      * rewrite (in64_not_pad a Ha), (in64_not_pad b Hb), (in64_not_pad c Hc), (in64_not_pad d Hd) in V.
        cbn [negb values] in V.
        destruct (in64_some a Ha) as [va Ea]. destruct (in64_some b Hb) as [vb Eb].
        destruct (in64_some c Hc) as [vc Ec]. destruct (in64_some d Hd) as [vd Ed].
        rewrite Ea, Eb, Ec, Ed in V. fold (data64 r) in V. destruct (values val64 (data64 r)); [discriminate|]. apply IH. reflexivity.
      * rewrite (in64_not_pad a Ha), (in64_not_pad b Hb), (in64_not_pad c Hc) in V.
        cbn [negb values N.eqb Pos.eqb filter] in V.
        destruct (in64_some a Ha) as [va Ea]. destruct (in64_some b Hb) as [vb Eb].
        destruct (in64_some c Hc) as [vc Ec]. rewrite Ea, Eb, Ec in V. vm_compute in V. discriminate.
      * rewrite (in64_not_pad a Ha), (in64_not_pad b Hb) in V.
        cbn [negb values N.eqb Pos.eqb filter] in V.
        destruct (in64_some a Ha) as [va Ea]. destruct (in64_some b Hb) as [vb Eb].
        rewrite Ea, Eb in V. vm_compute in V. discriminate.
Qed.
