(* C18 proofs, part 2: the encoders are the RFC 4648 bit regrouping. *)
From Coq Require Import NArith List Bool Lia ZArith.
From Coq Require Import ZifyN ZifyBool ZifyNat.
Import ListNotations.
From DV Require Import Base.Outcome C18.Gen C18.Model C18.Proofs.
Local Open Scope N_scope.
Ltac Zify.zify_post_hook ::= Z.div_mod_to_equations.

Lemma list_ind3 {A} (P : list A -> Prop) :
  P [] -> (forall a, P [a]) -> (forall a b, P [a; b]) ->
  (forall a b c r, P r -> P (a :: b :: c :: r)) -> forall l, P l.
Proof.
  intros H0 H1 H2 H3. fix IH 1. intros [|a [|b [|c r]]];
    [exact H0|exact (H1 a)|exact (H2 a b)|exact (H3 a b c r (IH r))].
Qed.

Lemma list_ind4 {A} (P : list A -> Prop) :
  P [] -> (forall a, P [a]) -> (forall a b, P [a; b]) -> (forall a b c, P [a; b; c]) ->
  (forall a b c d r, P r -> P (a :: b :: c :: d :: r)) -> forall l, P l.
Proof.
  intros H0 H1 H2 H3 H4. fix IH 1. intros [|a [|b [|c [|d r]]]];
    [exact H0|exact (H1 a)|exact (H2 a b)|exact (H3 a b c)|exact (H4 a b c d r (IH r))].
Qed.

Lemma list_ind5 {A} (P : list A -> Prop) :
  P [] -> (forall a, P [a]) -> (forall a b, P [a; b]) -> (forall a b c, P [a; b; c]) ->
  (forall a b c d, P [a; b; c; d]) ->
  (forall a b c d e r, P r -> P (a :: b :: c :: d :: e :: r)) -> forall l, P l.
Proof.
  intros H0 H1 H2 H3 H4 H5. fix IH 1. intros [|a [|b [|c [|d [|e r]]]]];
    [exact H0|exact (H1 a)|exact (H2 a b)|exact (H3 a b c)|exact (H4 a b c d)|exact (H5 a b c d e r (IH r))].
Qed.

Notation tb := N.testbit.

Lemma bits8 c : bits_msb 8 c = [tb c 7; tb c 6; tb c 5; tb c 4; tb c 3; tb c 2; tb c 1; tb c 0].
Proof. reflexivity. Qed.

Lemma regroup6_step a b c d e f R :
  regroup 6 [] (a :: b :: c :: d :: e :: f :: R) = bits_val [a; b; c; d; e; f] :: regroup 6 [] R.
Proof. reflexivity. Qed.
Lemma regroup5_step a b c d e R :
  regroup 5 [] (a :: b :: c :: d :: e :: R) = bits_val [a; b; c; d; e] :: regroup 5 [] R.
Proof. reflexivity. Qed.
Lemma regroup4_step a b c d R :
  regroup 4 [] (a :: b :: c :: d :: R) = bits_val [a; b; c; d] :: regroup 4 [] R.
Proof. reflexivity. Qed.

(* ------------------------------------------------------------ Base64 *)

Ltac s1 a Ha := apply N.eqb_eq; sweep1_bool a Ha 256%nat.
Ltac s2 a b Ha Hb := apply N.eqb_eq; sweep2_bool a b Ha Hb 256%nat 256%nat.

Lemma e64_3_0 a b c : octet a ->
  b64_e3_0 a b c = bits_val [tb a 7; tb a 6; tb a 5; tb a 4; tb a 3; tb a 2].
Proof. intros Ha. cbv beta delta [b64_e3_0]. s1 a Ha. Qed.
Lemma e64_3_1 a b c : octet a -> octet b ->
  b64_e3_1 a b c = bits_val [tb a 1; tb a 0; tb b 7; tb b 6; tb b 5; tb b 4].
Proof. intros Ha Hb. cbv beta delta [b64_e3_1]. s2 a b Ha Hb. Qed.
Lemma e64_3_2 a b c : octet b -> octet c ->
  b64_e3_2 a b c = bits_val [tb b 3; tb b 2; tb b 1; tb b 0; tb c 7; tb c 6].
Proof. intros Hb Hc. cbv beta delta [b64_e3_2]. s2 b c Hb Hc. Qed.
Lemma e64_3_3 a b c : octet c ->
  b64_e3_3 a b c = bits_val [tb c 5; tb c 4; tb c 3; tb c 2; tb c 1; tb c 0].
Proof. intros Hc. cbv beta delta [b64_e3_3]. s1 c Hc. Qed.
Lemma e64_2_0 a b c : octet a ->
  b64_e2_0 a b c = bits_val [tb a 7; tb a 6; tb a 5; tb a 4; tb a 3; tb a 2].
Proof. intros Ha. cbv beta delta [b64_e2_0]. s1 a Ha. Qed.
Lemma e64_2_1 a b c : octet a -> octet b ->
  b64_e2_1 a b c = bits_val [tb a 1; tb a 0; tb b 7; tb b 6; tb b 5; tb b 4].
Proof. intros Ha Hb. cbv beta delta [b64_e2_1]. s2 a b Ha Hb. Qed.
Lemma e64_2_2 a b c : octet b ->
  b64_e2_2 a b c = bits_val [tb b 3; tb b 2; tb b 1; tb b 0; false; false].
Proof. intros Hb. cbv beta delta [b64_e2_2]. s1 b Hb. Qed.
Lemma e64_1_0 a b c : octet a ->
  b64_e1_0 a b c = bits_val [tb a 7; tb a 6; tb a 5; tb a 4; tb a 3; tb a 2].
Proof. intros Ha. cbv beta delta [b64_e1_0]. s1 a Ha. Qed.
Lemma e64_1_1 a b c : octet a ->
  b64_e1_1 a b c = bits_val [tb a 1; tb a 0; false; false; false; false].
Proof. intros Ha. cbv beta delta [b64_e1_1]. s1 a Ha. Qed.

Lemma b64_ch_val a b c d e f :
  b64_ch (bits_val [a; b; c; d; e; f]) = Ok (sym alpha64 (bits_val [a; b; c; d; e; f])).
Proof.
  unfold b64_ch. rewrite tab_get_sym.
  - rewrite enc_tab64_is_rfc. reflexivity.
  - pose proof (bits_val_lt6 a b c d e f). rewrite enc_tab64_is_rfc. simpl length. lia.
Qed.

Lemma mod3_step n : Nat.modulo (3 + n) 3 = Nat.modulo n 3.
Proof. lia. Qed.

Lemma spec_enc64_step a b c r :
  spec_enc64 (a :: b :: c :: r) =
  sym alpha64 (bits_val [tb a 7; tb a 6; tb a 5; tb a 4; tb a 3; tb a 2]) ::
  sym alpha64 (bits_val [tb a 1; tb a 0; tb b 7; tb b 6; tb b 5; tb b 4]) ::
  sym alpha64 (bits_val [tb b 3; tb b 2; tb b 1; tb b 0; tb c 7; tb c 6]) ::
  sym alpha64 (bits_val [tb c 5; tb c 4; tb c 3; tb c 2; tb c 1; tb c 0]) :: spec_enc64 r.
Proof.
  unfold spec_enc64, octet_bits.
  cbn [flat_map]. rewrite !bits8. cbn [app].
  rewrite !regroup6_step. cbn [map].
  change (length (a :: b :: c :: r)) with (3 + length r)%nat. rewrite mod3_step.
  reflexivity.
Qed.

Theorem b64_encode_is_rfc4648 bs : octets bs -> b64_display bs = Ok (spec_enc64 bs).
Proof.
  induction bs as [|a|a b|a b c r IH] using list_ind3; intros H.
  - reflexivity.
  - apply Forall_inv in H. cbn [b64_display].
    rewrite e64_1_0, e64_1_1 by assumption. rewrite !b64_ch_val. reflexivity.
  - pose proof (Forall_inv H) as Ha. pose proof (Forall_inv (Forall_inv_tail H)) as Hb.
    cbn [b64_display].
    rewrite e64_2_0, e64_2_1, e64_2_2 by assumption. rewrite !b64_ch_val. reflexivity.
  - pose proof (Forall_inv H) as Ha. pose proof (Forall_inv (Forall_inv_tail H)) as Hb.
    pose proof (Forall_inv (Forall_inv_tail (Forall_inv_tail H))) as Hc.
    pose proof (Forall_inv_tail (Forall_inv_tail (Forall_inv_tail H))) as Hr.
    cbn [b64_display].
    rewrite e64_3_0, e64_3_1, e64_3_2, e64_3_3 by assumption. rewrite !b64_ch_val.
    cbn [bind]. rewrite (IH Hr). cbn [bind]. rewrite spec_enc64_step. reflexivity.
Qed.

Example b64_encode_foobar :
  b64_display [102; 111; 111; 98; 97] = Ok [90; 109; 57; 118; 89; 109; 69; 61] /\
  spec_enc64 [102] = [90; 103; 61; 61].
Proof. vm_compute. auto. Qed.

(* ---------------------------------------------------------- Base32hex *)

Lemma b32_e0_spec a b c d e : octet a ->
  b32_e0 a b c d e = bits_val [tb a 7; tb a 6; tb a 5; tb a 4; tb a 3].
Proof. intros Ha. cbv beta delta [b32_e0]. s1 a Ha. Qed.
Lemma b32_e1_spec a b c d e : octet a -> octet b ->
  b32_e1 a b c d e = bits_val [tb a 2; tb a 1; tb a 0; tb b 7; tb b 6].
Proof. intros Ha Hb. cbv beta delta [b32_e1]. s2 a b Ha Hb. Qed.
Lemma b32_e2_spec a b c d e : octet b ->
  b32_e2 a b c d e = bits_val [tb b 5; tb b 4; tb b 3; tb b 2; tb b 1].
Proof. intros Hb. cbv beta delta [b32_e2]. s1 b Hb. Qed.
Lemma b32_e3_spec a b c d e : octet b -> octet c ->
  b32_e3 a b c d e = bits_val [tb b 0; tb c 7; tb c 6; tb c 5; tb c 4].
Proof. intros Hb Hc. cbv beta delta [b32_e3]. s2 b c Hb Hc. Qed.
Lemma b32_e4_spec a b c d e : octet c -> octet d ->
  b32_e4 a b c d e = bits_val [tb c 3; tb c 2; tb c 1; tb c 0; tb d 7].
Proof. intros Hc Hd. cbv beta delta [b32_e4]. s2 c d Hc Hd. Qed.
Lemma b32_e5_spec a b c d e : octet d ->
  b32_e5 a b c d e = bits_val [tb d 6; tb d 5; tb d 4; tb d 3; tb d 2].
Proof. intros Hd. cbv beta delta [b32_e5]. s1 d Hd. Qed.
Lemma b32_e6_spec a b c d e : octet d -> octet e ->
  b32_e6 a b c d e = bits_val [tb d 1; tb d 0; tb e 7; tb e 6; tb e 5].
Proof. intros Hd He. cbv beta delta [b32_e6]. s2 d e Hd He. Qed.
Lemma b32_e7_spec a b c d e : octet e ->
  b32_e7 a b c d e = bits_val [tb e 4; tb e 3; tb e 2; tb e 1; tb e 0].
Proof. intros He. cbv beta delta [b32_e7]. s1 e He. Qed.
Lemma b32_e1_last_spec a b c d e : octet a ->
  b32_e1_last a b c d e = bits_val [tb a 2; tb a 1; tb a 0; false; false].
Proof. intros Ha. cbv beta delta [b32_e1_last]. s1 a Ha. Qed.
Lemma b32_e3_last_spec a b c d e : octet b ->
  b32_e3_last a b c d e = bits_val [tb b 0; false; false; false; false].
Proof. intros Hb. cbv beta delta [b32_e3_last]. s1 b Hb. Qed.
Lemma b32_e4_last_spec a b c d e : octet c ->
  b32_e4_last a b c d e = bits_val [tb c 3; tb c 2; tb c 1; tb c 0; false].
Proof. intros Hc. cbv beta delta [b32_e4_last]. s1 c Hc. Qed.
Lemma b32_e6_last_spec a b c d e : octet d ->
  b32_e6_last a b c d e = bits_val [tb d 1; tb d 0; false; false; false].
Proof. intros Hd. cbv beta delta [b32_e6_last]. s1 d Hd. Qed.

Lemma b32_ch_val a b c d e :
  b32_ch (bits_val [a; b; c; d; e]) = Ok (sym alpha32hex (bits_val [a; b; c; d; e])).
Proof.
  unfold b32_ch. rewrite tab_get_sym.
  - rewrite enc_tab32_is_rfc. reflexivity.
  - pose proof (bits_val_lt5 a b c d e). rewrite enc_tab32_is_rfc. simpl length. lia.
Qed.

Lemma spec_enc32_step a b c d e r :
  spec_enc32 (a :: b :: c :: d :: e :: r) =
  sym alpha32hex (bits_val [tb a 7; tb a 6; tb a 5; tb a 4; tb a 3]) ::
  sym alpha32hex (bits_val [tb a 2; tb a 1; tb a 0; tb b 7; tb b 6]) ::
  sym alpha32hex (bits_val [tb b 5; tb b 4; tb b 3; tb b 2; tb b 1]) ::
  sym alpha32hex (bits_val [tb b 0; tb c 7; tb c 6; tb c 5; tb c 4]) ::
  sym alpha32hex (bits_val [tb c 3; tb c 2; tb c 1; tb c 0; tb d 7]) ::
  sym alpha32hex (bits_val [tb d 6; tb d 5; tb d 4; tb d 3; tb d 2]) ::
  sym alpha32hex (bits_val [tb d 1; tb d 0; tb e 7; tb e 6; tb e 5]) ::
  sym alpha32hex (bits_val [tb e 4; tb e 3; tb e 2; tb e 1; tb e 0]) :: spec_enc32 r.
Proof.
  unfold spec_enc32, octet_bits.
  cbn [flat_map]. rewrite !bits8. cbn [app].
  rewrite !regroup5_step. cbn [map]. reflexivity.
Qed.

Ltac inv_octets H :=
  repeat match type of H with
  | octets (_ :: _) => let Hx := fresh "Ho" in pose proof (Forall_inv H) as Hx; apply Forall_inv_tail in H
  | Forall octet (_ :: _) => let Hx := fresh "Ho" in pose proof (Forall_inv H) as Hx; apply Forall_inv_tail in H
  end.

Theorem b32_encode_is_rfc4648 bs : octets bs -> b32_display bs = Ok (spec_enc32 bs).
Proof.
  induction bs as [|a|a b|a b c|a b c d|a b c d e r IH] using list_ind5; intros H.
  - reflexivity.
  - inv_octets H. cbn [b32_display].
    rewrite b32_e0_spec, b32_e1_last_spec by assumption. rewrite !b32_ch_val. reflexivity.
  - inv_octets H. cbn [b32_display].
    rewrite b32_e0_spec, b32_e1_spec, b32_e2_spec, b32_e3_last_spec by assumption.
    rewrite !b32_ch_val. reflexivity.
  - inv_octets H. cbn [b32_display].
    rewrite b32_e0_spec, b32_e1_spec, b32_e2_spec, b32_e3_spec, b32_e4_last_spec by assumption.
    rewrite !b32_ch_val. reflexivity.
  - inv_octets H. cbn [b32_display].
    rewrite b32_e0_spec, b32_e1_spec, b32_e2_spec, b32_e3_spec, b32_e4_spec, b32_e5_spec,
      b32_e6_last_spec by assumption.
    rewrite !b32_ch_val. reflexivity.
  - inv_octets H. cbn [b32_display].
    rewrite b32_e0_spec, b32_e1_spec, b32_e2_spec, b32_e3_spec, b32_e4_spec, b32_e5_spec,
      b32_e6_spec, b32_e7_spec by assumption.
    rewrite !b32_ch_val. cbn [bind]. rewrite (IH H). cbn [bind].
    rewrite spec_enc32_step. reflexivity.
Qed.

Example b32_encode_foobar :
  b32_display [102; 111; 111; 98; 97; 114] = Ok [67; 80; 78; 77; 85; 79; 74; 49; 69; 56] /\
  spec_enc32 [102] = [67; 79].
Proof. vm_compute. auto. Qed.

(* ------------------------------------------------------------- Base16 *)

Lemma nth_error_range n c : c < N.of_nat n -> nth_error (range n) (N.to_nat c) = Some c.
Proof.
  intros H. unfold range. rewrite nth_error_map.
  rewrite (nth_error_nth' (seq 0 n) 0%nat) by (rewrite seq_length; lia).
  rewrite seq_nth by lia. cbn [option_map]. f_equal. lia.
Qed.

Lemma hi_nibble c : octet c -> c / 16 = bits_val [tb c 7; tb c 6; tb c 5; tb c 4].
Proof. intros H. s1 c H. Qed.
Lemma lo_nibble c : octet c -> c mod 16 = bits_val [tb c 3; tb c 2; tb c 1; tb c 0].
Proof. intros H. s1 c H. Qed.

Lemma spec_enc16_step c r :
  spec_enc16 (c :: r) =
  sym alpha16 (bits_val [tb c 7; tb c 6; tb c 5; tb c 4]) ::
  sym alpha16 (bits_val [tb c 3; tb c 2; tb c 1; tb c 0]) :: spec_enc16 r.
Proof.
  unfold spec_enc16, octet_bits. cbn [flat_map]. rewrite !bits8. cbn [app].
  rewrite !regroup4_step. reflexivity.
Qed.

Theorem b16_encode_is_rfc4648 bs : octets bs -> b16_display bs = Ok (spec_enc16 bs).
Proof.
  induction bs as [|c r IH]; intros H.
  - reflexivity.
  - inv_octets H. cbn [b16_display]. rewrite enc_tab16_is_rfc, nth_error_map.
    rewrite nth_error_range by exact Ho. cbn [option_map].
    rewrite (IH H). cbn [bind]. rewrite spec_enc16_step, hi_nibble, lo_nibble by assumption.
    reflexivity.
Qed.

Example b16_encode_f00f :
  b16_display [240; 15] = Ok [70; 48; 48; 70] /\ spec_enc16 [171] = [65; 66].
Proof. vm_compute. auto. Qed.
