(* C18 proofs, part 11: well-formedness as a grammar.  RFC 4648 section 4:
   Base64 text is a sequence of 4-character quanta over the alphabet; only the
   final quantum may be  x x x =  (16 bits) or  x x = =  (8 bits).  The
   inductive predicate wf64 says exactly this; it is equivalent to acceptance by
   the recursive spec_dec64 and hence by `decode`.  The decoded value is given
   declaratively too: the octets of the concatenated 6-bit values of the
   non-pad characters. *)
From Coq Require Import NArith List Bool Lia ZArith.
From Coq Require Import ZifyN ZifyBool ZifyNat.
Import ListNotations.
From DV Require Import Base.Outcome C18.Gen C18.Model C18.Proofs C18.ProofsEnc C18.ProofsSpec
  C18.ProofsDec64 C18.ProofsDec32.
Local Open Scope N_scope.
Ltac Zify.zify_post_hook ::= Z.div_mod_to_equations.

Definition in64 (c : N) : Prop := val64 c <> None.

Inductive wf64 : list N -> Prop :=
| wf64_nil : wf64 []
| wf64_quad a b c d r : in64 a -> in64 b -> in64 c -> in64 d -> wf64 r -> wf64 (a :: b :: c :: d :: r)
| wf64_pad1 a b c : in64 a -> in64 b -> in64 c -> wf64 [a; b; c; 61]
| wf64_pad2 a b : in64 a -> in64 b -> wf64 [a; b; 61; 61].

(* value: drop the '=' characters, concatenate the 6-bit values, cut into octets *)
Definition data64 (s : list N) : list N := filter (fun c => negb (c =? 61)) s.
Definition octets64 (s : list N) : list N :=
  match values val64 (data64 s) with
  | Some vs => take_octets (flat_map (bits_msb 6) vs)
  | None => []
  end.

Lemma in64_not_pad c : in64 c -> (c =? 61) = false.
Proof. intros H. apply N.eqb_neq. intros ->. apply H. reflexivity. Qed.
Lemma in64_some c : in64 c -> exists v, val64 c = Some v.
Proof. unfold in64. destruct (val64 c); [eauto|contradiction]. Qed.

Lemma wf64_accepts s : wf64 s -> exists bs, spec_dec64 s = Some bs.
Proof.
  induction 1 as [|a b c d r Ha Hb Hc Hd Hr [bs IH]|a b c Ha Hb Hc|a b Ha Hb].
  - eexists; reflexivity.
  - cbn [spec_dec64].
    destruct (in64_some a Ha) as [va ->]. destruct (in64_some b Hb) as [vb ->].
    destruct (in64_some c Hc) as [vc Vc]. destruct (in64_some d Hd) as [vd Vd].
    destruct r as [|x l].
    + rewrite (in64_not_pad c Hc), (in64_not_pad d Hd), Vc, Vd. eexists; reflexivity.
    + rewrite Vc, Vd, IH. eexists; reflexivity.
  - cbn [spec_dec64].
    destruct (in64_some a Ha) as [va ->]. destruct (in64_some b Hb) as [vb ->].
    destruct (in64_some c Hc) as [vc ->]. rewrite (in64_not_pad c Hc). eexists; reflexivity.
  - cbn [spec_dec64].
    destruct (in64_some a Ha) as [va ->]. destruct (in64_some b Hb) as [vb ->]. eexists; reflexivity.
Qed.

Lemma some_in64 c v : val64 c = Some v -> in64 c.
Proof. unfold in64. intros ->. discriminate. Qed.

Lemma accepts_wf64 s : forall bs, spec_dec64 s = Some bs -> wf64 s.
Proof.
  induction s as [|a|a b|a b c|a b c d r IH] using list_ind4; intros bs H; try discriminate.
  - constructor.
  - cbn [spec_dec64] in H. destruct r as [|x l].
    + destruct (val64 a) as [va|] eqn:Va; [|discriminate].
      destruct (val64 b) as [vb|] eqn:Vb; [|discriminate].
      destruct (N.eqb_spec c 61) as [->|Nc].
      * destruct (N.eqb_spec d 61) as [->|Nd]; [|discriminate].
        apply wf64_pad2; eapply some_in64; eassumption.
      * destruct (val64 c) as [vc|] eqn:Vc; [|discriminate].
        destruct (N.eqb_spec d 61) as [->|Nd].
        -- apply wf64_pad1; eapply some_in64; eassumption.
        -- destruct (val64 d) as [vd|] eqn:Vd; [|discriminate].
           apply wf64_quad; try (eapply some_in64; eassumption). constructor.
    + destruct (val64 a) as [va|] eqn:Va; [|discriminate].
      destruct (val64 b) as [vb|] eqn:Vb; [|discriminate].
      destruct (val64 c) as [vc|] eqn:Vc; [|discriminate].
      destruct (val64 d) as [vd|] eqn:Vd; [|discriminate].
      destruct (spec_dec64 (x :: l)) as [bs'|] eqn:E; [|discriminate].
      apply wf64_quad; try (eapply some_in64; eassumption). apply (IH bs'). reflexivity.
Qed.

(* the octets of a well-formed text *)
Lemma take_octets_24 v0 v1 v2 v3 X :
  take_octets (bits_msb 6 v0 ++ bits_msb 6 v1 ++ bits_msb 6 v2 ++ bits_msb 6 v3 ++ X) =
  dec6 [v0; v1; v2; v3] ++ take_octets X.
Proof. unfold dec6. cbn [flat_map]. rewrite !bits6. reflexivity. Qed.

Lemma spec_dec64_value s : forall bs, spec_dec64 s = Some bs -> bs = octets64 s.
Proof.
  unfold octets64.
  induction s as [|a|a b|a b c|a b c d r IH] using list_ind4; intros bs H; try discriminate.
  - injection H as <-. reflexivity.
  - cbn [spec_dec64] in H. destruct r as [|x l].
    + destruct (val64 a) as [va|] eqn:Va; [|discriminate].
      destruct (val64 b) as [vb|] eqn:Vb; [|discriminate].
      pose proof (in64_not_pad a (some_in64 _ _ Va)) as Pa.
      pose proof (in64_not_pad b (some_in64 _ _ Vb)) as Pb.
      destruct (N.eqb_spec c 61) as [->|Nc].
      * destruct (N.eqb_spec d 61) as [->|Nd]; [|discriminate]. injection H as <-.
        unfold data64. cbn [filter]. rewrite Pa, Pb. cbn [negb N.eqb Pos.eqb values]. rewrite Va, Vb. reflexivity.
      * destruct (val64 c) as [vc|] eqn:Vc; [|discriminate].
        pose proof (in64_not_pad c (some_in64 _ _ Vc)) as Pc.
        destruct (N.eqb_spec d 61) as [->|Nd].
        -- injection H as <-. unfold data64. cbn [filter]. rewrite Pa, Pb, Pc. cbn [negb N.eqb Pos.eqb values].
           rewrite Va, Vb, Vc. reflexivity.
        -- destruct (val64 d) as [vd|] eqn:Vd; [|discriminate]. injection H as <-.
           pose proof (in64_not_pad d (some_in64 _ _ Vd)) as Pd.
           unfold data64. cbn [filter]. rewrite Pa, Pb, Pc, Pd. cbn [negb values]. rewrite Va, Vb, Vc, Vd. reflexivity.
    + destruct (val64 a) as [va|] eqn:Va; [|discriminate].
      destruct (val64 b) as [vb|] eqn:Vb; [|discriminate].
      destruct (val64 c) as [vc|] eqn:Vc; [|discriminate].
      destruct (val64 d) as [vd|] eqn:Vd; [|discriminate].
      destruct (spec_dec64 (x :: l)) as [bs'|] eqn:E; [|discriminate]. injection H as <-.
      pose proof (in64_not_pad a (some_in64 _ _ Va)) as Pa.
      pose proof (in64_not_pad b (some_in64 _ _ Vb)) as Pb.
      pose proof (in64_not_pad c (some_in64 _ _ Vc)) as Pc.
      pose proof (in64_not_pad d (some_in64 _ _ Vd)) as Pd.
      specialize (IH bs' eq_refl).
      remember (x :: l) as t eqn:Et. clear Et.
      unfold data64 in *. cbn [filter]. rewrite Pa, Pb, Pc, Pd. cbn [negb values]. rewrite Va, Vb, Vc, Vd.
      destruct (values val64 (filter (fun c0 : N => negb (c0 =? 61)) t)) as [vs|] eqn:V.
      * cbn [flat_map]. rewrite take_octets_24, IH. reflexivity.
      * (* cannot happen: an accepted text has only alphabet characters and '=' *)
        exfalso. destruct (spec_dec64_shape _ _ E) as [_ F].
        clear - F V. revert F V.
        induction t as [|y t IHt]; intros F V; [discriminate|].
        cbn [filter] in V. pose proof (Forall_inv F) as Fy. apply Forall_inv_tail in F.
        destruct (N.eqb_spec y 61) as [->|Ny]; cbn [negb] in V; [exact (IHt F V)|].
        cbn [values] in V. destruct Fy as [->|Fy]; [contradiction|].
        destruct (val64 y); [|contradiction].
        destruct (values val64 (filter (fun c0 : N => negb (c0 =? 61)) t)) eqn:W; [discriminate|].
        exact (IHt F eq_refl).
Qed.

Theorem b64_accepts_iff_grammar s bs : b64_decode s = Ok bs <-> wf64 s /\ bs = octets64 s.
Proof.
  rewrite b64_accepts_iff_wellformed. split.
  - intros H. split; [exact (accepts_wf64 s bs H)|exact (spec_dec64_value s bs H)].
  - intros [W ->]. destruct (wf64_accepts s W) as [bs E]. rewrite E. f_equal.
    exact (spec_dec64_value s bs E).
Qed.

Theorem b64_rejects_iff_not_grammar s : (exists e, b64_decode s = Err e) <-> ~ wf64 s.
Proof.
  split.
  - intros [e E] W. destruct (wf64_accepts s W) as [bs S].
    apply b64_accepts_iff_wellformed in S. rewrite S in E. discriminate.
  - intros NW. destruct (b64_decode_total s) as [_ T]. apply T.
    destruct (spec_dec64 s) as [bs|] eqn:E; [|reflexivity]. exfalso. apply NW. exact (accepts_wf64 s bs E).
Qed.

(* Base32hex / Base16: every character in the alphabet (either case), no
   dangling character, octets of the concatenated 5- / 4-bit values *)
Definition wf_unpadded (k : nat) (val : N -> option N) (s : list N) : Prop :=
  Forall (fun c => val c <> None) s /\ (Nat.modulo (k * length s) 8 < k)%nat.
Definition octets_unpadded (k : nat) (val : N -> option N) (s : list N) : list N :=
  match values val s with Some vs => take_octets (flat_map (bits_msb k) vs) | None => [] end.

Lemma values_length val s : forall vs, values val s = Some vs -> length vs = length s.
Proof.
  induction s as [|c r IH]; intros vs V; cbn [values] in V.
  - injection V as <-. reflexivity.
  - destruct (val c); [|discriminate]. destruct (values val r) as [vr|]; [|discriminate].
    injection V as <-. cbn [length]. f_equal. apply IH. reflexivity.
Qed.
Lemma forall_values_some val s : Forall (fun c => val c <> None) s -> exists vs, values val s = Some vs.
Proof.
  induction 1 as [|c r Hc Hr [vr IH]]; [eexists; reflexivity|].
  cbn [values]. destruct (val c) as [v|]; [|contradiction]. rewrite IH. eexists; reflexivity.
Qed.

Lemma spec_unpadded_iff k val s bs :
  spec_dec_unpadded k val s = Some bs <-> wf_unpadded k val s /\ bs = octets_unpadded k val s.
Proof.
  unfold spec_dec_unpadded, wf_unpadded, octets_unpadded. split.
  - destruct (values val s) as [vs|] eqn:V; [|discriminate].
    rewrite (values_length _ _ _ V).
    destruct (Nat.ltb_spec (Nat.modulo (k * length s) 8) k) as [L|G]; [|discriminate].
    intros H. injection H as <-. split; [split; [exact (values_some_forall _ _ _ V)|exact L]|reflexivity].
  - intros [[F L] ->]. destruct (forall_values_some val s F) as [vs V]. rewrite V.
    rewrite (values_length _ _ _ V).
    destruct (Nat.ltb_spec (Nat.modulo (k * length s) 8) k) as [L'|G]; [reflexivity|lia].
Qed.

Theorem b32_accepts_iff_grammar s bs :
  b32_decode s = Ok bs <-> wf_unpadded 5 val32 s /\ bs = octets_unpadded 5 val32 s.
Proof. rewrite b32_accepts_iff_wellformed. apply spec_unpadded_iff. Qed.
Theorem b16_accepts_iff_grammar s bs :
  b16_decode s = Ok bs <-> wf_unpadded 4 val16 s /\ bs = octets_unpadded 4 val16 s.
Proof. rewrite b16_accepts_iff_wellformed. apply spec_unpadded_iff. Qed.

Example grammar_examples :
  wf64 [90; 103; 61; 61] /\ ~ wf64 [90; 103; 61; 97] /\ octets64 [90; 109; 57; 118] = [102; 111; 111] /\
  wf_unpadded 5 val32 [67; 79] /\ ~ wf_unpadded 5 val32 [67] /\ wf_unpadded 4 val16 [102; 48].
Proof.
  repeat split.
  - apply wf64_pad2; discriminate.
  - intros W. apply wf64_accepts in W. destruct W as [bs W]. vm_compute in W. discriminate.
  - repeat constructor; discriminate.
  - cbn. lia.
  - intros [_ L]. cbn in L. lia.
  - repeat constructor; discriminate.
  - cbn. lia.
Qed.
