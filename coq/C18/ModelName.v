(* C18 model, part 2: IterScanner::scan_name.  After 0e9ba06 it is
   Name::from_symbols(&mut symbols) followed by symbols.ok(), i.e. the same as
   Name::from_chars = Symbols::with(chars, from_symbols), which the C03
   development models as name_from_chars (growable builder: cap = None). *)
From Coq Require Import NArith List.
From DV Require Import Base.Outcome.
From DV Require C03.ModelText.
Definition scan_name (token : list N) : outcome (list N) := C03.ModelText.name_from_chars None token.
Definition c18_sname := scan_name.
