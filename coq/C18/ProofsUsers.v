(* C18 proofs, part 12: the users of the codecs in presentation format:
   IterScanner::{convert_token,convert_entry} (base/scan.rs) driving the
   SymbolConverters, and Nsec3Salt / OwnerHash FromStr, Display and scan
   (rdata/nsec3.rs).  Four T1 flags say which variant of the code is in /repo
   (iter_scanner_checks_escapes, nsec3_salt_scan_limited,
   nsec3_hash_from_str_limited, nsec3_hash_scan_limited); the `_as_coded`
   statements give, for either value, what holds: the full statement for the
   repaired code, a refutation with a concrete witness for the other. *)
From Coq Require Import NArith List Bool Lia ZArith.
From Coq Require Import ZifyN ZifyBool ZifyNat.
Import ListNotations.
From DV Require Import Base.Outcome C18.Gen C18.Model C18.Proofs C18.ProofsEnc C18.ProofsSpec
  C18.ProofsDec64 C18.ProofsDec32 C18.ProofsApi C18.ProofsConv.
Local Open Scope N_scope.
Ltac Zify.zify_post_hook ::= Z.div_mod_to_equations.

(* ------------------------------------------- tokens without escapes *)

Lemma symbols_plain s : ~ In 92 s -> symbols s = (map SChar s, true).
Proof.
  induction s as [|c r IH]; intros H; [reflexivity|].
  cbn [symbols map]. destruct (N.eqb_spec c 92) as [->|Nc].
  - exfalso. apply H. left. reflexivity.
  - cbn [negb]. rewrite IH; [reflexivity|]. intros I. apply H. right. exact I.
Qed.

Definition finish {C} (tail : C -> outcome (list N)) (r : outcome (C * list N)) : outcome (list N) :=
  do ca <- r; do t <- tail (fst ca); Ok (snd ca ++ t).

Lemma feed_run64 s : forall c acc,
  finish c64_process_tail (feed conv64 c64_sym c acc (map SChar s)) = c64_run c acc (map Sym s).
Proof.
  induction s as [|ch r IH]; intros c acc; [reflexivity|].
  cbn [map feed c64_run c64_process_symbol]. unfold c64_sym at 1. cbn [sym_char into_char bind].
  destruct (c64_process_char c ch) as [[c' o]| | |]; cbn [bind fst snd finish]; try reflexivity. apply IH.
Qed.
Lemma feed_run32 s : forall c acc,
  finish c32_process_tail (feed conv32 c32_sym c acc (map SChar s)) = c32_run c acc (map Sym s).
Proof.
  induction s as [|ch r IH]; intros c acc; [reflexivity|].
  cbn [map feed c32_run c32_process_symbol]. unfold c32_sym at 1. cbn [sym_char into_char bind].
  destruct (c32_process_char c ch) as [[c' o]| | |]; cbn [bind fst snd finish]; try reflexivity. apply IH.
Qed.
Lemma feed_run16 s : forall c acc,
  finish c16_process_tail (feed conv16 c16_sym c acc (map SChar s)) = c16_run c acc (map Sym s).
Proof.
  induction s as [|ch r IH]; intros c acc; [reflexivity|].
  cbn [map feed c16_run]. unfold c16_sym at 1. cbn [sym_char into_char bind].
  destruct (c16_process_symbol c (Sym ch)) as [[c' o]| | |]; cbn [bind fst snd finish]; try reflexivity. apply IH.
Qed.

Lemma convert_token_plain chk C process tail c0 s : ~ In 92 s ->
  convert_token chk C process tail c0 s = finish tail (feed C process c0 [] (map SChar s)).
Proof.
  intros H. unfold convert_token, scan_token, finish. rewrite (symbols_plain s H).
  cbn [negb]. rewrite andb_false_r.
  destruct (feed C process c0 [] (map SChar s)) as [[c a]| | |]; reflexivity.
Qed.

(* a token without backslash is converted exactly as the SymbolConverter run of
   C18_converter_agrees_with_decoder, hence accepted iff `decode` accepts it *)
Theorem scan_token_plain s : ~ In 92 s ->
  b64_scan_token s = b64_convert [s] /\ b32_scan_token s = b32_convert [s] /\
  b16_scan_token s = b16_convert [s].
Proof.
  intros H. unfold b64_scan_token, b32_scan_token, b16_scan_token, b64_convert, b32_convert, b16_convert.
  rewrite !convert_token_plain by exact H.
  rewrite feed_run64, feed_run32, feed_run16.
  rewrite (c64_run_syms_only (tokens [s])), (c32_run_syms_only (tokens [s])),
    (c16_run_syms_only (tokens [s])), !syms_only_tokens.
  cbn [concat]. rewrite app_nil_r. auto.
Qed.

Theorem scan_token_plain_agrees_with_decode s : ~ In 92 s ->
  same_result (b64_scan_token s) (b64_decode s) /\ same_result (b32_scan_token s) (b32_decode s) /\
  same_result (b16_scan_token s) (b16_decode s).
Proof.
  intros H. destruct (scan_token_plain s H) as (-> & -> & ->).
  pose proof (b64_converter_agrees [s]) as A. pose proof (b32_converter_agrees [s]) as B.
  pose proof (b16_converter_agrees [s]) as D. cbn [concat] in *. rewrite app_nil_r in *. auto.
Qed.

(* ------------------------------------------- malformed escape sequences *)

Lemma convert_token_bad_escape C process tail c0 token :
  snd (symbols token) = false ->
  forall bs, convert_token true C process tail c0 token <> Ok bs.
Proof.
  intros B bs. unfold convert_token, scan_token. destruct (symbols token) as [syms ok]. cbn [snd] in B.
  subst ok. cbn [negb andb].
  destruct (feed C process c0 [] syms) as [[c a]| | |]; cbn [bind]; discriminate.
Qed.

(* chk = true: the repaired IterScanner (pending/C18-iterscanner-bad-escape.diff);
   chk = false: a token is silently cut at the first malformed escape *)
Definition escapes_stmt_with (chk : bool) : Prop :=
  if chk
  then forall token, snd (symbols token) = false ->
         (forall bs, convert_token chk conv64 c64_sym c64_process_tail c64_new token <> Ok bs) /\
         (forall bs, convert_token chk conv32 c32_sym c32_process_tail c32_new token <> Ok bs) /\
         (forall bs, convert_token chk conv16 c16_sym c16_process_tail c16_new token <> Ok bs) /\
         (forall lim bs, salt_scan_with chk lim token <> Ok bs) /\
         (forall lim bs, hash_scan_with chk lim token <> Ok bs)
  else exists token, snd (symbols token) = false /\
         convert_token chk conv16 c16_sym c16_process_tail c16_new token = Ok [240; 15].

Lemma scan_escapes_sel chk : escapes_stmt_with chk.
Proof.
  destruct chk; unfold escapes_stmt_with.
  - intros token B. repeat split; intros; apply convert_token_bad_escape; assumption.
  - exists [70; 48; 48; 70; 92; 51; 48; 48]. vm_compute. split; reflexivity.
Qed.

Example symbols_examples :
  symbols [70; 92; 48; 52; 56] = ([SChar 70; SDecimal 48], true) /\
  symbols [70; 92; 45] = ([SChar 70; SSimple 45], true) /\
  symbols [70; 48; 92] = ([SChar 70; SChar 48], false) /\
  symbols [70; 92; 51; 48; 48; 70] = ([SChar 70], false) /\
  convert_token true conv16 c16_sym c16_process_tail c16_new [92; 70; 48] = Ok [240] /\
  convert_token true conv16 c16_sym c16_process_tail c16_new [70; 92; 48; 52; 56] = Err E_CONV_ILLEGAL.
Proof. vm_compute. repeat split. Qed.

(* ------------------------------------------------------ Nsec3Salt *)

Lemma list_eqb_eq a : forall b, list_eqb a b = true <-> a = b.
Proof.
  induction a as [|x a IH]; intros [|y b]; cbn [list_eqb]; split; intros H; try discriminate; auto.
  - apply andb_true_iff in H. destruct H as [H1 H2]. apply N.eqb_eq in H1. apply IH in H2. congruence.
  - injection H as -> ->. rewrite N.eqb_refl. cbn. apply IH. reflexivity.
Qed.

(* what Nsec3Salt::from_str accepts: "-" for the empty salt, otherwise
   well-formed Base16 of at most 255 octets *)
Theorem salt_from_str_spec s bs :
  salt_from_str s = Ok bs <->
  (s = [45] /\ bs = []) \/ (s <> [45] /\ spec_dec16 s = Some bs /\ (length bs <= 255)%nat).
Proof.
  unfold salt_from_str. change nsec3_salt_empty_char with 45.
  destruct (list_eqb s [45]) eqn:E.
  - apply list_eqb_eq in E. subst s. split.
    + intros H. injection H as <-. left. auto.
    + intros [[_ ->]|[N _]]; [reflexivity|contradiction].
  - assert (N45 : s <> [45]) by (intros ->; cbn in E; discriminate).
    pose proof (b16_decode_spec s) as D. destruct (spec_dec16 s) as [bs'|].
    + rewrite D. unfold over. change nsec3_salt_limit_inclusive with true. change nsec3_salt_max with 255.
      destruct (N.ltb_spec 255 (N.of_nat (length bs'))) as [L|G]; split.
      * discriminate.
      * intros [[-> _]|[_ [I Hl]]]; [contradiction|]. injection I as <-. lia.
      * intros H. injection H as <-. right. repeat split; auto. lia.
      * intros [[-> _]|[_ [I Hl]]]; [contradiction|]. injection I as <-. reflexivity.
    + destruct D as [e ->]. split; [discriminate|]. intros [[-> _]|[_ [I _]]]; [contradiction|discriminate].
Qed.

Theorem salt_roundtrip bs : octets bs -> (length bs <= 255)%nat ->
  exists t, salt_display bs = Ok t /\ salt_from_str t = Ok bs.
Proof.
  intros Ho Hl. destruct bs as [|c r].
  - exists [45]. split; [reflexivity|]. apply salt_from_str_spec. left. auto.
  - exists (spec_enc16 (c :: r)). split.
    + cbn [salt_display]. apply b16_encode_is_rfc4648, Ho.
    + apply salt_from_str_spec. right. split; [rewrite spec_enc16_step; discriminate|].
      split; [apply spec16_decode_encode, Ho|exact Hl].
Qed.

Theorem salt_display_is_dash_or_hex bs : octets bs ->
  salt_display bs = Ok (match bs with [] => [45] | _ => spec_enc16 bs end).
Proof. intros H. destruct bs; [reflexivity|]. cbn [salt_display]. apply b16_encode_is_rfc4648, H. Qed.

(* ------------------------------------------------------ OwnerHash *)

Theorem hash_roundtrip lim bs : octets bs -> (length bs <= 255)%nat ->
  exists t, hash_display bs = Ok t /\ hash_from_str_with lim t = Ok bs.
Proof.
  intros Ho Hl. exists (spec_enc32 bs). split; [apply b32_encode_is_rfc4648, Ho|].
  unfold hash_from_str_with.
  rewrite (proj2 (b32_accepts_iff_wellformed _ _) (spec32_decode_encode bs Ho)).
  unfold over. change nsec3_hash_limit_inclusive with true. change nsec3_hash_max with 255.
  destruct (N.ltb_spec 255 (N.of_nat (length bs))); [lia|]. rewrite andb_false_r. reflexivity.
Qed.

Theorem hash_from_str_limited_spec s bs :
  hash_from_str_with true s = Ok bs <-> spec_dec32 s = Some bs /\ (length bs <= 255)%nat.
Proof.
  unfold hash_from_str_with. cbn [andb].
  pose proof (b32_decode_spec s) as D. destruct (spec_dec32 s) as [bs'|].
  - rewrite D. unfold over. change nsec3_hash_limit_inclusive with true. change nsec3_hash_max with 255.
    destruct (N.ltb_spec 255 (N.of_nat (length bs'))) as [L|G]; split.
    + discriminate.
    + intros [I Hl]. injection I as <-. lia.
    + intros H. injection H as <-. split; [reflexivity|lia].
    + intros [I _]. injection I as <-. reflexivity.
  - destruct D as [e ->]. split; [discriminate|intros [I _]; discriminate].
Qed.

Theorem hash_from_str_unlimited_spec s bs :
  hash_from_str_with false s = Ok bs <-> spec_dec32 s = Some bs.
Proof.
  unfold hash_from_str_with. cbn [andb].
  pose proof (b32_decode_spec s) as D. destruct (spec_dec32 s) as [bs'|].
  - rewrite D. split; intros H; injection H as <-; reflexivity.
  - destruct D as [e ->]. split; discriminate.
Qed.

Theorem hash_from_str_unlimited_refuted :
  exists s bs, hash_from_str_with false s = Ok bs /\ length bs = 260%nat.
Proof. exists (repeat 48 416), (repeat 0 260). vm_compute. split; reflexivity. Qed.

Definition hash_from_str_stmt_with (lim : bool) : Prop :=
  if lim
  then forall s bs, hash_from_str_with lim s = Ok bs <-> spec_dec32 s = Some bs /\ (length bs <= 255)%nat
  else (forall s bs, hash_from_str_with lim s = Ok bs <-> spec_dec32 s = Some bs) /\
       exists s bs, hash_from_str_with lim s = Ok bs /\ length bs = 260%nat.
Lemma hash_from_str_sel lim : hash_from_str_stmt_with lim.
Proof.
  destruct lim; unfold hash_from_str_stmt_with.
  - exact hash_from_str_limited_spec.
  - exact (conj hash_from_str_unlimited_spec hash_from_str_unlimited_refuted).
Qed.

(* ------------------------------------------------------ scan: length limit *)

Lemma feed_inv C (process : C -> symbol -> outcome (C * list N)) (P : C -> list N -> Prop) :
  (forall c acc y c' o, P c acc -> process c y = Ok (c', o) -> P c' (acc ++ o)) ->
  forall l c acc c' acc', P c acc -> feed C process c acc l = Ok (c', acc') -> P c' acc'.
Proof.
  intros Step. induction l as [|y r IH]; intros c acc c' acc' Hp H; cbn [feed] in H.
  - injection H as <- <-. exact Hp.
  - destruct (process c y) as [[c1 o]| | |] eqn:E; cbn [bind fst snd] in H; try discriminate.
    exact (IH _ _ _ _ (Step _ _ _ _ _ Hp E) H).
Qed.

Lemma convert_token_ok chk C process tail c0 token bs :
  convert_token chk C process tail c0 token = Ok bs ->
  exists c acc t, feed C process c0 [] (fst (symbols token)) = Ok (c, acc) /\ tail c = Ok t /\ bs = acc ++ t.
Proof.
  unfold convert_token, scan_token. destruct (symbols token) as [syms ok]. cbn [fst].
  destruct (feed C process c0 [] syms) as [[c acc]| | |]; cbn [bind]; try discriminate.
  destruct (chk && negb ok); cbn [bind fst snd]; try discriminate.
  destruct (tail c) as [t| | |] eqn:T; cbn [bind]; try discriminate.
  intros H. injection H as <-. exists c, acc, t. auto.
Qed.

Theorem salt_scan_limited chk token bs : salt_scan_with chk true token = Ok bs -> (length bs <= 255)%nat.
Proof.
  intros H. apply convert_token_ok in H. destruct H as (c & acc & t & F & T & ->).
  assert (Inv : N.of_nat (length acc) = sc_len c /\ sc_len c <= 255).
  { refine (feed_inv saltconv (salt_process true)
              (fun c a => N.of_nat (length a) = sc_len c /\ sc_len c <= 255) _ _ _ _ _ _ _ F); [|cbn; lia].
    intros c1 a1 y c2 o [I1 I2] P. unfold salt_process in P.
    assert (Step : forall cc, (do cr <- c16_sym cc y;
                if nsec3_salt_max <? sc_len c1 + N.of_nat (length (snd cr)) then Err E_TOOLONG
                else Ok (mksc (Some (Some (fst cr))) (sc_len c1 + N.of_nat (length (snd cr))), snd cr))
                = Ok (c2, o) ->
              N.of_nat (length (a1 ++ o)) = sc_len c2 /\ sc_len c2 <= 255).
    { intros cc Q. destruct (c16_sym cc y) as [[c3 o3]| | |]; cbn [bind fst snd] in Q; try discriminate Q.
      change nsec3_salt_max with 255 in Q.
      destruct (N.ltb_spec 255 (sc_len c1 + N.of_nat (length o3))); [discriminate Q|].
      injection Q as <- <-. cbn [sc_len]. rewrite app_length. split; lia. }
    destruct (sc_st c1) as [[cc|]|].
    + exact (Step cc P).
    + discriminate P.
    + destruct (match into_char y with
                | Some c3 => c3 =? nsec3_salt_scan_empty_char
                | None => false
                end).
      * injection P as <- <-. cbn [sc_len]. rewrite app_nil_r. auto.
      * exact (Step c16_new P). }
  destruct Inv as [I1 I2].
  assert (t = []).
  { unfold salt_tail in T. destruct (sc_st c) as [[cc|]|]; try (injection T as <-; reflexivity).
    unfold c16_process_tail in T. destruct (c16_pending cc); [discriminate T|]. injection T as <-. reflexivity. }
  subst t. rewrite app_nil_r. lia.
Qed.

Theorem salt_scan_unlimited_refuted chk :
  exists token bs, salt_scan_with chk false token = Ok bs /\ length bs = 256%nat.
Proof. exists (repeat 65 512), (repeat 170 256). destruct chk; vm_compute; split; reflexivity. Qed.

Theorem hash_scan_limited chk token bs : hash_scan_with chk true token = Ok bs -> (length bs <= 255)%nat.
Proof.
  intros H. apply convert_token_ok in H. destruct H as (c & acc & t & F & T & ->).
  assert (Inv : N.of_nat (length acc) = hc_len c /\ hc_len c <= 255).
  { refine (feed_inv hashconv (hash_process true)
              (fun c a => N.of_nat (length a) = hc_len c /\ hc_len c <= 255) _ _ _ _ _ _ _ F); [|cbn; lia].
    intros c1 a1 y c2 o [I1 I2] P. unfold hash_process in P.
    destruct (c32_sym (hc_c c1) y) as [[c3 o3]| | |]; cbn [bind fst snd] in P; try discriminate P.
    unfold hash_check in P. change nsec3_hash_max with 255 in P.
    destruct (N.ltb_spec 255 (hc_len c1 + N.of_nat (length o3))); cbn [bind] in P; [discriminate P|].
    injection P as <- <-. cbn [hc_len]. rewrite app_length. split; lia. }
  destruct Inv as [I1 I2]. unfold hash_tail in T.
  destruct (c32_process_tail (hc_c c)) as [t'| | |]; cbn [bind] in T; try discriminate T.
  unfold hash_check in T. change nsec3_hash_max with 255 in T.
  destruct (N.ltb_spec 255 (hc_len c + N.of_nat (length t'))); cbn [bind] in T; [discriminate T|].
  injection T as <-. rewrite app_length. lia.
Qed.

Theorem hash_scan_unlimited_refuted chk :
  exists token bs, hash_scan_with chk false token = Ok bs /\ length bs = 260%nat.
Proof. exists (repeat 48 416), (repeat 0 260). destruct chk; vm_compute; split; reflexivity. Qed.

Definition scan_limit_stmt_with (chk lim_salt lim_hash : bool) : Prop :=
  (if lim_salt then forall token bs, salt_scan_with chk lim_salt token = Ok bs -> (length bs <= 255)%nat
   else exists token bs, salt_scan_with chk lim_salt token = Ok bs /\ length bs = 256%nat) /\
  (if lim_hash then forall token bs, hash_scan_with chk lim_hash token = Ok bs -> (length bs <= 255)%nat
   else exists token bs, hash_scan_with chk lim_hash token = Ok bs /\ length bs = 260%nat).
Lemma scan_limit_sel chk a b : scan_limit_stmt_with chk a b.
Proof.
  unfold scan_limit_stmt_with. split.
  - destruct a; [exact (salt_scan_limited chk)|exact (salt_scan_unlimited_refuted chk)].
  - destruct b; [exact (hash_scan_limited chk)|exact (hash_scan_unlimited_refuted chk)].
Qed.

Example nsec3_examples :
  salt_from_str [45] = Ok [] /\ salt_from_str [] = Ok [] /\ salt_from_str [45; 48] = Err (E_illegal 45) /\
  salt_display [] = Ok [45] /\ salt_display [171] = Ok [65; 66] /\
  salt_scan_with true true [45] = Ok [] /\ salt_scan_with true true [45; 48] = Err E_CONV_ILLEGAL /\
  salt_scan_with true true [92; 45] = Ok [] /\ salt_scan_with true true [70; 48; 92] = Err E_BAD_ESCAPE /\
  salt_scan_with false false [70; 48; 92] = Ok [240] /\
  salt_scan_with true true [97; 66] = Ok [171] /\ hash_scan_with true true [99; 111] = Ok [102] /\
  hash_from_str_with true [67] = Err E_SHORT /\ hash_from_str_with true (repeat 48 416) = Err E_SHORTBUF.
Proof. vm_compute. repeat split. Qed.

(* ------------------------------------------- convert_entry over several tokens *)

Lemma scan_token_plain_feed chk C process c acc s : ~ In 92 s ->
  scan_token chk C process c acc s = feed C process c acc (map SChar s).
Proof.
  intros H. unfold scan_token. rewrite (symbols_plain s H). cbn [negb]. rewrite andb_false_r.
  destruct (feed C process c acc (map SChar s)) as [[c' a]| | |]; reflexivity.
Qed.

Lemma run_app_feed64 a : forall b c acc,
  c64_run c acc (map Sym (a ++ b)) =
  do ca <- feed conv64 c64_sym c acc (map SChar a); c64_run (fst ca) (snd ca) (map Sym b).
Proof.
  induction a as [|ch r IH]; intros b c acc; [reflexivity|].
  cbn [app map feed c64_run c64_process_symbol]. unfold c64_sym at 1. cbn [sym_char into_char bind].
  destruct (c64_process_char c ch) as [[c' o]| | |]; cbn [bind fst snd]; try reflexivity. apply IH.
Qed.

Lemma entry_from_plain64 chk toks : forall c acc, Forall (fun t => ~ In 92 t) toks ->
  convert_entry_from chk conv64 c64_sym c64_process_tail c acc toks =
  c64_run c acc (map Sym (concat toks)).
Proof.
  induction toks as [|tk r IH]; intros c acc H; [reflexivity|].
  cbn [convert_entry_from concat]. rewrite scan_token_plain_feed by exact (Forall_inv H).
  rewrite run_app_feed64.
  destruct (feed conv64 c64_sym c acc (map SChar tk)) as [[c' a]| | |]; cbn [bind fst snd]; try reflexivity.
  apply IH. exact (Forall_inv_tail H).
Qed.

Lemma run_app_feed32 a : forall b c acc,
  c32_run c acc (map Sym (a ++ b)) =
  do ca <- feed conv32 c32_sym c acc (map SChar a); c32_run (fst ca) (snd ca) (map Sym b).
Proof.
  induction a as [|ch r IH]; intros b c acc; [reflexivity|].
  cbn [app map feed c32_run c32_process_symbol]. unfold c32_sym at 1. cbn [sym_char into_char bind].
  destruct (c32_process_char c ch) as [[c' o]| | |]; cbn [bind fst snd]; try reflexivity. apply IH.
Qed.

Lemma entry_from_plain32 chk toks : forall c acc, Forall (fun t => ~ In 92 t) toks ->
  convert_entry_from chk conv32 c32_sym c32_process_tail c acc toks =
  c32_run c acc (map Sym (concat toks)).
Proof.
  induction toks as [|tk r IH]; intros c acc H; [reflexivity|].
  cbn [convert_entry_from concat]. rewrite scan_token_plain_feed by exact (Forall_inv H).
  rewrite run_app_feed32.
  destruct (feed conv32 c32_sym c acc (map SChar tk)) as [[c' a]| | |]; cbn [bind fst snd]; try reflexivity.
  apply IH. exact (Forall_inv_tail H).
Qed.

Lemma run_app_feed16 a : forall b c acc,
  c16_run c acc (map Sym (a ++ b)) =
  do ca <- feed conv16 c16_sym c acc (map SChar a); c16_run (fst ca) (snd ca) (map Sym b).
Proof.
  induction a as [|ch r IH]; intros b c acc; [reflexivity|].
  cbn [app map feed c16_run]. unfold c16_sym at 1. cbn [sym_char into_char bind].
  destruct (c16_process_symbol c (Sym ch)) as [[c' o]| | |]; cbn [bind fst snd]; try reflexivity. apply IH.
Qed.

Lemma entry_from_plain16 chk toks : forall c acc, Forall (fun t => ~ In 92 t) toks ->
  convert_entry_from chk conv16 c16_sym c16_process_tail c acc toks =
  c16_run c acc (map Sym (concat toks)).
Proof.
  induction toks as [|tk r IH]; intros c acc H; [reflexivity|].
  cbn [convert_entry_from concat]. rewrite scan_token_plain_feed by exact (Forall_inv H).
  rewrite run_app_feed16.
  destruct (feed conv16 c16_sym c acc (map SChar tk)) as [[c' a]| | |]; cbn [bind fst snd]; try reflexivity.
  apply IH. exact (Forall_inv_tail H).
Qed.


(* the entry is converted as the concatenation of its tokens: `decode` of the
   concatenated text decides *)
Theorem scan_entry_plain toks : Forall (fun t => ~ In 92 t) toks ->
  same_result (b64_scan_entry toks) (b64_decode (concat toks)) /\
  same_result (b32_scan_entry toks) (b32_decode (concat toks)) /\
  same_result (b16_scan_entry toks) (b16_decode (concat toks)).
Proof.
  intros H. unfold b64_scan_entry, b32_scan_entry, b16_scan_entry.
  rewrite entry_from_plain64, entry_from_plain32, entry_from_plain16 by exact H.
  pose proof (b64_converter_agrees toks) as A. pose proof (b32_converter_agrees toks) as B.
  pose proof (b16_converter_agrees toks) as D.
  unfold b64_convert, b32_convert, b16_convert in *.
  rewrite c64_run_syms_only, syms_only_tokens in A. rewrite c32_run_syms_only, syms_only_tokens in B.
  rewrite c16_run_syms_only, syms_only_tokens in D. auto.
Qed.

(* ------------------------------------------- the escape syntax of a token *)

(* RFC 1035 5.1: \DDD with DDD <= 255, or \X with X a printable ASCII
   character other than a digit *)
Inductive wf_esc : list N -> Prop :=
| we_nil : wf_esc []
| we_char c r : c <> 92 -> wf_esc r -> wf_esc (c :: r)
| we_dec d1 d2 d3 r : is_digit d1 = true -> is_digit d2 = true -> is_digit d3 = true ->
    (d1 - 48) * 100 + (d2 - 48) * 10 + (d3 - 48) <= 255 -> wf_esc r -> wf_esc (92 :: d1 :: d2 :: d3 :: r)
| we_simple c r : is_digit c = false -> 32 <= c <= 126 -> wf_esc r -> wf_esc (92 :: c :: r).

Lemma symbols_ok_wf s : wf_esc s -> snd (symbols s) = true.
Proof.
  induction 1 as [|c r Hc Hr IH|d1 d2 d3 r H1 H2 H3 Hv Hr IH|c r Hd Hc Hr IH].
  - reflexivity.
  - cbn [symbols]. destruct (N.eqb_spec c 92); [contradiction|]. cbn [negb].
    destruct (symbols r). exact IH.
  - cbn [symbols N.eqb Pos.eqb negb]. rewrite H1, H2, H3. change sym_decimal_max with 255.
    destruct (N.ltb_spec 255 ((d1 - 48) * 100 + (d2 - 48) * 10 + (d3 - 48))); [lia|].
    destruct (symbols r). exact IH.
  - cbn [symbols N.eqb Pos.eqb negb]. rewrite Hd.
    change sym_simple_min with 32. change sym_simple_max with 126.
    destruct (N.ltb_spec 255 c); [lia|].
    destruct (N.ltb_spec c 32); [lia|]. destruct (N.ltb_spec 126 c); [lia|]. cbn [orb].
    destruct (symbols r). exact IH.
Qed.

Lemma wf_symbols_ok n : forall s, (length s <= n)%nat -> snd (symbols s) = true -> wf_esc s.
Proof.
  induction n as [|n IH]; intros s L H.
  - destruct s; [constructor|cbn in L; lia].
  - destruct s as [|c r]; [constructor|]. cbn [symbols] in H. cbn [length] in L.
    destruct (N.eqb_spec c 92) as [->|Nc]; cbn [negb] in H.
    2:{ destruct (symbols r) as [l ok] eqn:E. cbn [snd] in H. apply we_char; [exact Nc|].
        apply IH; [lia|]. rewrite E. exact H. }
    destruct r as [|d1 r1]; [discriminate H|]. cbn [length] in L.
    destruct (is_digit d1) eqn:D1.
    + destruct r1 as [|d2 r2]; [discriminate H|]. destruct (is_digit d2) eqn:D2; [|discriminate H].
      destruct r2 as [|d3 r3]; [discriminate H|]. destruct (is_digit d3) eqn:D3; [|discriminate H].
      change sym_decimal_max with 255 in H.
      destruct (N.ltb_spec 255 ((d1 - 48) * 100 + (d2 - 48) * 10 + (d3 - 48))); [discriminate H|].
      destruct (symbols r3) as [l ok] eqn:E. cbn [snd] in H. cbn [length] in L.
      apply we_dec; auto. apply IH; [lia|]. rewrite E. exact H.
    + change sym_simple_min with 32 in H. change sym_simple_max with 126 in H.
      destruct (N.ltb_spec 255 d1); [discriminate H|].
      destruct (N.ltb_spec d1 32); [discriminate H|]. destruct (N.ltb_spec 126 d1); [discriminate H|].
      cbn [orb] in H. destruct (symbols r1) as [l ok] eqn:E. cbn [snd] in H.
      apply we_simple; [exact D1|lia|]. apply IH; [lia|]. rewrite E. exact H.
Qed.

Theorem symbols_ok_iff_wf s : snd (symbols s) = true <-> wf_esc s.
Proof. split; [apply (wf_symbols_ok (length s)); lia|apply symbols_ok_wf]. Qed.

(* an escaped character stands for itself only if printable ASCII; a decimal
   escape never stands for a character of an encoding *)
Theorem into_char_spec y :
  into_char y = match y with
                | SChar c => Some c
                | SSimple c => if (32 <=? c) && (c <? 127) then Some c else None
                | SDecimal _ => None
                end.
Proof. destruct y; reflexivity. Qed.

(* with the repaired scanner a token is accepted only if its escapes are
   well-formed *)
Theorem scan_token_requires_wf_escapes token bs :
  (convert_token true conv64 c64_sym c64_process_tail c64_new token = Ok bs \/
   convert_token true conv32 c32_sym c32_process_tail c32_new token = Ok bs \/
   convert_token true conv16 c16_sym c16_process_tail c16_new token = Ok bs) -> wf_esc token.
Proof.
  intros H. apply symbols_ok_iff_wf. destruct (snd (symbols token)) eqn:E; [reflexivity|]. exfalso.
  destruct H as [H|[H|H]]; exact (convert_token_bad_escape _ _ _ _ token E bs H).
Qed.

Example wf_esc_examples :
  snd (symbols [92; 50; 53; 53]) = true /\ snd (symbols [92; 50; 53; 54]) = false /\
  snd (symbols [92; 32]) = true /\ snd (symbols [92; 31]) = false /\
  snd (symbols [92; 126]) = true /\ snd (symbols [92; 127]) = false /\
  into_char (SSimple 126) = Some 126 /\ into_char (SSimple 127) = None /\ into_char (SSimple 31) = None.
Proof. vm_compute. repeat split. Qed.
