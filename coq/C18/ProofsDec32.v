(* C18 proofs, part 5: base32hex `decode_hex` accepts exactly the well-formed
   texts (spec_dec32) and returns the specified octets; never panics. *)
From Coq Require Import NArith List Bool Lia ZArith.
From Coq Require Import ZifyN ZifyBool ZifyNat.
Import ListNotations.
From DV Require Import Base.Outcome C18.Gen C18.Model C18.Proofs C18.ProofsEnc C18.ProofsSpec C18.ProofsDec64.
Local Open Scope N_scope.
Ltac Zify.zify_post_hook ::= Z.div_mod_to_equations.

Notation tb := N.testbit.

Definition b32_cont (d : dec32) (v : N) : outcome (dec32 * option N) :=
  do buf' <- buf8_set (d32_buf d) (d32_next d) v;
  let next' := d32_next d + 1 in
  let d1 :=
    if next' =? b32_group
    then mk32 buf' 0 (fold_left append (b32_octets buf') (d32_target d))
    else mk32 buf' next' (d32_target d) in
  Ok (d1, target_err (d32_target d1)).

Lemma b32_push_sem d ch :
  b32_push d ch = match val32 ch with
                  | None => Ok (mk32 (d32_buf d) (d32_next d) (Err (E_illegal ch)), Some (E_illegal ch))
                  | Some v => b32_cont d v
                  end.
Proof.
  unfold b32_push. cbv [b32_ascii_max].
  destruct (N.ltb_spec 127 ch) as [G|L].
  - rewrite val32_none_high by exact G. reflexivity.
  - destruct (dec_tab32_ok ch) as (v & E1 & E2); [lia|].
    rewrite E1. cbn [bind]. rewrite <- E2.
    destruct (v =? b32_illegal_val); reflexivity.
Qed.

Lemma cont32_0 x0 x1 x2 x3 x4 x5 x6 x7 acc v :
  b32_cont (mk32 (x0, x1, x2, x3, x4, x5, x6, x7) 0 (Ok acc)) v = Ok (mk32 (v, x1, x2, x3, x4, x5, x6, x7) 1 (Ok acc), None).
Proof. reflexivity. Qed.
Lemma cont32_1 x0 x1 x2 x3 x4 x5 x6 x7 acc v :
  b32_cont (mk32 (x0, x1, x2, x3, x4, x5, x6, x7) 1 (Ok acc)) v = Ok (mk32 (x0, v, x2, x3, x4, x5, x6, x7) 2 (Ok acc), None).
Proof. reflexivity. Qed.
Lemma cont32_2 x0 x1 x2 x3 x4 x5 x6 x7 acc v :
  b32_cont (mk32 (x0, x1, x2, x3, x4, x5, x6, x7) 2 (Ok acc)) v = Ok (mk32 (x0, x1, v, x3, x4, x5, x6, x7) 3 (Ok acc), None).
Proof. reflexivity. Qed.
Lemma cont32_3 x0 x1 x2 x3 x4 x5 x6 x7 acc v :
  b32_cont (mk32 (x0, x1, x2, x3, x4, x5, x6, x7) 3 (Ok acc)) v = Ok (mk32 (x0, x1, x2, v, x4, x5, x6, x7) 4 (Ok acc), None).
Proof. reflexivity. Qed.
Lemma cont32_4 x0 x1 x2 x3 x4 x5 x6 x7 acc v :
  b32_cont (mk32 (x0, x1, x2, x3, x4, x5, x6, x7) 4 (Ok acc)) v = Ok (mk32 (x0, x1, x2, x3, v, x5, x6, x7) 5 (Ok acc), None).
Proof. reflexivity. Qed.
Lemma cont32_5 x0 x1 x2 x3 x4 x5 x6 x7 acc v :
  b32_cont (mk32 (x0, x1, x2, x3, x4, x5, x6, x7) 5 (Ok acc)) v = Ok (mk32 (x0, x1, x2, x3, x4, v, x6, x7) 6 (Ok acc), None).
Proof. reflexivity. Qed.
Lemma cont32_6 x0 x1 x2 x3 x4 x5 x6 x7 acc v :
  b32_cont (mk32 (x0, x1, x2, x3, x4, x5, x6, x7) 6 (Ok acc)) v = Ok (mk32 (x0, x1, x2, x3, x4, x5, v, x7) 7 (Ok acc), None).
Proof. reflexivity. Qed.
Lemma cont32_7 x0 x1 x2 x3 x4 x5 x6 x7 acc v :
  b32_cont (mk32 (x0, x1, x2, x3, x4, x5, x6, x7) 7 (Ok acc)) v =
  Ok (mk32 (x0, x1, x2, x3, x4, x5, x6, v) 0 (Ok (acc ++ [b32_oct0 x0 x1 x2 x3 x4 x5 x6 v; b32_oct1 x0 x1 x2 x3 x4 x5 x6 v; b32_oct2 x0 x1 x2 x3 x4 x5 x6 v; b32_oct3 x0 x1 x2 x3 x4 x5 x6 v; b32_oct4 x0 x1 x2 x3 x4 x5 x6 v])), None).
Proof. cbv -[b32_oct0 b32_oct1 b32_oct2 b32_oct3 b32_oct4 app]. rewrite <- !app_assoc. reflexivity. Qed.
Lemma fin32_0 x0 x1 x2 x3 x4 x5 x6 x7 acc :
  b32_decode_from (mk32 (x0, x1, x2, x3, x4, x5, x6, x7) 0 (Ok acc)) [] = Ok acc.
Proof. reflexivity. Qed.
Lemma fin32_1 x0 x1 x2 x3 x4 x5 x6 x7 acc :
  b32_decode_from (mk32 (x0, x1, x2, x3, x4, x5, x6, x7) 1 (Ok acc)) [] = Err E_SHORT.
Proof. reflexivity. Qed.
Lemma fin32_2 x0 x1 x2 x3 x4 x5 x6 x7 acc :
  b32_decode_from (mk32 (x0, x1, x2, x3, x4, x5, x6, x7) 2 (Ok acc)) [] = Ok (acc ++ [b32_oct0 x0 x1 x2 x3 x4 x5 x6 x7]).
Proof. cbv -[b32_oct0 b32_oct1 b32_oct2 b32_oct3 b32_oct4 app]. rewrite <- ?app_assoc. reflexivity. Qed.
Lemma fin32_3 x0 x1 x2 x3 x4 x5 x6 x7 acc :
  b32_decode_from (mk32 (x0, x1, x2, x3, x4, x5, x6, x7) 3 (Ok acc)) [] = Err E_SHORT.
Proof. reflexivity. Qed.
Lemma fin32_4 x0 x1 x2 x3 x4 x5 x6 x7 acc :
  b32_decode_from (mk32 (x0, x1, x2, x3, x4, x5, x6, x7) 4 (Ok acc)) [] = Ok (acc ++ [b32_oct0 x0 x1 x2 x3 x4 x5 x6 x7; b32_oct1 x0 x1 x2 x3 x4 x5 x6 x7]).
Proof. cbv -[b32_oct0 b32_oct1 b32_oct2 b32_oct3 b32_oct4 app]. rewrite <- ?app_assoc. reflexivity. Qed.
Lemma fin32_5 x0 x1 x2 x3 x4 x5 x6 x7 acc :
  b32_decode_from (mk32 (x0, x1, x2, x3, x4, x5, x6, x7) 5 (Ok acc)) [] = Ok (acc ++ [b32_oct0 x0 x1 x2 x3 x4 x5 x6 x7; b32_oct1 x0 x1 x2 x3 x4 x5 x6 x7; b32_oct2 x0 x1 x2 x3 x4 x5 x6 x7]).
Proof. cbv -[b32_oct0 b32_oct1 b32_oct2 b32_oct3 b32_oct4 app]. rewrite <- ?app_assoc. reflexivity. Qed.
Lemma fin32_6 x0 x1 x2 x3 x4 x5 x6 x7 acc :
  b32_decode_from (mk32 (x0, x1, x2, x3, x4, x5, x6, x7) 6 (Ok acc)) [] = Err E_SHORT.
Proof. reflexivity. Qed.
Lemma fin32_7 x0 x1 x2 x3 x4 x5 x6 x7 acc :
  b32_decode_from (mk32 (x0, x1, x2, x3, x4, x5, x6, x7) 7 (Ok acc)) [] = Ok (acc ++ [b32_oct0 x0 x1 x2 x3 x4 x5 x6 x7; b32_oct1 x0 x1 x2 x3 x4 x5 x6 x7; b32_oct2 x0 x1 x2 x3 x4 x5 x6 x7; b32_oct3 x0 x1 x2 x3 x4 x5 x6 x7]).
Proof. cbv -[b32_oct0 b32_oct1 b32_oct2 b32_oct3 b32_oct4 app]. rewrite <- ?app_assoc. reflexivity. Qed.

(* ---- the octets computed by the shifts are the RFC regrouping of the quintets *)
Ltac s32_2 a b Ha Hb := apply N.eqb_eq; sweep2_bool a b Ha Hb 32%nat 32%nat.
Ltac s32_3 a b c Ha Hb Hc := apply N.eqb_eq; sweep3_bool a b c Ha Hb Hc 32%nat 32%nat 32%nat.

Lemma o32_0 v0 v1 v2 v3 v4 v5 v6 v7 : v0 < 32 -> v1 < 32 ->
  b32_oct0 v0 v1 v2 v3 v4 v5 v6 v7 = bits_val [tb v0 4; tb v0 3; tb v0 2; tb v0 1; tb v0 0; tb v1 4; tb v1 3; tb v1 2].
Proof. intros H0 H1. cbv beta delta [b32_oct0]. s32_2 v0 v1 H0 H1. Qed.
Lemma o32_1 v0 v1 v2 v3 v4 v5 v6 v7 : v1 < 32 -> v2 < 32 -> v3 < 32 ->
  b32_oct1 v0 v1 v2 v3 v4 v5 v6 v7 = bits_val [tb v1 1; tb v1 0; tb v2 4; tb v2 3; tb v2 2; tb v2 1; tb v2 0; tb v3 4].
Proof. intros H1 H2 H3. cbv beta delta [b32_oct1]. s32_3 v1 v2 v3 H1 H2 H3. Qed.
Lemma o32_2 v0 v1 v2 v3 v4 v5 v6 v7 : v3 < 32 -> v4 < 32 ->
  b32_oct2 v0 v1 v2 v3 v4 v5 v6 v7 = bits_val [tb v3 3; tb v3 2; tb v3 1; tb v3 0; tb v4 4; tb v4 3; tb v4 2; tb v4 1].
Proof. intros H3 H4. cbv beta delta [b32_oct2]. s32_2 v3 v4 H3 H4. Qed.
Lemma o32_3 v0 v1 v2 v3 v4 v5 v6 v7 : v4 < 32 -> v5 < 32 -> v6 < 32 ->
  b32_oct3 v0 v1 v2 v3 v4 v5 v6 v7 = bits_val [tb v4 0; tb v5 4; tb v5 3; tb v5 2; tb v5 1; tb v5 0; tb v6 4; tb v6 3].
Proof. intros H4 H5 H6. cbv beta delta [b32_oct3]. s32_3 v4 v5 v6 H4 H5 H6. Qed.
Lemma o32_4 v0 v1 v2 v3 v4 v5 v6 v7 : v6 < 32 -> v7 < 32 ->
  b32_oct4 v0 v1 v2 v3 v4 v5 v6 v7 = bits_val [tb v6 2; tb v6 1; tb v6 0; tb v7 4; tb v7 3; tb v7 2; tb v7 1; tb v7 0].
Proof. intros H6 H7. cbv beta delta [b32_oct4]. s32_2 v6 v7 H6 H7. Qed.

Lemma bits5 v : bits_msb 5 v = [tb v 4; tb v 3; tb v 2; tb v 1; tb v 0].
Proof. reflexivity. Qed.

Definition spec_vals (k : nat) (ws : list N) : option (list N) :=
  if Nat.ltb (Nat.modulo (k * length ws) 8) k
  then Some (take_octets (flat_map (bits_msb k) ws)) else None.

Lemma spec_dec_unpadded_vals k val s :
  spec_dec_unpadded k val s = match values val s with Some vs => spec_vals k vs | None => None end.
Proof. reflexivity. Qed.

Lemma spec_vals5_group v0 v1 v2 v3 v4 v5 v6 v7 ws :
  v0 < 32 -> v1 < 32 -> v2 < 32 -> v3 < 32 -> v4 < 32 -> v5 < 32 -> v6 < 32 -> v7 < 32 ->
  spec_vals 5 (v0 :: v1 :: v2 :: v3 :: v4 :: v5 :: v6 :: v7 :: ws) =
  match spec_vals 5 ws with
  | Some bs => Some ([b32_oct0 v0 v1 v2 v3 v4 v5 v6 v7; b32_oct1 v0 v1 v2 v3 v4 v5 v6 v7;
                      b32_oct2 v0 v1 v2 v3 v4 v5 v6 v7; b32_oct3 v0 v1 v2 v3 v4 v5 v6 v7;
                      b32_oct4 v0 v1 v2 v3 v4 v5 v6 v7] ++ bs)
  | None => None
  end.
Proof.
  intros. unfold spec_vals.
  change (length (v0 :: v1 :: v2 :: v3 :: v4 :: v5 :: v6 :: v7 :: ws)) with (8 + length ws)%nat.
  rewrite mod8_step5.
  destruct (Nat.ltb (Nat.modulo (5 * length ws) 8) 5); [|reflexivity].
  cbn [flat_map]. rewrite !bits5. cbn [app take_octets].
  rewrite (o32_0 v0 v1 v2 v3 v4 v5 v6 v7), (o32_1 v0 v1 v2 v3 v4 v5 v6 v7),
    (o32_2 v0 v1 v2 v3 v4 v5 v6 v7), (o32_3 v0 v1 v2 v3 v4 v5 v6 v7),
    (o32_4 v0 v1 v2 v3 v4 v5 v6 v7) by assumption.
  reflexivity.
Qed.

(* pending values laid over the (stale) contents of the buffer *)
Definition buf_of (p : list N) (b : buf8) : buf8 :=
  let '(b0, b1, b2, b3, b4, b5, b6, b7) := b in
  match p with
  | [] => b
  | [p0] => (p0, b1, b2, b3, b4, b5, b6, b7)
  | [p0; p1] => (p0, p1, b2, b3, b4, b5, b6, b7)
  | [p0; p1; p2] => (p0, p1, p2, b3, b4, b5, b6, b7)
  | [p0; p1; p2; p3] => (p0, p1, p2, p3, b4, b5, b6, b7)
  | [p0; p1; p2; p3; p4] => (p0, p1, p2, p3, p4, b5, b6, b7)
  | [p0; p1; p2; p3; p4; p5] => (p0, p1, p2, p3, p4, p5, b6, b7)
  | [p0; p1; p2; p3; p4; p5; p6] => (p0, p1, p2, p3, p4, p5, p6, b7)
  | p0 :: p1 :: p2 :: p3 :: p4 :: p5 :: p6 :: p7 :: _ => (p0, p1, p2, p3, p4, p5, p6, p7)
  end.

Definition lt32 (v : N) : Prop := v < 32.

Ltac inv32 H :=
  repeat match type of H with
  | Forall lt32 (_ :: _) => let Hx := fresh "L" in pose proof (Forall_inv H) as Hx; unfold lt32 in Hx; apply Forall_inv_tail in H
  end.

Lemma b32_decode_from_spec s : forall pend rest acc,
  (length pend < 8)%nat -> Forall lt32 pend ->
  agree (b32_decode_from (mk32 (buf_of pend rest) (N.of_nat (length pend)) (Ok acc)) s)
        (match values val32 s with Some vs => spec_vals 5 (pend ++ vs) | None => None end) acc.
Proof.
  induction s as [|ch r IH]; intros pend [[[[[[[x0 x1] x2] x3] x4] x5] x6] x7] acc Hlen Hp.
  - cbn [values]. rewrite app_nil_r.
    destruct pend as [|p0 [|p1 [|p2 [|p3 [|p4 [|p5 [|p6 [|p7 pend]]]]]]]];
      [| | | | | | | | exfalso; cbn [length] in Hlen; lia]; inv32 Hp; unfold agree, spec_vals;
      cbn [length Nat.mul Nat.add Nat.modulo Nat.divmod fst snd Nat.sub Nat.ltb Nat.leb buf_of N.of_nat Pos.of_succ_nat Pos.succ].

    + rewrite fin32_0, app_nil_r. reflexivity.
    + rewrite fin32_1. eexists; reflexivity.
    + rewrite fin32_2. cbn [flat_map]. rewrite !bits5. cbn [app take_octets].
      rewrite (o32_0 p0 p1 x2 x3 x4 x5 x6 x7) by assumption. reflexivity.
    + rewrite fin32_3. eexists; reflexivity.
    + rewrite fin32_4. cbn [flat_map]. rewrite !bits5. cbn [app take_octets].
      rewrite (o32_0 p0 p1 p2 p3 x4 x5 x6 x7), (o32_1 p0 p1 p2 p3 x4 x5 x6 x7) by assumption. reflexivity.
    + rewrite fin32_5. cbn [flat_map]. rewrite !bits5. cbn [app take_octets].
      rewrite (o32_0 p0 p1 p2 p3 p4 x5 x6 x7), (o32_1 p0 p1 p2 p3 p4 x5 x6 x7), (o32_2 p0 p1 p2 p3 p4 x5 x6 x7) by assumption. reflexivity.
    + rewrite fin32_6. eexists; reflexivity.
    + rewrite fin32_7. cbn [flat_map]. rewrite !bits5. cbn [app take_octets].
      rewrite (o32_0 p0 p1 p2 p3 p4 p5 p6 x7), (o32_1 p0 p1 p2 p3 p4 p5 p6 x7), (o32_2 p0 p1 p2 p3 p4 p5 p6 x7), (o32_3 p0 p1 p2 p3 p4 p5 p6 x7) by assumption. reflexivity.
  - cbn [values b32_decode_from]. rewrite b32_push_sem.
    destruct (val32 ch) as [v|] eqn:V; [|unfold agree; eexists; reflexivity].
    pose proof (val32_lt _ _ V) as Lv.
    destruct pend as [|p0 [|p1 [|p2 [|p3 [|p4 [|p5 [|p6 [|p7 pend]]]]]]]];
      [| | | | | | | | exfalso; cbn [length] in Hlen; lia];
      cbn [length buf_of N.of_nat Pos.of_succ_nat Pos.succ].
    + rewrite cont32_0.
      specialize (IH [v] (x0, x1, x2, x3, x4, x5, x6, x7) acc).
      destruct (values val32 r) as [vs|]; [|apply IH; [cbn; lia|repeat (apply Forall_cons; [assumption|]); try exact Hp; inv32 Hp; repeat (apply Forall_cons; [assumption|]); apply Forall_nil]].
      apply IH; [cbn; lia|]. inv32 Hp. repeat (apply Forall_cons; [assumption|]). apply Forall_nil.
    + rewrite cont32_1.
      specialize (IH [p0; v] (x0, x1, x2, x3, x4, x5, x6, x7) acc).
      destruct (values val32 r) as [vs|]; [|apply IH; [cbn; lia|repeat (apply Forall_cons; [assumption|]); try exact Hp; inv32 Hp; repeat (apply Forall_cons; [assumption|]); apply Forall_nil]].
      apply IH; [cbn; lia|]. inv32 Hp. repeat (apply Forall_cons; [assumption|]). apply Forall_nil.
    + rewrite cont32_2.
      specialize (IH [p0; p1; v] (x0, x1, x2, x3, x4, x5, x6, x7) acc).
      destruct (values val32 r) as [vs|]; [|apply IH; [cbn; lia|repeat (apply Forall_cons; [assumption|]); try exact Hp; inv32 Hp; repeat (apply Forall_cons; [assumption|]); apply Forall_nil]].
      apply IH; [cbn; lia|]. inv32 Hp. repeat (apply Forall_cons; [assumption|]). apply Forall_nil.
    + rewrite cont32_3.
      specialize (IH [p0; p1; p2; v] (x0, x1, x2, x3, x4, x5, x6, x7) acc).
      destruct (values val32 r) as [vs|]; [|apply IH; [cbn; lia|repeat (apply Forall_cons; [assumption|]); try exact Hp; inv32 Hp; repeat (apply Forall_cons; [assumption|]); apply Forall_nil]].
      apply IH; [cbn; lia|]. inv32 Hp. repeat (apply Forall_cons; [assumption|]). apply Forall_nil.
    + rewrite cont32_4.
      specialize (IH [p0; p1; p2; p3; v] (x0, x1, x2, x3, x4, x5, x6, x7) acc).
      destruct (values val32 r) as [vs|]; [|apply IH; [cbn; lia|repeat (apply Forall_cons; [assumption|]); try exact Hp; inv32 Hp; repeat (apply Forall_cons; [assumption|]); apply Forall_nil]].
      apply IH; [cbn; lia|]. inv32 Hp. repeat (apply Forall_cons; [assumption|]). apply Forall_nil.
    + rewrite cont32_5.
      specialize (IH [p0; p1; p2; p3; p4; v] (x0, x1, x2, x3, x4, x5, x6, x7) acc).
      destruct (values val32 r) as [vs|]; [|apply IH; [cbn; lia|repeat (apply Forall_cons; [assumption|]); try exact Hp; inv32 Hp; repeat (apply Forall_cons; [assumption|]); apply Forall_nil]].
      apply IH; [cbn; lia|]. inv32 Hp. repeat (apply Forall_cons; [assumption|]). apply Forall_nil.
    + rewrite cont32_6.
      specialize (IH [p0; p1; p2; p3; p4; p5; v] (x0, x1, x2, x3, x4, x5, x6, x7) acc).
      destruct (values val32 r) as [vs|]; [|apply IH; [cbn; lia|repeat (apply Forall_cons; [assumption|]); try exact Hp; inv32 Hp; repeat (apply Forall_cons; [assumption|]); apply Forall_nil]].
      apply IH; [cbn; lia|]. inv32 Hp. repeat (apply Forall_cons; [assumption|]). apply Forall_nil.
    + rewrite cont32_7. inv32 Hp.
      specialize (IH [] (p0, p1, p2, p3, p4, p5, p6, v)
        (acc ++ [b32_oct0 p0 p1 p2 p3 p4 p5 p6 v; b32_oct1 p0 p1 p2 p3 p4 p5 p6 v; b32_oct2 p0 p1 p2 p3 p4 p5 p6 v; b32_oct3 p0 p1 p2 p3 p4 p5 p6 v; b32_oct4 p0 p1 p2 p3 p4 p5 p6 v]) ltac:(cbn; lia) (Forall_nil _)).
      cbn [length buf_of N.of_nat app] in IH.
      destruct (values val32 r) as [vs|]; [|exact IH].
      cbn [app]. rewrite spec_vals5_group by assumption.
      destruct (spec_vals 5 vs) as [bs|]; unfold agree in *; [|exact IH].
      rewrite IH, <- app_assoc. reflexivity.
Qed.


Theorem b32_decode_spec s :
  match spec_dec32 s with
  | Some bs => b32_decode s = Ok bs
  | None => exists e, b32_decode s = Err e
  end.
Proof.
  pose proof (b32_decode_from_spec s [] (0, 0, 0, 0, 0, 0, 0, 0) [] ltac:(cbn; lia) (Forall_nil _)) as H.
  unfold spec_dec32. rewrite spec_dec_unpadded_vals.
  cbn [app] in H. destruct (values val32 s) as [vs|]; [|exact H].
  destruct (spec_vals 5 vs); exact H.
Qed.

Theorem b32_accepts_iff_wellformed s bs : b32_decode s = Ok bs <-> spec_dec32 s = Some bs.
Proof.
  pose proof (b32_decode_spec s) as H. destruct (spec_dec32 s) as [bs'|].
  - rewrite H. split; intros E; injection E as <-; reflexivity.
  - destruct H as [e H]. rewrite H. split; discriminate.
Qed.

Theorem b32_decode_total s : no_panic (b32_decode s) /\
  (spec_dec32 s = None -> exists e, b32_decode s = Err e).
Proof.
  pose proof (b32_decode_spec s) as H. destruct (spec_dec32 s) as [bs'|].
  - rewrite H. split; [exact I|discriminate].
  - destruct H as [e H]. rewrite H. split; [exact I|eauto].
Qed.

Theorem b32_decode_encode bs : octets bs ->
  exists t, b32_display bs = Ok t /\ b32_decode t = Ok bs.
Proof.
  intros H. exists (spec_enc32 bs). split; [apply b32_encode_is_rfc4648, H|].
  apply b32_accepts_iff_wellformed, spec32_decode_encode, H.
Qed.

Example b32_decode_examples :
  b32_decode [67; 80; 78; 77; 85; 79; 74; 49; 69; 56] = Ok [102; 111; 111; 98; 97; 114] /\
  b32_decode [99; 111] = Ok [102] /\ b32_decode [67; 86] = Ok [103] /\
  b32_decode [67] = Err E_SHORT /\ b32_decode [67; 87] = Err (E_illegal 87) /\
  b32_decode [67; 79; 61] = Err (E_illegal 61).
Proof. vm_compute. repeat split. Qed.

(* ------------------------------------------------------------- Base16 *)

Lemma b16_push_sem d ch :
  b16_push d ch =
  match val16 ch with
  | None => Ok (mk16 (d16_buf d) (Err (E_illegal ch)), Some (E_illegal ch))
  | Some value =>
      let d1 := match d16_buf d with
                | Some upper => mk16 None (append (d16_target d) (N.lor upper value))
                | None => mk16 (Some (N.land (N.shiftl value b16_shift) 255)) (d16_target d)
                end in
      Ok (d1, target_err (d16_target d1))
  end.
Proof.
  unfold b16_push. change b16_radix with 16. rewrite to_digit16_is_val16. reflexivity.
Qed.

Lemma bits4 v : bits_msb 4 v = [tb v 3; tb v 2; tb v 1; tb v 0].
Proof. reflexivity. Qed.

Lemma o16 v0 v1 : v0 < 16 -> v1 < 16 ->
  N.lor (N.land (N.shiftl v0 b16_shift) 255) v1 =
  bits_val [tb v0 3; tb v0 2; tb v0 1; tb v0 0; tb v1 3; tb v1 2; tb v1 1; tb v1 0].
Proof. intros H0 H1. apply N.eqb_eq. sweep2_bool v0 v1 H0 H1 16%nat 16%nat. Qed.

Lemma mod8_step4' n : Nat.modulo (4 * S (S n)) 8 = Nat.modulo (4 * n) 8.
Proof. lia. Qed.

Lemma spec_vals4_group v0 v1 ws : v0 < 16 -> v1 < 16 ->
  spec_vals 4 (v0 :: v1 :: ws) =
  match spec_vals 4 ws with
  | Some bs => Some (N.lor (N.land (N.shiftl v0 b16_shift) 255) v1 :: bs)
  | None => None
  end.
Proof.
  intros. unfold spec_vals. cbn [length]. rewrite mod8_step4'.
  destruct (Nat.ltb (Nat.modulo (4 * length ws) 8) 4); [|reflexivity].
  cbn [flat_map]. rewrite !bits4. cbn [app take_octets]. rewrite o16 by assumption. reflexivity.
Qed.

Lemma list_ind2 {A} (P : list A -> Prop) :
  P [] -> (forall a, P [a]) -> (forall a b r, P r -> P (a :: b :: r)) -> forall l, P l.
Proof.
  intros H0 H1 H2. fix IH 1. intros [|a [|b r]]; [exact H0|exact (H1 a)|exact (H2 a b r (IH r))].
Qed.

Lemma b16_decode_from_none s : forall acc,
  agree (b16_decode_from (mk16 None (Ok acc)) s)
        (match values val16 s with Some vs => spec_vals 4 vs | None => None end) acc.
Proof.
  induction s as [|a|a b r IH] using list_ind2; intros acc.
  - unfold agree. cbn. rewrite app_nil_r. reflexivity.
  - cbn [values b16_decode_from]. rewrite b16_push_sem. cbn [d16_buf].
    destruct (val16 a) as [va|]; unfold agree; cbn; eexists; reflexivity.
  - cbn [values b16_decode_from]. rewrite b16_push_sem. cbn [d16_buf d16_target].
    destruct (val16 a) as [va|] eqn:Va; [|unfold agree; eexists; reflexivity].
    cbv zeta. cbn [d16_target target_err b16_decode_from]. rewrite b16_push_sem. cbn [d16_buf d16_target].
    destruct (val16 b) as [vb|] eqn:Vb; [|unfold agree; eexists; reflexivity].
    cbv zeta. cbn [d16_target target_err append].
    specialize (IH (acc ++ [N.lor (N.land (N.shiftl va b16_shift) 255) vb])).
    destruct (values val16 r) as [vs|]; [|exact IH].
    rewrite spec_vals4_group by (eapply val16_lt; eassumption).
    destruct (spec_vals 4 vs) as [bs|]; unfold agree in *; [|exact IH].
    rewrite IH, <- app_assoc. reflexivity.
Qed.

Theorem b16_decode_spec s :
  match spec_dec16 s with
  | Some bs => b16_decode s = Ok bs
  | None => exists e, b16_decode s = Err e
  end.
Proof.
  pose proof (b16_decode_from_none s []) as H.
  unfold spec_dec16. rewrite spec_dec_unpadded_vals.
  destruct (values val16 s) as [vs|]; [|exact H]. destruct (spec_vals 4 vs); exact H.
Qed.

Theorem b16_accepts_iff_wellformed s bs : b16_decode s = Ok bs <-> spec_dec16 s = Some bs.
Proof.
  pose proof (b16_decode_spec s) as H. destruct (spec_dec16 s) as [bs'|].
  - rewrite H. split; intros E; injection E as <-; reflexivity.
  - destruct H as [e H]. rewrite H. split; discriminate.
Qed.

Theorem b16_decode_total s : no_panic (b16_decode s) /\
  (spec_dec16 s = None -> exists e, b16_decode s = Err e).
Proof.
  pose proof (b16_decode_spec s) as H. destruct (spec_dec16 s) as [bs'|].
  - rewrite H. split; [exact I|discriminate].
  - destruct H as [e H]. rewrite H. split; [exact I|eauto].
Qed.

Theorem b16_decode_encode bs : octets bs ->
  exists t, b16_display bs = Ok t /\ b16_decode t = Ok bs.
Proof.
  intros H. exists (spec_enc16 bs). split; [apply b16_encode_is_rfc4648, H|].
  apply b16_accepts_iff_wellformed, spec16_decode_encode, H.
Qed.

Example b16_decode_examples :
  b16_decode [70; 48; 48; 102] = Ok [240; 15] /\ b16_decode [70] = Err E_SHORT /\
  b16_decode [48; 103] = Err (E_illegal 103) /\ b16_decode [49; 33] = Err (E_illegal 33).
Proof. vm_compute. repeat split. Qed.

(* ----------------------------------------- only alphabet characters pass *)

Lemma values_some_forall val s vs : values val s = Some vs -> Forall (fun c => val c <> None) s.
Proof.
  revert vs. induction s as [|c r IH]; intros vs H; [constructor|].
  cbn [values] in H. destruct (val c) eqn:V; [|discriminate].
  destruct (values val r) as [vr|]; [|discriminate].
  constructor; [rewrite V; discriminate|eapply IH; reflexivity].
Qed.

Theorem b64_accepts_only_alphabet s bs : b64_decode s = Ok bs ->
  Nat.modulo (length s) 4 = 0%nat /\ Forall (fun c => c = 61 \/ val64 c <> None) s.
Proof. intros H. apply b64_accepts_iff_wellformed in H. exact (spec_dec64_shape s bs H). Qed.

Theorem b32_accepts_only_alphabet s bs : b32_decode s = Ok bs -> Forall (fun c => val32 c <> None) s.
Proof.
  intros H. apply b32_accepts_iff_wellformed in H. unfold spec_dec32, spec_dec_unpadded in H.
  destruct (values val32 s) as [vs|] eqn:V; [|discriminate]. exact (values_some_forall _ _ _ V).
Qed.

Theorem b16_accepts_only_alphabet s bs : b16_decode s = Ok bs ->
  Forall (fun c => val16 c <> None) s /\ Nat.modulo (length s) 2 = 0%nat.
Proof.
  intros H. apply b16_accepts_iff_wellformed in H. unfold spec_dec16, spec_dec_unpadded in H.
  destruct (values val16 s) as [vs|] eqn:V; [|discriminate].
  split; [exact (values_some_forall _ _ _ V)|].
  assert (L : length vs = length s).
  { clear H. revert vs V. induction s as [|c r IH]; intros vs V; cbn [values] in V.
    - injection V as <-. reflexivity.
    - destruct (val16 c); [|discriminate]. destruct (values val16 r) as [vr|]; [|discriminate].
      injection V as <-. cbn [length]. f_equal. apply IH. reflexivity. }
  destruct (Nat.ltb_spec (Nat.modulo (4 * length vs) 8) 4) as [Lt|Ge]; [|discriminate].
  rewrite <- L. clear - Lt. revert Lt. generalize (length vs). intros n Lt. lia.
Qed.

Example only_alphabet_nonvacuous :
  b64_decode [90; 103; 61; 61] = Ok [102] /\ val64 90 <> None /\ val64 33 = None /\ val32 87 = None /\
  val16 71 = None /\ val16 102 = Some 15.
Proof. vm_compute. repeat split; discriminate. Qed.
