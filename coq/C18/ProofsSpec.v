(* C18 proofs, part 3: the RFC 4648 specification decoders invert the
   specification encoders (pure bit-list reasoning, no code involved). *)
From Coq Require Import NArith List Bool Lia ZArith.
From Coq Require Import ZifyN ZifyBool ZifyNat.
Import ListNotations.
From DV Require Import Base.Outcome C18.Gen C18.Model C18.Proofs C18.ProofsEnc.
Local Open Scope N_scope.
Ltac Zify.zify_post_hook ::= Z.div_mod_to_equations.

Notation tb := N.testbit.

Lemma octet_val8 c : octet c ->
  bits_val [tb c 7; tb c 6; tb c 5; tb c 4; tb c 3; tb c 2; tb c 1; tb c 0] = c.
Proof. intros H. rewrite <- bits8. apply octet_bits_val, H. Qed.

Lemma regroup_nil k : regroup k [] [] = [].
Proof. reflexivity. Qed.
Lemma regroup6_tail2 x y : regroup 6 [] [x; y] = [bits_val [x; y; false; false; false; false]].
Proof. reflexivity. Qed.
Lemma regroup6_tail4 x y z w : regroup 6 [] [x; y; z; w] = [bits_val [x; y; z; w; false; false]].
Proof. reflexivity. Qed.
Lemma regroup5_tail1 x : regroup 5 [] [x] = [bits_val [x; false; false; false; false]].
Proof. reflexivity. Qed.
Lemma regroup5_tail2 x y : regroup 5 [] [x; y] = [bits_val [x; y; false; false; false]].
Proof. reflexivity. Qed.
Lemma regroup5_tail3 x y z : regroup 5 [] [x; y; z] = [bits_val [x; y; z; false; false]].
Proof. reflexivity. Qed.
Lemma regroup5_tail4 x y z w : regroup 5 [] [x; y; z; w] = [bits_val [x; y; z; w; false]].
Proof. reflexivity. Qed.

Lemma values_syms (val : N -> option N) (alpha : list N) (n : N) :
  (forall v, v < n -> val (sym alpha v) = Some v) ->
  forall qs, Forall (fun q => q < n) qs -> values val (map (sym alpha) qs) = Some qs.
Proof.
  intros Hv qs H. induction H as [|q r Hq Hr IH]; [reflexivity|].
  cbn [map values]. rewrite (Hv q Hq), IH. reflexivity.
Qed.

(* ------------------------------------------------------------- Base64 *)

Ltac val64_bits :=
  repeat match goal with
  | |- context [val64 (sym alpha64 (bits_val [?a; ?b; ?c; ?d; ?e; ?f]))] =>
      rewrite (val64_sym _ (bits_val_lt6 a b c d e f))
  end.
Ltac pad_tests :=
  repeat match goal with
  | |- context [sym alpha64 (bits_val [?a; ?b; ?c; ?d; ?e; ?f]) =? 61] =>
      let E := fresh "E" in
      destruct (N.eqb_spec (sym alpha64 (bits_val [a; b; c; d; e; f])) 61) as [E|E];
      [exfalso; exact (sym64_not_pad _ (bits_val_lt6 a b c d e f) E)|]
  end.
Ltac dec6_simpl :=
  unfold dec6; cbn [flat_map app]; rewrite !bits_val_bits6; cbn [app take_octets].

Theorem spec64_decode_encode bs : octets bs -> spec_dec64 (spec_enc64 bs) = Some bs.
Proof.
  induction bs as [|a|a b|a b c r IH] using list_ind3; intros H.
  - reflexivity.
  - inv_octets H.
    change (spec_enc64 [a]) with
      [sym alpha64 (bits_val [tb a 7; tb a 6; tb a 5; tb a 4; tb a 3; tb a 2]);
       sym alpha64 (bits_val [tb a 1; tb a 0; false; false; false; false]); 61; 61].
    cbn [spec_dec64]. val64_bits. cbn [N.eqb Pos.eqb]. dec6_simpl.
    rewrite octet_val8 by assumption. reflexivity.
  - inv_octets H.
    change (spec_enc64 [a; b]) with
      [sym alpha64 (bits_val [tb a 7; tb a 6; tb a 5; tb a 4; tb a 3; tb a 2]);
       sym alpha64 (bits_val [tb a 1; tb a 0; tb b 7; tb b 6; tb b 5; tb b 4]);
       sym alpha64 (bits_val [tb b 3; tb b 2; tb b 1; tb b 0; false; false]); 61].
    cbn [spec_dec64]. val64_bits. pad_tests. cbn [N.eqb Pos.eqb]. dec6_simpl.
    rewrite !octet_val8 by assumption. reflexivity.
  - inv_octets H. specialize (IH H). rewrite spec_enc64_step.
    cbn [spec_dec64]. val64_bits.
    destruct (spec_enc64 r) as [|x l] eqn:E.
    + pad_tests. dec6_simpl. rewrite !octet_val8 by assumption.
      cbn [spec_dec64] in IH. injection IH as <-. reflexivity.
    + rewrite IH. dec6_simpl. rewrite !octet_val8 by assumption. reflexivity.
Qed.

(* ---------------------------------------------------------- Base32hex *)

Definition Q5 (bs : list N) : list N := regroup 5 [] (octet_bits bs).

Lemma mod8_step5 n : Nat.modulo (5 * (8 + n)) 8 = Nat.modulo (5 * n) 8.
Proof. lia. Qed.

Ltac lt32 := repeat (apply Forall_cons; [apply bits_val_lt5|]); try apply Forall_nil.

Lemma Q5_inverse bs : octets bs ->
  Forall (fun q => q < 32) (Q5 bs) /\
  take_octets (flat_map (bits_msb 5) (Q5 bs)) = bs /\
  (Nat.modulo (5 * length (Q5 bs)) 8 < 5)%nat.
Proof.
  unfold Q5.
  induction bs as [|a|a b|a b c|a b c d|a b c d e r IH] using list_ind5; intros H.
  - repeat split; [constructor|cbn; lia].
  - inv_octets H. unfold octet_bits. cbn [flat_map]. rewrite !bits8. cbn [app].
    rewrite !regroup5_step, regroup5_tail3.
    split; [lt32|]. split; [|cbn; lia].
    cbn [flat_map app]. rewrite !bits_val_bits5. cbn [app take_octets].
    rewrite !octet_val8 by assumption. reflexivity.
  - inv_octets H. unfold octet_bits. cbn [flat_map]. rewrite !bits8. cbn [app].
    rewrite !regroup5_step, regroup5_tail1.
    split; [lt32|]. split; [|cbn; lia].
    cbn [flat_map app]. rewrite !bits_val_bits5. cbn [app take_octets].
    rewrite !octet_val8 by assumption. reflexivity.
  - inv_octets H. unfold octet_bits. cbn [flat_map]. rewrite !bits8. cbn [app].
    rewrite !regroup5_step, regroup5_tail4.
    split; [lt32|]. split; [|cbn; lia].
    cbn [flat_map app]. rewrite !bits_val_bits5. cbn [app take_octets].
    rewrite !octet_val8 by assumption. reflexivity.
  - inv_octets H. unfold octet_bits. cbn [flat_map]. rewrite !bits8. cbn [app].
    rewrite !regroup5_step, regroup5_tail2.
    split; [lt32|]. split; [|cbn; lia].
    cbn [flat_map app]. rewrite !bits_val_bits5. cbn [app take_octets].
    rewrite !octet_val8 by assumption. reflexivity.
  - inv_octets H. destruct (IH H) as (I1 & I2 & I3).
    unfold octet_bits in *. cbn [flat_map]. rewrite !bits8. cbn [app].
    rewrite !regroup5_step.
    split; [repeat (apply Forall_cons; [apply bits_val_lt5|]); exact I1|].
    split.
    + cbn [flat_map]. rewrite !bits_val_bits5. cbn [app take_octets].
      rewrite !octet_val8 by assumption. rewrite I2. reflexivity.
    + cbn [length].
      change (S (S (S (S (S (S (S (S (length (regroup 5 [] (flat_map (bits_msb 8) r)))))))))))
        with (8 + length (regroup 5 [] (flat_map (bits_msb 8) r)))%nat.
      rewrite mod8_step5. exact I3.
Qed.

Theorem spec32_decode_encode bs : octets bs -> spec_dec32 (spec_enc32 bs) = Some bs.
Proof.
  intros H. destruct (Q5_inverse bs H) as (I1 & I2 & I3).
  unfold spec_dec32, spec_dec_unpadded, spec_enc32. fold (Q5 bs).
  rewrite (values_syms val32 alpha32hex 32 val32_sym _ I1).
  destruct (Nat.ltb_spec (Nat.modulo (5 * length (Q5 bs)) 8) 5); [|lia].
  rewrite I2. reflexivity.
Qed.

(* ------------------------------------------------------------- Base16 *)

Definition Q4 (bs : list N) : list N := regroup 4 [] (octet_bits bs).

Lemma mod8_step4 n : Nat.modulo (4 * (2 + n)) 8 = Nat.modulo (4 * n) 8.
Proof. lia. Qed.

Lemma Q4_inverse bs : octets bs ->
  Forall (fun q => q < 16) (Q4 bs) /\
  take_octets (flat_map (bits_msb 4) (Q4 bs)) = bs /\
  (Nat.modulo (4 * length (Q4 bs)) 8 < 4)%nat.
Proof.
  unfold Q4. induction bs as [|c r IH]; intros H.
  - repeat split; [constructor|cbn; lia].
  - inv_octets H. destruct (IH H) as (I1 & I2 & I3).
    unfold octet_bits in *. cbn [flat_map]. rewrite !bits8. cbn [app].
    rewrite !regroup4_step.
    split; [repeat (apply Forall_cons; [apply bits_val_lt4|]); exact I1|].
    split.
    + cbn [flat_map]. rewrite !bits_val_bits4. cbn [app take_octets].
      rewrite !octet_val8 by assumption. rewrite I2. reflexivity.
    + cbn [length].
      change (S (S (length (regroup 4 [] (flat_map (bits_msb 8) r)))))
        with (2 + length (regroup 4 [] (flat_map (bits_msb 8) r)))%nat.
      rewrite mod8_step4. exact I3.
Qed.

Theorem spec16_decode_encode bs : octets bs -> spec_dec16 (spec_enc16 bs) = Some bs.
Proof.
  intros H. destruct (Q4_inverse bs H) as (I1 & I2 & I3).
  unfold spec_dec16, spec_dec_unpadded, spec_enc16. fold (Q4 bs).
  rewrite (values_syms val16 alpha16 16 val16_sym _ I1).
  destruct (Nat.ltb_spec (Nat.modulo (4 * length (Q4 bs)) 8) 4); [|lia].
  rewrite I2. reflexivity.
Qed.

Example spec_roundtrip_examples :
  spec_dec64 [90; 103; 61; 61] = Some [102] /\ spec_dec64 [90; 103; 61; 97] = None /\
  spec_dec32 [67; 79] = Some [102] /\ spec_dec32 [99; 111] = Some [102] /\ spec_dec32 [67] = None /\
  spec_dec16 [102; 48] = Some [240] /\ spec_dec16 [70] = None.
Proof. vm_compute. repeat split. Qed.

(* shape of well-formed Base64 text: length a multiple of 4, every character
   in the alphabet or '=' *)
Lemma spec_dec64_shape s bs : spec_dec64 s = Some bs ->
  Nat.modulo (length s) 4 = 0%nat /\ Forall (fun c => c = 61 \/ val64 c <> None) s.
Proof.
  revert bs.
  induction s as [|a|a b|a b c|a b c d r IH] using list_ind4; intros bs H; try discriminate.
  - split; [reflexivity|constructor].
  - cbn [spec_dec64] in H.
    assert (Hs : (val64 a <> None /\ val64 b <> None /\ (c = 61 \/ val64 c <> None) /\
                  (d = 61 \/ val64 d <> None)) /\
                 (r = [] \/ exists bs', spec_dec64 r = Some bs')).
    { destruct r as [|x l].
      - split; [|left; reflexivity].
        destruct (val64 a); [|discriminate]. destruct (val64 b); [|discriminate].
        destruct (N.eqb_spec c 61).
        + destruct (N.eqb_spec d 61); [|discriminate]. repeat split; auto; discriminate.
        + destruct (val64 c); [|discriminate].
          destruct (N.eqb_spec d 61).
          * repeat split; auto; try discriminate. right; discriminate.
          * destruct (val64 d); [|discriminate]. repeat split; try discriminate; right; discriminate.
      - destruct (val64 a); [|discriminate]. destruct (val64 b); [|discriminate].
        destruct (val64 c); [|discriminate]. destruct (val64 d); [|discriminate].
        destruct (spec_dec64 (x :: l)) as [bs'|]; [|discriminate].
        split; [repeat split; try discriminate; right; discriminate|right; eauto]. }
    destruct Hs as [(Ha & Hb & Hc & Hd) Hr].
    assert (R : Nat.modulo (length r) 4 = 0%nat /\ Forall (fun c => c = 61 \/ val64 c <> None) r).
    { destruct Hr as [->|[bs' Hr]]; [split; [reflexivity|constructor]|exact (IH bs' Hr)]. }
    destruct R as [R1 R2]. split.
    + change (length (a :: b :: c :: d :: r)) with (4 + length r)%nat.
      clear - R1. revert R1. generalize (length r). intros n Hn. lia.
    + repeat (constructor; auto).
Qed.
