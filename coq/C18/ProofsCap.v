(* C18 proofs, part 10: bounded octets builders (ShortBuf).  The *_cap model
   with cap = None is the unbounded model of the other files; for every
   capacity the per-push API is total and its errors are sticky. *)
From Coq Require Import NArith List Bool Lia ZArith.
From Coq Require Import ZifyN ZifyBool ZifyNat.
Import ListNotations.
From DV Require Import Base.Outcome C18.Gen C18.Model C18.Proofs C18.ProofsEnc C18.ProofsSpec
  C18.ProofsDec64 C18.ProofsDec32 C18.ProofsApi C18.ProofsApi2 C18.ProofsPostFix.
Local Open Scope N_scope.
Ltac Zify.zify_post_hook ::= Z.div_mod_to_equations.

(* ------------------------------------------------ generic driver lemmas *)

Section DriveFacts.
  Variable D : Type.
  Variables push push' : D -> N -> outcome (D * option N).
  Variables finalize finalize' : D -> outcome (list N).
  Hypothesis push_ext : forall d ch, push d ch = push' d ch.
  Hypothesis fin_ext : forall d, finalize d = finalize' d.

  Lemma decode_from_g_ext s : forall d,
    decode_from_g D push finalize d s = decode_from_g D push' finalize' d s.
  Proof.
    induction s as [|ch r IH]; intros d; cbn [decode_from_g]; [apply fin_ext|].
    rewrite push_ext. destruct (push' d ch) as [[d' [e|]]| | |]; auto.
  Qed.

  Lemma run_g_ext s : forall d, run_g D push d s = run_g D push' d s.
  Proof.
    induction s as [|ch r IH]; intros d; cbn [run_g]; [reflexivity|].
    rewrite push_ext. destruct (push' d ch) as [[d' res]| | |]; auto. rewrite IH. reflexivity.
  Qed.

  Lemma push_all_g_ext d s : push_all_g D push finalize d s = push_all_g D push' finalize' d s.
  Proof.
    unfold push_all_g. rewrite run_g_ext. destruct (run_g D push' d s) as [tr [d'| | |]]; auto.
    rewrite fin_ext. reflexivity.
  Qed.
End DriveFacts.

Section RunInv.
  Variable D : Type.
  Variable push : D -> N -> outcome (D * option N).
  Variable finalize : D -> outcome (list N).
  Variable inv : D -> Prop.
  Variable tgt : D -> target.
  Hypothesis push_ok : forall d ch, inv d ->
    exists d' res, push d ch = Ok (d', res) /\ res = target_err (tgt d') /\ inv d' /\
                   (is_err (tgt d) -> is_err (tgt d')).
  Hypothesis fin_ok : forall d, inv d ->
    no_panic (finalize d) /\ (is_err (tgt d) -> exists e, finalize d = Err e).

  Lemma run_g_inv s : forall d, inv d ->
    exists d', snd (run_g D push d s) = Ok d' /\ inv d' /\
      (is_err (tgt d) -> is_err (tgt d') /\ ~ In None (fst (run_g D push d s))) /\
      ((exists e, In (Some e) (fst (run_g D push d s))) -> is_err (tgt d')).
  Proof.
    induction s as [|ch r IH]; intros d Hi.
    - cbn. exists d. split; [reflexivity|]. split; [exact Hi|].
      split; [intros X; split; [exact X|intros []]|intros [e []]].
    - cbn [run_g]. destruct (push_ok d ch Hi) as (d1 & res & E & -> & I1 & K1). rewrite E.
      destruct (IH d1 I1) as (d' & R & I' & K' & S').
      destruct (run_g D push d1 r) as [tr fin]. cbn [fst snd] in *.
      exists d'. split; [exact R|]. split; [exact I'|]. split.
      + intros X. destruct (K' (K1 X)) as [A B]. split; [exact A|].
        intros [Y|Y]; [|auto]. destruct (K1 X) as [e0 Z]. rewrite Z in Y. discriminate.
      + intros [e [Y|Y]].
        * apply K'. destruct (tgt d1) as [l|e1|p|]; try discriminate. eexists; reflexivity.
        * apply S'. eauto.
  Qed.

  Lemma push_all_g_total d0 s : inv d0 -> no_panic (snd (push_all_g D push finalize d0 s)).
  Proof.
    intros Hi. unfold push_all_g.
    destruct (run_g_inv s d0 Hi) as (d & R & I1 & _).
    destruct (run_g D push d0 s) as [tr fin]. cbn [snd] in *. rewrite R.
    destruct (fin_ok d I1) as [F _]. destruct (finalize d); try contradiction; exact I.
  Qed.

  Lemma push_all_g_sticky d0 s : inv d0 ->
    (exists e, In (Some e) (fst (push_all_g D push finalize d0 s))) ->
    exists e, snd (push_all_g D push finalize d0 s) = Err e.
  Proof.
    intros Hi. unfold push_all_g.
    destruct (run_g_inv s d0 Hi) as (d & R & I1 & _ & S).
    destruct (run_g D push d0 s) as [tr fin]. cbn [fst snd] in *. rewrite R. intros EX.
    destruct (fin_ok d I1) as [_ F]. destruct (F (S EX)) as [e Fe]. rewrite Fe. eauto.
  Qed.

  (* once an error is held, every further push reports an error *)
  Lemma run_g_keeps_failing d s : inv d -> is_err (tgt d) -> ~ In None (fst (run_g D push d s)).
  Proof. intros Hi X. destruct (run_g_inv s d Hi) as (d' & _ & _ & K & _). apply K, X. Qed.
End RunInv.

(* ----------------------------------------------------- append facts *)

Lemma append_cap_okerr cap t v : okerr t -> okerr (append_cap cap t v).
Proof. destruct t as [l| | |]; cbn; auto. destruct (fits cap l); exact (fun _ => I). Qed.
Lemma append_cap_err cap t v : is_err t -> is_err (append_cap cap t v).
Proof. intros [e ->]. eexists; reflexivity. Qed.
Lemma fold_append_okerr cap l : forall t, okerr t -> okerr (fold_left (append_cap cap) l t).
Proof. induction l as [|v r IH]; intros t H; [exact H|]. apply IH, append_cap_okerr, H. Qed.
Lemma fold_append_err cap l : forall t, is_err t -> is_err (fold_left (append_cap cap) l t).
Proof. induction l as [|v r IH]; intros t H; [exact H|]. apply IH, append_cap_err, H. Qed.
Lemma okerr_is_err_or_ok t : okerr t -> is_err t \/ exists l, t = Ok l.
Proof. destruct t as [l|e| |]; cbn; intros H; try contradiction; [right|left]; eexists; reflexivity. Qed.

Lemma append_cap_none t v : append_cap None t v = append t v.
Proof. destruct t; reflexivity. Qed.
Lemma fold_append_none l : forall t, fold_left (append_cap None) l t = fold_left append l t.
Proof. induction l as [|v r IH]; intros t; [reflexivity|]. cbn [fold_left]. rewrite append_cap_none. apply IH. Qed.

(* ---------------------------------------------------------- Base32hex *)

Lemma buf8_set_ok b n v : n < 8 -> exists b', buf8_set b n v = Ok b'.
Proof.
  destruct b as [[[[[[[x0 x1] x2] x3] x4] x5] x6] x7]. intros H. unfold buf8_set.
  assert (C : n = 0 \/ n = 1 \/ n = 2 \/ n = 3 \/ n = 4 \/ n = 5 \/ n = 6 \/ n = 7) by lia.
  destruct C as [-> | [-> | [-> | [-> | [-> | [-> | [-> | ->]]]]]]]; eexists; reflexivity.
Qed.

Lemma b32_push_cap_ok cap d ch : inv32 d ->
  exists d' res, b32_push_cap cap d ch = Ok (d', res) /\ res = target_err (d32_target d') /\ inv32 d' /\
                 (is_err (d32_target d) -> is_err (d32_target d')).
Proof.
  destruct d as [b n t]. unfold inv32. cbn [d32_next d32_target]. intros [Hn Ht].
  unfold b32_push_cap. cbn [d32_buf d32_next d32_target]. cbv [b32_ascii_max].
  destruct (N.ltb_spec 127 ch) as [G|L].
  { eexists _, _. split; [reflexivity|]. split; [reflexivity|]. cbn. repeat split; auto.
    intros _. eexists; reflexivity. }
  destruct (dec_tab32_ok ch) as (v & E1 & _); [lia|]. rewrite E1. cbn [bind].
  destruct (v =? b32_illegal_val).
  { eexists _, _. split; [reflexivity|]. split; [reflexivity|]. cbn. repeat split; auto.
    intros _. eexists; reflexivity. }
  destruct (buf8_set_ok b n v Hn) as [b' Eb]. rewrite Eb. cbn [bind].
  eexists _, _. split; [reflexivity|]. split; [reflexivity|].
  cbv [b32_group]. destruct (N.eqb_spec (n + 1) 8) as [E8|N8]; cbn [d32_next d32_target].
  - split; [split; [lia|apply fold_append_okerr, Ht]|]. apply fold_append_err.
  - split; [split; [lia|exact Ht]|]. auto.
Qed.

Lemma b32_finalize_cap_ok cap d : inv32 d ->
  no_panic (b32_finalize_cap cap d) /\ (is_err (d32_target d) -> exists e, b32_finalize_cap cap d = Err e).
Proof.
  destruct d as [b n t]. unfold inv32. cbn [d32_next d32_target]. intros [Hn Ht].
  destruct t as [l|e|p|]; try contradiction.
  - split; [|intros [e X]; discriminate].
    unfold b32_finalize_cap. cbn [d32_target d32_next d32_buf].
    assert (K : forall k, no_panic (fold_left (append_cap cap) (firstn k (b32_octets b)) (Ok l))).
    { intros k. pose proof (fold_append_okerr cap (firstn k (b32_octets b)) (Ok l) I) as O.
      destruct (fold_left _ _ _); try contradiction; exact I. }
    assert (C : n = 0 \/ n = 1 \/ n = 2 \/ n = 3 \/ n = 4 \/ n = 5 \/ n = 6 \/ n = 7) by lia.
    destruct C as [-> | [-> | [-> | [-> | [-> | [-> | [-> | ->]]]]]]];
      cbn [N.eqb Pos.eqb existsb b32_fin_short orb assoc b32_fin_partial]; try exact I; apply K.
  - split; [exact I|]. intros _. eexists. reflexivity.
Qed.

Theorem b32_cap_api_total cap s : no_panic (snd (b32_push_all_cap cap s)).
Proof.
  apply (push_all_g_total dec32 _ _ inv32 d32_target (b32_push_cap_ok cap) (b32_finalize_cap_ok cap)).
  exact inv32_new.
Qed.

Theorem b32_cap_errors_sticky cap s :
  (exists e, In (Some e) (fst (b32_push_all_cap cap s))) -> exists e, snd (b32_push_all_cap cap s) = Err e.
Proof.
  apply (push_all_g_sticky dec32 _ _ inv32 d32_target (b32_push_cap_ok cap) (b32_finalize_cap_ok cap)).
  exact inv32_new.
Qed.

(* ------------------------------------------------------------- Base16 *)

Lemma b16_push_cap_ok cap d ch : inv16 d ->
  exists d' res, b16_push_cap cap d ch = Ok (d', res) /\ res = target_err (d16_target d') /\ inv16 d' /\
                 (is_err (d16_target d) -> is_err (d16_target d')).
Proof.
  destruct d as [b t]. unfold inv16. cbn [d16_target]. intros Ht.
  unfold b16_push_cap. change b16_radix with 16. rewrite to_digit16_is_val16. cbn [bind d16_buf d16_target].
  destruct (val16 ch) as [v|].
  2:{ eexists _, _. split; [reflexivity|]. split; [reflexivity|]. cbn. split; auto. intros _. eexists; reflexivity. }
  destruct b as [u|]; (eexists _, _; split; [reflexivity|]; split; [reflexivity|]; cbn [d16_target]).
  - split; [apply append_cap_okerr, Ht|apply append_cap_err].
  - split; [exact Ht|auto].
Qed.

Theorem b16_cap_api_total cap s : no_panic (snd (b16_push_all_cap cap s)).
Proof.
  apply (push_all_g_total dec16 _ _ inv16 d16_target (b16_push_cap_ok cap) b16_finalize_inv). exact I.
Qed.

Theorem b16_cap_errors_sticky cap s :
  (exists e, In (Some e) (fst (b16_push_all_cap cap s))) -> exists e, snd (b16_push_all_cap cap s) = Err e.
Proof.
  apply (push_all_g_sticky dec16 _ _ inv16 d16_target (b16_push_cap_ok cap) b16_finalize_inv). exact I.
Qed.

(* ------------------------------------------------------------- Base64 *)

Lemma b64_push_char_cap_sem cap d ch : d64_next d <> 240 ->
  b64_push_char_cap cap d ch =
  if ch =? 61 then (if d64_next d <? 2 then Ok (d, Some (E_illegal ch)) else b64_cont_cap cap d 128)
  else match val64 ch with
       | None => Ok (d, Some (E_illegal ch))
       | Some v => b64_cont_cap cap d v
       end.
Proof.
  intros Hn. unfold b64_push_char_cap.
  cbv [b64_push_eof b64_pad b64_ascii_max b64_push_pad_min b64_push_pad_val].
  destruct (N.eqb_spec (d64_next d) 240); [contradiction|].
  destruct (N.eqb_spec ch 61); [reflexivity|].
  destruct (N.ltb_spec 127 ch) as [G|L].
  - rewrite val64_none_high by exact G. reflexivity.
  - destruct (dec_tab64_ok ch) as (v & E1 & E2); [lia|].
    rewrite E1. cbn [bind]. rewrite <- E2.
    destruct (v =? b64_illegal_val); reflexivity.
Qed.

Lemma b64_cont_cap_ok cap b n acc v : n < 4 ->
  exists d' res, b64_cont_cap cap (mk64 b n (Ok acc)) v = Ok (d', res) /\
    (res = None -> good64 d' /\ exists acc', d64_target d' = Ok acc').
Proof.
  destruct b as [[[x0 x1] x2] x3]. intros Hn.
  assert (C : n = 0 \/ n = 1 \/ n = 2 \/ n = 3) by lia.
  destruct C as [-> | [-> | [-> | ->]]].
  1-3: (eexists _, _; split; [reflexivity|]; intros _; split; [left; cbn; split; [lia|eauto]|cbn; eauto]).
  unfold b64_cont_cap, try_append. cbn [d64_buf d64_next d64_target buf4_set N.eqb Pos.eqb bind N.add Pos.add].
  cbv [b64_group]. cbn [N.eqb Pos.eqb Pos.succ].
  destruct (fits cap acc).
  2:{ eexists _, _. split; [reflexivity|]. discriminate. }
  destruct (negb (x2 =? b64_push_pad_val)).
  - destruct (fits cap (acc ++ [b64_oct0 x0 x1 x2 v])).
    2:{ eexists _, _. split; [reflexivity|]. discriminate. }
    destruct (negb (v =? b64_push_pad_val)).
    + destruct (x2 =? b64_push_pad_val).
      * eexists _, _. split; [reflexivity|]. discriminate.
      * destruct (fits cap _).
        -- eexists _, _. split; [reflexivity|]. intros _. split; [left; cbn; split; [lia|eauto]|cbn; eauto].
        -- eexists _, _. split; [reflexivity|]. discriminate.
    + eexists _, _. split; [reflexivity|]. intros _. split; [right; cbn; split; [reflexivity|exact I]|cbn; eauto].
  - destruct (negb (v =? b64_push_pad_val)).
    + destruct (x2 =? b64_push_pad_val).
      * eexists _, _. split; [reflexivity|]. discriminate.
      * destruct (fits cap _).
        -- eexists _, _. split; [reflexivity|]. intros _. split; [left; cbn; split; [lia|eauto]|cbn; eauto].
        -- eexists _, _. split; [reflexivity|]. discriminate.
    + eexists _, _. split; [reflexivity|]. intros _. split; [right; cbn; split; [reflexivity|exact I]|cbn; eauto].
Qed.

Lemma b64_push_char_cap_ok cap d ch : d64_next d < 4 -> (exists acc, d64_target d = Ok acc) ->
  exists d' res, b64_push_char_cap cap d ch = Ok (d', res) /\
    (res = None -> good64 d' /\ exists acc', d64_target d' = Ok acc').
Proof.
  destruct d as [b n t]. cbn [d64_next d64_target]. intros Hn [acc ->].
  rewrite b64_push_char_cap_sem by (cbn; lia). cbn [d64_next].
  destruct (ch =? 61).
  - destruct (n <? 2).
    + eexists _, _. split; [reflexivity|]. discriminate.
    + apply b64_cont_cap_ok, Hn.
  - destruct (val64 ch).
    + apply b64_cont_cap_ok, Hn.
    + eexists _, _. split; [reflexivity|]. discriminate.
Qed.

Lemma b64_push_char_cap_at_eof cap d ch : d64_next d = 240 ->
  b64_push_char_cap cap d ch = Ok (mk64 (d64_buf d) 240 (Err E_TRAILING), Some E_TRAILING).
Proof. intros H. unfold b64_push_char_cap. rewrite H. reflexivity. Qed.

(* the repaired push over any builder *)
Lemma b64_push_cap_ok cap d ch : invF d ->
  exists d' res, b64_push_cap cap true d ch = Ok (d', res) /\ res = target_err (d64_target d') /\
                 invF d' /\ (is_err (d64_target d) -> is_err (d64_target d')).
Proof.
  intros [G|[e T]].
  2:{ exists d, (Some e). cbn [b64_push_cap]. rewrite T.
      split; [reflexivity|]. split; [reflexivity|]. split; [right; exists e; exact T|]. auto. }
  destruct G as [[Hn [acc T]]|[He Ht]].
  - cbn [b64_push_cap]. rewrite T.
    destruct (b64_push_char_cap_ok cap d ch Hn (ex_intro _ acc T)) as (d' & res & E & C). rewrite E.
    destruct res as [e|].
    + eexists _, _. split; [reflexivity|]. cbn. split; [reflexivity|]. split; [right; eexists; reflexivity|].
      intros _. eexists; reflexivity.
    + destruct (C eq_refl) as [G' [acc' T']].
      exists d', None. split; [reflexivity|]. rewrite T'. split; [reflexivity|]. split; [left; exact G'|].
      intros [e0 X]. discriminate X.
  - destruct (d64_target d) as [acc|e|p|] eqn:T; try contradiction.
    + cbn [b64_push_cap]. rewrite T, (b64_push_char_cap_at_eof cap d ch He).
      eexists _, _. split; [reflexivity|]. cbn. split; [reflexivity|]. split; [right; eexists; reflexivity|].
      intros _. eexists; reflexivity.
    + exists d, (Some e). cbn [b64_push_cap]. rewrite T.
      split; [reflexivity|]. split; [reflexivity|]. split; [right; exists e; exact T|]. auto.
Qed.

Definition b64_push_all_cap_fix (cap : option N) (s : list N) :=
  push_all_g dec64 (b64_push_cap cap true) b64_finalize b64_new s.

Theorem b64_cap_api_total cap s : no_panic (snd (b64_push_all_cap_fix cap s)).
Proof.
  apply (push_all_g_total dec64 _ _ invF d64_target (b64_push_cap_ok cap) b64_finalize_invF).
  left. exact good64_new.
Qed.

Theorem b64_cap_errors_sticky cap s :
  (exists e, In (Some e) (fst (b64_push_all_cap_fix cap s))) ->
  exists e, snd (b64_push_all_cap_fix cap s) = Err e.
Proof.
  apply (push_all_g_sticky dec64 _ _ invF d64_target (b64_push_cap_ok cap) b64_finalize_invF).
  left. exact good64_new.
Qed.

(* with the pinned push (no wrapper) a ShortBuf inside a group leaves next = 4
   exactly like the in-group TrailingInput did: same defect, same repair *)
Example b64_cap_pinned_shortbuf_panics :
  push_all_g dec64 (b64_push_cap (Some 0) false) b64_finalize b64_new [90; 103; 61; 61; 65] =
    ([None; None; None; Some E_SHORTBUF], Panic 2) /\
  b64_push_all_cap_fix (Some 0) [90; 103; 61; 61; 65] =
    ([None; None; None; Some E_SHORTBUF; Some E_SHORTBUF], Err E_SHORTBUF) /\
  b64_push_all_cap_fix (Some 1) [90; 103; 61; 61] = ([None; None; None; None], Ok [102]) /\
  b32_push_all_cap (Some 0) [67; 79] = ([None; None], Err E_SHORTBUF) /\
  b16_push_all_cap (Some 1) [70; 48; 48; 102] = ([None; None; None; Some E_SHORTBUF], Err E_SHORTBUF).
Proof. vm_compute. repeat split. Qed.

(* ------------------------------------- cap = None is the unbounded model *)

Lemma b64_cont_cap_none d v : b64_cont_cap None d v = b64_cont d v.
Proof.
  destruct d as [[[[x0 x1] x2] x3] n t]. unfold b64_cont_cap, b64_cont, try_append.
  cbn [fits d64_buf d64_next d64_target].
  destruct (buf4_set (x0, x1, x2, x3) n v) as [[[[y0 y1] y2] y3]| | |]; cbn [bind]; try reflexivity.
  destruct (n + 1 =? b64_group); [|reflexivity].
  destruct t as [t0| | |]; try reflexivity.
  destruct (y2 =? b64_push_pad_val); reflexivity.
Qed.

Lemma b64_push_char_cap_none d ch : b64_push_char_cap None d ch = b64_push_char d ch.
Proof.
  rewrite b64_push_unfold. unfold b64_push_char_cap. rewrite !b64_cont_cap_none.
  destruct (tab_get b64_decode_tab ch); cbn [bind]; try reflexivity.
  rewrite b64_cont_cap_none. reflexivity.
Qed.

Lemma b64_push_cap_none sticky d ch : b64_push_cap None sticky d ch = b64_push_with sticky d ch.
Proof. unfold b64_push_cap, b64_push_with. rewrite b64_push_char_cap_none. reflexivity. Qed.

Lemma b32_push_cap_none d ch : b32_push_cap None d ch = b32_push d ch.
Proof.
  unfold b32_push_cap, b32_push.
  destruct (b32_ascii_max <? ch); [reflexivity|].
  destruct (tab_get b32_decode_tab ch) as [v| | |]; reflexivity.
Qed.

Lemma b32_finalize_cap_none d : b32_finalize_cap None d = b32_finalize d.
Proof. unfold b32_finalize_cap, b32_finalize. destruct (d32_target d); reflexivity. Qed.

Lemma b16_push_cap_none d ch : b16_push_cap None d ch = b16_push d ch.
Proof.
  unfold b16_push_cap, b16_push. destruct (to_digit ch b16_radix) as [[v|]| | |]; reflexivity.
Qed.

(* the generic drivers instantiated with the unbounded functions are the
   fixpoints of Model.v *)
Lemma b64_decode_from_g sticky s : forall d,
  decode_from_g dec64 (b64_push_with sticky) b64_finalize d s = b64_decode_from_with sticky d s.
Proof. induction s as [|ch r IH]; intros d; [reflexivity|]. cbn [decode_from_g b64_decode_from_with].
  destruct (b64_push_with sticky d ch) as [[d' [e|]]| | |]; auto. Qed.
Lemma b64_run_g sticky s : forall d, run_g dec64 (b64_push_with sticky) d s = b64_run_with sticky d s.
Proof. induction s as [|ch r IH]; intros d; [reflexivity|]. cbn [run_g b64_run_with].
  destruct (b64_push_with sticky d ch) as [[d' res]| | |]; auto; try (rewrite IH; reflexivity). Qed.
Lemma b32_decode_from_g s : forall d, decode_from_g dec32 b32_push b32_finalize d s = b32_decode_from d s.
Proof. induction s as [|ch r IH]; intros d; [reflexivity|]. cbn [decode_from_g b32_decode_from].
  destruct (b32_push d ch) as [[d' [e|]]| | |]; auto. Qed.
Lemma b32_run_g s : forall d, run_g dec32 b32_push d s = b32_run d s.
Proof. induction s as [|ch r IH]; intros d; [reflexivity|]. cbn [run_g b32_run].
  destruct (b32_push d ch) as [[d' res]| | |]; auto; try (rewrite IH; reflexivity). Qed.
Lemma b16_decode_from_g s : forall d, decode_from_g dec16 b16_push b16_finalize d s = b16_decode_from d s.
Proof. induction s as [|ch r IH]; intros d; [reflexivity|]. cbn [decode_from_g b16_decode_from].
  destruct (b16_push d ch) as [[d' [e|]]| | |]; auto. Qed.
Lemma b16_run_g s : forall d, run_g dec16 b16_push d s = b16_run d s.
Proof. induction s as [|ch r IH]; intros d; [reflexivity|]. cbn [run_g b16_run].
  destruct (b16_push d ch) as [[d' res]| | |]; auto; try (rewrite IH; reflexivity). Qed.

Lemma cap_none_64 s : b64_decode_cap None s = b64_decode s /\ b64_push_all_cap None s = b64_push_all s.
Proof.
  split.
  - unfold b64_decode_cap, b64_decode.
    rewrite (decode_from_g_ext dec64 _ (b64_push_with b64_push_sticky) b64_finalize b64_finalize
               (b64_push_cap_none _) (fun _ => eq_refl)).
    apply b64_decode_from_g.
  - unfold b64_push_all_cap, b64_push_all, b64_push_all_with.
    rewrite (push_all_g_ext dec64 _ (b64_push_with b64_push_sticky) b64_finalize b64_finalize
               (b64_push_cap_none _) (fun _ => eq_refl)).
    unfold push_all_g. rewrite b64_run_g. reflexivity.
Qed.
Lemma cap_none_32 s : b32_decode_cap None s = b32_decode s /\ b32_push_all_cap None s = b32_push_all s.
Proof.
  split.
  - unfold b32_decode_cap, b32_decode.
    rewrite (decode_from_g_ext dec32 _ b32_push _ b32_finalize b32_push_cap_none b32_finalize_cap_none).
    apply b32_decode_from_g.
  - unfold b32_push_all_cap, b32_push_all.
    rewrite (push_all_g_ext dec32 _ b32_push _ b32_finalize b32_push_cap_none b32_finalize_cap_none).
    unfold push_all_g. rewrite b32_run_g. reflexivity.
Qed.
Lemma cap_none_16 s : b16_decode_cap None s = b16_decode s /\ b16_push_all_cap None s = b16_push_all s.
Proof.
  split.
  - unfold b16_decode_cap, b16_decode.
    rewrite (decode_from_g_ext dec16 _ b16_push b16_finalize b16_finalize b16_push_cap_none (fun _ => eq_refl)).
    apply b16_decode_from_g.
  - unfold b16_push_all_cap, b16_push_all.
    rewrite (push_all_g_ext dec16 _ b16_push b16_finalize b16_finalize b16_push_cap_none (fun _ => eq_refl)).
    unfold push_all_g. rewrite b16_run_g. reflexivity.
Qed.

Theorem cap_none_is_unbounded s :
  (b64_decode_cap None s = b64_decode s /\ b64_push_all_cap None s = b64_push_all s) /\
  (b32_decode_cap None s = b32_decode s /\ b32_push_all_cap None s = b32_push_all s) /\
  (b16_decode_cap None s = b16_decode s /\ b16_push_all_cap None s = b16_push_all s).
Proof. exact (conj (cap_none_64 s) (conj (cap_none_32 s) (cap_none_16 s))). Qed.

(* ------------------------------------------------------------------ *)
(* `decode` into a bounded builder: accepted iff the text is accepted by the
   unbounded `decode` and the octets fit; ShortBuf if they do not fit *)

Definition lenN (l : list N) : N := N.of_nat (length l).
Lemma lenN_app a b : lenN (a ++ b) = lenN a + lenN b.
Proof. unfold lenN. rewrite app_length. lia. Qed.
Lemma fits_spec c l : fits (Some c) l = (lenN l + 1 <=? c).
Proof. reflexivity. Qed.

Section CapSim.
  Variable D : Type.
  Variables push_u push_c : D -> N -> outcome (D * option N).
  Variables fin_u fin_c : D -> outcome (list N).
  Variable inv : D -> Prop.
  Variable tgt : D -> target.
  Variable c : N.
  Hypothesis Hpush : forall d ch acc, inv d -> tgt d = Ok acc ->
    exists du res, push_u d ch = Ok (du, res) /\
      match res with
      | None => inv du /\ exists accu, tgt du = Ok accu /\ lenN acc <= lenN accu /\
                (lenN acc <= c ->
                   if lenN accu <=? c then push_c d ch = Ok (du, None)
                   else exists d', push_c d ch = Ok (d', Some E_SHORTBUF))
      | Some e => lenN acc <= c -> exists d' e', push_c d ch = Ok (d', Some e')
      end.
  Hypothesis Hfin : forall d acc, inv d -> tgt d = Ok acc ->
    match fin_u d with
    | Ok bs => lenN acc <= lenN bs /\
               (lenN acc <= c -> if lenN bs <=? c then fin_c d = Ok bs else fin_c d = Err E_SHORTBUF)
    | Err e => lenN acc <= c -> exists e', fin_c d = Err e'
    | _ => False
    end.

  Lemma cap_mono s : forall d acc, inv d -> tgt d = Ok acc ->
    match decode_from_g D push_u fin_u d s with
    | Ok bs => lenN acc <= lenN bs
    | Err _ => True
    | _ => False
    end.
  Proof.
    induction s as [|ch r IH]; intros d acc Hi Ht; cbn [decode_from_g].
    - pose proof (Hfin d acc Hi Ht) as F. destruct (fin_u d); try contradiction; [apply F|exact I].
    - destruct (Hpush d ch acc Hi Ht) as (du & res & E & R). rewrite E.
      destruct res as [e|]; [exact I|].
      destruct R as (Hi' & accu & Ht' & L & _).
      pose proof (IH du accu Hi' Ht') as M. destruct (decode_from_g D push_u fin_u du r); try contradiction; [lia|exact I].
  Qed.

  Lemma cap_sim s : forall d acc, inv d -> tgt d = Ok acc -> lenN acc <= c ->
    match decode_from_g D push_u fin_u d s with
    | Ok bs => if lenN bs <=? c then decode_from_g D push_c fin_c d s = Ok bs
               else decode_from_g D push_c fin_c d s = Err E_SHORTBUF
    | Err e => exists e', decode_from_g D push_c fin_c d s = Err e'
    | _ => False
    end.
  Proof.
    induction s as [|ch r IH]; intros d acc Hi Ht Hc; cbn [decode_from_g].
    - pose proof (Hfin d acc Hi Ht) as F. destruct (fin_u d); try contradiction; [apply F, Hc|apply F, Hc].
    - destruct (Hpush d ch acc Hi Ht) as (du & res & E & R). rewrite E.
      destruct res as [e|].
      + destruct (R Hc) as (d' & e' & ->). eauto.
      + destruct R as (Hi' & accu & Ht' & L & Q). specialize (Q Hc).
        destruct (N.leb_spec (lenN accu) c) as [Le|Gt].
        * rewrite Q. exact (IH du accu Hi' Ht' Le).
        * destruct Q as [d' ->].
          pose proof (cap_mono r du accu Hi' Ht') as M.
          destruct (decode_from_g D push_u fin_u du r) as [bs|e| |]; try contradiction.
          -- destruct (N.leb_spec (lenN bs) c); [lia|reflexivity].
          -- eauto.
  Qed.
End CapSim.

Lemma fold_append_ok l : forall acc, fold_left append l (Ok acc) = Ok (acc ++ l).
Proof.
  induction l as [|v r IH]; intros acc; cbn [fold_left append]; [rewrite app_nil_r; reflexivity|].
  rewrite IH, <- app_assoc. reflexivity.
Qed.
Lemma fold_append_cap_err cap l e : fold_left (append_cap cap) l (Err e) = Err e.
Proof. induction l as [|v r IH]; [reflexivity|exact IH]. Qed.
Lemma fold_append_cap_some c l : forall acc, lenN acc <= c ->
  fold_left (append_cap (Some c)) l (Ok acc) =
  if lenN acc + lenN l <=? c then Ok (acc ++ l) else Err E_SHORTBUF.
Proof.
  induction l as [|v r IH]; intros acc H.
  - cbn [fold_left]. rewrite app_nil_r. unfold lenN at 2. cbn [length N.of_nat].
    destruct (N.leb_spec (lenN acc + 0) c); [reflexivity|lia].
  - cbn [fold_left append_cap]. rewrite fits_spec.
    destruct (N.leb_spec (lenN acc + 1) c) as [F|NF].
    + rewrite IH by (rewrite lenN_app; unfold lenN at 2; cbn; lia).
      rewrite lenN_app, <- app_assoc. unfold lenN at 2 5. cbn [length app].
      destruct (N.leb_spec (lenN acc + N.of_nat 1 + lenN r) c);
        destruct (N.leb_spec (lenN acc + N.of_nat (S (length r))) c); try reflexivity; unfold lenN in *; lia.
    + rewrite fold_append_cap_err. unfold lenN at 2. cbn [length].
      destruct (N.leb_spec (lenN acc + N.of_nat (S (length r))) c); [lia|reflexivity].
Qed.

(* ---- Base16 ---- *)
Lemma b16_cap_push c d ch acc : True -> d16_target d = Ok acc ->
  exists du res, b16_push d ch = Ok (du, res) /\
    match res with
    | None => True /\ exists accu, d16_target du = Ok accu /\ lenN acc <= lenN accu /\
              (lenN acc <= c ->
                 if lenN accu <=? c then b16_push_cap (Some c) d ch = Ok (du, None)
                 else exists d', b16_push_cap (Some c) d ch = Ok (d', Some E_SHORTBUF))
    | Some e => lenN acc <= c -> exists d' e', b16_push_cap (Some c) d ch = Ok (d', Some e')
    end.
Proof.
  intros _ T. destruct d as [b t]. cbn [d16_target] in T. subst t.
  rewrite b16_push_sem. unfold b16_push_cap. change b16_radix with 16. rewrite to_digit16_is_val16.
  cbn [bind d16_buf d16_target]. destruct (val16 ch) as [v|].
  2:{ eexists _, _. split; [reflexivity|]. intros _. eexists _, _. reflexivity. }
  destruct b as [u|]; cbv zeta; cbn [d16_target append append_cap target_err].
  - eexists _, _. split; [reflexivity|]. split; [exact I|].
    eexists. split; [reflexivity|]. split; [rewrite lenN_app; lia|]. intros Hc.
    rewrite fits_spec, lenN_app. change (lenN [N.lor u v]) with 1.
    destruct (N.leb_spec (lenN acc + 1) c); [reflexivity|]. eexists. reflexivity.
  - eexists _, _. split; [reflexivity|]. split; [exact I|].
    eexists. split; [reflexivity|]. split; [lia|]. intros Hc.
    destruct (N.leb_spec (lenN acc) c); [reflexivity|lia].
Qed.

Lemma b16_cap_fin c d acc : True -> d16_target d = Ok acc ->
  match b16_finalize d with
  | Ok bs => lenN acc <= lenN bs /\
             (lenN acc <= c -> if lenN bs <=? c then b16_finalize d = Ok bs else b16_finalize d = Err E_SHORTBUF)
  | Err e => lenN acc <= c -> exists e', b16_finalize d = Err e'
  | _ => False
  end.
Proof.
  intros _ T. destruct d as [b t]. cbn [d16_target] in T. subst t. unfold b16_finalize. cbn [d16_buf d16_target].
  destruct b; [eauto|]. split; [lia|]. intros Hc. destruct (N.leb_spec (lenN acc) c); [reflexivity|lia].
Qed.

Theorem b16_decode_cap_spec c s :
  match b16_decode s with
  | Ok bs => if lenN bs <=? c then b16_decode_cap (Some c) s = Ok bs
             else b16_decode_cap (Some c) s = Err E_SHORTBUF
  | Err e => exists e', b16_decode_cap (Some c) s = Err e'
  | _ => False
  end.
Proof.
  unfold b16_decode, b16_decode_cap. rewrite <- b16_decode_from_g.
  apply (cap_sim dec16 b16_push (b16_push_cap (Some c)) b16_finalize b16_finalize (fun _ => True) d16_target c
           (b16_cap_push c) (b16_cap_fin c) s b16_new []); [exact I|reflexivity|unfold lenN; cbn; lia].
Qed.

(* ---- Base32hex ---- *)
Definition b32_cont_cap (cap : option N) (d : dec32) (v : N) : outcome (dec32 * option N) :=
  do buf' <- buf8_set (d32_buf d) (d32_next d) v;
  let next' := d32_next d + 1 in
  let d1 :=
    if next' =? b32_group
    then mk32 buf' 0 (fold_left (append_cap cap) (b32_octets buf') (d32_target d))
    else mk32 buf' next' (d32_target d) in
  Ok (d1, target_err (d32_target d1)).

Lemma b32_push_cap_sem cap d ch :
  b32_push_cap cap d ch =
  match val32 ch with
  | None => Ok (mk32 (d32_buf d) (d32_next d) (Err (E_illegal ch)), Some (E_illegal ch))
  | Some v => b32_cont_cap cap d v
  end.
Proof.
  unfold b32_push_cap. cbv [b32_ascii_max].
  destruct (N.ltb_spec 127 ch) as [G|L].
  - rewrite val32_none_high by exact G. reflexivity.
  - destruct (dec_tab32_ok ch) as (v & E1 & E2); [lia|].
    rewrite E1. cbn [bind]. rewrite <- E2.
    destruct (v =? b32_illegal_val); reflexivity.
Qed.

Lemma b32_cap_push c d ch acc : d32_next d < 8 -> d32_target d = Ok acc ->
  exists du res, b32_push d ch = Ok (du, res) /\
    match res with
    | None => d32_next du < 8 /\ exists accu, d32_target du = Ok accu /\ lenN acc <= lenN accu /\
              (lenN acc <= c ->
                 if lenN accu <=? c then b32_push_cap (Some c) d ch = Ok (du, None)
                 else exists d', b32_push_cap (Some c) d ch = Ok (d', Some E_SHORTBUF))
    | Some e => lenN acc <= c -> exists d' e', b32_push_cap (Some c) d ch = Ok (d', Some e')
    end.
Proof.
  destruct d as [b n t]. cbn [d32_next d32_target]. intros Hn ->.
  rewrite b32_push_sem, b32_push_cap_sem. destruct (val32 ch) as [v|].
  2:{ eexists _, _. split; [reflexivity|]. intros _. eexists _, _. reflexivity. }
  unfold b32_cont, b32_cont_cap. cbn [d32_buf d32_next d32_target].
  destruct (buf8_set_ok b n v Hn) as [b' ->]. cbn [bind]. cbv [b32_group].
  destruct (N.eqb_spec (n + 1) 8) as [E8|N8].
  - rewrite fold_append_ok. cbn [d32_target target_err].
    eexists _, _. split; [reflexivity|]. split; [cbn; lia|].
    eexists. split; [reflexivity|]. split; [rewrite lenN_app; lia|]. intros Hc.
    rewrite (fold_append_cap_some c _ acc Hc), lenN_app.
    destruct (N.leb_spec (lenN acc + lenN (b32_octets b')) c); [reflexivity|]. eexists. reflexivity.
  - cbn [d32_target target_err].
    eexists _, _. split; [reflexivity|]. split; [cbn; lia|].
    eexists. split; [reflexivity|]. split; [lia|]. intros Hc.
    destruct (N.leb_spec (lenN acc) c); [reflexivity|lia].
Qed.

Lemma b32_cap_fin c d acc : d32_next d < 8 -> d32_target d = Ok acc ->
  match b32_finalize d with
  | Ok bs => lenN acc <= lenN bs /\
             (lenN acc <= c -> if lenN bs <=? c then b32_finalize_cap (Some c) d = Ok bs
                               else b32_finalize_cap (Some c) d = Err E_SHORTBUF)
  | Err e => lenN acc <= c -> exists e', b32_finalize_cap (Some c) d = Err e'
  | _ => False
  end.
Proof.
  destruct d as [b n t]. cbn [d32_next d32_target]. intros Hn ->.
  unfold b32_finalize, b32_finalize_cap. cbn [d32_target d32_next d32_buf].
  assert (K : forall k,
    match fold_left append (firstn k (b32_octets b)) (Ok acc) with
    | Ok bs => lenN acc <= lenN bs /\
               (lenN acc <= c -> if lenN bs <=? c
                  then fold_left (append_cap (Some c)) (firstn k (b32_octets b)) (Ok acc) = Ok bs
                  else fold_left (append_cap (Some c)) (firstn k (b32_octets b)) (Ok acc) = Err E_SHORTBUF)
    | Err e => lenN acc <= c -> exists e', fold_left (append_cap (Some c)) (firstn k (b32_octets b)) (Ok acc) = Err e'
    | _ => False
    end).
  { intros k. rewrite fold_append_ok. split; [rewrite lenN_app; lia|]. intros Hc.
    rewrite (fold_append_cap_some c _ acc Hc), lenN_app.
    destruct (N.leb_spec (lenN acc + lenN (firstn k (b32_octets b))) c); reflexivity. }
  assert (C : n = 0 \/ n = 1 \/ n = 2 \/ n = 3 \/ n = 4 \/ n = 5 \/ n = 6 \/ n = 7) by lia.
  destruct C as [-> | [-> | [-> | [-> | [-> | [-> | [-> | ->]]]]]]];
    cbn [N.eqb Pos.eqb existsb b32_fin_short orb assoc b32_fin_partial];
    try (intros _; eexists; reflexivity); try apply K.
  split; [lia|]. intros Hc. destruct (N.leb_spec (lenN acc) c); [reflexivity|lia].
Qed.

Theorem b32_decode_cap_spec c s :
  match b32_decode s with
  | Ok bs => if lenN bs <=? c then b32_decode_cap (Some c) s = Ok bs
             else b32_decode_cap (Some c) s = Err E_SHORTBUF
  | Err e => exists e', b32_decode_cap (Some c) s = Err e'
  | _ => False
  end.
Proof.
  unfold b32_decode, b32_decode_cap. rewrite <- b32_decode_from_g.
  apply (cap_sim dec32 b32_push (b32_push_cap (Some c)) b32_finalize (b32_finalize_cap (Some c))
           (fun d => d32_next d < 8) d32_target c (b32_cap_push c) (b32_cap_fin c) s b32_new []);
    [cbn; lia|reflexivity|unfold lenN; cbn; lia].
Qed.

(* ---- Base64 (the repaired push) ---- *)
Definition inv64c (d : dec64) : Prop := d64_next d < 4 \/ d64_next d = 240.

Ltac leb_cases c :=
  repeat match goal with
  | |- context [?a <=? c] => destruct (N.leb_spec a c)
  end.
Ltac fits_solve c L1 :=
  repeat (progress (rewrite ?fits_spec, ?lenN_app, ?L1; leb_cases c; cbv beta iota));
  first [lia | reflexivity | (eexists; reflexivity) | (eexists _, _; reflexivity)].

Lemma b64_cap_cont c b n acc v : n < 4 ->
  exists du res, b64_cont (mk64 b n (Ok acc)) v = Ok (du, res) /\
    match res with
    | None => inv64c du /\ exists accu, d64_target du = Ok accu /\ lenN acc <= lenN accu /\
              (lenN acc <= c ->
                 if lenN accu <=? c then b64_cont_cap (Some c) (mk64 b n (Ok acc)) v = Ok (du, None)
                 else exists d', b64_cont_cap (Some c) (mk64 b n (Ok acc)) v = Ok (d', Some E_SHORTBUF))
    | Some e => lenN acc <= c -> exists d' e', b64_cont_cap (Some c) (mk64 b n (Ok acc)) v = Ok (d', Some e')
    end.
Proof.
  destruct b as [[[x0 x1] x2] x3]. intros Hn.
  assert (C : n = 0 \/ n = 1 \/ n = 2 \/ n = 3) by lia.
  destruct C as [-> | [-> | [-> | ->]]].
  1-3: (eexists _, _; split; [reflexivity|]; split; [left; cbn; lia|];
        eexists; split; [reflexivity|]; split; [lia|]; intros Hc;
        destruct (N.leb_spec (lenN acc) c); [reflexivity|lia]).
  rewrite cont_3. cbv zeta.
  unfold b64_cont_cap, try_append.
  cbn [d64_buf d64_next d64_target buf4_set N.eqb Pos.eqb bind N.add Pos.add].
  cbv [b64_group b64_push_pad_val b64_push_eof]. cbn [N.eqb Pos.eqb Pos.succ].
  assert (L1 : forall x, lenN [x] = 1) by reflexivity.
  destruct (x2 =? 128); destruct (v =? 128); cbn [negb].
  - (* x x = = *)
    eexists _, _. split; [reflexivity|]. split; [right; reflexivity|].
    eexists. split; [reflexivity|]. split; [rewrite lenN_app; lia|]. intros Hc. fits_solve c L1.
  - (* x x = x : TrailingInput *)
    eexists _, _. split; [reflexivity|]. intros Hc. fits_solve c L1.
  - (* x x x = *)
    eexists _, _. split; [reflexivity|]. split; [right; reflexivity|].
    eexists. split; [reflexivity|]. split; [rewrite !lenN_app; lia|]. intros Hc. fits_solve c L1.
  - (* x x x x *)
    eexists _, _. split; [reflexivity|]. split; [left; cbn; lia|].
    eexists. split; [reflexivity|]. split; [rewrite !lenN_app; lia|]. intros Hc. fits_solve c L1.
Qed.

Lemma b64_cap_push c d ch acc : inv64c d -> d64_target d = Ok acc ->
  exists du res, b64_push_with true d ch = Ok (du, res) /\
    match res with
    | None => inv64c du /\ exists accu, d64_target du = Ok accu /\ lenN acc <= lenN accu /\
              (lenN acc <= c ->
                 if lenN accu <=? c then b64_push_cap (Some c) true d ch = Ok (du, None)
                 else exists d', b64_push_cap (Some c) true d ch = Ok (d', Some E_SHORTBUF))
    | Some e => lenN acc <= c -> exists d' e', b64_push_cap (Some c) true d ch = Ok (d', Some e')
    end.
Proof.
  destruct d as [b n t]. unfold inv64c. cbn [d64_next d64_target]. intros Hi ->.
  cbn [b64_push_with b64_push_cap d64_target].
  destruct Hi as [Hn| ->].
  2:{ rewrite (b64_push_at_eof (mk64 b 240 (Ok acc)) ch eq_refl),
        (b64_push_char_cap_at_eof (Some c) (mk64 b 240 (Ok acc)) ch eq_refl).
      eexists _, _. split; [reflexivity|]. intros _. eexists _, _. reflexivity. }
  (* the continuation relation, lifted through the error-recording wrapper *)
  assert (W : forall v,
    exists du res,
      match b64_cont (mk64 b n (Ok acc)) v with
      | Ok (d', Some e) => Ok (mk64 (d64_buf d') (d64_next d') (Err e), Some e)
      | other => other
      end = Ok (du, res) /\
      match res with
      | None => inv64c du /\ exists accu, d64_target du = Ok accu /\ lenN acc <= lenN accu /\
                (lenN acc <= c ->
                   if lenN accu <=? c
                   then match b64_cont_cap (Some c) (mk64 b n (Ok acc)) v with
                        | Ok (d', Some e) => Ok (mk64 (d64_buf d') (d64_next d') (Err e), Some e)
                        | other => other end = Ok (du, None)
                   else exists d', match b64_cont_cap (Some c) (mk64 b n (Ok acc)) v with
                                   | Ok (d', Some e) => Ok (mk64 (d64_buf d') (d64_next d') (Err e), Some e)
                                   | other => other end = Ok (d', Some E_SHORTBUF))
      | Some e => lenN acc <= c ->
                  exists d' e', match b64_cont_cap (Some c) (mk64 b n (Ok acc)) v with
                                | Ok (d', Some e) => Ok (mk64 (d64_buf d') (d64_next d') (Err e), Some e)
                                | other => other end = Ok (d', Some e')
      end).
  { intros v. destruct (b64_cap_cont c b n acc v Hn) as (du & res & E & R). rewrite E.
    destruct res as [e|].
    - eexists _, _. split; [reflexivity|]. intros Hc. destruct (R Hc) as (d' & e' & ->). eauto.
    - exists du, None. split; [reflexivity|]. destruct R as (I1 & accu & T & L & Q).
      split; [exact I1|]. exists accu. split; [exact T|]. split; [exact L|]. intros Hc. specialize (Q Hc).
      destruct (lenN accu <=? c); [rewrite Q; reflexivity|]. destruct Q as [d' ->]. eauto. }
  rewrite b64_push_char_cap_sem by (cbn; lia).
  destruct (N.eq_dec ch 61) as [->|Nc].
  - rewrite b64_push_pad by (cbn; lia). cbn [d64_next N.eqb Pos.eqb].
    destruct (n <? 2).
    + eexists _, _. split; [reflexivity|]. intros _. eexists _, _. reflexivity.
    + apply W.
  - rewrite b64_push_sem by (cbn; auto; lia). destruct (N.eqb_spec ch 61); [contradiction|].
    destruct (val64 ch) as [v|].
    + apply W.
    + eexists _, _. split; [reflexivity|]. intros _. eexists _, _. reflexivity.
Qed.

Lemma b64_cap_fin c d acc : inv64c d -> d64_target d = Ok acc ->
  match b64_finalize d with
  | Ok bs => lenN acc <= lenN bs /\
             (lenN acc <= c -> if lenN bs <=? c then b64_finalize d = Ok bs else b64_finalize d = Err E_SHORTBUF)
  | Err e => lenN acc <= c -> exists e', b64_finalize d = Err e'
  | _ => False
  end.
Proof.
  intros _ T. unfold b64_finalize. rewrite T.
  destruct (N.land (d64_next d) b64_fin_mask =? 0); [|eauto].
  split; [lia|]. intros Hc. destruct (N.leb_spec (lenN acc) c); [reflexivity|lia].
Qed.

Theorem b64_decode_cap_spec c s :
  match b64_decode s with
  | Ok bs => if lenN bs <=? c then b64_decode_cap (Some c) s = Ok bs
             else b64_decode_cap (Some c) s = Err E_SHORTBUF
  | Err e => exists e', b64_decode_cap (Some c) s = Err e'
  | _ => False
  end.
Proof.
  unfold b64_decode, b64_decode_cap. change b64_push_sticky with true.
  rewrite <- b64_decode_from_g.
  apply (cap_sim dec64 (b64_push_with true) (b64_push_cap (Some c) true) b64_finalize b64_finalize
           inv64c d64_target c (b64_cap_push c) (b64_cap_fin c) s b64_new []);
    [left; cbn; lia|reflexivity|unfold lenN; cbn; lia].
Qed.

Example decode_cap_examples :
  b64_decode_cap (Some 3) [90; 109; 57; 118] = Ok [102; 111; 111] /\
  b64_decode_cap (Some 2) [90; 109; 57; 118] = Err E_SHORTBUF /\
  b32_decode_cap (Some 0) [67; 79] = Err E_SHORTBUF /\ b32_decode_cap (Some 1) [67; 79] = Ok [102] /\
  b16_decode_cap (Some 1) [70; 48; 48; 70] = Err E_SHORTBUF.
Proof. vm_compute. repeat split. Qed.

Definition cap_decode_stmt (dec : list N -> outcome (list N)) (decc : option N -> list N -> outcome (list N))
  (c : N) (s : list N) : Prop :=
  match dec s with
  | Ok bs => if lenN bs <=? c then decc (Some c) s = Ok bs else decc (Some c) s = Err E_SHORTBUF
  | Err e => exists e', decc (Some c) s = Err e'
  | _ => False
  end.

