(* C18 proofs, part 7: the per-push API of the Base32hex and Base16 decoders is
   total and its errors are sticky (what the base64 decoder's documentation
   promises too, and base64 does not deliver: see ProofsApi.v). *)
From Coq Require Import NArith List Bool Lia ZArith.
From Coq Require Import ZifyN ZifyBool ZifyNat.
Import ListNotations.
From DV Require Import Base.Outcome C18.Gen C18.Model C18.Proofs C18.ProofsEnc C18.ProofsSpec
  C18.ProofsDec64 C18.ProofsDec32 C18.ProofsApi.
Local Open Scope N_scope.
Ltac Zify.zify_post_hook ::= Z.div_mod_to_equations.

Definition is_err (t : target) : Prop := exists e, t = Err e.

(* ---------------------------------------------------------- Base32hex *)

Definition inv32 (d : dec32) : Prop := d32_next d < 8 /\ okerr (d32_target d).

Lemma b32_push_ok d ch : inv32 d ->
  exists d' res, b32_push d ch = Ok (d', res) /\ res = target_err (d32_target d') /\ inv32 d' /\
             (is_err (d32_target d) -> is_err (d32_target d')).
Proof.
  destruct d as [[[[[[[[x0 x1] x2] x3] x4] x5] x6] x7] n t]. unfold inv32. cbn [d32_next d32_target].
  intros [Hn Ht]. rewrite b32_push_sem. destruct (val32 ch) as [v|].
  2:{ eexists _, _. split; [reflexivity|]. split; [reflexivity|]. cbn. repeat split; auto. intros _. eexists; reflexivity. }
  assert (C : n = 0 \/ n = 1 \/ n = 2 \/ n = 3 \/ n = 4 \/ n = 5 \/ n = 6 \/ n = 7) by lia.
  destruct t as [l|e|p|]; try contradiction;
  destruct C as [-> | [-> | [-> | [-> | [-> | [-> | [-> | ->]]]]]]];
    (eexists _, _; split; [reflexivity|]; split; [reflexivity|]; cbn; split; [split; [lia|exact I]|];
     first [intros [e0 X]; discriminate | intros _; eexists; reflexivity]).
Qed.

Lemma b32_run_inv s : forall d, inv32 d ->
  exists d', snd (b32_run d s) = Ok d' /\ inv32 d' /\
    (is_err (d32_target d) -> is_err (d32_target d') /\ ~ In None (fst (b32_run d s))) /\
    ((exists e, In (Some e) (fst (b32_run d s))) -> is_err (d32_target d')).
Proof.
  induction s as [|ch r IH]; intros d I.
  - cbn. exists d. split; [reflexivity|]. split; [exact I|]. split; [intros X; split; [exact X|intros []]|intros [e []]].
  - cbn [b32_run]. destruct (b32_push_ok d ch I) as (d1 & res & E & -> & I1 & K1). rewrite E.
    destruct (IH d1 I1) as (d' & R & I' & K' & S').
    destruct (b32_run d1 r) as [tr fin]. cbn [fst snd] in *.
    exists d'. split; [exact R|]. split; [exact I'|]. split.
    + intros X. destruct (K' (K1 X)) as [A B]. split; [exact A|].
      intros [Y|Y]; [|auto]. destruct (K1 X) as [e0 Z]. rewrite Z in Y. discriminate.
    + intros [e [Y|Y]].
      * apply K'. destruct (d32_target d1) as [l|e1|p|]; try discriminate. eexists; reflexivity.
      * apply S'. eauto.
Qed.

Lemma inv32_new : inv32 b32_new.
Proof. split; [cbn; lia|exact I]. Qed.

Lemma b32_finalize_inv d : inv32 d ->
  no_panic (b32_finalize d) /\ (is_err (d32_target d) -> exists e, b32_finalize d = Err e).
Proof.
  destruct d as [b n t]. unfold inv32. cbn [d32_next d32_target]. intros [Hn Ht].
  destruct t as [l|e|p|]; try contradiction.
  - split; [|intros [e X]; discriminate].
    assert (C : n = 0 \/ n = 1 \/ n = 2 \/ n = 3 \/ n = 4 \/ n = 5 \/ n = 6 \/ n = 7) by lia.
    destruct b as [[[[[[[x0 x1] x2] x3] x4] x5] x6] x7].
    destruct C as [-> | [-> | [-> | [-> | [-> | [-> | [-> | ->]]]]]]]; exact I.
  - split; [exact I|]. intros _. eexists. reflexivity.
Qed.

Lemma push_all_32 s :
  snd (b32_push_all s) =
  match snd (b32_run b32_new s) with
  | Ok d => match b32_finalize d with
            | Ok l => Ok l | Err e => Err e | Panic p => Panic p | OutOfFuel => OutOfFuel end
  | Err e => Panic 0 | Panic p => Panic p | OutOfFuel => OutOfFuel end
  /\ fst (b32_push_all s) = fst (b32_run b32_new s).
Proof. unfold b32_push_all. destruct (b32_run b32_new s). split; reflexivity. Qed.

Theorem b32_api_total s : no_panic (snd (b32_push_all s)).
Proof.
  destruct (push_all_32 s) as [E _]. rewrite E.
  destruct (b32_run_inv s b32_new inv32_new) as (d & R & I1 & _). rewrite R.
  destruct (b32_finalize_inv d I1) as [F _]. destruct (b32_finalize d); try contradiction; exact I.
Qed.

Theorem b32_errors_sticky s :
  (exists e, In (Some e) (fst (b32_push_all s))) -> exists e, snd (b32_push_all s) = Err e.
Proof.
  destruct (push_all_32 s) as [E1 E2]. rewrite E1, E2. intros EX.
  destruct (b32_run_inv s b32_new inv32_new) as (d & R & I1 & _ & S). rewrite R.
  destruct (b32_finalize_inv d I1) as [_ F]. destruct (F (S EX)) as [e Fe]. rewrite Fe. eauto.
Qed.

(* once the decoder holds an error every further push reports an error *)
Theorem b32_errors_keep_coming d s : inv32 d -> is_err (d32_target d) ->
  ~ In None (fst (b32_run d s)).
Proof.
  intros I1 X. destruct (b32_run_inv s d I1) as (d' & _ & _ & K & _). apply K, X.
Qed.

Example b32_sticky_example :
  b32_push_all [67; 33; 79] = ([None; Some (E_illegal 33); Some (E_illegal 33)], Err (E_illegal 33)).
Proof. vm_compute. reflexivity. Qed.

(* ------------------------------------------------------------- Base16 *)

Definition inv16 (d : dec16) : Prop := okerr (d16_target d).

Lemma b16_push_ok d ch : inv16 d ->
  exists d' res, b16_push d ch = Ok (d', res) /\ res = target_err (d16_target d') /\ inv16 d' /\
             (is_err (d16_target d) -> is_err (d16_target d')).
Proof.
  destruct d as [b t]. unfold inv16. cbn [d16_target]. intros Ht.
  rewrite b16_push_sem. cbn [d16_buf d16_target]. destruct (val16 ch) as [v|].
  2:{ eexists _, _. split; [reflexivity|]. split; [reflexivity|]. cbn. split; auto. intros _. eexists; reflexivity. }
  destruct t as [l|e|p|]; try contradiction; destruct b as [u|];
    (eexists _, _; split; [reflexivity|]; split; [reflexivity|]; cbn; split; [exact I|];
     first [intros [e0 X]; discriminate | intros _; eexists; reflexivity]).
Qed.

Lemma b16_run_inv s : forall d, inv16 d ->
  exists d', snd (b16_run d s) = Ok d' /\ inv16 d' /\
    (is_err (d16_target d) -> is_err (d16_target d') /\ ~ In None (fst (b16_run d s))) /\
    ((exists e, In (Some e) (fst (b16_run d s))) -> is_err (d16_target d')).
Proof.
  induction s as [|ch r IH]; intros d I.
  - cbn. exists d. split; [reflexivity|]. split; [exact I|]. split; [intros X; split; [exact X|intros []]|intros [e []]].
  - cbn [b16_run]. destruct (b16_push_ok d ch I) as (d1 & res & E & -> & I1 & K1). rewrite E.
    destruct (IH d1 I1) as (d' & R & I' & K' & S').
    destruct (b16_run d1 r) as [tr fin]. cbn [fst snd] in *.
    exists d'. split; [exact R|]. split; [exact I'|]. split.
    + intros X. destruct (K' (K1 X)) as [A B]. split; [exact A|].
      intros [Y|Y]; [|auto]. destruct (K1 X) as [e0 Z]. rewrite Z in Y. discriminate.
    + intros [e [Y|Y]].
      * apply K'. destruct (d16_target d1) as [l|e1|p|]; try discriminate. eexists; reflexivity.
      * apply S'. eauto.
Qed.

Lemma b16_finalize_inv d : inv16 d ->
  no_panic (b16_finalize d) /\ (is_err (d16_target d) -> exists e, b16_finalize d = Err e).
Proof.
  destruct d as [b t]. unfold inv16, b16_finalize. cbn [d16_target d16_buf]. intros Ht.
  destruct b as [u|].
  - split; [exact I|]. intros _. eexists; reflexivity.
  - destruct t as [l|e|p|]; try contradiction; (split; [exact I|]).
    + intros [e X]; discriminate.
    + intros _. eexists; reflexivity.
Qed.

Lemma push_all_16 s :
  snd (b16_push_all s) =
  match snd (b16_run b16_new s) with
  | Ok d => match b16_finalize d with
            | Ok l => Ok l | Err e => Err e | Panic p => Panic p | OutOfFuel => OutOfFuel end
  | Err e => Panic 0 | Panic p => Panic p | OutOfFuel => OutOfFuel end
  /\ fst (b16_push_all s) = fst (b16_run b16_new s).
Proof. unfold b16_push_all. destruct (b16_run b16_new s). split; reflexivity. Qed.

Theorem b16_api_total s : no_panic (snd (b16_push_all s)).
Proof.
  destruct (push_all_16 s) as [E _]. rewrite E.
  destruct (b16_run_inv s b16_new I) as (d & R & I1 & _). rewrite R.
  destruct (b16_finalize_inv d I1) as [F _]. destruct (b16_finalize d); try contradiction; exact I.
Qed.

Theorem b16_errors_sticky s :
  (exists e, In (Some e) (fst (b16_push_all s))) -> exists e, snd (b16_push_all s) = Err e.
Proof.
  destruct (push_all_16 s) as [E1 E2]. rewrite E1, E2. intros EX.
  destruct (b16_run_inv s b16_new I) as (d & R & I1 & _ & S). rewrite R.
  destruct (b16_finalize_inv d I1) as [_ F]. destruct (F (S EX)) as [e Fe]. rewrite Fe. eauto.
Qed.

Theorem b16_errors_keep_coming d s : inv16 d -> is_err (d16_target d) ->
  ~ In None (fst (b16_run d s)).
Proof.
  intros I1 X. destruct (b16_run_inv s d I1) as (d' & _ & _ & K & _). apply K, X.
Qed.

Example b16_sticky_example :
  b16_push_all [49; 33; 50] = ([None; Some (E_illegal 33); Some (E_illegal 33)], Err (E_illegal 33)) /\
  b16_push_all [49; 33] = ([None; Some (E_illegal 33)], Err E_SHORT).
Proof. vm_compute. auto. Qed.
