(* C18 proofs, part 4: base64 `decode` accepts exactly the well-formed texts
   (spec_dec64) and returns the specified octets; never panics. *)
From Coq Require Import NArith List Bool Lia ZArith.
From Coq Require Import ZifyN ZifyBool ZifyNat.
Import ListNotations.
From DV Require Import Base.Outcome C18.Gen C18.Model C18.Proofs C18.ProofsEnc C18.ProofsSpec.
Local Open Scope N_scope.
Ltac Zify.zify_post_hook ::= Z.div_mod_to_equations.

Notation tb := N.testbit.

(* the continuation of Decoder::push once the value of the character is known *)
Definition b64_cont (d : dec64) (val : N) : outcome (dec64 * option N) :=
  do buf' <- buf4_set (d64_buf d) (d64_next d) val;
  let next' := d64_next d + 1 in
  if next' =? b64_group then
    match d64_target d with
    | Ok t0 =>
        let '(x0, x1, x2, x3) := buf' in
        let t1 := t0 ++ [b64_oct0 x0 x1 x2 x3] in
        let t2 := if negb (x2 =? b64_push_pad_val) then t1 ++ [b64_oct1 x0 x1 x2 x3] else t1 in
        if negb (x3 =? b64_push_pad_val) then
          if x2 =? b64_push_pad_val then Ok (mk64 buf' next' (Ok t2), Some E_TRAILING)
          else Ok (mk64 buf' 0 (Ok (t2 ++ [b64_oct2 x0 x1 x2 x3])), None)
        else Ok (mk64 buf' b64_push_eof (Ok t2), None)
    | _ => Panic 3
    end
  else Ok (mk64 buf' next' (d64_target d), None).

Lemma b64_push_unfold d ch :
  b64_push_char d ch =
  if d64_next d =? b64_push_eof then
    Ok (mk64 (d64_buf d) (d64_next d) (Err E_TRAILING), Some E_TRAILING)
  else if ch =? b64_pad then
    if d64_next d <? b64_push_pad_min then Ok (d, Some (E_illegal ch)) else b64_cont d b64_push_pad_val
  else if b64_ascii_max <? ch then Ok (d, Some (E_illegal ch))
  else do v <- tab_get b64_decode_tab ch;
       if v =? b64_illegal_val then Ok (d, Some (E_illegal ch)) else b64_cont d v.
Proof. reflexivity. Qed.

Lemma dfc64 d ch r :
  b64_decode_from d (ch :: r) =
  match b64_push_char d ch with
  | Ok (d', None) => b64_decode_from d' r
  | Ok (_, Some e) => Err e
  | Err e => Err e
  | Panic p => Panic p
  | OutOfFuel => OutOfFuel
  end.
Proof. reflexivity. Qed.
Lemma dfn64 d : b64_decode_from d [] = b64_finalize d.
Proof. reflexivity. Qed.

(* push of a non-pad character, in terms of the RFC alphabet position *)
Lemma b64_push_sem d ch : d64_next d <> 240 -> ch <> 61 ->
  b64_push_char d ch = match val64 ch with
                  | None => Ok (d, Some (E_illegal ch))
                  | Some v => b64_cont d v
                  end.
Proof.
  intros Hn Hc. rewrite b64_push_unfold.
  cbv [b64_push_eof b64_pad b64_ascii_max].
  destruct (N.eqb_spec (d64_next d) 240); [contradiction|].
  destruct (N.eqb_spec ch 61); [contradiction|].
  destruct (N.ltb_spec 127 ch) as [G|L].
  - rewrite val64_none_high by exact G. reflexivity.
  - destruct (dec_tab64_ok ch) as (v & E1 & E2); [lia|].
    rewrite E1. cbn [bind]. rewrite <- E2.
    destruct (v =? b64_illegal_val); reflexivity.
Qed.

Lemma b64_push_pad d : d64_next d <> 240 ->
  b64_push_char d 61 = if d64_next d <? 2 then Ok (d, Some (E_illegal 61)) else b64_cont d 128.
Proof.
  intros Hn. rewrite b64_push_unfold. cbv [b64_push_eof b64_pad b64_push_pad_min b64_push_pad_val].
  destruct (N.eqb_spec (d64_next d) 240); [contradiction|]. reflexivity.
Qed.

(* a character that is not in the alphabet is refused in positions 0 and 1
   ('=' included: it has no alphabet position) *)
Lemma b64_push_bad_early d ch : d64_next d < 2 -> val64 ch = None ->
  b64_push_char d ch = Ok (d, Some (E_illegal ch)).
Proof.
  intros Hn V. destruct (N.eq_dec ch 61) as [->|Hc].
  - rewrite b64_push_pad by lia. destruct (N.ltb_spec (d64_next d) 2); [reflexivity|lia].
  - rewrite b64_push_sem by (auto; lia). rewrite V. reflexivity.
Qed.

Lemma cont_0 x0 x1 x2 x3 t v :
  b64_cont (mk64 (x0, x1, x2, x3) 0 t) v = Ok (mk64 (v, x1, x2, x3) 1 t, None).
Proof. reflexivity. Qed.
Lemma cont_1 x0 x1 x2 x3 t v :
  b64_cont (mk64 (x0, x1, x2, x3) 1 t) v = Ok (mk64 (x0, v, x2, x3) 2 t, None).
Proof. reflexivity. Qed.
Lemma cont_2 x0 x1 x2 x3 t v :
  b64_cont (mk64 (x0, x1, x2, x3) 2 t) v = Ok (mk64 (x0, x1, v, x3) 3 t, None).
Proof. reflexivity. Qed.

Lemma cont_3 x0 x1 x2 x3 acc v :
  b64_cont (mk64 (x0, x1, x2, x3) 3 (Ok acc)) v =
  let t1 := acc ++ [b64_oct0 x0 x1 x2 v] in
  let t2 := if negb (x2 =? 128) then t1 ++ [b64_oct1 x0 x1 x2 v] else t1 in
  if negb (v =? 128) then
    if x2 =? 128 then Ok (mk64 (x0, x1, x2, v) 4 (Ok t2), Some E_TRAILING)
    else Ok (mk64 (x0, x1, x2, v) 0 (Ok (t2 ++ [b64_oct2 x0 x1 x2 v])), None)
  else Ok (mk64 (x0, x1, x2, v) 240 (Ok t2), None).
Proof. reflexivity. Qed.

(* the octets computed by the shifts are the RFC regrouping of the sextets *)
Ltac s64_2 a b Ha Hb := apply N.eqb_eq; sweep2_bool a b Ha Hb 64%nat 64%nat.

Lemma oct0_spec v0 v1 x y : v0 < 64 -> v1 < 64 ->
  b64_oct0 v0 v1 x y = bits_val [tb v0 5; tb v0 4; tb v0 3; tb v0 2; tb v0 1; tb v0 0; tb v1 5; tb v1 4].
Proof. intros H0 H1. cbv beta delta [b64_oct0]. s64_2 v0 v1 H0 H1. Qed.
Lemma oct1_spec x v1 v2 y : v1 < 64 -> v2 < 64 ->
  b64_oct1 x v1 v2 y = bits_val [tb v1 3; tb v1 2; tb v1 1; tb v1 0; tb v2 5; tb v2 4; tb v2 3; tb v2 2].
Proof. intros H1 H2. cbv beta delta [b64_oct1]. s64_2 v1 v2 H1 H2. Qed.
Lemma oct2_spec x y v2 v3 : v2 < 64 -> v3 < 64 ->
  b64_oct2 x y v2 v3 = bits_val [tb v2 1; tb v2 0; tb v3 5; tb v3 4; tb v3 3; tb v3 2; tb v3 1; tb v3 0].
Proof. intros H2 H3. cbv beta delta [b64_oct2]. s64_2 v2 v3 H2 H3. Qed.

Lemma bits6 v : bits_msb 6 v = [tb v 5; tb v 4; tb v 3; tb v 2; tb v 1; tb v 0].
Proof. reflexivity. Qed.

Lemma dec6_2 v0 v1 x y : v0 < 64 -> v1 < 64 -> dec6 [v0; v1] = [b64_oct0 v0 v1 x y].
Proof.
  intros. unfold dec6. cbn [flat_map]. rewrite !bits6. cbn [app take_octets].
  rewrite (oct0_spec v0 v1 x y) by assumption. reflexivity.
Qed.
Lemma dec6_3 v0 v1 v2 y : v0 < 64 -> v1 < 64 -> v2 < 64 ->
  dec6 [v0; v1; v2] = [b64_oct0 v0 v1 v2 y; b64_oct1 v0 v1 v2 y].
Proof.
  intros. unfold dec6. cbn [flat_map]. rewrite !bits6. cbn [app take_octets].
  rewrite (oct0_spec v0 v1 v2 y), (oct1_spec v0 v1 v2 y) by assumption. reflexivity.
Qed.
Lemma dec6_4 v0 v1 v2 v3 : v0 < 64 -> v1 < 64 -> v2 < 64 -> v3 < 64 ->
  dec6 [v0; v1; v2; v3] = [b64_oct0 v0 v1 v2 v3; b64_oct1 v0 v1 v2 v3; b64_oct2 v0 v1 v2 v3].
Proof.
  intros. unfold dec6. cbn [flat_map]. rewrite !bits6. cbn [app take_octets].
  rewrite (oct0_spec v0 v1 v2 v3), (oct1_spec v0 v1 v2 v3), (oct2_spec v0 v1 v2 v3) by assumption.
  reflexivity.
Qed.

(* what `decode` and the specification have to agree on *)
Definition agree (o : outcome (list N)) (sp : option (list N)) (acc : list N) : Prop :=
  match sp with
  | Some bs => o = Ok (acc ++ bs)
  | None => exists e, o = Err e
  end.


(* one decoding step on a state with a known small `next` *)
Lemma step_bad x0 x1 x2 x3 n t ch r : n < 2 -> val64 ch = None ->
  b64_decode_from (mk64 (x0, x1, x2, x3) n t) (ch :: r) = Err (E_illegal ch).
Proof.
  intros Hn V. rewrite dfc64. rewrite b64_push_bad_early by (cbn; assumption). reflexivity.
Qed.
Lemma step_ok0 x0 x1 x2 x3 t ch v r : val64 ch = Some v ->
  b64_decode_from (mk64 (x0, x1, x2, x3) 0 t) (ch :: r) = b64_decode_from (mk64 (v, x1, x2, x3) 1 t) r.
Proof.
  intros V. rewrite dfc64.
  rewrite b64_push_sem by (cbn; first [discriminate | intros ->; rewrite val64_pad in V; discriminate]).
  rewrite V, cont_0. reflexivity.
Qed.
Lemma step_ok1 x0 x1 x2 x3 t ch v r : val64 ch = Some v ->
  b64_decode_from (mk64 (x0, x1, x2, x3) 1 t) (ch :: r) = b64_decode_from (mk64 (x0, v, x2, x3) 2 t) r.
Proof.
  intros V. rewrite dfc64.
  rewrite b64_push_sem by (cbn; first [discriminate | intros ->; rewrite val64_pad in V; discriminate]).
  rewrite V, cont_1. reflexivity.
Qed.
Lemma step_ok2 x0 x1 x2 x3 t ch v r : val64 ch = Some v ->
  b64_decode_from (mk64 (x0, x1, x2, x3) 2 t) (ch :: r) = b64_decode_from (mk64 (x0, x1, v, x3) 3 t) r.
Proof.
  intros V. rewrite dfc64.
  rewrite b64_push_sem by (cbn; first [discriminate | intros ->; rewrite val64_pad in V; discriminate]).
  rewrite V, cont_2. reflexivity.
Qed.
Lemma step_pad2 x0 x1 x2 x3 t r :
  b64_decode_from (mk64 (x0, x1, x2, x3) 2 t) (61 :: r) = b64_decode_from (mk64 (x0, x1, 128, x3) 3 t) r.
Proof.
  rewrite dfc64. rewrite b64_push_pad by (cbn; discriminate). reflexivity.
Qed.
Lemma step_bad_late x0 x1 x2 x3 n t ch r : n <> 240 -> ch <> 61 -> val64 ch = None ->
  b64_decode_from (mk64 (x0, x1, x2, x3) n t) (ch :: r) = Err (E_illegal ch).
Proof.
  intros Hn Hc V. rewrite dfc64. rewrite b64_push_sem by (cbn; assumption).
  rewrite V. reflexivity.
Qed.
Lemma step_eof b t ch r :
  b64_decode_from (mk64 b 240 t) (ch :: r) = Err E_TRAILING.
Proof. reflexivity. Qed.

Lemma ne128 v : v < 64 -> (v =? 128) = false.
Proof. intros. apply N.eqb_neq. lia. Qed.

(* the fourth character of a quantum *)
Lemma step3_vv x0 x1 x2 x3 acc ch v r : x2 < 64 -> val64 ch = Some v ->
  b64_decode_from (mk64 (x0, x1, x2, x3) 3 (Ok acc)) (ch :: r) =
  b64_decode_from (mk64 (x0, x1, x2, v) 0
     (Ok (acc ++ [b64_oct0 x0 x1 x2 v; b64_oct1 x0 x1 x2 v; b64_oct2 x0 x1 x2 v]))) r.
Proof.
  intros H2 V. rewrite dfc64.
  rewrite b64_push_sem by (cbn; first [discriminate | intros ->; rewrite val64_pad in V; discriminate]).
  rewrite V, cont_3. cbv zeta. rewrite (ne128 x2 H2), (ne128 v (val64_lt _ _ V)). cbn [negb].
  rewrite <- !app_assoc. reflexivity.
Qed.
Lemma step3_vp x0 x1 x2 x3 acc r : x2 < 64 ->
  b64_decode_from (mk64 (x0, x1, x2, x3) 3 (Ok acc)) (61 :: r) =
  b64_decode_from (mk64 (x0, x1, x2, 128) 240
     (Ok (acc ++ [b64_oct0 x0 x1 x2 128; b64_oct1 x0 x1 x2 128]))) r.
Proof.
  intros H2. rewrite dfc64. rewrite b64_push_pad by (cbn; discriminate).
  cbn [d64_next N.ltb N.compare Pos.compare Pos.compare_cont].
  rewrite cont_3. cbv zeta. rewrite (ne128 x2 H2). cbn [negb N.eqb Pos.eqb].
  rewrite <- !app_assoc. reflexivity.
Qed.
Lemma step3_pp x0 x1 x3 acc r :
  b64_decode_from (mk64 (x0, x1, 128, x3) 3 (Ok acc)) (61 :: r) =
  b64_decode_from (mk64 (x0, x1, 128, 128) 240 (Ok (acc ++ [b64_oct0 x0 x1 128 128]))) r.
Proof.
  rewrite dfc64. rewrite b64_push_pad by (cbn; discriminate). reflexivity.
Qed.
Lemma step3_pv x0 x1 x3 acc ch v r : val64 ch = Some v ->
  b64_decode_from (mk64 (x0, x1, 128, x3) 3 (Ok acc)) (ch :: r) = Err E_TRAILING.
Proof.
  intros V. rewrite dfc64.
  rewrite b64_push_sem by (cbn; first [discriminate | intros ->; rewrite val64_pad in V; discriminate]).
  rewrite V, cont_3. cbv zeta. rewrite (ne128 v (val64_lt _ _ V)). reflexivity.
Qed.

Lemma fin_ok b acc : b64_decode_from (mk64 b 0 (Ok acc)) [] = Ok acc.
Proof. reflexivity. Qed.
Lemma fin_eof b acc : b64_decode_from (mk64 b 240 (Ok acc)) [] = Ok acc.
Proof. reflexivity. Qed.
Lemma fin_short1 b acc : b64_decode_from (mk64 b 1 (Ok acc)) [] = Err E_SHORT.
Proof. reflexivity. Qed.
Lemma fin_short2 b acc : b64_decode_from (mk64 b 2 (Ok acc)) [] = Err E_SHORT.
Proof. reflexivity. Qed.
Lemma fin_short3 b acc : b64_decode_from (mk64 b 3 (Ok acc)) [] = Err E_SHORT.
Proof. reflexivity. Qed.

Ltac spec_red := repeat first [rewrite val64_pad | progress cbv beta iota].
Ltac is_err := unfold agree; spec_red; eexists; reflexivity.

Lemma b64_decode_from_spec s : forall buf acc,
  agree (b64_decode_from (mk64 buf 0 (Ok acc)) s) (spec_dec64 s) acc.
Proof.
  induction s as [|a|a b|a b c|a b c d r IH] using list_ind4; intros [[[x0 x1] x2] x3] acc.
  - cbn [spec_dec64]. unfold agree. rewrite fin_ok, app_nil_r. reflexivity.
  - cbn [spec_dec64]. destruct (val64 a) as [va|] eqn:Va.
    + rewrite (step_ok0 _ _ _ _ _ _ va) by assumption. rewrite fin_short1. is_err.
    + rewrite step_bad by (assumption || lia). is_err.
  - cbn [spec_dec64]. destruct (val64 a) as [va|] eqn:Va; [|rewrite step_bad by (assumption || lia); is_err].
    rewrite (step_ok0 _ _ _ _ _ _ va) by assumption.
    destruct (val64 b) as [vb|] eqn:Vb; [|rewrite step_bad by (assumption || lia); is_err].
    rewrite (step_ok1 _ _ _ _ _ _ vb) by assumption. rewrite fin_short2. is_err.
  - cbn [spec_dec64]. destruct (val64 a) as [va|] eqn:Va; [|rewrite step_bad by (assumption || lia); is_err].
    rewrite (step_ok0 _ _ _ _ _ _ va) by assumption.
    destruct (val64 b) as [vb|] eqn:Vb; [|rewrite step_bad by (assumption || lia); is_err].
    rewrite (step_ok1 _ _ _ _ _ _ vb) by assumption.
    destruct (N.eq_dec c 61) as [->|Hc].
    + rewrite step_pad2, fin_short3. is_err.
    + destruct (val64 c) as [vc|] eqn:Vc.
      * rewrite (step_ok2 _ _ _ _ _ _ vc) by assumption. rewrite fin_short3. is_err.
      * rewrite step_bad_late by (assumption || discriminate). is_err.
  - cbn [spec_dec64].
    destruct (val64 a) as [va|] eqn:Va;
      [|rewrite step_bad by (assumption || lia); destruct r; is_err].
    rewrite (step_ok0 _ _ _ _ _ _ va) by assumption.
    destruct (val64 b) as [vb|] eqn:Vb;
      [|rewrite step_bad by (assumption || lia); destruct r; is_err].
    rewrite (step_ok1 _ _ _ _ _ _ vb) by assumption.
    pose proof (val64_lt _ _ Va) as La. pose proof (val64_lt _ _ Vb) as Lb.
    destruct (N.eqb_spec c 61) as [->|Hc].
    + (* third character is '=' *)
      rewrite step_pad2.
      destruct (N.eqb_spec d 61) as [->|Hd].
      * rewrite step3_pp. destruct r as [|x l].
        -- rewrite fin_eof. unfold agree. rewrite (dec6_2 va vb 128 128) by assumption. reflexivity.
        -- rewrite step_eof. is_err.
      * destruct (val64 d) as [vd|] eqn:Vd.
        -- rewrite (step3_pv _ _ _ _ _ vd) by assumption. destruct r; is_err.
        -- rewrite step_bad_late by (assumption || discriminate). destruct r; is_err.
    + destruct (val64 c) as [vc|] eqn:Vc;
        [|rewrite step_bad_late by (assumption || discriminate); destruct r; is_err].
      rewrite (step_ok2 _ _ _ _ _ _ vc) by assumption.
      pose proof (val64_lt _ _ Vc) as Lc.
      destruct (N.eqb_spec d 61) as [->|Hd].
      * rewrite step3_vp by assumption. destruct r as [|x l].
        -- rewrite fin_eof. unfold agree. rewrite (dec6_3 va vb vc 128) by assumption. reflexivity.
        -- rewrite step_eof. is_err.
      * destruct (val64 d) as [vd|] eqn:Vd;
          [|rewrite step_bad_late by (assumption || discriminate); destruct r; is_err].
        pose proof (val64_lt _ _ Vd) as Ld.
        rewrite (step3_vv _ _ _ _ _ _ vd) by assumption.
        destruct r as [|x l].
        -- rewrite fin_ok. unfold agree. rewrite dec6_4 by assumption. reflexivity.
        -- specialize (IH (va, vb, vc, vd)
             (acc ++ [b64_oct0 va vb vc vd; b64_oct1 va vb vc vd; b64_oct2 va vb vc vd])).
           destruct (spec_dec64 (x :: l)) as [bs|]; unfold agree in *.
           ++ rewrite IH, dec6_4 by assumption. rewrite <- app_assoc. reflexivity.
           ++ exact IH.
Qed.

(* `decode` stops at the first error, so making errors final (the repaired
   `push`) does not change it: everything proved about `decode` holds for the
   code with and without pending/C18-base64-decoder.diff *)
Lemma b64_cont_target d v d' acc : d64_target d = Ok acc ->
  b64_cont d v = Ok (d', None) -> exists acc', d64_target d' = Ok acc'.
Proof.
  destruct d as [[[[x0 x1] x2] x3] n t]. cbn [d64_target]. intros ->.
  unfold b64_cont, buf4_set. cbn [d64_buf d64_next d64_target].
  destruct (n =? 0); [|destruct (n =? 1); [|destruct (n =? 2); [|destruct (n =? 3)]]];
    cbn [bind]; try discriminate;
    (destruct (n + 1 =? b64_group); [|intros H; injection H as <-; cbn; eauto]);
    repeat match goal with |- context [if ?c then _ else _] => destruct c end;
    intros H; try discriminate; injection H as <-; cbn; eauto.
Qed.

Lemma b64_push_char_target d ch d' acc : d64_target d = Ok acc ->
  b64_push_char d ch = Ok (d', None) -> exists acc', d64_target d' = Ok acc'.
Proof.
  intros T. rewrite b64_push_unfold.
  destruct (d64_next d =? b64_push_eof); [discriminate|].
  destruct (ch =? b64_pad).
  - destruct (d64_next d <? b64_push_pad_min); [discriminate|]. apply b64_cont_target with (acc := acc), T.
  - destruct (b64_ascii_max <? ch); [discriminate|].
    destruct (tab_get b64_decode_tab ch) as [v| | |]; cbn [bind]; try discriminate.
    destruct (v =? b64_illegal_val); [discriminate|]. apply b64_cont_target with (acc := acc), T.
Qed.

Lemma b64_decode_from_fix_same s : forall d acc, d64_target d = Ok acc ->
  b64_decode_from_with true d s = b64_decode_from_with false d s.
Proof.
  induction s as [|ch r IH]; intros d acc T; [reflexivity|].
  cbn [b64_decode_from_with b64_push_with]. rewrite T.
  destruct (b64_push_char d ch) as [[d' [e|]]| | |] eqn:E; try reflexivity.
  destruct (b64_push_char_target d ch d' acc T E) as [acc' T']. apply (IH d' acc' T').
Qed.

Lemma b64_decode_is_cur s : b64_decode s = b64_decode_from b64_new s.
Proof.
  unfold b64_decode, b64_decode_from. destruct b64_push_sticky; [|reflexivity].
  apply (b64_decode_from_fix_same s b64_new []). reflexivity.
Qed.

Theorem b64_decode_spec s :
  match spec_dec64 s with
  | Some bs => b64_decode s = Ok bs
  | None => exists e, b64_decode s = Err e
  end.
Proof. rewrite b64_decode_is_cur. exact (b64_decode_from_spec s (0, 0, 0, 0) []). Qed.

(* accepts exactly well-formed text, with exactly the specified octets *)
Theorem b64_accepts_iff_wellformed s bs : b64_decode s = Ok bs <-> spec_dec64 s = Some bs.
Proof.
  pose proof (b64_decode_spec s) as H. destruct (spec_dec64 s) as [bs'|].
  - rewrite H. split; intros E; injection E as <-; reflexivity.
  - destruct H as [e H]. rewrite H. split; discriminate.
Qed.

(* ... and everything else is an error, never a panic *)
Theorem b64_decode_total s : no_panic (b64_decode s) /\
  (spec_dec64 s = None -> exists e, b64_decode s = Err e).
Proof.
  pose proof (b64_decode_spec s) as H. destruct (spec_dec64 s) as [bs'|].
  - rewrite H. split; [exact I|discriminate].
  - destruct H as [e H]. rewrite H. split; [exact I|eauto].
Qed.

Theorem b64_decode_encode bs : octets bs ->
  exists t, b64_display bs = Ok t /\ b64_decode t = Ok bs.
Proof.
  intros H. exists (spec_enc64 bs). split; [apply b64_encode_is_rfc4648, H|].
  apply b64_accepts_iff_wellformed, spec64_decode_encode, H.
Qed.

(* non-canonical trailing bits are accepted and ignored (RFC 4648 3.5) *)
Example b64_ignores_trailing_bits :
  b64_decode [90; 103; 61; 61] = Ok [102] /\ b64_decode [90; 104; 61; 61] = Ok [102] /\
  b64_decode [90; 109; 56; 61] = Ok [102; 111] /\ b64_decode [90; 109; 57; 61] = Ok [102; 111].
Proof. vm_compute. auto. Qed.
Example b64_decode_rejects :
  b64_decode [70; 80; 117; 99; 65] = Err E_SHORT /\
  b64_decode [70; 80; 117; 99; 65; 61] = Err (E_illegal 61) /\
  b64_decode [70; 80; 117; 99; 65; 119; 61; 97] = Err E_TRAILING /\
  b64_decode [90; 233; 61; 61] = Err (E_illegal 233).
Proof. vm_compute. auto. Qed.
