(* C18 -- property theorems only.  Proofs live in C18/Proofs*.v. *)
From Coq Require Import NArith List Bool.
Import ListNotations.
From DV Require Import Base.Outcome C18.Gen C18.Model C18.Proofs C18.ProofsEnc C18.ProofsSpec
  C18.ProofsDec64 C18.ProofsDec32 C18.ProofsApi C18.ProofsApi2 C18.ProofsConv C18.ProofsPostFix
  C18.ProofsCap C18.ProofsGrammar C18.ProofsUsers C18.ProofsScan2 C18.ModelName C18.ProofsAgree C18.ProofsName C18.ProofsW.
Local Open Scope N_scope.

Theorem C18_encode_tables_are_rfc4648 :
  b64_encode_tab = alpha64 /\ b32_encode_tab = alpha32hex /\
  b16_encode_tab = map (fun c => (sym alpha16 (c / 16), sym alpha16 (c mod 16))) (range 256).
Proof. exact (conj enc_tab64_is_rfc (conj enc_tab32_is_rfc enc_tab16_is_rfc)). Qed.
Print Assumptions C18_encode_tables_are_rfc4648.

Theorem C18_b64_encode_is_rfc4648 : forall bs, octets bs -> b64_display bs = Ok (spec_enc64 bs).
Proof. exact b64_encode_is_rfc4648. Qed.
Print Assumptions C18_b64_encode_is_rfc4648.

Theorem C18_b32_encode_is_rfc4648 : forall bs, octets bs -> b32_display bs = Ok (spec_enc32 bs).
Proof. exact b32_encode_is_rfc4648. Qed.
Print Assumptions C18_b32_encode_is_rfc4648.

Theorem C18_b16_encode_is_rfc4648 : forall bs, octets bs -> b16_display bs = Ok (spec_enc16 bs).
Proof. exact b16_encode_is_rfc4648. Qed.
Print Assumptions C18_b16_encode_is_rfc4648.

Theorem C18_spec_decode_encode : forall bs, octets bs ->
  spec_dec64 (spec_enc64 bs) = Some bs /\ spec_dec32 (spec_enc32 bs) = Some bs /\
  spec_dec16 (spec_enc16 bs) = Some bs.
Proof.
  exact (fun bs H => conj (spec64_decode_encode bs H)
                          (conj (spec32_decode_encode bs H) (spec16_decode_encode bs H))).
Qed.
Print Assumptions C18_spec_decode_encode.

Theorem C18_b64_decode_encode : forall bs, octets bs ->
  exists t, b64_display bs = Ok t /\ b64_decode t = Ok bs.
Proof. exact b64_decode_encode. Qed.
Print Assumptions C18_b64_decode_encode.

Theorem C18_b32_decode_encode : forall bs, octets bs ->
  exists t, b32_display bs = Ok t /\ b32_decode t = Ok bs.
Proof. exact b32_decode_encode. Qed.
Print Assumptions C18_b32_decode_encode.

Theorem C18_b16_decode_encode : forall bs, octets bs ->
  exists t, b16_display bs = Ok t /\ b16_decode t = Ok bs.
Proof. exact b16_decode_encode. Qed.
Print Assumptions C18_b16_decode_encode.

Theorem C18_b64_accepts_iff_wellformed : forall s bs,
  b64_decode s = Ok bs <-> spec_dec64 s = Some bs.
Proof. exact b64_accepts_iff_wellformed. Qed.
Print Assumptions C18_b64_accepts_iff_wellformed.

Theorem C18_b32_accepts_iff_wellformed : forall s bs,
  b32_decode s = Ok bs <-> spec_dec32 s = Some bs.
Proof. exact b32_accepts_iff_wellformed. Qed.
Print Assumptions C18_b32_accepts_iff_wellformed.

Theorem C18_b16_accepts_iff_wellformed : forall s bs,
  b16_decode s = Ok bs <-> spec_dec16 s = Some bs.
Proof. exact b16_accepts_iff_wellformed. Qed.
Print Assumptions C18_b16_accepts_iff_wellformed.

Theorem C18_accepts_only_alphabet : forall s bs,
  (b64_decode s = Ok bs ->
     Nat.modulo (length s) 4 = 0%nat /\ Forall (fun c => c = 61 \/ val64 c <> None) s) /\
  (b32_decode s = Ok bs -> Forall (fun c => val32 c <> None) s) /\
  (b16_decode s = Ok bs -> Forall (fun c => val16 c <> None) s /\ Nat.modulo (length s) 2 = 0%nat).
Proof.
  exact (fun s bs => conj (b64_accepts_only_alphabet s bs)
                          (conj (b32_accepts_only_alphabet s bs) (b16_accepts_only_alphabet s bs))).
Qed.
Print Assumptions C18_accepts_only_alphabet.

Theorem C18_b64_decode_total : forall s, no_panic (b64_decode s) /\
  (spec_dec64 s = None -> exists e, b64_decode s = Err e).
Proof. exact b64_decode_total. Qed.
Print Assumptions C18_b64_decode_total.

Theorem C18_b32_decode_total : forall s, no_panic (b32_decode s) /\
  (spec_dec32 s = None -> exists e, b32_decode s = Err e).
Proof. exact b32_decode_total. Qed.
Print Assumptions C18_b32_decode_total.

Theorem C18_b16_decode_total : forall s, no_panic (b16_decode s) /\
  (spec_dec16 s = None -> exists e, b16_decode s = Err e).
Proof. exact b16_decode_total. Qed.
Print Assumptions C18_b16_decode_total.

Theorem C18_b64_chunk_independent : forall sticky a b d,
  b64_run_with sticky d (a ++ b) = seq_runs (b64_run_with sticky) d a b.
Proof. exact b64_chunk_independent. Qed.
Print Assumptions C18_b64_chunk_independent.

Theorem C18_b32_chunk_independent : forall a b d, b32_run d (a ++ b) = seq_runs b32_run d a b.
Proof. exact b32_chunk_independent. Qed.
Print Assumptions C18_b32_chunk_independent.

Theorem C18_b16_chunk_independent : forall a b d, b16_run d (a ++ b) = seq_runs b16_run d a b.
Proof. exact b16_chunk_independent. Qed.
Print Assumptions C18_b16_chunk_independent.

Theorem C18_convert_chunk_independent : forall chunks,
  b64_convert chunks = b64_convert [concat chunks] /\
  b32_convert chunks = b32_convert [concat chunks] /\
  b16_convert chunks = b16_convert [concat chunks].
Proof.
  exact (fun c => conj (b64_convert_chunk_independent c)
                       (conj (b32_convert_chunk_independent c) (b16_convert_chunk_independent c))).
Qed.
Print Assumptions C18_convert_chunk_independent.

Theorem C18_converter_agrees_with_decoder : forall chunks,
  same_result (b64_convert chunks) (b64_decode (concat chunks)) /\
  same_result (b32_convert chunks) (b32_decode (concat chunks)) /\
  same_result (b16_convert chunks) (b16_decode (concat chunks)).
Proof.
  exact (fun c => conj (b64_converter_agrees c)
                       (conj (b32_converter_agrees c) (b16_converter_agrees c))).
Qed.
Print Assumptions C18_converter_agrees_with_decoder.

Theorem C18_b64_decode_unchanged_by_fix : forall s, b64_decode s = b64_decode_from_with false b64_new s.
Proof. exact b64_decode_is_cur. Qed.
Print Assumptions C18_b64_decode_unchanged_by_fix.

Theorem C18_b64_api_total_refuted :
  exists s, snd (b64_push_all_cur s) = Panic 2 /\
            fst (b64_push_all_cur s) = [None; None; None; Some E_TRAILING].
Proof. exact b64_api_total_refuted. Qed.
Print Assumptions C18_b64_api_total_refuted.

Theorem C18_b64_api_total_restricted : forall s,
  ~ In (Some E_TRAILING) (fst (b64_push_all_cur s)) -> no_panic (snd (b64_push_all_cur s)).
Proof. exact b64_api_total_restricted. Qed.
Print Assumptions C18_b64_api_total_restricted.

Theorem C18_b64_errors_sticky_refuted :
  exists s, fst (b64_push_all_cur s) = [Some (E_illegal 33); None; None; None; None] /\
            snd (b64_push_all_cur s) = Ok [102; 111; 111].
Proof. exact b64_errors_sticky_refuted. Qed.
Print Assumptions C18_b64_errors_sticky_refuted.

Theorem C18_b64_errors_sticky_restricted : forall s,
  all_trailing (fst (b64_push_all_cur s)) ->
  (exists e, In (Some e) (fst (b64_push_all_cur s))) ->
  forall l, snd (b64_push_all_cur s) <> Ok l.
Proof. exact b64_errors_sticky_restricted. Qed.
Print Assumptions C18_b64_errors_sticky_restricted.

Theorem C18_b64_fix_api_total : forall s, no_panic (snd (b64_push_all_fix s)).
Proof. exact b64_fix_api_total. Qed.
Print Assumptions C18_b64_fix_api_total.

Theorem C18_b64_fix_errors_sticky : forall s,
  (exists e, In (Some e) (fst (b64_push_all_fix s))) -> exists e, snd (b64_push_all_fix s) = Err e.
Proof. exact b64_fix_errors_sticky. Qed.
Print Assumptions C18_b64_fix_errors_sticky.

Theorem C18_b64_api_total_as_coded :
  if b64_push_sticky then forall s, no_panic (snd (b64_push_all s))
  else (exists s, snd (b64_push_all s) = Panic 2 /\
                  fst (b64_push_all s) = [None; None; None; Some E_TRAILING]) /\
       (forall s, ~ In (Some E_TRAILING) (fst (b64_push_all s)) -> no_panic (snd (b64_push_all s))).
Proof. exact (b64_api_total_sel b64_push_sticky). Qed.
Print Assumptions C18_b64_api_total_as_coded.

Theorem C18_b64_errors_sticky_as_coded :
  if b64_push_sticky then forall s, (exists e, In (Some e) (fst (b64_push_all s))) ->
                                    exists e, snd (b64_push_all s) = Err e
  else (exists s, fst (b64_push_all s) = [Some (E_illegal 33); None; None; None; None] /\
                  snd (b64_push_all s) = Ok [102; 111; 111]) /\
       (forall s, all_trailing (fst (b64_push_all s)) ->
                  (exists e, In (Some e) (fst (b64_push_all s))) ->
                  forall l, snd (b64_push_all s) <> Ok l).
Proof. exact (b64_errors_sticky_sel b64_push_sticky). Qed.
Print Assumptions C18_b64_errors_sticky_as_coded.

Theorem C18_b32_api_total : forall s, no_panic (snd (b32_push_all s)).
Proof. exact b32_api_total. Qed.
Print Assumptions C18_b32_api_total.

Theorem C18_b32_errors_sticky : forall s,
  (exists e, In (Some e) (fst (b32_push_all s))) -> exists e, snd (b32_push_all s) = Err e.
Proof. exact b32_errors_sticky. Qed.
Print Assumptions C18_b32_errors_sticky.

Theorem C18_b16_api_total : forall s, no_panic (snd (b16_push_all s)).
Proof. exact b16_api_total. Qed.
Print Assumptions C18_b16_api_total.

Theorem C18_b16_errors_sticky : forall s,
  (exists e, In (Some e) (fst (b16_push_all s))) -> exists e, snd (b16_push_all s) = Err e.
Proof. exact b16_errors_sticky. Qed.
Print Assumptions C18_b16_errors_sticky.

(* ---- well-formedness as a grammar (RFC 4648 section 4 quanta) ---- *)

Theorem C18_b64_accepts_iff_grammar : forall s bs,
  b64_decode s = Ok bs <-> wf64 s /\ bs = octets64 s.
Proof. exact b64_accepts_iff_grammar. Qed.
Print Assumptions C18_b64_accepts_iff_grammar.

Theorem C18_b64_rejects_iff_not_grammar : forall s, (exists e, b64_decode s = Err e) <-> ~ wf64 s.
Proof. exact b64_rejects_iff_not_grammar. Qed.
Print Assumptions C18_b64_rejects_iff_not_grammar.

Theorem C18_b32_accepts_iff_grammar : forall s bs,
  b32_decode s = Ok bs <-> wf_unpadded 5 val32 s /\ bs = octets_unpadded 5 val32 s.
Proof. exact b32_accepts_iff_grammar. Qed.
Print Assumptions C18_b32_accepts_iff_grammar.

Theorem C18_b16_accepts_iff_grammar : forall s bs,
  b16_decode s = Ok bs <-> wf_unpadded 4 val16 s /\ bs = octets_unpadded 4 val16 s.
Proof. exact b16_accepts_iff_grammar. Qed.
Print Assumptions C18_b16_accepts_iff_grammar.

(* ---- bounded octets builders (ShortBuf) ---- *)

Theorem C18_cap_none_is_unbounded : forall s,
  (b64_decode_cap None s = b64_decode s /\ b64_push_all_cap None s = b64_push_all s) /\
  (b32_decode_cap None s = b32_decode s /\ b32_push_all_cap None s = b32_push_all s) /\
  (b16_decode_cap None s = b16_decode s /\ b16_push_all_cap None s = b16_push_all s).
Proof. exact cap_none_is_unbounded. Qed.
Print Assumptions C18_cap_none_is_unbounded.

Theorem C18_b32_cap_api_total_sticky : forall cap s,
  no_panic (snd (b32_push_all_cap cap s)) /\
  ((exists e, In (Some e) (fst (b32_push_all_cap cap s))) -> exists e, snd (b32_push_all_cap cap s) = Err e).
Proof. exact (fun cap s => conj (b32_cap_api_total cap s) (b32_cap_errors_sticky cap s)). Qed.
Print Assumptions C18_b32_cap_api_total_sticky.

Theorem C18_b16_cap_api_total_sticky : forall cap s,
  no_panic (snd (b16_push_all_cap cap s)) /\
  ((exists e, In (Some e) (fst (b16_push_all_cap cap s))) -> exists e, snd (b16_push_all_cap cap s) = Err e).
Proof. exact (fun cap s => conj (b16_cap_api_total cap s) (b16_cap_errors_sticky cap s)). Qed.
Print Assumptions C18_b16_cap_api_total_sticky.

Theorem C18_b64_cap_api_total_sticky : forall cap s,
  no_panic (snd (b64_push_all_cap_fix cap s)) /\
  ((exists e, In (Some e) (fst (b64_push_all_cap_fix cap s))) ->
   exists e, snd (b64_push_all_cap_fix cap s) = Err e).
Proof. exact (fun cap s => conj (b64_cap_api_total cap s) (b64_cap_errors_sticky cap s)). Qed.
Print Assumptions C18_b64_cap_api_total_sticky.

(* the push found in the source is the error-recording wrapper (T1), so the
   previous theorem is about the code in /repo *)
Theorem C18_b64_cap_is_as_coded : b64_push_sticky = true /\
  forall cap s, b64_push_all_cap cap s = b64_push_all_cap_fix cap s.
Proof. exact (conj eq_refl (fun _ _ => eq_refl)). Qed.
Print Assumptions C18_b64_cap_is_as_coded.

(* ---- users: IterScanner entry points, NSEC3 salt and owner hash ---- *)

Theorem C18_scan_token_plain_agrees_with_decode : forall s, ~ In 92 s ->
  same_result (b64_scan_token s) (b64_decode s) /\ same_result (b32_scan_token s) (b32_decode s) /\
  same_result (b16_scan_token s) (b16_decode s).
Proof. exact scan_token_plain_agrees_with_decode. Qed.
Print Assumptions C18_scan_token_plain_agrees_with_decode.

Theorem C18_scan_entry_plain_agrees_with_decode : forall toks, Forall (fun t => ~ In 92 t) toks ->
  same_result (b64_scan_entry toks) (b64_decode (concat toks)) /\
  same_result (b32_scan_entry toks) (b32_decode (concat toks)) /\
  same_result (b16_scan_entry toks) (b16_decode (concat toks)).
Proof. exact scan_entry_plain. Qed.
Print Assumptions C18_scan_entry_plain_agrees_with_decode.

Theorem C18_scan_escapes_as_coded :
  if iter_scanner_checks_escapes
  then forall token, snd (symbols token) = false ->
         (forall bs, b64_scan_token token <> Ok bs) /\ (forall bs, b32_scan_token token <> Ok bs) /\
         (forall bs, b16_scan_token token <> Ok bs) /\
         (forall lim bs, salt_scan_with iter_scanner_checks_escapes lim token <> Ok bs) /\
         (forall lim bs, hash_scan_with iter_scanner_checks_escapes lim token <> Ok bs)
  else exists token, snd (symbols token) = false /\ b16_scan_token token = Ok [240; 15].
Proof. exact (scan_escapes_sel iter_scanner_checks_escapes). Qed.
Print Assumptions C18_scan_escapes_as_coded.

Theorem C18_salt_from_str_spec : forall s bs,
  salt_from_str s = Ok bs <->
  (s = [45] /\ bs = []) \/ (s <> [45] /\ spec_dec16 s = Some bs /\ (length bs <= 255)%nat).
Proof. exact salt_from_str_spec. Qed.
Print Assumptions C18_salt_from_str_spec.

Theorem C18_salt_roundtrip : forall bs, octets bs -> (length bs <= 255)%nat ->
  exists t, salt_display bs = Ok t /\ salt_from_str t = Ok bs.
Proof. exact salt_roundtrip. Qed.
Print Assumptions C18_salt_roundtrip.

Theorem C18_hash_roundtrip : forall bs, octets bs -> (length bs <= 255)%nat ->
  exists t, hash_display bs = Ok t /\ hash_from_str t = Ok bs.
Proof. exact (hash_roundtrip nsec3_hash_from_str_limited). Qed.
Print Assumptions C18_hash_roundtrip.

Theorem C18_hash_from_str_as_coded :
  if nsec3_hash_from_str_limited
  then forall s bs, hash_from_str s = Ok bs <-> spec_dec32 s = Some bs /\ (length bs <= 255)%nat
  else (forall s bs, hash_from_str s = Ok bs <-> spec_dec32 s = Some bs) /\
       exists s bs, hash_from_str s = Ok bs /\ length bs = 260%nat.
Proof. exact (hash_from_str_sel nsec3_hash_from_str_limited). Qed.
Print Assumptions C18_hash_from_str_as_coded.

Theorem C18_nsec3_scan_limit_as_coded :
  (if nsec3_salt_scan_limited
   then forall token bs, salt_scan token = Ok bs -> (length bs <= 255)%nat
   else exists token bs, salt_scan token = Ok bs /\ length bs = 256%nat) /\
  (if nsec3_hash_scan_limited
   then forall token bs, hash_scan token = Ok bs -> (length bs <= 255)%nat
   else exists token bs, hash_scan token = Ok bs /\ length bs = 260%nat).
Proof. exact (scan_limit_sel iter_scanner_checks_escapes nsec3_salt_scan_limited nsec3_hash_scan_limited). Qed.
Print Assumptions C18_nsec3_scan_limit_as_coded.

(* the repaired variants are the ones in /repo (T1): reverting a fix breaks this *)
Theorem C18_fixes_present :
  b64_push_sticky = true /\ iter_scanner_checks_escapes = true /\ nsec3_salt_scan_limited = true /\
  nsec3_hash_from_str_limited = true /\ nsec3_hash_scan_limited = true.
Proof. exact (conj eq_refl (conj eq_refl (conj eq_refl (conj eq_refl eq_refl)))). Qed.
Print Assumptions C18_fixes_present.

Theorem C18_symbols_ok_iff_wf_escapes : forall s, snd (symbols s) = true <-> wf_esc s.
Proof. exact symbols_ok_iff_wf. Qed.
Print Assumptions C18_symbols_ok_iff_wf_escapes.

Theorem C18_into_char_spec : forall y,
  into_char y = match y with
                | SChar c => Some c
                | SSimple c => if (32 <=? c) && (c <? 127) then Some c else None
                | SDecimal _ => None
                end.
Proof. exact into_char_spec. Qed.
Print Assumptions C18_into_char_spec.

(* decode into a builder of capacity c: the unbounded result if it fits,
   ShortBuf if the text is well-formed but too long, an error otherwise *)
Theorem C18_decode_cap_spec : forall c s,
  cap_decode_stmt b64_decode b64_decode_cap c s /\ cap_decode_stmt b32_decode b32_decode_cap c s /\
  cap_decode_stmt b16_decode b16_decode_cap c s.
Proof.
  exact (fun c s => conj (b64_decode_cap_spec c s) (conj (b32_decode_cap_spec c s) (b16_decode_cap_spec c s))).
Qed.
Print Assumptions C18_decode_cap_spec.

(* textual T1 anchors that carry no value: the wrappers are calls of display,
   decode is push-with-? then finalize, ShortBuf is handled as modelled *)
Theorem C18_t1_shape_anchors :
  encode_wrappers_are_display = true /\ shortbuf_paths_as_modelled = true /\
  decode_is_push_try_finalize = true /\ serde_modules_use_codecs = true /\
  codec_entry_points_as_listed = true /\ nsec3_serde_uses_text_entry_points = true.
Proof. exact (conj eq_refl (conj eq_refl (conj eq_refl (conj eq_refl (conj eq_refl eq_refl))))). Qed.
Print Assumptions C18_t1_shape_anchors.

(* ---- the other token-reading methods of IterScanner; display into a failing writer ---- *)

Theorem C18_scan_methods_refuse_bad_escapes : forall token, snd (symbols token) = false ->
  (forall r, scan_octets token <> Ok r) /\ (forall r, scan_charstr token <> Ok r) /\
  (forall r, scan_string token <> Ok r) /\ (forall r, scan_ascii_str token <> Ok r) /\
  (forall r, scan_symbols token <> Ok r) /\
  (forall f r, scan_name_with iter_scanner_checks_escapes f token <> Ok r).
Proof. exact scan_methods_refuse_bad_escapes. Qed.
Print Assumptions C18_scan_methods_refuse_bad_escapes.

Theorem C18_scan_entry_methods_refuse_bad_escapes : forall tokens,
  Exists (fun token => snd (symbols token) = false) tokens ->
  (forall r, scan_charstr_entry tokens <> Ok r) /\ (forall r, scan_entry_symbols tokens <> Ok r).
Proof. exact scan_entry_methods_refuse_bad_escapes. Qed.
Print Assumptions C18_scan_entry_methods_refuse_bad_escapes.

Theorem C18_scan_symbols_ok_iff : forall token syms,
  scan_symbols token = Ok syms <-> wf_esc token /\ syms = fst (symbols token).
Proof. exact scan_symbols_ok_iff. Qed.
Print Assumptions C18_scan_symbols_ok_iff.

Theorem C18_scan_octets_plain : forall s, ~ In 92 s -> Forall printable s ->
  scan_octets s = Ok s /\ (N.of_nat (length s) <= 255 -> scan_charstr s = Ok s).
Proof. exact (scan_octets_plain iter_scanner_checks_escapes). Qed.
Print Assumptions C18_scan_octets_plain.

Theorem C18_scan_string_plain : forall s, ~ In 92 s -> scan_string s = Ok (flat_map utf8 s).
Proof. exact (scan_string_plain iter_scanner_checks_escapes). Qed.
Print Assumptions C18_scan_string_plain.

Theorem C18_b64_display_into_writer : forall bs room, octets bs ->
  b64_display_w ([], room) bs =
  Ok (if N.of_nat (length (spec_enc64 bs)) <=? room
      then ((spec_enc64 bs, room - N.of_nat (length (spec_enc64 bs))), true)
      else ((firstn (N.to_nat room) (spec_enc64 bs), 0), false)).
Proof. exact b64_display_into_writer. Qed.
Print Assumptions C18_b64_display_into_writer.

Theorem C18_b16_display_into_writer : forall bs room, octets bs ->
  b16_display_w ([], room) bs =
  Ok (if 2 * N.of_nat (length bs) <=? room
      then ((spec_enc16 bs, room - 2 * N.of_nat (length bs)), true)
      else ((spec_enc16 (firstn (N.to_nat (room / 2)) bs), room - 2 * (room / 2)), false)).
Proof. exact b16_display_into_writer. Qed.
Print Assumptions C18_b16_display_into_writer.

(* ---- round 3: characters above ASCII, agreement of the text entry points, scan_name ---- *)

Theorem C18_decode_rejects_above_ascii : forall s, Exists (fun c => 127 < c) s ->
  (exists e, b64_decode s = Err e) /\ (exists e, b32_decode s = Err e) /\ (exists e, b16_decode s = Err e).
Proof. exact decode_rejects_above_ascii. Qed.
Print Assumptions C18_decode_rejects_above_ascii.

Theorem C18_push_rejects_above_ascii : forall ch, 127 < ch ->
  (forall d, d64_next d <> 240 -> b64_push_char d ch = Ok (d, Some (E_illegal ch))) /\
  (forall d, b32_push d ch = Ok (mk32 (d32_buf d) (d32_next d) (Err (E_illegal ch)), Some (E_illegal ch))) /\
  (forall d, b16_push d ch = Ok (mk16 (d16_buf d) (Err (E_illegal ch)), Some (E_illegal ch))).
Proof. exact push_rejects_above_ascii. Qed.
Print Assumptions C18_push_rejects_above_ascii.

Theorem C18_converters_reject_above_ascii : forall chunks, Exists (fun c => 127 < c) (concat chunks) ->
  (forall bs, b64_convert chunks <> Ok bs) /\ (forall bs, b32_convert chunks <> Ok bs) /\
  (forall bs, b16_convert chunks <> Ok bs).
Proof. exact converters_reject_above_ascii. Qed.
Print Assumptions C18_converters_reject_above_ascii.

Theorem C18_salt_scan_agrees_from_str : forall s bs, ~ In 92 s ->
  (salt_scan s = Ok bs <-> salt_from_str s = Ok bs).
Proof. exact (salt_scan_agrees_from_str iter_scanner_checks_escapes). Qed.
Print Assumptions C18_salt_scan_agrees_from_str.

Theorem C18_hash_scan_agrees_from_str : forall s bs, ~ In 92 s ->
  (hash_scan s = Ok bs <-> hash_from_str s = Ok bs).
Proof. exact (hash_scan_agrees_from_str iter_scanner_checks_escapes). Qed.
Print Assumptions C18_hash_scan_agrees_from_str.

Theorem C18_scan_name_refuses_bad_escapes : forall token, snd (symbols token) = false ->
  forall w, scan_name token <> Ok w.
Proof. exact scan_name_refuses_bad_escapes. Qed.
Print Assumptions C18_scan_name_refuses_bad_escapes.

Theorem C18_b32_display_into_writer : forall bs room, octets bs ->
  b32_display_w ([], room) bs =
  Ok (if N.of_nat (length (spec_enc32 bs)) <=? room
      then ((spec_enc32 bs, room - N.of_nat (length (spec_enc32 bs))), true)
      else ((firstn (N.to_nat room) (spec_enc32 bs), 0), false)).
Proof. exact b32_display_into_writer. Qed.
Print Assumptions C18_b32_display_into_writer.

(* ---- round 5 widening (ProofsW) ---- *)

Theorem C18_b32_rejects_iff_not_grammar : forall s,
  (exists e, b32_decode s = Err e) <-> ~ wf_unpadded 5 val32 s.
Proof. exact b32_rejects_iff_not_grammar. Qed.
Print Assumptions C18_b32_rejects_iff_not_grammar.

Theorem C18_b16_rejects_iff_not_grammar : forall s,
  (exists e, b16_decode s = Err e) <-> ~ wf_unpadded 4 val16 s.
Proof. exact b16_rejects_iff_not_grammar. Qed.
Print Assumptions C18_b16_rejects_iff_not_grammar.

Theorem C18_encoders_injective : forall a b, octets a -> octets b ->
  (b64_display a = b64_display b -> a = b) /\
  (b32_display a = b32_display b -> a = b) /\
  (b16_display a = b16_display b -> a = b).
Proof. exact encoders_injective. Qed.
Print Assumptions C18_encoders_injective.

Theorem C18_encoded_is_wellformed : forall bs, octets bs ->
  (exists t, b64_display bs = Ok t /\ wf64 t /\ octets64 t = bs) /\
  (exists t, b32_display bs = Ok t /\ wf_unpadded 5 val32 t /\ octets_unpadded 5 val32 t = bs) /\
  (exists t, b16_display bs = Ok t /\ wf_unpadded 4 val16 t /\ octets_unpadded 4 val16 t = bs).
Proof. exact encoded_is_wellformed. Qed.
Print Assumptions C18_encoded_is_wellformed.

Theorem C18_push_chunks_independent : forall chunks,
  (forall sticky d, b64_run_with sticky d (concat chunks) = runs_list (b64_run_with sticky) d chunks) /\
  (forall d, b32_run d (concat chunks) = runs_list b32_run d chunks) /\
  (forall d, b16_run d (concat chunks) = runs_list b16_run d chunks).
Proof. exact push_chunks_independent. Qed.
Print Assumptions C18_push_chunks_independent.

Theorem C18_push_rechunk_independent : forall c1 c2, concat c1 = concat c2 ->
  (forall sticky d, runs_list (b64_run_with sticky) d c1 = runs_list (b64_run_with sticky) d c2) /\
  (forall d, runs_list b32_run d c1 = runs_list b32_run d c2) /\
  (forall d, runs_list b16_run d c1 = runs_list b16_run d c2).
Proof. exact push_rechunk_independent. Qed.
Print Assumptions C18_push_rechunk_independent.

Theorem C18_decode_not_injective :
  (exists s1 s2 bs, s1 <> s2 /\ b64_decode s1 = Ok bs /\ b64_decode s2 = Ok bs) /\
  (exists s1 s2 bs, s1 <> s2 /\ b32_decode s1 = Ok bs /\ b32_decode s2 = Ok bs) /\
  (exists s1 s2 bs, s1 <> s2 /\ b16_decode s1 = Ok bs /\ b16_decode s2 = Ok bs).
Proof. exact decode_not_injective. Qed.
Print Assumptions C18_decode_not_injective.

Theorem C18_decode_yields_octets : forall s bs,
  (b64_decode s = Ok bs -> octets bs) /\ (b32_decode s = Ok bs -> octets bs) /\
  (b16_decode s = Ok bs -> octets bs).
Proof. exact decode_yields_octets. Qed.
Print Assumptions C18_decode_yields_octets.

Theorem C18_decode_reencode : forall s bs,
  (b64_decode s = Ok bs -> exists t, b64_display bs = Ok t /\ b64_decode t = Ok bs) /\
  (b32_decode s = Ok bs -> exists t, b32_display bs = Ok t /\ b32_decode t = Ok bs) /\
  (b16_decode s = Ok bs -> exists t, b16_display bs = Ok t /\ b16_decode t = Ok bs).
Proof. exact decode_reencode. Qed.
Print Assumptions C18_decode_reencode.

Theorem C18_decoded_length_unpadded : forall s bs,
  (b32_decode s = Ok bs -> length bs = Nat.div (Nat.mul 5 (length s)) 8 /\ lt (Nat.modulo (Nat.mul 5 (length s)) 8) 5) /\
  (b16_decode s = Ok bs -> length s = Nat.mul 2 (length bs)).
Proof. exact decoded_length_unpadded. Qed.
Print Assumptions C18_decoded_length_unpadded.

Theorem C18_encoded_length_unpadded : forall bs t, octets bs ->
  (b32_display bs = Ok t -> length t = Nat.div (Nat.add (Nat.mul 8 (length bs)) 4) 5) /\
  (b16_display bs = Ok t -> length t = Nat.mul 2 (length bs)).
Proof. exact encoded_length_unpadded. Qed.
Print Assumptions C18_encoded_length_unpadded.

Theorem C18_b64_decoded_length : forall s bs, b64_decode s = Ok bs ->
  Nat.modulo (length s) 4 = O /\ length bs = Nat.div (Nat.mul 6 (length (data64 s))) 8.
Proof. exact b64_decoded_length. Qed.
Print Assumptions C18_b64_decoded_length.
