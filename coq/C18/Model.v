(* C18 model: utils/base64.rs, utils/base32.rs (base32hex only - the crate has
   no standard-alphabet Base32), utils/base16.rs.
   Per codec: display (encode), Decoder::{push,finalize}, the `decode`
   convenience function (push with `?`, then finalize) and the scanner-side
   SymbolConverter::{process_symbol/process_char, process_tail}.
   Characters are code points (N), octets are N below 256.  All tables, marker
   and guard constants and the shift/mask expressions come from C18.Gen (T1).
   The octets builder is an unbounded Vec: append_slice never fails, ShortBuf
   is not modelled.
   Error codes (Err e):  1 TrailingInput  2 ShortInput  3 ShortBuf
                         4 converter "illegal data"    16+c IllegalChar(c)
   Panic sites:          1 table index out of bounds   2 buf index out of bounds
                         3 unwrap on Err target        4 unreachable!()
                         5 to_digit radix > 36 *)
From Coq Require Import NArith List Bool.
Import ListNotations.
From DV Require Import Base.Outcome C18.Gen.
Local Open Scope N_scope.

Definition E_TRAILING : N := 1.
Definition E_SHORT : N := 2.
Definition E_SHORTBUF : N := 3.
Definition E_CONV_ILLEGAL : N := 4.
Definition E_illegal (ch : N) : N := 16 + ch.

Definition tab_get (t : list N) (i : N) : outcome N :=
  match nth_error t (N.to_nat i) with Some v => Ok v | None => Panic 1 end.

(* Result<Builder, DecodeError> with an unbounded builder *)
Definition target := outcome (list N).
Definition append (t : target) (v : N) : target :=
  match t with Ok l => Ok (l ++ [v]) | other => other end.
Definition target_err (t : target) : option N :=
  match t with Err e => Some e | _ => None end.

(* ------------------------------------------------------------------ *)
(* Base64                                                               *)

Definition b64_ch (i : N) : outcome N := tab_get b64_encode_tab i.

(* display: for chunk in bytes.chunks(3) { match chunk.len() { 1 | 2 | 3 } } *)
Fixpoint b64_display (bs : list N) : outcome (list N) :=
  match bs with
  | [] => Ok []
  | [c0] =>
      do a <- b64_ch (b64_e1_0 c0 0 0);
      do b <- b64_ch (b64_e1_1 c0 0 0);
      Ok [a; b; b64_disp_pad; b64_disp_pad]
  | [c0; c1] =>
      do a <- b64_ch (b64_e2_0 c0 c1 0);
      do b <- b64_ch (b64_e2_1 c0 c1 0);
      do c <- b64_ch (b64_e2_2 c0 c1 0);
      Ok [a; b; c; b64_disp_pad]
  | c0 :: c1 :: c2 :: rest =>
      do a <- b64_ch (b64_e3_0 c0 c1 c2);
      do b <- b64_ch (b64_e3_1 c0 c1 c2);
      do c <- b64_ch (b64_e3_2 c0 c1 c2);
      do d <- b64_ch (b64_e3_3 c0 c1 c2);
      do r <- b64_display rest;
      Ok (a :: b :: c :: d :: r)
  end.

Definition buf4 := (N * N * N * N)%type.
Definition buf4_set (b : buf4) (i v : N) : outcome buf4 :=
  let '(b0, b1, b2, b3) := b in
  if i =? 0 then Ok (v, b1, b2, b3)
  else if i =? 1 then Ok (b0, v, b2, b3)
  else if i =? 2 then Ok (b0, b1, v, b3)
  else if i =? 3 then Ok (b0, b1, b2, v)
  else Panic 2.

Record dec64 := mk64 { d64_buf : buf4; d64_next : N; d64_target : target }.
Definition b64_new : dec64 := mk64 (0, 0, 0, 0) 0 (Ok []).

(* The decoding step of Decoder::push (the whole of `push` at the pinned
   commit; `push_char` once pending/C18-base64-decoder.diff is applied).
   Result: the new state and what was returned (None = Ok(()), Some e =
   Err(e)); Panic when the real code panics. *)
Definition b64_push_char (d : dec64) (ch : N) : outcome (dec64 * option N) :=
  if d64_next d =? b64_push_eof then
    Ok (mk64 (d64_buf d) (d64_next d) (Err E_TRAILING), Some E_TRAILING)
  else
    let ill := Ok (d, Some (E_illegal ch)) in
    let cont (val : N) : outcome (dec64 * option N) :=
      do buf' <- buf4_set (d64_buf d) (d64_next d) val;
      let next' := d64_next d + 1 in
      if next' =? b64_group then
        match d64_target d with
        | Ok t0 =>
            let '(x0, x1, x2, x3) := buf' in
            let t1 := t0 ++ [b64_oct0 x0 x1 x2 x3] in
            let t2 := if negb (x2 =? b64_push_pad_val) then t1 ++ [b64_oct1 x0 x1 x2 x3] else t1 in
            if negb (x3 =? b64_push_pad_val) then
              if x2 =? b64_push_pad_val then
                (* return Err(TrailingInput): next stays 4, nothing recorded in target *)
                Ok (mk64 buf' next' (Ok t2), Some E_TRAILING)
              else Ok (mk64 buf' 0 (Ok (t2 ++ [b64_oct2 x0 x1 x2 x3])), None)
            else Ok (mk64 buf' b64_push_eof (Ok t2), None)
        | _ => Panic 3
        end
      else Ok (mk64 buf' next' (d64_target d), None) in
    if ch =? b64_pad then
      if d64_next d <? b64_push_pad_min then ill else cont b64_push_pad_val
    else if b64_ascii_max <? ch then ill
    else
      do v <- tab_get b64_decode_tab ch;
      if v =? b64_illegal_val then ill else cont v.

Definition b64_finalize (d : dec64) : outcome (list N) :=
  match d64_target d with
  | Ok bytes => if N.land (d64_next d) b64_fin_mask =? 0 then Ok bytes else Err E_SHORT
  | other => other
  end.

(* Decoder::push.  T1 reads from the source whether `push` is the decoding
   step itself (b64_push_sticky = false: IllegalChar, in-group TrailingInput and
   ShortBuf errors are returned but not recorded) or the wrapper
       if let Err(err) = self.target { return Err(err); }
       let res = self.push_char(ch);
       if let Err(err) = res { self.target = Err(err); }
       res
   that makes every error final (b64_push_sticky = true). *)
Definition b64_push_with (sticky : bool) (d : dec64) (ch : N) : outcome (dec64 * option N) :=
  if sticky then
    match d64_target d with
    | Err e => Ok (d, Some e)
    | _ =>
        match b64_push_char d ch with
        | Ok (d', Some e) => Ok (mk64 (d64_buf d') (d64_next d') (Err e), Some e)
        | other => other
        end
    end
  else b64_push_char d ch.
Definition b64_push := b64_push_with b64_push_sticky.

(* decode: for ch in s.chars() { decoder.push(ch)?; } decoder.finalize() *)
Fixpoint b64_decode_from_with (sticky : bool) (d : dec64) (s : list N) : outcome (list N) :=
  match s with
  | [] => b64_finalize d
  | ch :: r =>
      match b64_push_with sticky d ch with
      | Ok (d', None) => b64_decode_from_with sticky d' r
      | Ok (_, Some e) => Err e
      | Err e => Err e
      | Panic p => Panic p
      | OutOfFuel => OutOfFuel
      end
  end.
Definition b64_decode (s : list N) : outcome (list N) :=
  b64_decode_from_with b64_push_sticky b64_new s.

(* the per-push API used without stopping at errors: every push result is
   recorded; stops only at a panic *)
Fixpoint b64_run_with (sticky : bool) (d : dec64) (s : list N) : list (option N) * outcome dec64 :=
  match s with
  | [] => ([], Ok d)
  | ch :: r =>
      match b64_push_with sticky d ch with
      | Ok (d', res) => let '(tr, fin) := b64_run_with sticky d' r in (res :: tr, fin)
      | Err e => ([], Err e)
      | Panic p => ([], Panic p)
      | OutOfFuel => ([], OutOfFuel)
      end
  end.
Definition b64_push_all_with (sticky : bool) (s : list N) : list (option N) * outcome (list N) :=
  let '(tr, fin) := b64_run_with sticky b64_new s in
  (tr, match fin with
       | Ok d => match b64_finalize d with
                 | Ok l => Ok l | Err e => Err e | Panic p => Panic p | OutOfFuel => OutOfFuel end
       | Err e => Panic 0 | Panic p => Panic p | OutOfFuel => OutOfFuel end).
Definition b64_push_all := b64_push_all_with b64_push_sticky.

(* the two variants by name: the pinned code and the repaired code *)
Definition b64_decode_from := b64_decode_from_with false.
Definition b64_run := b64_run_with false.
Definition b64_push_all_cur := b64_push_all_with false.
Definition b64_push_all_fix := b64_push_all_with true.

(* scanner side *)
Inductive esym := Sym (ch : N) | EndOfToken.

Record conv64 := mkc64 { c64_input : buf4; c64_next : N }.
Definition c64_new : conv64 := mkc64 (0, 0, 0, 0) 0.

(* process_char: Ok (state, octets handed to the scanner) or Err *)
Definition c64_process_char (c : conv64) (ch : N) : outcome (conv64 * list N) :=
  if c64_next c =? b64_eof_marker then Err E_TRAILING
  else
    let cont (val : N) : outcome (conv64 * list N) :=
      do inp <- buf4_set (c64_input c) (c64_next c) val;
      let next' := c64_next c + 1 in
      if next' =? b64_conv_group then
        let '(x0, x1, x2, x3) := inp in
        let o0 := b64_conv_oct0 x0 x1 x2 x3 in
        if x2 =? b64_pad_marker then
          if x3 =? b64_pad_marker then Ok (mkc64 inp b64_eof_marker, [o0])
          else Err E_CONV_ILLEGAL
        else
          let o1 := b64_conv_oct1 x0 x1 x2 x3 in
          if x3 =? b64_pad_marker then Ok (mkc64 inp b64_eof_marker, [o0; o1])
          else Ok (mkc64 inp 0, [o0; o1; b64_conv_oct2 x0 x1 x2 x3])
      else Ok (mkc64 inp next', []) in
    if ch =? b64_pad then
      if c64_next c <? b64_conv_pad_min then Err E_CONV_ILLEGAL else cont b64_pad_marker
    else if b64_conv_ascii_max <? ch then Err E_CONV_ILLEGAL
    else
      do v <- tab_get b64_decode_tab ch;
      if v =? b64_conv_illegal_val then Err E_CONV_ILLEGAL else cont v.

Definition c64_process_symbol (c : conv64) (s : esym) : outcome (conv64 * list N) :=
  match s with Sym ch => c64_process_char c ch | EndOfToken => Ok (c, []) end.

Definition c64_process_tail (c : conv64) : outcome (list N) :=
  if N.land (c64_next c) b64_conv_fin_mask =? 0 then Ok [] else Err E_SHORT.

Fixpoint c64_run (c : conv64) (acc : list N) (s : list esym) : outcome (list N) :=
  match s with
  | [] => do t <- c64_process_tail c; Ok (acc ++ t)
  | x :: r => do cr <- c64_process_symbol c x; c64_run (fst cr) (acc ++ snd cr) r
  end.

Definition tokens (chunks : list (list N)) : list esym :=
  flat_map (fun ck => map Sym ck ++ [EndOfToken]) chunks.
Definition b64_convert (chunks : list (list N)) : outcome (list N) :=
  c64_run c64_new [] (tokens chunks).

(* ------------------------------------------------------------------ *)
(* Base32hex                                                            *)

Definition b32_ch (i : N) : outcome N := tab_get b32_encode_tab i.

(* display_hex: for chunk in bytes.chunks(5) with `break` after a short chunk *)
Fixpoint b32_display (bs : list N) : outcome (list N) :=
  match bs with
  | [] => Ok []
  | [c0] =>
      do a <- b32_ch (b32_e0 c0 0 0 0 0);
      do b <- b32_ch (b32_e1_last c0 0 0 0 0);
      Ok [a; b]
  | [c0; c1] =>
      do a <- b32_ch (b32_e0 c0 c1 0 0 0);
      do b <- b32_ch (b32_e1 c0 c1 0 0 0);
      do c <- b32_ch (b32_e2 c0 c1 0 0 0);
      do d <- b32_ch (b32_e3_last c0 c1 0 0 0);
      Ok [a; b; c; d]
  | [c0; c1; c2] =>
      do a <- b32_ch (b32_e0 c0 c1 c2 0 0);
      do b <- b32_ch (b32_e1 c0 c1 c2 0 0);
      do c <- b32_ch (b32_e2 c0 c1 c2 0 0);
      do d <- b32_ch (b32_e3 c0 c1 c2 0 0);
      do e <- b32_ch (b32_e4_last c0 c1 c2 0 0);
      Ok [a; b; c; d; e]
  | [c0; c1; c2; c3] =>
      do a <- b32_ch (b32_e0 c0 c1 c2 c3 0);
      do b <- b32_ch (b32_e1 c0 c1 c2 c3 0);
      do c <- b32_ch (b32_e2 c0 c1 c2 c3 0);
      do d <- b32_ch (b32_e3 c0 c1 c2 c3 0);
      do e <- b32_ch (b32_e4 c0 c1 c2 c3 0);
      do f <- b32_ch (b32_e5 c0 c1 c2 c3 0);
      do g <- b32_ch (b32_e6_last c0 c1 c2 c3 0);
      Ok [a; b; c; d; e; f; g]
  | c0 :: c1 :: c2 :: c3 :: c4 :: rest =>
      do a <- b32_ch (b32_e0 c0 c1 c2 c3 c4);
      do b <- b32_ch (b32_e1 c0 c1 c2 c3 c4);
      do c <- b32_ch (b32_e2 c0 c1 c2 c3 c4);
      do d <- b32_ch (b32_e3 c0 c1 c2 c3 c4);
      do e <- b32_ch (b32_e4 c0 c1 c2 c3 c4);
      do f <- b32_ch (b32_e5 c0 c1 c2 c3 c4);
      do g <- b32_ch (b32_e6 c0 c1 c2 c3 c4);
      do h <- b32_ch (b32_e7 c0 c1 c2 c3 c4);
      do r <- b32_display rest;
      Ok (a :: b :: c :: d :: e :: f :: g :: h :: r)
  end.

Definition buf8 := (N * N * N * N * N * N * N * N)%type.
Definition buf8_set (b : buf8) (i v : N) : outcome buf8 :=
  let '(b0, b1, b2, b3, b4, b5, b6, b7) := b in
  if i =? 0 then Ok (v, b1, b2, b3, b4, b5, b6, b7)
  else if i =? 1 then Ok (b0, v, b2, b3, b4, b5, b6, b7)
  else if i =? 2 then Ok (b0, b1, v, b3, b4, b5, b6, b7)
  else if i =? 3 then Ok (b0, b1, b2, v, b4, b5, b6, b7)
  else if i =? 4 then Ok (b0, b1, b2, b3, v, b5, b6, b7)
  else if i =? 5 then Ok (b0, b1, b2, b3, b4, v, b6, b7)
  else if i =? 6 then Ok (b0, b1, b2, b3, b4, b5, v, b7)
  else if i =? 7 then Ok (b0, b1, b2, b3, b4, b5, b6, v)
  else Panic 2.

Definition app8 (f : N -> N -> N -> N -> N -> N -> N -> N -> N) (b : buf8) : N :=
  let '(b0, b1, b2, b3, b4, b5, b6, b7) := b in f b0 b1 b2 b3 b4 b5 b6 b7.

Record dec32 := mk32 { d32_buf : buf8; d32_next : N; d32_target : target }.
Definition b32_new : dec32 := mk32 (0, 0, 0, 0, 0, 0, 0, 0) 0 (Ok []).

Definition b32_octets (b : buf8) : list N :=
  [app8 b32_oct0 b; app8 b32_oct1 b; app8 b32_oct2 b; app8 b32_oct3 b; app8 b32_oct4 b].

Definition b32_push (d : dec32) (ch : N) : outcome (dec32 * option N) :=
  let ill := Ok (mk32 (d32_buf d) (d32_next d) (Err (E_illegal ch)), Some (E_illegal ch)) in
  if b32_ascii_max <? ch then ill
  else
    do v <- tab_get b32_decode_tab ch;
    if v =? b32_illegal_val then ill
    else
      do buf' <- buf8_set (d32_buf d) (d32_next d) v;
      let next' := d32_next d + 1 in
      let d1 :=
        if next' =? b32_group
        then mk32 buf' 0 (fold_left append (b32_octets buf') (d32_target d))
        else mk32 buf' next' (d32_target d) in
      Ok (d1, target_err (d32_target d1)).

Fixpoint assoc (k : N) (l : list (N * N)) : option N :=
  match l with [] => None | (a, b) :: r => if a =? k then Some b else assoc k r end.

Definition b32_finalize (d : dec32) : outcome (list N) :=
  match d32_target d with
  | Ok _ =>
      if d32_next d =? 0 then d32_target d
      else if existsb (N.eqb (d32_next d)) b32_fin_short then Err E_SHORT
      else match assoc (d32_next d) b32_fin_partial with
           | Some k => fold_left append (firstn (N.to_nat k) (b32_octets (d32_buf d))) (d32_target d)
           | None => Panic 4
           end
  | other => other
  end.

Fixpoint b32_decode_from (d : dec32) (s : list N) : outcome (list N) :=
  match s with
  | [] => b32_finalize d
  | ch :: r =>
      match b32_push d ch with
      | Ok (d', None) => b32_decode_from d' r
      | Ok (_, Some e) => Err e
      | Err e => Err e
      | Panic p => Panic p
      | OutOfFuel => OutOfFuel
      end
  end.
Definition b32_decode (s : list N) : outcome (list N) := b32_decode_from b32_new s.

Fixpoint b32_run (d : dec32) (s : list N) : list (option N) * outcome dec32 :=
  match s with
  | [] => ([], Ok d)
  | ch :: r =>
      match b32_push d ch with
      | Ok (d', res) => let '(tr, fin) := b32_run d' r in (res :: tr, fin)
      | Err e => ([], Err e)
      | Panic p => ([], Panic p)
      | OutOfFuel => ([], OutOfFuel)
      end
  end.
Definition b32_push_all (s : list N) : list (option N) * outcome (list N) :=
  let '(tr, fin) := b32_run b32_new s in
  (tr, match fin with
       | Ok d => match b32_finalize d with
                 | Ok l => Ok l | Err e => Err e | Panic p => Panic p | OutOfFuel => OutOfFuel end
       | Err e => Panic 0 | Panic p => Panic p | OutOfFuel => OutOfFuel end).

Record conv32 := mkc32 { c32_input : buf8; c32_next : N }.
Definition c32_new : conv32 := mkc32 (0, 0, 0, 0, 0, 0, 0, 0) 0.

Definition c32_process_char (c : conv32) (ch : N) : outcome (conv32 * list N) :=
  if b32_conv_ascii_max <? ch then Err E_CONV_ILLEGAL
  else
    do v <- tab_get b32_decode_tab ch;
    if v =? b32_conv_illegal_val then Err E_CONV_ILLEGAL
    else
      do inp <- buf8_set (c32_input c) (c32_next c) v;
      let next' := c32_next c + 1 in
      if next' =? b32_conv_group then
        Ok (mkc32 inp 0, [app8 b32_conv_oct0 inp; app8 b32_conv_oct1 inp; app8 b32_conv_oct2 inp;
                          app8 b32_conv_oct3 inp; app8 b32_conv_oct4 inp])
      else Ok (mkc32 inp next', []).

Definition c32_process_symbol (c : conv32) (s : esym) : outcome (conv32 * list N) :=
  match s with Sym ch => c32_process_char c ch | EndOfToken => Ok (c, []) end.

Definition c32_process_tail (c : conv32) : outcome (list N) :=
  let n := c32_next c in
  let i := c32_input c in
  if n =? 0 then Ok []
  else if existsb (N.eqb n) b32_tail_short then Err E_SHORT
  else
    let o0 := app8 b32_tail_oct0 i in
    if n =? 2 then Ok [o0]
    else
      let o1 := app8 b32_tail_oct1 i in
      if n =? 4 then Ok [o0; o1]
      else
        let o2 := app8 b32_tail_oct2 i in
        if n =? 5 then Ok [o0; o1; o2]
        else Ok [o0; o1; o2; app8 b32_tail_oct3 i].

Fixpoint c32_run (c : conv32) (acc : list N) (s : list esym) : outcome (list N) :=
  match s with
  | [] => do t <- c32_process_tail c; Ok (acc ++ t)
  | x :: r => do cr <- c32_process_symbol c x; c32_run (fst cr) (acc ++ snd cr) r
  end.
Definition b32_convert (chunks : list (list N)) : outcome (list N) :=
  c32_run c32_new [] (tokens chunks).

(* ------------------------------------------------------------------ *)
(* Base16                                                               *)

(* char::to_digit (core): ASCII digits and letters only; panics for radix > 36 *)
Definition to_digit (ch radix : N) : outcome (option N) :=
  if 36 <? radix then Panic 5
  else
    let d := if (48 <=? ch) && (ch <=? 57) then Some (ch - 48)
             else if (97 <=? ch) && (ch <=? 122) then Some (ch - 97 + 10)
             else if (65 <=? ch) && (ch <=? 90) then Some (ch - 65 + 10)
             else None in
    Ok (match d with Some v => if v <? radix then Some v else None | None => None end).

Fixpoint b16_display (bs : list N) : outcome (list N) :=
  match bs with
  | [] => Ok []
  | c :: rest =>
      match nth_error b16_encode_tab (N.to_nat c) with
      | Some (hi, lo) => do r <- b16_display rest; Ok (hi :: lo :: r)
      | None => Panic 1
      end
  end.

Record dec16 := mk16 { d16_buf : option N; d16_target : target }.
Definition b16_new : dec16 := mk16 None (Ok []).

Definition b16_push (d : dec16) (ch : N) : outcome (dec16 * option N) :=
  do dg <- to_digit ch b16_radix;
  match dg with
  | None => Ok (mk16 (d16_buf d) (Err (E_illegal ch)), Some (E_illegal ch))
  | Some value =>
      let d1 := match d16_buf d with
                | Some upper => mk16 None (append (d16_target d) (N.lor upper value))
                | None => mk16 (Some (N.land (N.shiftl value b16_shift) 255)) (d16_target d)
                end in
      Ok (d1, target_err (d16_target d1))
  end.

Definition b16_finalize (d : dec16) : outcome (list N) :=
  match d16_buf d with
  | Some _ => Err E_SHORT
  | None => d16_target d
  end.

Fixpoint b16_decode_from (d : dec16) (s : list N) : outcome (list N) :=
  match s with
  | [] => b16_finalize d
  | ch :: r =>
      match b16_push d ch with
      | Ok (d', None) => b16_decode_from d' r
      | Ok (_, Some e) => Err e
      | Err e => Err e
      | Panic p => Panic p
      | OutOfFuel => OutOfFuel
      end
  end.
Definition b16_decode (s : list N) : outcome (list N) := b16_decode_from b16_new s.

Fixpoint b16_run (d : dec16) (s : list N) : list (option N) * outcome dec16 :=
  match s with
  | [] => ([], Ok d)
  | ch :: r =>
      match b16_push d ch with
      | Ok (d', res) => let '(tr, fin) := b16_run d' r in (res :: tr, fin)
      | Err e => ([], Err e)
      | Panic p => ([], Panic p)
      | OutOfFuel => ([], OutOfFuel)
      end
  end.
Definition b16_push_all (s : list N) : list (option N) * outcome (list N) :=
  let '(tr, fin) := b16_run b16_new s in
  (tr, match fin with
       | Ok d => match b16_finalize d with
                 | Ok l => Ok l | Err e => Err e | Panic p => Panic p | OutOfFuel => OutOfFuel end
       | Err e => Panic 0 | Panic p => Panic p | OutOfFuel => OutOfFuel end).

Record conv16 := mkc16 { c16_buf : N; c16_pending : bool }.
Definition c16_new : conv16 := mkc16 0 false.

Definition c16_process_symbol (c : conv16) (s : esym) : outcome (conv16 * list N) :=
  match s with
  | EndOfToken => Ok (c, [])
  | Sym ch =>
      do dg <- to_digit ch b16_conv_radix;
      match dg with
      | None => Err E_CONV_ILLEGAL
      | Some v =>
          if c16_pending c
          then let b := N.lor (c16_buf c) v in Ok (mkc16 b false, [b])
          else Ok (mkc16 (N.land (N.shiftl v b16_conv_shift) 255) true, [])
      end
  end.
Definition c16_process_tail (c : conv16) : outcome (list N) :=
  if c16_pending c then Err E_SHORT else Ok [].
Fixpoint c16_run (c : conv16) (acc : list N) (s : list esym) : outcome (list N) :=
  match s with
  | [] => do t <- c16_process_tail c; Ok (acc ++ t)
  | x :: r => do cr <- c16_process_symbol c x; c16_run (fst cr) (acc ++ snd cr) r
  end.
Definition b16_convert (chunks : list (list N)) : outcome (list N) :=
  c16_run c16_new [] (tokens chunks).

(* ------------------------------------------------------------------ *)
(* display into a fmt::Write that can fail (fixed-size string buffers):  *)
(* every write_char / write_str is followed by `?`.  The writer is       *)
(* modelled by what it holds and how many more characters it takes; a    *)
(* write_str that does not fit fails as a whole.  Result: what the       *)
(* writer holds afterwards and whether display returned Ok.              *)

Definition writer := (list N * N)%type.
Definition w_chars (w : writer) (l : list N) : option writer :=
  let '(held, room) := w in
  if N.of_nat (length l) <=? room then Some (held ++ l, room - N.of_nat (length l)) else None.
Fixpoint w_each (w : writer) (l : list N) : writer * bool :=     (* write_char one by one, stop at Err *)
  match l with
  | [] => (w, true)
  | c :: r => match w_chars w [c] with Some w' => w_each w' r | None => (w, false) end
  end.

Fixpoint b64_display_w (w : writer) (bs : list N) : outcome (writer * bool) :=
  match bs with
  | [] => Ok (w, true)
  | [c0] =>
      do a <- b64_ch (b64_e1_0 c0 0 0);
      match w_chars w [a] with None => Ok (w, false) | Some w1 =>
      do b <- b64_ch (b64_e1_1 c0 0 0);
      Ok (w_each w1 [b; b64_disp_pad; b64_disp_pad]) end
  | [c0; c1] =>
      do a <- b64_ch (b64_e2_0 c0 c1 0);
      match w_chars w [a] with None => Ok (w, false) | Some w1 =>
      do b <- b64_ch (b64_e2_1 c0 c1 0);
      match w_chars w1 [b] with None => Ok (w1, false) | Some w2 =>
      do c <- b64_ch (b64_e2_2 c0 c1 0);
      Ok (w_each w2 [c; b64_disp_pad]) end end
  | c0 :: c1 :: c2 :: rest =>
      do a <- b64_ch (b64_e3_0 c0 c1 c2);
      match w_chars w [a] with None => Ok (w, false) | Some w1 =>
      do b <- b64_ch (b64_e3_1 c0 c1 c2);
      match w_chars w1 [b] with None => Ok (w1, false) | Some w2 =>
      do c <- b64_ch (b64_e3_2 c0 c1 c2);
      match w_chars w2 [c] with None => Ok (w2, false) | Some w3 =>
      do d <- b64_ch (b64_e3_3 c0 c1 c2);
      match w_chars w3 [d] with None => Ok (w3, false) | Some w4 =>
      b64_display_w w4 rest end end end end
  end.

(* base32 display_hex: f.write_char(ch(..))? one after the other *)
Fixpoint w_seq (w : writer) (l : list (outcome N)) : outcome (writer * bool) :=
  match l with
  | [] => Ok (w, true)
  | oc :: r => do c <- oc;
               match w_chars w [c] with Some w' => w_seq w' r | None => Ok (w, false) end
  end.
Fixpoint b32_display_w (w : writer) (bs : list N) : outcome (writer * bool) :=
  match bs with
  | [] => Ok (w, true)
  | [c0] => w_seq w [b32_ch (b32_e0 c0 0 0 0 0); b32_ch (b32_e1_last c0 0 0 0 0)]
  | [c0; c1] =>
      w_seq w [b32_ch (b32_e0 c0 c1 0 0 0); b32_ch (b32_e1 c0 c1 0 0 0); b32_ch (b32_e2 c0 c1 0 0 0);
               b32_ch (b32_e3_last c0 c1 0 0 0)]
  | [c0; c1; c2] =>
      w_seq w [b32_ch (b32_e0 c0 c1 c2 0 0); b32_ch (b32_e1 c0 c1 c2 0 0); b32_ch (b32_e2 c0 c1 c2 0 0);
               b32_ch (b32_e3 c0 c1 c2 0 0); b32_ch (b32_e4_last c0 c1 c2 0 0)]
  | [c0; c1; c2; c3] =>
      w_seq w [b32_ch (b32_e0 c0 c1 c2 c3 0); b32_ch (b32_e1 c0 c1 c2 c3 0); b32_ch (b32_e2 c0 c1 c2 c3 0);
               b32_ch (b32_e3 c0 c1 c2 c3 0); b32_ch (b32_e4 c0 c1 c2 c3 0); b32_ch (b32_e5 c0 c1 c2 c3 0);
               b32_ch (b32_e6_last c0 c1 c2 c3 0)]
  | c0 :: c1 :: c2 :: c3 :: c4 :: rest =>
      do r <- w_seq w [b32_ch (b32_e0 c0 c1 c2 c3 c4); b32_ch (b32_e1 c0 c1 c2 c3 c4);
                       b32_ch (b32_e2 c0 c1 c2 c3 c4); b32_ch (b32_e3 c0 c1 c2 c3 c4);
                       b32_ch (b32_e4 c0 c1 c2 c3 c4); b32_ch (b32_e5 c0 c1 c2 c3 c4);
                       b32_ch (b32_e6 c0 c1 c2 c3 c4); b32_ch (b32_e7 c0 c1 c2 c3 c4)];
      if snd r then b32_display_w (fst r) rest else Ok r
  end.

(* base16: f.write_str(ENCODE_ALPHABET[octet])? per octet *)
Fixpoint b16_display_w (w : writer) (bs : list N) : outcome (writer * bool) :=
  match bs with
  | [] => Ok (w, true)
  | c :: rest =>
      match nth_error b16_encode_tab (N.to_nat c) with
      | Some (hi, lo) =>
          match w_chars w [hi; lo] with
          | Some w' => b16_display_w w' rest
          | None => Ok (w, false)
          end
      | None => Panic 1
      end
  end.

(* ------------------------------------------------------------------ *)
(* Bounded octets builders (octseq::Array<N>, heapless::Vec, ...):      *)
(* append_slice fails with ShortBuf when the capacity is exhausted.     *)
(* cap = None is the unbounded builder; for it the definitions below     *)
(* coincide with the ones above (ProofsCap.v: *_cap_none).               *)

Definition fits (cap : option N) (l : list N) : bool :=
  match cap with None => true | Some c => N.of_nat (length l) + 1 <=? c end.
Definition try_append (cap : option N) (l : list N) (v : N) : option (list N) :=
  if fits cap l then Some (l ++ [v]) else None.
(* base32/base16 Decoder::append: on failure self.target = Err(ShortBuf) *)
Definition append_cap (cap : option N) (t : target) (v : N) : target :=
  match t with
  | Ok l => if fits cap l then Ok (l ++ [v]) else Err E_SHORTBUF
  | other => other
  end.

(* base64: target.append_slice(..).map_err(Into::into)?  -- push_char returns
   Err(ShortBuf) at once, `next` stays 4, what was appended before stays *)
Definition b64_cont_cap (cap : option N) (d : dec64) (val : N) : outcome (dec64 * option N) :=
  do buf' <- buf4_set (d64_buf d) (d64_next d) val;
  let next' := d64_next d + 1 in
  if next' =? b64_group then
    match d64_target d with
    | Ok t0 =>
        let '(x0, x1, x2, x3) := buf' in
        let short (t : list N) : outcome (dec64 * option N) :=
          Ok (mk64 buf' next' (Ok t), Some E_SHORTBUF) in
        match try_append cap t0 (b64_oct0 x0 x1 x2 x3) with
        | None => short t0
        | Some t1 =>
            match (if negb (x2 =? b64_push_pad_val)
                   then try_append cap t1 (b64_oct1 x0 x1 x2 x3) else Some t1) with
            | None => short t1
            | Some t2 =>
                if negb (x3 =? b64_push_pad_val) then
                  if x2 =? b64_push_pad_val then Ok (mk64 buf' next' (Ok t2), Some E_TRAILING)
                  else match try_append cap t2 (b64_oct2 x0 x1 x2 x3) with
                       | None => short t2
                       | Some t3 => Ok (mk64 buf' 0 (Ok t3), None)
                       end
                else Ok (mk64 buf' b64_push_eof (Ok t2), None)
            end
        end
    | _ => Panic 3
    end
  else Ok (mk64 buf' next' (d64_target d), None).

Definition b64_push_char_cap (cap : option N) (d : dec64) (ch : N) : outcome (dec64 * option N) :=
  if d64_next d =? b64_push_eof then
    Ok (mk64 (d64_buf d) (d64_next d) (Err E_TRAILING), Some E_TRAILING)
  else if ch =? b64_pad then
    if d64_next d <? b64_push_pad_min then Ok (d, Some (E_illegal ch))
    else b64_cont_cap cap d b64_push_pad_val
  else if b64_ascii_max <? ch then Ok (d, Some (E_illegal ch))
  else
    do v <- tab_get b64_decode_tab ch;
    if v =? b64_illegal_val then Ok (d, Some (E_illegal ch)) else b64_cont_cap cap d v.

Definition b64_push_cap (cap : option N) (sticky : bool) (d : dec64) (ch : N)
  : outcome (dec64 * option N) :=
  if sticky then
    match d64_target d with
    | Err e => Ok (d, Some e)
    | _ =>
        match b64_push_char_cap cap d ch with
        | Ok (d', Some e) => Ok (mk64 (d64_buf d') (d64_next d') (Err e), Some e)
        | other => other
        end
    end
  else b64_push_char_cap cap d ch.

Definition b32_push_cap (cap : option N) (d : dec32) (ch : N) : outcome (dec32 * option N) :=
  let ill := Ok (mk32 (d32_buf d) (d32_next d) (Err (E_illegal ch)), Some (E_illegal ch)) in
  if b32_ascii_max <? ch then ill
  else
    do v <- tab_get b32_decode_tab ch;
    if v =? b32_illegal_val then ill
    else
      do buf' <- buf8_set (d32_buf d) (d32_next d) v;
      let next' := d32_next d + 1 in
      let d1 :=
        if next' =? b32_group
        then mk32 buf' 0 (fold_left (append_cap cap) (b32_octets buf') (d32_target d))
        else mk32 buf' next' (d32_target d) in
      Ok (d1, target_err (d32_target d1)).

Definition b32_finalize_cap (cap : option N) (d : dec32) : outcome (list N) :=
  match d32_target d with
  | Ok _ =>
      if d32_next d =? 0 then d32_target d
      else if existsb (N.eqb (d32_next d)) b32_fin_short then Err E_SHORT
      else match assoc (d32_next d) b32_fin_partial with
           | Some k => fold_left (append_cap cap)
                         (firstn (N.to_nat k) (b32_octets (d32_buf d))) (d32_target d)
           | None => Panic 4
           end
  | other => other
  end.

Definition b16_push_cap (cap : option N) (d : dec16) (ch : N) : outcome (dec16 * option N) :=
  do dg <- to_digit ch b16_radix;
  match dg with
  | None => Ok (mk16 (d16_buf d) (Err (E_illegal ch)), Some (E_illegal ch))
  | Some value =>
      let d1 := match d16_buf d with
                | Some upper => mk16 None (append_cap cap (d16_target d) (N.lor upper value))
                | None => mk16 (Some (N.land (N.shiftl value b16_shift) 255)) (d16_target d)
                end in
      Ok (d1, target_err (d16_target d1))
  end.

(* generic drivers over a push and a finalize function *)
Section Drive.
  Variable D : Type.
  Variable push : D -> N -> outcome (D * option N).
  Variable finalize : D -> outcome (list N).

  Fixpoint decode_from_g (d : D) (s : list N) : outcome (list N) :=
    match s with
    | [] => finalize d
    | ch :: r =>
        match push d ch with
        | Ok (d', None) => decode_from_g d' r
        | Ok (_, Some e) => Err e
        | Err e => Err e
        | Panic p => Panic p
        | OutOfFuel => OutOfFuel
        end
    end.

  Fixpoint run_g (d : D) (s : list N) : list (option N) * outcome D :=
    match s with
    | [] => ([], Ok d)
    | ch :: r =>
        match push d ch with
        | Ok (d', res) => let '(tr, fin) := run_g d' r in (res :: tr, fin)
        | Err e => ([], Err e)
        | Panic p => ([], Panic p)
        | OutOfFuel => ([], OutOfFuel)
        end
    end.

  Definition push_all_g (d0 : D) (s : list N) : list (option N) * outcome (list N) :=
    let '(tr, fin) := run_g d0 s in
    (tr, match fin with
         | Ok d => match finalize d with
                   | Ok l => Ok l | Err e => Err e | Panic p => Panic p | OutOfFuel => OutOfFuel end
         | Err e => Panic 0 | Panic p => Panic p | OutOfFuel => OutOfFuel end).
End Drive.

Definition b64_decode_cap (cap : option N) (s : list N) : outcome (list N) :=
  decode_from_g dec64 (b64_push_cap cap b64_push_sticky) b64_finalize b64_new s.
Definition b64_push_all_cap (cap : option N) (s : list N) :=
  push_all_g dec64 (b64_push_cap cap b64_push_sticky) b64_finalize b64_new s.
Definition b32_decode_cap (cap : option N) (s : list N) : outcome (list N) :=
  decode_from_g dec32 (b32_push_cap cap) (b32_finalize_cap cap) b32_new s.
Definition b32_push_all_cap (cap : option N) (s : list N) :=
  push_all_g dec32 (b32_push_cap cap) (b32_finalize_cap cap) b32_new s.
Definition b16_decode_cap (cap : option N) (s : list N) : outcome (list N) :=
  decode_from_g dec16 (b16_push_cap cap) b16_finalize b16_new s.
Definition b16_push_all_cap (cap : option N) (s : list N) :=
  push_all_g dec16 (b16_push_cap cap) b16_finalize b16_new s.

(* ------------------------------------------------------------------ *)
(* Users of the codecs in presentation format:                         *)
(* base/scan.rs  Symbol::{from_chars,into_char}, IterScanner::          *)
(*               {convert_token,convert_entry} driving a converter      *)
(* rdata/nsec3.rs Nsec3Salt / OwnerHash  FromStr, Display, scan         *)
(* Additional error codes: 5 bad escape sequence, 6 too long            *)

Definition E_BAD_ESCAPE : N := 5.
Definition E_TOOLONG : N := 6.

Inductive symbol := SChar (c : N) | SSimple (c : N) | SDecimal (c : N).

Definition is_digit (c : N) : bool := (48 <=? c) && (c <=? 57).

(* Symbols::new(chars) iterated to its end: the symbols before the first
   malformed escape sequence, and whether the whole text was consumed
   (Symbols::ok) *)
Fixpoint symbols (s : list N) : list symbol * bool :=
  match s with
  | [] => ([], true)
  | c :: r =>
      if negb (c =? 92) then let '(l, ok) := symbols r in (SChar c :: l, ok)
      else
        match r with
        | [] => ([], false)
        | d1 :: r1 =>
            if is_digit d1 then
              match r1 with
              | [] => ([], false)
              | d2 :: r2 =>
                  if is_digit d2 then
                    match r2 with
                    | [] => ([], false)
                    | d3 :: r3 =>
                        if is_digit d3 then
                          let v := (d1 - 48) * 100 + (d2 - 48) * 10 + (d3 - 48) in
                          if sym_decimal_max <? v then ([], false)
                          else let '(l, ok) := symbols r3 in (SDecimal v :: l, ok)
                        else ([], false)
                    end
                  else ([], false)
              end
            else if 255 <? d1 then ([], false)                 (* u8::try_from *)
            else if (d1 <? sym_simple_min) || (sym_simple_max <? d1) then ([], false)
            else let '(l, ok) := symbols r1 in (SSimple d1 :: l, ok)
        end
  end.

Definition into_char (y : symbol) : option N :=
  match y with
  | SChar c => Some c
  | SSimple c => if (sym_char_min <=? c) && (c <? sym_char_lim) then Some c else None
  | SDecimal _ => None
  end.

Section IterScanner.
  Variable chk : bool.   (* does the scanner call Symbols::ok() after the loop? *)
  Variable C : Type.
  Variable process : C -> symbol -> outcome (C * list N).
  Variable tail : C -> outcome (list N).

  Fixpoint feed (c : C) (acc : list N) (l : list symbol) : outcome (C * list N) :=
    match l with
    | [] => Ok (c, acc)
    | y :: r => do cr <- process c y; feed (fst cr) (acc ++ snd cr) r
    end.

  (* for sym in Symbols::new(token.chars()) { process_symbol; append }
     [ symbols.ok()?  -- only with pending/C18-iterscanner-bad-escape.diff ] *)
  Definition scan_token (c : C) (acc : list N) (token : list N) : outcome (C * list N) :=
    let '(syms, ok) := symbols token in
    do ca <- feed c acc syms;
    if chk && negb ok then Err E_BAD_ESCAPE else Ok ca.

  Definition convert_token (c0 : C) (token : list N) : outcome (list N) :=
    do ca <- scan_token c0 [] token;
    do t <- tail (fst ca);
    Ok (snd ca ++ t).

  Fixpoint convert_entry_from (c : C) (acc : list N) (tokens : list (list N)) : outcome (list N) :=
    match tokens with
    | [] => do t <- tail c; Ok (acc ++ t)
    | tk :: r => do ca <- scan_token c acc tk; convert_entry_from (fst ca) (snd ca) r
    end.
End IterScanner.

(* process_symbol of the three codec converters on a Symbol *)
Definition sym_char (y : symbol) : outcome N :=
  match into_char y with Some ch => Ok ch | None => Err E_CONV_ILLEGAL end.
Definition c64_sym (c : conv64) (y : symbol) := do ch <- sym_char y; c64_process_char c ch.
Definition c32_sym (c : conv32) (y : symbol) := do ch <- sym_char y; c32_process_char c ch.
Definition c16_sym (c : conv16) (y : symbol) := do ch <- sym_char y; c16_process_symbol c (Sym ch).

Definition b64_scan_token := convert_token iter_scanner_checks_escapes conv64 c64_sym c64_process_tail c64_new.
Definition b32_scan_token := convert_token iter_scanner_checks_escapes conv32 c32_sym c32_process_tail c32_new.
Definition b16_scan_token := convert_token iter_scanner_checks_escapes conv16 c16_sym c16_process_tail c16_new.
Definition b64_scan_entry := convert_entry_from iter_scanner_checks_escapes conv64 c64_sym c64_process_tail c64_new [].
Definition b32_scan_entry := convert_entry_from iter_scanner_checks_escapes conv32 c32_sym c32_process_tail c32_new [].
Definition b16_scan_entry := convert_entry_from iter_scanner_checks_escapes conv16 c16_sym c16_process_tail c16_new [].

Fixpoint list_eqb0 (a b : list N) : bool :=
  match a, b with
  | [], [] => true
  | x :: a', y :: b' => (x =? y) && list_eqb0 a' b'
  | _, _ => false
  end.

(* --- the other token-reading methods of IterScanner --- *)
Definition E_BAD_SYMBOL : N := 7.
Definition E_NON_ASCII : N := 8.

(* Symbol::into_octet *)
Definition into_octet (y : symbol) : option N :=
  match y with
  | SChar c => if (c <? 128) && (sym_octet_min <=? c) && (c <=? sym_octet_max) then Some c else None
  | SSimple c | SDecimal c => Some c
  end.

(* char::encode_utf8 *)
Definition utf8 (c : N) : list N :=
  if c <? 128 then [c]
  else if c <? 2048 then [192 + c / 64; 128 + c mod 64]
  else if c <? 65536 then [224 + c / 4096; 128 + (c / 64) mod 64; 128 + c mod 64]
  else [240 + c / 262144; 128 + (c / 4096) mod 64; 128 + (c / 64) mod 64; 128 + c mod 64].

Definition octet_proc (u : unit) (y : symbol) : outcome (unit * list N) :=
  match into_octet y with Some o => Ok (u, [o]) | None => Err E_BAD_SYMBOL end.
(* CharStrBuilder::append_slice: ShortBuf beyond CharStr::MAX_LEN; state = length so far *)
Definition charstr_proc (n : N) (y : symbol) : outcome (N * list N) :=
  match into_octet y with
  | Some o => if charstr_max <? n + 1 then Err E_SHORTBUF else Ok (n + 1, [o])
  | None => Err E_BAD_SYMBOL
  end.
Definition string_proc (u : unit) (y : symbol) : outcome (unit * list N) :=
  match into_char y with Some c => Ok (u, utf8 c) | None => Err E_BAD_SYMBOL end.

Definition scan_octets_with (chk : bool) (token : list N) : outcome (list N) :=
  do ca <- scan_token chk unit octet_proc tt [] token; Ok (snd ca).
Definition scan_charstr_with (chk : bool) (token : list N) : outcome (list N) :=
  do ca <- scan_token chk N charstr_proc 0 [] token; Ok (snd ca).
Definition scan_string_with (chk : bool) (token : list N) : outcome (list N) :=
  do ca <- scan_token chk unit string_proc tt [] token; Ok (snd ca).
Definition scan_ascii_str_with (chk : bool) (token : list N) : outcome (list N) :=
  do bs <- scan_string_with chk token;
  if forallb (fun b => b <? 128) bs then Ok bs else Err E_NON_ASCII.
(* while peek().is_some() { scan_charstr()?.compose(&mut res)?; } *)
Fixpoint scan_charstr_entry_with (chk : bool) (tokens : list (list N)) : outcome (list N) :=
  match tokens with
  | [] => Ok []
  | tk :: r =>
      do cs <- scan_charstr_with chk tk;
      if 255 <? N.of_nat (length cs) then Panic 6                 (* expect("long charstr") *)
      else do rest <- scan_charstr_entry_with chk r; Ok (N.of_nat (length cs) :: cs ++ rest)
  end.
(* scan_symbols / scan_entry_symbols with a callback that never fails: the
   symbols the callback gets to see *)
Definition scan_symbols_with (chk : bool) (token : list N) : outcome (list symbol) :=
  let '(syms, ok) := symbols token in
  if chk && negb ok then Err E_BAD_ESCAPE else Ok syms.
Fixpoint scan_entry_symbols_with (chk : bool) (tokens : list (list N)) : outcome (list (option symbol)) :=
  match tokens with
  | [] => Ok []
  | tk :: r =>
      do syms <- scan_symbols_with chk tk;
      do rest <- scan_entry_symbols_with chk r;
      Ok (map Some syms ++ None :: rest)                          (* None = EndOfToken *)
  end.
(* scan_name: Name::from_symbols(&mut symbols) (a function of the symbols; the
   name syntax itself is C03's subject), then symbols.ok() *)
Definition scan_name_with (chk : bool) (from_syms : list symbol -> outcome (list N)) (token : list N)
  : outcome (list N) :=
  let '(syms, ok) := symbols token in
  do nm <- from_syms syms;
  if chk && negb ok then Err E_BAD_ESCAPE else Ok nm.
Definition scan_opt_unknown_marker (token : list N) : bool := list_eqb0 token unknown_marker.

Definition scan_octets := scan_octets_with iter_scanner_checks_escapes.
Definition scan_charstr := scan_charstr_with iter_scanner_checks_escapes.
Definition scan_string := scan_string_with iter_scanner_checks_escapes.
Definition scan_ascii_str := scan_ascii_str_with iter_scanner_checks_escapes.
Definition scan_charstr_entry := scan_charstr_entry_with iter_scanner_checks_escapes.
Definition scan_symbols := scan_symbols_with iter_scanner_checks_escapes.
Definition scan_entry_symbols := scan_entry_symbols_with iter_scanner_checks_escapes.

(* --- Nsec3Salt --- *)
Definition over (inclusive : bool) (max : N) (bs : list N) : bool :=
  if inclusive then max <? N.of_nat (length bs) else max <=? N.of_nat (length bs).
Fixpoint list_eqb (a b : list N) : bool :=
  match a, b with
  | [], [] => true
  | x :: a', y :: b' => (x =? y) && list_eqb a' b'
  | _, _ => false
  end.

Definition salt_from_str (s : list N) : outcome (list N) :=
  if list_eqb s [nsec3_salt_empty_char] then Ok []
  else match b16_decode s with
       | Ok bs => if over nsec3_salt_limit_inclusive nsec3_salt_max bs then Err E_TOOLONG else Ok bs
       | other => other
       end.
Definition salt_display (bs : list N) : outcome (list N) :=
  match bs with [] => Ok [nsec3_salt_empty_display] | _ => b16_display bs end.

(* the local Converter of Nsec3Salt::scan: None = nothing seen yet,
   Some None = "-" seen, Some (Some c) = Base 16 data; second field: octets so
   far (only kept with pending/C18-nsec3-scan-length.diff) *)
Record saltconv := mksc { sc_st : option (option conv16); sc_len : N }.
Definition salt_process (limited : bool) (sc : saltconv) (y : symbol) : outcome (saltconv * list N) :=
  let first_dash :=
    match sc_st sc with
    | None => match into_char y with Some c => c =? nsec3_salt_scan_empty_char | None => false end
    | _ => false
    end in
  if first_dash then Ok (mksc (Some None) (sc_len sc), [])
  else
    match (match sc_st sc with None => Some (Some c16_new) | st => st end) with
    | None => Panic 4
    | Some None => Err E_CONV_ILLEGAL
    | Some (Some c) =>
        do cr <- c16_sym c y;
        if limited then
          let len' := sc_len sc + N.of_nat (length (snd cr)) in
          if nsec3_salt_max <? len' then Err E_TOOLONG
          else Ok (mksc (Some (Some (fst cr))) len', snd cr)
        else Ok (mksc (Some (Some (fst cr))) (sc_len sc), snd cr)
    end.
Definition salt_tail (sc : saltconv) : outcome (list N) :=
  match sc_st sc with Some (Some c) => c16_process_tail c | _ => Ok [] end.
Definition salt_scan_with (chk limited : bool) :=
  convert_token chk saltconv (salt_process limited) salt_tail (mksc None 0).
Definition salt_scan := salt_scan_with iter_scanner_checks_escapes nsec3_salt_scan_limited.

(* --- OwnerHash --- *)
Definition hash_from_str_with (limited : bool) (s : list N) : outcome (list N) :=
  match b32_decode s with
  | Ok bs => if limited && over nsec3_hash_limit_inclusive nsec3_hash_max bs
             then Err E_SHORTBUF else Ok bs
  | other => other
  end.
Definition hash_from_str := hash_from_str_with nsec3_hash_from_str_limited.
Definition hash_display (bs : list N) : outcome (list N) := b32_display bs.

Record hashconv := mkhc { hc_c : conv32; hc_len : N }.
Definition hash_check (len : N) (data : list N) : outcome N :=
  let len' := len + N.of_nat (length data) in
  if nsec3_hash_max <? len' then Err E_TOOLONG else Ok len'.
Definition hash_process (limited : bool) (h : hashconv) (y : symbol) : outcome (hashconv * list N) :=
  do cr <- c32_sym (hc_c h) y;
  if limited then
    do len' <- hash_check (hc_len h) (snd cr); Ok (mkhc (fst cr) len', snd cr)
  else Ok (mkhc (fst cr) (hc_len h), snd cr).
Definition hash_tail (limited : bool) (h : hashconv) : outcome (list N) :=
  do t <- c32_process_tail (hc_c h);
  if limited then do _ <- hash_check (hc_len h) t; Ok t else Ok t.
Definition hash_scan_with (chk limited : bool) :=
  convert_token chk hashconv (hash_process limited) (hash_tail limited) (mkhc c32_new 0).
Definition hash_scan := hash_scan_with iter_scanner_checks_escapes nsec3_hash_scan_limited.

(* ------------------------------------------------------------------ *)
(* serde (T1: serde_modules_use_codecs, nsec3_serde_uses_text_entry_points):
   with a human-readable format a value travels as its text (display /
   decode, Display / FromStr); otherwise as its octets, which for Nsec3Salt and
   OwnerHash come back in through from_octets (limit 255) *)
Definition serde_octets_compact (bs : list N) : outcome (list N) := Ok bs.
Definition salt_from_octets (bs : list N) : outcome (list N) :=
  if over nsec3_salt_limit_inclusive nsec3_salt_max bs then Err E_TOOLONG else Ok bs.
Definition hash_from_octets (bs : list N) : outcome (list N) :=
  if over nsec3_hash_limit_inclusive nsec3_hash_max bs then Err E_TOOLONG else Ok bs.

(* ------------------------------------------------------------------ *)
(* RFC 4648 as bit regrouping (the specification; independent of the   *)
(* shift/mask code and of the decode tables above)                      *)

(* the k low bits of v, most significant first *)
Fixpoint bits_msb (k : nat) (v : N) : list bool :=
  match k with
  | O => []
  | S k' => N.testbit v (N.of_nat k') :: bits_msb k' v
  end.
Definition bits_val (l : list bool) : N :=
  fold_left (fun a (b : bool) => 2 * a + (if b then 1 else 0)) l 0.

Definition octet_bits (bs : list N) : list bool := flat_map (bits_msb 8) bs.

(* cut a bit string into k-bit groups; an incomplete last group is padded with
   zero bits on the right (RFC 4648 section 4 / 6 / 8) *)
Fixpoint regroup (k : nat) (acc : list bool) (l : list bool) : list N :=
  match l with
  | [] => match acc with
          | [] => []
          | _ => [bits_val (acc ++ repeat false (k - length acc))]
          end
  | b :: r =>
      let acc' := acc ++ [b] in
      if Nat.eqb (length acc') k then bits_val acc' :: regroup k [] r
      else regroup k acc' r
  end.

(* whole octets of a bit string; left-over bits are dropped *)
Fixpoint take_octets (l : list bool) : list N :=
  match l with
  | a :: b :: c :: d :: e :: f :: g :: h :: r => bits_val [a; b; c; d; e; f; g; h] :: take_octets r
  | _ => []
  end.

Definition alpha64 : list N :=
  [65;66;67;68;69;70;71;72;73;74;75;76;77;78;79;80;81;82;83;84;85;86;87;88;89;90;
   97;98;99;100;101;102;103;104;105;106;107;108;109;110;111;112;113;114;115;116;117;118;119;120;121;122;
   48;49;50;51;52;53;54;55;56;57;43;47].            (* A-Z a-z 0-9 + /   RFC 4648 table 1 *)
Definition alpha32hex : list N :=
  [48;49;50;51;52;53;54;55;56;57;
   65;66;67;68;69;70;71;72;73;74;75;76;77;78;79;80;81;82;83;84;85;86].   (* 0-9 A-V  table 4 *)
Definition alpha16 : list N :=
  [48;49;50;51;52;53;54;55;56;57;65;66;67;68;69;70].                      (* 0-9 A-F  table 5 *)

Definition sym (alpha : list N) (v : N) : N := nth (N.to_nat v) alpha 0.

Fixpoint index_of (x : N) (l : list N) (i : N) : option N :=
  match l with [] => None | a :: r => if a =? x then Some i else index_of x r (i + 1) end.
Definition upper (ch : N) : N := if (97 <=? ch) && (ch <=? 122) then ch - 32 else ch.
Definition val64 (ch : N) : option N := index_of ch alpha64 0.
Definition val32 (ch : N) : option N := index_of (upper ch) alpha32hex 0.   (* case-insensitive *)
Definition val16 (ch : N) : option N := index_of (upper ch) alpha16 0.

Fixpoint values (val : N -> option N) (s : list N) : option (list N) :=
  match s with
  | [] => Some []
  | c :: r => match val c, values val r with
              | Some v, Some vs => Some (v :: vs)
              | _, _ => None
              end
  end.

(* encoders *)
Definition spec_enc64 (bs : list N) : list N :=
  map (sym alpha64) (regroup 6 [] (octet_bits bs))
  ++ repeat 61 (match Nat.modulo (length bs) 3 with 1%nat => 2%nat | 2%nat => 1%nat | _ => 0%nat end).
Definition spec_enc32 (bs : list N) : list N :=     (* base32hex without padding (RFC 5155) *)
  map (sym alpha32hex) (regroup 5 [] (octet_bits bs)).
Definition spec_enc16 (bs : list N) : list N :=
  map (sym alpha16) (regroup 4 [] (octet_bits bs)).

(* decoders: Some octets exactly for well-formed text.
   Unpadded alphabets (16, 32hex): every character is in the alphabet and the
   text does not end in a character that contributes no complete octet
   (left-over bits fewer than one character).  Left-over bits need not be 0
   (RFC 4648 section 3.5 leaves that to the implementation; see DESIGN.md). *)
Definition spec_dec_unpadded (k : nat) (val : N -> option N) (s : list N) : option (list N) :=
  match values val s with
  | Some vs => if Nat.ltb (Nat.modulo (k * length vs) 8) k
               then Some (take_octets (flat_map (bits_msb k) vs)) else None
  | None => None
  end.
Definition spec_dec32 := spec_dec_unpadded 5 val32.
Definition spec_dec16 := spec_dec_unpadded 4 val16.

(* Base64 (RFC 4648 section 4): 4-character quanta; only the final quantum may
   be  xx==  (one octet) or  xxx=  (two octets). *)
Definition dec6 (vs : list N) : list N := take_octets (flat_map (bits_msb 6) vs).
Fixpoint spec_dec64 (s : list N) : option (list N) :=
  match s with
  | [] => Some []
  | a :: b :: c :: d :: rest =>
      match rest with
      | [] =>
          match val64 a, val64 b with
          | Some va, Some vb =>
              if c =? 61 then (if d =? 61 then Some (dec6 [va; vb]) else None)
              else match val64 c with
                   | Some vc =>
                       if d =? 61 then Some (dec6 [va; vb; vc])
                       else match val64 d with
                            | Some vd => Some (dec6 [va; vb; vc; vd])
                            | None => None end
                   | None => None end
          | _, _ => None
          end
      | _ =>
          match val64 a, val64 b, val64 c, val64 d, spec_dec64 rest with
          | Some va, Some vb, Some vc, Some vd, Some bs => Some (dec6 [va; vb; vc; vd] ++ bs)
          | _, _, _, _, _ => None
          end
      end
  | _ => None
  end.

(* ------------------------------------------------------------------ *)
(* executable entry points for the correspondence driver               *)
Definition c18_enc64 := b64_display.
Definition c18_enc32 := b32_display.
Definition c18_enc16 := b16_display.
Definition c18_dec64 := b64_decode.
Definition c18_dec32 := b32_decode.
Definition c18_dec16 := b16_decode.
Definition c18_push64 := b64_push_all.
Definition c18_push32 := b32_push_all.
Definition c18_push16 := b16_push_all.
Definition c18_deccap64 := b64_decode_cap.
Definition c18_deccap32 := b32_decode_cap.
Definition c18_deccap16 := b16_decode_cap.
Definition c18_pushcap64 := b64_push_all_cap.
Definition c18_pushcap32 := b32_push_all_cap.
Definition c18_pushcap16 := b16_push_all_cap.
Definition c18_tok64 := b64_scan_token.
Definition c18_tok32 := b32_scan_token.
Definition c18_tok16 := b16_scan_token.
Definition c18_ent64 := b64_scan_entry.
Definition c18_ent32 := b32_scan_entry.
Definition c18_ent16 := b16_scan_entry.
Definition c18_saltstr := salt_from_str.
Definition c18_saltdisp := salt_display.
Definition c18_saltscan := salt_scan.
Definition c18_hashstr := hash_from_str.
Definition c18_hashdisp := hash_display.
Definition c18_hashscan := hash_scan.
Definition c18_soct := scan_octets.
Definition c18_scstr := scan_charstr.
Definition c18_sstr := scan_string.
Definition c18_sascii := scan_ascii_str.
Definition c18_scent := scan_charstr_entry.
Definition c18_ssym := scan_symbols.
Definition c18_sesym := scan_entry_symbols.
Definition c18_smark := scan_opt_unknown_marker.
Definition c18_encw64 (room : N) (bs : list N) := b64_display_w ([], room) bs.
Definition c18_encw16 (room : N) (bs : list N) := b16_display_w ([], room) bs.
Definition c18_encw32 (room : N) (bs : list N) := b32_display_w ([], room) bs.
Definition c18_serc := serde_octets_compact.
Definition c18_saltcd := salt_from_octets.
Definition c18_hashcd := hash_from_octets.
Definition c18_conv64 := b64_convert.
Definition c18_conv32 := b32_convert.
Definition c18_conv16 := b16_convert.
(* the specification is extracted too, so that T2 also runs it next to the
   implementation (driver prints it for the `spec*` self-check cases) *)
Definition c18_spec_enc64 := spec_enc64.
Definition c18_spec_enc32 := spec_enc32.
Definition c18_spec_enc16 := spec_enc16.
Definition c18_spec_dec64 := spec_dec64.
Definition c18_spec_dec32 := spec_dec32.
Definition c18_spec_dec16 := spec_dec16.
