(* C18 proofs, part 1: sweep infrastructure, table obligations (T1 tables
   against the RFC 4648 alphabets), bit-list facts. *)
From Coq Require Import NArith List Bool Lia ZArith.
From Coq Require Import ZifyN ZifyBool ZifyNat.
Import ListNotations.
From DV Require Import Base.Outcome C18.Gen C18.Model.
Local Open Scope N_scope.
Ltac Zify.zify_post_hook ::= Z.div_mod_to_equations.

(* ---------------------------------------------------------------- sweeps *)

Definition range (n : nat) : list N := map N.of_nat (seq 0 n).

Lemma In_range n x : x < N.of_nat n -> In x (range n).
Proof.
  intros H. unfold range. apply in_map_iff. exists (N.to_nat x). split.
  - apply N2Nat.id.
  - apply in_seq. lia.
Qed.

Lemma sweep1 (P : N -> bool) (n : nat) :
  forallb P (range n) = true -> forall x, x < N.of_nat n -> P x = true.
Proof. intros H x Hx. rewrite forallb_forall in H. apply H, In_range, Hx. Qed.

Lemma sweep2 (P : N -> N -> bool) (n m : nat) :
  forallb (fun a => forallb (P a) (range m)) (range n) = true ->
  forall a b, a < N.of_nat n -> b < N.of_nat m -> P a b = true.
Proof.
  intros H a b Ha Hb. rewrite forallb_forall in H.
  specialize (H a (In_range _ _ Ha)). rewrite forallb_forall in H.
  apply H, In_range, Hb.
Qed.

Lemma sweep3 (P : N -> N -> N -> bool) (n m k : nat) :
  forallb (fun a => forallb (fun b => forallb (P a b) (range k)) (range m)) (range n) = true ->
  forall a b c, a < N.of_nat n -> b < N.of_nat m -> c < N.of_nat k -> P a b c = true.
Proof.
  intros H a b c Ha Hb Hc. rewrite forallb_forall in H.
  specialize (H a (In_range _ _ Ha)). rewrite forallb_forall in H.
  specialize (H b (In_range _ _ Hb)). rewrite forallb_forall in H.
  apply H, In_range, Hc.
Qed.

(* goal [b = true] with b a boolean expression in x (y, z); bounds n (m, k) *)
Ltac sweep1_bool x Hx n :=
  lazymatch goal with |- ?G = true =>
    let P := eval pattern x in G in
    lazymatch P with ?F _ =>
      exact (sweep1 F n ltac:(vm_compute; reflexivity) x Hx) end end.
Ltac sweep2_bool x y Hx Hy n m :=
  lazymatch goal with |- ?G = true =>
    let P := eval pattern x, y in G in
    lazymatch P with ?F _ _ =>
      exact (sweep2 F n m ltac:(vm_compute; reflexivity) x y Hx Hy) end end.
Ltac sweep3_bool x y z Hx Hy Hz n m k :=
  lazymatch goal with |- ?G = true =>
    let P := eval pattern x, y, z in G in
    lazymatch P with ?F _ _ _ =>
      exact (sweep3 F n m k ltac:(vm_compute; reflexivity) x y z Hx Hy Hz) end end.

Definition octet (c : N) : Prop := c < 256.
Definition octets (bs : list N) : Prop := Forall octet bs.

(* ------------------------------------------------------ bit-list lemmas *)

Lemma bits_val_bits6 a b c d e f :
  bits_msb 6 (bits_val [a; b; c; d; e; f]) = [a; b; c; d; e; f].
Proof. destruct a, b, c, d, e, f; reflexivity. Qed.
Lemma bits_val_bits5 a b c d e :
  bits_msb 5 (bits_val [a; b; c; d; e]) = [a; b; c; d; e].
Proof. destruct a, b, c, d, e; reflexivity. Qed.
Lemma bits_val_bits4 a b c d :
  bits_msb 4 (bits_val [a; b; c; d]) = [a; b; c; d].
Proof. destruct a, b, c, d; reflexivity. Qed.

Lemma bits_val_lt6 a b c d e f : bits_val [a; b; c; d; e; f] < 64.
Proof. destruct a, b, c, d, e, f; vm_compute; reflexivity. Qed.
Lemma bits_val_lt5 a b c d e : bits_val [a; b; c; d; e] < 32.
Proof. destruct a, b, c, d, e; vm_compute; reflexivity. Qed.
Lemma bits_val_lt4 a b c d : bits_val [a; b; c; d] < 16.
Proof. destruct a, b, c, d; vm_compute; reflexivity. Qed.

Lemma octet_bits_val c : octet c ->
  bits_val (bits_msb 8 c) = c.
Proof.
  unfold octet. intros H. apply N.eqb_eq. sweep1_bool c H 256%nat.
Qed.

(* --------------------------------------------------- table obligations *)

(* the encode tables of the crate are the RFC 4648 alphabets *)
Lemma enc_tab64_is_rfc : b64_encode_tab = alpha64.
Proof. vm_compute. reflexivity. Qed.
Lemma enc_tab32_is_rfc : b32_encode_tab = alpha32hex.
Proof. vm_compute. reflexivity. Qed.
Lemma enc_tab16_is_rfc :
  b16_encode_tab = map (fun c => (sym alpha16 (c / 16), sym alpha16 (c mod 16))) (range 256).
Proof. vm_compute. reflexivity. Qed.

Definition opt_eqb (a b : option N) : bool :=
  match a, b with Some x, Some y => x =? y | None, None => true | _, _ => false end.
Lemma opt_eqb_eq a b : opt_eqb a b = true -> a = b.
Proof. destruct a, b; simpl; intros H; try discriminate; auto. apply N.eqb_eq in H. congruence. Qed.

(* the decode tables agree with the position in the RFC alphabet, entry by
   entry for all 128 ASCII code points; 0xFF exactly for the others *)
Definition tab_val (t : list N) (illegal ch : N) : option N :=
  match nth_error t (N.to_nat ch) with
  | Some v => if v =? illegal then None else Some v
  | None => None
  end.

Lemma dec_tab64_ok ch : ch < 128 ->
  exists v, tab_get b64_decode_tab ch = Ok v /\
            (if v =? b64_illegal_val then None else Some v) = val64 ch.
Proof.
  intros H.
  assert (E : (match nth_error b64_decode_tab (N.to_nat ch) with
               | Some v => opt_eqb (if v =? b64_illegal_val then None else Some v) (val64 ch)
               | None => false end) = true) by (sweep1_bool ch H 128%nat).
  unfold tab_get. destruct (nth_error b64_decode_tab (N.to_nat ch)) as [v|]; [|discriminate].
  exists v. split; [reflexivity|]. apply opt_eqb_eq, E.
Qed.

Lemma dec_tab32_ok ch : ch < 128 ->
  exists v, tab_get b32_decode_tab ch = Ok v /\
            (if v =? b32_illegal_val then None else Some v) = val32 ch.
Proof.
  intros H.
  assert (E : (match nth_error b32_decode_tab (N.to_nat ch) with
               | Some v => opt_eqb (if v =? b32_illegal_val then None else Some v) (val32 ch)
               | None => false end) = true) by (sweep1_bool ch H 128%nat).
  unfold tab_get. destruct (nth_error b32_decode_tab (N.to_nat ch)) as [v|]; [|discriminate].
  exists v. split; [reflexivity|]. apply opt_eqb_eq, E.
Qed.

Lemma index_of_bound x l i v : index_of x l i = Some v -> In x l.
Proof.
  revert i. induction l as [|a r IH]; simpl; intros i H; [discriminate|].
  destruct (N.eqb_spec a x); [left; assumption|right; eauto].
Qed.

Lemma index_of_range x l i v : index_of x l i = Some v -> i <= v < i + N.of_nat (length l).
Proof.
  revert i. induction l as [|a r IH]; simpl length; intros i H; simpl in H; [discriminate|].
  destruct (a =? x).
  - injection H as <-. lia.
  - apply IH in H. lia.
Qed.

Lemma val64_none_high ch : 127 < ch -> val64 ch = None.
Proof.
  intros H. unfold val64. destruct (index_of ch alpha64 0) eqn:E; [|reflexivity].
  apply index_of_bound in E.
  assert (A : forallb (fun a => a <=? 127) alpha64 = true) by (vm_compute; reflexivity).
  rewrite forallb_forall in A. apply A in E. lia.
Qed.

Lemma val32_none_high ch : 127 < ch -> val32 ch = None.
Proof.
  intros H. unfold val32. destruct (index_of (upper ch) alpha32hex 0) eqn:E; [|reflexivity].
  apply index_of_bound in E.
  assert (A : forallb (fun a => a <=? 127) alpha32hex = true) by (vm_compute; reflexivity).
  rewrite forallb_forall in A. apply A in E.
  unfold upper in E. destruct ((97 <=? ch) && (ch <=? 122)) eqn:B; lia.
Qed.

Lemma val64_lt ch v : val64 ch = Some v -> v < 64.
Proof. intros H. apply index_of_range in H. simpl in H. lia. Qed.
Lemma val32_lt ch v : val32 ch = Some v -> v < 32.
Proof. intros H. apply index_of_range in H. simpl in H. lia. Qed.
Lemma val16_lt ch v : val16 ch = Some v -> v < 16.
Proof. intros H. apply index_of_range in H. simpl in H. lia. Qed.

Lemma val64_pad : val64 61 = None.
Proof. reflexivity. Qed.

(* char::to_digit(16) is the position in the Base16 alphabet, case-insensitive *)
Lemma to_digit16_is_val16 ch : to_digit ch 16 = Ok (val16 ch).
Proof.
  destruct (N.ltb_spec ch 128) as [L|G].
  - assert (E : (match to_digit ch 16 with Ok o => opt_eqb o (val16 ch) | _ => false end) = true)
      by (sweep1_bool ch L 128%nat).
    destruct (to_digit ch 16) as [o| | |]; try discriminate. f_equal. apply opt_eqb_eq, E.
  - unfold to_digit. cbn [N.ltb N.compare Pos.compare Pos.compare_cont].
    replace ((48 <=? ch) && (ch <=? 57)) with false by lia.
    replace ((97 <=? ch) && (ch <=? 122)) with false by lia.
    replace ((65 <=? ch) && (ch <=? 90)) with false by lia.
    f_equal. unfold val16. destruct (index_of (upper ch) alpha16 0) eqn:E; [|reflexivity].
    apply index_of_bound in E.
    assert (A : forallb (fun a => a <=? 127) alpha16 = true) by (vm_compute; reflexivity).
    rewrite forallb_forall in A. apply A in E.
    unfold upper in E. destruct ((97 <=? ch) && (ch <=? 122)) eqn:B; lia.
Qed.

(* position in the alphabet of the symbol for v is v *)
Lemma val64_sym v : v < 64 -> val64 (sym alpha64 v) = Some v.
Proof. intros H. apply opt_eqb_eq. sweep1_bool v H 64%nat. Qed.
Lemma val32_sym v : v < 32 -> val32 (sym alpha32hex v) = Some v.
Proof. intros H. apply opt_eqb_eq. sweep1_bool v H 32%nat. Qed.
Lemma val16_sym v : v < 16 -> val16 (sym alpha16 v) = Some v.
Proof. intros H. apply opt_eqb_eq. sweep1_bool v H 16%nat. Qed.
Lemma sym64_not_pad v : v < 64 -> sym alpha64 v <> 61.
Proof.
  intros H E. assert (B : negb (sym alpha64 v =? 61) = true) by (sweep1_bool v H 64%nat).
  rewrite E in B. discriminate.
Qed.

(* lower case is accepted with the same value (Base16 / Base32hex) *)
Lemma val32_lower v : v < 32 -> 10 <= v -> val32 (sym alpha32hex v + 32) = Some v.
Proof.
  intros H L. destruct (N.ltb_spec v 10); [lia|].
  apply opt_eqb_eq.
  assert (E : (if v <? 10 then true else opt_eqb (val32 (sym alpha32hex v + 32)) (Some v)) = true)
    by (sweep1_bool v H 32%nat).
  destruct (N.ltb_spec v 10); [lia|exact E].
Qed.

(* tab_get on the encode tables *)
Lemma tab_get_sym (t : list N) v : v < N.of_nat (length t) -> tab_get t v = Ok (sym t v).
Proof.
  intros H. unfold tab_get, sym.
  destruct (nth_error t (N.to_nat v)) eqn:E.
  - f_equal. symmetry. apply nth_error_nth with (d := 0) in E. exact E.
  - apply nth_error_None in E. lia.
Qed.
