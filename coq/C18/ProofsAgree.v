(* C18 proofs, part 14: the text entry points of one type agree
   (Nsec3Salt::scan vs from_str, OwnerHash::scan vs from_str; the codecs' decode
   vs SymbolConverter vs scanner are in ProofsConv / ProofsUsers), and no
   character above U+007F - in particular none whose low octet is an alphabet
   character - is accepted by any char-taking entry point. *)
From Coq Require Import NArith List Bool Lia ZArith.
From Coq Require Import ZifyN ZifyBool ZifyNat.
Import ListNotations.
From DV Require Import Base.Outcome C18.Gen C18.Model C18.Proofs C18.ProofsEnc C18.ProofsSpec
  C18.ProofsDec64 C18.ProofsDec32 C18.ProofsApi C18.ProofsConv C18.ProofsUsers C18.ProofsCap.
Local Open Scope N_scope.
Ltac Zify.zify_post_hook ::= Z.div_mod_to_equations.

(* ------------------------------------------------ characters above ASCII *)

Lemma val16_none_high ch : 127 < ch -> val16 ch = None.
Proof.
  intros H. unfold val16. destruct (index_of (upper ch) alpha16 0) eqn:E; [|reflexivity].
  apply index_of_bound in E.
  assert (A : forallb (fun a => a <=? 127) alpha16 = true) by (vm_compute; reflexivity).
  rewrite forallb_forall in A. apply A in E.
  unfold upper in E. destruct ((97 <=? ch) && (ch <=? 122)) eqn:B; lia.
Qed.

Definition has_high (s : list N) : Prop := Exists (fun c => 127 < c) s.

Lemma not_ok_is_err (o : outcome (list N)) (sp : option (list N)) :
  match sp with Some bs => o = Ok bs | None => exists e, o = Err e end ->
  (forall bs, o <> Ok bs) -> exists e, o = Err e.
Proof. destruct sp as [bs|]; [intros -> H; exfalso; exact (H bs eq_refl)|auto]. Qed.

Theorem decode_rejects_above_ascii s : has_high s ->
  (exists e, b64_decode s = Err e) /\ (exists e, b32_decode s = Err e) /\ (exists e, b16_decode s = Err e).
Proof.
  intros H. repeat split.
  - apply (not_ok_is_err _ _ (b64_decode_spec s)). intros bs E.
    destruct (b64_accepts_only_alphabet s bs E) as [_ F]. rewrite Forall_forall in F.
    apply Exists_exists in H. destruct H as (c & I & G). destruct (F c I) as [->|V]; [lia|].
    apply V, val64_none_high, G.
  - apply (not_ok_is_err _ _ (b32_decode_spec s)). intros bs E.
    pose proof (b32_accepts_only_alphabet s bs E) as F. rewrite Forall_forall in F.
    apply Exists_exists in H. destruct H as (c & I & G). apply (F c I), val32_none_high, G.
  - apply (not_ok_is_err _ _ (b16_decode_spec s)). intros bs E.
    destruct (b16_accepts_only_alphabet s bs E) as [F _]. rewrite Forall_forall in F.
    apply Exists_exists in H. destruct H as (c & I & G). apply (F c I), val16_none_high, G.
Qed.

(* the per-push API reports the character itself (the full code point) *)
Theorem push_rejects_above_ascii ch : 127 < ch ->
  (forall d, d64_next d <> 240 -> b64_push_char d ch = Ok (d, Some (E_illegal ch))) /\
  (forall d, b32_push d ch = Ok (mk32 (d32_buf d) (d32_next d) (Err (E_illegal ch)), Some (E_illegal ch))) /\
  (forall d, b16_push d ch = Ok (mk16 (d16_buf d) (Err (E_illegal ch)), Some (E_illegal ch))).
Proof.
  intros H. repeat split; intros d.
  - intros Hn. rewrite b64_push_sem by (auto; lia). rewrite val64_none_high by exact H. reflexivity.
  - rewrite b32_push_sem, val32_none_high by exact H. reflexivity.
  - rewrite b16_push_sem, val16_none_high by exact H. reflexivity.
Qed.

Lemma same_result_not_ok o1 o2 : same_result o1 o2 -> (exists e, o2 = Err e) -> forall bs, o1 <> Ok bs.
Proof. intros S [e ->] bs ->. exact S. Qed.

Theorem converters_reject_above_ascii chunks : has_high (concat chunks) ->
  (forall bs, b64_convert chunks <> Ok bs) /\ (forall bs, b32_convert chunks <> Ok bs) /\
  (forall bs, b16_convert chunks <> Ok bs).
Proof.
  intros H. destruct (decode_rejects_above_ascii _ H) as (A & B & C).
  repeat split.
  - exact (same_result_not_ok _ _ (b64_converter_agrees chunks) A).
  - exact (same_result_not_ok _ _ (b32_converter_agrees chunks) B).
  - exact (same_result_not_ok _ _ (b16_converter_agrees chunks) C).
Qed.

Example high_code_points :
  b64_decode [90; 321; 57; 118] = Err (E_illegal 321) /\          (* U+0141: low octet 'A' *)
  b32_decode [67; 335] = Err (E_illegal 335) /\                    (* U+014F: low octet 'O' *)
  b16_decode [70; 304] = Err (E_illegal 304) /\                    (* U+0130: low octet '0' *)
  b64_convert [[90; 321; 57; 118]] = Err E_CONV_ILLEGAL.
Proof. vm_compute. repeat split. Qed.

(* --------------------------------------- Nsec3Salt: scan and from_str agree *)

Lemma c16_run_mono l : forall c acc out, c16_run c acc l = Ok out -> lenN acc <= lenN out.
Proof.
  induction l as [|x r IH]; intros c acc out H; cbn [c16_run] in H.
  - destruct (c16_process_tail c) as [t| | |]; cbn [bind] in H; try discriminate.
    injection H as <-. rewrite lenN_app. lia.
  - destruct (c16_process_symbol c x) as [[c' o]| | |]; cbn [bind fst snd] in H; try discriminate.
    apply IH in H. rewrite lenN_app in H. lia.
Qed.

Lemma salt_feed_agrees s : forall cc acc out, lenN acc <= 255 ->
  (finish salt_tail (feed saltconv (salt_process true) (mksc (Some (Some cc)) (lenN acc)) acc (map SChar s)) = Ok out
   <-> c16_run cc acc (map Sym s) = Ok out /\ lenN out <= 255).
Proof.
  induction s as [|ch r IH]; intros cc acc out Ha.
  - cbn [map feed finish bind fst snd salt_tail sc_st c16_run].
    destruct (c16_process_tail cc) as [t| | |] eqn:T; cbn [bind]; try (split; [discriminate|intros [X _]; discriminate]).
    assert (Et : t = []) by (unfold c16_process_tail in T; destruct (c16_pending cc); congruence).
    split.
    + intros Q. injection Q as <-. split; [reflexivity|]. subst t. rewrite app_nil_r. exact Ha.
    + intros [Q _]. exact Q.
  - cbn [map feed c16_run]. unfold salt_process at 1. cbn [sc_st sc_len].
    unfold c16_sym at 1. cbn [sym_char into_char bind].
    destruct (c16_process_symbol cc (Sym ch)) as [[c' o]| | |]; cbn [bind fst snd finish];
      try (split; [discriminate|intros [X _]; discriminate]).
    change nsec3_salt_max with 255.
    destruct (N.ltb_spec 255 (lenN acc + N.of_nat (length o))) as [G|L]; cbn [bind fst snd].
    + split; [discriminate|]. intros [X Y]. apply c16_run_mono in X. rewrite lenN_app in X. unfold lenN in *. lia.
    + replace (lenN acc + N.of_nat (length o)) with (lenN (acc ++ o)) by (rewrite lenN_app; reflexivity).
      apply IH. rewrite lenN_app. unfold lenN in *. lia.
Qed.

Theorem salt_scan_agrees_from_str chk s bs : ~ In 92 s ->
  (salt_scan_with chk true s = Ok bs <-> salt_from_str s = Ok bs).
Proof.
  intros H. unfold salt_scan_with. rewrite convert_token_plain by exact H.
  rewrite salt_from_str_spec.
  destruct s as [|c r].
  - cbn. split.
    + intros E. injection E as <-. right. split; [discriminate|]. split; [reflexivity|cbn; lia].
    + intros [[X _]|[_ [E _]]]; [discriminate X|]. cbn in E. injection E as <-. reflexivity.
  - cbn [map feed]. unfold salt_process at 1. cbn [sc_st sc_len into_char].
    change nsec3_salt_scan_empty_char with 45.
    destruct (N.eqb_spec c 45) as [->|Nc].
    + (* "-" must be the whole token *)
      cbn [bind fst snd]. destruct r as [|c2 r2].
      * cbn. split; [intros E; injection E as <-; left; auto|].
        intros [[_ ->]|[X _]]; [reflexivity|contradiction].
      * cbn [map feed]. unfold salt_process at 1. cbn [sc_st bind finish].
        split; [discriminate|]. intros [[X _]|[_ [E _]]]; [discriminate|].
        exfalso. apply (proj2 (b16_accepts_iff_wellformed _ _)) in E.
        destruct (b16_accepts_only_alphabet _ _ E) as [F _]. apply Forall_inv in F. apply F. reflexivity.
    + (* Base 16 data *)
      pose proof (salt_feed_agrees (c :: r) c16_new [] bs ltac:(cbn; lia)) as A.
      cbn [map feed] in A. unfold salt_process at 1 in A. cbn [sc_st sc_len] in A.
      change (lenN []) with 0 in A. rewrite A. clear A.
      pose proof (b16_converter_agrees [c :: r]) as S. unfold b16_convert in S.
      rewrite c16_run_syms_only, syms_only_tokens in S. cbn [concat] in S. rewrite app_nil_r in S.
      cbn [map] in S |- *.
      split.
      * intros [R L]. right. split; [intros X; injection X as -> _; contradiction|].
        rewrite R in S. destruct (b16_decode (c :: r)) as [bs'| | |] eqn:D; try contradiction.
        cbn in S. subst bs'. split; [apply b16_accepts_iff_wellformed, D|unfold lenN in L; lia].
      * intros [[X _]|[_ [E L]]]; [injection X as -> _; contradiction|].
        apply (proj2 (b16_accepts_iff_wellformed _ _)) in E. rewrite E in S.
        destruct (c16_run c16_new [] (Sym c :: map Sym r)) as [out| | |]; try contradiction.
        cbn in S. subst out. split; [reflexivity|unfold lenN; lia].
Qed.

(* --------------------------------------- OwnerHash: scan and from_str agree *)

Lemma c32_run_mono l : forall c acc out, c32_run c acc l = Ok out -> lenN acc <= lenN out.
Proof.
  induction l as [|x r IH]; intros c acc out H; cbn [c32_run] in H.
  - destruct (c32_process_tail c) as [t| | |]; cbn [bind] in H; try discriminate.
    injection H as <-. rewrite lenN_app. lia.
  - destruct (c32_process_symbol c x) as [[c' o]| | |]; cbn [bind fst snd] in H; try discriminate.
    apply IH in H. rewrite lenN_app in H. lia.
Qed.

Lemma hash_feed_agrees s : forall cc acc out, lenN acc <= 255 ->
  (finish (hash_tail true) (feed hashconv (hash_process true) (mkhc cc (lenN acc)) acc (map SChar s)) = Ok out
   <-> c32_run cc acc (map Sym s) = Ok out /\ lenN out <= 255).
Proof.
  induction s as [|ch r IH]; intros cc acc out Ha.
  - cbn [map feed finish bind fst snd c32_run]. unfold hash_tail. cbn [hc_c hc_len].
    destruct (c32_process_tail cc) as [t| | |]; cbn [bind]; try (split; [discriminate|intros [X _]; discriminate]).
    unfold hash_check. cbv zeta. change nsec3_hash_max with 255.
    destruct (N.ltb_spec 255 (lenN acc + N.of_nat (length t))) as [G|L]; cbn [bind].
    + split; [discriminate|]. intros [X Y]. injection X as <-. rewrite lenN_app in Y. unfold lenN in *. lia.
    + split.
      * intros Q. injection Q as <-. split; [reflexivity|]. rewrite lenN_app. unfold lenN in *. lia.
      * intros [Q _]. exact Q.
  - cbn [map feed c32_run c32_process_symbol]. unfold hash_process at 1. cbn [hc_c hc_len].
    unfold c32_sym at 1. cbn [sym_char into_char bind].
    destruct (c32_process_char cc ch) as [[c' o]| | |]; cbn [bind fst snd finish];
      try (split; [discriminate|intros [X _]; discriminate]).
    unfold hash_check. cbv zeta. change nsec3_hash_max with 255.
    destruct (N.ltb_spec 255 (lenN acc + N.of_nat (length o))) as [G|L]; cbn [bind fst snd].
    + split; [discriminate|]. intros [X Y]. apply c32_run_mono in X. rewrite lenN_app in X. unfold lenN in *. lia.
    + replace (lenN acc + N.of_nat (length o)) with (lenN (acc ++ o)) by (rewrite lenN_app; reflexivity).
      apply IH. rewrite lenN_app. unfold lenN in *. lia.
Qed.

Theorem hash_scan_agrees_from_str chk s bs : ~ In 92 s ->
  (hash_scan_with chk true s = Ok bs <-> hash_from_str_with true s = Ok bs).
Proof.
  intros H. unfold hash_scan_with. rewrite convert_token_plain by exact H.
  rewrite hash_from_str_limited_spec.
  pose proof (hash_feed_agrees s c32_new [] bs ltac:(cbn; lia)) as A. change (lenN []) with 0 in A.
  rewrite A. clear A.
  pose proof (b32_converter_agrees [s]) as S. unfold b32_convert in S.
  rewrite c32_run_syms_only, syms_only_tokens in S. cbn [concat] in S. rewrite app_nil_r in S.
  split.
  - intros [R L]. rewrite R in S. destruct (b32_decode s) as [bs'| | |] eqn:D; try contradiction.
    cbn in S. subst bs'. split; [apply b32_accepts_iff_wellformed, D|unfold lenN in L; lia].
  - intros [E L]. apply (proj2 (b32_accepts_iff_wellformed _ _)) in E. rewrite E in S.
    destruct (c32_run c32_new [] (map Sym s)) as [out| | |]; try contradiction.
    cbn in S. subst out. split; [reflexivity|unfold lenN; lia].
Qed.

Example scan_from_str_examples :
  salt_scan_with true true [45] = Ok [] /\ salt_from_str [45] = Ok [] /\
  salt_scan_with true true [45; 65; 66] = Err E_CONV_ILLEGAL /\ salt_from_str [45; 65; 66] = Err (E_illegal 45) /\
  salt_scan_with true true [65; 66; 45] = Err E_CONV_ILLEGAL /\ salt_from_str [65; 66; 45] = Err (E_illegal 45) /\
  salt_scan_with true true [] = Ok [] /\ salt_from_str [] = Ok [].
Proof. vm_compute. repeat split. Qed.
