(* C18 proofs, part 8: the scanner-side SymbolConverters accept exactly what
   `decode` accepts and hand the scanner the same octets (simulation between
   the converter state and the decoder state). *)
From Coq Require Import NArith List Bool Lia ZArith.
From Coq Require Import ZifyN ZifyBool ZifyNat.
Import ListNotations.
From DV Require Import Base.Outcome C18.Gen C18.Model C18.Proofs C18.ProofsEnc C18.ProofsSpec
  C18.ProofsDec64 C18.ProofsDec32 C18.ProofsApi.
Local Open Scope N_scope.
Ltac Zify.zify_post_hook ::= Z.div_mod_to_equations.

Definition same_result (o1 o2 : outcome (list N)) : Prop :=
  match o1, o2 with
  | Ok a, Ok b => a = b
  | Err _, Err _ => True
  | _, _ => False
  end.

(* ------------------------------------------------------------- Base64 *)

Definition c64_cont (c : conv64) (val : N) : outcome (conv64 * list N) :=
  do inp <- buf4_set (c64_input c) (c64_next c) val;
  let next' := c64_next c + 1 in
  if next' =? b64_conv_group then
    let '(x0, x1, x2, x3) := inp in
    let o0 := b64_conv_oct0 x0 x1 x2 x3 in
    if x2 =? b64_pad_marker then
      if x3 =? b64_pad_marker then Ok (mkc64 inp b64_eof_marker, [o0])
      else Err E_CONV_ILLEGAL
    else
      let o1 := b64_conv_oct1 x0 x1 x2 x3 in
      if x3 =? b64_pad_marker then Ok (mkc64 inp b64_eof_marker, [o0; o1])
      else Ok (mkc64 inp 0, [o0; o1; b64_conv_oct2 x0 x1 x2 x3])
  else Ok (mkc64 inp next', []).

Lemma c64_sem c ch : c64_next c <> 240 ->
  c64_process_char c ch =
  if ch =? 61 then (if c64_next c <? 2 then Err E_CONV_ILLEGAL else c64_cont c 128)
  else match val64 ch with None => Err E_CONV_ILLEGAL | Some v => c64_cont c v end.
Proof.
  intros Hn. unfold c64_process_char.
  cbv [b64_eof_marker b64_pad b64_conv_pad_min b64_conv_ascii_max b64_pad_marker].
  destruct (N.eqb_spec (c64_next c) 240); [contradiction|].
  destruct (N.eqb_spec ch 61); [reflexivity|].
  destruct (N.ltb_spec 127 ch) as [G|L].
  - rewrite val64_none_high by exact G. reflexivity.
  - destruct (dec_tab64_ok ch) as (v & E1 & E2); [lia|].
    rewrite E1. cbn [bind]. rewrite <- E2.
    change b64_conv_illegal_val with b64_illegal_val.
    destruct (v =? b64_illegal_val); reflexivity.
Qed.

Lemma ccont_0 x0 x1 x2 x3 v : c64_cont (mkc64 (x0, x1, x2, x3) 0) v = Ok (mkc64 (v, x1, x2, x3) 1, []).
Proof. reflexivity. Qed.
Lemma ccont_1 x0 x1 x2 x3 v : c64_cont (mkc64 (x0, x1, x2, x3) 1) v = Ok (mkc64 (x0, v, x2, x3) 2, []).
Proof. reflexivity. Qed.
Lemma ccont_2 x0 x1 x2 x3 v : c64_cont (mkc64 (x0, x1, x2, x3) 2) v = Ok (mkc64 (x0, x1, v, x3) 3, []).
Proof. reflexivity. Qed.
Lemma ccont_3 x0 x1 x2 x3 v :
  c64_cont (mkc64 (x0, x1, x2, x3) 3) v =
  if x2 =? 128 then
    (if v =? 128 then Ok (mkc64 (x0, x1, x2, v) 240, [b64_oct0 x0 x1 x2 v]) else Err E_CONV_ILLEGAL)
  else if v =? 128 then Ok (mkc64 (x0, x1, x2, v) 240, [b64_oct0 x0 x1 x2 v; b64_oct1 x0 x1 x2 v])
  else Ok (mkc64 (x0, x1, x2, v) 0, [b64_oct0 x0 x1 x2 v; b64_oct1 x0 x1 x2 v; b64_oct2 x0 x1 x2 v]).
Proof. reflexivity. Qed.

Lemma sim64 s : forall x0 x1 x2 x3 n acc, n < 4 \/ n = 240 ->
  same_result (c64_run (mkc64 (x0, x1, x2, x3) n) acc (map Sym s))
              (b64_decode_from (mk64 (x0, x1, x2, x3) n (Ok acc)) s).
Proof.
  induction s as [|ch r IH]; intros x0 x1 x2 x3 n acc Hn.
  - assert (C : n = 0 \/ n = 1 \/ n = 2 \/ n = 3 \/ n = 240) by lia.
    destruct C as [-> | [-> | [-> | [-> | ->]]]]; cbn; rewrite ?app_nil_r; auto.
  - cbn [map c64_run c64_process_symbol]. rewrite dfc64.
    destruct Hn as [Hn| ->].
    2:{ cbn. exact I. }
    assert (C : n = 0 \/ n = 1 \/ n = 2 \/ n = 3) by lia.
    rewrite c64_sem by (cbn; lia).
    destruct (N.eqb_spec ch 61) as [->|Hc].
    + rewrite b64_push_pad by (cbn; lia). cbn [c64_next d64_next].
      destruct C as [-> | [-> | [-> | ->]]]; cbn [N.ltb N.compare Pos.compare Pos.compare_cont].
      * exact I.
      * exact I.
      * rewrite ccont_2, cont_2. cbn [bind fst snd]. rewrite app_nil_r. apply IH. lia.
      * rewrite ccont_3, cont_3. cbv zeta. cbn [N.eqb Pos.eqb negb].
        destruct (x2 =? 128); cbn [negb bind fst snd].
        -- apply IH. lia.
        -- rewrite <- app_assoc. apply IH. lia.
    + rewrite b64_push_sem by (cbn; auto; lia).
      destruct (val64 ch) as [v|] eqn:V; [|exact I].
      pose proof (ne128 v (val64_lt _ _ V)) as Nv.
      destruct C as [-> | [-> | [-> | ->]]].
      * rewrite ccont_0, cont_0. cbn [bind fst snd]. rewrite app_nil_r. apply IH. lia.
      * rewrite ccont_1, cont_1. cbn [bind fst snd]. rewrite app_nil_r. apply IH. lia.
      * rewrite ccont_2, cont_2. cbn [bind fst snd]. rewrite app_nil_r. apply IH. lia.
      * rewrite ccont_3, cont_3. cbv zeta. rewrite Nv. cbn [negb].
        destruct (x2 =? 128); cbn [negb bind fst snd]; [exact I|].
        rewrite <- !app_assoc. apply IH. lia.
Qed.

Theorem b64_converter_agrees chunks :
  same_result (b64_convert chunks) (b64_decode (concat chunks)).
Proof.
  unfold b64_convert. rewrite c64_run_syms_only, syms_only_tokens, b64_decode_is_cur.
  apply (sim64 (concat chunks) 0 0 0 0 0 []). lia.
Qed.

Example b64_converter_examples :
  b64_convert [[90; 103]; [61; 61]] = Ok [102] /\ b64_convert [[90; 103; 61; 97]] = Err E_CONV_ILLEGAL /\
  b64_convert [[90; 103; 61; 61]; [65]] = Err E_TRAILING /\ b64_convert [[90]] = Err E_SHORT.
Proof. vm_compute. repeat split. Qed.

(* ---------------------------------------------------------- Base32hex *)

Definition c32_cont (c : conv32) (v : N) : outcome (conv32 * list N) :=
  do inp <- buf8_set (c32_input c) (c32_next c) v;
  let next' := c32_next c + 1 in
  if next' =? b32_conv_group then
    Ok (mkc32 inp 0, [app8 b32_conv_oct0 inp; app8 b32_conv_oct1 inp; app8 b32_conv_oct2 inp;
                      app8 b32_conv_oct3 inp; app8 b32_conv_oct4 inp])
  else Ok (mkc32 inp next', []).

Lemma c32_sem c ch :
  c32_process_char c ch = match val32 ch with None => Err E_CONV_ILLEGAL | Some v => c32_cont c v end.
Proof.
  unfold c32_process_char. cbv [b32_conv_ascii_max].
  destruct (N.ltb_spec 127 ch) as [G|L].
  - rewrite val32_none_high by exact G. reflexivity.
  - destruct (dec_tab32_ok ch) as (v & E1 & E2); [lia|].
    rewrite E1. cbn [bind]. rewrite <- E2.
    change b32_conv_illegal_val with b32_illegal_val.
    destruct (v =? b32_illegal_val); reflexivity.
Qed.

Lemma ccont32_0 x0 x1 x2 x3 x4 x5 x6 x7 v : c32_cont (mkc32 (x0, x1, x2, x3, x4, x5, x6, x7) 0) v = Ok (mkc32 (v, x1, x2, x3, x4, x5, x6, x7) 1, []).
Proof. reflexivity. Qed.
Lemma ccont32_1 x0 x1 x2 x3 x4 x5 x6 x7 v : c32_cont (mkc32 (x0, x1, x2, x3, x4, x5, x6, x7) 1) v = Ok (mkc32 (x0, v, x2, x3, x4, x5, x6, x7) 2, []).
Proof. reflexivity. Qed.
Lemma ccont32_2 x0 x1 x2 x3 x4 x5 x6 x7 v : c32_cont (mkc32 (x0, x1, x2, x3, x4, x5, x6, x7) 2) v = Ok (mkc32 (x0, x1, v, x3, x4, x5, x6, x7) 3, []).
Proof. reflexivity. Qed.
Lemma ccont32_3 x0 x1 x2 x3 x4 x5 x6 x7 v : c32_cont (mkc32 (x0, x1, x2, x3, x4, x5, x6, x7) 3) v = Ok (mkc32 (x0, x1, x2, v, x4, x5, x6, x7) 4, []).
Proof. reflexivity. Qed.
Lemma ccont32_4 x0 x1 x2 x3 x4 x5 x6 x7 v : c32_cont (mkc32 (x0, x1, x2, x3, x4, x5, x6, x7) 4) v = Ok (mkc32 (x0, x1, x2, x3, v, x5, x6, x7) 5, []).
Proof. reflexivity. Qed.
Lemma ccont32_5 x0 x1 x2 x3 x4 x5 x6 x7 v : c32_cont (mkc32 (x0, x1, x2, x3, x4, x5, x6, x7) 5) v = Ok (mkc32 (x0, x1, x2, x3, x4, v, x6, x7) 6, []).
Proof. reflexivity. Qed.
Lemma ccont32_6 x0 x1 x2 x3 x4 x5 x6 x7 v : c32_cont (mkc32 (x0, x1, x2, x3, x4, x5, x6, x7) 6) v = Ok (mkc32 (x0, x1, x2, x3, x4, x5, v, x7) 7, []).
Proof. reflexivity. Qed.
Lemma ccont32_7 x0 x1 x2 x3 x4 x5 x6 x7 v : c32_cont (mkc32 (x0, x1, x2, x3, x4, x5, x6, x7) 7) v =
  Ok (mkc32 (x0, x1, x2, x3, x4, x5, x6, v) 0, [b32_oct0 x0 x1 x2 x3 x4 x5 x6 v; b32_oct1 x0 x1 x2 x3 x4 x5 x6 v; b32_oct2 x0 x1 x2 x3 x4 x5 x6 v; b32_oct3 x0 x1 x2 x3 x4 x5 x6 v; b32_oct4 x0 x1 x2 x3 x4 x5 x6 v]).
Proof. reflexivity. Qed.
Lemma ctail32_0 x0 x1 x2 x3 x4 x5 x6 x7 acc : c32_run (mkc32 (x0, x1, x2, x3, x4, x5, x6, x7) 0) acc [] = Ok acc.
Proof. cbn. rewrite ?app_nil_r. reflexivity. Qed.
Lemma ctail32_1 x0 x1 x2 x3 x4 x5 x6 x7 acc : c32_run (mkc32 (x0, x1, x2, x3, x4, x5, x6, x7) 1) acc [] = Err E_SHORT.
Proof. reflexivity. Qed.
Lemma ctail32_2 x0 x1 x2 x3 x4 x5 x6 x7 acc : c32_run (mkc32 (x0, x1, x2, x3, x4, x5, x6, x7) 2) acc [] = Ok (acc ++ [b32_oct0 x0 x1 x2 x3 x4 x5 x6 x7]).
Proof. reflexivity. Qed.
Lemma ctail32_3 x0 x1 x2 x3 x4 x5 x6 x7 acc : c32_run (mkc32 (x0, x1, x2, x3, x4, x5, x6, x7) 3) acc [] = Err E_SHORT.
Proof. reflexivity. Qed.
Lemma ctail32_4 x0 x1 x2 x3 x4 x5 x6 x7 acc : c32_run (mkc32 (x0, x1, x2, x3, x4, x5, x6, x7) 4) acc [] = Ok (acc ++ [b32_oct0 x0 x1 x2 x3 x4 x5 x6 x7; b32_oct1 x0 x1 x2 x3 x4 x5 x6 x7]).
Proof. reflexivity. Qed.
Lemma ctail32_5 x0 x1 x2 x3 x4 x5 x6 x7 acc : c32_run (mkc32 (x0, x1, x2, x3, x4, x5, x6, x7) 5) acc [] = Ok (acc ++ [b32_oct0 x0 x1 x2 x3 x4 x5 x6 x7; b32_oct1 x0 x1 x2 x3 x4 x5 x6 x7; b32_oct2 x0 x1 x2 x3 x4 x5 x6 x7]).
Proof. reflexivity. Qed.
Lemma ctail32_6 x0 x1 x2 x3 x4 x5 x6 x7 acc : c32_run (mkc32 (x0, x1, x2, x3, x4, x5, x6, x7) 6) acc [] = Err E_SHORT.
Proof. reflexivity. Qed.
Lemma ctail32_7 x0 x1 x2 x3 x4 x5 x6 x7 acc : c32_run (mkc32 (x0, x1, x2, x3, x4, x5, x6, x7) 7) acc [] = Ok (acc ++ [b32_oct0 x0 x1 x2 x3 x4 x5 x6 x7; b32_oct1 x0 x1 x2 x3 x4 x5 x6 x7; b32_oct2 x0 x1 x2 x3 x4 x5 x6 x7; b32_oct3 x0 x1 x2 x3 x4 x5 x6 x7]).
Proof. reflexivity. Qed.

Lemma sim32 s : forall x0 x1 x2 x3 x4 x5 x6 x7 n acc, n < 8 ->
  same_result (c32_run (mkc32 (x0, x1, x2, x3, x4, x5, x6, x7) n) acc (map Sym s))
              (b32_decode_from (mk32 (x0, x1, x2, x3, x4, x5, x6, x7) n (Ok acc)) s).
Proof.
  induction s as [|ch r IH]; intros x0 x1 x2 x3 x4 x5 x6 x7 n acc Hn;
    assert (C : n = 0 \/ n = 1 \/ n = 2 \/ n = 3 \/ n = 4 \/ n = 5 \/ n = 6 \/ n = 7) by lia.
  - cbn [map]. destruct C as [-> | [-> | [-> | [-> | [-> | [-> | [-> | ->]]]]]]].
    + rewrite ctail32_0, fin32_0. cbn. auto.
    + rewrite ctail32_1, fin32_1. cbn. auto.
    + rewrite ctail32_2, fin32_2. cbn. auto.
    + rewrite ctail32_3, fin32_3. cbn. auto.
    + rewrite ctail32_4, fin32_4. cbn. auto.
    + rewrite ctail32_5, fin32_5. cbn. auto.
    + rewrite ctail32_6, fin32_6. cbn. auto.
    + rewrite ctail32_7, fin32_7. cbn. auto.
  - cbn [map c32_run c32_process_symbol b32_decode_from].
    rewrite c32_sem, b32_push_sem.
    destruct (val32 ch) as [v|]; [|exact I].
    destruct C as [-> | [-> | [-> | [-> | [-> | [-> | [-> | ->]]]]]]].
    + rewrite ccont32_0, cont32_0. cbn [bind fst snd]. rewrite app_nil_r. apply IH. lia.
    + rewrite ccont32_1, cont32_1. cbn [bind fst snd]. rewrite app_nil_r. apply IH. lia.
    + rewrite ccont32_2, cont32_2. cbn [bind fst snd]. rewrite app_nil_r. apply IH. lia.
    + rewrite ccont32_3, cont32_3. cbn [bind fst snd]. rewrite app_nil_r. apply IH. lia.
    + rewrite ccont32_4, cont32_4. cbn [bind fst snd]. rewrite app_nil_r. apply IH. lia.
    + rewrite ccont32_5, cont32_5. cbn [bind fst snd]. rewrite app_nil_r. apply IH. lia.
    + rewrite ccont32_6, cont32_6. cbn [bind fst snd]. rewrite app_nil_r. apply IH. lia.
    + rewrite ccont32_7, cont32_7. cbn [bind fst snd]. apply IH. lia.
Qed.

Theorem b32_converter_agrees chunks :
  same_result (b32_convert chunks) (b32_decode (concat chunks)).
Proof.
  unfold b32_convert. rewrite c32_run_syms_only, syms_only_tokens.
  apply (sim32 (concat chunks) 0 0 0 0 0 0 0 0 0 []). lia.
Qed.

(* ------------------------------------------------------------- Base16 *)

Lemma c16_sem c ch :
  c16_process_symbol c (Sym ch) =
  match val16 ch with
  | None => Err E_CONV_ILLEGAL
  | Some v => if c16_pending c
              then Ok (mkc16 (N.lor (c16_buf c) v) false, [N.lor (c16_buf c) v])
              else Ok (mkc16 (N.land (N.shiftl v b16_conv_shift) 255) true, [])
  end.
Proof.
  unfold c16_process_symbol. change b16_conv_radix with 16. rewrite to_digit16_is_val16. reflexivity.
Qed.

Lemma sim16 s : forall b acc,
  same_result (c16_run (mkc16 b false) acc (map Sym s)) (b16_decode_from (mk16 None (Ok acc)) s) /\
  same_result (c16_run (mkc16 b true) acc (map Sym s)) (b16_decode_from (mk16 (Some b) (Ok acc)) s).
Proof.
  induction s as [|ch r IH]; intros b acc.
  - cbn. rewrite app_nil_r. auto.
  - cbn [map c16_run b16_decode_from]. rewrite !c16_sem, !b16_push_sem.
    cbn [c16_pending c16_buf d16_buf d16_target].
    destruct (val16 ch) as [v|]; [|cbn; auto].
    cbv zeta. cbn [bind fst snd d16_target target_err append]. rewrite app_nil_r.
    change b16_conv_shift with b16_shift.
    split; [apply (IH (N.land (N.shiftl v b16_shift) 255) acc)|apply (IH (N.lor b v))].
Qed.

Theorem b16_converter_agrees chunks :
  same_result (b16_convert chunks) (b16_decode (concat chunks)).
Proof.
  unfold b16_convert. rewrite c16_run_syms_only, syms_only_tokens.
  apply (sim16 (concat chunks) 0 []).
Qed.

Example converter_examples_32_16 :
  b32_convert [[67]; [79]] = Ok [102] /\ b32_convert [[67]] = Err E_SHORT /\
  b32_convert [[67; 87]] = Err E_CONV_ILLEGAL /\
  b16_convert [[70]; [48]] = Ok [240] /\ b16_convert [[70]] = Err E_SHORT.
Proof. vm_compute. repeat split. Qed.
