(* C18 proofs, part 6: the per-push Decoder API and the scanner converter:
   splitting the input does not matter (state is a fold), base64 defects of the
   per-push API (refuted statements with witnesses, restricted theorems). *)
From Coq Require Import NArith List Bool Lia ZArith.
From Coq Require Import ZifyN ZifyBool ZifyNat.
Import ListNotations.
From DV Require Import Base.Outcome C18.Gen C18.Model C18.Proofs C18.ProofsEnc C18.ProofsSpec
  C18.ProofsDec64 C18.ProofsDec32.
Local Open Scope N_scope.
Ltac Zify.zify_post_hook ::= Z.div_mod_to_equations.

(* ---------------------------------------------- chunk independence (fold) *)

Definition seq_runs {D} (run : D -> list N -> list (option N) * outcome D) (d : D) (a b : list N) :=
  let '(ta, fa) := run d a in
  match fa with
  | Ok d' => let '(tb, fb) := run d' b in (ta ++ tb, fb)
  | _ => (ta, fa)
  end.

Theorem b64_chunk_independent a b d : b64_run d (a ++ b) = seq_runs b64_run d a b.
Proof.
  unfold seq_runs. revert d. induction a as [|ch r IH]; intros d.
  - cbn [app b64_run]. destruct (b64_run d b); reflexivity.
  - cbn [app b64_run]. destruct (b64_push d ch) as [[d' res]|e|p|]; try reflexivity.
    rewrite IH. destruct (b64_run d' r) as [ta fa]. destruct fa as [d''|e|p|]; try reflexivity.
    destruct (b64_run d'' b); reflexivity.
Qed.

Theorem b32_chunk_independent a b d : b32_run d (a ++ b) = seq_runs b32_run d a b.
Proof.
  unfold seq_runs. revert d. induction a as [|ch r IH]; intros d.
  - cbn [app b32_run]. destruct (b32_run d b); reflexivity.
  - cbn [app b32_run]. destruct (b32_push d ch) as [[d' res]|e|p|]; try reflexivity.
    rewrite IH. destruct (b32_run d' r) as [ta fa]. destruct fa as [d''|e|p|]; try reflexivity.
    destruct (b32_run d'' b); reflexivity.
Qed.

Theorem b16_chunk_independent a b d : b16_run d (a ++ b) = seq_runs b16_run d a b.
Proof.
  unfold seq_runs. revert d. induction a as [|ch r IH]; intros d.
  - cbn [app b16_run]. destruct (b16_run d b); reflexivity.
  - cbn [app b16_run]. destruct (b16_push d ch) as [[d' res]|e|p|]; try reflexivity.
    rewrite IH. destruct (b16_run d' r) as [ta fa]. destruct fa as [d''|e|p|]; try reflexivity.
    destruct (b16_run d'' b); reflexivity.
Qed.


(* the scanner hands the converter the characters of several tokens with
   EndOfToken in between; how the text is cut into tokens does not matter *)
Fixpoint syms_only (s : list esym) : list esym :=
  match s with
  | [] => []
  | Sym c :: r => Sym c :: syms_only r
  | EndOfToken :: r => syms_only r
  end.

Lemma syms_only_app a b : syms_only (a ++ b) = syms_only a ++ syms_only b.
Proof. induction a as [|[c|] r IH]; cbn; rewrite ?IH; reflexivity. Qed.
Lemma syms_only_map s : syms_only (map Sym s) = map Sym s.
Proof. induction s; cbn; rewrite ?IHs; reflexivity. Qed.
Lemma syms_only_tokens chunks : syms_only (tokens chunks) = map Sym (concat chunks).
Proof.
  unfold tokens. induction chunks as [|ck r IH]; [reflexivity|].
  cbn [flat_map concat]. rewrite syms_only_app, syms_only_app, syms_only_map, map_app, IH.
  cbn. rewrite app_nil_r. reflexivity.
Qed.

Lemma c64_run_syms_only s : forall c acc, c64_run c acc s = c64_run c acc (syms_only s).
Proof.
  induction s as [|[ch|] r IH]; intros c acc.
  - reflexivity.
  - cbn [c64_run syms_only]. destruct (c64_process_symbol c (Sym ch)) as [[c' o]| | |]; cbn [bind]; auto.
  - cbn [c64_run syms_only c64_process_symbol bind fst snd]. rewrite app_nil_r. apply IH.
Qed.

Theorem b64_convert_chunk_independent chunks : b64_convert chunks = b64_convert [concat chunks].
Proof.
  unfold b64_convert. rewrite c64_run_syms_only, (c64_run_syms_only (tokens [concat chunks])).
  rewrite !syms_only_tokens. cbn [concat]. rewrite app_nil_r. reflexivity.
Qed.

Lemma c32_run_syms_only s : forall c acc, c32_run c acc s = c32_run c acc (syms_only s).
Proof.
  induction s as [|[ch|] r IH]; intros c acc.
  - reflexivity.
  - cbn [c32_run syms_only]. destruct (c32_process_symbol c (Sym ch)) as [[c' o]| | |]; cbn [bind]; auto.
  - cbn [c32_run syms_only c32_process_symbol bind fst snd]. rewrite app_nil_r. apply IH.
Qed.

Theorem b32_convert_chunk_independent chunks : b32_convert chunks = b32_convert [concat chunks].
Proof.
  unfold b32_convert. rewrite c32_run_syms_only, (c32_run_syms_only (tokens [concat chunks])).
  rewrite !syms_only_tokens. cbn [concat]. rewrite app_nil_r. reflexivity.
Qed.

Lemma c16_run_syms_only s : forall c acc, c16_run c acc s = c16_run c acc (syms_only s).
Proof.
  induction s as [|[ch|] r IH]; intros c acc.
  - reflexivity.
  - cbn [c16_run syms_only]. destruct (c16_process_symbol c (Sym ch)) as [[c' o]| | |]; cbn [bind]; auto.
  - cbn [c16_run syms_only c16_process_symbol bind fst snd]. rewrite app_nil_r. apply IH.
Qed.

Theorem b16_convert_chunk_independent chunks : b16_convert chunks = b16_convert [concat chunks].
Proof.
  unfold b16_convert. rewrite c16_run_syms_only, (c16_run_syms_only (tokens [concat chunks])).
  rewrite !syms_only_tokens. cbn [concat]. rewrite app_nil_r. reflexivity.
Qed.


Example chunking_examples :
  b64_convert [[90; 109]; []; [57]; [118]] = Ok [102; 111; 111] /\
  b64_convert [[90; 109; 57; 118]] = Ok [102; 111; 111] /\
  b32_convert [[67]; [79]] = Ok [102] /\ b16_convert [[70]; [48; 48]; [102]] = Ok [240; 15] /\
  fst (b64_run b64_new [90; 103; 61; 61; 65]) = [None; None; None; None; Some E_TRAILING].
Proof. vm_compute. repeat split. Qed.

(* ------------------------------------------ base64 per-push API: defects *)

(* (a) pushing on after an in-group TrailingInput error indexes buf[4] *)
Theorem b64_api_total_refuted :
  exists s, snd (b64_push_all s) = Panic 2 /\
            fst (b64_push_all s) = [None; None; None; Some E_TRAILING].
Proof. exists [90; 103; 61; 97; 98]. vm_compute. auto. Qed.

(* (b) an IllegalChar error is not recorded: later pushes and finalize succeed *)
Theorem b64_errors_sticky_refuted :
  exists s, fst (b64_push_all s) = [Some (E_illegal 33); None; None; None; None] /\
            snd (b64_push_all s) = Ok [102; 111; 111].
Proof. exists [33; 90; 109; 57; 118]. vm_compute. auto. Qed.

Definition good64 (d : dec64) : Prop :=
  (d64_next d < 4 /\ exists acc, d64_target d = Ok acc) \/ d64_next d = 240.

Lemma illegal_ne_trailing ch : E_illegal ch <> E_TRAILING.
Proof. unfold E_illegal, E_TRAILING. lia. Qed.

Lemma b64_push_cases d ch : d64_next d < 4 -> (exists acc, d64_target d = Ok acc) ->
  exists d' res, b64_push d ch = Ok (d', res) /\
    ((res = None /\ good64 d') \/
     (res = Some (E_illegal ch) /\ d' = d) \/
     (res = Some E_TRAILING /\ d64_next d' = 4)).
Proof.
  destruct d as [[[[x0 x1] x2] x3] n t]. cbn [d64_next d64_target]. intros Hn [acc ->].
  assert (C : n = 0 \/ n = 1 \/ n = 2 \/ n = 3) by lia.
  destruct (N.eq_dec ch 61) as [->|Hc].
  - rewrite b64_push_pad by (cbn; lia). cbn [d64_next].
    destruct C as [->|[->|[->|->]]]; cbn [N.ltb N.compare Pos.compare Pos.compare_cont].
    + eexists _, _. split; [reflexivity|]. right; left. auto.
    + eexists _, _. split; [reflexivity|]. right; left. auto.
    + rewrite cont_2. eexists _, _. split; [reflexivity|]. left. split; [reflexivity|].
      left. cbn. split; [lia|eauto].
    + rewrite cont_3. cbv zeta. cbn [N.eqb Pos.eqb negb].
      eexists _, _. split; [reflexivity|]. left. split; [reflexivity|]. right. reflexivity.
  - rewrite b64_push_sem by (cbn; auto; lia).
    destruct (val64 ch) as [v|] eqn:V.
    2:{ eexists _, _. split; [reflexivity|]. right; left. auto. }
    pose proof (val64_lt _ _ V) as Lv.
    destruct C as [->|[->|[->|->]]].
    + rewrite cont_0. eexists _, _. split; [reflexivity|]. left. split; [reflexivity|].
      left. cbn. split; [lia|eauto].
    + rewrite cont_1. eexists _, _. split; [reflexivity|]. left. split; [reflexivity|].
      left. cbn. split; [lia|eauto].
    + rewrite cont_2. eexists _, _. split; [reflexivity|]. left. split; [reflexivity|].
      left. cbn. split; [lia|eauto].
    + rewrite cont_3. cbv zeta. rewrite (ne128 v Lv). cbn [negb].
      destruct (x2 =? 128).
      * eexists _, _. split; [reflexivity|]. right; right. auto.
      * eexists _, _. split; [reflexivity|]. left. split; [reflexivity|].
        left. cbn. split; [lia|eauto].
Qed.

Lemma b64_push_at_eof d ch : d64_next d = 240 ->
  b64_push d ch = Ok (mk64 (d64_buf d) 240 (Err E_TRAILING), Some E_TRAILING).
Proof.
  intros H. rewrite b64_push_unfold, H. reflexivity.
Qed.

(* as long as no push has returned TrailingInput, pushing never panics and the
   decoder stays in a regular state *)
Lemma b64_run_good s : forall d, good64 d ->
  ~ In (Some E_TRAILING) (fst (b64_run d s)) ->
  exists d', snd (b64_run d s) = Ok d' /\ good64 d'.
Proof.
  induction s as [|ch r IH]; intros d G NT.
  - cbn. eauto.
  - cbn [b64_run] in *. destruct G as [[Hn Ht]|He].
    + destruct (b64_push_cases d ch Hn Ht) as (d' & res & E & C). rewrite E in *.
      destruct (b64_run d' r) as [tr fin] eqn:R. cbn [fst snd] in *.
      destruct C as [[-> G']|[[-> ->]|[-> _]]].
      * specialize (IH d' G'). rewrite R in IH. apply IH. intros I. apply NT. right. exact I.
      * specialize (IH d (or_introl (conj Hn Ht))). rewrite R in IH. apply IH.
        intros I. apply NT. right. exact I.
      * exfalso. apply NT. left. reflexivity.
    + rewrite (b64_push_at_eof d ch He) in NT.
      destruct (b64_run _ r) as [tr fin]. exfalso. apply NT. left. reflexivity.
Qed.

Lemma good64_new : good64 b64_new.
Proof. left. cbn. split; [lia|eauto]. Qed.

Lemma b64_finalize_no_panic d : good64 d -> no_panic (b64_finalize d).
Proof.
  intros [[_ [acc H]]|H]; unfold b64_finalize.
  - rewrite H. destruct (N.land (d64_next d) b64_fin_mask =? 0); exact I.
  - destruct (d64_target d) as [l|e|p|] eqn:T.
Abort.
