(* C18 proofs, part 6: the per-push Decoder API and the scanner converter:
   splitting the input does not matter (state is a fold), base64 defects of the
   per-push API (refuted statements with witnesses, restricted theorems). *)
From Coq Require Import NArith List Bool Lia ZArith.
From Coq Require Import ZifyN ZifyBool ZifyNat.
Import ListNotations.
From DV Require Import Base.Outcome C18.Gen C18.Model C18.Proofs C18.ProofsEnc C18.ProofsSpec
  C18.ProofsDec64 C18.ProofsDec32.
Local Open Scope N_scope.
Ltac Zify.zify_post_hook ::= Z.div_mod_to_equations.

(* ---------------------------------------------- chunk independence (fold) *)

Definition seq_runs {D} (run : D -> list N -> list (option N) * outcome D) (d : D) (a b : list N) :=
  let '(ta, fa) := run d a in
  match fa with
  | Ok d' => let '(tb, fb) := run d' b in (ta ++ tb, fb)
  | _ => (ta, fa)
  end.

Theorem b64_chunk_independent sticky a b d :
  b64_run_with sticky d (a ++ b) = seq_runs (b64_run_with sticky) d a b.
Proof.
  unfold seq_runs. revert d. induction a as [|ch r IH]; intros d.
  - cbn [app b64_run_with]. destruct (b64_run_with sticky d b); reflexivity.
  - cbn [app b64_run_with]. destruct (b64_push_with sticky d ch) as [[d' res]|e|p|]; try reflexivity.
    rewrite IH. destruct (b64_run_with sticky d' r) as [ta fa]. destruct fa as [d''|e|p|]; try reflexivity.
    destruct (b64_run_with sticky d'' b); reflexivity.
Qed.

Theorem b32_chunk_independent a b d : b32_run d (a ++ b) = seq_runs b32_run d a b.
Proof.
  unfold seq_runs. revert d. induction a as [|ch r IH]; intros d.
  - cbn [app b32_run]. destruct (b32_run d b); reflexivity.
  - cbn [app b32_run]. destruct (b32_push d ch) as [[d' res]|e|p|]; try reflexivity.
    rewrite IH. destruct (b32_run d' r) as [ta fa]. destruct fa as [d''|e|p|]; try reflexivity.
    destruct (b32_run d'' b); reflexivity.
Qed.

Theorem b16_chunk_independent a b d : b16_run d (a ++ b) = seq_runs b16_run d a b.
Proof.
  unfold seq_runs. revert d. induction a as [|ch r IH]; intros d.
  - cbn [app b16_run]. destruct (b16_run d b); reflexivity.
  - cbn [app b16_run]. destruct (b16_push d ch) as [[d' res]|e|p|]; try reflexivity.
    rewrite IH. destruct (b16_run d' r) as [ta fa]. destruct fa as [d''|e|p|]; try reflexivity.
    destruct (b16_run d'' b); reflexivity.
Qed.


(* the scanner hands the converter the characters of several tokens with
   EndOfToken in between; how the text is cut into tokens does not matter *)
Fixpoint syms_only (s : list esym) : list esym :=
  match s with
  | [] => []
  | Sym c :: r => Sym c :: syms_only r
  | EndOfToken :: r => syms_only r
  end.

Lemma syms_only_app a b : syms_only (a ++ b) = syms_only a ++ syms_only b.
Proof. induction a as [|[c|] r IH]; cbn; rewrite ?IH; reflexivity. Qed.
Lemma syms_only_map s : syms_only (map Sym s) = map Sym s.
Proof. induction s; cbn; rewrite ?IHs; reflexivity. Qed.
Lemma syms_only_tokens chunks : syms_only (tokens chunks) = map Sym (concat chunks).
Proof.
  unfold tokens. induction chunks as [|ck r IH]; [reflexivity|].
  cbn [flat_map concat]. rewrite syms_only_app, syms_only_app, syms_only_map, map_app, IH.
  cbn. rewrite app_nil_r. reflexivity.
Qed.

Lemma c64_run_syms_only s : forall c acc, c64_run c acc s = c64_run c acc (syms_only s).
Proof.
  induction s as [|[ch|] r IH]; intros c acc.
  - reflexivity.
  - cbn [c64_run syms_only]. destruct (c64_process_symbol c (Sym ch)) as [[c' o]| | |]; cbn [bind]; auto.
  - cbn [c64_run syms_only c64_process_symbol bind fst snd]. rewrite app_nil_r. apply IH.
Qed.

Theorem b64_convert_chunk_independent chunks : b64_convert chunks = b64_convert [concat chunks].
Proof.
  unfold b64_convert. rewrite c64_run_syms_only, (c64_run_syms_only (tokens [concat chunks])).
  rewrite !syms_only_tokens. cbn [concat]. rewrite app_nil_r. reflexivity.
Qed.

Lemma c32_run_syms_only s : forall c acc, c32_run c acc s = c32_run c acc (syms_only s).
Proof.
  induction s as [|[ch|] r IH]; intros c acc.
  - reflexivity.
  - cbn [c32_run syms_only]. destruct (c32_process_symbol c (Sym ch)) as [[c' o]| | |]; cbn [bind]; auto.
  - cbn [c32_run syms_only c32_process_symbol bind fst snd]. rewrite app_nil_r. apply IH.
Qed.

Theorem b32_convert_chunk_independent chunks : b32_convert chunks = b32_convert [concat chunks].
Proof.
  unfold b32_convert. rewrite c32_run_syms_only, (c32_run_syms_only (tokens [concat chunks])).
  rewrite !syms_only_tokens. cbn [concat]. rewrite app_nil_r. reflexivity.
Qed.

Lemma c16_run_syms_only s : forall c acc, c16_run c acc s = c16_run c acc (syms_only s).
Proof.
  induction s as [|[ch|] r IH]; intros c acc.
  - reflexivity.
  - cbn [c16_run syms_only]. destruct (c16_process_symbol c (Sym ch)) as [[c' o]| | |]; cbn [bind]; auto.
  - cbn [c16_run syms_only c16_process_symbol bind fst snd]. rewrite app_nil_r. apply IH.
Qed.

Theorem b16_convert_chunk_independent chunks : b16_convert chunks = b16_convert [concat chunks].
Proof.
  unfold b16_convert. rewrite c16_run_syms_only, (c16_run_syms_only (tokens [concat chunks])).
  rewrite !syms_only_tokens. cbn [concat]. rewrite app_nil_r. reflexivity.
Qed.


Example chunking_examples :
  b64_convert [[90; 109]; []; [57]; [118]] = Ok [102; 111; 111] /\
  b64_convert [[90; 109; 57; 118]] = Ok [102; 111; 111] /\
  b32_convert [[67]; [79]] = Ok [102] /\ b16_convert [[70]; [48; 48]; [102]] = Ok [240; 15] /\
  fst (b64_run b64_new [90; 103; 61; 61; 65]) = [None; None; None; None; Some E_TRAILING] /\
  fst (b64_run_with true b64_new [33; 65]) = [Some (E_illegal 33); Some (E_illegal 33)].
Proof. vm_compute. repeat split. Qed.

Lemma run_cons64 d ch r :
  b64_run d (ch :: r) =
  match b64_push_char d ch with
  | Ok (d', res) => let '(tr, fin) := b64_run d' r in (res :: tr, fin)
  | Err e => ([], Err e)
  | Panic p => ([], Panic p)
  | OutOfFuel => ([], OutOfFuel)
  end.
Proof. reflexivity. Qed.

(* ------------------------------------------ base64 per-push API: defects *)

(* (a) pushing on after an in-group TrailingInput error indexes buf[4] *)
Theorem b64_api_total_refuted :
  exists s, snd (b64_push_all_cur s) = Panic 2 /\
            fst (b64_push_all_cur s) = [None; None; None; Some E_TRAILING].
Proof. exists [90; 103; 61; 97; 98]. vm_compute. auto. Qed.

(* (b) an IllegalChar error is not recorded: later pushes and finalize succeed *)
Theorem b64_errors_sticky_refuted :
  exists s, fst (b64_push_all_cur s) = [Some (E_illegal 33); None; None; None; None] /\
            snd (b64_push_all_cur s) = Ok [102; 111; 111].
Proof. exists [33; 90; 109; 57; 118]. vm_compute. auto. Qed.

Definition okerr (t : target) : Prop := match t with Ok _ | Err _ => True | _ => False end.
Definition good64 (d : dec64) : Prop :=
  (d64_next d < 4 /\ exists acc, d64_target d = Ok acc) \/ (d64_next d = 240 /\ okerr (d64_target d)).

Lemma illegal_ne_trailing ch : E_illegal ch <> E_TRAILING.
Proof. unfold E_illegal, E_TRAILING. lia. Qed.

Lemma b64_push_cases d ch : d64_next d < 4 -> (exists acc, d64_target d = Ok acc) ->
  exists d' res, b64_push_char d ch = Ok (d', res) /\
    ((res = None /\ good64 d' /\ exists acc', d64_target d' = Ok acc') \/
     (res = Some (E_illegal ch) /\ d' = d) \/
     (res = Some E_TRAILING /\ d64_next d' = 4 /\ okerr (d64_target d'))).
Proof.
  destruct d as [[[[x0 x1] x2] x3] n t]. cbn [d64_next d64_target]. intros Hn [acc ->].
  assert (C : n = 0 \/ n = 1 \/ n = 2 \/ n = 3) by lia.
  destruct (N.eq_dec ch 61) as [->|Hc].
  - rewrite b64_push_pad by (cbn; lia). cbn [d64_next].
    destruct C as [-> | [-> | [-> | ->]]]; cbn [N.ltb N.compare Pos.compare Pos.compare_cont].
    + eexists _, _. split; [reflexivity|]. right; left. auto.
    + eexists _, _. split; [reflexivity|]. right; left. auto.
    + rewrite cont_2. eexists _, _. split; [reflexivity|]. left. split; [reflexivity|].
      split; [left; cbn; split; [lia|eauto]|cbn; eauto].
    + rewrite cont_3. cbv zeta. cbn [N.eqb Pos.eqb negb].
      eexists _, _. split; [reflexivity|]. left. split; [reflexivity|]. split; [right; split; [reflexivity|exact I]|cbn; eauto].
  - rewrite b64_push_sem by (cbn; auto; lia).
    destruct (val64 ch) as [v|] eqn:V.
    2:{ eexists _, _. split; [reflexivity|]. right; left. auto. }
    pose proof (val64_lt _ _ V) as Lv.
    destruct C as [-> | [-> | [-> | ->]]].
    + rewrite cont_0. eexists _, _. split; [reflexivity|]. left. split; [reflexivity|].
      split; [left; cbn; split; [lia|eauto]|cbn; eauto].
    + rewrite cont_1. eexists _, _. split; [reflexivity|]. left. split; [reflexivity|].
      split; [left; cbn; split; [lia|eauto]|cbn; eauto].
    + rewrite cont_2. eexists _, _. split; [reflexivity|]. left. split; [reflexivity|].
      split; [left; cbn; split; [lia|eauto]|cbn; eauto].
    + rewrite cont_3. cbv zeta. rewrite (ne128 v Lv). cbn [negb].
      destruct (x2 =? 128).
      * eexists _, _. split; [reflexivity|]. right; right. cbn. auto.
      * eexists _, _. split; [reflexivity|]. left. split; [reflexivity|].
        split; [left; cbn; split; [lia|eauto]|cbn; eauto].
Qed.

Lemma b64_push_at_eof d ch : d64_next d = 240 ->
  b64_push_char d ch = Ok (mk64 (d64_buf d) 240 (Err E_TRAILING), Some E_TRAILING).
Proof.
  intros H. rewrite b64_push_unfold, H. reflexivity.
Qed.

(* as long as no push has returned TrailingInput, pushing never panics and the
   decoder stays in a regular state *)
Lemma b64_run_good s : forall d, good64 d ->
  ~ In (Some E_TRAILING) (fst (b64_run d s)) ->
  exists d', snd (b64_run d s) = Ok d' /\ good64 d'.
Proof.
  induction s as [|ch r IH]; intros d G NT.
  - cbn. eauto.
  - rewrite run_cons64 in *. destruct G as [[Hn Ht]|[He _]].
    + destruct (b64_push_cases d ch Hn Ht) as (d' & res & E & C). rewrite E in *.
      destruct (b64_run d' r) as [tr fin] eqn:R. cbn [fst snd] in *.
      destruct C as [[-> [G' _]]|[[-> ->]|[-> _]]].
      * specialize (IH d' G'). rewrite R in IH. apply IH. intros I. apply NT. right. exact I.
      * specialize (IH d (or_introl (conj Hn Ht))). rewrite R in IH. apply IH.
        intros I. apply NT. right. exact I.
      * exfalso. apply NT. left. reflexivity.
    + rewrite (b64_push_at_eof d ch He) in NT.
      destruct (b64_run _ r) as [tr fin]. exfalso. apply NT. left. reflexivity.
Qed.

Lemma good64_new : good64 b64_new.
Proof. left. cbn. split; [lia|eauto]. Qed.

Lemma b64_finalize_no_panic d : good64 d -> no_panic (b64_finalize d).
Proof.
  intros [[_ [acc H]]|[_ H]]; unfold b64_finalize.
  - rewrite H. destruct (N.land (d64_next d) b64_fin_mask =? 0); exact I.
  - destruct (d64_target d) as [l|e|p|]; try contradiction; [|exact I].
    destruct (N.land (d64_next d) b64_fin_mask =? 0); exact I.
Qed.

Lemma push_all_snd64 s :
  snd (b64_push_all_cur s) =
  match snd (b64_run b64_new s) with
  | Ok d => match b64_finalize d with
            | Ok l => Ok l | Err e => Err e | Panic p => Panic p | OutOfFuel => OutOfFuel end
  | Err e => Panic 0 | Panic p => Panic p | OutOfFuel => OutOfFuel end
  /\ fst (b64_push_all_cur s) = fst (b64_run b64_new s).
Proof. unfold b64_push_all_cur, b64_push_all_with. fold b64_run. destruct (b64_run b64_new s). split; reflexivity. Qed.

Theorem b64_api_total_restricted s :
  ~ In (Some E_TRAILING) (fst (b64_push_all_cur s)) -> no_panic (snd (b64_push_all_cur s)).
Proof.
  destruct (push_all_snd64 s) as [E1 E2]. rewrite E1, E2. intros NT.
  destruct (b64_run_good s b64_new good64_new NT) as (d' & R & G). rewrite R.
  pose proof (b64_finalize_no_panic d' G) as F.
  destruct (b64_finalize d'); try contradiction; exact I.
Qed.

(* errors other than IllegalChar are sticky: once a push has returned
   TrailingInput, no later push returns Ok and finalize does not succeed
   (it fails or, defect (a), a later push panics) *)
Definition bad64 (d : dec64) : Prop :=
  (d64_next d = 240 /\ d64_target d = Err E_TRAILING) \/ (d64_next d = 4 /\ okerr (d64_target d)).

Lemma b64_push_at_4 d ch : d64_next d = 4 ->
  b64_push_char d ch = Panic 2 \/ b64_push_char d ch = Ok (d, Some (E_illegal ch)).
Proof.
  destruct d as [[[[x0 x1] x2] x3] n t]. cbn [d64_next]. intros ->.
  destruct (N.eq_dec ch 61) as [->|Hc].
  - left. rewrite b64_push_pad by (cbn; lia). reflexivity.
  - rewrite b64_push_sem by (cbn; auto; lia). destruct (val64 ch) as [v|]; [left|right]; reflexivity.
Qed.

Definition all_trailing (tr : list (option N)) : Prop := forall e, In (Some e) tr -> e = E_TRAILING.

Lemma b64_run_bad s : forall d, bad64 d -> all_trailing (fst (b64_run d s)) ->
  match snd (b64_run d s) with
  | Ok d' => bad64 d' /\ ~ In None (fst (b64_run d s))
  | Panic _ => ~ In None (fst (b64_run d s))
  | _ => False
  end.
Proof.
  induction s as [|ch r IH]; intros d B AT.
  - cbn. auto.
  - rewrite run_cons64 in *. destruct B as [[Hn Ht]|[Hn Ht]].
    + rewrite (b64_push_at_eof d ch Hn) in *.
      specialize (IH (mk64 (d64_buf d) 240 (Err E_TRAILING)) (or_introl (conj eq_refl eq_refl))).
      destruct (b64_run _ r) as [tr fin]. cbn [fst snd] in *.
      assert (A : all_trailing tr) by (intros e I; apply AT; right; exact I).
      specialize (IH A). destruct fin as [d'| |p|]; try contradiction.
      * destruct IH as [IH1 IH2]. split; [exact IH1|]. intros [X|X]; [discriminate|auto].
      * intros [X|X]; [discriminate|auto].
    + destruct (b64_push_at_4 d ch Hn) as [E|E]; rewrite E in *.
      * cbn. auto.
      * exfalso. destruct (b64_run d r) as [tr fin]. cbn [fst] in AT.
        apply (illegal_ne_trailing ch). apply AT. left. reflexivity.
Qed.

Lemma b64_run_sticky s : forall d, good64 d -> all_trailing (fst (b64_run d s)) ->
  (exists e, In (Some e) (fst (b64_run d s))) ->
  match snd (b64_run d s) with
  | Ok d' => bad64 d'
  | Panic _ => True
  | _ => False
  end.
Proof.
  induction s as [|ch r IH]; intros d G AT [e0 I0].
  - cbn in I0. contradiction.
  - rewrite run_cons64 in *. destruct G as [[Hn Ht]|[He Ht]].
    + destruct (b64_push_cases d ch Hn Ht) as (d' & res & E & C). rewrite E in *.
      destruct C as [[-> [G' _]]|[[-> ->]|[-> [N4 OE]]]].
      * specialize (IH d' G'). destruct (b64_run d' r) as [tr fin]. cbn [fst snd] in *.
        apply IH.
        -- intros e I. apply AT. right. exact I.
        -- destruct I0 as [X|X]; [discriminate|eauto].
      * exfalso. destruct (b64_run d r) as [tr fin]. cbn [fst] in AT.
        apply (illegal_ne_trailing ch). apply AT. left. reflexivity.
      * pose proof (b64_run_bad r d' (or_intror (conj N4 OE))) as B.
        destruct (b64_run d' r) as [tr fin]. cbn [fst snd] in *.
        assert (A : all_trailing tr) by (intros e I; apply AT; right; exact I).
        specialize (B A). destruct fin as [d''| |p|]; try contradiction; [apply B|exact I].
    + rewrite (b64_push_at_eof d ch He) in *.
      pose proof (b64_run_bad r (mk64 (d64_buf d) 240 (Err E_TRAILING)) (or_introl (conj eq_refl eq_refl))) as B.
      destruct (b64_run _ r) as [tr fin]. cbn [fst snd] in *.
      assert (A : all_trailing tr) by (intros e I; apply AT; right; exact I).
      specialize (B A). destruct fin as [d''| |p|]; try contradiction; [apply B|exact I].
Qed.

Lemma b64_finalize_bad d : bad64 d -> exists e, b64_finalize d = Err e.
Proof.
  unfold b64_finalize. intros [[Hn Ht]|[Hn Ht]].
  - rewrite Ht. eauto.
  - destruct (d64_target d) as [l|e|p|]; try contradiction; [|eauto].
    rewrite Hn. cbv [b64_fin_mask]. cbn. eauto.
Qed.

Theorem b64_errors_sticky_restricted s :
  all_trailing (fst (b64_push_all_cur s)) ->
  (exists e, In (Some e) (fst (b64_push_all_cur s))) ->
  forall l, snd (b64_push_all_cur s) <> Ok l.
Proof.
  destruct (push_all_snd64 s) as [E1 E2]. rewrite E1, E2. intros AT EX l.
  pose proof (b64_run_sticky s b64_new good64_new AT EX) as H.
  destruct (snd (b64_run b64_new s)) as [d| |p|]; try contradiction; try discriminate.
  destruct (b64_finalize_bad d H) as [e F]. rewrite F. discriminate.
Qed.

Example b64_sticky_nonvacuous :
  b64_push_all_cur [90; 103; 61; 61; 65; 65] =
    ([None; None; None; None; Some E_TRAILING; Some E_TRAILING], Err E_TRAILING) /\
  b64_push_all_cur [90; 103; 61; 97] = ([None; None; None; Some E_TRAILING], Err E_SHORT).
Proof. vm_compute. auto. Qed.
