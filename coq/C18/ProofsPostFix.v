(* C18 proofs, part 9: the repaired base64 Decoder::push
   (pending/C18-base64-decoder.diff; model: b64_push_with true).  Every error is
   recorded in `target`, so the per-push API is total and its errors are
   sticky, without restriction.  `decode` is unchanged (b64_decode_is_cur).
   The selection lemmas at the end state, for the variant that T1 finds in the
   source (b64_push_sticky), what holds of it. *)
From Coq Require Import NArith List Bool Lia ZArith.
From Coq Require Import ZifyN ZifyBool ZifyNat.
Import ListNotations.
From DV Require Import Base.Outcome C18.Gen C18.Model C18.Proofs C18.ProofsEnc C18.ProofsSpec
  C18.ProofsDec64 C18.ProofsDec32 C18.ProofsApi C18.ProofsApi2.
Local Open Scope N_scope.
Ltac Zify.zify_post_hook ::= Z.div_mod_to_equations.

Definition invF (d : dec64) : Prop := good64 d \/ is_err (d64_target d).

Lemma b64_pushF_ok d ch : invF d ->
  exists d' res, b64_push_with true d ch = Ok (d', res) /\ invF d' /\
                 res = target_err (d64_target d') /\
                 (is_err (d64_target d) -> is_err (d64_target d')).
Proof.
  intros [G|[e T]].
  2:{ exists d, (Some e). cbn [b64_push_with]. rewrite T.
      split; [reflexivity|]. split; [right; exists e; exact T|]. split; [reflexivity|]. auto. }
  destruct G as [[Hn [acc T]]|[He Ht]].
  - cbn [b64_push_with]. rewrite T.
    destruct (b64_push_cases d ch Hn (ex_intro _ acc T)) as (d' & res & E & C). rewrite E.
    destruct C as [[-> [G' [acc' T']]]|[[-> ->]|[-> _]]].
    + exists d', None. split; [reflexivity|]. split; [left; exact G'|]. rewrite T'. split; [reflexivity|].
      intros [e0 X]. discriminate X.
    + eexists _, _. split; [reflexivity|]. cbn. split; [right; eexists; reflexivity|]. split; [reflexivity|].
      intros _. eexists; reflexivity.
    + eexists _, _. split; [reflexivity|]. cbn. split; [right; eexists; reflexivity|]. split; [reflexivity|].
      intros _. eexists; reflexivity.
  - destruct (d64_target d) as [acc|e|p|] eqn:T; try contradiction.
    + cbn [b64_push_with]. rewrite T, (b64_push_at_eof d ch He).
      eexists _, _. split; [reflexivity|]. cbn. split; [right; eexists; reflexivity|]. split; [reflexivity|].
      intros _. eexists; reflexivity.
    + exists d, (Some e). cbn [b64_push_with]. rewrite T.
      split; [reflexivity|]. split; [right; exists e; exact T|]. split; [reflexivity|]. auto.
Qed.

Lemma b64_runF_inv s : forall d, invF d ->
  exists d', snd (b64_run_with true d s) = Ok d' /\ invF d' /\
    (is_err (d64_target d) -> is_err (d64_target d') /\ ~ In None (fst (b64_run_with true d s))) /\
    ((exists e, In (Some e) (fst (b64_run_with true d s))) -> is_err (d64_target d')).
Proof.
  induction s as [|ch r IH]; intros d Hi.
  - cbn. exists d. split; [reflexivity|]. split; [exact Hi|].
    split; [intros X; split; [exact X|intros []]|intros [e []]].
  - cbn [b64_run_with]. destruct (b64_pushF_ok d ch Hi) as (d1 & res & E & I1 & -> & K1). rewrite E.
    destruct (IH d1 I1) as (d' & R & I' & K' & S').
    destruct (b64_run_with true d1 r) as [tr fin]. cbn [fst snd] in *.
    exists d'. split; [exact R|]. split; [exact I'|]. split.
    + intros X. destruct (K' (K1 X)) as [A B]. split; [exact A|].
      intros [Y|Y]; [|auto]. destruct (K1 X) as [e0 Z]. rewrite Z in Y. discriminate.
    + intros [e [Y|Y]].
      * apply K'. destruct (d64_target d1) as [l|e1|p|]; try discriminate. eexists; reflexivity.
      * apply S'. eauto.
Qed.

Lemma b64_finalize_invF d : invF d ->
  no_panic (b64_finalize d) /\ (is_err (d64_target d) -> exists e, b64_finalize d = Err e).
Proof.
  intros Hi. split.
  - destruct Hi as [G|[e T]]; [apply b64_finalize_no_panic, G|].
    unfold b64_finalize. rewrite T. exact I.
  - intros [e T]. unfold b64_finalize. rewrite T. eauto.
Qed.

Lemma push_all_fix s :
  snd (b64_push_all_fix s) =
  match snd (b64_run_with true b64_new s) with
  | Ok d => match b64_finalize d with
            | Ok l => Ok l | Err e => Err e | Panic p => Panic p | OutOfFuel => OutOfFuel end
  | Err e => Panic 0 | Panic p => Panic p | OutOfFuel => OutOfFuel end
  /\ fst (b64_push_all_fix s) = fst (b64_run_with true b64_new s).
Proof.
  unfold b64_push_all_fix, b64_push_all_with. destruct (b64_run_with true b64_new s). split; reflexivity.
Qed.

Theorem b64_fix_api_total s : no_panic (snd (b64_push_all_fix s)).
Proof.
  destruct (push_all_fix s) as [E _]. rewrite E.
  destruct (b64_runF_inv s b64_new (or_introl good64_new)) as (d & R & I1 & _). rewrite R.
  destruct (b64_finalize_invF d I1) as [F _]. destruct (b64_finalize d); try contradiction; exact I.
Qed.

Theorem b64_fix_errors_sticky s :
  (exists e, In (Some e) (fst (b64_push_all_fix s))) -> exists e, snd (b64_push_all_fix s) = Err e.
Proof.
  destruct (push_all_fix s) as [E1 E2]. rewrite E1, E2. intros EX.
  destruct (b64_runF_inv s b64_new (or_introl good64_new)) as (d & R & I1 & _ & S). rewrite R.
  destruct (b64_finalize_invF d I1) as [_ F]. destruct (F (S EX)) as [e Fe]. rewrite Fe. eauto.
Qed.

Theorem b64_fix_errors_keep_coming d s : invF d -> is_err (d64_target d) ->
  ~ In None (fst (b64_run_with true d s)).
Proof.
  intros I1 X. destruct (b64_runF_inv s d I1) as (d' & _ & _ & K & _). apply K, X.
Qed.

(* the witnesses of the two defects, run on the repaired model *)
Example b64_fix_witnesses :
  b64_push_all_fix [90; 103; 61; 97; 98] =
    ([None; None; None; Some E_TRAILING; Some E_TRAILING], Err E_TRAILING) /\
  b64_push_all_fix [33; 90; 109; 57; 118] =
    ([Some (E_illegal 33); Some (E_illegal 33); Some (E_illegal 33); Some (E_illegal 33);
      Some (E_illegal 33)], Err (E_illegal 33)) /\
  b64_push_all_fix [90; 109; 57; 118] = ([None; None; None; None], Ok [102; 111; 111]).
Proof. vm_compute. repeat split. Qed.

(* --- what holds of the variant found in the source --- *)

Definition api_total_stmt (b : bool) : Prop :=
  if b then forall s, no_panic (snd (b64_push_all_with b s))
  else (exists s, snd (b64_push_all_with b s) = Panic 2 /\
                  fst (b64_push_all_with b s) = [None; None; None; Some E_TRAILING]) /\
       (forall s, ~ In (Some E_TRAILING) (fst (b64_push_all_with b s)) ->
                  no_panic (snd (b64_push_all_with b s))).

Lemma b64_api_total_sel b : api_total_stmt b.
Proof.
  destruct b; unfold api_total_stmt.
  - exact b64_fix_api_total.
  - exact (conj b64_api_total_refuted b64_api_total_restricted).
Qed.

Definition errors_sticky_stmt (b : bool) : Prop :=
  if b then forall s, (exists e, In (Some e) (fst (b64_push_all_with b s))) ->
                      exists e, snd (b64_push_all_with b s) = Err e
  else (exists s, fst (b64_push_all_with b s) = [Some (E_illegal 33); None; None; None; None] /\
                  snd (b64_push_all_with b s) = Ok [102; 111; 111]) /\
       (forall s, all_trailing (fst (b64_push_all_with b s)) ->
                  (exists e, In (Some e) (fst (b64_push_all_with b s))) ->
                  forall l, snd (b64_push_all_with b s) <> Ok l).

Lemma b64_errors_sticky_sel b : errors_sticky_stmt b.
Proof.
  destruct b; unfold errors_sticky_stmt.
  - exact b64_fix_errors_sticky.
  - exact (conj b64_errors_sticky_refuted b64_errors_sticky_restricted).
Qed.
