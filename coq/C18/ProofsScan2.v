(* C18 proofs, part 13: the remaining token-reading methods of IterScanner
   (scan_octets, scan_charstr, scan_string, scan_ascii_str, scan_symbols,
   scan_entry_symbols, scan_charstr_entry, scan_name): with the escape check
   (chk = true, what is in /repo) none of them accepts a token with a malformed
   escape sequence; and display into a writer that runs out of room. *)
From Coq Require Import NArith List Bool Lia ZArith.
From Coq Require Import ZifyN ZifyBool ZifyNat.
Import ListNotations.
From DV Require Import Base.Outcome C18.Gen C18.Model C18.Proofs C18.ProofsEnc C18.ProofsSpec
  C18.ProofsDec64 C18.ProofsDec32 C18.ProofsApi C18.ProofsConv C18.ProofsUsers.
Local Open Scope N_scope.
Ltac Zify.zify_post_hook ::= Z.div_mod_to_equations.

Lemma scan_token_bad_escape C process c acc token :
  snd (symbols token) = false -> forall r, scan_token true C process c acc token <> Ok r.
Proof.
  intros B r. unfold scan_token. destruct (symbols token) as [syms ok]. cbn [snd] in B. subst ok.
  cbn [negb andb]. destruct (feed C process c acc syms) as [[c' a]| | |]; cbn [bind]; discriminate.
Qed.

Definition bad (token : list N) : Prop := snd (symbols token) = false.

Theorem scan_methods_refuse_bad_escapes token : bad token ->
  (forall r, scan_octets_with true token <> Ok r) /\
  (forall r, scan_charstr_with true token <> Ok r) /\
  (forall r, scan_string_with true token <> Ok r) /\
  (forall r, scan_ascii_str_with true token <> Ok r) /\
  (forall r, scan_symbols_with true token <> Ok r) /\
  (forall f r, scan_name_with true f token <> Ok r).
Proof.
  intros B.
  assert (T : forall C process c r, (do ca <- scan_token true C process c [] token; Ok (snd ca)) <> Ok r).
  { intros C process c r. pose proof (scan_token_bad_escape C process c [] token B) as S.
    destruct (scan_token true C process c [] token) as [ca| | |]; cbn [bind]; try discriminate.
    exfalso. exact (S ca eq_refl). }
  repeat split.
  - intros r. apply T.
  - intros r. apply T.
  - intros r. apply T.
  - intros r. unfold scan_ascii_str_with, scan_string_with.
    pose proof (T unit string_proc tt) as S.
    destruct (do ca <- scan_token true unit string_proc tt [] token; Ok (snd ca)) as [bs| | |]; cbn [bind]; try discriminate.
    exfalso. exact (S bs eq_refl).
  - intros r. unfold scan_symbols_with. unfold bad in B. destruct (symbols token) as [syms ok].
    cbn [snd] in B. subst ok. discriminate.
  - intros f r. unfold scan_name_with. unfold bad in B. destruct (symbols token) as [syms ok].
    cbn [snd] in B. subst ok. destruct (f syms); cbn [bind]; discriminate.
Qed.

Theorem scan_entry_methods_refuse_bad_escapes tokens : Exists bad tokens ->
  (forall r, scan_charstr_entry_with true tokens <> Ok r) /\
  (forall r, scan_entry_symbols_with true tokens <> Ok r).
Proof.
  induction tokens as [|tk rest IH]; intros E; [inversion E|].
  cbn [scan_charstr_entry_with scan_entry_symbols_with].
  apply Exists_cons in E. destruct E as [B|E].
  - destruct (scan_methods_refuse_bad_escapes tk B) as (_ & C1 & _ & _ & S1 & _). split; intros r.
    + destruct (scan_charstr_with true tk) as [cs| | |] eqn:X; cbn [bind]; try discriminate.
      exfalso. exact (C1 cs eq_refl).
    + destruct (scan_symbols_with true tk) as [sy| | |] eqn:X; cbn [bind]; try discriminate.
      exfalso. exact (S1 sy eq_refl).
  - destruct (IH E) as [C2 S2]. split; intros r.
    + destruct (scan_charstr_with true tk) as [cs| | |]; cbn [bind]; try discriminate.
        destruct (255 <? N.of_nat (length cs)); [discriminate|].
        destruct (scan_charstr_entry_with true rest) as [rr| | |] eqn:X; cbn [bind]; try discriminate.
        exfalso. exact (C2 rr eq_refl).
    + destruct (scan_symbols_with true tk) as [sy| | |]; cbn [bind]; try discriminate.
        destruct (scan_entry_symbols_with true rest) as [rr| | |] eqn:X; cbn [bind]; try discriminate.
        exfalso. exact (S2 rr eq_refl).
Qed.

(* what scan_symbols hands to its callback is the whole token, and only for
   tokens in the RFC 1035 escape grammar *)
Theorem scan_symbols_ok_iff token syms :
  scan_symbols_with true token = Ok syms <-> wf_esc token /\ syms = fst (symbols token).
Proof.
  unfold scan_symbols_with. rewrite <- symbols_ok_iff_wf. destruct (symbols token) as [l ok]. cbn [fst snd].
  destruct ok; cbn [negb andb]; split.
  - intros H. injection H as <-. auto.
  - intros [_ ->]. reflexivity.
  - discriminate.
  - intros [X _]. discriminate.
Qed.

(* tokens without escapes *)
Definition printable (c : N) : Prop := 32 <= c <= 126.

Lemma feed_octets_plain s : forall acc, Forall printable s ->
  feed unit octet_proc tt acc (map SChar s) = Ok (tt, acc ++ s).
Proof.
  induction s as [|c r IH]; intros acc H; cbn [map feed]; [rewrite app_nil_r; reflexivity|].
  pose proof (Forall_inv H) as Hc. unfold printable in Hc.
  unfold octet_proc at 1. cbn [into_octet]. change sym_octet_min with 32. change sym_octet_max with 126.
  replace ((c <? 128) && (32 <=? c) && (c <=? 126)) with true by lia.
  cbn [bind fst snd]. rewrite IH by exact (Forall_inv_tail H). rewrite <- app_assoc. reflexivity.
Qed.

Theorem scan_octets_plain chk s : ~ In 92 s -> Forall printable s ->
  scan_octets_with chk s = Ok s /\
  (N.of_nat (length s) <= 255 -> scan_charstr_with chk s = Ok s).
Proof.
  intros H P. unfold scan_octets_with, scan_charstr_with. rewrite !scan_token_plain_feed by exact H.
  rewrite feed_octets_plain by exact P. split; [reflexivity|]. intros L.
  assert (F : forall s n acc, Forall printable s -> n + N.of_nat (length s) <= 255 ->
            feed N charstr_proc n acc (map SChar s) = Ok (n + N.of_nat (length s), acc ++ s)).
  { clear. induction s as [|c r IH]; intros n acc P L; cbn [map feed length].
    - rewrite app_nil_r. f_equal. f_equal. lia.
    - pose proof (Forall_inv P) as Hc. unfold printable in Hc. cbn [length] in L.
      unfold charstr_proc at 1. cbn [into_octet]. change sym_octet_min with 32. change sym_octet_max with 126.
      replace ((c <? 128) && (32 <=? c) && (c <=? 126)) with true by lia.
      change charstr_max with 255. destruct (N.ltb_spec 255 (n + 1)); [lia|].
      cbn [bind fst snd]. rewrite IH by (try exact (Forall_inv_tail P); lia).
      rewrite <- app_assoc. f_equal. f_equal. lia. }
  rewrite (F s 0 [] P) by lia. reflexivity.
Qed.

Lemma feed_string_plain s : forall acc,
  feed unit string_proc tt acc (map SChar s) = Ok (tt, acc ++ flat_map utf8 s).
Proof.
  induction s as [|c r IH]; intros acc; cbn [map feed flat_map]; [rewrite app_nil_r; reflexivity|].
  unfold string_proc at 1. cbn [into_char bind fst snd]. rewrite IH, <- app_assoc. reflexivity.
Qed.

Theorem scan_string_plain chk s : ~ In 92 s -> scan_string_with chk s = Ok (flat_map utf8 s).
Proof.
  intros H. unfold scan_string_with. rewrite scan_token_plain_feed by exact H.
  rewrite feed_string_plain. reflexivity.
Qed.

Example scan_methods_examples :
  scan_octets_with true [97; 92; 46; 98] = Ok [97; 46; 98] /\
  scan_octets_with true [97; 92; 48; 52; 54; 98] = Ok [97; 46; 98] /\
  scan_octets_with true [97; 98; 92] = Err E_BAD_ESCAPE /\ scan_octets_with false [97; 98; 92] = Ok [97; 98] /\
  scan_octets_with true [233] = Err E_BAD_SYMBOL /\ scan_string_with true [233] = Ok [195; 169] /\
  scan_ascii_str_with true [233] = Err E_NON_ASCII /\
  scan_charstr_entry_with true [[97]; [98; 99]] = Ok [1; 97; 2; 98; 99] /\
  scan_charstr_with true (repeat 97 256) = Err E_SHORTBUF /\
  scan_entry_symbols_with true [[97]; [92; 46]] = Ok [Some (SChar 97); None; Some (SSimple 46); None] /\
  scan_opt_unknown_marker [92; 35] = true /\ scan_opt_unknown_marker [92; 35; 35] = false /\
  utf8 128512 = [240; 159; 152; 128].
Proof. vm_compute. repeat split. Qed.

(* ------------------------------------------- display into a failing writer *)

Lemma w_each_closed l : forall held room,
  w_each (held, room) l =
  if N.of_nat (length l) <=? room then ((held ++ l, room - N.of_nat (length l)), true)
  else ((held ++ firstn (N.to_nat room) l, 0), false).
Proof.
  induction l as [|c r IH]; intros held room; cbn [w_each length].
  - rewrite app_nil_r. change (N.of_nat 0) with 0. destruct (N.leb_spec 0 room); [|lia].
    replace (room - 0) with room by lia. reflexivity.
  - unfold w_chars. cbn [length]. change (N.of_nat 1) with 1.
    destruct (N.leb_spec 1 room) as [L|G].
    + rewrite IH. rewrite <- app_assoc. cbn [app].
      destruct (N.leb_spec (N.of_nat (length r)) (room - 1));
        destruct (N.leb_spec (N.of_nat (S (length r))) room); try lia.
      * f_equal. f_equal. lia.
      * replace (N.to_nat room) with (S (N.to_nat (room - 1))) by lia. cbn [firstn].
        rewrite <- app_assoc. reflexivity.
    + destruct (N.leb_spec (N.of_nat (S (length r))) room); [lia|].
      replace room with 0 by lia. cbn. rewrite app_nil_r. reflexivity.
Qed.

Lemma w_each_cons w c l :
  w_each w (c :: l) = match w_chars w [c] with Some w' => w_each w' l | None => (w, false) end.
Proof. reflexivity. Qed.

Lemma b64_display_w_each bs : forall w, octets bs ->
  b64_display_w w bs = Ok (w_each w (spec_enc64 bs)).
Proof.
  induction bs as [|a|a b|a b c r IH] using list_ind3; intros w H.
  - reflexivity.
  - inv_octets H. cbn [b64_display_w].
    rewrite e64_1_0, e64_1_1 by assumption. rewrite !b64_ch_val. cbn [bind].
    change (spec_enc64 [a]) with
      [sym alpha64 (bits_val [N.testbit a 7; N.testbit a 6; N.testbit a 5; N.testbit a 4; N.testbit a 3; N.testbit a 2]);
       sym alpha64 (bits_val [N.testbit a 1; N.testbit a 0; false; false; false; false]); 61; 61].
    rewrite w_each_cons. destruct (w_chars w _); reflexivity.
  - inv_octets H. cbn [b64_display_w].
    rewrite e64_2_0, e64_2_1, e64_2_2 by assumption. rewrite !b64_ch_val. cbn [bind].
    change (spec_enc64 [a; b]) with
      [sym alpha64 (bits_val [N.testbit a 7; N.testbit a 6; N.testbit a 5; N.testbit a 4; N.testbit a 3; N.testbit a 2]);
       sym alpha64 (bits_val [N.testbit a 1; N.testbit a 0; N.testbit b 7; N.testbit b 6; N.testbit b 5; N.testbit b 4]);
       sym alpha64 (bits_val [N.testbit b 3; N.testbit b 2; N.testbit b 1; N.testbit b 0; false; false]); 61].
    rewrite w_each_cons. destruct (w_chars w _) as [w1|]; [|reflexivity].
    rewrite w_each_cons. destruct (w_chars w1 _); reflexivity.
  - inv_octets H. cbn [b64_display_w].
    rewrite e64_3_0, e64_3_1, e64_3_2, e64_3_3 by assumption. rewrite !b64_ch_val. cbn [bind].
    rewrite spec_enc64_step.
    rewrite w_each_cons. destruct (w_chars w _) as [w1|]; [|reflexivity].
    rewrite w_each_cons. destruct (w_chars w1 _) as [w2|]; [|reflexivity].
    rewrite w_each_cons. destruct (w_chars w2 _) as [w3|]; [|reflexivity].
    rewrite w_each_cons. destruct (w_chars w3 _) as [w4|]; [|reflexivity].
    apply IH, H.
Qed.

(* the error of the writer is propagated at once; what has been written is the
   beginning of the RFC 4648 text; no panic *)
Theorem b64_display_into_writer bs room : octets bs ->
  b64_display_w ([], room) bs =
  Ok (if N.of_nat (length (spec_enc64 bs)) <=? room
      then ((spec_enc64 bs, room - N.of_nat (length (spec_enc64 bs))), true)
      else ((firstn (N.to_nat room) (spec_enc64 bs), 0), false)).
Proof. intros H. rewrite b64_display_w_each by exact H. rewrite w_each_closed. reflexivity. Qed.

Fixpoint w_pairs (w : writer) (bs : list N) : writer * bool :=
  match bs with
  | [] => (w, true)
  | c :: r => match w_chars w (spec_enc16 [c]) with Some w' => w_pairs w' r | None => (w, false) end
  end.

Lemma b16_display_w_pairs bs : forall w, octets bs -> b16_display_w w bs = Ok (w_pairs w bs).
Proof.
  induction bs as [|c r IH]; intros w H; [reflexivity|].
  inv_octets H. cbn [b16_display_w w_pairs]. rewrite enc_tab16_is_rfc, nth_error_map.
  rewrite nth_error_range by exact Ho. cbn [option_map].
  rewrite hi_nibble, lo_nibble by exact Ho.
  change (spec_enc16 [c]) with
    [sym alpha16 (bits_val [N.testbit c 7; N.testbit c 6; N.testbit c 5; N.testbit c 4]);
     sym alpha16 (bits_val [N.testbit c 3; N.testbit c 2; N.testbit c 1; N.testbit c 0])].
  destruct (w_chars w _); [apply IH, H|reflexivity].
Qed.

Lemma spec_enc16_app1 c r : spec_enc16 [c] ++ spec_enc16 r = spec_enc16 (c :: r).
Proof. rewrite !spec_enc16_step. reflexivity. Qed.

Lemma w_pairs_closed bs : forall held room,
  w_pairs (held, room) bs =
  if 2 * N.of_nat (length bs) <=? room
  then ((held ++ spec_enc16 bs, room - 2 * N.of_nat (length bs)), true)
  else ((held ++ spec_enc16 (firstn (N.to_nat (room / 2)) bs), room - 2 * (room / 2)), false).
Proof.
  induction bs as [|c r IH]; intros held room; cbn [w_pairs length].
  - change (2 * N.of_nat 0) with 0. destruct (N.leb_spec 0 room); [|lia].
    change (spec_enc16 []) with (@nil N). rewrite app_nil_r. replace (room - 0) with room by lia. reflexivity.
  - unfold w_chars. change (N.of_nat (length (spec_enc16 [c]))) with 2.
    destruct (N.leb_spec 2 room) as [L|G].
    + rewrite IH. rewrite <- !app_assoc, !spec_enc16_app1.
      destruct (N.leb_spec (2 * N.of_nat (length r)) (room - 2));
        destruct (N.leb_spec (2 * N.of_nat (S (length r))) room); try lia.
      * assert (E : room - 2 - 2 * N.of_nat (length r) = room - 2 * N.of_nat (S (length r))) by lia.
        rewrite E. reflexivity.
      * assert (E1 : N.to_nat (room / 2) = S (N.to_nat ((room - 2) / 2))) by lia.
        assert (E2 : room - 2 - 2 * ((room - 2) / 2) = room - 2 * (room / 2)) by lia.
        rewrite E1, E2. reflexivity.
    + destruct (N.leb_spec (2 * N.of_nat (S (length r))) room); [lia|].
      assert (E : room / 2 = 0) by lia. rewrite E.
      change (spec_enc16 (firstn (N.to_nat 0) (c :: r))) with (@nil N). rewrite app_nil_r.
      replace (room - 2 * 0) with room by lia. reflexivity.
Qed.

Theorem b16_display_into_writer bs room : octets bs ->
  b16_display_w ([], room) bs =
  Ok (if 2 * N.of_nat (length bs) <=? room
      then ((spec_enc16 bs, room - 2 * N.of_nat (length bs)), true)
      else ((spec_enc16 (firstn (N.to_nat (room / 2)) bs), room - 2 * (room / 2)), false)).
Proof. intros H. rewrite b16_display_w_pairs by exact H. rewrite w_pairs_closed. reflexivity. Qed.

Example display_writer_examples :
  b64_display_w ([], 5) [102; 111; 111; 98] = Ok (([90; 109; 57; 118; 89], 0), false) /\
  b64_display_w ([], 8) [102; 111; 111; 98] = Ok (([90; 109; 57; 118; 89; 103; 61; 61], 0), true) /\
  b16_display_w ([], 3) [240; 15] = Ok (([70; 48], 1), false).
Proof. vm_compute. repeat split. Qed.

(* ---- base32hex display into a failing writer ---- *)

Lemma w_seq_ok l : forall w, w_seq w (map Ok l) = Ok (w_each w l).
Proof.
  induction l as [|c r IH]; intros w; cbn [map w_seq w_each bind]; [reflexivity|].
  destruct (w_chars w [c]); [apply IH|reflexivity].
Qed.

Lemma w_each_app a : forall w b,
  w_each w (a ++ b) = if snd (w_each w a) then w_each (fst (w_each w a)) b else w_each w a.
Proof.
  induction a as [|c r IH]; intros w b; cbn [app w_each]; [reflexivity|].
  destruct (w_chars w [c]); [apply IH|reflexivity].
Qed.

Lemma b32_display_w_each bs : forall w, octets bs ->
  b32_display_w w bs = Ok (w_each w (spec_enc32 bs)).
Proof.
  induction bs as [|a|a b|a b c|a b c d|a b c d e r IH] using list_ind5; intros w H.
  - reflexivity.
  - inv_octets H. cbn [b32_display_w].
    rewrite b32_e0_spec, b32_e1_last_spec by assumption. rewrite !b32_ch_val.
    exact (w_seq_ok [_; _] w).
  - inv_octets H. cbn [b32_display_w].
    rewrite b32_e0_spec, b32_e1_spec, b32_e2_spec, b32_e3_last_spec by assumption. rewrite !b32_ch_val.
    exact (w_seq_ok [_; _; _; _] w).
  - inv_octets H. cbn [b32_display_w].
    rewrite b32_e0_spec, b32_e1_spec, b32_e2_spec, b32_e3_spec, b32_e4_last_spec by assumption.
    rewrite !b32_ch_val. exact (w_seq_ok [_; _; _; _; _] w).
  - inv_octets H. cbn [b32_display_w].
    rewrite b32_e0_spec, b32_e1_spec, b32_e2_spec, b32_e3_spec, b32_e4_spec, b32_e5_spec,
      b32_e6_last_spec by assumption.
    rewrite !b32_ch_val. exact (w_seq_ok [_; _; _; _; _; _; _] w).
  - inv_octets H. cbn [b32_display_w].
    rewrite b32_e0_spec, b32_e1_spec, b32_e2_spec, b32_e3_spec, b32_e4_spec, b32_e5_spec,
      b32_e6_spec, b32_e7_spec by assumption.
    rewrite !b32_ch_val.
    match goal with |- context [w_seq w [Ok ?q0; Ok ?q1; Ok ?q2; Ok ?q3; Ok ?q4; Ok ?q5; Ok ?q6; Ok ?q7]] =>
      change (w_seq w [Ok q0; Ok q1; Ok q2; Ok q3; Ok q4; Ok q5; Ok q6; Ok q7])
        with (w_seq w (map Ok [q0; q1; q2; q3; q4; q5; q6; q7])) end.
    rewrite w_seq_ok. cbn [bind].
    rewrite spec_enc32_step.
    match goal with |- context [w_each w [?q0; ?q1; ?q2; ?q3; ?q4; ?q5; ?q6; ?q7]] =>
      change (q0 :: q1 :: q2 :: q3 :: q4 :: q5 :: q6 :: q7 :: spec_enc32 r)
        with ([q0; q1; q2; q3; q4; q5; q6; q7] ++ spec_enc32 r) end.
    rewrite w_each_app.
    destruct (w_each w _) as [w' ok]. cbn [fst snd]. destruct ok; [apply IH, H|reflexivity].
Qed.

Theorem b32_display_into_writer bs room : octets bs ->
  b32_display_w ([], room) bs =
  Ok (if N.of_nat (length (spec_enc32 bs)) <=? room
      then ((spec_enc32 bs, room - N.of_nat (length (spec_enc32 bs))), true)
      else ((firstn (N.to_nat room) (spec_enc32 bs), 0), false)).
Proof. intros H. rewrite b32_display_w_each by exact H. rewrite w_each_closed. reflexivity. Qed.
