(* C01 -- property theorems only.  Proofs live in C01/Proofs*.v. *)
From Coq Require Import NArith List.
From DV Require Import Base.Outcome Base.Bytes Base.Names Base.PName C01.Gen C01.Model C01.Proofs.
Import ListNotations.
Local Open Scope N_scope.

(* ParsedName::parse_ref terminates within PARSE_FUEL for every message,
   position and limit. *)
Theorem C01_parse_ref_terminates : forall m pos lim, parse_ref m pos lim <> OutOfFuel.
Proof. exact parse_ref_no_fuel. Qed.
Print Assumptions C01_parse_ref_terminates.

(* ... and never panics nor hangs as long as the parser's limit lies within the
   octets it reads (which Parser guarantees). *)
Theorem C01_parse_ref_total : forall m pos lim, lim <= mlen m -> no_panic (parse_ref m pos lim).
Proof. exact parse_ref_total. Qed.
Print Assumptions C01_parse_ref_total.

(* validate-then-trust: a name accepted by parse_ref is iterated by the
   unchecked ParsedNameIter without index panic, without panic!("bad label"),
   without u16 underflow, ends in the root label, consists of valid labels and
   its length is the cached name_len <= 255. *)
Theorem C01_parse_ref_sound : forall m pos lim p,
  parse_ref m pos lim = Ok p -> lim <= mlen m -> wf_bytes m ->
  exists labels, pname_labels m p = Ok (labels, true) /\
    Forall valid_label labels /\
    N.of_nat (wire_len labels) + 1 = pn_len p /\ pn_len p <= 255.
Proof. exact parse_ref_sound. Qed.
Print Assumptions C01_parse_ref_sound.

Theorem C01_skip_name_total : forall m pos lim, lim <= mlen m -> no_panic (skip_name m pos lim).
Proof. exact skip_name_total. Qed.
Print Assumptions C01_skip_name_total.

(* the machine expression `low | ((head & 0x3F) << 8)` is what the model uses *)
Theorem C01_pointer_bits : forall b c, b < 256 -> c < 256 ->
  ptr_bits lt_ptr_mask lt_ptr_shift b c = c + 256 * (b mod 64) /\
  ptr_bits gl_ptr_mask gl_ptr_shift b c = c + 256 * (b mod 64) /\
  ptr_bits sf_ptr_mask sf_ptr_shift b c = c + 256 * (b mod 64).
Proof. exact ptr_bits_gen. Qed.
Print Assumptions C01_pointer_bits.

(* the literals and operators of parsed.rs read by T1 are those of the model *)
Theorem C01_source_constants : gen_matches_pname = true.
Proof. exact gen_matches_pname_ok. Qed.
Print Assumptions C01_source_constants.
