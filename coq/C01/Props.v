(* C01 -- property theorems only.  Proofs live in C01/Proofs*.v. *)
From Coq Require Import NArith List.
From DV Require Import Base.Outcome Base.Bytes Base.Names Base.PName C01.Gen C01.Model C01.Proofs C01.Proofs2 C01.Proofs3.
Import ListNotations.
Local Open Scope N_scope.

(* ParsedName::parse_ref terminates within PARSE_FUEL for every message,
   position and limit. *)
Theorem C01_parse_ref_terminates : forall m pos lim, parse_ref m pos lim <> OutOfFuel.
Proof. exact parse_ref_no_fuel. Qed.
Print Assumptions C01_parse_ref_terminates.

(* ... and never panics nor hangs as long as the parser's limit lies within the
   octets it reads (which Parser guarantees). *)
Theorem C01_parse_ref_total : forall m pos lim, lim <= mlen m -> no_panic (parse_ref m pos lim).
Proof. exact parse_ref_total. Qed.
Print Assumptions C01_parse_ref_total.

(* validate-then-trust: a name accepted by parse_ref is iterated by the
   unchecked ParsedNameIter without index panic, without panic!("bad label"),
   without u16 underflow, ends in the root label, consists of valid labels and
   its length is the cached name_len <= 255. *)
Theorem C01_parse_ref_sound : forall m pos lim p,
  parse_ref m pos lim = Ok p -> lim <= mlen m -> wf_bytes m ->
  exists labels, pname_labels m p = Ok (labels, true) /\
    Forall valid_label labels /\
    N.of_nat (wire_len labels) + 1 = pn_len p /\ pn_len p <= 255.
Proof. exact parse_ref_sound. Qed.
Print Assumptions C01_parse_ref_sound.

Theorem C01_skip_name_total : forall m pos lim, lim <= mlen m -> no_panic (skip_name m pos lim).
Proof. exact skip_name_total. Qed.
Print Assumptions C01_skip_name_total.

(* the machine expression `low | ((head & 0x3F) << 8)` is what the model uses *)
Theorem C01_pointer_bits : forall b c, b < 256 -> c < 256 ->
  ptr_bits lt_ptr_mask lt_ptr_shift b c = c + 256 * (b mod 64) /\
  ptr_bits gl_ptr_mask gl_ptr_shift b c = c + 256 * (b mod 64) /\
  ptr_bits sf_ptr_mask sf_ptr_shift b c = c + 256 * (b mod 64).
Proof. exact ptr_bits_gen. Qed.
Print Assumptions C01_pointer_bits.

(* the literals and operators of parsed.rs read by T1 are those of the model *)
Theorem C01_source_constants : gen_matches_pname = true.
Proof. exact gen_matches_pname_ok. Qed.
Print Assumptions C01_source_constants.

(* Label::iter_slice / SliceLabelsIter: for every slice and every start the
   iterator yields a finite list of labels (no panic, no endless stream). *)
Theorem C01_iter_slice_finite : forall m start, exists ls, iter_slice m start = Ok ls.
Proof. exact iter_slice_finite. Qed.
Print Assumptions C01_iter_slice_finite.

(* the error fuse of QuestionSection / RecordSection: after the first Err the
   iterator holds that error and every later next is None *)
Theorem C01_fuse_after_error : forall (A : Type) (parse : N -> outcome A) (endof : A -> N) s e s',
  sec_next parse endof s = Ok (Some (IErr e), s') ->
  s_err s' = Some e /\ sec_next parse endof s' = Ok (None, s').
Proof. exact @fuse_after_error. Qed.
Print Assumptions C01_fuse_after_error.

Theorem C01_fuse_sticky : forall (A : Type) (parse : N -> outcome A) (endof : A -> N) st e,
  s_err st = Some e -> sec_next parse endof st = Ok (None, st).
Proof. exact @fuse_sticky. Qed.
Print Assumptions C01_fuse_sticky.

(* a parsed record's data lies within the parser's limit, hence in the message *)
Theorem C01_record_extent_within : forall m pos lim r,
  lim <= mlen m -> record_parse m pos lim = Ok r ->
  rr_data r + rr_rdlen r = rr_end r /\ rr_end r <= lim /\ rr_end r <= mlen m.
Proof. exact record_extent_within. Qed.
Print Assumptions C01_record_extent_within.

(* what ParsedRecord::parse accepts, ParsedRecord::skip accepts, with the same
   end position (the unwraps behind next_section after a clean iteration) *)
Theorem C01_parse_accepts_skip_accepts : forall m pos lim r,
  record_parse m pos lim = Ok r -> record_skip m pos lim = Ok (rr_end r).
Proof. exact parse_accepts_skip_accepts. Qed.
Print Assumptions C01_parse_accepts_skip_accepts.

(* canonical_name's loop bound ANCOUNT + 1 is computed without overflow *)
Theorem C01_canonical_rounds : forall an, canonical_rounds an = Ok (an + 1).
Proof. exact canonical_rounds_eq. Qed.
Print Assumptions C01_canonical_rounds.

(* every modelled read-side operation on every octet string: no panic, no
   fuel exhaustion (header, counts, questions, the three record sections with
   their iterators and fuses, sections(), first/sole question, is_answer,
   MessageIter, canonical_name, opt and its options, the slice label iterator,
   unchecked iteration of every returned name) *)
Theorem C01_read_all_total : forall m, no_panic (read_all m).
Proof. exact read_all_total. Qed.
Print Assumptions C01_read_all_total.
