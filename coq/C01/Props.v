(* C01 -- property theorems only.  Proofs live in C01/Proofs*.v. *)
From Coq Require Import NArith List.
From DV Require Import Base.Outcome Base.Bytes Base.Names Base.PName C01.Gen C01.Model C01.Model2 C01.Model3 C01.Model4 C01.Proofs C01.Proofs2 C01.Proofs3 C01.Proofs4 C01.Proofs5 C01.Proofs6 C01.Proofs7 C01.Proofs8 C01.Proofs9 C01.ProofsW.
From DV Require Import C05.Schema C05.Model.
Import ListNotations.
Local Open Scope N_scope.

(* ParsedName::parse_ref terminates within PARSE_FUEL for every message,
   position and limit. *)
Theorem C01_parse_ref_terminates : forall m pos lim, parse_ref m pos lim <> OutOfFuel.
Proof. exact parse_ref_no_fuel. Qed.
Print Assumptions C01_parse_ref_terminates.

(* ... and never panics nor hangs as long as the parser's limit lies within the
   octets it reads (which Parser guarantees). *)
Theorem C01_parse_ref_total : forall m pos lim, lim <= mlen m -> no_panic (parse_ref m pos lim).
Proof. exact parse_ref_total. Qed.
Print Assumptions C01_parse_ref_total.

(* validate-then-trust: a name accepted by parse_ref is iterated by the
   unchecked ParsedNameIter without index panic, without panic!("bad label"),
   without u16 underflow, ends in the root label, consists of valid labels and
   its length is the cached name_len <= 255. *)
Theorem C01_parse_ref_sound : forall m pos lim p,
  parse_ref m pos lim = Ok p -> lim <= mlen m -> wf_bytes m ->
  exists labels, pname_labels m p = Ok (labels, true) /\
    Forall valid_label labels /\
    N.of_nat (wire_len labels) + 1 = pn_len p /\ pn_len p <= 255.
Proof. exact parse_ref_sound. Qed.
Print Assumptions C01_parse_ref_sound.

Theorem C01_skip_name_total : forall m pos lim, lim <= mlen m -> no_panic (skip_name m pos lim).
Proof. exact skip_name_total. Qed.
Print Assumptions C01_skip_name_total.

(* the machine expression `low | ((head & 0x3F) << 8)` is what the model uses *)
Theorem C01_pointer_bits : forall b c, b < 256 -> c < 256 ->
  ptr_bits lt_ptr_mask lt_ptr_shift b c = c + 256 * (b mod 64) /\
  ptr_bits gl_ptr_mask gl_ptr_shift b c = c + 256 * (b mod 64) /\
  ptr_bits sf_ptr_mask sf_ptr_shift b c = c + 256 * (b mod 64).
Proof. exact ptr_bits_gen. Qed.
Print Assumptions C01_pointer_bits.

(* the literals and operators of parsed.rs read by T1 are those of the model *)
Theorem C01_source_constants : gen_matches_pname = true.
Proof. exact gen_matches_pname_ok. Qed.
Print Assumptions C01_source_constants.

(* Label::iter_slice / SliceLabelsIter: for every slice and every start the
   iterator yields a finite list of labels (no panic, no endless stream). *)
Theorem C01_iter_slice_finite : forall m start, exists ls, iter_slice m start = Ok ls.
Proof. exact iter_slice_finite. Qed.
Print Assumptions C01_iter_slice_finite.

(* the error fuse of QuestionSection / RecordSection: after the first Err the
   iterator holds that error and every later next is None *)
Theorem C01_fuse_after_error : forall (A : Type) (parse : N -> outcome A) (endof : A -> N) s e s',
  sec_next parse endof s = Ok (Some (IErr e), s') ->
  s_err s' = Some e /\ sec_next parse endof s' = Ok (None, s').
Proof. exact @fuse_after_error. Qed.
Print Assumptions C01_fuse_after_error.

Theorem C01_fuse_sticky : forall (A : Type) (parse : N -> outcome A) (endof : A -> N) st e,
  s_err st = Some e -> sec_next parse endof st = Ok (None, st).
Proof. exact @fuse_sticky. Qed.
Print Assumptions C01_fuse_sticky.

(* a parsed record's data lies within the parser's limit, hence in the message *)
Theorem C01_record_extent_within : forall m pos lim r,
  lim <= mlen m -> record_parse m pos lim = Ok r ->
  rr_data r + rr_rdlen r = rr_end r /\ rr_end r <= lim /\ rr_end r <= mlen m.
Proof. exact record_extent_within. Qed.
Print Assumptions C01_record_extent_within.

(* what ParsedRecord::parse accepts, ParsedRecord::skip accepts, with the same
   end position (the unwraps behind next_section after a clean iteration) *)
Theorem C01_parse_accepts_skip_accepts : forall m pos lim r,
  record_parse m pos lim = Ok r -> record_skip m pos lim = Ok (rr_end r).
Proof. exact parse_accepts_skip_accepts. Qed.
Print Assumptions C01_parse_accepts_skip_accepts.

(* canonical_name's loop bound ANCOUNT + 1 is computed without overflow *)
Theorem C01_canonical_rounds : forall an, canonical_rounds an = Ok (an + 1).
Proof. exact canonical_rounds_eq. Qed.
Print Assumptions C01_canonical_rounds.

(* every modelled read-side operation on every octet string: no panic, no
   fuel exhaustion (header, counts, questions, the three record sections with
   their iterators and fuses, sections(), first/sole question, is_answer,
   MessageIter, canonical_name, opt and its options, the slice label iterator,
   unchecked iteration of every returned name) *)
Theorem C01_read_all_total : forall m, no_panic (read_all m).
Proof. exact read_all_total. Qed.
Print Assumptions C01_read_all_total.

(* ---- widening round ---- *)

(* ParsedName::split_first on a validated name: None exactly for the root name,
   otherwise the first label in wire form and a validated rest.  The peek
   unwrap, seek unwrap, unreachable!(), u16 underflow and range index are
   unreachable. *)
Theorem C01_split_first_valid : forall m p ls, valid_pn m p ls ->
  match ls with
  | [] => split_first m p = Ok None
  | l :: ls' => exists p', split_first m p = Ok (Some (wire_label l, p')) /\ valid_pn m p' ls'
  end.
Proof. exact split_first_valid. Qed.
Print Assumptions C01_split_first_valid.

Theorem C01_parent_valid : forall m p ls, valid_pn m p ls ->
  match ls with
  | [] => parent m p = Ok None
  | l :: ls' => exists p', parent m p = Ok (Some p') /\ valid_pn m p' ls'
  end.
Proof. exact parent_valid. Qed.
Print Assumptions C01_parent_valid.

(* reverse iteration (next_back) yields the labels backwards, root first *)
Theorem C01_rev_labels_valid : forall m p ls, valid_pn m p ls -> pn_len p <= 255 ->
  pname_rev_labels m p = Ok (rev (ls ++ [[]])).
Proof. exact rev_labels_valid. Qed.
Print Assumptions C01_rev_labels_valid.

(* as_flat_slice of a parsed name indexes within the parser's limit *)
Theorem C01_as_flat_slice_in_bounds : forall m pos lim p,
  parse_ref m pos lim = Ok p -> lim <= mlen m ->
  as_flat_slice m p = Ok (if pn_compressed p then None
                          else Some (slice m (pn_pos p) (pn_pos p + pn_len p))) /\
  (pn_compressed p = false -> pn_pos p + pn_len p <= lim).
Proof. exact as_flat_slice_in_bounds. Qed.
Print Assumptions C01_as_flat_slice_in_bounds.

(* all derived operations on every name parse_ref accepts: no panic, and they
   compute what the label list says (iter_suffixes has one suffix per label
   plus the root) *)
Theorem C01_name_ops_total : forall m pos lim p,
  parse_ref m pos lim = Ok p -> lim <= mlen m ->
  exists ls o, name_ops_of m p = Ok o /\ pname_labels m p = Ok (ls, true) /\
    no_rev o = rev (ls ++ [[]]) /\ no_split o = map wire_label ls /\
    length (no_suffixes o) = S (length ls) /\
    no_flat o = (if pn_compressed p then None else Some (slice m (pn_pos p) (pn_pos p + pn_len p))).
Proof. exact name_ops_total. Qed.
Print Assumptions C01_name_ops_total.

(* typed record data: for EVERY schema of the C05 language (hence every record
   type of its table and the opaque fallback), parsing out of the RDLENGTH
   sub-parser never panics *)
Theorem C01_typed_rdata_total : forall s m pos lim, lim <= mlen m ->
  no_panic (parse_rdata pname_dec s m pos lim).
Proof. exact parse_rdata_total. Qed.
Print Assumptions C01_typed_rdata_total.

(* XfrResponseInterpreter, first message: the dispatch is total (no unreachable!) *)
Theorem C01_xfr_first_total : forall m, has_header m -> no_panic (xfr_first m).
Proof. exact xfr_first_total. Qed.
Print Assumptions C01_xfr_first_total.

(* read-side calls in ANY order, iterator steps interleaved arbitrarily, on
   every octet string *)
Theorem C01_read_ops_total : forall m ops, no_panic (read_ops m ops).
Proof. exact read_ops_total. Qed.
Print Assumptions C01_read_ops_total.

(* ... and a message-level call returns the same whatever happened before *)
Theorem C01_calls_do_not_interfere : forall m st st' o,
  match o with OQNext _ | OQAnswer _ | ORNext _ | ORNextSection _ => False | _ => True end ->
  ofst (run_op m st o) = ofst (run_op m st' o).
Proof. exact run_op_state_independent. Qed.
Print Assumptions C01_calls_do_not_interfere.

Theorem C01_source_constants_peek : gen_matches_peek = true.
Proof. exact gen_matches_peek_ok. Qed.
Print Assumptions C01_source_constants_peek.

(* ---- widening round 2 ---- *)

(* typed data for any schema and any total name decoder; instances: IPSECKEY
   (rows by gateway type) and the contents of every EDNS option of the table *)
Theorem C01_typed_data_total_gen : forall dec s m pos lim, dec_total dec -> lim <= mlen m ->
  no_panic (parse_rdata dec s m pos lim).
Proof. exact parse_rdata_total_gen. Qed.
Print Assumptions C01_typed_data_total_gen.

Theorem C01_ipseckey_total : forall m pos lim, lim <= mlen m -> no_panic (ipseckey_parse m pos lim).
Proof. exact ipseckey_parse_total. Qed.
Print Assumptions C01_ipseckey_total.

Theorem C01_option_data_total : forall code d,
  no_panic (parse_rdata flat_dec (option_schema code) d 0 (len d)).
Proof. exact option_data_total. Qed.
Print Assumptions C01_option_data_total.

(* the dig printer: after a loop over a section that met no error,
   next_section() is Ok(Some(..)) -- the two .unwrap().unwrap() -- and after a
   clean question loop answer() is Ok -- the .unwrap() *)
Theorem C01_next_section_after_clean : forall m s l s',
  has_header m -> s_kind s < 3 -> s_err s = None ->
  drain (r_next m) (sec_fuel s) s [] = Ok (l, s') -> has_err l = false ->
  exists n, r_next_section m s = Ok (Some n) /\ s_kind n = s_kind s + 1 /\ s_err n = None.
Proof. exact next_section_after_clean. Qed.
Print Assumptions C01_next_section_after_clean.

Theorem C01_answer_after_clean : forall m qs l s',
  has_header m -> s_err qs = None ->
  drain (q_next m) (sec_fuel qs) qs [] = Ok (l, s') -> has_err l = false ->
  exists a, q_to_answer m qs = Ok a /\ s_kind a = 1 /\ s_err a = None.
Proof. exact answer_after_clean. Qed.
Print Assumptions C01_answer_after_clean.

(* the whole control flow of display_dig_style on every message *)
Theorem C01_dig_walk_total : forall m, has_header m -> no_panic (dig_walk m).
Proof. exact dig_walk_total. Qed.
Print Assumptions C01_dig_walk_total.

(* RecordIter for AllRecordData, ZoneRecordData and any single type, with or
   without the IN filter, from any iterator state *)
Theorem C01_limit_to_total : forall m s sl io, no_panic (limit_to m s sl io).
Proof. exact limit_to_total. Qed.
Print Assumptions C01_limit_to_total.

Theorem C01_copy_records_total : forall m, has_header m -> no_panic (copy_records_read m).
Proof. exact copy_records_read_total. Qed.
Print Assumptions C01_copy_records_total.

Theorem C01_get_last_additional_total : forall m, has_header m -> no_panic (get_last_additional m).
Proof. exact get_last_additional_total. Qed.
Print Assumptions C01_get_last_additional_total.

(* calls in any order, now including typed options, limit_to, copy_records,
   get_last_additional and the dig printer *)
Theorem C01_read_ops3_total : forall m ops, no_panic (read_ops3 m ops).
Proof. exact read_ops3_total. Qed.
Print Assumptions C01_read_ops3_total.

(* ---- widening round 3 ---- *)

(* display-time iteration over what the typed parser accepted *)
Theorem C01_bitmap_iter_total : forall d, rest_check KBitmap d = None -> exists l, bitmap_iter d = Ok l.
Proof. exact bitmap_iter_total. Qed.
Print Assumptions C01_bitmap_iter_total.

Theorem C01_bitmap_contains_total : forall d rtype, rest_check KBitmap d = None ->
  exists b, bitmap_contains d rtype = Ok b.
Proof. exact bitmap_contains_total. Qed.
Print Assumptions C01_bitmap_contains_total.

Theorem C01_txt_iter_total : forall d, txt_check d = true -> exists l, txt_iter d = Ok l.
Proof. exact txt_iter_total. Qed.
Print Assumptions C01_txt_iter_total.

Theorem C01_svc_value_total : forall key v, exists x, svc_value key v = Ok x.
Proof. exact svc_value_total. Qed.
Print Assumptions C01_svc_value_total.

Theorem C01_svc_display_total : forall d, rest_check KSvcParams d = None -> exists l, svc_display d = Ok l.
Proof. exact svc_display_total. Qed.
Print Assumptions C01_svc_display_total.

(* the premise of the three theorems above is discharged for every record a
   section iterator yields: whatever the typed parser (C05) accepted is walked
   without panic (NSEC / NSEC3 bitmaps, SVCB / HTTPS parameters, TXT strings) *)
Theorem C01_display_walk_total : forall m r, good_rr m (mlen m) r -> no_panic (display_walk m r).
Proof. exact display_walk_total. Qed.
Print Assumptions C01_display_walk_total.

Theorem C01_read_ops4_total : forall m ops, no_panic (read_ops4 m ops).
Proof. exact read_ops4_total. Qed.
Print Assumptions C01_read_ops4_total.

(* a traversal made after arbitrary earlier activity gives what it gives on a
   fresh view; hence a message traversed twice yields the same results *)
Theorem C01_traversal_independent_of_history : forall m st ops,
  ofst (run_ops4 m st (map (shift_op4 (length st)) ops)) = ofst (run_ops4 m [] ops).
Proof. exact traversal_independent_of_history. Qed.
Print Assumptions C01_traversal_independent_of_history.

Theorem C01_traversed_twice_same : forall m ops r st1,
  run_ops4 m [] ops = Ok (r, st1) ->
  ofst (run_ops4 m st1 (map (shift_op4 (length st1)) ops)) = Ok r.
Proof. exact traversed_twice_same. Qed.
Print Assumptions C01_traversed_twice_same.

Theorem C01_source_sites_display : gen_matches_display = true.
Proof. exact gen_matches_display_ok. Qed.
Print Assumptions C01_source_sites_display.

(* ---- round 5 ---- *)
Theorem C01_constructors_agree : forall m,
  Forall (fun b => b = (12 <=? mlen m)) (c01_ctor m) /\ length (c01_ctor m) = 7%nat.
Proof. exact constructors_agree. Qed.
Print Assumptions C01_constructors_agree.

(* ---- round 5 widening: bounds the section iterators keep ---- *)
Theorem C01_parse_ref_skip_agree : forall m pos lim p,
  parse_ref m pos lim = Ok p -> skip_name m pos lim = Ok (pn_end p).
Proof. exact parse_ref_skip_agree. Qed.
Print Assumptions C01_parse_ref_skip_agree.

Theorem C01_question_extent_within : forall m pos lim q,
  N.le lim (mlen m) -> question_parse m pos lim = Ok q ->
  q_end q = N.add (pn_end (q_name q)) 4%N /\ N.le (q_end q) lim /\ N.le (q_end q) (mlen m).
Proof. exact question_extent_within. Qed.
Print Assumptions C01_question_extent_within.

Theorem C01_section_yields_at_most_count : forall (A : Type) (parse : N -> outcome A) (endof : A -> N) fuel s l s',
  drain (sec_next parse endof) fuel s nil = Ok (l, s') -> s_err s = None ->
  le (length l) (N.to_nat (s_cnt s)) /\ has_err (List.removelast l) = false.
Proof. exact (@section_yields_at_most_count). Qed.
Print Assumptions C01_section_yields_at_most_count.

Theorem C01_section_fused_yields_nothing : forall (A : Type) (parse : N -> outcome A) (endof : A -> N) fuel s e l s',
  drain (sec_next parse endof) fuel s nil = Ok (l, s') -> s_err s = Some e -> l = nil /\ s' = s.
Proof. exact (@section_fused_yields_nothing). Qed.
Print Assumptions C01_section_fused_yields_nothing.

Theorem C01_question_iter_within : forall m fuel s l s',
  drain (q_next m) fuel s nil = Ok (l, s') -> N.le (s_pos s) (mlen m) ->
  N.le (s_pos s') (mlen m) /\ List.Forall (fun x => N.le (s_pos (snd x)) (mlen m)) l.
Proof. exact question_iter_within. Qed.
Print Assumptions C01_question_iter_within.

Theorem C01_record_iter_within : forall m fuel s l s',
  drain (r_next m) fuel s nil = Ok (l, s') -> N.le (s_pos s) (mlen m) ->
  N.le (s_pos s') (mlen m) /\ List.Forall (fun x => N.le (s_pos (snd x)) (mlen m)) l.
Proof. exact record_iter_within. Qed.
Print Assumptions C01_record_iter_within.

Theorem C01_sections_within : forall m q a ns ar,
  Proofs2.has_header m -> msg_sections m = Ok (q, a, ns, ar) ->
  s_pos q = header_len /\ N.le (s_pos q) (mlen m) /\ N.le (s_pos a) (mlen m) /\
  N.le (s_pos ns) (mlen m) /\ N.le (s_pos ar) (mlen m).
Proof. exact sections_within. Qed.
Print Assumptions C01_sections_within.
