(* C01 model, part 4 (widening round 3): the iteration that Display /
   ZonefileFmt / the accessors perform over typed record data AFTER the typed
   parser accepted it -- the "check once, then unwrap" pairs:
     rdata/dnssec.rs   RtypeBitmapIter::{new, advance, next}, RtypeBitmap::contains
                       (read_window(..).unwrap(), slice indexing)
     rdata/rfc1035/txt.rs  TxtCharStrIter::next (CharStr::parse_slice(..).unwrap())
     rdata/svcb/params.rs  Display / ZonefileFmt for SvcParams (three expects),
                           SvcParams::iter_raw (expect)
     rdata/svcb/value.rs   AllValues::parse_any (seek / parse_octets expects),
                           MandatoryIter, AlpnIter, Ipv4HintIter, Ipv6HintIter,
                           TlsSupportedGroupsIter (expects)
   All of them work on the octets of the sub-structure (a plain byte list).

   Sites (Panic n): 10 index / slice out of range, 13 unwrap / expect.      *)
From Coq Require Import Arith NArith List Bool.
From DV Require Import Base.Outcome Base.Bytes Base.Names Base.PName C01.Gen C01.Model C01.Model2 C01.Model3.
From DV Require Import C05.Schema C05.Model.
Import ListNotations.
Local Open Scope N_scope.

Definition idx (d : bytes) (i : N) : outcome N :=
  match nth_error d (N.to_nat i) with Some x => Ok x | None => Panic P_INDEX end.

(* &data[n..] *)
Definition from (d : bytes) (n : N) : outcome bytes :=
  if len d <? n then Panic P_INDEX else Ok (skipn (N.to_nat n) d).

(* ------------------------------------------------------------------------ *)
(* RtypeBitmapIter *)
Record bst := mkB { b_data : bytes; b_block : N; b_len : N; b_octet : N; b_bit : N }.

Definition bit_set (x bit : N) : bool := negb (N.land x (N.shiftr 128 bit) =? 0).

(* advance: loop until the next set bit or the end of the data *)
Fixpoint bm_advance (fuel : nat) (s : bst) : outcome bst :=
  match fuel with
  | O => OutOfFuel
  | S fuel' =>
      let bit := b_bit s + 1 in
      do r <- (if bit =? bitmap_bits then
                 let octet := b_octet s + 1 in
                 if octet =? b_len s then
                   do d <- from (b_data s) (b_len s);
                   match d with
                   | [] => Ok (mkB [] (b_block s) (b_len s) octet 0, true)          (* return *)
                   | _ =>
                       do n <- idx d 0; do l <- idx d 1; do d2 <- from d 2;
                       Ok (mkB d2 (n * 256) l 0 0, false)
                   end
                 else Ok (mkB (b_data s) (b_block s) (b_len s) octet 0, false)
               else Ok (mkB (b_data s) (b_block s) (b_len s) (b_octet s) bit, false));
      let '(s1, done) := r in
      if done then Ok s1 else
      do x <- idx (b_data s1) (b_octet s1);
      if bit_set x (b_bit s1) then Ok s1 else bm_advance fuel' s1
  end.

Definition bm_fuel (d : bytes) : nat := S (8 * S (length d)).

Definition bm_new (d : bytes) : outcome bst :=
  match d with
  | [] => Ok (mkB [] 0 0 0 0)
  | _ =>
      do d2 <- from d 2; do n <- idx d 0; do l <- idx d 1;
      let s := mkB d2 (n * 256) l 0 0 in
      do x <- idx d2 0;
      if N.land x 128 =? 0 then bm_advance (bm_fuel d) s else Ok s
  end.

(* next() until None *)
Fixpoint bm_collect (fuel : nat) (total : nat) (s : bst) (acc : list N) : outcome (list N) :=
  match fuel with
  | O => OutOfFuel
  | S fuel' =>
      match b_data s with
      | [] => Ok (rev acc)
      | _ =>
          let r := b_block s + b_octet s * 8 + b_bit s in      (* block | (octet << 3) | bit *)
          do s' <- bm_advance total s;
          bm_collect fuel' total s' (r :: acc)
      end
  end.

Definition bitmap_iter (d : bytes) : outcome (list N) :=
  do s <- bm_new d; bm_collect (bm_fuel d) (bm_fuel d) s [].

(* read_window(data).unwrap() *)
Definition read_window (d : bytes) : outcome (N * bytes * bytes) :=
  match d with
  | n :: l :: rest =>
      if len rest <? l then Panic P_UNWRAP
      else Ok (n, firstn (N.to_nat l) rest, skipn (N.to_nat l) rest)
  | _ => Panic P_UNWRAP
  end.

Fixpoint bm_contains (fuel : nat) (d : bytes) (rtype : N) : outcome bool :=
  match fuel with
  | O => OutOfFuel
  | S fuel' =>
      match d with
      | [] => Ok false
      | _ =>
          do w <- read_window d;
          let '(n, window, next) := w in
          if n =? rtype / 256 then
            let octet := (rtype mod 256) / 8 in
            match nth_error window (N.to_nat octet) with
            | None => Ok false                                       (* window.len() <= octet *)
            | Some x => Ok (bit_set x (rtype mod 8))
            end
          else bm_contains fuel' next rtype
      end
  end.
Definition bitmap_contains (d : bytes) (rtype : N) : outcome bool := bm_contains (S (length d)) d rtype.

(* ------------------------------------------------------------------------ *)
(* Txt: check_slice and TxtCharStrIter *)
Fixpoint txt_check_loop (fuel : nat) (d : bytes) : bool :=
  match fuel with
  | O => false
  | S fuel' =>
      match d with
      | [] => true
      | l :: rest => if len d <=? l then false else txt_check_loop fuel' (skipn (N.to_nat l) rest)
      end
  end.
Definition txt_check (d : bytes) : bool :=
  negb (len d =? 0) && (len d <=? 65535) && txt_check_loop (S (length d)) d.

(* CharStr::parse_slice(..).unwrap(): parse_u8, parse_octets(len) *)
Fixpoint txt_iter_loop (fuel : nat) (d : bytes) (acc : list bytes) : outcome (list bytes) :=
  match fuel with
  | O => OutOfFuel
  | S fuel' =>
      match d with
      | [] => Ok (rev acc)
      | l :: rest =>
          if len rest <? l then Panic P_UNWRAP
          else txt_iter_loop fuel' (skipn (N.to_nat l) rest) (firstn (N.to_nat l) rest :: acc)
      end
  end.
Definition txt_iter (d : bytes) : outcome (list bytes) := txt_iter_loop (S (length d)) d [].

(* ------------------------------------------------------------------------ *)
(* SvcParams *)
Inductive svcval :=
| VMandatory (l : list N) | VAlpn (l : list bytes) | VNoDefaultAlpn | VPort (p : N)
| VEch (b : bytes) | VIpv4 (l : list bytes) | VIpv6 (l : list bytes) | VDohPath (b : bytes)
| VOhttp | VGroups (l : list N) | VUnknownP (key : N) (b : bytes).

(* fixed-size items until the parser is empty, each taken with expect *)
Fixpoint chunks (fuel : nat) (k : nat) (d : bytes) (acc : list bytes) : outcome (list bytes) :=
  match fuel with
  | O => OutOfFuel
  | S fuel' =>
      match d with
      | [] => Ok (rev acc)
      | _ => if (length d <? k)%nat then Panic P_UNWRAP
             else chunks fuel' k (skipn k d) (firstn k d :: acc)
      end
  end.

Definition be_val (b : bytes) : N := fold_left (fun a x => a * 256 + x) b 0.

(* Alpn::check_slice *)
Fixpoint alpn_check (fuel : nat) (d : bytes) : bool :=
  match fuel with
  | O => false
  | S fuel' =>
      match d with
      | [] => true
      | l :: rest => if len rest <? l then false else alpn_check fuel' (skipn (N.to_nat l) rest)
      end
  end.

(* AlpnIter: u8::parse(..).expect, parse_octets(len).expect *)
Definition alpn_iter (d : bytes) : outcome (list bytes) := txt_iter_loop (S (length d)) d [].

(* AllValues::parse_any followed by what Display does with the value *)
Definition svc_value (key : N) (v : bytes) : outcome svcval :=
  let long := 65535 <? len v in
  if key =? 0 then
    if negb long && Nat.even (length v)
    then do l <- chunks (S (length v)) 2 v []; Ok (VMandatory (map be_val l))
    else Ok (VUnknownP key v)
  else if key =? 1 then
    if negb long && alpn_check (S (length v)) v
    then do l <- alpn_iter v; Ok (VAlpn l)
    else Ok (VUnknownP key v)
  else if key =? 2 then Ok VNoDefaultAlpn
  else if key =? 3 then
    match v with a :: b :: _ => Ok (VPort (a * 256 + b)) | _ => Ok (VUnknownP key v) end
  else if key =? 5 then (if long then Ok (VUnknownP key v) else Ok (VEch v))
  else if key =? 4 then
    if negb long && (length v mod 4 =? 0)%nat
    then do l <- chunks (S (length v)) 4 v []; Ok (VIpv4 l)
    else Ok (VUnknownP key v)
  else if key =? 6 then
    if negb long && (length v mod 16 =? 0)%nat
    then do l <- chunks (S (length v)) 16 v []; Ok (VIpv6 l)
    else Ok (VUnknownP key v)
  else if key =? 7 then (if long then Ok (VUnknownP key v) else Ok (VDohPath v))
  else if key =? 8 then Ok VOhttp
  else if key =? 9 then
    if negb long && negb (length v =? 0)%nat && Nat.even (length v)
    then do l <- chunks (S (length v)) 2 v []; Ok (VGroups (map be_val l))
    else Ok (VUnknownP key v)
  else Ok (VUnknownP key v).

(* Display / ZonefileFmt for SvcParams: key, length and the sub-parser are
   taken with expect *)
Fixpoint svc_walk (fuel : nat) (d : bytes) (acc : list svcval) : outcome (list svcval) :=
  match fuel with
  | O => OutOfFuel
  | S fuel' =>
      match d with
      | [] => Ok (rev acc)
      | k1 :: k2 :: rest =>
          match rest with
          | l1 :: l2 :: rest' =>
              let l := l1 * 256 + l2 in
              if len rest' <? l then Panic P_UNWRAP                         (* parse_parser(len).expect *)
              else
                do x <- svc_value (k1 * 256 + k2) (firstn (N.to_nat l) rest');
                svc_walk fuel' (skipn (N.to_nat l) rest') (x :: acc)
          | _ => Panic P_UNWRAP                                              (* u16::parse(..).expect *)
          end
      | _ => Panic P_UNWRAP                                                  (* SvcParamKey::parse(..).expect *)
      end
  end.
Definition svc_display (d : bytes) : outcome (list svcval) := svc_walk (S (length d)) d [].

(* ------------------------------------------------------------------------ *)
(* which walk the display of a parsed record performs *)
Inductive walk_obs :=
| WNone                       (* nothing that iterates a checked structure *)
| WBitmap (l : list N) (c : list bool)   (* types().iter(), contains() of a few probe types *)
| WSvc (l : list svcval)
| WTxt (l : list bytes)
| WErr.                       (* the typed parser refused the data: nothing is displayed *)

Definition probe_types : list N := [1; 2; 46; 47; 256; 65535].
Fixpoint contains_all (d : bytes) (ts : list N) : outcome (list bool) :=
  match ts with
  | [] => Ok []
  | t :: ts' => do b <- bitmap_contains d t; do rest <- contains_all d ts'; Ok (b :: rest)
  end.

Definition last_bytes (v : value) : bytes :=
  match last v (VNum 0) with VBytes b => b | _ => [] end.

Definition display_walk (m : bytes) (r : rr) : outcome walk_obs :=
  if mlen m - rr_data r <? rr_rdlen r then Ok WErr else
  let lim := rr_data r + rr_rdlen r in
  let t := rr_type r in
  if (t =? 47) || (t =? 50) || (t =? 64) || (t =? 65) || (t =? 16) then
    match schema_of t with
    | None => Ok WNone
    | Some s =>
        match parse_rdata pname_dec s m (rr_data r) lim with
        | Err _ => Ok WErr
        | Panic p => Panic p
        | OutOfFuel => OutOfFuel
        | Ok v =>
            if t =? 16 then do l <- txt_iter (slice m (rr_data r) lim); Ok (WTxt l)
            else if (t =? 47) || (t =? 50) then
              do l <- bitmap_iter (last_bytes v); do c <- contains_all (last_bytes v) probe_types; Ok (WBitmap l c)
            else do l <- svc_display (last_bytes v); Ok (WSvc l)
        end
    end
  else Ok WNone.

Fixpoint display_all (m : bytes) (l : list (item (N * rr))) : outcome (list walk_obs) :=
  match l with
  | [] => Ok []
  | IOk (_, r) :: t => do x <- display_walk m r; do rest <- display_all m t; Ok (x :: rest)
  | IErr _ :: t => display_all m t
  end.

Definition message_display (m : bytes) : outcome (list walk_obs) :=
  do it <- message_iter m; display_all m it.

(* the call machine with the display walk added *)
Inductive op4 := O3 (o : op3) | ODisplay.
Inductive res4 := R3 (r : res3) | RDisplay (l : list walk_obs).

Definition run_op4 (m : bytes) (st : list sect) (o : op4) : outcome (res4 * list sect) :=
  match o with
  | O3 o' => do r <- run_op3 m st o'; Ok (R3 (fst r), snd r)
  | ODisplay => do l <- message_display m; Ok (RDisplay l, st)
  end.

Fixpoint run_ops4 (m : bytes) (st : list sect) (ops : list op4) : outcome (list res4 * list sect) :=
  match ops with
  | [] => Ok ([], st)
  | o :: t =>
      do r <- run_op4 m st o;
      do rest <- run_ops4 m (snd r) t;
      Ok (fst r :: fst rest, snd rest)
  end.

Definition read_ops4 (m : bytes) (ops : list op4) : outcome (option (list res4)) :=
  if negb (from_octets_ok m) then Ok None
  else do r <- run_ops4 m [] ops; Ok (Some (fst r)).

(* a second traversal, made after arbitrary earlier activity: the same calls
   with the iterator numbers shifted past the iterators that already exist *)
Definition shift_op (k : nat) (o : op) : op :=
  match o with
  | OQNext i => OQNext (k + i) | OQAnswer i => OQAnswer (k + i)
  | ORNext i => ORNext (k + i) | ORNextSection i => ORNextSection (k + i)
  | other => other
  end.
Definition shift_op3 (k : nat) (o : op3) : op3 :=
  match o with
  | O2 o' => O2 (shift_op k o')
  | OLimit i c => OLimit (k + i) c
  | other => other
  end.
Definition shift_op4 (k : nat) (o : op4) : op4 :=
  match o with O3 o' => O3 (shift_op3 k o') | ODisplay => ODisplay end.

(* every constructor over raw octets (from_octets, from_slice, try_from_octets,
   for &[u8] / Vec<u8> / Bytes) accepts exactly what Message::check_slice
   accepts: at least header_len octets *)
Definition c01_ctor (m : bytes) : list bool :=
  repeat (from_octets_ok m) (N.to_nat (checking_constructors + 4)).
