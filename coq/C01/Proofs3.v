(* C01 proofs, part 3: the slice label iterator yields finitely many labels for
   every slice and start; observation helpers; read_all is total; the error
   fuse; record extents; parse accepts => skip accepts with the same extent. *)
From Coq Require Import NArith List Bool Lia ZArith.
From Coq Require Import ZifyN ZifyBool ZifyNat.
From DV Require Import Base.Outcome Base.Bytes Base.Names Base.PName C01.Gen C01.Model C01.Proofs C01.Proofs2.
Import ListNotations.
Local Open Scope N_scope.
Ltac Zify.zify_post_hook ::= Z.div_mod_to_equations.

Ltac ssat := cbn [sat bind fst snd no_panic item_ok].

(* ------------------------------------------------------ SliceLabelsIter *)
Lemma split_from_ok m start : start <= mlen m ->
  exists s, split_from m start = Ok s /\
    match s with
    | SLabel l => start + 1 + N.of_nat (length l) <= mlen m
    | _ => True
    end.
Proof.
  intros Hs. unfold split_from.
  destruct (N.ltb_spec (mlen m) start) as [H|H]; [lia|].
  destruct (get m start) as [h|] eqn:Eh; [|eexists; split; [reflexivity|exact I]].
  destruct (N.leb_spec h sf_normal_max) as [H1|H1].
  - destruct (N.ltb_spec (mlen m - start) (h + 1)) as [H2|H2]; [eexists; split; [reflexivity|exact I]|].
    eexists; split; [reflexivity|]. cbv beta iota. rewrite slice_length by lia. lia.
  - destruct ((sf_ext_min <=? h) && (h <=? sf_ext_max)); [eexists; split; [reflexivity|exact I]|].
    destruct ((sf_ptr_min <=? h) && (h <=? sf_ptr_max)); [|eexists; split; [reflexivity|exact I]].
    destruct (N.ltb_spec (mlen m - start) sf_ptr_need) as [H2|H2]; [eexists; split; [reflexivity|exact I]|].
    unfold sf_ptr_need in H2.
    destruct (get_some m (start + 1)) as [c Hc]; [lia|]. rewrite Hc.
    eexists; split; [reflexivity|exact I].
Qed.

Lemma sl_walk_ok : forall fuel m start entry acc,
  start <= mlen m -> (N.to_nat (mlen m - start) < fuel)%nat ->
  exists acc' e, sl_walk fuel m start entry acc = Ok (acc', e).
Proof.
  induction fuel as [|fuel IH]; intros m start entry acc Hs Hf; [lia|].
  cbn [sl_walk].
  destruct (entry && (mlen m <=? start)); [eauto|].
  destruct (split_from_ok m start Hs) as [s [Es Hsp]]. rewrite Es. cbn [bind].
  destruct s as [l|p|]; [|eauto|eauto].
  destruct (Nat.eqb (length l) 0) eqn:El; [eauto|].
  apply Nat.eqb_neq in El. apply IH; lia.
Qed.

Lemma sl_segments_ok : forall fuel m start segment entry acc,
  start <= mlen m -> segment <= mlen m -> (N.to_nat segment < fuel)%nat ->
  exists ls, sl_segments fuel m start segment entry acc = Ok ls.
Proof.
  induction fuel as [|fuel IH]; intros m start segment entry acc Hs Hg Hf; [lia|].
  cbn [sl_segments].
  destruct (sl_walk_ok (S (length m)) m start entry acc Hs) as [acc' [e Ew]]; [unfold mlen; lia|].
  rewrite Ew. cbn [bind].
  destruct e as [|pos cur]; [eauto|].
  unfold sl_reject, sl_check_segment, sl_reject_ge, sl_updates_segment.
  destruct (N.leb_spec segment pos) as [Hr|Hr]; [eauto|].
  apply IH; lia.
Qed.

(* Label::iter_slice yields a finite list of labels for every slice and every
   start position: no panic, no endless stream *)
Theorem iter_slice_finite m start : exists ls, iter_slice m start = Ok ls.
Proof.
  unfold iter_slice. destruct (N.leb_spec (mlen m) start) as [H|H]; [eauto|].
  apply sl_segments_ok; lia.
Qed.

Example iter_slice_self_pointer : iter_slice [192; 0] 0 = Ok [].
Proof. vm_compute. reflexivity. Qed.
Example iter_slice_cycle : iter_slice [0; 0; 1; 120; 192; 2] 2 = Ok [[120]].
Proof. vm_compute. reflexivity. Qed.
Example iter_slice_backwards :
  iter_slice [3;99;111;109;0;3;119;119;119;192;0] 5 = Ok [[119;119;119]; [99;111;109]; []].
Proof. vm_compute. reflexivity. Qed.

(* ------------------------------------------------------------ observations *)
Definition good_q (m : bytes) (q : question) : Prop := good_name m (q_name q).

Lemma q_events_sat m : forall l,
  Forall (fun x : item question * sect => item_ok (good_q m) (fst x)) l ->
  sat (q_events m l) (fun _ => True).
Proof.
  induction l as [|[it s'] t IH]; intros H; cbn [q_events]; [exact I|].
  inversion H as [|x l' Hx Ht]; subst. cbn [fst] in Hx.
  destruct it as [q|e].
  - eapply sat_bind; [apply observe_name_sat; exact Hx|]. intros o _.
    eapply sat_bind; [apply IH; exact Ht|]. intros rest _. exact I.
  - eapply sat_bind.
    { unfold q_next. apply (fused_sat _ q_end (good_q m)). intros pos. apply question_parse_sat. lia. }
    intros f _. eapply sat_bind; [apply IH; exact Ht|]. intros rest _. exact I.
Qed.

Lemma r_events_sat m : forall l before,
  Forall (fun x : item rr * sect => item_ok (good_rr m (mlen m)) (fst x)) l ->
  sat (r_events m before l) (fun _ => True).
Proof.
  induction l as [|[it s'] t IH]; intros before H; cbn [r_events]; [exact I|].
  inversion H as [|x l' Hx Ht]; subst. cbn [fst] in Hx.
  destruct it as [r|e].
  - destruct Hx as [Hx _].
    eapply sat_bind; [apply observe_name_sat; exact Hx|]. intros o _.
    eapply sat_bind; [apply IH; exact Ht|]. intros rest _. exact I.
  - eapply sat_bind.
    { unfold r_next. apply (fused_sat _ rr_end (good_rr m (mlen m))). intros pos. apply record_parse_sat. lia. }
    intros f _. eapply sat_bind; [apply IH; exact Ht|]. intros rest _. exact I.
Qed.

Lemma section_view_sat m (sec : outcome sect) P : sat sec P -> sat (section_view m sec) (fun _ => True).
Proof.
  intros Hs. unfold section_view. destruct sec as [s|e| |]; ssat; cbn [sat] in Hs; try contradiction; [|exact I].
  eapply sat_bind; [apply drain_r_next_sat|]. intros r [Hr _].
  eapply sat_bind; [apply r_events_sat; exact Hr|]. intros evs _. exact I.
Qed.

Lemma lift_err_sat {A} (x : outcome A) P : sat x P -> sat (lift_err x) (item_ok P).
Proof. destruct x; cbn; auto. Qed.

Lemma q_view_sat m q : good_q m q -> sat (q_view m q) (fun _ => True).
Proof.
  intros H. unfold q_view. eapply sat_bind; [apply observe_name_sat; exact H|]. intros o _. exact I.
Qed.

(* ------------------------------------------------------------------ read_all *)
Theorem read_all_total m : no_panic (read_all m).
Proof.
  apply (sat_no_panic _ (fun _ => True)). unfold read_all.
  destruct (from_octets_ok m) eqn:Eh; cbn [negb]; [|exact I].
  assert (Hh : has_header m) by (unfold from_octets_ok in Eh; unfold has_header; lia).
  destruct (count_offsets m Hh) as [Hqd [Han [Hns Har]]].
  eapply sat_bind; [apply count_at_sat; exact Hqd|]. intros qd _.
  eapply sat_bind; [apply count_at_sat; exact Han|]. intros an _.
  eapply sat_bind; [apply count_at_sat; exact Hns|]. intros ns _.
  eapply sat_bind; [apply count_at_sat; exact Har|]. intros ar _.
  eapply sat_bind; [apply question_section_sat; exact Hh|]. intros qs _.
  eapply sat_bind; [apply drain_q_next_sat|]. intros qr Hqr. cbv beta in Hqr.
  eapply sat_bind; [apply q_events_sat; exact Hqr|]. intros qev _.
  eapply sat_bind; [eapply section_view_sat; apply msg_answer_sat; exact Hh|]. intros v_an _.
  eapply sat_bind; [eapply section_view_sat; apply msg_authority_sat; exact Hh|]. intros v_ns _.
  eapply sat_bind; [eapply section_view_sat; apply msg_additional_sat; exact Hh|]. intros v_ar _.
  eapply sat_bind; [apply lift_err_sat; apply msg_sections_sat; exact Hh|]. intros secs _.
  cbv zeta.
  eapply sat_bind; [apply first_question_sat; exact Hh|]. intros fq Hfq. cbv beta in Hfq.
  eapply sat_bind.
  { instantiate (1 := fun _ => True). destruct fq as [q|]; [|exact I].
    eapply sat_bind; [apply q_view_sat; exact Hfq|]. intros v _. exact I. }
  intros fqv _.
  eapply sat_bind; [apply lift_err_sat; apply sole_question_sat; exact Hh|]. intros sq Hsq. cbv beta in Hsq.
  eapply sat_bind.
  { instantiate (1 := fun _ => True). destruct sq as [q|e]; [|exact I].
    eapply sat_bind; [apply q_view_sat; exact Hsq|]. intros v _. exact I. }
  intros sqv _.
  eapply sat_bind; [apply is_answer_sat; exact Hh|]. intros self _.
  eapply sat_bind; [apply message_iter_sat; exact Hh|]. intros it _.
  eapply sat_bind; [apply canonical_name_sat; exact Hh|]. intros cn Hcn. cbv beta in Hcn.
  eapply sat_bind.
  { instantiate (1 := fun _ => True). destruct cn as [p|]; [|exact I].
    eapply sat_bind; [apply observe_name_sat; exact Hcn|]. intros v _. exact I. }
  intros cnv _.
  eapply sat_bind; [apply msg_opt_sat; exact Hh|]. intros op _.
  eapply sat_bind.
  { instantiate (1 := fun _ => True). destruct (iter_slice_finite m header_len) as [ls E]. rewrite E. exact I. }
  intros sl _. exact I.
Qed.

Example read_all_short : read_all [1;2;3] = Ok None.
Proof. vm_compute. reflexivity. Qed.

(* a 12 octet header with QDCOUNT=1 and nothing else: the question fails with
   ShortInput, everything else is an error value, nothing panics *)
Example read_all_example :
  match read_all [0;7;128;0; 0;1; 0;0; 0;0; 0;0] with
  | Ok (Some o) => o_questions o = [EvErr E_SHORT true] /\ o_answer o = IErr E_SHORT /\
                   o_first o = None /\ o_sole o = IErr E_SHORT /\ o_canonical o = None
  | _ => False
  end.
Proof. vm_compute. repeat split. Qed.

(* ------------------------------------------------------- the error fuse *)
(* after next has returned an error every later next returns None and leaves
   the state unchanged; this is what makes `while next().is_some()` and
   next_section terminate on malformed input *)
Theorem fuse_after_error {A} (parse : N -> outcome A) (endof : A -> N) s e s' :
  sec_next parse endof s = Ok (Some (IErr e), s') ->
  s_err s' = Some e /\ sec_next parse endof s' = Ok (None, s').
Proof.
  unfold sec_next. destruct (s_err s) as [e0|] eqn:E0; [discriminate|].
  destruct (0 <? s_cnt s); [|discriminate].
  destruct (parse (s_pos s)) as [a|e1| |]; try discriminate.
  intros H. inversion H; subst. cbn [s_err]. split; reflexivity.
Qed.

(* and it stays that way: a fused iterator returns None without touching its
   state, so any number of further calls return None *)
Theorem fuse_sticky {A} (parse : N -> outcome A) (endof : A -> N) st e :
  s_err st = Some e -> sec_next parse endof st = Ok (None, st).
Proof. intros H. unfold sec_next. rewrite H. reflexivity. Qed.

Example fuse_example :
  let m := [0;7;128;0; 0;2; 0;0; 0;0; 0;0; 64] in
  let s' := mkSect 12 2 (Some E_BADLABEL) 0 in
  q_next m (mkSect 12 2 None 0) = Ok (Some (IErr E_BADLABEL), s') /\
  q_next m s' = Ok (None, s').
Proof. split; vm_compute; reflexivity. Qed.

(* ------------------------------------------------------- record extents *)
Theorem record_extent_within m pos lim r :
  lim <= mlen m -> record_parse m pos lim = Ok r ->
  rr_data r + rr_rdlen r = rr_end r /\ rr_end r <= lim /\ rr_end r <= mlen m.
Proof.
  intros Hl H. pose proof (record_parse_sat m pos lim Hl) as Hs. rewrite H in Hs.
  cbn [sat] in Hs. destruct Hs as [_ [H1 H2]]. lia.
Qed.

Example record_extent_example :
  match record_parse [0; 0;1; 0;1; 0;0;0;9; 0;2; 7;7] 0 13 with
  | Ok r => rr_data r = 11 /\ rr_end r = 13
  | _ => False
  end.
Proof. vm_compute. split; reflexivity. Qed.

(* --------------------------- what parse accepts, skip accepts (same extent) *)
(* The dig printer and sections() first iterate with parse and then call
   next_section (skip) and unwrap the result. *)
Lemma parse_labels_end_some : forall fuel m lim cur nl start c e p,
  parse_labels fuel m lim cur nl start c (Some e) = Ok p -> pn_end p = e.
Proof.
  induction fuel as [|fuel IH]; intros m lim cur nl start c e p H; [discriminate|].
  cbn [parse_labels] in H.
  destruct (label_type_parse m cur lim) as [[r cur']| | |]; try discriminate.
  destruct r as [l|ptr].
  - destruct (l =? 0); [inversion H; reflexivity|].
    destruct (lim - cur' <? l); [discriminate|].
    destruct (255 <=? nl + l + 1); [discriminate|]. eapply IH; exact H.
  - destruct (hops (S (S (N.to_nat ptr))) m lim ptr cur') as [tgt| | |]; cbn [bind] in H; try discriminate.
    destruct (nl =? 0); eapply IH; exact H.
Qed.

Lemma parse_then_skip : forall fuel m lim cur nl start c p,
  nl <= 254 -> parse_labels fuel m lim cur nl start c None = Ok p ->
  skip_labels fuel m lim cur nl = Ok (pn_end p).
Proof.
  induction fuel as [|fuel IH]; intros m lim cur nl start c p Hnl H; [discriminate|].
  cbn [parse_labels] in H. cbn [skip_labels].
  destruct (label_type_parse m cur lim) as [[r cur']| | |]; try discriminate.
  destruct r as [l|ptr].
  - destruct (N.eqb_spec l 0).
    + inversion H; subst p. cbn [pn_end]. destruct (N.ltb_spec 255 (nl + 1)); [lia|reflexivity].
    + destruct (lim - cur' <? l); [discriminate|].
      destruct (N.leb_spec 255 (nl + l + 1)); [discriminate|].
      destruct (N.ltb_spec 255 (nl + l + 1)); [lia|].
      eapply IH; [lia|exact H].
  - destruct (hops (S (S (N.to_nat ptr))) m lim ptr cur') as [tgt| | |]; cbn [bind] in H; try discriminate.
    destruct (nl =? 0); apply parse_labels_end_some in H; rewrite H; reflexivity.
Qed.

Theorem parse_accepts_skip_accepts m pos lim r :
  record_parse m pos lim = Ok r -> record_skip m pos lim = Ok (rr_end r).
Proof.
  unfold record_parse, record_skip. intros H.
  destruct (parse_ref m pos lim) as [p| | |] eqn:Ep; cbn [bind] in H; try discriminate.
  rewrite parse_ref_eq in Ep. apply parse_then_skip in Ep; [|lia].
  rewrite skip_name_eq, Ep. cbn [bind]. cbv zeta in H.
  unfold u16_at, u32_at, rr_fixed_skip in *.
  destruct (N.ltb_spec (lim - pn_end p) 2); cbn [bind] in H; [discriminate|].
  destruct (get m (pn_end p)); [|discriminate]. destruct (get m (pn_end p + 1)); cbn [bind] in H; [|discriminate].
  destruct (N.ltb_spec (lim - (pn_end p + 2)) 2); cbn [bind] in H; [discriminate|].
  destruct (get m (pn_end p + 2)); [|discriminate]. destruct (get m (pn_end p + 2 + 1)); cbn [bind] in H; [|discriminate].
  destruct (N.ltb_spec (lim - (pn_end p + 4)) 4); cbn [bind] in H; [discriminate|].
  destruct (get m (pn_end p + 4)); [|discriminate]. destruct (get m (pn_end p + 4 + 1)); [|discriminate].
  destruct (get m (pn_end p + 4 + 2)); [|discriminate]. destruct (get m (pn_end p + 4 + 3)); cbn [bind] in H; [|discriminate].
  destruct (N.ltb_spec (lim - (pn_end p + 8)) 2); cbn [bind] in H; [discriminate|].
  destruct (get m (pn_end p + 8)) as [a|]; [|discriminate]. destruct (get m (pn_end p + 8 + 1)) as [b|]; cbn [bind] in H; [|discriminate].
  destruct (N.ltb_spec (lim - pn_end p) 8); [lia|]. cbn [bind].
  replace (pn_end p + 8 + 2) with (pn_end p + 10) by lia.
  destruct (lim - (pn_end p + 10) <? a * 256 + b); [discriminate|].
  inversion H; subst r. reflexivity.
Qed.

Example parse_skip_example :
  record_skip [1;97;0; 0;1; 0;1; 0;0;0;9; 0;2; 7;7] 0 15 = Ok 15.
Proof. vm_compute. reflexivity. Qed.
