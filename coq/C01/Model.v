(* C01 model: the read side of base/message.rs, question.rs, record.rs,
   name/parsed.rs (through Base/PName.v), name/label.rs (slice label iterator),
   opt/mod.rs (option framing).

   Positions, lengths and counts are N.  A parser is a pair (pos, lim) over the
   message m; `lim` is Parser::len.  Rust panics are explicit Panic results,
   loops that are not structurally bounded run on fuel.

   Sites (Panic n):  10 slice index out of bounds (P_INDEX)
                     11 ParsedNameIter::get_label panic!("bad label")
                     12 u16 underflow in ParsedNameIter::get_label
                     13 Option::unwrap on None / Result::unwrap on Err
                     14 u16/u32 arithmetic overflow (debug build)
                     15 slice start beyond the end (&slice[start..])            *)
From Coq Require Import NArith List Bool.
From DV Require Import Base.Outcome Base.Bytes Base.Names Base.PName C01.Gen.
Import ListNotations.
Local Open Scope N_scope.

Definition E_TRAILING : N := 5.
Definition E_NOQUESTION : N := 6.
Definition E_MULTIQ : N := 7.
Definition P_UNWRAP : N := 13.
Definition P_OVERFLOW : N := 14.
Definition P_SLICE_START : N := 15.

(* ------------------------------------------------------------------------ *)
(* The pointer expression of LabelType::parse / get_label / split_from:
   `low | ((head & mask) << shift)` on machine integers.                      *)
Definition ptr_bits (mask shift head low : N) : N :=
  N.lor low (N.shiftl (N.land head mask) shift).

(* ------------------------------------------------------------------------ *)
(* Parser::parse_u16_be / parse_u32_be at position pos of a parser with limit
   lim (parse_buf: advance(n)? then copy octets[pos..pos+n]).                 *)
Definition u16_at (m : bytes) (pos lim : N) : outcome N :=
  if lim - pos <? 2 then Err E_SHORT else
  match get m pos, get m (pos + 1) with
  | Some a, Some b => Ok (a * 256 + b)
  | _, _ => Panic P_INDEX
  end.

Definition u32_at (m : bytes) (pos lim : N) : outcome N :=
  if lim - pos <? 4 then Err E_SHORT else
  match get m pos, get m (pos + 1), get m (pos + 2), get m (pos + 3) with
  | Some a, Some b, Some c, Some d => Ok (((a * 256 + b) * 256 + c) * 256 + d)
  | _, _, _, _ => Panic P_INDEX
  end.

(* ------------------------------------------------------------------------ *)
(* Question::parse *)
Record question := mkQ { q_name : pname; q_type : N; q_class : N; q_end : N }.

Definition question_parse (m : bytes) (pos lim : N) : outcome question :=
  do p <- parse_ref m pos lim;
  do ty <- u16_at m (pn_end p) lim;
  do cl <- u16_at m (pn_end p + 2) lim;
  Ok (mkQ p ty cl (pn_end p + 4)).

(* RecordHeader::parse_ref followed by ParsedRecord::parse's advance(rdlen).
   rr_data is the position of the record data, rr_end the position behind it. *)
Record rr := mkRR { rr_owner : pname; rr_type : N; rr_class : N; rr_ttl : N;
                    rr_rdlen : N; rr_data : N; rr_end : N }.

Definition record_parse (m : bytes) (pos lim : N) : outcome rr :=
  do p <- parse_ref m pos lim;
  let e := pn_end p in
  do ty <- u16_at m e lim;
  do cl <- u16_at m (e + 2) lim;
  do ttl <- u32_at m (e + 4) lim;
  do rdlen <- u16_at m (e + 8) lim;
  let d := e + 10 in
  if lim - d <? rdlen then Err E_SHORT
  else Ok (mkRR p ty cl ttl rdlen d (d + rdlen)).

(* ParsedRecord::skip = RecordHeader::parse_rdlen (ParsedName::skip, advance
   over type+class+ttl, u16) + advance(rdlen) *)
Definition record_skip (m : bytes) (pos lim : N) : outcome N :=
  do e <- skip_name m pos lim;
  if lim - e <? rr_fixed_skip then Err E_SHORT else
  do rdlen <- u16_at m (e + rr_fixed_skip) lim;
  let d := e + rr_fixed_skip + 2 in
  if lim - d <? rdlen then Err E_SHORT else Ok (d + rdlen).

(* ------------------------------------------------------------------------ *)
(* Header counts: HeaderCounts::for_message_slice(..).xxcount(); the message
   view exists only for slices of at least header_len octets.               *)
Definition count_at (m : bytes) (off : N) : outcome N :=
  match get m off, get m (off + 1) with
  | Some a, Some b => Ok (a * 256 + b)
  | _, _ => Panic P_INDEX
  end.

Definition from_octets_ok (m : bytes) : bool := header_len <=? mlen m.

(* ------------------------------------------------------------------------ *)
(* Section iterators.  count: Result<u16, ParseError> is (s_cnt, s_err):
   Ok s_cnt when s_err = None, Err e when s_err = Some e.
   s_kind: 0 question, 1 answer, 2 authority, 3 additional.                  *)
Record sect := mkSect { s_pos : N; s_cnt : N; s_err : option N; s_kind : N }.

Inductive item (A : Type) : Type := IOk (a : A) | IErr (e : N).
Arguments IOk {A} a.
Arguments IErr {A} e.

(* generic `next`: match self.count { Ok(c) if c > 0 => parse.. , _ => None } *)
Definition sec_next {A} (parse : N -> outcome A) (endof : A -> N) (s : sect)
  : outcome (option (item A) * sect) :=
  match s_err s with
  | Some _ => Ok (None, s)
  | None =>
      if 0 <? s_cnt s then
        match parse (s_pos s) with
        | Ok a => Ok (Some (IOk a), mkSect (endof a) (s_cnt s - 1) None (s_kind s))
        | Err e => Ok (Some (IErr e), mkSect (s_pos s) (s_cnt s) (Some e) (s_kind s))
        | Panic p => Panic p
        | OutOfFuel => OutOfFuel
        end
      else Ok (None, s)
  end.

Definition q_next (m : bytes) := sec_next (fun pos => question_parse m pos (mlen m)) q_end.
Definition r_next (m : bytes) := sec_next (fun pos => record_parse m pos (mlen m)) rr_end.
Definition r_skip_next (m : bytes) := sec_next (fun pos => record_skip m pos (mlen m)) (fun e : N => e).

(* run an iterator to exhaustion (the `while self.next().is_some() {}` and
   `for item in section` loops); fuel counts calls of next. *)
Fixpoint drain {A} (next : sect -> outcome (option (item A) * sect)) (fuel : nat)
         (s : sect) (acc : list (item A * sect)) : outcome (list (item A * sect) * sect) :=
  match fuel with
  | O => OutOfFuel
  | S fuel' =>
      do r <- next s;
      match r with
      | (None, s') => Ok (rev acc, s')
      | (Some it, s') => drain next fuel' s' ((it, s') :: acc)
      end
  end.

(* enough for a u16 count: at most count items plus the final None *)
Definition sec_fuel (s : sect) : nat := S (S (N.to_nat (s_cnt s))).

(* QuestionSection::new *)
Definition question_section (m : bytes) : outcome sect :=
  do c <- count_at m qd_off;
  Ok (mkSect header_len c None 0).

(* Section::count *)
Definition kind_off (k : N) : N :=
  if k =? 1 then an_off else if k =? 2 then ns_off else ar_off.

(* RecordSection::new(parser, section) *)
Definition record_section (m : bytes) (pos : N) (k : N) : outcome sect :=
  do c <- count_at m (kind_off k);
  Ok (mkSect pos c None k).

(* QuestionSection::answer / next_section *)
Definition q_to_answer (m : bytes) (s : sect) : outcome sect :=
  do r <- drain (q_next m) (sec_fuel s) s [];
  let s' := snd r in
  match s_err s' with
  | Some e => Err e
  | None => record_section m (s_pos s') 1
  end.

(* RecordSection::next_section: Ok(None) for the additional section *)
Definition r_next_section (m : bytes) (s : sect) : outcome (option sect) :=
  if 3 <=? s_kind s then Ok None else
  do r <- drain (r_skip_next m) (sec_fuel s) s [];
  let s' := snd r in
  match s_err s' with
  | Some e => Err e
  | None => do n <- record_section m (s_pos s') (s_kind s + 1); Ok (Some n)
  end.

Definition unwrap_opt {A} (x : option A) : outcome A :=
  match x with Some a => Ok a | None => Panic P_UNWRAP end.

(* Message::answer / authority / additional / sections *)
Definition msg_answer (m : bytes) : outcome sect :=
  do q <- question_section m; q_to_answer m q.
Definition msg_authority (m : bytes) : outcome sect :=
  do a <- msg_answer m; do o <- r_next_section m a; unwrap_opt o.
Definition msg_additional (m : bytes) : outcome sect :=
  do a <- msg_authority m; do o <- r_next_section m a; unwrap_opt o.
Definition msg_sections (m : bytes) : outcome (sect * sect * sect * sect) :=
  do q <- question_section m;
  do a <- q_to_answer m q;
  do o1 <- r_next_section m a; do ns <- unwrap_opt o1;
  do o2 <- r_next_section m ns; do ar <- unwrap_opt o2;
  Ok (q, a, ns, ar).

(* Message::first_question: None | Some(Err) => None *)
Definition first_question (m : bytes) : outcome (option question) :=
  do q <- question_section m;
  do r <- q_next m q;
  match r with
  | (Some (IOk x), _) => Ok (Some x)
  | _ => Ok None
  end.

(* Message::sole_question *)
Definition sole_question (m : bytes) : outcome question :=
  do c <- count_at m qd_off;
  if c =? sole_none then Err E_NOQUESTION
  else if c =? sole_one then
    do q <- question_section m;
    do r <- q_next m q;
    match r with
    | (Some (IOk x), _) => Ok x
    | (Some (IErr e), _) => Err e
    | (None, _) => Panic P_UNWRAP
    end
  else Err E_MULTIQ.

(* MessageIter::next, run to exhaustion: items are (section kind, record) or
   an error.  Recursion: at most three section changes. *)
Fixpoint msg_iter (secs : nat) (m : bytes) (s : sect) (acc : list (item (N * rr)))
  : outcome (list (item (N * rr))) :=
  do r <- drain (r_next m) (sec_fuel s) s [];
  let items := map (fun x : item rr * sect =>
                      match fst x with IOk a => IOk (s_kind s, a) | IErr e => IErr e end) (fst r) in
  let acc' := acc ++ items in
  match secs with
  | O => Ok acc'
  | S secs' =>
      match r_next_section m (snd r) with
      | Ok (Some s') => msg_iter secs' m s' acc'
      | Ok None => Ok acc'
      | Err e => Ok (acc' ++ [IErr e])
      | Panic p => Panic p
      | OutOfFuel => OutOfFuel
      end
  end.

Definition message_iter (m : bytes) : outcome (list (item (N * rr))) :=
  match msg_answer m with
  | Ok a => msg_iter 3 m a []
  | Err _ => Ok []
  | Panic p => Panic p
  | OutOfFuel => OutOfFuel
  end.

(* ------------------------------------------------------------------------ *)
(* Name comparison as ParsedName == ParsedName does it (ToName::name_eq):
   label-wise, ASCII case-insensitively, over the unchecked iterator.       *)
Definition pname_eq (m1 : bytes) (p1 : pname) (m2 : bytes) (p2 : pname) : outcome bool :=
  do a <- pname_labels m1 p1;
  do b <- pname_labels m2 p2;
  Ok (name_eqb (fst a) (fst b)).

Definition question_eq (m1 : bytes) (q1 : question) (m2 : bytes) (q2 : question) : outcome bool :=
  do e <- pname_eq m1 (q_name q1) m2 (q_name q2);
  Ok (e && (q_type q1 =? q_type q2) && (q_class q1 =? q_class q2)).

(* QuestionSection == QuestionSection *)
Fixpoint qsec_eq (fuel : nat) (m1 : bytes) (s1 : sect) (m2 : bytes) (s2 : sect) : outcome bool :=
  match fuel with
  | O => OutOfFuel
  | S fuel' =>
      do r1 <- q_next m1 s1;
      do r2 <- q_next m2 s2;
      match r1, r2 with
      | (Some (IOk a), s1'), (Some (IOk b), s2') =>
          do e <- question_eq m1 a m2 b;
          if e then qsec_eq fuel' m1 s1' m2 s2' else Ok false
      | (None, _), (None, _) => Ok true
      | _, _ => Ok false
      end
  end.

(* Message::is_answer *)
Definition is_answer (m q : bytes) : outcome bool :=
  match get m 2, get m 0, get m 1, get q 0, get q 1 with
  | Some flags, Some i0, Some i1, Some j0, Some j1 =>
      do c1 <- count_at m qd_off;
      do c2 <- count_at q qd_off;
      if negb (128 <=? flags) || negb ((i0 =? j0) && (i1 =? j1)) || negb (c1 =? c2)
      then Ok false
      else
        do s1 <- question_section m;
        do s2 <- question_section q;
        qsec_eq (sec_fuel s1) m s1 q s2
  | _, _, _, _, _ => Panic P_INDEX
  end.

(* ------------------------------------------------------------------------ *)
(* Typed access used by canonical_name: limit_to::<Cname<_>>.
   RecordHeader::parse_into_record with Data = Cname: sub-parser of rdlen
   octets; Cname::parse_rdata gives None for other types; trailing data is an
   error. *)
Definition RT_CNAME : N := 5.
Definition RT_OPT : N := 41.

Definition into_cname (m : bytes) (r : rr) : outcome (option pname) :=
  if mlen m - rr_data r <? rr_rdlen r then Err E_SHORT else        (* parse_parser *)
  let lim := rr_data r + rr_rdlen r in
  if rr_type r =? RT_CNAME then
    do p <- parse_ref m (rr_data r) lim;
    if 0 <? lim - pn_end p then Err E_TRAILING else Ok (Some p)
  else Ok None.

(* one pass of `for record in answer.clone()`: first CNAME record whose owner
   equals `name`; record-level and data-level errors are skipped (`continue`) *)
Fixpoint cname_scan (fuel : nat) (m : bytes) (s : sect) (name : pname) : outcome (option pname) :=
  match fuel with
  | O => OutOfFuel
  | S fuel' =>
      do r <- r_next m s;
      match r with
      | (None, _) => Ok None
      | (Some (IErr _), s') => cname_scan fuel' m s' name
      | (Some (IOk rec), s') =>
          match into_cname m rec with
          | Ok (Some target) =>
              do e <- pname_eq m (rr_owner rec) m name;
              if e then Ok (Some target) else cname_scan fuel' m s' name
          | Ok None => cname_scan fuel' m s' name
          | Err _ => cname_scan fuel' m s' name
          | Panic p => Panic p
          | OutOfFuel => OutOfFuel
          end
      end
  end.

(* `scan` is the fuel of one pass over the answer section (computed once) *)
Fixpoint cname_chase (rounds : nat) (scan : nat) (m : bytes) (ans : sect) (name : pname)
  : outcome (option pname) :=
  match rounds with
  | O => Ok None
  | S rounds' =>
      do f <- cname_scan scan m ans name;
      match f with
      | Some target => cname_chase rounds' scan m ans target
      | None => Ok (Some name)
      end
  end.

(* the loop bound `0..u32::from(ancount) + 1`; with a u16 addition
   (canon_wide = false) ancount = 65535 overflows *)
Definition canonical_rounds (ancount : N) : outcome N :=
  if canon_wide then Ok (ancount + canon_extra)
  else if 65535 <? ancount + canon_extra then Panic P_OVERFLOW else Ok (ancount + canon_extra).

Definition canonical_name (m : bytes) : outcome (option pname) :=
  do fq <- first_question m;
  match fq with
  | None => Ok None
  | Some q =>
      match msg_answer m with
      | Err _ => Ok None
      | Panic p => Panic p
      | OutOfFuel => OutOfFuel
      | Ok ans =>
          do an <- count_at m an_off;
          do rounds <- canonical_rounds an;
          cname_chase (N.to_nat rounds) (sec_fuel ans) m ans (q_name q)
      end
  end.

(* ------------------------------------------------------------------------ *)
(* Message::opt: the first record of the additional section that parses as OPT.
   Opt::parse takes all remaining octets of the rdlen sub-parser and checks
   the option framing (Opt::check_slice).  Options are (code, data) pairs. *)
Fixpoint opt_check (fuel : nat) (m : bytes) (pos lim : N) (acc : list (N * bytes))
  : outcome (list (N * bytes)) :=
  match fuel with
  | O => OutOfFuel
  | S fuel' =>
      if 0 <? lim - pos then
        if lim - pos <? 2 then Err E_SHORT else
        do code <- u16_at m pos lim;
        do len <- u16_at m (pos + 2) lim;
        if lim - (pos + 4) <? len then Err E_SHORT
        else opt_check fuel' m (pos + 4 + len) lim ((code, slice m (pos + 4) (pos + 4 + len)) :: acc)
      else Ok (rev acc)
  end.

Definition into_opt (m : bytes) (r : rr) : outcome (option (list (N * bytes))) :=
  if mlen m - rr_data r <? rr_rdlen r then Err E_SHORT else
  let lim := rr_data r + rr_rdlen r in
  if rr_type r =? RT_OPT then
    do os <- opt_check (S (N.to_nat (rr_rdlen r))) m (rr_data r) lim [];
    Ok (Some os)
  else Ok None.

(* RecordIter::<Opt>::next: skip records of other types, stop at the first
   error *)
Fixpoint opt_scan (fuel : nat) (m : bytes) (s : sect) : outcome (option (rr * list (N * bytes))) :=
  match fuel with
  | O => OutOfFuel
  | S fuel' =>
      do r <- r_next m s;
      match r with
      | (None, _) => Ok None
      | (Some (IErr _), _) => Ok None
      | (Some (IOk rec), s') =>
          match into_opt m rec with
          | Ok (Some os) => Ok (Some (rec, os))
          | Ok None => opt_scan fuel' m s'
          | Err _ => Ok None
          | Panic p => Panic p
          | OutOfFuel => OutOfFuel
          end
      end
  end.

Definition msg_opt (m : bytes) : outcome (option (rr * list (N * bytes))) :=
  match msg_additional m with
  | Ok s => opt_scan (sec_fuel s) m s
  | Err _ => Ok None
  | Panic p => Panic p
  | OutOfFuel => OutOfFuel
  end.

(* ------------------------------------------------------------------------ *)
(* Label::split_from on &slice[start..] and SliceLabelsIter, run to the end. *)
Inductive split := SLabel (l : bytes) | SPtr (p : N) | SErr.

Definition split_from (m : bytes) (start : N) : outcome split :=
  if mlen m <? start then Panic P_SLICE_START else
  match get m start with
  | None => Ok SErr
  | Some h =>
      if h <=? sf_normal_max then
        if mlen m - start <? h + 1 then Ok SErr
        else Ok (SLabel (slice m (start + 1) (start + 1 + h)))
      else if (sf_ext_min <=? h) && (h <=? sf_ext_max) then Ok SErr
      else if (sf_ptr_min <=? h) && (h <=? sf_ptr_max) then
        if mlen m - start <? sf_ptr_need then Ok SErr else
        match get m (start + 1) with
        | Some c => Ok (SPtr (ptr_bits sf_ptr_mask sf_ptr_shift h c))
        | None => Panic P_INDEX
        end
      else Ok SErr
  end.

Inductive walk_end := WDone | WJump (pos cur : N).   (* cur: self.start when the pointer is met *)

(* labels of one uncompressed segment: repeated `next` calls until the root,
   an error, the end of the slice, or a compression pointer *)
Fixpoint sl_walk (fuel : nat) (m : bytes) (start : N) (entry : bool) (acc : list bytes)
  : outcome (list bytes * walk_end) :=
  match fuel with
  | O => OutOfFuel
  | S fuel' =>
      if entry && (mlen m <=? start) then Ok (acc, WDone) else
      do s <- split_from m start;
      match s with
      | SLabel l =>
          if Nat.eqb (length l) 0 then Ok (l :: acc, WDone)
          else sl_walk fuel' m (start + N.of_nat (length l) + 1) true (l :: acc)
      | SPtr p => Ok (acc, WJump p start)
      | SErr => Ok (acc, WDone)
      end
  end.

Definition sl_reject (pos start segment : N) : bool :=
  let bound := if sl_check_segment then segment else start in
  if sl_reject_ge then bound <=? pos
  else if sl_reject_gt then bound <? pos
  else false.

Fixpoint sl_segments (fuel : nat) (m : bytes) (start segment : N) (entry : bool) (acc : list bytes)
  : outcome (list bytes) :=
  match fuel with
  | O => OutOfFuel
  | S fuel' =>
      do w <- sl_walk (S (length m)) m start entry acc;
      match w with
      | (acc', WDone) => Ok (rev acc')
      | (acc', WJump pos cur) =>
          if sl_reject pos cur segment then Ok (rev acc')
          else sl_segments fuel' m pos (if sl_updates_segment then pos else segment) false acc'
      end
  end.

(* Label::iter_slice(m, start).collect() *)
Definition iter_slice (m : bytes) (start : N) : outcome (list bytes) :=
  if mlen m <=? start then Ok []
  else sl_segments (S (N.to_nat start)) m start start true [].

(* ------------------------------------------------------------------------ *)
(* Observations for the correspondence driver and the top-level read_all.   *)
Record name_obs := mkNO { no_pos : N; no_len : N; no_compressed : bool; no_labels : name; no_root : bool }.

Definition observe_name (m : bytes) (p : pname) : outcome name_obs :=
  do r <- pname_labels m p;
  Ok (mkNO (pn_pos p) (pn_len p) (pn_compressed p) (fst r) (snd r)).

Definition c01_pname (m : bytes) (pos lim : N) : outcome (name_obs * N) :=
  do p <- parse_ref m pos lim;
  do o <- observe_name m p;
  Ok (o, pn_end p).

Definition c01_skip (m : bytes) (pos lim : N) : outcome N := skip_name m pos lim.
Definition c01_islice (m : bytes) (start : N) : outcome (list bytes) := iter_slice m start.

Inductive ev :=
| EvQ (n : name_obs) (ty cl after : N)
| EvR (n : name_obs) (ty cl ttl rdlen before after : N)
| EvErr (e : N) (fused : bool).

(* is the iterator fused: two further calls both give None *)
Definition fused {A} (next : sect -> outcome (option (item A) * sect)) (s : sect) : outcome bool :=
  do r1 <- next s;
  do r2 <- next (snd r1);
  Ok (match fst r1, fst r2 with None, None => true | _, _ => false end).

Fixpoint q_events (m : bytes) (l : list (item question * sect)) : outcome (list ev) :=
  match l with
  | [] => Ok []
  | (IOk q, s') :: t =>
      do o <- observe_name m (q_name q);
      do rest <- q_events m t;
      Ok (EvQ o (q_type q) (q_class q) (s_pos s') :: rest)
  | (IErr e, s') :: t =>
      do f <- fused (q_next m) s';
      do rest <- q_events m t;
      Ok (EvErr e f :: rest)
  end.

Fixpoint r_events (m : bytes) (before : N) (l : list (item rr * sect)) : outcome (list ev) :=
  match l with
  | [] => Ok []
  | (IOk r, s') :: t =>
      do o <- observe_name m (rr_owner r);
      do rest <- r_events m (s_pos s') t;
      Ok (EvR o (rr_type r) (rr_class r) (rr_ttl r) (rr_rdlen r) before (s_pos s') :: rest)
  | (IErr e, s') :: t =>
      do f <- fused (r_next m) s';
      do rest <- r_events m (s_pos s') t;
      Ok (EvErr e f :: rest)
  end.

(* a record section as the harness walks it: Err e if the section cannot be
   reached, else its start and its events *)
Definition section_view (m : bytes) (sec : outcome sect) : outcome (item (N * list ev)) :=
  match sec with
  | Ok s =>
      do r <- drain (r_next m) (sec_fuel s) s [];
      do evs <- r_events m (s_pos s) (fst r);
      Ok (IOk (s_pos s, evs))
  | Err e => Ok (IErr e)
  | Panic p => Panic p
  | OutOfFuel => OutOfFuel
  end.

Definition lift_err {A} (x : outcome A) : outcome (item A) :=
  match x with
  | Ok a => Ok (IOk a)
  | Err e => Ok (IErr e)
  | Panic p => Panic p
  | OutOfFuel => OutOfFuel
  end.

Definition q_view (m : bytes) (q : question) : outcome (name_obs * N * N) :=
  do o <- observe_name m (q_name q); Ok (o, q_type q, q_class q).

Record observation := mkObs {
  o_counts : N * N * N * N;
  o_questions : list ev;
  o_answer : item (N * list ev);
  o_authority : item (N * list ev);
  o_additional : item (N * list ev);
  o_sections : item (N * N * N * N);
  o_first : option (name_obs * N * N);
  o_sole : item (name_obs * N * N);
  o_self : bool;
  o_iter : list (item (N * N));
  o_canonical : option name_obs;
  o_opt : option (N * N * list (N * bytes));
  o_slice : list bytes
}.

(* everything the property lists that is modelled, in a fixed order *)
Definition read_all (m : bytes) : outcome (option observation) :=
  if negb (from_octets_ok m) then Ok None else
  do qd <- count_at m qd_off; do an <- count_at m an_off;
  do ns <- count_at m ns_off; do ar <- count_at m ar_off;
  do qs <- question_section m;
  do qr <- drain (q_next m) (sec_fuel qs) qs [];
  do qev <- q_events m (fst qr);
  do v_an <- section_view m (msg_answer m);
  do v_ns <- section_view m (msg_authority m);
  do v_ar <- section_view m (msg_additional m);
  do secs <- lift_err (msg_sections m);
  let secs' := match secs with
               | IOk (q, a, n, r) => IOk (s_pos q, s_pos a, s_pos n, s_pos r)
               | IErr e => IErr e end in
  do fq <- first_question m;
  do fqv <- match fq with Some q => do v <- q_view m q; Ok (Some v) | None => Ok None end;
  do sq <- lift_err (sole_question m);
  do sqv <- match sq with IOk q => do v <- q_view m q; Ok (IOk v) | IErr e => Ok (IErr e) end;
  do self <- is_answer m m;
  do it <- message_iter m;
  let it' := map (fun x : item (N * rr) =>
                    match x with IOk (k, r) => IOk (k, rr_type r) | IErr e => IErr e end) it in
  do cn <- canonical_name m;
  do cnv <- match cn with Some p => do v <- observe_name m p; Ok (Some v) | None => Ok None end;
  do op <- msg_opt m;
  let opv := match op with Some (r, os) => Some (rr_class r, rr_ttl r, os) | None => None end in
  do sl <- iter_slice m header_len;
  Ok (Some (mkObs (qd, an, ns, ar) qev v_an v_ns v_ar secs' fqv sqv self it' cnv opv sl)).
