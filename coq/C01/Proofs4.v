(* C01 proofs, part 4 (widening): the derived operations on validated names
   (split_first, parent, iter_suffixes, next_back, as_flat_slice) never reach
   their unwrap / expect / unreachable! / underflow / index sites and compute
   what the label list says. *)
From Coq Require Import NArith List Bool Lia ZArith.
From Coq Require Import ZifyN ZifyBool ZifyNat.
From DV Require Import Base.Outcome Base.Bytes Base.Names Base.PName C01.Gen C01.Model C01.Model2.
From DV Require Import C01.Proofs C01.Proofs2.
Import ListNotations.
Local Open Scope N_scope.
Ltac Zify.zify_post_hook ::= Z.div_mod_to_equations.

(* T1 tie for LabelType::peek's literals *)
Definition gen_matches_peek : bool :=
  (pk_normal_max =? 63) && (pk_ptr_min =? 192) && (pk_ptr_max =? 255) &&
  (pk_ptr_mask =? 63) && (pk_ptr_shift =? 8) && (name_root_len =? 1) && (first_label_plus =? 1).
Lemma gen_matches_peek_ok : gen_matches_peek = true.
Proof. vm_compute. reflexivity. Qed.

(* a validated name: its position walks exactly the labels ls, and the cached
   length is their wire length plus the root octet *)
Definition valid_pn (m : bytes) (p : pname) (ls : name) : Prop :=
  walk m (pn_pos p) ls /\ pn_len p = N.of_nat (wire_len ls) + 1.

Lemma parse_ref_valid m pos lim p :
  parse_ref m pos lim = Ok p -> lim <= mlen m -> exists ls, valid_pn m p ls /\ pn_len p <= 255.
Proof.
  intros H Hl. destruct (parse_ref_walk m pos lim p H Hl) as [ls [Hw [Hlen H255]]].
  exists ls. split; [split; assumption|assumption].
Qed.

(* ------------------------------------------------------------- list lemmas *)
Lemma skipn_nth {A} (l : list A) : forall n x, nth_error l n = Some x -> skipn n l = x :: skipn (S n) l.
Proof.
  induction l as [|h t IH]; intros [|n] x H; cbn in *; try discriminate.
  - inversion H. reflexivity.
  - apply IH. exact H.
Qed.

Lemma slice_cons m t e b : get m t = Some b -> t < e -> slice m t e = b :: slice m (t + 1) e.
Proof.
  unfold get, slice. intros Hg Hlt. rewrite (skipn_nth m _ _ Hg).
  replace (N.to_nat (e - t)) with (S (N.to_nat (e - (t + 1)))) by lia.
  cbn [firstn]. replace (N.to_nat (t + 1)) with (S (N.to_nat t)) by lia. reflexivity.
Qed.

(* ------------------------------------------------------------- first_label *)
Lemma first_label_resolve : forall m pos t, resolve m pos t ->
  forall b fuel, get m t = Some b -> 1 <= b -> b <= 63 -> (N.to_nat pos < fuel)%nat ->
  first_label fuel m pos = Ok (t, b + 1).
Proof.
  induction 1 as [pos b0 Hb0 Hle0 | pos b0 c t Hb0 H63 H192 Hc Hlt Hr IH]; intros b fuel Hb H1 Hle Hf.
  - destruct fuel as [|fuel]; [lia|]. cbn [first_label]. unfold label_type_peek.
    pose proof (get_lt _ _ _ Hb0) as Hp.
    destruct (N.ltb_spec (mlen m - pos) 1); [lia|]. rewrite Hb0. rewrite Hb0 in Hb. inversion Hb; subst b0.
    unfold pk_normal_max. destruct (N.leb_spec b 63); [|lia].
    destruct (N.eqb_spec b 0); [lia|]. reflexivity.
  - destruct fuel as [|fuel]; [lia|]. cbn [first_label]. unfold label_type_peek.
    pose proof (get_lt _ _ _ Hb0) as Hp. pose proof (get_lt _ _ _ Hc) as Hp1.
    destruct (N.ltb_spec (mlen m - pos) 1); [lia|]. rewrite Hb0.
    unfold pk_normal_max, pk_ptr_min. destruct (N.leb_spec b0 63); [lia|].
    destruct (N.leb_spec 192 b0); [|lia].
    destruct (N.ltb_spec (mlen m - pos) 2); [lia|]. rewrite Hc.
    destruct (N.ltb_spec (mlen m) (c + 256 * (b0 mod 64))); [lia|].
    apply IH; auto. lia.
Qed.

(* --------------------------------------------------- split_first and parent *)
Theorem split_first_valid m p ls : valid_pn m p ls ->
  match ls with
  | [] => split_first m p = Ok None
  | l :: ls' => exists p', split_first m p = Ok (Some (wire_label l, p')) /\ valid_pn m p' ls'
  end.
Proof.
  intros [Hw Hlen]. unfold split_first, name_root_len.
  inversion Hw as [pos t Hr Hg | pos t b ls' Hr Hg H1 H63 Hb Hw']; subst.
  - cbn [wire_len] in Hlen. rewrite Hlen. reflexivity.
  - cbn [wire_len] in Hlen. rewrite slice_length in Hlen by lia.
    destruct (N.eqb_spec (pn_len p) 1); [lia|].
    pose proof (resolve_start _ _ _ Hr) as Hs.
    destruct (N.ltb_spec (mlen m) (pn_pos p)); [lia|].
    rewrite (first_label_resolve m (pn_pos p) t Hr b (S (length m))); [|assumption|assumption|assumption|unfold mlen in Hs; lia].
    cbn [bind]. destruct (N.ltb_spec (pn_len p) (b + 1)); [lia|].
    destruct (N.ltb_spec (mlen m) (t + (b + 1))); [lia|].
    eexists. split.
    + f_equal. f_equal. f_equal. unfold wire_label. rewrite slice_length by lia.
      replace (t + (b + 1)) with (t + 1 + b) by lia.
      rewrite (slice_cons m t (t + 1 + b) b Hg) by lia. f_equal. lia.
    + split; cbn [pn_pos pn_len].
      * replace (t + (b + 1)) with (t + 1 + b) by lia. exact Hw'.
      * lia.
Qed.

Theorem parent_valid m p ls : valid_pn m p ls ->
  match ls with
  | [] => parent m p = Ok None
  | l :: ls' => exists p', parent m p = Ok (Some p') /\ valid_pn m p' ls'
  end.
Proof.
  intros [Hw Hlen]. unfold parent, name_root_len.
  inversion Hw as [pos t Hr Hg | pos t b ls' Hr Hg H1 H63 Hb Hw']; subst.
  - cbn [wire_len] in Hlen. rewrite Hlen. reflexivity.
  - cbn [wire_len] in Hlen. rewrite slice_length in Hlen by lia.
    destruct (N.eqb_spec (pn_len p) 1); [lia|].
    pose proof (resolve_start _ _ _ Hr) as Hs.
    destruct (N.ltb_spec (mlen m) (pn_pos p)); [lia|].
    rewrite (first_label_resolve m (pn_pos p) t Hr b (S (length m))); [|assumption|assumption|assumption|unfold mlen in Hs; lia].
    cbn [bind]. destruct (N.ltb_spec (pn_len p) (b + 1)); [lia|].
    eexists. split; [reflexivity|]. split; cbn [pn_pos pn_len].
    + replace (t + (b + 1)) with (t + 1 + b) by lia. exact Hw'.
    + lia.
Qed.

Lemma split_all_valid : forall ls fuel m p acc, valid_pn m p ls -> (length ls < fuel)%nat ->
  split_all fuel m p acc = Ok (rev acc ++ map wire_label ls).
Proof.
  induction ls as [|l ls IH]; intros fuel m p acc Hv Hf; (destruct fuel as [|fuel]; [cbn in Hf; lia|]);
    cbn [split_all]; pose proof (split_first_valid m p _ Hv) as Hs; cbn beta iota in Hs.
  - rewrite Hs. cbn [bind map]. rewrite app_nil_r. reflexivity.
  - destruct Hs as [p' [Hs Hv']]. rewrite Hs. cbn [bind].
    rewrite (IH fuel m p' (wire_label l :: acc) Hv'); [|cbn in Hf; lia].
    cbn [rev map]. rewrite <- app_assoc. reflexivity.
Qed.

Lemma suffixes_valid : forall ls fuel m p acc, valid_pn m p ls -> (length ls < fuel)%nat ->
  Forall (fun q => exists ks, valid_pn m q ks) acc ->
  exists l, suffixes fuel m p acc = Ok l /\ length l = (length acc + length ls + 1)%nat /\
            Forall (fun q => exists ks, valid_pn m q ks) l.
Proof.
  induction ls as [|l0 ls IH]; intros fuel m p acc Hv Hf Hacc; (destruct fuel as [|fuel]; [cbn in Hf; lia|]);
    cbn [suffixes]; pose proof (parent_valid m p _ Hv) as Hs; cbn beta iota in Hs.
  - rewrite Hs. cbn [bind]. eexists. split; [reflexivity|]. split.
    + rewrite rev_length. cbn [length]. lia.
    + apply Forall_rev. constructor; [exists []; exact Hv|exact Hacc].
  - destruct Hs as [p' [Hs Hv']]. rewrite Hs. cbn [bind].
    destruct (IH fuel m p' (p :: acc) Hv') as [l [El [Hlen Hall]]]; [cbn in Hf; lia| |].
    + constructor; [exists (l0 :: ls); exact Hv|exact Hacc].
    + exists l. split; [exact El|]. split; [cbn [length] in *; lia|exact Hall].
Qed.

(* ParsedName::first() (iter().next().unwrap()) on a validated name *)
Lemma first_label_of_valid m q ks : valid_pn m q ks ->
  exists r, get_label (S (length m)) m (pn_pos q) = Ok r.
Proof.
  intros [Hw _]. inversion Hw as [pos t Hr Hg | pos t b ls' Hr Hg H1 H63 Hb Hw']; subst.
  - pose proof (resolve_start _ _ _ Hr) as Hs. pose proof (get_lt _ _ _ Hg) as Ht.
    eexists. apply (get_label_resolve m (pn_pos q) t Hr 0); [assumption|lia|lia|unfold mlen in Hs; lia].
  - pose proof (resolve_start _ _ _ Hr) as Hs.
    eexists. apply (get_label_resolve m (pn_pos q) t Hr b); [assumption|assumption|assumption|unfold mlen in Hs; lia].
Qed.

Lemma first_labels_valid m : forall l, Forall (fun q => exists ks, valid_pn m q ks) l ->
  exists r, first_labels m l = Ok r /\ length r = length l.
Proof.
  induction l as [|q t IH]; intros H; cbn [first_labels]; [exists []; auto|].
  inversion H as [|x l' [ks Hq] Ht]; subst.
  destruct (first_label_of_valid m q ks Hq) as [r Er]. rewrite Er. cbn [bind].
  destruct (IH Ht) as [rest [Erest Hlen]]. rewrite Erest. cbn [bind].
  eexists. split; [reflexivity|]. cbn [length]. lia.
Qed.

(* ---------------------------------------------------------- reverse iteration *)
(* seg m pos ks: successive get_label calls from pos yield exactly ks *)
Inductive seg (m : bytes) : N -> list label -> Prop :=
| seg_nil pos : seg m pos []
| seg_cons pos t b k ks : resolve m pos t -> get m t = Some b -> b <= 63 -> t + 1 + b <= mlen m ->
    k = slice m (t + 1) (t + 1 + b) -> seg m (t + 1 + b) ks -> seg m pos (k :: ks).

Fixpoint total (ks : list label) : N :=
  match ks with [] => 0 | k :: t => N.of_nat (length k) + 1 + total t end.

Lemma total_app a b : total (a ++ b) = total a + total b.
Proof. induction a; cbn [app total]; lia. Qed.

Lemma total_wire ls : total (ls ++ [[]]) = N.of_nat (wire_len ls) + 1.
Proof. induction ls as [|l ls IH]; cbn [app total wire_len length]; [reflexivity|]. lia. Qed.

Lemma walk_seg m pos ls : walk m pos ls -> seg m pos (ls ++ [[]]).
Proof.
  induction 1 as [pos t Hr Hg | pos t b ls Hr Hg H1 H63 Hb Hw IH]; cbn [app].
  - pose proof (get_lt _ _ _ Hg). apply (seg_cons m pos t 0 [] []); try assumption; try lia.
    + replace (t + 1 + 0) with (t + 1) by lia. symmetry. apply slice_nil.
    + constructor.
  - eapply seg_cons; eauto.
Qed.

Lemma seg_prefix m : forall ks k pos, seg m pos (ks ++ [k]) -> seg m pos ks.
Proof.
  induction ks as [|k0 ks IH]; intros k pos H; [constructor|].
  cbn [app] in H. inversion H; subst. eapply seg_cons; eauto.
Qed.

Lemma get_label_seg m pos k ks : seg m pos (k :: ks) ->
  exists pos', get_label (S (length m)) m pos = Ok (k, pos') /\ seg m pos' ks.
Proof.
  intros H. inversion H as [|p t b k' ks' Hr Hg Hle Hb Hk Hs]; subst.
  pose proof (resolve_start _ _ _ Hr) as Hst.
  exists (t + 1 + b). split; [|assumption].
  apply (get_label_resolve m pos t Hr b); [assumption|assumption|assumption|unfold mlen in Hst; lia].
Qed.

Lemma last_label_seg m : forall ks k pos fuel len,
  seg m pos (ks ++ [k]) -> len = total (ks ++ [k]) -> (length ks < fuel)%nat ->
  last_label fuel m pos len = Ok k.
Proof.
  induction ks as [|k0 ks IH]; intros k pos fuel len Hs Hl Hf; (destruct fuel as [|fuel]; [cbn in Hf; lia|]);
    cbn [last_label]; cbn [app] in Hs; destruct (get_label_seg m pos _ _ Hs) as [pos' [Eg Hs']];
    rewrite Eg; cbn [bind]; cbv zeta; cbn [app total] in Hl.
  - destruct (N.ltb_spec len (N.of_nat (length k) + 1)); [lia|].
    destruct (N.eqb_spec (len - (N.of_nat (length k) + 1)) 0); [reflexivity|lia].
  - rewrite total_app in Hl. cbn [total] in Hl.
    destruct (N.ltb_spec len (N.of_nat (length k0) + 1)); [lia|].
    destruct (N.eqb_spec (len - (N.of_nat (length k0) + 1)) 0); [lia|].
    apply IH; [exact Hs'|rewrite total_app; cbn [total]; lia|cbn in Hf; lia].
Qed.

Lemma rev_labels_seg m pos : forall ks fuel acc,
  seg m pos ks -> (length ks < fuel)%nat -> (length ks <= 299)%nat ->
  rev_labels fuel m pos (total ks) acc = Ok (rev acc ++ rev ks).
Proof.
  induction ks as [|k ks IH] using rev_ind; intros fuel acc Hs Hf H299;
    (destruct fuel as [|fuel]; [cbn in Hf; lia|]); cbn [rev_labels].
  - cbn [total]. unfold next_back. cbn [N.eqb bind rev]. rewrite app_nil_r. reflexivity.
  - rewrite app_length in Hf, H299. cbn [length] in Hf, H299.
    unfold next_back. rewrite total_app. cbn [total].
    destruct (N.eqb_spec (total ks + (N.of_nat (length k) + 1 + 0)) 0); [lia|].
    rewrite (last_label_seg m ks k pos PARSE_FUEL (total ks + (N.of_nat (length k) + 1 + 0))); [|exact Hs|rewrite total_app; reflexivity|rewrite PARSE_FUEL_val; lia].
    cbn [bind]. cbv zeta.
    destruct (N.ltb_spec (total ks + (N.of_nat (length k) + 1 + 0)) (N.of_nat (length k) + 1)); [lia|].
    cbn [bind].
    replace (total ks + (N.of_nat (length k) + 1 + 0) - (N.of_nat (length k) + 1)) with (total ks) by lia.
    rewrite (IH fuel (k :: acc)); [|eapply seg_prefix; exact Hs|lia|lia].
    cbn [rev]. rewrite rev_app_distr. cbn [rev app]. rewrite <- app_assoc. reflexivity.
Qed.

Theorem rev_labels_valid m p ls : valid_pn m p ls -> pn_len p <= 255 ->
  pname_rev_labels m p = Ok (rev (ls ++ [[]])).
Proof.
  intros [Hw Hlen] H255. unfold pname_rev_labels.
  pose proof (walk_seg _ _ _ Hw) as Hs. pose proof (walk_count _ _ _ Hw) as Hc.
  replace (pn_len p) with (total (ls ++ [[]])) by (rewrite total_wire; lia).
  assert (Hlen2 : (length (ls ++ [[]]) < 300)%nat) by (rewrite app_length; cbn [length]; lia).
  exact (rev_labels_seg m (pn_pos p) (ls ++ [[]]) PARSE_FUEL [] Hs
           ltac:(rewrite PARSE_FUEL_val; exact Hlen2) ltac:(lia)).
Qed.

(* ---------------------------------------------------------- as_flat_slice *)
Lemma parse_labels_compressed_stays : forall fuel m lim cur nl start e p,
  nl <> 0 -> parse_labels fuel m lim cur nl start true e = Ok p -> pn_compressed p = true.
Proof.
  induction fuel as [|fuel IH]; intros m lim cur nl start e p Hnl H; [discriminate|].
  cbn [parse_labels] in H.
  destruct (label_type_parse m cur lim) as [[r cur']| | |]; try discriminate.
  destruct r as [l|ptr].
  - destruct (l =? 0); [inversion H; reflexivity|].
    destruct (lim - cur' <? l); [discriminate|].
    destruct (255 <=? nl + l + 1); [discriminate|]. eapply IH; [|exact H]. lia.
  - destruct (hops (S (S (N.to_nat ptr))) m lim ptr cur') as [tgt| | |]; cbn [bind] in H; try discriminate.
    destruct (N.eqb_spec nl 0); [contradiction|]. eapply IH; [|exact H]. assumption.
Qed.

Lemma parse_labels_flat : forall fuel m lim cur nl start c e p,
  parse_labels fuel m lim cur nl start c e = Ok p -> pn_compressed p = false ->
  start + nl = cur -> pn_pos p + pn_len p <= lim.
Proof.
  induction fuel as [|fuel IH]; intros m lim cur nl start c e p H Hc Hinv; [discriminate|].
  cbn [parse_labels] in H.
  destruct (label_type_parse m cur lim) as [[r cur']| | |] eqn:E; try discriminate.
  apply ltp_inv in E.
  destruct E as [Hlt [b [Hb [[Hle [Hr Hp]]|[H63 [H192 [Hl1 [c0 [Hc0 [Hr Hp]]]]]]]]]]; subst r cur'.
  - destruct (N.eqb_spec b 0).
    + inversion H; subst p. cbn [pn_pos pn_len]. lia.
    + destruct (N.ltb_spec (lim - (cur + 1)) b); [discriminate|].
      destruct (255 <=? nl + b + 1); [discriminate|].
      eapply IH; [exact H|exact Hc|lia].
  - destruct (hops (S (S (N.to_nat (c0 + 256 * (b mod 64))))) m lim (c0 + 256 * (b mod 64)) (cur + 2)) as [tgt| | |] eqn:Eh;
      cbn [bind] in H; try discriminate.
    destruct (N.eqb_spec nl 0).
    + eapply IH; [exact H|exact Hc|lia].
    + apply parse_labels_compressed_stays in H; [congruence|assumption].
Qed.

Theorem as_flat_slice_in_bounds m pos lim p :
  parse_ref m pos lim = Ok p -> lim <= mlen m ->
  as_flat_slice m p = Ok (if pn_compressed p then None
                          else Some (slice m (pn_pos p) (pn_pos p + pn_len p))) /\
  (pn_compressed p = false -> pn_pos p + pn_len p <= lim).
Proof.
  intros H Hl. rewrite parse_ref_eq in H. unfold as_flat_slice.
  destruct (pn_compressed p) eqn:Ec; [split; [reflexivity|discriminate]|].
  pose proof (parse_labels_flat _ _ _ _ _ _ _ _ _ H Ec) as Hb.
  assert (Hle : pn_pos p + pn_len p <= lim) by (apply Hb; lia).
  destruct (N.ltb_spec (mlen m) (pn_pos p + pn_len p)); [lia|]. split; [reflexivity|auto].
Qed.

(* ------------------------------------------------------------ all together *)
Theorem name_ops_total m pos lim p :
  parse_ref m pos lim = Ok p -> lim <= mlen m ->
  exists ls o, name_ops_of m p = Ok o /\ pname_labels m p = Ok (ls, true) /\
    no_rev o = rev (ls ++ [[]]) /\ no_split o = map wire_label ls /\
    length (no_suffixes o) = S (length ls) /\
    no_flat o = (if pn_compressed p then None else Some (slice m (pn_pos p) (pn_pos p + pn_len p))).
Proof.
  intros H Hl. destruct (parse_ref_valid m pos lim p H Hl) as [ls [Hv H255]].
  exists ls. unfold name_ops_of.
  rewrite (rev_labels_valid m p ls Hv H255). cbn [bind].
  pose proof Hv as [Hw Hlen]. pose proof (walk_count _ _ _ Hw) as Hc.
  rewrite (split_all_valid ls PARSE_FUEL m p [] Hv) by (rewrite PARSE_FUEL_val; lia). cbn [bind rev app].
  unfold iter_suffixes.
  destruct (suffixes_valid ls PARSE_FUEL m p [] Hv) as [sl [Es [Hsl Hall]]]; [rewrite PARSE_FUEL_val; lia|constructor|].
  rewrite Es. cbn [bind].
  destruct (as_flat_slice_in_bounds m pos lim p H Hl) as [Ef _]. rewrite Ef. cbn [bind].
  destruct (first_labels_valid m sl Hall) as [fl [Efl Hfl]]. rewrite Efl. cbn [bind].
  eexists. split; [reflexivity|]. cbn [no_rev no_split no_suffixes no_flat].
  split; [apply pname_labels_walk; assumption|].
  split; [reflexivity|]. split; [reflexivity|]. split; [cbn [length] in Hsl; lia|reflexivity].
Qed.

Example name_ops_example :
  let m := [3;99;111;109;0;3;119;119;119;192;0] in
  c01_pops m 5 11 =
    Ok (mkOps [[]; [99;111;109]; [119;119;119]] [[3;119;119;119]; [3;99;111;109]]
              [(9, [119;119;119]); (5, [99;111;109]); (1, [])] None).
Proof. vm_compute. reflexivity. Qed.

(* the panics are real on names that were not validated *)
Example unvalidated_ops_panic :
  split_first [0] (mkPName 0 3 false 1) = Panic P_UNREACHABLE /\
  parent [64] (mkPName 0 3 false 1) = Panic P_UNWRAP /\
  split_first [5;1] (mkPName 0 9 false 2) = Panic P_INDEX /\
  as_flat_slice [1;97;0] (mkPName 0 9 false 3) = Panic P_INDEX.
Proof. repeat split; vm_compute; reflexivity. Qed.
