(* C01 proofs, part 5 (widening): typed record data through the C05 schema
   never panics for ANY schema (hence for every record type of the table), the
   XFR first-message dispatch is total, and read-side calls in any order --
   with arbitrarily interleaved iterator steps -- never panic. *)
From Coq Require Import NArith List Bool Lia ZArith.
From Coq Require Import ZifyN ZifyBool ZifyNat.
From DV Require Import Base.Outcome Base.Bytes Base.Names Base.PName C01.Gen C01.Model C01.Model2.
From DV Require Import C05.Schema C05.Model.
From DV Require Import C01.Proofs C01.Proofs2 C01.Proofs3 C01.Proofs4.
Import ListNotations.
Local Open Scope N_scope.
Ltac Zify.zify_post_hook ::= Z.div_mod_to_equations.

(* ------------------------------------------------ parse_rdata, any schema *)
Lemma rd_sat m pos lim k :
  sat (rd m pos lim k) (fun r => snd r = pos + k /\ k <= lim - pos).
Proof. unfold rd. destruct (N.ltb_spec (lim - pos) k); cbn [sat snd]; [exact I|lia]. Qed.

Lemma rd8_sat m pos lim : lim <= mlen m ->
  sat (rd8 m pos lim) (fun r => snd r = pos + 1 /\ pos < lim).
Proof.
  intros Hl. unfold rd8. destruct (N.ltb_spec (lim - pos) 1); cbn [sat]; [exact I|].
  destruct (get_some m pos) as [b Hb]; [lia|]. rewrite Hb. cbn [sat snd]. lia.
Qed.

Lemma decode_name_sat m pos lim : lim <= mlen m -> sat (pname_dec m pos lim) (fun _ => True).
Proof.
  intros Hl. unfold pname_dec, decode_name.
  eapply sat_bind; [apply parse_ref_sat; exact Hl|]. intros p [ls Hp]. rewrite Hp. cbn. exact I.
Qed.

Lemma parse_strs_sat : forall fuel m pos lim acc, lim <= mlen m ->
  (N.to_nat (lim - pos) < fuel)%nat -> sat (parse_strs fuel m pos lim acc) (fun _ => True).
Proof.
  induction fuel as [|fuel IH]; intros m pos lim acc Hl Hf; [lia|].
  cbn [parse_strs]. destruct (N.eqb_spec (lim - pos) 0); [cbn [sat]; exact I|].
  eapply sat_bind; [apply rd8_sat; exact Hl|]. intros h [Hh1 Hh2].
  eapply sat_bind; [apply rd_sat|]. intros r [Hr1 Hr2].
  apply IH; [exact Hl|]. rewrite Hr1, Hh1. rewrite Hh1 in Hr2. lia.
Qed.

(* one script per shape of parse_field arm; tried in turn so that the proof
   survives new field kinds of a known shape in C05's schema language *)
(* a decoder of embedded names that never panics when its limit lies within
   the octets *)
Definition dec_total (dec : decoder) : Prop :=
  forall m pos lim, lim <= mlen m -> sat (dec m pos lim) (fun _ => True).

Lemma pname_dec_total : dec_total pname_dec.
Proof. intros m pos lim Hl. apply decode_name_sat. exact Hl. Qed.

Lemma pname_nc_dec_total strict : dec_total (pname_nc_dec strict).
Proof.
  intros m pos lim Hl. unfold pname_nc_dec.
  eapply sat_bind; [apply parse_ref_sat; exact Hl|]. intros p [ls Hp].
  destruct (pn_compressed p); [exact I|].
  destruct (strict && negb (pn_end p - pos =? pn_len p)); [exact I|]. rewrite Hp. cbn. exact I.
Qed.

Lemma flat_dec_total : dec_total flat_dec.
Proof.
  intros m pos lim _. unfold flat_dec.
  destruct (Names.decode_abs (slice m pos lim)) as [[[n rest]|]|[| |]]; exact I.
Qed.

Ltac field_step Hl Hdec dec :=
  lazymatch goal with
  | |- sat (Ok _) _ => exact I
  | |- sat (Err _) _ => exact I
  | |- sat (bind (rd _ _ _ _) _) _ => eapply sat_bind; [apply rd_sat|]; intros ? _
  | |- sat (bind (rd8 _ _ _) _) _ => eapply sat_bind; [apply rd8_sat; exact Hl|]; intros ? _
  | |- sat (bind (dec _ _ _) _) _ => eapply sat_bind; [apply Hdec; exact Hl|]; intros ? _
  | |- sat (bind (parse_strs _ _ _ _ _) _) _ => eapply sat_bind; [apply parse_strs_sat; [exact Hl|lia]|]; intros ? _
  | |- sat (if ?c then _ else _) _ => destruct c
  | |- sat (match ?x with _ => _ end) _ => destruct x
  end.

Lemma parse_field_sat dec f m pos lim : dec_total dec -> lim <= mlen m ->
  sat (parse_field dec f m pos lim) (fun _ => True).
Proof. intros Hdec Hl. destruct f; cbn [parse_field]; repeat (field_step Hl Hdec dec). Qed.

Lemma parse_fields_sat dec : dec_total dec -> forall s m pos lim, lim <= mlen m ->
  sat (parse_fields dec s m pos lim) (fun _ => True).
Proof.
  intros Hdec. induction s as [|f s IH]; intros m pos lim Hl; cbn [parse_fields]; [exact I|].
  eapply sat_bind; [apply parse_field_sat; assumption|]. intros r _.
  eapply sat_bind; [apply IH; exact Hl|]. intros r' _. exact I.
Qed.

(* RecordHeader::parse_into_any_record + <type>::parse for EVERY schema and
   every total name decoder: reading typed data out of a length-limited
   sub-parser never panics *)
Theorem parse_rdata_total_gen dec s m pos lim : dec_total dec -> lim <= mlen m ->
  no_panic (parse_rdata dec s m pos lim).
Proof.
  intros Hdec Hl. apply (sat_no_panic _ (fun _ => True)). unfold parse_rdata, parse_type.
  eapply sat_bind.
  - instantiate (1 := fun _ => True). destruct (s_long s) as [k|].
    + destruct (lim - pos <? k); [exact I|]. destruct (65535 <? lim - pos - k); [exact I|].
      apply parse_fields_sat; assumption.
    + apply parse_fields_sat; assumption.
  - intros r _. destruct (snd r =? lim); [|exact I].
    destruct (post_check (s_post s) (fst r)); exact I.
Qed.

Theorem parse_rdata_total s m pos lim : lim <= mlen m ->
  no_panic (parse_rdata pname_dec s m pos lim).
Proof. apply parse_rdata_total_gen. exact pname_dec_total. Qed.

Lemma classify_sat {A} (x : outcome A) : no_panic x -> sat (classify x) (fun _ => True).
Proof. destruct x; cbn; auto. Qed.

(* IPSECKEY: the row is picked by the gateway type octet *)
Theorem ipseckey_parse_total m pos lim : lim <= mlen m -> no_panic (ipseckey_parse m pos lim).
Proof.
  intros Hl. unfold ipseckey_parse.
  destruct (N.ltb_spec (lim - pos) 3); [exact I|].
  destruct (get_some m (pos + 1)) as [g Hg]; [lia|]. rewrite Hg.
  destruct (3 <? g); [exact I|].
  apply parse_rdata_total_gen; [apply pname_nc_dec_total|exact Hl].
Qed.

(* every EDNS option of C05's option table (and unknown codes): parsing its
   contents never panics *)
Theorem option_data_total code d : no_panic (parse_rdata flat_dec (option_schema code) d 0 (len d)).
Proof. apply parse_rdata_total_gen; [exact flat_dec_total|unfold len, mlen; lia]. Qed.

Lemma options_typed_sat : forall l, sat (options_typed l) (fun _ => True).
Proof.
  induction l as [|[code d] t IH]; cbn [options_typed]; [exact I|].
  eapply sat_bind; [apply classify_sat; apply option_data_total|]. intros c _.
  destruct c; [|exact I]. eapply sat_bind; [exact IH|]. intros rest _. exact I.
Qed.

Lemma msg_opt_typed_sat m : has_header m -> sat (msg_opt_typed m) (fun _ => True).
Proof.
  intros Hh. unfold msg_opt_typed. eapply sat_bind; [apply msg_opt_sat; exact Hh|]. intros o _.
  destruct o as [[r os]|]; [|exact I].
  eapply sat_bind; [apply options_typed_sat|]. intros l _. exact I.
Qed.

Example parse_rdata_example :
  match schema_of 15 with
  | Some s => parse_rdata pname_dec s [0;10; 1;97;0] 0 5 = Ok [VNum 10; VName [[97]]]
  | None => False
  end.
Proof. vm_compute. reflexivity. Qed.

Lemma typed_rdata_sat m r : good_rr m (mlen m) r -> sat (typed_rdata m r) (fun _ => True).
Proof.
  intros [_ [Hd _]]. unfold typed_rdata.
  destruct (mlen m - rr_data r <? rr_rdlen r); [exact I|]. cbv zeta.
  destruct (rr_type r =? RT_IPSECKEY).
  { eapply sat_bind; [apply classify_sat; apply ipseckey_parse_total; exact Hd|]. intros c _. exact I. }
  destruct (rr_type r =? RT_OPT).
  { eapply sat_bind; [apply classify_sat; eapply sat_no_panic; apply opt_check_sat; [exact Hd|lia]|].
    intros c _. exact I. }
  destruct (schema_of (rr_type r)) as [s|]; [|exact I].
  eapply sat_bind; [apply classify_sat; apply parse_rdata_total; exact Hd|]. intros c _. exact I.
Qed.

Lemma typed_all_sat m : forall l,
  Forall (item_ok (fun x : N * rr => good_rr m (mlen m) (snd x))) l ->
  sat (typed_all m l) (fun _ => True).
Proof.
  induction l as [|it t IH]; intros H; cbn [typed_all]; [exact I|].
  inversion H as [|x l' Hx Ht]; subst. destruct it as [[k r]|e]; [|apply IH; exact Ht].
  cbn [item_ok snd] in Hx.
  eapply sat_bind; [apply typed_rdata_sat; exact Hx|]. intros x _.
  eapply sat_bind; [apply IH; exact Ht|]. intros rest _. exact I.
Qed.

(* message_iter with the invariant that every yielded record is well framed *)
Lemma msg_iter_good : forall secs m s acc, has_header m ->
  Forall (item_ok (fun x : N * rr => good_rr m (mlen m) (snd x))) acc ->
  sat (msg_iter secs m s acc) (Forall (item_ok (fun x : N * rr => good_rr m (mlen m) (snd x)))).
Proof.
  assert (Hmap : forall m (s : sect) (l : list (item rr * sect)),
    Forall (fun x => item_ok (good_rr m (mlen m)) (fst x)) l ->
    Forall (item_ok (fun x : N * rr => good_rr m (mlen m) (snd x)))
      (map (fun x : item rr * sect => match fst x with IOk a => IOk (s_kind s, a) | IErr e => IErr e end) l)).
  { intros m s l H. induction H as [|[it s'] l Hx Hl IH]; cbn [map]; constructor; [|exact IH].
    cbn [fst] in *. destruct it; cbn [item_ok snd] in *; auto. }
  induction secs as [|secs IH]; intros m s acc Hh Hacc; cbn [msg_iter].
  - eapply sat_bind; [apply drain_r_next_sat|]. intros r [Hr _]. cbn [sat].
    apply Forall_app. split; [exact Hacc|apply Hmap; exact Hr].
  - eapply sat_bind; [apply drain_r_next_sat|]. intros r [Hr _]. cbv zeta.
    assert (Hacc' : Forall (item_ok (fun x : N * rr => good_rr m (mlen m) (snd x)))
              (acc ++ map (fun x : item rr * sect => match fst x with IOk a => IOk (s_kind s, a) | IErr e => IErr e end) (fst r))).
    { apply Forall_app. split; [exact Hacc|apply Hmap; exact Hr]. }
    pose proof (r_next_section_sat m (snd r) Hh) as Hn.
    destruct (r_next_section m (snd r)) as [[s'|]|e| |]; cbn [sat] in *; try contradiction.
    + apply IH; assumption.
    + exact Hacc'.
    + apply Forall_app. split; [exact Hacc'|]. constructor; [exact I|constructor].
Qed.

Lemma message_typed_sat m : has_header m -> sat (message_typed m) (fun _ => True).
Proof.
  intros Hh. unfold message_typed, message_iter.
  pose proof (msg_answer_sat m Hh) as Ha.
  destruct (msg_answer m) as [a|e| |]; cbn [sat] in Ha; try contradiction; cbn [bind].
  - eapply sat_bind; [apply msg_iter_good; [exact Hh|constructor]|].
    intros it Hit. apply typed_all_sat. exact Hit.
  - cbn. exact I.
Qed.

(* ------------------------------------------------------------ XFR dispatch *)
Theorem xfr_first_total m : has_header m -> no_panic (xfr_first m).
Proof.
  intros Hh. apply (sat_no_panic _ (fun _ => True)). unfold xfr_first.
  assert (Hl : 12 <= mlen m) by exact Hh.
  destruct (get_some m 2) as [f2 E2]; [lia|]. destruct (get_some m 3) as [f3 E3]; [lia|]. rewrite E2, E3.
  destruct (count_offsets m Hh) as [Hqd [Han [Hns _]]].
  eapply sat_bind; [apply count_at_sat; exact Hqd|]. intros qd _.
  eapply sat_bind; [apply count_at_sat; exact Han|]. intros an _.
  eapply sat_bind; [apply count_at_sat; exact Hns|]. intros ns _. cbv zeta.
  match goal with |- sat (if ?c then _ else _) _ => destruct c end; [exact I|].
  destruct (negb (qd =? 1)); [exact I|].
  pose proof (msg_answer_sat m Hh) as Ha.
  destruct (msg_answer m) as [ans|e| |]; cbn [sat] in Ha; try contradiction; [|exact I].
  eapply sat_bind; [apply first_question_sat; exact Hh|]. intros fq _.
  destruct fq as [q|]; [|exact I].
  destruct ((q_type q =? RT_AXFR) || (q_type q =? RT_IXFR)); [|exact I].
  eapply sat_bind; [apply r_next_sat|]. intros [o s'] [_ Ho]. cbn [fst] in Ho.
  destruct o as [[rec|e]|]; try exact I.
  destruct (mlen m - rr_data rec <? rr_rdlen rec); [exact I|].
  destruct Ho as [_ [Hd _]].
  eapply sat_bind.
  { instantiate (1 := fun _ => True). destruct (rr_type rec =? RT_IPSECKEY).
    - apply classify_sat. apply ipseckey_parse_total. exact Hd.
    - destruct (zone_schema_of (rr_type rec)) as [s|]; [|exact I].
      apply classify_sat. apply parse_rdata_total. exact Hd. }
  intros c _. destruct c as [u|e]; [destruct (rr_type rec =? RT_SOA); exact I|].
  destruct (e =? 99); exact I.
Qed.

(* a reply to an A question that carries a SOA is refused, not unreachable!() *)
Example xfr_first_non_xfr_question :
  xfr_first [0;7;128;0; 0;1; 0;1; 0;0; 0;0;  1;97;0; 0;1; 0;1;
             192;12; 0;6; 0;1; 0;0;0;60; 0;24; 192;12; 192;12; 0;0;0;1; 0;0;0;2; 0;0;0;3; 0;0;0;4; 0;0;0;5] = Ok 10.
Proof. vm_compute. reflexivity. Qed.
Example xfr_first_axfr :
  xfr_first [0;7;128;0; 0;1; 0;1; 0;0; 0;0;  1;97;0; 0;252; 0;1;
             192;12; 0;6; 0;1; 0;0;0;60; 0;24; 192;12; 192;12; 0;0;0;1; 0;0;0;2; 0;0;0;3; 0;0;0;4; 0;0;0;5] = Ok 0.
Proof. vm_compute. reflexivity. Qed.

(* ------------------------------------------------- calls in any order *)
Lemma push_section_sat st (x : outcome sect) P : sat x P -> sat (push_section st x) (fun _ => True).
Proof. destruct x; cbn; auto. Qed.

Lemma run_op_sat m st o : has_header m -> sat (run_op m st o) (fun _ => True).
Proof.
  intros Hh. destruct o; cbn [run_op].
  - eapply push_section_sat. apply question_section_sat. exact Hh.
  - eapply push_section_sat. apply msg_answer_sat. exact Hh.
  - eapply push_section_sat. apply msg_authority_sat. exact Hh.
  - eapply push_section_sat. apply msg_additional_sat. exact Hh.
  - destruct (nth_error st i) as [s|]; [|exact I]. destruct (s_kind s =? 0); [|exact I].
    eapply sat_bind; [apply q_next_sat|]. intros [o s'] [_ Ho]. cbn [fst] in Ho.
    destruct o as [[q|e]|]; try exact I.
    eapply sat_bind; [apply q_view_sat; exact Ho|]. intros v _. exact I.
  - destruct (nth_error st i) as [s|]; [|exact I]. destruct (s_kind s =? 0); [|exact I].
    eapply push_section_sat. apply q_to_answer_sat. exact Hh.
  - destruct (nth_error st i) as [s|]; [|exact I]. destruct (s_kind s =? 0); [exact I|].
    eapply sat_bind; [apply r_next_sat|]. intros [o s'] [_ Ho]. cbn [fst] in Ho.
    destruct o as [[x|e]|]; try exact I. destruct Ho as [Hg _].
    eapply sat_bind; [apply observe_name_sat; exact Hg|]. intros n _. exact I.
  - destruct (nth_error st i) as [s|]; [|exact I]. destruct (s_kind s =? 0); [exact I|].
    pose proof (r_next_section_sat m s Hh) as Hn.
    destruct (r_next_section m s) as [[n|]|e| |]; cbn [sat] in *; auto.
  - eapply sat_bind; [apply first_question_sat; exact Hh|]. intros fq Hfq.
    destruct fq as [q|]; [|exact I].
    eapply sat_bind; [apply q_view_sat; exact Hfq|]. intros v _. exact I.
  - pose proof (sole_question_sat m Hh) as Hs.
    destruct (sole_question m) as [q|e| |]; cbn [sat] in Hs; try contradiction; [|exact I].
    eapply sat_bind; [apply q_view_sat; exact Hs|]. intros v _. exact I.
  - eapply sat_bind; [apply is_answer_sat; exact Hh|]. intros b _. exact I.
  - eapply sat_bind; [apply canonical_name_sat; exact Hh|]. intros cn Hcn.
    destruct cn as [p|]; [|exact I].
    eapply sat_bind; [apply observe_name_sat; exact Hcn|]. intros v _. exact I.
  - pose proof (msg_sections_sat m Hh) as Hs.
    destruct (msg_sections m) as [[[[q a] n] r]|e| |]; cbn [sat] in *; auto.
  - destruct (count_offsets m Hh) as [Hqd [Han [Hns Har]]].
    eapply sat_bind; [apply count_at_sat; exact Hqd|]. intros qd _.
    eapply sat_bind; [apply count_at_sat; exact Han|]. intros an _.
    eapply sat_bind; [apply count_at_sat; exact Hns|]. intros ns _.
    eapply sat_bind; [apply count_at_sat; exact Har|]. intros ar _. exact I.
  - destruct (iter_slice_finite m start) as [ls E]. rewrite E. exact I.
  - eapply sat_bind; [apply message_typed_sat; exact Hh|]. intros l _. exact I.
  - eapply sat_bind; [apply msg_opt_typed_sat; exact Hh|]. intros l _. exact I.
Qed.

Lemma run_ops_sat m : forall ops st, has_header m -> sat (run_ops m st ops) (fun _ => True).
Proof.
  induction ops as [|o t IH]; intros st Hh; cbn [run_ops]; [exact I|].
  eapply sat_bind; [apply run_op_sat; exact Hh|]. intros r _.
  eapply sat_bind; [apply IH; exact Hh|]. intros rest _. exact I.
Qed.

(* every sequence of read-side calls, with iterator steps interleaved in any
   order, on every octet string: no panic, no fuel exhaustion *)
Theorem read_ops_total m ops : no_panic (read_ops m ops).
Proof.
  apply (sat_no_panic _ (fun _ => True)). unfold read_ops.
  destruct (from_octets_ok m) eqn:Eh; cbn [negb]; [|exact I].
  assert (Hh : has_header m) by (unfold from_octets_ok in Eh; unfold has_header; lia).
  eapply sat_bind; [apply run_ops_sat; exact Hh|]. intros r _. exact I.
Qed.

(* a call does not disturb the others: iterators are values, the message is
   immutable -- a message-level call gives the same result whatever was done
   before it (whatever iterators are alive and wherever they stand) *)
Definition ofst {A B} (x : outcome (A * B)) : outcome A :=
  match x with Ok (a, _) => Ok a | Err e => Err e | Panic p => Panic p | OutOfFuel => OutOfFuel end.

Lemma ofst_bind {A B C} (x : outcome A) (f g : A -> outcome (B * C)) :
  (forall a, ofst (f a) = ofst (g a)) -> ofst (bind x f) = ofst (bind x g).
Proof. intros H. destruct x; cbn [bind]; auto. Qed.

Theorem run_op_state_independent m st st' o :
  match o with OQNext _ | OQAnswer _ | ORNext _ | ORNextSection _ => False | _ => True end ->
  ofst (run_op m st o) = ofst (run_op m st' o).
Proof.
  intros Ho. destruct o; try contradiction; cbn [run_op]; unfold push_section.
  - destruct (question_section m); reflexivity.
  - destruct (msg_answer m); reflexivity.
  - destruct (msg_authority m); reflexivity.
  - destruct (msg_additional m); reflexivity.
  - apply ofst_bind. intros [q|]; [apply ofst_bind; intros v; reflexivity|reflexivity].
  - destruct (sole_question m); try reflexivity. apply ofst_bind. intros v. reflexivity.
  - apply ofst_bind. intros b. reflexivity.
  - apply ofst_bind. intros [p|]; [apply ofst_bind; intros v; reflexivity|reflexivity].
  - destruct (msg_sections m) as [[[[q a] n] r]| | |]; reflexivity.
  - repeat (apply ofst_bind; intros ?). reflexivity.
  - apply ofst_bind. intros l. reflexivity.
  - apply ofst_bind. intros l. reflexivity.
  - apply ofst_bind. intros l. reflexivity.
Qed.

Example read_ops_example :
  read_ops [0;7;128;0; 0;1; 0;0; 0;0; 0;0; 1;97;0; 0;1; 0;1]
           [OQuestion; OQNext 0; OQNext 0; OQAnswer 0; ORNext 1; ORNextSection 1; OSelf] =
  Ok (Some [RPos 12; RQ (mkNO 12 3 false [[97]] true, 1, 1) 19; REnd; RPos 19; REnd; RPos 19; RBool true]).
Proof. vm_compute. reflexivity. Qed.
