(* C01 proofs, part 7 (widening round 3): what the typed parser accepted, the
   display-time iterators walk without reaching an unwrap / expect / index
   panic: TXT character strings, SVCB parameters and their values. *)
From Coq Require Import Arith NArith List Bool Lia ZArith.
From Coq Require Import ZifyN ZifyBool ZifyNat.
From DV Require Import Base.Outcome Base.Bytes Base.Names Base.PName C01.Gen C01.Model C01.Model2 C01.Model3 C01.Model4.
From DV Require Import C05.Schema C05.Model.
From DV Require Import C01.Proofs C01.Proofs2.
Import ListNotations.
Local Open Scope N_scope.
Ltac Zify.zify_post_hook ::= Z.div_mod_to_equations.

Lemma len_length (d : bytes) : len d = N.of_nat (length d).
Proof. reflexivity. Qed.

(* ------------------------------------------------------------------- TXT *)
Lemma txt_iter_of_check : forall fuel d acc, txt_check_loop fuel d = true ->
  exists l, txt_iter_loop fuel d acc = Ok l.
Proof.
  induction fuel as [|fuel IH]; intros d acc H; [discriminate|].
  cbn [txt_check_loop] in H. cbn [txt_iter_loop]. destruct d as [|l rest]; [eauto|].
  destruct (N.leb_spec (len (l :: rest)) l) as [Hc|Hc]; [discriminate|].
  rewrite len_length in Hc. cbn [length] in Hc.
  destruct (N.ltb_spec (len rest) l) as [Hx|Hx]; [rewrite len_length in Hx; lia|].
  apply IH. exact H.
Qed.

(* Txt::iter / iter_charstrs on data Txt::check_slice accepted *)
Theorem txt_iter_total d : txt_check d = true -> exists l, txt_iter d = Ok l.
Proof.
  unfold txt_check, txt_iter. intros H. apply andb_true_iff in H. destruct H as [_ H].
  apply txt_iter_of_check. exact H.
Qed.

Example txt_iter_example : txt_iter [1;97;0;2;98;99] = Ok [[97]; []; [98;99]].
Proof. vm_compute. reflexivity. Qed.
Example txt_iter_unchecked_panics : txt_iter [5;97] = Panic P_UNWRAP.
Proof. vm_compute. reflexivity. Qed.

(* ------------------------------------------------------------------ ALPN *)
Lemma alpn_iter_of_check : forall fuel d acc, alpn_check fuel d = true ->
  exists l, txt_iter_loop fuel d acc = Ok l.
Proof.
  induction fuel as [|fuel IH]; intros d acc H; [discriminate|].
  cbn [alpn_check] in H. cbn [txt_iter_loop]. destruct d as [|l rest]; [eauto|].
  destruct (len rest <? l); [discriminate|]. apply IH. exact H.
Qed.

(* ----------------------------------------------- fixed-size value lists *)
Lemma chunks_total (k : nat) : (0 < k)%nat -> forall q fuel d acc,
  length d = (q * k)%nat -> (q < fuel)%nat -> exists l, chunks fuel k d acc = Ok l.
Proof.
  intros Hk. induction q as [|q IH]; intros fuel d acc Hl Hf; (destruct fuel as [|fuel]; [lia|]); cbn [chunks].
  - destruct d; [eauto|cbn in Hl; lia].
  - destruct d as [|x d']; [cbn in Hl; lia|].
    destruct (Nat.ltb_spec (length (x :: d')) k) as [Hc|Hc]; [lia|].
    apply IH; [rewrite skipn_length; lia|lia].
Qed.

Lemma even_mult n : Nat.even n = true -> exists q, n = (q * 2)%nat.
Proof. intros H. apply Nat.even_spec in H. destruct H as [q Hq]. exists q. lia. Qed.

Lemma mod_mult n k : (0 < k)%nat -> (n mod k =? 0)%nat = true -> exists q, n = (q * k)%nat.
Proof.
  intros Hk H. apply Nat.eqb_eq in H. exists (n / k)%nat.
  pose proof (Nat.div_mod n k ltac:(lia)). lia.
Qed.

Lemma chunks_of_mult k v : (0 < k)%nat -> (exists q, length v = (q * k)%nat) ->
  exists l, chunks (S (length v)) k v [] = Ok l.
Proof.
  intros Hk [q Hq]. apply (chunks_total k Hk q); [exact Hq|].
  destruct k; [lia|]. nia.
Qed.

(* AllValues::parse_any + the value's Display iteration: never a panic, for
   any key and any value octets *)
Theorem svc_value_total key v : exists x, svc_value key v = Ok x.
Proof.
  unfold svc_value. cbv zeta.
  repeat match goal with
  | |- context [if ?k =? ?n then _ else _] =>
      lazymatch k with key => destruct (k =? n) end
  end;
  try (eexists; reflexivity).
  - destruct (negb (65535 <? len v) && Nat.even (length v)) eqn:E; [|eauto].
    apply andb_true_iff in E. destruct E as [_ E].
    destruct (chunks_of_mult 2 v ltac:(lia) (even_mult _ E)) as [l El]. rewrite El. cbn [bind]. eauto.
  - destruct (negb (65535 <? len v) && alpn_check (S (length v)) v) eqn:E; [|eauto].
    apply andb_true_iff in E. destruct E as [_ E].
    destruct (alpn_iter_of_check _ _ [] E) as [l El]. unfold alpn_iter. rewrite El. cbn [bind]. eauto.
  - destruct v as [|a [|b v']]; eauto.
  - destruct (65535 <? len v); eauto.
  - destruct (negb (65535 <? len v) && (length v mod 4 =? 0)%nat) eqn:E; [|eauto].
    apply andb_true_iff in E. destruct E as [_ E].
    destruct (chunks_of_mult 4 v ltac:(lia) (mod_mult _ 4 ltac:(lia) E)) as [l El]. rewrite El. cbn [bind]. eauto.
  - destruct (negb (65535 <? len v) && (length v mod 16 =? 0)%nat) eqn:E; [|eauto].
    apply andb_true_iff in E. destruct E as [_ E].
    destruct (chunks_of_mult 16 v ltac:(lia) (mod_mult _ 16 ltac:(lia) E)) as [l El]. rewrite El. cbn [bind]. eauto.
  - destruct (65535 <? len v); eauto.
  - destruct (negb (65535 <? len v) && negb (length v =? 0)%nat && Nat.even (length v)) eqn:E; [|eauto].
    apply andb_true_iff in E. destruct E as [_ E].
    destruct (chunks_of_mult 2 v ltac:(lia) (even_mult _ E)) as [l El]. rewrite El. cbn [bind]. eauto.
Qed.

(* Display / ZonefileFmt / iter_raw over parameters SvcParams::check_slice
   accepted: the three expects are unreachable *)
Lemma svc_walk_of_check : forall fuel d last acc, svcparams_check fuel d last = None ->
  exists l, svc_walk fuel d acc = Ok l.
Proof.
  induction fuel as [|fuel IH]; intros d last acc H; [discriminate|].
  cbn [svcparams_check] in H. cbn [svc_walk].
  destruct d as [|k1 [|k2 rest]]; [eauto|discriminate|].
  destruct (k1 * 256 + k2 + 1 <=? last); [discriminate|].
  destruct rest as [|l1 [|l2 rest']]; try discriminate.
  destruct (Nat.ltb_spec (length rest') (N.to_nat (l1 * 256 + l2))) as [Hc|Hc]; [discriminate|].
  destruct (N.ltb_spec (len rest') (l1 * 256 + l2)) as [Hx|Hx]; [rewrite len_length in Hx; lia|].
  destruct (svc_value_total (k1 * 256 + k2) (firstn (N.to_nat (l1 * 256 + l2)) rest')) as [x Ex].
  rewrite Ex. cbn [bind]. eapply IH. exact H.
Qed.

Theorem svc_display_total d : rest_check KSvcParams d = None -> exists l, svc_display d = Ok l.
Proof. unfold rest_check, svc_display. apply svc_walk_of_check. Qed.

Example svc_display_example :
  svc_display [0;1;0;3;2;104;50; 0;3;0;2;1;187; 0;4;0;4;1;2;3;4] =
  Ok [VAlpn [[104;50]]; VPort 443; VIpv4 [[1;2;3;4]]].
Proof. vm_compute. reflexivity. Qed.
Example svc_display_unchecked_panics : svc_display [0;1;0;9;2] = Panic P_UNWRAP.
Proof. vm_compute. reflexivity. Qed.
