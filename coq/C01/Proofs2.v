(* C01 proofs, part 2: framing (questions, records, sections, iterators),
   message-level accessors and the top-level read_all are total. *)
From Coq Require Import NArith List Bool Lia ZArith.
From Coq Require Import ZifyN ZifyBool ZifyNat.
From DV Require Import Base.Outcome Base.Bytes Base.Names Base.PName C01.Gen C01.Model C01.Proofs.
Import ListNotations.
Local Open Scope N_scope.
Ltac Zify.zify_post_hook ::= Z.div_mod_to_equations.

Definition item_ok {A} (P : A -> Prop) (it : item A) : Prop :=
  match it with IOk a => P a | IErr _ => True end.

(* sat x P: x is neither a panic nor a fuel exhaustion, and if it is a value
   the value satisfies P *)
Definition sat {A} (x : outcome A) (P : A -> Prop) : Prop :=
  match x with Ok a => P a | Err _ => True | Panic _ => False | OutOfFuel => False end.

Lemma sat_bind {A B} (x : outcome A) (f : A -> outcome B) (P : A -> Prop) (Q : B -> Prop) :
  sat x P -> (forall a, P a -> sat (f a) Q) -> sat (bind x f) Q.
Proof. destruct x; cbn [sat bind fst snd no_panic item_ok unwrap_opt s_err s_cnt s_pos s_kind q_name rr_owner rr_data rr_rdlen rr_end]; auto; contradiction. Qed.

Lemma sat_weaken {A} (x : outcome A) (P Q : A -> Prop) :
  sat x P -> (forall a, P a -> Q a) -> sat x Q.
Proof. destruct x; cbn [sat bind fst snd no_panic item_ok unwrap_opt s_err s_cnt s_pos s_kind q_name rr_owner rr_data rr_rdlen rr_end]; auto. Qed.

Lemma sat_no_panic {A} (x : outcome A) P : sat x P -> no_panic x.
Proof. destruct x; cbn [sat bind fst snd no_panic item_ok unwrap_opt s_err s_cnt s_pos s_kind q_name rr_owner rr_data rr_rdlen rr_end]; auto. Qed.

Lemma no_panic_sat {A} (x : outcome A) : no_panic x -> sat x (fun _ => True).
Proof. destruct x; cbn [sat bind fst snd no_panic item_ok unwrap_opt s_err s_cnt s_pos s_kind q_name rr_owner rr_data rr_rdlen rr_end]; auto. Qed.

Lemma sat_ok {A} (x : outcome A) P a : sat x P -> x = Ok a -> P a.
Proof. intros H E. rewrite E in H. exact H. Qed.

Lemma sat_and {A} (x : outcome A) P Q : sat x P -> sat x Q -> sat x (fun a => P a /\ Q a).
Proof. destruct x; cbn [sat bind fst snd no_panic item_ok unwrap_opt s_err s_cnt s_pos s_kind q_name rr_owner rr_data rr_rdlen rr_end]; auto. Qed.

(* a parsed name that the unchecked iterator can walk *)
Definition good_name (m : bytes) (p : pname) : Prop :=
  exists ls, pname_labels m p = Ok (ls, true).

Lemma parse_ref_sat m pos lim : lim <= mlen m ->
  sat (parse_ref m pos lim) (good_name m).
Proof.
  intros Hl. pose proof (parse_ref_total m pos lim Hl) as Ht.
  destruct (parse_ref m pos lim) as [p| | |] eqn:E; cbn [sat bind fst snd no_panic item_ok unwrap_opt s_err s_cnt s_pos s_kind q_name rr_owner rr_data rr_rdlen rr_end] in *; auto.
  destruct (parse_ref_iter_total m pos lim p E Hl) as [ls [H _]]. exists ls. exact H.
Qed.

(* ------------------------------------------------------------ integers *)
Lemma u16_at_sat m pos lim : lim <= mlen m ->
  sat (u16_at m pos lim) (fun _ => pos + 2 <= lim).
Proof.
  intros Hl. unfold u16_at.
  destruct (N.ltb_spec (lim - pos) 2) as [H|H]; cbn [sat bind fst snd no_panic item_ok unwrap_opt s_err s_cnt s_pos s_kind q_name rr_owner rr_data rr_rdlen rr_end]; [exact I|].
  destruct (get_some m pos) as [a Ha]; [lia|].
  destruct (get_some m (pos + 1)) as [b Hb]; [lia|].
  rewrite Ha, Hb. cbn [sat bind fst snd no_panic item_ok unwrap_opt s_err s_cnt s_pos s_kind q_name rr_owner rr_data rr_rdlen rr_end]. lia.
Qed.

Lemma u32_at_sat m pos lim : lim <= mlen m ->
  sat (u32_at m pos lim) (fun _ => pos + 4 <= lim).
Proof.
  intros Hl. unfold u32_at.
  destruct (N.ltb_spec (lim - pos) 4) as [H|H]; cbn [sat bind fst snd no_panic item_ok unwrap_opt s_err s_cnt s_pos s_kind q_name rr_owner rr_data rr_rdlen rr_end]; [exact I|].
  destruct (get_some m pos) as [a Ha]; [lia|].
  destruct (get_some m (pos + 1)) as [b Hb]; [lia|].
  destruct (get_some m (pos + 2)) as [c Hc]; [lia|].
  destruct (get_some m (pos + 3)) as [d Hd]; [lia|].
  rewrite Ha, Hb, Hc, Hd. cbn [sat bind fst snd no_panic item_ok unwrap_opt s_err s_cnt s_pos s_kind q_name rr_owner rr_data rr_rdlen rr_end]. lia.
Qed.

Lemma count_at_sat m off : off + 2 <= mlen m -> sat (count_at m off) (fun _ => True).
Proof.
  intros H. unfold count_at.
  destruct (get_some m off) as [a Ha]; [lia|].
  destruct (get_some m (off + 1)) as [b Hb]; [lia|].
  rewrite Ha, Hb. exact I.
Qed.

Definition has_header (m : bytes) : Prop := header_len <= mlen m.

Lemma count_offsets m : has_header m ->
  qd_off + 2 <= mlen m /\ an_off + 2 <= mlen m /\ ns_off + 2 <= mlen m /\ ar_off + 2 <= mlen m.
Proof. unfold has_header, header_len, qd_off, an_off, ns_off, ar_off. lia. Qed.

(* ------------------------------------------------------ question, record *)
Lemma question_parse_sat m pos lim : lim <= mlen m ->
  sat (question_parse m pos lim) (fun q => good_name m (q_name q)).
Proof.
  intros Hl. unfold question_parse.
  eapply sat_bind; [apply parse_ref_sat; assumption|]. intros p Hp. cbv beta in *.
  eapply sat_bind; [apply u16_at_sat; assumption|]. intros ty _. cbv beta in *.
  eapply sat_bind; [apply u16_at_sat; assumption|]. intros cl _. cbv beta in *.
  cbn [sat bind fst snd no_panic item_ok unwrap_opt s_err s_cnt s_pos s_kind q_name rr_owner rr_data rr_rdlen rr_end]. exact Hp.
Qed.

Definition good_rr (m : bytes) (lim : N) (r : rr) : Prop :=
  good_name m (rr_owner r) /\ rr_data r + rr_rdlen r <= lim /\ rr_end r = rr_data r + rr_rdlen r.

Lemma record_parse_sat m pos lim : lim <= mlen m ->
  sat (record_parse m pos lim) (good_rr m lim).
Proof.
  intros Hl. unfold record_parse.
  eapply sat_bind; [apply parse_ref_sat; assumption|]. intros p Hp. cbv beta in *. cbv zeta.
  eapply sat_bind; [apply u16_at_sat; assumption|]. intros ty _. cbv beta in *.
  eapply sat_bind; [apply u16_at_sat; assumption|]. intros cl _. cbv beta in *.
  eapply sat_bind; [apply u32_at_sat; assumption|]. intros ttl _. cbv beta in *.
  eapply sat_bind; [apply u16_at_sat; assumption|]. intros rdlen H8. cbv beta in *.
  destruct (N.ltb_spec (lim - (pn_end p + 10)) rdlen) as [H|H]; cbn [sat bind fst snd no_panic item_ok unwrap_opt s_err s_cnt s_pos s_kind q_name rr_owner rr_data rr_rdlen rr_end]; [exact I|].
  unfold good_rr. cbn [sat bind fst snd no_panic item_ok unwrap_opt s_err s_cnt s_pos s_kind q_name rr_owner rr_data rr_rdlen rr_end]. split; [exact Hp|]. cbv beta in H8. split; [lia|reflexivity].
Qed.

Lemma record_skip_sat m pos lim : lim <= mlen m ->
  sat (record_skip m pos lim) (fun _ => True).
Proof.
  intros Hl. unfold record_skip.
  eapply sat_bind; [apply no_panic_sat; apply skip_name_total; assumption|]. intros e _. cbv beta in *.
  destruct (lim - e <? rr_fixed_skip); cbn [sat bind fst snd no_panic item_ok unwrap_opt s_err s_cnt s_pos s_kind q_name rr_owner rr_data rr_rdlen rr_end]; [exact I|].
  eapply sat_bind; [apply u16_at_sat; assumption|]. intros rdlen _. cbv beta in *.
  cbv zeta. destruct (lim - (e + rr_fixed_skip + 2) <? rdlen); cbn [sat bind fst snd no_panic item_ok unwrap_opt s_err s_cnt s_pos s_kind q_name rr_owner rr_data rr_rdlen rr_end]; exact I.
Qed.

(* ------------------------------------------------------------- iterators *)
Definition fuel_ok (fuel : nat) (s : sect) : Prop :=
  match s_err s with
  | None => (N.to_nat (s_cnt s) + 2 <= fuel)%nat
  | Some _ => (1 <= fuel)%nat
  end.

Lemma sec_fuel_ok s : fuel_ok (sec_fuel s) s.
Proof. unfold fuel_ok, sec_fuel. destruct (s_err s); lia. Qed.

Section Iter.
  Context {A : Type} (parse : N -> outcome A) (endof : A -> N) (P : A -> Prop).
  Hypothesis parse_sat : forall pos, sat (parse pos) P.

  Lemma sec_next_sat s :
    sat (sec_next parse endof s)
        (fun r => s_kind (snd r) = s_kind s /\
                  match fst r with
                  | Some (IOk a) => P a /\ s_err s = None /\ s_err (snd r) = None /\
                                    0 < s_cnt s /\ s_cnt (snd r) = s_cnt s - 1
                  | Some (IErr e) => s_err s = None /\ s_err (snd r) = Some e /\ 0 < s_cnt s
                  | None => snd r = s
                  end).
  Proof.
    unfold sec_next. destruct (s_err s) as [e|] eqn:Ee; cbn [sat bind fst snd no_panic item_ok unwrap_opt s_err s_cnt s_pos s_kind q_name rr_owner rr_data rr_rdlen rr_end]; [auto|].
    destruct (N.ltb_spec 0 (s_cnt s)) as [Hc|Hc]; cbn [sat bind fst snd no_panic item_ok unwrap_opt s_err s_cnt s_pos s_kind q_name rr_owner rr_data rr_rdlen rr_end]; [|auto].
    pose proof (parse_sat (s_pos s)) as Hp.
    destruct (parse (s_pos s)) as [a|e| |]; cbn [sat bind fst snd no_panic item_ok unwrap_opt s_err s_cnt s_pos s_kind q_name rr_owner rr_data rr_rdlen rr_end] in *; try contradiction; repeat split; auto.
  Qed.

  Lemma drain_sat : forall fuel s acc,
    fuel_ok fuel s -> Forall (fun x => item_ok P (fst x)) acc ->
    sat (drain (sec_next parse endof) fuel s acc)
        (fun r => Forall (fun x => item_ok P (fst x)) (fst r) /\ s_kind (snd r) = s_kind s /\
                  (s_err (snd r) = None -> s_cnt (snd r) = 0 \/ True)).
  Proof.
    induction fuel as [|fuel IH]; intros s acc Hf Hacc.
    - unfold fuel_ok in Hf. destruct (s_err s); lia.
    - cbn [drain]. eapply sat_bind; [apply sec_next_sat|].
      intros [o s'] [Hk Ho]. cbn [fst snd] in *.
      destruct o as [[a|e]|].
      + destruct Ho as [Pa [He [He' [Hc Hc']]]].
        eapply sat_weaken.
        * apply IH; [|constructor; [exact Pa|exact Hacc]].
          unfold fuel_ok in *. rewrite He in Hf. rewrite He'. lia.
        * cbn [sat bind fst snd no_panic item_ok unwrap_opt s_err s_cnt s_pos s_kind q_name rr_owner rr_data rr_rdlen rr_end]. intros r [H1 [H2 H3]]. split; [exact H1|]. split; [congruence|exact H3].
      + destruct Ho as [He [He' Hc]].
        eapply sat_weaken.
        * apply IH; [|constructor; [exact I|exact Hacc]].
          unfold fuel_ok in *. rewrite He in Hf. rewrite He'. lia.
        * cbn [sat bind fst snd no_panic item_ok unwrap_opt s_err s_cnt s_pos s_kind q_name rr_owner rr_data rr_rdlen rr_end]. intros r [H1 [H2 H3]]. split; [exact H1|]. split; [congruence|exact H3].
      + subst s'. cbn [sat bind fst snd no_panic item_ok unwrap_opt s_err s_cnt s_pos s_kind q_name rr_owner rr_data rr_rdlen rr_end]. split; [apply Forall_rev; exact Hacc|]. split; [reflexivity|auto].
  Qed.

  Lemma fused_sat s : sat (fused (sec_next parse endof) s) (fun _ => True).
  Proof.
    unfold fused. eapply sat_bind; [apply sec_next_sat|]. intros r1 _. cbv beta in *.
    eapply sat_bind; [apply sec_next_sat|]. intros r2 _. cbv beta in *. cbn [sat bind fst snd no_panic item_ok unwrap_opt s_err s_cnt s_pos s_kind q_name rr_owner rr_data rr_rdlen rr_end]. exact I.
  Qed.
End Iter.

Lemma q_next_sat m s : sat (q_next m s) (fun r => s_kind (snd r) = s_kind s /\
   match fst r with Some (IOk q) => good_name m (q_name q) | _ => True end).
Proof.
  unfold q_next. eapply sat_weaken.
  - apply (sec_next_sat _ q_end (fun q => good_name m (q_name q))).
    intros pos. apply question_parse_sat. lia.
  - intros [o s'] [Hk Ho]. cbn [sat bind fst snd no_panic item_ok unwrap_opt s_err s_cnt s_pos s_kind q_name rr_owner rr_data rr_rdlen rr_end] in *. split; [exact Hk|]. destruct o as [[q|e]|]; auto. tauto.
Qed.

Lemma r_next_sat m s : sat (r_next m s) (fun r => s_kind (snd r) = s_kind s /\
   match fst r with Some (IOk x) => good_rr m (mlen m) x | _ => True end).
Proof.
  unfold r_next. eapply sat_weaken.
  - apply (sec_next_sat _ rr_end (good_rr m (mlen m))).
    intros pos. apply record_parse_sat. lia.
  - intros [o s'] [Hk Ho]. cbn [sat bind fst snd no_panic item_ok unwrap_opt s_err s_cnt s_pos s_kind q_name rr_owner rr_data rr_rdlen rr_end] in *. split; [exact Hk|]. destruct o as [[q|e]|]; auto. tauto.
Qed.

(* ----------------------------------------------------- section transitions *)
Lemma question_section_sat m : has_header m ->
  sat (question_section m) (fun s => s_kind s = 0 /\ s_err s = None).
Proof.
  intros Hh. unfold question_section. destruct (count_offsets m Hh) as [H _].
  eapply sat_bind; [apply count_at_sat; exact H|]. intros c _. cbv beta in *. cbn [sat bind fst snd no_panic item_ok unwrap_opt s_err s_cnt s_pos s_kind q_name rr_owner rr_data rr_rdlen rr_end]. auto.
Qed.

Lemma kind_off_ok m k : has_header m -> kind_off k + 2 <= mlen m.
Proof.
  intros Hh. destruct (count_offsets m Hh) as [_ [H1 [H2 H3]]]. unfold kind_off.
  destruct (k =? 1); [exact H1|]. destruct (k =? 2); assumption.
Qed.

Lemma record_section_sat m pos k : has_header m ->
  sat (record_section m pos k) (fun s => s_kind s = k /\ s_err s = None).
Proof.
  intros Hh. unfold record_section.
  eapply sat_bind; [apply count_at_sat; apply kind_off_ok; exact Hh|]. intros c _. cbv beta in *. cbn [sat bind fst snd no_panic item_ok unwrap_opt s_err s_cnt s_pos s_kind q_name rr_owner rr_data rr_rdlen rr_end]. auto.
Qed.

Lemma q_to_answer_sat m s : has_header m -> sat (q_to_answer m s) (fun a => s_kind a = 1).
Proof.
  intros Hh. unfold q_to_answer.
  eapply sat_bind.
  - unfold q_next. apply (drain_sat _ q_end (fun q => good_name m (q_name q))).
    + intros pos. apply question_parse_sat. lia.
    + apply sec_fuel_ok.
    + constructor.
  - intros r _. cbv beta in *. cbv zeta. destruct (s_err (snd r)); cbn [sat bind fst snd no_panic item_ok unwrap_opt s_err s_cnt s_pos s_kind q_name rr_owner rr_data rr_rdlen rr_end]; [exact I|].
    eapply sat_weaken; [apply record_section_sat; exact Hh|]. intros a [H _]. cbv beta in *. exact H.
Qed.

Lemma r_next_section_sat m s : has_header m ->
  sat (r_next_section m s)
      (fun o => s_kind s < 3 -> exists n, o = Some n /\ s_kind n = s_kind s + 1).
Proof.
  intros Hh. unfold r_next_section.
  destruct (N.leb_spec 3 (s_kind s)) as [Hk|Hk]; cbn [sat bind fst snd no_panic item_ok unwrap_opt s_err s_cnt s_pos s_kind q_name rr_owner rr_data rr_rdlen rr_end]; [intros; lia|].
  eapply sat_bind.
  - unfold r_skip_next. apply (drain_sat _ (fun e : N => e) (fun _ => True)).
    + intros pos. apply record_skip_sat. lia.
    + apply sec_fuel_ok.
    + constructor.
  - intros r _. cbv beta in *. cbv zeta. destruct (s_err (snd r)); cbn [sat bind fst snd no_panic item_ok unwrap_opt s_err s_cnt s_pos s_kind q_name rr_owner rr_data rr_rdlen rr_end]; [exact I|].
    eapply sat_bind; [apply record_section_sat; exact Hh|]. intros n [Hn _]. cbv beta in *. cbn [sat bind fst snd no_panic item_ok unwrap_opt s_err s_cnt s_pos s_kind q_name rr_owner rr_data rr_rdlen rr_end].
    intros _. exists n. auto.
Qed.

Lemma unwrap_opt_sat {A} (o : option A) (P : A -> Prop) :
  (exists n, o = Some n /\ P n) -> sat (unwrap_opt o) P.
Proof. intros [n [E H]]. subst o. cbn [sat bind fst snd no_panic item_ok unwrap_opt s_err s_cnt s_pos s_kind q_name rr_owner rr_data rr_rdlen rr_end]. exact H. Qed.

Lemma msg_answer_sat m : has_header m -> sat (msg_answer m) (fun a => s_kind a = 1).
Proof.
  intros Hh. unfold msg_answer.
  eapply sat_bind; [apply question_section_sat; exact Hh|]. intros q _. cbv beta in *.
  apply q_to_answer_sat. exact Hh.
Qed.

Lemma next_unwrap_sat m a k : has_header m -> s_kind a = k -> k < 3 ->
  sat (do o <- r_next_section m a; unwrap_opt o) (fun n => s_kind n = k + 1).
Proof.
  intros Hh Hk Hlt. eapply sat_bind; [apply r_next_section_sat; exact Hh|].
  intros o Ho. apply unwrap_opt_sat. destruct Ho as [n [E Hn]]; [lia|].
  exists n. split; [exact E|]. lia.
Qed.

Lemma msg_authority_sat m : has_header m -> sat (msg_authority m) (fun a => s_kind a = 2).
Proof.
  intros Hh. unfold msg_authority.
  eapply sat_bind; [apply msg_answer_sat; exact Hh|]. intros a Ha. cbv beta in *.
  apply (next_unwrap_sat m a 1 Hh Ha). lia.
Qed.

Lemma msg_additional_sat m : has_header m -> sat (msg_additional m) (fun a => s_kind a = 3).
Proof.
  intros Hh. unfold msg_additional.
  eapply sat_bind; [apply msg_authority_sat; exact Hh|]. intros a Ha. cbv beta in *.
  apply (next_unwrap_sat m a 2 Hh Ha). lia.
Qed.

Lemma msg_sections_sat m : has_header m -> sat (msg_sections m) (fun _ => True).
Proof.
  intros Hh. unfold msg_sections.
  eapply sat_bind; [apply question_section_sat; exact Hh|]. intros q _. cbv beta in *.
  eapply sat_bind; [apply q_to_answer_sat; exact Hh|]. intros a Ha. cbv beta in *.
  eapply sat_bind; [apply r_next_section_sat; exact Hh|]. intros o1 Ho1. cbv beta in *.
  eapply sat_bind.
  { apply (unwrap_opt_sat o1 (fun n => s_kind n = 2)). destruct Ho1 as [n [E Hn]]; [lia|].
    exists n. split; [exact E|lia]. }
  intros ns Hns. cbv beta in *.
  eapply sat_bind; [apply r_next_section_sat; exact Hh|]. intros o2 Ho2. cbv beta in *.
  eapply sat_bind.
  { apply (unwrap_opt_sat o2 (fun n => s_kind n = 3)). destruct Ho2 as [n [E Hn]]; [lia|].
    exists n. split; [exact E|lia]. }
  intros ar _. cbn [sat bind fst snd no_panic item_ok unwrap_opt s_err s_cnt s_pos s_kind q_name rr_owner rr_data rr_rdlen rr_end]. exact I.
Qed.

(* -------------------------------------------------- first / sole question *)
Lemma first_question_sat m : has_header m ->
  sat (first_question m) (fun o => match o with Some q => good_name m (q_name q) | None => True end).
Proof.
  intros Hh. unfold first_question.
  eapply sat_bind; [apply question_section_sat; exact Hh|]. intros s _. cbv beta in *.
  eapply sat_bind; [apply q_next_sat|]. intros [o s'] [_ Ho]. cbv beta in *. cbn [sat bind fst snd no_panic item_ok unwrap_opt s_err s_cnt s_pos s_kind q_name rr_owner rr_data rr_rdlen rr_end] in Ho.
  destruct o as [[q|e]|]; cbn [sat bind fst snd no_panic item_ok unwrap_opt s_err s_cnt s_pos s_kind q_name rr_owner rr_data rr_rdlen rr_end]; auto.
Qed.

Lemma sole_question_sat m : has_header m ->
  sat (sole_question m) (fun q => good_name m (q_name q)).
Proof.
  intros Hh. unfold sole_question. destruct (count_offsets m Hh) as [Hq _].
  pose proof (count_at_sat m qd_off Hq) as Hc.
  destruct (count_at m qd_off) as [c| | |] eqn:Ec; cbn [sat bind fst snd no_panic item_ok unwrap_opt s_err s_cnt s_pos s_kind q_name rr_owner rr_data rr_rdlen rr_end] in Hc; try contradiction; cbn [bind]; [|exact I].
  destruct (N.eqb_spec c sole_none) as [H0|H0]; cbn [sat bind fst snd no_panic item_ok unwrap_opt s_err s_cnt s_pos s_kind q_name rr_owner rr_data rr_rdlen rr_end]; [exact I|].
  destruct (N.eqb_spec c sole_one) as [H1|H1]; cbn [sat bind fst snd no_panic item_ok unwrap_opt s_err s_cnt s_pos s_kind q_name rr_owner rr_data rr_rdlen rr_end]; [|exact I].
  unfold question_section. rewrite Ec. cbn [bind].
  pose proof (q_next_sat m (mkSect header_len c None 0)) as Hn.
  unfold q_next, sec_next in *. cbn [s_err s_cnt s_pos s_kind] in *.
  assert (Hpos : (0 <? c) = true) by (subst c; reflexivity). rewrite Hpos in *.
  destruct (question_parse m header_len (mlen m)) as [q|e| |]; cbn [sat bind fst snd no_panic item_ok unwrap_opt s_err s_cnt s_pos s_kind q_name rr_owner rr_data rr_rdlen rr_end] in *; try contradiction; try exact I.
  destruct Hn as [_ Hn]. exact Hn.
Qed.

(* --------------------------------------------------------- MessageIter *)
Lemma drain_r_next_sat m s :
  sat (drain (r_next m) (sec_fuel s) s [])
      (fun r => Forall (fun x => item_ok (good_rr m (mlen m)) (fst x)) (fst r) /\ s_kind (snd r) = s_kind s).
Proof.
  eapply sat_weaken.
  - unfold r_next. apply (drain_sat _ rr_end (good_rr m (mlen m))).
    + intros pos. apply record_parse_sat. lia.
    + apply sec_fuel_ok.
    + constructor.
  - intros r [H1 [H2 _]]. auto.
Qed.

Lemma drain_q_next_sat m s :
  sat (drain (q_next m) (sec_fuel s) s [])
      (fun r => Forall (fun x => item_ok (fun q => good_name m (q_name q)) (fst x)) (fst r)).
Proof.
  eapply sat_weaken.
  - unfold q_next. apply (drain_sat _ q_end (fun q => good_name m (q_name q))).
    + intros pos. apply question_parse_sat. lia.
    + apply sec_fuel_ok.
    + constructor.
  - intros r [H1 _]. exact H1.
Qed.

Lemma msg_iter_sat : forall secs m s acc, has_header m ->
  sat (msg_iter secs m s acc) (fun _ => True).
Proof.
  induction secs as [|secs IH]; intros m s acc Hh; cbn [msg_iter].
  - eapply sat_bind; [apply drain_r_next_sat|]. intros r _. cbv beta in *. cbn [sat bind fst snd no_panic item_ok unwrap_opt s_err s_cnt s_pos s_kind q_name rr_owner rr_data rr_rdlen rr_end]. exact I.
  - eapply sat_bind; [apply drain_r_next_sat|]. intros r _. cbv beta in *. cbv zeta.
    pose proof (r_next_section_sat m (snd r) Hh) as Hn.
    destruct (r_next_section m (snd r)) as [[s'|]|e| |]; cbn [sat bind fst snd no_panic item_ok unwrap_opt s_err s_cnt s_pos s_kind q_name rr_owner rr_data rr_rdlen rr_end] in *; try contradiction; auto.
Qed.

Lemma message_iter_sat m : has_header m -> sat (message_iter m) (fun _ => True).
Proof.
  intros Hh. unfold message_iter. pose proof (msg_answer_sat m Hh) as Ha.
  destruct (msg_answer m) as [a|e| |]; cbn [sat bind fst snd no_panic item_ok unwrap_opt s_err s_cnt s_pos s_kind q_name rr_owner rr_data rr_rdlen rr_end] in *; try contradiction; auto.
  apply msg_iter_sat. exact Hh.
Qed.

(* --------------------------------------------------- names, is_answer *)
Lemma observe_name_sat m p : good_name m p -> sat (observe_name m p) (fun _ => True).
Proof. intros [ls H]. unfold observe_name. rewrite H. cbn [sat bind fst snd no_panic item_ok unwrap_opt s_err s_cnt s_pos s_kind q_name rr_owner rr_data rr_rdlen rr_end]. exact I. Qed.

Lemma pname_eq_sat m1 p1 m2 p2 : good_name m1 p1 -> good_name m2 p2 ->
  sat (pname_eq m1 p1 m2 p2) (fun _ => True).
Proof. intros [l1 H1] [l2 H2]. unfold pname_eq. rewrite H1, H2. cbn [sat bind fst snd no_panic item_ok unwrap_opt s_err s_cnt s_pos s_kind q_name rr_owner rr_data rr_rdlen rr_end]. exact I. Qed.

Lemma question_eq_sat m1 q1 m2 q2 : good_name m1 (q_name q1) -> good_name m2 (q_name q2) ->
  sat (question_eq m1 q1 m2 q2) (fun _ => True).
Proof.
  intros H1 H2. unfold question_eq. eapply sat_bind; [apply pname_eq_sat; assumption|].
  intros e _. cbn [sat bind fst snd no_panic item_ok unwrap_opt s_err s_cnt s_pos s_kind q_name rr_owner rr_data rr_rdlen rr_end]. exact I.
Qed.

Lemma qsec_eq_sat : forall fuel m1 s1 m2 s2,
  fuel_ok fuel s1 -> sat (qsec_eq fuel m1 s1 m2 s2) (fun _ => True).
Proof.
  induction fuel as [|fuel IH]; intros m1 s1 m2 s2 Hf.
  - exfalso. unfold fuel_ok in Hf. destruct (s_err s1); lia.
  - cbn [qsec_eq].
    pose proof (sec_next_sat (fun pos => question_parse m1 pos (mlen m1)) q_end
                  (fun q => good_name m1 (q_name q))
                  (fun pos => question_parse_sat m1 pos (mlen m1) (N.le_refl _)) s1) as Hn1.
    fold (q_next m1) in Hn1.
    destruct (q_next m1 s1) as [[o1 s1']|e1| |] eqn:E1; cbn [sat bind fst snd no_panic item_ok unwrap_opt s_err s_cnt s_pos s_kind q_name rr_owner rr_data rr_rdlen rr_end] in Hn1; try contradiction; cbn [bind]; [|exact I].
    pose proof (q_next_sat m2 s2) as Hn2.
    destruct (q_next m2 s2) as [[o2 s2']|e2| |] eqn:E2; cbn [sat bind fst snd no_panic item_ok unwrap_opt s_err s_cnt s_pos s_kind q_name rr_owner rr_data rr_rdlen rr_end] in Hn2; try contradiction; cbn [bind]; [|exact I].
    destruct Hn1 as [_ Hn1]. destruct Hn2 as [_ Hn2].
    destruct o1 as [[a|ea]|]; destruct o2 as [[b|eb]|]; cbn [sat bind fst snd no_panic item_ok unwrap_opt s_err s_cnt s_pos s_kind q_name rr_owner rr_data rr_rdlen rr_end]; try exact I.
    destruct Hn1 as [Ga [He [He' [Hc Hc']]]].
    eapply sat_bind; [apply question_eq_sat; assumption|]. intros e _.
    destruct e; [|cbn [sat bind fst snd no_panic item_ok unwrap_opt s_err s_cnt s_pos s_kind q_name rr_owner rr_data rr_rdlen rr_end]; exact I].
    apply IH. unfold fuel_ok in *. rewrite He in Hf. rewrite He'. lia.
Qed.

Lemma is_answer_sat m q : has_header m -> has_header q -> sat (is_answer m q) (fun _ => True).
Proof.
  intros Hm Hq. unfold is_answer.
  assert (Hlm : 12 <= mlen m) by exact Hm. assert (Hlq : 12 <= mlen q) by exact Hq.
  destruct (get_some m 2) as [f Hf]; [lia|]. destruct (get_some m 0) as [i0 Hi0]; [lia|].
  destruct (get_some m 1) as [i1 Hi1]; [lia|]. destruct (get_some q 0) as [j0 Hj0]; [lia|].
  destruct (get_some q 1) as [j1 Hj1]; [lia|]. rewrite Hf, Hi0, Hi1, Hj0, Hj1.
  destruct (count_offsets m Hm) as [Hcm _]. destruct (count_offsets q Hq) as [Hcq _].
  eapply sat_bind; [apply count_at_sat; exact Hcm|]. intros c1 _. cbv beta in *.
  eapply sat_bind; [apply count_at_sat; exact Hcq|]. intros c2 _. cbv beta in *.
  destruct (negb (128 <=? f) || negb ((i0 =? j0) && (i1 =? j1)) || negb (c1 =? c2)); cbn [sat bind fst snd no_panic item_ok unwrap_opt s_err s_cnt s_pos s_kind q_name rr_owner rr_data rr_rdlen rr_end]; [exact I|].
  eapply sat_bind; [apply question_section_sat; exact Hm|]. intros s1 _. cbv beta in *.
  eapply sat_bind; [apply question_section_sat; exact Hq|]. intros s2 _. cbv beta in *.
  apply qsec_eq_sat. apply sec_fuel_ok.
Qed.

(* ------------------------------------------------------- canonical_name *)
Lemma into_cname_sat m r : good_rr m (mlen m) r ->
  sat (into_cname m r) (fun o => match o with Some p => good_name m p | None => True end).
Proof.
  intros [_ [Hd _]]. unfold into_cname.
  destruct (mlen m - rr_data r <? rr_rdlen r); cbn [sat bind fst snd no_panic item_ok unwrap_opt s_err s_cnt s_pos s_kind q_name rr_owner rr_data rr_rdlen rr_end]; [exact I|]. cbv zeta.
  destruct (rr_type r =? RT_CNAME); cbn [sat bind fst snd no_panic item_ok unwrap_opt s_err s_cnt s_pos s_kind q_name rr_owner rr_data rr_rdlen rr_end]; [|exact I].
  eapply sat_bind; [apply parse_ref_sat; exact Hd|]. intros p Hp. cbv beta in *.
  destruct (0 <? rr_data r + rr_rdlen r - pn_end p); cbn [sat bind fst snd no_panic item_ok unwrap_opt s_err s_cnt s_pos s_kind q_name rr_owner rr_data rr_rdlen rr_end]; [exact I|exact Hp].
Qed.

Lemma cname_scan_sat : forall fuel m s name, good_name m name -> fuel_ok fuel s ->
  sat (cname_scan fuel m s name) (fun o => match o with Some p => good_name m p | None => True end).
Proof.
  induction fuel as [|fuel IH]; intros m s name Hn Hf.
  - exfalso. unfold fuel_ok in Hf. destruct (s_err s); lia.
  - cbn [cname_scan].
    pose proof (sec_next_sat (fun pos => record_parse m pos (mlen m)) rr_end (good_rr m (mlen m))
                  (fun pos => record_parse_sat m pos (mlen m) (N.le_refl _)) s) as Hx.
    fold (r_next m) in Hx.
    destruct (r_next m s) as [[o s']|e| |]; cbn [sat bind fst snd no_panic item_ok unwrap_opt s_err s_cnt s_pos s_kind q_name rr_owner rr_data rr_rdlen rr_end] in Hx; try contradiction; cbn [bind]; [|exact I].
    destruct Hx as [_ Hx]. cbn [fst snd] in Hx.
    assert (Hrec : forall s', s_err s = None -> (s_err s' = None -> s_cnt s' = s_cnt s - 1) -> 0 < s_cnt s ->
                    sat (cname_scan fuel m s' name) (fun o => match o with Some p => good_name m p | None => True end)).
    { intros s2 He Hc Hpos. apply IH; [exact Hn|]. unfold fuel_ok in *. rewrite He in Hf.
      destruct (s_err s2); [lia|]. specialize (Hc eq_refl). lia. }
    destruct o as [[rec|e]|]; cbn [sat bind fst snd no_panic item_ok unwrap_opt s_err s_cnt s_pos s_kind q_name rr_owner rr_data rr_rdlen rr_end]; [| |exact I].
    + destruct Hx as [Hg [He [He' [Hc Hc']]]].
      pose proof (into_cname_sat m rec Hg) as Hi.
      destruct (into_cname m rec) as [[t|]|e| |]; cbn [sat bind fst snd no_panic item_ok unwrap_opt s_err s_cnt s_pos s_kind q_name rr_owner rr_data rr_rdlen rr_end] in Hi; try contradiction.
      * eapply sat_bind; [apply pname_eq_sat; [destruct Hg as [Hg _]; exact Hg|exact Hn]|].
        intros b _. destruct b; [cbn [sat bind fst snd no_panic item_ok unwrap_opt s_err s_cnt s_pos s_kind q_name rr_owner rr_data rr_rdlen rr_end]; exact Hi|]. apply Hrec; auto.
      * apply Hrec; auto.
      * apply Hrec; auto.
    + destruct Hx as [He [He' Hc]]. apply IH; [exact Hn|].
      unfold fuel_ok in *. rewrite He in Hf. rewrite He'. lia.
Qed.

Lemma cname_chase_sat : forall rounds scan m ans name, good_name m name -> fuel_ok scan ans ->
  sat (cname_chase rounds scan m ans name) (fun o => match o with Some p => good_name m p | None => True end).
Proof.
  induction rounds as [|rounds IH]; intros scan m ans name Hn Hf; cbn [cname_chase]; [exact I|].
  eapply sat_bind; [apply cname_scan_sat; [exact Hn|exact Hf]|].
  intros o Ho. cbv beta in *. destruct o as [t|]; [apply IH; [exact Ho|exact Hf]|cbn [sat]; exact Hn].
Qed.

(* the loop bound is computed without overflow (the u32 widening) *)
Lemma canonical_rounds_sat an : sat (canonical_rounds an) (fun r => r = an + 1).
Proof. unfold canonical_rounds, canon_wide, canon_extra. cbn [sat bind fst snd no_panic item_ok unwrap_opt s_err s_cnt s_pos s_kind q_name rr_owner rr_data rr_rdlen rr_end]. reflexivity. Qed.

Lemma canonical_rounds_eq an : canonical_rounds an = Ok (an + 1).
Proof. reflexivity. Qed.

Example canonical_rounds_65535 : canonical_rounds 65535 = Ok 65536.
Proof. reflexivity. Qed.

Lemma canonical_name_sat m : has_header m ->
  sat (canonical_name m) (fun o => match o with Some p => good_name m p | None => True end).
Proof.
  intros Hh. unfold canonical_name.
  eapply sat_bind; [apply first_question_sat; exact Hh|]. intros fq Hfq. cbv beta in *.
  destruct fq as [q|]; [|cbn [sat bind fst snd no_panic item_ok unwrap_opt s_err s_cnt s_pos s_kind q_name rr_owner rr_data rr_rdlen rr_end]; exact I].
  pose proof (msg_answer_sat m Hh) as Ha.
  destruct (msg_answer m) as [ans|e| |]; cbn [sat bind fst snd no_panic item_ok unwrap_opt s_err s_cnt s_pos s_kind q_name rr_owner rr_data rr_rdlen rr_end] in Ha; try contradiction; [|cbn [sat bind fst snd no_panic item_ok unwrap_opt s_err s_cnt s_pos s_kind q_name rr_owner rr_data rr_rdlen rr_end]; exact I].
  destruct (count_offsets m Hh) as [_ [Han _]].
  eapply sat_bind; [apply count_at_sat; exact Han|]. intros an _. cbv beta in *.
  eapply sat_bind; [apply canonical_rounds_sat|]. intros rounds _. cbv beta in *.
  apply cname_chase_sat; [exact Hfq|apply sec_fuel_ok].
Qed.

(* ------------------------------------------------------------------ opt *)
Lemma opt_check_sat : forall fuel m pos lim acc, lim <= mlen m ->
  (N.to_nat (lim - pos) < fuel)%nat -> sat (opt_check fuel m pos lim acc) (fun _ => True).
Proof.
  induction fuel as [|fuel IH]; intros m pos lim acc Hl Hf; [lia|].
  cbn [opt_check].
  destruct (N.ltb_spec 0 (lim - pos)) as [H0|H0]; [|cbn [sat bind fst snd no_panic item_ok unwrap_opt s_err s_cnt s_pos s_kind q_name rr_owner rr_data rr_rdlen rr_end]; exact I].
  destruct (N.ltb_spec (lim - pos) 2) as [H2|H2]; [cbn [sat bind fst snd no_panic item_ok unwrap_opt s_err s_cnt s_pos s_kind q_name rr_owner rr_data rr_rdlen rr_end]; exact I|].
  eapply sat_bind; [apply u16_at_sat; exact Hl|]. intros code _. cbv beta in *.
  eapply sat_bind; [apply u16_at_sat; exact Hl|]. intros len H4. cbv beta in *.
  destruct (N.ltb_spec (lim - (pos + 4)) len) as [H5|H5]; [cbn [sat bind fst snd no_panic item_ok unwrap_opt s_err s_cnt s_pos s_kind q_name rr_owner rr_data rr_rdlen rr_end]; exact I|].
  cbv beta in H4. apply IH; [exact Hl|lia].
Qed.

Lemma into_opt_sat m r : good_rr m (mlen m) r -> sat (into_opt m r) (fun _ => True).
Proof.
  intros [_ [Hd _]]. unfold into_opt.
  destruct (mlen m - rr_data r <? rr_rdlen r); cbn [sat bind fst snd no_panic item_ok unwrap_opt s_err s_cnt s_pos s_kind q_name rr_owner rr_data rr_rdlen rr_end]; [exact I|]. cbv zeta.
  destruct (rr_type r =? RT_OPT); cbn [sat bind fst snd no_panic item_ok unwrap_opt s_err s_cnt s_pos s_kind q_name rr_owner rr_data rr_rdlen rr_end]; [|exact I].
  eapply sat_bind; [apply opt_check_sat; [exact Hd|lia]|]. intros os _. cbv beta in *. cbn [sat bind fst snd no_panic item_ok unwrap_opt s_err s_cnt s_pos s_kind q_name rr_owner rr_data rr_rdlen rr_end]. exact I.
Qed.

Lemma opt_scan_sat : forall fuel m s, fuel_ok fuel s -> sat (opt_scan fuel m s) (fun _ => True).
Proof.
  induction fuel as [|fuel IH]; intros m s Hf.
  - exfalso. unfold fuel_ok in Hf. destruct (s_err s); lia.
  - cbn [opt_scan].
    pose proof (sec_next_sat (fun pos => record_parse m pos (mlen m)) rr_end (good_rr m (mlen m))
                  (fun pos => record_parse_sat m pos (mlen m) (N.le_refl _)) s) as Hx.
    fold (r_next m) in Hx.
    destruct (r_next m s) as [[o s']|e| |]; cbn [sat bind fst snd no_panic item_ok unwrap_opt s_err s_cnt s_pos s_kind q_name rr_owner rr_data rr_rdlen rr_end] in Hx; try contradiction; cbn [bind]; [|exact I].
    destruct Hx as [_ Hx]. cbn [fst snd] in Hx.
    destruct o as [[rec|e]|]; cbn [sat bind fst snd no_panic item_ok unwrap_opt s_err s_cnt s_pos s_kind q_name rr_owner rr_data rr_rdlen rr_end]; try exact I.
    destruct Hx as [Hg [He [He' [Hc Hc']]]].
    pose proof (into_opt_sat m rec Hg) as Hi.
    destruct (into_opt m rec) as [[os|]|e| |]; cbn [sat bind fst snd no_panic item_ok unwrap_opt s_err s_cnt s_pos s_kind q_name rr_owner rr_data rr_rdlen rr_end] in Hi; try contradiction; cbn [sat bind fst snd no_panic item_ok unwrap_opt s_err s_cnt s_pos s_kind q_name rr_owner rr_data rr_rdlen rr_end]; try exact I.
    apply IH. unfold fuel_ok in *. rewrite He in Hf. rewrite He'. lia.
Qed.

Lemma msg_opt_sat m : has_header m -> sat (msg_opt m) (fun _ => True).
Proof.
  intros Hh. unfold msg_opt. pose proof (msg_additional_sat m Hh) as Ha.
  destruct (msg_additional m) as [s|e| |]; cbn [sat bind fst snd no_panic item_ok unwrap_opt s_err s_cnt s_pos s_kind q_name rr_owner rr_data rr_rdlen rr_end] in Ha; try contradiction; [|cbn [sat bind fst snd no_panic item_ok unwrap_opt s_err s_cnt s_pos s_kind q_name rr_owner rr_data rr_rdlen rr_end]; exact I].
  apply opt_scan_sat. apply sec_fuel_ok.
Qed.
