(* C01 proofs, part 6 (widening round 2): the dig printer's unwraps are
   unreachable and its whole walk is total; RecordIter for every data type,
   copy_records (read side) and get_last_additional are total; the any-order
   machine with these calls added is total. *)
From Coq Require Import NArith List Bool Lia ZArith.
From Coq Require Import ZifyN ZifyBool ZifyNat.
From DV Require Import Base.Outcome Base.Bytes Base.Names Base.PName C01.Gen C01.Model C01.Model2 C01.Model3.
From DV Require Import C05.Schema C05.Model.
From DV Require Import C01.Proofs C01.Proofs2 C01.Proofs3 C01.Proofs4 C01.Proofs5.
Import ListNotations.
Local Open Scope N_scope.
Ltac Zify.zify_post_hook ::= Z.div_mod_to_equations.

(* ------------------------------------------------------------ drain facts *)
Lemma drain_app {A} (next : sect -> outcome (option (item A) * sect)) :
  forall fuel s acc l s', drain next fuel s acc = Ok (l, s') -> exists more, l = rev acc ++ more.
Proof.
  induction fuel as [|fuel IH]; intros s acc l s' H; [discriminate|].
  cbn [drain] in H. destruct (next s) as [[o s1]|e| |]; cbn [bind] in H; try discriminate.
  destruct o as [it|].
  - apply IH in H. destruct H as [more Hm]. exists ((it, s1) :: more).
    rewrite Hm. cbn [rev]. rewrite <- app_assoc. reflexivity.
  - inversion H; subst. exists []. rewrite app_nil_r. reflexivity.
Qed.

Lemma has_err_app {A} (a b : list (item A * sect)) : has_err (a ++ b) = has_err a || has_err b.
Proof. unfold has_err. apply existsb_app. Qed.

Lemma has_err_rev {A} (a : list (item A * sect)) : has_err (rev a) = has_err a.
Proof.
  unfold has_err. induction a as [|x a IH]; [reflexivity|].
  cbn [rev existsb]. rewrite existsb_app, IH. cbn [existsb].
  destruct (negb (is_iok (fst x))); destruct (existsb _ a); reflexivity.
Qed.

Section Clean.
  Context {A : Type} (parse : N -> outcome A) (endof : A -> N).

  Lemma sec_next_cases s o s1 :
    sec_next parse endof s = Ok (o, s1) -> s_err s = None ->
    (o = None /\ s1 = s) \/
    (exists a, o = Some (IOk a) /\ parse (s_pos s) = Ok a /\ 0 < s_cnt s /\
               s1 = mkSect (endof a) (s_cnt s - 1) None (s_kind s)) \/
    (exists e, o = Some (IErr e)).
  Proof.
    unfold sec_next. intros H He. rewrite He in H.
    destruct (N.ltb_spec 0 (s_cnt s)) as [Hc|Hc].
    - destruct (parse (s_pos s)) as [a|e| |] eqn:Ep; inversion H; subst.
      + right. left. exists a. auto.
      + right. right. eauto.
    - inversion H; subst. left. auto.
  Qed.

  (* a run without an error item ends in a state without error *)
  Lemma drain_noerr : forall fuel s acc l s',
    drain (sec_next parse endof) fuel s acc = Ok (l, s') -> s_err s = None ->
    has_err l = false -> s_err s' = None.
  Proof.
    induction fuel as [|fuel IH]; intros s acc l s' H He Hl; [discriminate|].
    cbn [drain] in H. destruct (sec_next parse endof s) as [[o s1]|e| |] eqn:En; cbn [bind] in H; try discriminate.
    destruct (sec_next_cases s o s1 En He) as [[Ho Hs]|[[a [Ho [Hp [Hc Hs]]]]|[e Ho]]]; subst o.
    - inversion H; subst. exact He.
    - subst s1. eapply IH; [exact H|reflexivity|exact Hl].
    - exfalso. apply drain_app in H. destruct H as [more Hm]. subst l.
      rewrite has_err_app, has_err_rev in Hl. cbn in Hl. discriminate.
  Qed.
End Clean.

(* what a clean parse-run over a record section did, a skip-run does too, and
   it ends in the very same state *)
Lemma parse_skip_drain m : forall fuel s acc l s',
  s_err s = None -> drain (r_next m) fuel s acc = Ok (l, s') -> has_err l = false ->
  forall acc2, exists l2, drain (r_skip_next m) fuel s acc2 = Ok (l2, s').
Proof.
  induction fuel as [|fuel IH]; intros s acc l s' He H Hl acc2; [discriminate|].
  cbn [drain] in H |- *. unfold r_next in H at 1.
  destruct (sec_next (fun pos => record_parse m pos (mlen m)) rr_end s) as [[o s1]|e| |] eqn:En; cbn [bind] in H; try discriminate.
  destruct (sec_next_cases _ _ s o s1 En He) as [[Ho Hs]|[[a [Ho [Hp [Hc Hs]]]]|[e Ho]]]; subst o.
  - inversion H; subst. unfold r_skip_next, sec_next. rewrite He.
    unfold sec_next in En. rewrite He in En.
    destruct (0 <? s_cnt s'); [destruct (record_parse m (s_pos s') (mlen m)); discriminate|].
    cbn [bind]. eauto.
  - subst s1. unfold r_skip_next at 1. unfold sec_next at 1. rewrite He.
    destruct (N.ltb_spec 0 (s_cnt s)); [|lia].
    rewrite (parse_accepts_skip_accepts _ _ _ _ Hp). cbn [bind].
    eapply IH; [reflexivity|exact H|exact Hl].
  - exfalso. apply drain_app in H. destruct H as [more Hm]. subst l.
    rewrite has_err_app, has_err_rev in Hl. cbn in Hl. discriminate.
Qed.

Lemma count_at_ok m off : off + 2 <= mlen m -> exists c, count_at m off = Ok c.
Proof.
  intros H. unfold count_at.
  destruct (get_some m off) as [a Ha]; [lia|]. destruct (get_some m (off + 1)) as [b Hb]; [lia|].
  rewrite Ha, Hb. eauto.
Qed.

(* section.next_section().unwrap().unwrap() after a loop that met no error *)
Theorem next_section_after_clean m s l s' :
  has_header m -> s_kind s < 3 -> s_err s = None ->
  drain (r_next m) (sec_fuel s) s [] = Ok (l, s') -> has_err l = false ->
  exists n, r_next_section m s = Ok (Some n) /\ s_kind n = s_kind s + 1 /\ s_err n = None.
Proof.
  intros Hh Hk He H Hl. unfold r_next_section.
  destruct (N.leb_spec 3 (s_kind s)); [lia|].
  destruct (parse_skip_drain m _ _ _ _ _ He H Hl []) as [l2 E2]. rewrite E2. cbn [bind snd].
  unfold r_next in H. rewrite (drain_noerr _ _ _ _ _ _ _ H He Hl).
  unfold record_section. destruct (count_at_ok m (kind_off (s_kind s + 1)) (kind_off_ok m _ Hh)) as [c Ec].
  rewrite Ec. cbn [bind]. eexists. split; [reflexivity|]. auto.
Qed.

(* questions.answer().unwrap() after a loop that met no error *)
Theorem answer_after_clean m qs l s' :
  has_header m -> s_err qs = None ->
  drain (q_next m) (sec_fuel qs) qs [] = Ok (l, s') -> has_err l = false ->
  exists a, q_to_answer m qs = Ok a /\ s_kind a = 1 /\ s_err a = None.
Proof.
  intros Hh He H Hl. unfold q_to_answer. rewrite H. cbn [bind snd].
  unfold q_next in H. rewrite (drain_noerr _ _ _ _ _ _ _ H He Hl).
  unfold record_section. destruct (count_at_ok m (kind_off 1) (kind_off_ok m _ Hh)) as [c Ec].
  rewrite Ec. cbn [bind]. eexists. split; [reflexivity|]. auto.
Qed.

(* --------------------------------------------------------- dig printer *)
Lemma r_toks_sat m skip : forall l,
  Forall (fun x : item rr * sect => item_ok (good_rr m (mlen m)) (fst x)) l ->
  sat (r_toks m skip l) (fun _ => True).
Proof.
  induction l as [|[it s'] t IH]; intros H; cbn [r_toks]; [exact I|].
  inversion H as [|x l' Hx Ht]; subst. cbn [fst] in Hx. destruct it as [r|e]; [|exact I].
  destruct (skip && (rr_type r =? RT_OPT)); [apply IH; exact Ht|].
  eapply sat_bind; [apply typed_rdata_sat; exact Hx|]. intros ty _.
  eapply sat_bind; [apply IH; exact Ht|]. intros rest _. exact I.
Qed.

Lemma drain_zero m s : s_err s = None -> s_cnt s = 0 ->
  drain (r_next m) (sec_fuel s) s [] = Ok ([], s).
Proof.
  intros He Hc. unfold sec_fuel. cbn [drain]. unfold r_next, sec_next. rewrite He, Hc. reflexivity.
Qed.

Lemma dig_section_sat m s print skip :
  sat (dig_section m s print skip)
      (fun r => snd r = false ->
                print = false \/
                exists l s', drain (r_next m) (sec_fuel s) s [] = Ok (l, s') /\ has_err l = false).
Proof.
  unfold dig_section.
  pose proof (drain_r_next_sat m s) as Hd.
  destruct (drain (r_next m) (sec_fuel s) s []) as [[l s']|e| |] eqn:Ed; cbn [sat] in Hd; try contradiction; cbn [bind fst snd]; [|exact I].
  destruct Hd as [Hall _]. destruct print.
  - eapply sat_bind; [apply r_toks_sat; exact Hall|]. intros toks _. cbn [sat snd]. eauto.
  - cbn [sat snd]. auto.
Qed.

(* a section whose loop the printer does not enter has a count of 0 (the guard
   is `count > 0`), so there is nothing next_section could stumble over *)
Lemma clean_or_unprinted m s (P : Prop) :
  s_err s = None ->
  ((dig_section_gt <? s_cnt s) = false \/
   exists l s', drain (r_next m) (sec_fuel s) s [] = Ok (l, s') /\ has_err l = false) ->
  exists l s', drain (r_next m) (sec_fuel s) s [] = Ok (l, s') /\ has_err l = false.
Proof.
  intros He [Hp|H]; [|exact H]. unfold dig_section_gt in Hp.
  assert (Hc : s_cnt s = 0) by lia.
  exists [], s. split; [apply drain_zero; assumption|reflexivity].
Qed.

Lemma unwrap_res_ok {A} (x : outcome A) a : x = Ok a -> unwrap_res x = Ok a.
Proof. intros E. rewrite E. reflexivity. Qed.

(* the whole printer: no unwrap on an Err or a None, no panic *)
Theorem dig_walk_total m : has_header m -> no_panic (dig_walk m).
Proof.
  intros Hh. apply (sat_no_panic _ (fun _ => True)). unfold dig_walk.
  eapply sat_bind; [apply msg_opt_typed_sat; exact Hh|]. intros optv _. cbv zeta.
  pose proof (question_section_sat m Hh) as Hq.
  destruct (question_section m) as [qs|e| |] eqn:Eq; cbn [sat] in Hq; try contradiction; cbn [bind]; [|exact I].
  destruct Hq as [_ Hqe].
  pose proof (drain_q_next_sat m qs) as Hd.
  destruct (drain (q_next m) (sec_fuel qs) qs []) as [[ql qs']|e| |] eqn:Edq; cbn [sat] in Hd; try contradiction; cbn [bind fst snd]; [|exact I].
  destruct (has_err ql) eqn:Eql; [exact I|].
  destruct (answer_after_clean m qs ql qs' Hh Hqe Edq Eql) as [an [Ean [Hank Hane]]].
  rewrite (unwrap_res_ok _ _ Ean). cbn [bind].
  eapply sat_bind; [apply dig_section_sat|]. intros a Ha. cbv beta in Ha.
  destruct (snd a) eqn:Ea; [exact I|].
  destruct (clean_or_unprinted m an True Hane (Ha eq_refl)) as [la [sa [Eda Hla]]].
  destruct (next_section_after_clean m an la sa Hh ltac:(lia) Hane Eda Hla) as [ns [Ens [Hnsk Hnse]]].
  rewrite (unwrap_res_ok _ _ Ens). cbn [bind unwrap_opt].
  eapply sat_bind; [apply dig_section_sat|]. intros b Hb. cbv beta in Hb.
  destruct (snd b) eqn:Eb; [exact I|].
  destruct (clean_or_unprinted m ns True Hnse (Hb eq_refl)) as [lb [sb [Edb Hlb]]].
  destruct (next_section_after_clean m ns lb sb Hh ltac:(lia) Hnse Edb Hlb) as [ar [Ear [Hark Hare]]].
  rewrite (unwrap_res_ok _ _ Ear). cbn [bind unwrap_opt].
  eapply sat_bind; [apply dig_section_sat|]. intros c _. exact I.
Qed.

Example dig_walk_example :
  dig_walk [0;7;128;0; 0;1; 0;1; 0;0; 0;0;  1;97;0; 0;1; 0;1;  192;12; 0;1; 0;1; 0;0;0;60; 0;3; 1;2;3] =
  Ok [TQHdr; TQ; TSecHdr 1; TRec false].
Proof. vm_compute. reflexivity. Qed.

(* ----------------------------------------------------------- RecordIter *)
Lemma typed_sel_sat m r sl : good_rr m (mlen m) r -> sat (typed_sel m r sl) (fun _ => True).
Proof.
  intros Hg. destruct sl; cbn [typed_sel].
  - apply typed_rdata_sat. exact Hg.
  - destruct ((rr_type r =? 10) || (rr_type r =? 41) || (rr_type r =? 250)); [exact I|].
    apply typed_rdata_sat. exact Hg.
  - destruct (rr_type r =? t); [apply typed_rdata_sat; exact Hg|exact I].
Qed.

Lemma limit_count_sat : forall fuel m s sl io ok err, fuel_ok fuel s ->
  sat (limit_count fuel m s sl io ok err) (fun _ => True).
Proof.
  induction fuel as [|fuel IH]; intros m s sl io ok err Hf.
  - exfalso. unfold fuel_ok in Hf. destruct (s_err s); lia.
  - cbn [limit_count].
    pose proof (sec_next_sat (fun pos => record_parse m pos (mlen m)) rr_end (good_rr m (mlen m))
                  (fun pos => record_parse_sat m pos (mlen m) (N.le_refl _)) s) as Hx.
    fold (r_next m) in Hx.
    destruct (r_next m s) as [[o s']|e| |]; cbn [sat] in Hx; try contradiction; cbn [bind]; [|exact I].
    destruct Hx as [_ Hx]. cbn [fst snd] in Hx.
    destruct o as [[rec|e]|]; [| |exact I].
    + destruct Hx as [Hg [He [He' [Hc Hc']]]].
      assert (Hf' : fuel_ok fuel s') by (unfold fuel_ok in *; rewrite He in Hf; rewrite He'; lia).
      destruct (io && negb (rr_class rec =? 1)); [apply IH; exact Hf'|].
      eapply sat_bind; [apply typed_sel_sat; exact Hg|]. intros ty _.
      destruct ty as [[u|e]|]; apply IH; exact Hf'.
    + destruct Hx as [He [He' Hc]]. apply IH. unfold fuel_ok in *. rewrite He in Hf. rewrite He'. lia.
Qed.

Theorem limit_to_total m s sl io : no_panic (limit_to m s sl io).
Proof. eapply sat_no_panic. apply limit_count_sat. apply sec_fuel_ok. Qed.

(* ------------------------------------------- copy_records, get_last_additional *)
Lemma copy_section_sat m s : sat (copy_section m s) (fun _ => True).
Proof.
  unfold copy_section. eapply sat_bind; [apply drain_r_next_sat|]. intros r _.
  destruct (first_err (fst r)); exact I.
Qed.

Theorem copy_records_read_total m : has_header m -> no_panic (copy_records_read m).
Proof.
  intros Hh. apply (sat_no_panic _ (fun _ => True)). unfold copy_records_read.
  pose proof (msg_answer_sat m Hh) as Ha.
  destruct (msg_answer m) as [an|e| |]; cbn [sat] in Ha; try contradiction; [|exact I].
  (* the iterator handed to next_section is the one the loop has advanced; its
     kind is unchanged, so next_section yields Some for answer and authority *)
  unfold copy_section.
  pose proof (drain_r_next_sat m an) as H1.
  destruct (drain (r_next m) (sec_fuel an) an []) as [[l1 s1]|e| |]; cbn [sat] in H1; try contradiction; cbn [bind fst snd]; [|exact I].
  destruct H1 as [_ Hk1]. cbv beta in *. cbn [fst snd] in *. destruct (first_err l1); cbn [bind]; [exact I|].
  pose proof (r_next_section_sat m s1 Hh) as Hn1.
  destruct (r_next_section m s1) as [o1|e| |]; cbn [sat] in Hn1; try contradiction; [|exact I].
  destruct Hn1 as [ns [Eo1 Hnsk]]; [lia|]. subst o1. cbn [unwrap_opt bind].
  pose proof (drain_r_next_sat m ns) as H2.
  destruct (drain (r_next m) (sec_fuel ns) ns []) as [[l2 s2]|e| |]; cbn [sat] in H2; try contradiction; cbn [bind fst snd]; [|exact I].
  destruct H2 as [_ Hk2]. cbv beta in *. cbn [fst snd] in *. destruct (first_err l2); cbn [bind]; [exact I|].
  pose proof (r_next_section_sat m s2 Hh) as Hn2.
  destruct (r_next_section m s2) as [o2|e| |]; cbn [sat] in Hn2; try contradiction; [|exact I].
  destruct Hn2 as [ar [Eo2 Hark]]; [lia|]. subst o2. cbn [unwrap_opt bind].
  pose proof (drain_r_next_sat m ar) as H3.
  destruct (drain (r_next m) (sec_fuel ar) ar []) as [[l3 s3]|e| |]; cbn [sat] in H3; try contradiction; cbn [bind fst snd]; [|exact I].
  destruct (first_err l3); exact I.
Qed.

Lemma to_last_sat : forall fuel m s, fuel_ok fuel s -> sat (to_last fuel m s) (fun _ => True).
Proof.
  induction fuel as [|fuel IH]; intros m s Hf.
  - exfalso. unfold fuel_ok in Hf. destruct (s_err s); lia.
  - cbn [to_last]. destruct (s_err s) eqn:He; [exact I|].
    unfold last_none, last_one.
    destruct (N.eqb_spec (s_cnt s) 0); [exact I|]. destruct (N.eqb_spec (s_cnt s) 1); [exact I|].
    pose proof (r_next_sat m s) as Hx.
    destruct (r_next m s) as [[o s']|e| |] eqn:En; cbn [sat] in Hx; try contradiction; cbn [bind snd]; [|exact I].
    apply IH. unfold fuel_ok in *. rewrite He in Hf.
    unfold r_next in En.
    destruct (sec_next_cases _ _ s o s' En He) as [[Ho Hs]|[[a [Ho [Hp [Hc Hs]]]]|[e Ho]]].
    + (* None with a count of at least 2: impossible *)
      exfalso. unfold sec_next in En. rewrite He in En.
      destruct (N.ltb_spec 0 (s_cnt s)); [|lia].
      destruct (record_parse m (s_pos s) (mlen m)); subst o; discriminate.
    + subst s'. cbn [s_err s_cnt]. lia.
    + subst o. unfold sec_next in En. rewrite He in En.
      destruct (0 <? s_cnt s); [|discriminate].
      destruct (record_parse m (s_pos s) (mlen m)); inversion En; subst. cbn [s_err]. lia.
Qed.

Theorem get_last_additional_total m : has_header m -> no_panic (get_last_additional m).
Proof.
  intros Hh. apply (sat_no_panic _ (fun _ => True)). unfold get_last_additional.
  pose proof (msg_additional_sat m Hh) as Ha.
  destruct (msg_additional m) as [s|e| |]; cbn [sat] in Ha; try contradiction; [|exact I].
  eapply sat_bind; [apply to_last_sat; apply sec_fuel_ok|]. intros l _.
  destruct l as [s'|]; [|exact I].
  pose proof (record_parse_sat m (s_pos s') (mlen m) (N.le_refl _)) as Hr.
  destruct (record_parse m (s_pos s') (mlen m)) as [r|e| |]; cbn [sat] in Hr; try contradiction; [|exact I].
  eapply sat_bind; [apply typed_rdata_sat; exact Hr|]. intros ty _. exact I.
Qed.

(* --------------------------------------------- the any-order machine, extended *)
Lemma run_op3_sat m st o : has_header m -> sat (run_op3 m st o) (fun _ => True).
Proof.
  intros Hh. destruct o; cbn [run_op3].
  - eapply sat_bind; [apply run_op_sat; exact Hh|]. intros r _. exact I.
  - destruct (nth_error st i) as [s|]; [|exact I]. destruct (s_kind s =? 0); [exact I|].
    eapply sat_bind; [apply no_panic_sat; apply limit_to_total|]. intros c _. exact I.
  - eapply sat_bind; [apply no_panic_sat; apply copy_records_read_total; exact Hh|]. intros v _. exact I.
  - eapply sat_bind; [apply no_panic_sat; apply get_last_additional_total; exact Hh|]. intros v _. exact I.
  - eapply sat_bind; [apply no_panic_sat; apply dig_walk_total; exact Hh|]. intros v _. exact I.
Qed.

Lemma run_ops3_sat m : forall ops st, has_header m -> sat (run_ops3 m st ops) (fun _ => True).
Proof.
  induction ops as [|o t IH]; intros st Hh; cbn [run_ops3]; [exact I|].
  eapply sat_bind; [apply run_op3_sat; exact Hh|]. intros r _.
  eapply sat_bind; [apply IH; exact Hh|]. intros rest _. exact I.
Qed.

Theorem read_ops3_total m ops : no_panic (read_ops3 m ops).
Proof.
  apply (sat_no_panic _ (fun _ => True)). unfold read_ops3.
  destruct (from_octets_ok m) eqn:Eh; cbn [negb]; [|exact I].
  assert (Hh : has_header m) by (unfold from_octets_ok in Eh; unfold has_header; lia).
  eapply sat_bind; [apply run_ops3_sat; exact Hh|]. intros r _. exact I.
Qed.

Example read_ops3_example :
  read_ops3 [0;7;128;0; 0;1; 0;1; 0;0; 0;0;  1;97;0; 0;1; 0;1;  192;12; 0;1; 0;1; 0;0;0;60; 0;4; 1;2;3;4]
            [O2 OAnswer; OLimit 0 1; OLimit 0 5; OCopy; OLast; ODig] =
  Ok (Some [R2 (RPos 19); RCount 1 0; RCount 0 0; RCopy (IOk (1, 0, 0)); RLast None;
            RDig [TQHdr; TQ; TSecHdr 1; TRec true]]).
Proof. vm_compute. reflexivity. Qed.
