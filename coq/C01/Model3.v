(* C01 model, part 3 (widening round 2):
     - the control flow of the dig-style printer (base/dig_printer.rs): which
       lines it writes and in particular its unwraps:
         questions.answer().unwrap()
         section.next_section().unwrap().unwrap()   (twice)
     - RecordIter (RecordSection::limit_to / limit_to_in / into_records) for
       AllRecordData, ZoneRecordData and single record types;
     - the read side of Message::copy_records and Message::get_last_additional. *)
From Coq Require Import NArith List Bool.
From DV Require Import Base.Outcome Base.Bytes Base.Names Base.PName C01.Gen C01.Model C01.Model2.
From DV Require Import C05.Schema C05.Model.
Import ListNotations.
Local Open Scope N_scope.

Definition is_iok {A} (x : item A) : bool := match x with IOk _ => true | IErr _ => false end.

Definition has_err {A} (l : list (item A * sect)) : bool :=
  existsb (fun x => negb (is_iok (fst x))) l.

(* ------------------------------------------------------------------------ *)
(* dig printer *)
Inductive dtok :=
| TOpt (opts : list bool)      (* OPT pseudosection: one line per option, false = "ERROR: bad option" *)
| TQHdr | TQ                   (* ";; QUESTION SECTION:", one question line *)
| TSecHdr (k : N)              (* 1 ANSWER, 2 AUTHORITY, 3 ADDITIONAL *)
| TRec (ok : bool)             (* a record line; false = "<invalid data>" *)
| TInvalid.                    (* "; <invalid message>" and return *)

Fixpoint q_toks (l : list (item question * sect)) : list dtok :=
  match l with
  | [] => []
  | (IOk _, _) :: t => TQ :: q_toks t
  | (IErr _, _) :: _ => [TInvalid]
  end.

(* write_record_item for every item of a section; OPT records are left out
   of the additional section *)
Fixpoint r_toks (m : bytes) (skip_opt : bool) (l : list (item rr * sect)) : outcome (list dtok) :=
  match l with
  | [] => Ok []
  | (IErr _, _) :: _ => Ok [TInvalid]
  | (IOk r, _) :: t =>
      if skip_opt && (rr_type r =? RT_OPT) then r_toks m skip_opt t
      else
        do ty <- typed_rdata m r;
        do rest <- r_toks m skip_opt t;
        Ok (TRec (match ty with Some (IOk _) => true | _ => false end) :: rest)
  end.

(* one record section: the lines, whether the printer returned early, and the
   section iterator as it was when the loop started (sections are Copy: the
   loop consumes a copy, next_section starts over from here) *)
Definition dig_section (m : bytes) (s : sect) (print : bool) (skip_opt : bool)
  : outcome (list dtok * bool) :=
  do r <- drain (r_next m) (sec_fuel s) s [];
  if print then
    do toks <- r_toks m skip_opt (fst r);
    Ok (TSecHdr (s_kind s) :: toks, has_err (fst r))
  else Ok ([], false).                (* the loop is not entered *)

Definition unwrap_res {A} (x : outcome A) : outcome A :=
  match x with
  | Err _ => Panic P_UNWRAP
  | other => other
  end.

Definition dig_walk (m : bytes) : outcome (list dtok) :=
  do optv <- msg_opt_typed m;
  let t0 := match optv with
            | Some l => [TOpt (map (fun x : N * item unit => is_iok (snd x)) l)]
            | None => [] end in
  do qs <- question_section m;
  do qr <- drain (q_next m) (sec_fuel qs) qs [];
  let tq := if dig_section_gt <? s_cnt qs then TQHdr :: q_toks (fst qr) else [] in
  if has_err (fst qr) then Ok (t0 ++ tq) else      (* only possible when the count is > 0 *)
  do an <- unwrap_res (q_to_answer m qs);                               (* .unwrap() *)
  do a <- dig_section m an (dig_section_gt <? s_cnt an) false;
  if snd a then Ok (t0 ++ tq ++ fst a) else
  do o1 <- unwrap_res (r_next_section m an); do ns <- unwrap_opt o1;     (* .unwrap().unwrap() *)
  do b <- dig_section m ns (dig_section_gt <? s_cnt ns) false;
  if snd b then Ok (t0 ++ tq ++ fst a ++ fst b) else
  do o2 <- unwrap_res (r_next_section m ns); do ar <- unwrap_opt o2;     (* .unwrap().unwrap() *)
  let print_ar := (dig_ar_with_opt_gt <? s_cnt ar)
                  || (match optv with None => true | Some _ => false end) && (dig_ar_without_opt_gt <? s_cnt ar) in
  do c <- dig_section m ar print_ar true;
  Ok (t0 ++ tq ++ fst a ++ fst b ++ fst c).

Definition c01_dig (m : bytes) : outcome (option (list dtok)) :=
  if negb (from_octets_ok m) then Ok None else do r <- dig_walk m; Ok (Some r).

(* ------------------------------------------------------------------------ *)
(* RecordIter<Data>: limit_to::<Data>() / limit_to_in / into_records *)
Inductive sel := SelAll | SelZone | SelType (t : N).

(* Data::parse_rdata(rtype, ..): None = Ok(None), the record is not of a type
   Data covers *)
Definition typed_sel (m : bytes) (r : rr) (sl : sel) : outcome (option (item unit)) :=
  match sl with
  | SelAll => typed_rdata m r
  | SelZone =>
      if (rr_type r =? 10) || (rr_type r =? 41) || (rr_type r =? 250)
      then Ok (Some (IOk tt))                         (* pseudo types are opaque data here *)
      else typed_rdata m r
  | SelType t => if rr_type r =? t then typed_rdata m r else Ok None
  end.

(* the iterator run to its end: numbers of Ok and Err items *)
Fixpoint limit_count (fuel : nat) (m : bytes) (s : sect) (sl : sel) (in_only : bool) (ok err : N)
  : outcome (N * N) :=
  match fuel with
  | O => OutOfFuel
  | S fuel' =>
      do r <- r_next m s;
      match r with
      | (None, _) => Ok (ok, err)
      | (Some (IErr _), s') => limit_count fuel' m s' sl in_only ok (err + 1)
      | (Some (IOk rec), s') =>
          if in_only && negb (rr_class rec =? 1) then limit_count fuel' m s' sl in_only ok err
          else
            do ty <- typed_sel m rec sl;
            match ty with
            | Some (IOk _) => limit_count fuel' m s' sl in_only (ok + 1) err
            | Some (IErr _) => limit_count fuel' m s' sl in_only ok (err + 1)
            | None => limit_count fuel' m s' sl in_only ok err
            end
      end
  end.

Definition limit_to (m : bytes) (s : sect) (sl : sel) (in_only : bool) : outcome (N * N) :=
  limit_count (sec_fuel s) m s sl in_only 0 0.

(* ------------------------------------------------------------------------ *)
(* Message::copy_records, read side: how many records of each section reach
   the closure, or the parse error that stops the copy *)
Definition first_err {A} (l : list (item A * sect)) : option N :=
  fold_right (fun x acc => match fst x with IErr e => Some e | IOk _ => acc end) None l.
(* (the iterator is fused, so at most one error, at the end) *)

Definition count_ok {A} (l : list (item A * sect)) : N :=
  N.of_nat (length (filter (fun x => is_iok (fst x)) l)).

Definition copy_section (m : bytes) (s : sect) : outcome (item (N * sect)) :=
  do r <- drain (r_next m) (sec_fuel s) s [];
  match first_err (fst r) with
  | Some e => Ok (IErr e)
  | None => Ok (IOk (count_ok (fst r), snd r))
  end.

Definition copy_records_read (m : bytes) : outcome (item (N * N * N)) :=
  match msg_answer m with
  | Err e => Ok (IErr e)
  | Panic p => Panic p
  | OutOfFuel => OutOfFuel
  | Ok an =>
      do c1 <- copy_section m an;
      match c1 with
      | IErr e => Ok (IErr e)
      | IOk (n1, s1) =>
          match r_next_section m s1 with
          | Err e => Ok (IErr e)
          | Panic p => Panic p
          | OutOfFuel => OutOfFuel
          | Ok o1 =>
              do ns <- unwrap_opt o1;
              do c2 <- copy_section m ns;
              match c2 with
              | IErr e => Ok (IErr e)
              | IOk (n2, s2) =>
                  match r_next_section m s2 with
                  | Err e => Ok (IErr e)
                  | Panic p => Panic p
                  | OutOfFuel => OutOfFuel
                  | Ok o2 =>
                      do ar <- unwrap_opt o2;
                      do c3 <- copy_section m ar;
                      match c3 with
                      | IErr e => Ok (IErr e)
                      | IOk (n3, _) => Ok (IOk (n1, n2, n3))
                      end
                  end
              end
          end
      end
  end.

(* Message::get_last_additional::<AllRecordData>: the record type, if any *)
Fixpoint to_last (fuel : nat) (m : bytes) (s : sect) : outcome (option sect) :=
  match fuel with
  | O => OutOfFuel
  | S fuel' =>
      match s_err s with
      | Some _ => Ok None
      | None =>
          if s_cnt s =? last_none then Ok None
          else if s_cnt s =? last_one then Ok (Some s)
          else do r <- r_next m s; to_last fuel' m (snd r)
      end
  end.

Definition get_last_additional (m : bytes) : outcome (option N) :=
  match msg_additional m with
  | Err _ => Ok None
  | Panic p => Panic p
  | OutOfFuel => OutOfFuel
  | Ok s =>
      do l <- to_last (sec_fuel s) m s;
      match l with
      | None => Ok None
      | Some s' =>
          match record_parse m (s_pos s') (mlen m) with
          | Err _ => Ok None
          | Panic p => Panic p
          | OutOfFuel => OutOfFuel
          | Ok r =>
              do ty <- typed_rdata m r;
              Ok (match ty with Some (IOk _) => Some (rr_type r) | _ => None end)
          end
      end
  end.

(* ------------------------------------------------------------------------ *)
(* more operations for the any-order machine *)
Inductive op3 :=
| O2 (o : op)
| OLimit (i : nat) (code : N)       (* 0 all, 65537 all in_only, 65536 zone, else one type *)
| OCopy | OLast | ODig.

Inductive res3 :=
| R2 (r : res)
| RCount (ok err : N)
| RCopy (v : item (N * N * N))
| RLast (t : option N)
| RDig (l : list dtok).

Definition sel_of (code : N) : sel * bool :=
  if code =? 0 then (SelAll, false)
  else if code =? 65537 then (SelAll, true)
  else if code =? 65536 then (SelZone, false)
  else (SelType code, false).

Definition run_op3 (m : bytes) (st : list sect) (o : op3) : outcome (res3 * list sect) :=
  match o with
  | O2 o' => do r <- run_op m st o'; Ok (R2 (fst r), snd r)
  | OLimit i code =>
      match nth_error st i with
      | Some s =>
          if s_kind s =? 0 then Ok (R2 RNone, st)
          else do c <- limit_to m s (fst (sel_of code)) (snd (sel_of code)); Ok (RCount (fst c) (snd c), st)
      | None => Ok (R2 RNone, st)
      end
  | OCopy => do v <- copy_records_read m; Ok (RCopy v, st)
  | OLast => do v <- get_last_additional m; Ok (RLast v, st)
  | ODig => do v <- dig_walk m; Ok (RDig v, st)
  end.

Fixpoint run_ops3 (m : bytes) (st : list sect) (ops : list op3) : outcome (list res3) :=
  match ops with
  | [] => Ok []
  | o :: t =>
      do r <- run_op3 m st o;
      do rest <- run_ops3 m (snd r) t;
      Ok (fst r :: rest)
  end.

Definition read_ops3 (m : bytes) (ops : list op3) : outcome (option (list res3)) :=
  if negb (from_octets_ok m) then Ok None
  else do r <- run_ops3 m [] ops; Ok (Some r).
