(* C01 proofs, part W (round 5 widening): bounds the section iterators keep.
   - a section iterator yields at most `count` items and an error item can
     only be the last one (no endless stream, whatever the element parser);
   - every position a section iterator ever holds, and the start of every
     section handed out by sections(), lies within the message;
   - a parsed question ends within the parser's limit;
   - ParsedName::skip accepts every name ParsedName::parse accepts and stops
     at the same position. *)
From Coq Require Import NArith List Bool Lia ZArith.
From Coq Require Import ZifyN ZifyBool ZifyNat.
From DV Require Import Base.Outcome Base.Bytes Base.Names Base.PName C01.Gen C01.Model C01.Model3.
From DV Require Import C01.Proofs C01.Proofs2 C01.Proofs3.
Import ListNotations.
Local Open Scope N_scope.
Ltac Zify.zify_post_hook ::= Z.div_mod_to_equations.
(* Qed must not unfold the fuelled name walk when converting question_parse / record_skip *)
#[local] Strategy opaque [parse_ref skip_name parse_labels].

(* ------------------------------------------------ name: parse then skip *)
Theorem parse_ref_skip_agree m pos lim p :
  parse_ref m pos lim = Ok p -> skip_name m pos lim = Ok (pn_end p).
Proof.
  intros H. rewrite parse_ref_eq in H. rewrite skip_name_eq.
  eapply parse_then_skip; [|exact H]. lia.
Qed.

Example parse_ref_skip_example :
  let m := [0;0; 1;97;0; 192;2] in
  (exists p, parse_ref m 5 7 = Ok p /\ pn_end p = 7) /\ skip_name m 5 7 = Ok 7.
Proof. split; [eexists; split; vm_compute; reflexivity|vm_compute; reflexivity]. Qed.

(* ------------------------------------------------------ question extent *)
Lemma u16_at_ok m pos lim v : u16_at m pos lim = Ok v -> pos + 2 <= lim.
Proof.
  unfold u16_at. destruct (N.ltb_spec (lim - pos) 2) as [H|H]; [discriminate|]. intros _. lia.
Qed.

Theorem question_extent_within m pos lim q :
  lim <= mlen m -> question_parse m pos lim = Ok q ->
  q_end q = pn_end (q_name q) + 4 /\ q_end q <= lim /\ q_end q <= mlen m.
Proof.
  intros Hl H. unfold question_parse in H.
  apply bind_ok in H. destruct H as [p [_ H]].
  apply bind_ok in H. destruct H as [ty [_ H]].
  apply bind_ok in H. destruct H as [cl [Hc H]].
  apply u16_at_ok in Hc. inversion H; subst q. cbn [q_end q_name]. lia.
Qed.

Example question_extent_example :
  match question_parse [1;97;0; 0;1; 0;1] 0 7 with
  | Ok q => q_end q = 7
  | _ => False
  end.
Proof. vm_compute. reflexivity. Qed.

Lemma record_skip_end m pos lim e : record_skip m pos lim = Ok e -> e <= lim.
Proof.
  unfold record_skip. intros H.
  apply bind_ok in H. destruct H as [e0 [_ H]].
  destruct (lim - e0 <? rr_fixed_skip); [discriminate|].
  apply bind_ok in H. destruct H as [rdlen [Hr H]]. apply u16_at_ok in Hr.
  cbv zeta in H.
  destruct (N.ltb_spec (lim - (e0 + rr_fixed_skip + 2)) rdlen) as [Hd|Hd]; [discriminate|].
  inversion H; subst e. lia.
Qed.

(* ------------------------------------------- iterators: count and bounds *)
Section Bound.
  Context {A : Type} (parse : N -> outcome A) (endof : A -> N).

  Lemma sec_next_cases3 s o s1 :
    sec_next parse endof s = Ok (o, s1) -> s_err s = None ->
    (o = None /\ s1 = s) \/
    (exists a, o = Some (IOk a) /\ parse (s_pos s) = Ok a /\ 0 < s_cnt s /\
               s1 = mkSect (endof a) (s_cnt s - 1) None (s_kind s)) \/
    (exists e, o = Some (IErr e) /\ 0 < s_cnt s /\
               s1 = mkSect (s_pos s) (s_cnt s) (Some e) (s_kind s)).
  Proof.
    unfold sec_next. intros H He. rewrite He in H.
    destruct (N.ltb_spec 0 (s_cnt s)) as [Hc|Hc].
    - destruct (parse (s_pos s)) as [a|e| |] eqn:Ep; inversion H; subst.
      + right. left. exists a. auto.
      + right. right. exists e. auto.
    - inversion H; subst. left. auto.
  Qed.

  (* at most `count` items; only the last one can be an error *)
  Lemma drain_bounded : forall fuel s acc l s',
    drain (sec_next parse endof) fuel s acc = Ok (l, s') -> s_err s = None ->
    exists more, l = rev acc ++ more /\ (length more <= N.to_nat (s_cnt s))%nat /\
                 has_err (removelast more) = false.
  Proof.
    induction fuel as [|fuel IH]; intros s acc l s' H He; [discriminate|].
    cbn [drain] in H.
    destruct (sec_next parse endof s) as [[o s1]|e| |] eqn:En; cbn [bind] in H; try discriminate.
    destruct (sec_next_cases3 s o s1 En He) as [[Ho Hs]|[[a [Ho [Hp [Hc Hs]]]]|[e [Ho [Hc Hs]]]]]; subst o.
    - inversion H; subst. exists []. rewrite app_nil_r. split; [reflexivity|]. split; [cbn; lia|reflexivity].
    - assert (He1 : s_err s1 = None) by (subst s1; reflexivity).
      destruct (IH _ _ _ _ H He1) as [more [Hl [Hn Hh]]].
      exists ((IOk a, s1) :: more). split.
      + rewrite Hl. cbn [rev]. rewrite <- app_assoc. reflexivity.
      + split.
        * subst s1. cbn [s_cnt] in Hn. cbn [length]. lia.
        * destruct more as [|y more']; [reflexivity|].
          change (removelast ((IOk a, s1) :: y :: more')) with ((IOk a, s1) :: removelast (y :: more')).
          unfold has_err in *. cbn [existsb fst is_iok negb orb]. exact Hh.
    - assert (He1 : s_err s1 = Some e) by (subst s1; reflexivity).
      destruct fuel as [|fuel]; [discriminate|]. cbn [drain] in H.
      rewrite (fuse_sticky parse endof s1 e He1) in H. cbn [bind] in H.
      inversion H; subst l s'. exists [(IErr e, s1)]. split; [reflexivity|].
      split; [cbn [length]; lia|reflexivity].
  Qed.

  Theorem section_yields_at_most_count fuel s l s' :
    drain (sec_next parse endof) fuel s [] = Ok (l, s') -> s_err s = None ->
    (length l <= N.to_nat (s_cnt s))%nat /\ has_err (removelast l) = false.
  Proof.
    intros H He. destruct (drain_bounded _ _ _ _ _ H He) as [more [Hl [Hn Hh]]].
    cbn [rev app] in Hl. subst l. split; assumption.
  Qed.

  (* a fused iterator yields nothing *)
  Theorem section_fused_yields_nothing fuel s e l s' :
    drain (sec_next parse endof) fuel s [] = Ok (l, s') -> s_err s = Some e -> l = [] /\ s' = s.
  Proof.
    intros H He. destruct fuel as [|fuel]; [discriminate|]. cbn [drain] in H.
    rewrite (fuse_sticky parse endof s e He) in H. cbn [bind rev] in H. inversion H. auto.
  Qed.

  (* positions: if every accepted element ends at or before B, an iterator
     that starts at or before B never holds a position beyond B *)
  Variable B : N.
  Hypothesis Hend : forall pos a, parse pos = Ok a -> endof a <= B.

  Lemma drain_pos_bound : forall fuel s acc l s',
    drain (sec_next parse endof) fuel s acc = Ok (l, s') -> s_pos s <= B ->
    Forall (fun x : item A * sect => s_pos (snd x) <= B) acc ->
    s_pos s' <= B /\ Forall (fun x : item A * sect => s_pos (snd x) <= B) l.
  Proof.
    induction fuel as [|fuel IH]; intros s acc l s' H Hs Hacc; [discriminate|].
    cbn [drain] in H.
    destruct (s_err s) as [e0|] eqn:He.
    - rewrite (fuse_sticky parse endof s e0 He) in H. cbn [bind] in H. inversion H; subst.
      split; [exact Hs|apply Forall_rev; exact Hacc].
    - destruct (sec_next parse endof s) as [[o s1]|e| |] eqn:En; cbn [bind] in H; try discriminate.
      destruct (sec_next_cases3 s o s1 En He) as [[Ho Hs1]|[[a [Ho [Hp [Hc Hs1]]]]|[e [Ho [Hc Hs1]]]]]; subst o.
      + inversion H; subst. split; [exact Hs|apply Forall_rev; exact Hacc].
      + assert (Hb : s_pos s1 <= B) by (subst s1; cbn [s_pos]; eapply Hend; exact Hp).
        eapply IH; [exact H|exact Hb|]. constructor; [exact Hb|exact Hacc].
      + assert (Hb : s_pos s1 <= B) by (subst s1; cbn [s_pos]; exact Hs).
        eapply IH; [exact H|exact Hb|]. constructor; [exact Hb|exact Hacc].
  Qed.
End Bound.

Theorem question_iter_within m fuel s l s' :
  drain (q_next m) fuel s [] = Ok (l, s') -> s_pos s <= mlen m ->
  s_pos s' <= mlen m /\ Forall (fun x : item question * sect => s_pos (snd x) <= mlen m) l.
Proof.
  intros H Hs. unfold q_next in H.
  eapply (drain_pos_bound _ q_end (mlen m)); [|exact H|exact Hs|constructor].
  intros pos a Hp. apply question_extent_within in Hp; [lia|lia].
Qed.

Theorem record_iter_within m fuel s l s' :
  drain (r_next m) fuel s [] = Ok (l, s') -> s_pos s <= mlen m ->
  s_pos s' <= mlen m /\ Forall (fun x : item rr * sect => s_pos (snd x) <= mlen m) l.
Proof.
  intros H Hs. unfold r_next in H.
  eapply (drain_pos_bound _ rr_end (mlen m)); [|exact H|exact Hs|constructor].
  intros pos a Hp. apply record_extent_within in Hp; [lia|lia].
Qed.

Lemma skip_iter_within m fuel s l s' :
  drain (r_skip_next m) fuel s [] = Ok (l, s') -> s_pos s <= mlen m -> s_pos s' <= mlen m.
Proof.
  intros H Hs. unfold r_skip_next in H.
  eapply (drain_pos_bound _ (fun e : N => e) (mlen m)); [|exact H|exact Hs|constructor].
  intros pos a Hp. apply record_skip_end in Hp. exact Hp.
Qed.

Example record_iter_example :
  let m := [0;7;128;0; 0;0; 0;2; 0;0; 0;0;  0; 0;1; 0;1; 0;0;0;9; 0;2; 7;7;  64] in
  let s := mkSect 12 2 None 1 in
  match drain (r_next m) (sec_fuel s) s [] with
  | Ok (l, s') => length l = 2%nat /\ has_err l = true /\ has_err (removelast l) = false /\
                  s_pos s' = 25 /\ mlen m = 26
  | _ => False
  end.
Proof. vm_compute. repeat split. Qed.

Example fused_yields_nothing_example :
  let s := mkSect 12 5 (Some E_SHORT) 1 in
  drain (r_next [1;2;3]) (sec_fuel s) s [] = Ok ([], s).
Proof. vm_compute. reflexivity. Qed.

(* ----------------------------------- sections(): every start is in bounds *)
Lemma record_section_pos m pos k s : record_section m pos k = Ok s -> s_pos s = pos.
Proof.
  unfold record_section. intros H. apply bind_ok in H. destruct H as [c [_ H]].
  inversion H; reflexivity.
Qed.

Lemma q_to_answer_pos m q a : q_to_answer m q = Ok a -> s_pos q <= mlen m -> s_pos a <= mlen m.
Proof.
  unfold q_to_answer. intros H Hq. apply bind_ok in H. destruct H as [[l s'] [Hd H]].
  cbn [snd] in H. destruct (s_err s'); [discriminate|].
  apply record_section_pos in H. rewrite H.
  apply question_iter_within in Hd; [tauto|exact Hq].
Qed.

Lemma r_next_section_pos m s n :
  r_next_section m s = Ok (Some n) -> s_pos s <= mlen m -> s_pos n <= mlen m.
Proof.
  unfold r_next_section. intros H Hs. destruct (3 <=? s_kind s); [discriminate|].
  apply bind_ok in H. destruct H as [[l s'] [Hd H]].
  cbn [snd] in H. destruct (s_err s'); [discriminate|].
  apply bind_ok in H. destruct H as [n0 [Hr H]]. inversion H; subst n0.
  apply record_section_pos in Hr. rewrite Hr.
  eapply skip_iter_within; [exact Hd|exact Hs].
Qed.

Theorem sections_within m q a ns ar :
  has_header m -> msg_sections m = Ok (q, a, ns, ar) ->
  s_pos q = header_len /\ s_pos q <= mlen m /\ s_pos a <= mlen m /\
  s_pos ns <= mlen m /\ s_pos ar <= mlen m.
Proof.
  intros Hh H. unfold msg_sections in H. unfold has_header in Hh.
  apply bind_ok in H. destruct H as [q0 [Hq H]].
  apply bind_ok in H. destruct H as [a0 [Ha H]].
  apply bind_ok in H. destruct H as [o1 [H1 H]].
  apply bind_ok in H. destruct H as [ns0 [Hn H]].
  apply bind_ok in H. destruct H as [o2 [H2 H]].
  apply bind_ok in H. destruct H as [ar0 [Hr H]].
  inversion H; subst q0 a0 ns0 ar0.
  unfold question_section in Hq. apply bind_ok in Hq. destruct Hq as [c [_ Hq]].
  inversion Hq; subst q. cbn [s_pos].
  assert (Hqa : s_pos a <= mlen m) by (eapply q_to_answer_pos; [exact Ha|cbn [s_pos]; exact Hh]).
  destruct o1 as [x|]; [|discriminate]. inversion Hn; subst x.
  assert (Hns : s_pos ns <= mlen m) by (eapply r_next_section_pos; [exact H1|exact Hqa]).
  destruct o2 as [x|]; [|discriminate]. inversion Hr; subst x.
  assert (Har : s_pos ar <= mlen m) by (eapply r_next_section_pos; [exact H2|exact Hns]).
  repeat split; assumption.
Qed.

Example sections_within_example :
  let m := [0;7;128;0; 0;1; 0;1; 0;0; 0;0;  1;97;0; 0;1; 0;1;  192;12; 0;1; 0;1; 0;0;0;9; 0;2; 7;7] in
  match msg_sections m with
  | Ok (q, a, ns, ar) => s_pos q = 12 /\ s_pos a = 19 /\ s_pos ns = 33 /\ s_pos ar = 33 /\ mlen m = 33
  | _ => False
  end.
Proof. vm_compute. repeat split. Qed.
