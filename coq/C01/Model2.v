(* C01 model, part 2 (widening):
     - ParsedName::{split_first, parent, iter_suffixes, as_flat_slice} and
       ParsedNameIter::next_back (base/name/parsed.rs), with their
       unwrap / expect / unreachable! / underflow / index sites explicit;
     - typed record data through the C05 schema (AllRecordData::parse_any_rdata
       over the RDLENGTH sub-parser, RecordHeader::parse_into_any_record);
     - the first-message dispatch of XfrResponseInterpreter
       (net/xfr/protocol/interpreter.rs check_response + Inner::new);
     - read-side calls in ANY order: a little machine whose state is the list of
       live section iterators (they are Copy) and whose operations are the
       public calls on Message / QuestionSection / RecordSection.

   Sites (Panic n), in addition to Model.v:
     16 unreachable!()    17 expect("illegal pos in ParsedName")             *)
From Coq Require Import NArith List Bool.
From DV Require Import Base.Outcome Base.Bytes Base.Names Base.PName C01.Gen C01.Model.
From DV Require Import C05.Schema C05.Model.
Import ListNotations.
Local Open Scope N_scope.

Definition P_UNREACHABLE : N := 16.
Definition P_EXPECT : N := 17.

(* ------------------------------------------------------------------------ *)
(* LabelType::peek on ParsedName::parser(): a parser over the whole octets.  *)
Definition label_type_peek (m : bytes) (pos : N) : outcome ltype :=
  if mlen m - pos <? 1 then Err E_SHORT else
  match get m pos with
  | None => Panic P_INDEX
  | Some b =>
      if b <=? pk_normal_max then Ok (LNormal b)
      else if pk_ptr_min <=? b then
        if mlen m - pos <? 2 then Err E_SHORT else
        match get m (pos + 1) with
        | None => Panic P_INDEX
        | Some c => Ok (LCompressed (c + 256 * (b mod 64)))   (* pk_ptr_mask / pk_ptr_shift: Proofs4.gen_matches_peek *)
        end
      else Err E_BADLABEL
  end.

(* the loop shared by split_first and parent: follow pointers to the first
   ordinary label; returns the position of its head and its length + 1 *)
Fixpoint first_label (fuel : nat) (m : bytes) (cur : N) : outcome (N * N) :=
  match fuel with
  | O => OutOfFuel
  | S fuel' =>
      match label_type_peek m cur with
      | Err _ => Panic P_UNWRAP                           (* peek(..).unwrap() *)
      | Panic s => Panic s
      | OutOfFuel => OutOfFuel
      | Ok (LNormal l) =>
          if l =? 0 then Panic P_UNREACHABLE else Ok (cur, l + first_label_plus)
      | Ok (LCompressed p) =>
          if mlen m <? p then Panic P_UNWRAP               (* seek(pos).unwrap() *)
          else first_label fuel' m p
      end
  end.

(* ParsedName::split_first: None for the root name; otherwise the first label
   as a relative name (its wire octets) and the remaining name *)
Definition split_first (m : bytes) (p : pname) : outcome (option (bytes * pname)) :=
  if pn_len p =? name_root_len then Ok None else
  if mlen m <? pn_pos p then Panic P_EXPECT else
  do r <- first_label (S (length m)) m (pn_pos p);
  let '(t, len) := r in
  if pn_len p <? len then Panic P_UNDERFLOW else
  if mlen m <? t + len then Panic P_INDEX else
  Ok (Some (slice m t (t + len), mkPName (t + len) (pn_len p - len) (pn_compressed p) (pn_end p))).

(* ParsedName::parent: false for the root name *)
Definition parent (m : bytes) (p : pname) : outcome (option pname) :=
  if pn_len p =? name_root_len then Ok None else
  if mlen m <? pn_pos p then Panic P_EXPECT else
  do r <- first_label (S (length m)) m (pn_pos p);
  let '(t, len) := r in
  if pn_len p <? len then Panic P_UNDERFLOW else
  Ok (Some (mkPName (t + len) (pn_len p - len) (pn_compressed p) (pn_end p))).

(* ParsedSuffixIter, run to the end: the name, its parent, ... , the root *)
Fixpoint suffixes (fuel : nat) (m : bytes) (p : pname) (acc : list pname) : outcome (list pname) :=
  match fuel with
  | O => OutOfFuel
  | S fuel' =>
      do r <- parent m p;
      match r with
      | None => Ok (rev (p :: acc))
      | Some p' => suffixes fuel' m p' (p :: acc)
      end
  end.
Definition iter_suffixes (m : bytes) (p : pname) : outcome (list pname) := suffixes PARSE_FUEL m p [].

(* ToName::as_flat_slice for ParsedName *)
Definition as_flat_slice (m : bytes) (p : pname) : outcome (option bytes) :=
  if pn_compressed p then Ok None
  else if mlen m <? pn_pos p + pn_len p then Panic P_INDEX
  else Ok (Some (slice m (pn_pos p) (pn_pos p + pn_len p))).

(* ParsedNameIter::next_back: clone, walk forward to the last label *)
Fixpoint last_label (fuel : nat) (m : bytes) (pos len : N) : outcome label :=
  match fuel with
  | O => OutOfFuel
  | S fuel' =>
      do r <- get_label (S (length m)) m pos;
      let '(l, pos') := r in
      let cl := N.of_nat (length l) + 1 in
      if len <? cl then Panic P_UNDERFLOW
      else if len - cl =? 0 then Ok l
      else last_label fuel' m pos' (len - cl)
  end.

Definition next_back (m : bytes) (pos len : N) : outcome (option label * N) :=
  if len =? 0 then Ok (None, len) else
  do l <- last_label PARSE_FUEL m pos len;
  let cl := N.of_nat (length l) + 1 in
  if len <? cl then Panic P_UNDERFLOW else Ok (Some l, len - cl).

(* iter().rev().collect(): labels in the order they are yielded (root first) *)
Fixpoint rev_labels (fuel : nat) (m : bytes) (pos len : N) (acc : list label) : outcome (list label) :=
  match fuel with
  | O => OutOfFuel
  | S fuel' =>
      do r <- next_back m pos len;
      match r with
      | (None, _) => Ok (rev acc)
      | (Some l, len') => rev_labels fuel' m pos len' (l :: acc)
      end
  end.
Definition pname_rev_labels (m : bytes) (p : pname) : outcome (list label) :=
  rev_labels PARSE_FUEL m (pn_pos p) (pn_len p) [].

(* repeated split_first until None: the relative names returned *)
Fixpoint split_all (fuel : nat) (m : bytes) (p : pname) (acc : list bytes) : outcome (list bytes) :=
  match fuel with
  | O => OutOfFuel
  | S fuel' =>
      do r <- split_first m p;
      match r with
      | None => Ok (rev acc)
      | Some (rel, p') => split_all fuel' m p' (rel :: acc)
      end
  end.

Record name_ops := mkOps {
  no_rev : list label;              (* iter().rev() *)
  no_split : list bytes;            (* split_first() until None *)
  no_suffixes : list (N * label);   (* iter_suffixes(): (compose_len, first label) of each *)
  no_flat : option bytes            (* as_flat_slice() *)
}.

(* ParsedName::first() of every suffix (iter().next().unwrap()) *)
Fixpoint first_labels (m : bytes) (l : list pname) : outcome (list (N * label)) :=
  match l with
  | [] => Ok []
  | q :: t =>
      do r <- get_label (S (length m)) m (pn_pos q);
      do rest <- first_labels m t;
      Ok ((pn_len q, fst r) :: rest)
  end.

Definition name_ops_of (m : bytes) (p : pname) : outcome name_ops :=
  do r <- pname_rev_labels m p;
  do s <- split_all PARSE_FUEL m p [];
  do x <- iter_suffixes m p;
  do f <- as_flat_slice m p;
  do fl <- first_labels m x;
  Ok (mkOps r s fl f).

(* driver entry: parse a name, then run the derived operations on it *)
Definition c01_pops (m : bytes) (pos lim : N) : outcome name_ops :=
  do p <- parse_ref m pos lim; name_ops_of m p.

(* ------------------------------------------------------------------------ *)
(* Typed record data: ParsedRecord::to_any_record::<AllRecordData>.
   Whether the data parses, and the error class if not (1 short, 2-4 name
   errors, 5 any form error incl. trailing data).  IPSECKEY goes through C05's
   rows by gateway type, OPT through the option framing (Opt::check_slice);
   None only if C05's table should ever lack a row (not the case now). *)
Definition classify {A} (x : outcome A) : outcome (item unit) :=
  match x with
  | Ok _ => Ok (IOk tt)
  | Err e => Ok (IErr e)
  | Panic p => Panic p
  | OutOfFuel => OutOfFuel
  end.

Definition RT_IPSECKEY : N := 45.

Definition typed_rdata (m : bytes) (r : rr) : outcome (option (item unit)) :=
  if mlen m - rr_data r <? rr_rdlen r then Ok (Some (IErr E_SHORT)) else          (* parse_parser *)
  let lim := rr_data r + rr_rdlen r in
  if rr_type r =? RT_IPSECKEY then
    do c <- classify (ipseckey_parse m (rr_data r) lim); Ok (Some c)
  else if rr_type r =? RT_OPT then
    do c <- classify (opt_check (S (N.to_nat (rr_rdlen r))) m (rr_data r) lim []); Ok (Some c)
  else
    match schema_of (rr_type r) with
    | None => Ok None
    | Some s => do c <- classify (parse_rdata pname_dec s m (rr_data r) lim); Ok (Some c)
    end.

(* Typed EDNS options: Opt::iter::<AllOptData>.  Each option's data is parsed
   in a sub-parser of exactly its length (C05's option table; unknown codes are
   opaque); after the first error the iterator is advanced to its end. *)
Fixpoint options_typed (l : list (N * bytes)) : outcome (list (N * item unit)) :=
  match l with
  | [] => Ok []
  | (code, d) :: t =>
      do c <- classify (parse_rdata flat_dec (option_schema code) d 0 (len d));
      match c with
      | IErr e => Ok [(code, IErr e)]
      | IOk u => do rest <- options_typed t; Ok ((code, IOk u) :: rest)
      end
  end.

Definition msg_opt_typed (m : bytes) : outcome (option (list (N * item unit))) :=
  do o <- msg_opt m;
  match o with
  | None => Ok None
  | Some (_, os) => do l <- options_typed os; Ok (Some l)
  end.

(* all records of the message (MessageIter order) with their typed outcome *)
Fixpoint typed_all (m : bytes) (l : list (item (N * rr))) : outcome (list (option (item unit))) :=
  match l with
  | [] => Ok []
  | IOk (_, r) :: t => do x <- typed_rdata m r; do rest <- typed_all m t; Ok (x :: rest)
  | IErr _ :: t => typed_all m t
  end.

Definition message_typed (m : bytes) : outcome (list (option (item unit))) :=
  do it <- message_iter m; typed_all m it.

(* ------------------------------------------------------------------------ *)
(* XfrResponseInterpreter::interpret_response on the FIRST message.
   Result classes: 0 accepted as AXFR, 1 accepted as IXFR,
   10 NotValidXfrResponse, 11 ParseError, 12 Malformed,
   99 first record of a type without schema row (not decided by the model). *)
Definition RT_SOA : N := 6.
Definition RT_AXFR : N := 252.
Definition RT_IXFR : N := 251.

(* ZoneRecordData has no variants for the pseudo record types: NULL, OPT and
   TSIG data are taken as opaque there *)
Definition zone_schema_of (t : N) : option schema :=
  if (t =? 10) || (t =? 41) || (t =? 250) then Some unknown_schema else schema_of t.

Definition xfr_first (m : bytes) : outcome N :=
  match get m 2, get m 3 with
  | Some f2, Some f3 =>
      do qd <- count_at m qd_off; do an <- count_at m an_off; do ns <- count_at m ns_off;
      let rcode := f3 mod 16 in
      let qr := 128 <=? f2 in
      let opcode := (f2 / 8) mod 16 in
      let tc := ((f2 / 2) mod 2) =? 1 in
      if negb (rcode =? 0) || negb qr || negb (opcode =? 0) || tc || (an =? 0) || negb (ns =? 0)
      then Ok 10
      else if negb (qd =? 1) then Ok 10
      else
        match msg_answer m with
        | Err _ => Ok 11
        | Panic p => Panic p
        | OutOfFuel => OutOfFuel
        | Ok ans =>
            do fq <- first_question m;
            let qt := match fq with Some q => Some (q_type q) | None => None end in
            match qt with
            | Some t =>
                if (t =? RT_AXFR) || (t =? RT_IXFR) then
                  do r <- r_next m ans;
                  match r with
                  | (Some (IOk rec), _) =>
                      if mlen m - rr_data rec <? rr_rdlen rec then Ok 12 else
                      do c <- (if rr_type rec =? RT_IPSECKEY
                               then classify (ipseckey_parse m (rr_data rec) (rr_data rec + rr_rdlen rec))
                               else match zone_schema_of (rr_type rec) with
                                    | None => Ok (IErr 99)
                                    | Some s => classify (parse_rdata pname_dec s m (rr_data rec) (rr_data rec + rr_rdlen rec))
                                    end);
                      match c with
                      | IOk _ => if rr_type rec =? RT_SOA then Ok (if t =? RT_AXFR then 0 else 1) else Ok 10
                      | IErr e => if e =? 99 then Ok 99 else Ok 12
                      end
                  | _ => Ok 12
                  end
                else Ok 10
            | None => Ok 10
            end
        end
  | _, _ => Panic P_INDEX
  end.

(* ------------------------------------------------------------------------ *)
(* Read-side calls in any order. *)
Inductive op :=
| OQuestion | OAnswer | OAuthority | OAdditional          (* msg.question() ... push an iterator *)
| OQNext (i : nat) | OQAnswer (i : nat)                   (* on the i-th live iterator *)
| ORNext (i : nat) | ORNextSection (i : nat)
| OFirst | OSole | OSelf | OCanonical | OSections | OCounts | OSlice (start : N) | OTyped | OOptTyped.

Inductive res :=
| RNone                                   (* no such iterator / wrong kind *)
| REnd                                    (* next() = None; next_section() = Ok(None) *)
| RErr (e : N)
| RPos (pos : N)                          (* a new iterator positioned at pos *)
| RQ (v : name_obs * N * N) (after : N)
| RR (n : name_obs) (ty cl ttl rdlen after : N)
| RQOpt (v : option (name_obs * N * N))
| RBool (b : bool)
| RName (n : option name_obs)
| RSecs (v : N * N * N * N)
| RCounts (v : N * N * N * N)
| RLabels (l : list bytes)
| RTyped (l : list (option (item unit)))
| ROptTyped (l : option (list (N * item unit))).

Fixpoint set_nth {A} (i : nat) (x : A) (l : list A) : list A :=
  match l, i with
  | [], _ => []
  | _ :: t, O => x :: t
  | h :: t, S i' => h :: set_nth i' x t
  end.

Definition push_section (st : list sect) (x : outcome sect) : outcome (res * list sect) :=
  match x with
  | Ok s => Ok (RPos (s_pos s), st ++ [s])
  | Err e => Ok (RErr e, st)
  | Panic p => Panic p
  | OutOfFuel => OutOfFuel
  end.

Definition run_op (m : bytes) (st : list sect) (o : op) : outcome (res * list sect) :=
  match o with
  | OQuestion => push_section st (question_section m)
  | OAnswer => push_section st (msg_answer m)
  | OAuthority => push_section st (msg_authority m)
  | OAdditional => push_section st (msg_additional m)
  | OQNext i =>
      match nth_error st i with
      | Some s =>
          if s_kind s =? 0 then
            do r <- q_next m s;
            match r with
            | (None, s') => Ok (REnd, set_nth i s' st)
            | (Some (IErr e), s') => Ok (RErr e, set_nth i s' st)
            | (Some (IOk q), s') => do v <- q_view m q; Ok (RQ v (s_pos s'), set_nth i s' st)
            end
          else Ok (RNone, st)
      | None => Ok (RNone, st)
      end
  | OQAnswer i =>
      match nth_error st i with
      | Some s => if s_kind s =? 0 then push_section st (q_to_answer m s) else Ok (RNone, st)
      | None => Ok (RNone, st)
      end
  | ORNext i =>
      match nth_error st i with
      | Some s =>
          if s_kind s =? 0 then Ok (RNone, st) else
            do r <- r_next m s;
            match r with
            | (None, s') => Ok (REnd, set_nth i s' st)
            | (Some (IErr e), s') => Ok (RErr e, set_nth i s' st)
            | (Some (IOk x), s') =>
                do n <- observe_name m (rr_owner x);
                Ok (RR n (rr_type x) (rr_class x) (rr_ttl x) (rr_rdlen x) (s_pos s'), set_nth i s' st)
            end
      | None => Ok (RNone, st)
      end
  | ORNextSection i =>
      match nth_error st i with
      | Some s =>
          if s_kind s =? 0 then Ok (RNone, st) else
            match r_next_section m s with
            | Ok (Some n) => Ok (RPos (s_pos n), st ++ [n])
            | Ok None => Ok (REnd, st)
            | Err e => Ok (RErr e, st)
            | Panic p => Panic p
            | OutOfFuel => OutOfFuel
            end
      | None => Ok (RNone, st)
      end
  | OFirst =>
      do fq <- first_question m;
      match fq with
      | Some q => do v <- q_view m q; Ok (RQOpt (Some v), st)
      | None => Ok (RQOpt None, st)
      end
  | OSole =>
      match sole_question m with
      | Ok q => do v <- q_view m q; Ok (RQOpt (Some v), st)
      | Err e => Ok (RErr e, st)
      | Panic p => Panic p
      | OutOfFuel => OutOfFuel
      end
  | OSelf => do b <- is_answer m m; Ok (RBool b, st)
  | OCanonical =>
      do cn <- canonical_name m;
      match cn with
      | Some p => do v <- observe_name m p; Ok (RName (Some v), st)
      | None => Ok (RName None, st)
      end
  | OSections =>
      match msg_sections m with
      | Ok (q, a, n, r) => Ok (RSecs (s_pos q, s_pos a, s_pos n, s_pos r), st)
      | Err e => Ok (RErr e, st)
      | Panic p => Panic p
      | OutOfFuel => OutOfFuel
      end
  | OCounts =>
      do qd <- count_at m qd_off; do an <- count_at m an_off;
      do ns <- count_at m ns_off; do ar <- count_at m ar_off;
      Ok (RCounts (qd, an, ns, ar), st)
  | OSlice start => do l <- iter_slice m start; Ok (RLabels l, st)
  | OTyped => do l <- message_typed m; Ok (RTyped l, st)
  | OOptTyped => do l <- msg_opt_typed m; Ok (ROptTyped l, st)
  end.

Fixpoint run_ops (m : bytes) (st : list sect) (ops : list op) : outcome (list res) :=
  match ops with
  | [] => Ok []
  | o :: t =>
      do r <- run_op m st o;
      do rest <- run_ops m (snd r) t;
      Ok (fst r :: rest)
  end.

(* the message view exists only for at least header_len octets *)
Definition read_ops (m : bytes) (ops : list op) : outcome (option (list res)) :=
  if negb (from_octets_ok m) then Ok None
  else do r <- run_ops m [] ops; Ok (Some r).

(* Message::is_answer against another message *)
Definition c01_isans (m q : bytes) : outcome (option bool) :=
  if negb (from_octets_ok m) || negb (from_octets_ok q) then Ok None
  else do b <- is_answer m q; Ok (Some b).

Definition c01_xfr (m : bytes) : outcome (option N) :=
  if negb (from_octets_ok m) then Ok None else do r <- xfr_first m; Ok (Some r).
