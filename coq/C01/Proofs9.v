(* C01 proofs, part 9 (widening round 3): the display walk of every parsed
   record is total; the call machine with it is total; a second traversal --
   made after arbitrary earlier activity -- yields the same results. *)
From Coq Require Import Arith NArith List Bool Lia ZArith.
From Coq Require Import ZifyN ZifyBool ZifyNat.
From DV Require Import Base.Outcome Base.Bytes Base.Names Base.PName C01.Gen C01.Model C01.Model2 C01.Model3 C01.Model4.
From DV Require Import C05.Schema C05.Model.
From DV Require Import C01.Proofs C01.Proofs2 C01.Proofs3 C01.Proofs4 C01.Proofs5 C01.Proofs6 C01.Proofs7 C01.Proofs8.
Import ListNotations.
Local Open Scope N_scope.
Ltac Zify.zify_post_hook ::= Z.div_mod_to_equations.

(* --------------------------------------- what the typed parser accepted *)
Lemma bind_ok_inv {A B} (x : outcome A) (f : A -> outcome B) b :
  bind x f = Ok b -> exists a, x = Ok a /\ f a = Ok b.
Proof. destruct x; cbn; intros H; try discriminate. eauto. Qed.

(* a schema whose last field is a checked remainder: the value the parser
   returns ends with octets that passed the check *)
Lemma parse_fields_last_checked dec k : forall fs m pos lim v e,
  parse_fields dec (fs ++ [FChecked k]) m pos lim = Ok (v, e) ->
  exists v0 b, v = v0 ++ [VBytes b] /\ rest_check k b = None.
Proof.
  induction fs as [|f fs IH]; intros m pos lim v e H; cbn [app parse_fields] in H.
  - apply bind_ok_inv in H. destruct H as [[x p1] [H1 H2]]. cbn [bind fst snd] in H2. inversion H2; subst.
    cbn [parse_field] in H1. apply bind_ok_inv in H1. destruct H1 as [[b p2] [_ H1]]. cbn [fst snd] in H1.
    destruct (rest_check k b) eqn:E; [discriminate|]. inversion H1; subst.
    exists [], b. auto.
  - apply bind_ok_inv in H. destruct H as [[x p1] [_ H2]]. cbn [fst snd] in H2.
    apply bind_ok_inv in H2. destruct H2 as [[v' p2] [H2 H3]]. cbn [fst snd] in H3. inversion H3; subst.
    destruct (IH _ _ _ _ _ H2) as [v0 [b [Ev Hb]]]. subst v'.
    exists (x :: v0), b. auto.
Qed.

Lemma last_bytes_app v0 b : last_bytes (v0 ++ [VBytes b]) = b.
Proof. unfold last_bytes. rewrite last_last. reflexivity. Qed.

Lemma parse_rdata_last_checked dec s fs k m pos lim v :
  s_fields s = fs ++ [FChecked k] -> parse_rdata dec s m pos lim = Ok v ->
  rest_check k (last_bytes v) = None.
Proof.
  intros Hs H. unfold parse_rdata in H. apply bind_ok_inv in H. destruct H as [[v' e] [H1 H2]].
  cbn [fst snd] in H2. destruct (e =? lim); [|discriminate].
  destruct (post_check (s_post s) v'); [discriminate|]. inversion H2; subst v'.
  unfold parse_type in H1. rewrite Hs in H1.
  assert (Hp : parse_fields dec (fs ++ [FChecked k]) m pos lim = Ok (v, e)).
  { destruct (s_long s); [|exact H1].
    destruct (lim - pos <? n); [discriminate|]. destruct (65535 <? lim - pos - n); [discriminate|]. exact H1. }
  destruct (parse_fields_last_checked _ _ _ _ _ _ _ _ Hp) as [v0 [b [Ev Hb]]]. subst v.
  rewrite last_bytes_app. exact Hb.
Qed.

(* TXT: the character strings the parser walked are the ones the iterator
   walks over the same octets *)
Lemma skipn_add {A} (l : list A) : forall a k, skipn k (skipn a l) = skipn (a + k) l.
Proof.
  induction l as [|x l IH]; intros [|a] k; cbn [skipn Nat.add]; try reflexivity.
  - destruct k; reflexivity.
  - apply IH.
Qed.

Lemma slice_skipn m a e k : a + k <= e -> e <= mlen m ->
  skipn (N.to_nat k) (slice m a e) = slice m (a + k) e.
Proof.
  intros H1 H2. unfold slice. rewrite skipn_firstn_comm, skipn_add.
  f_equal; [lia|]. f_equal. lia.
Qed.

Lemma txt_iter_of_parse_strs m lim : lim <= mlen m -> forall fuel pos acc r fuel2 acc2,
  pos <= lim -> parse_strs fuel m pos lim acc = Ok r ->
  (N.to_nat (lim - pos) < fuel2)%nat ->
  exists l, txt_iter_loop fuel2 (slice m pos lim) acc2 = Ok l.
Proof.
  intros Hl. induction fuel as [|fuel IH]; intros pos acc r fuel2 acc2 Hp H Hf; [discriminate|].
  cbn [parse_strs] in H. destruct fuel2 as [|fuel2]; [lia|]. cbn [txt_iter_loop].
  destruct (N.eqb_spec (lim - pos) 0) as [Hz|Hz].
  - assert (pos = lim) by lia. subst pos. rewrite slice_nil. eauto.
  - apply bind_ok_inv in H. destruct H as [[b p1] [H1 H2]].
    unfold rd8 in H1. destruct (N.ltb_spec (lim - pos) 1); [discriminate|].
    destruct (get m pos) as [b0|] eqn:Eg; [|discriminate]. inversion H1; subst b0 p1. cbn [fst snd] in H2.
    apply bind_ok_inv in H2. destruct H2 as [[s p2] [H2 H3]].
    unfold rd in H2. destruct (N.ltb_spec (lim - (pos + 1)) b); [discriminate|]. inversion H2; subst s p2.
    cbn [fst snd] in H3.
    rewrite (slice_cons m pos lim b Eg) by lia.
    assert (Hlen : len (slice m (pos + 1) lim) = lim - (pos + 1)).
    { rewrite len_length, slice_length by lia. lia. }
    rewrite Hlen. destruct (N.ltb_spec (lim - (pos + 1)) b); [lia|].
    rewrite slice_skipn by lia.
    eapply IH; [|exact H3|]; lia.
Qed.

(* ------------------------------------------------------- display walk *)
Lemma schema_rows :
  schema_of 47 = Some (mkS [NameU false; FChecked KBitmap] None false PNone) /\
  (exists s fs, schema_of 50 = Some s /\ s_fields s = fs ++ [FChecked KBitmap]) /\
  (exists s fs, schema_of 64 = Some s /\ s_fields s = fs ++ [FChecked KSvcParams]) /\
  (exists s fs, schema_of 65 = Some s /\ s_fields s = fs ++ [FChecked KSvcParams]) /\
  (exists s, schema_of 16 = Some s /\ s_fields s = [FCharStrs]).
Proof.
  split; [reflexivity|].
  split; [eexists; exists [U8; U8; U16; Len8Bytes; Len8Bytes]; split; reflexivity|].
  split; [eexists; exists [U16; NameU false]; split; reflexivity|].
  split; [eexists; exists [U16; NameU false]; split; reflexivity|].
  eexists; split; reflexivity.
Qed.

Theorem display_walk_total m r : good_rr m (mlen m) r -> no_panic (display_walk m r).
Proof.
  intros [_ [Hd _]]. apply (sat_no_panic _ (fun _ => True)). unfold display_walk.
  destruct (mlen m - rr_data r <? rr_rdlen r) eqn:Ec; [exact I|]. cbv zeta.
  destruct ((rr_type r =? 47) || (rr_type r =? 50) || (rr_type r =? 64) || (rr_type r =? 65) || (rr_type r =? 16)) eqn:Et; [|exact I].
  destruct (schema_of (rr_type r)) as [s|] eqn:Es; [|exact I].
  pose proof (parse_rdata_total s m (rr_data r) (rr_data r + rr_rdlen r) Hd) as Ht.
  destruct (parse_rdata pname_dec s m (rr_data r) (rr_data r + rr_rdlen r)) as [v|e| |] eqn:Ep;
    cbn [no_panic] in Ht; try contradiction; [|exact I].
  destruct schema_rows as [R47 [[s50 [f50 [R50 F50]]] [[s64 [f64 [R64 F64]]] [[s65 [f65 [R65 F65]]] [s16 [R16 F16]]]]]].
  destruct (N.eqb_spec (rr_type r) 16) as [E16|E16].
  - (* TXT *)
    rewrite E16, R16 in Es. inversion Es; subst s.
    unfold parse_rdata in Ep. apply bind_ok_inv in Ep. destruct Ep as [[v' e] [H1 H2]].
    cbn [fst snd] in H2. destruct (N.eqb_spec e (rr_data r + rr_rdlen r)); [|discriminate].
    unfold parse_type in H1. rewrite F16 in H1.
    assert (Hp : parse_fields pname_dec [FCharStrs] m (rr_data r) (rr_data r + rr_rdlen r) = Ok (v', e)).
    { destruct (s_long s16); [|exact H1].
      destruct (_ <? n); [discriminate|]. destruct (65535 <? _); [discriminate|]. exact H1. }
    cbn [parse_fields parse_field] in Hp. apply bind_ok_inv in Hp. destruct Hp as [[x p1] [Hp _]].
    apply bind_ok_inv in Hp. destruct Hp as [rs [Hp _]].
    assert (Hle : rr_data r <= rr_data r + rr_rdlen r) by lia.
    destruct (txt_iter_of_parse_strs m _ Hd _ (rr_data r) _ _ (S (length (slice m (rr_data r) (rr_data r + rr_rdlen r)))) [] Hle Hp) as [l El].
    { rewrite slice_length by lia. lia. }
    unfold txt_iter. rewrite El. cbn. exact I.
  - destruct ((rr_type r =? 47) || (rr_type r =? 50)) eqn:Eb.
    + (* NSEC / NSEC3: the bitmap *)
      assert (Hb : rest_check KBitmap (last_bytes v) = None).
      { destruct (N.eqb_spec (rr_type r) 47) as [E47|E47].
        - rewrite E47, R47 in Es. inversion Es; subst s.
          eapply parse_rdata_last_checked with (fs := [NameU false]); [|exact Ep]; reflexivity.
        - destruct (N.eqb_spec (rr_type r) 50) as [E50|E50]; [|discriminate].
          rewrite E50, R50 in Es. inversion Es; subst s.
          eapply parse_rdata_last_checked; [exact F50|exact Ep]. }
      destruct (bitmap_iter_total _ Hb) as [l El]. rewrite El. cbn [bind].
      assert (Hc : forall ts, exists c, contains_all (last_bytes v) ts = Ok c).
      { induction ts as [|t ts [c0 Ec0]]; cbn [contains_all]; [eauto|].
        destruct (bitmap_contains_total _ t Hb) as [b Eb']. rewrite Eb', Ec0. cbn [bind]. eauto. }
      destruct (Hc probe_types) as [c1 Ec1]. rewrite Ec1. cbn. exact I.
    + (* SVCB / HTTPS: the parameters *)
      assert (Hb : rest_check KSvcParams (last_bytes v) = None).
      { destruct (N.eqb_spec (rr_type r) 64) as [E64|E64].
        - rewrite E64, R64 in Es. inversion Es; subst s.
          eapply parse_rdata_last_checked; [exact F64|exact Ep].
        - destruct (N.eqb_spec (rr_type r) 65) as [E65|E65].
          + rewrite E65, R65 in Es. inversion Es; subst s.
            eapply parse_rdata_last_checked; [exact F65|exact Ep].
          + exfalso. apply orb_false_iff in Eb. destruct Eb as [E1 E2].
            rewrite ?E1, ?E2 in Et. cbn [orb] in Et. discriminate. }
      destruct (svc_display_total _ Hb) as [l El]. rewrite El. cbn. exact I.
Qed.

Lemma display_all_sat m : forall l,
  Forall (item_ok (fun x : N * rr => good_rr m (mlen m) (snd x))) l ->
  sat (display_all m l) (fun _ => True).
Proof.
  induction l as [|it t IH]; intros H; cbn [display_all]; [exact I|].
  inversion H as [|x l' Hx Ht]; subst. destruct it as [[k r]|e]; [|apply IH; exact Ht].
  cbn [item_ok snd] in Hx.
  eapply sat_bind; [apply no_panic_sat; apply display_walk_total; exact Hx|]. intros x _.
  eapply sat_bind; [apply IH; exact Ht|]. intros rest _. exact I.
Qed.

Theorem message_display_total m : has_header m -> no_panic (message_display m).
Proof.
  intros Hh. apply (sat_no_panic _ (fun _ => True)). unfold message_display, message_iter.
  pose proof (msg_answer_sat m Hh) as Ha.
  destruct (msg_answer m) as [a|e| |]; cbn [sat] in Ha; try contradiction; cbn [bind].
  - eapply sat_bind; [apply msg_iter_good; [exact Hh|constructor]|].
    intros it Hit. apply display_all_sat. exact Hit.
  - cbn. exact I.
Qed.

(* ---------------------------------------------------- the call machine *)
Lemma run_op4_sat m st o : has_header m -> sat (run_op4 m st o) (fun _ => True).
Proof.
  intros Hh. destruct o; cbn [run_op4].
  - eapply sat_bind; [apply run_op3_sat; exact Hh|]. intros r _. exact I.
  - eapply sat_bind; [apply no_panic_sat; apply message_display_total; exact Hh|]. intros l _. exact I.
Qed.

Lemma run_ops4_sat m : forall ops st, has_header m -> sat (run_ops4 m st ops) (fun _ => True).
Proof.
  induction ops as [|o t IH]; intros st Hh; cbn [run_ops4]; [exact I|].
  eapply sat_bind; [apply run_op4_sat; exact Hh|]. intros r _.
  eapply sat_bind; [apply IH; exact Hh|]. intros rest _. exact I.
Qed.

Theorem read_ops4_total m ops : no_panic (read_ops4 m ops).
Proof.
  apply (sat_no_panic _ (fun _ => True)). unfold read_ops4.
  destruct (from_octets_ok m) eqn:Eh; cbn [negb]; [|exact I].
  assert (Hh : has_header m) by (unfold from_octets_ok in Eh; unfold has_header; lia).
  eapply sat_bind; [apply run_ops4_sat; exact Hh|]. intros r _. exact I.
Qed.

(* ------------------------------------------------ a second traversal *)
(* running calls in a machine that already holds the iterators st, with the
   iterator numbers shifted past them, is running them in a fresh machine:
   earlier activity cannot be observed *)
Definition lift {R} (st : list sect) (x : outcome (R * list sect)) : outcome (R * list sect) :=
  match x with Ok (r, l) => Ok (r, st ++ l) | Err e => Err e | Panic p => Panic p | OutOfFuel => OutOfFuel end.

Lemma nth_error_shift {A} (st loc : list A) i : nth_error (st ++ loc) (length st + i) = nth_error loc i.
Proof. rewrite nth_error_app2 by lia. f_equal. lia. Qed.

Lemma set_nth_shift {A} (st loc : list A) i x : set_nth (length st + i) x (st ++ loc) = st ++ set_nth i x loc.
Proof. induction st as [|h st IH]; cbn [length Nat.add app set_nth]; [reflexivity|]. rewrite IH. reflexivity. Qed.

Lemma push_section_shift st loc x : push_section (st ++ loc) x = lift st (push_section loc x).
Proof. destruct x; cbn; try reflexivity. rewrite app_assoc. reflexivity. Qed.

Lemma lift_const {R} st loc (x : outcome R) (f : R -> res) :
  (do r <- x; Ok (f r, st ++ loc)) = lift st (do r <- x; Ok (f r, loc)).
Proof. destruct x; reflexivity. Qed.

Lemma run_op_shift m st loc o :
  run_op m (st ++ loc) (shift_op (length st) o) = lift st (run_op m loc o).
Proof.
  destruct o; cbn [run_op shift_op]; try apply push_section_shift;
    try rewrite nth_error_shift.
  - (* OQNext *)
    destruct (nth_error loc i) as [s|]; [|reflexivity]. destruct (s_kind s =? 0); [|reflexivity].
    destruct (q_next m s) as [[[[q|e]|] s']|e| |]; cbn [bind]; rewrite ?set_nth_shift; try reflexivity.
    destruct (q_view m q); reflexivity.
  - (* OQAnswer *)
    destruct (nth_error loc i) as [s|]; [|reflexivity]. destruct (s_kind s =? 0); [|reflexivity].
    apply push_section_shift.
  - (* ORNext *)
    destruct (nth_error loc i) as [s|]; [|reflexivity]. destruct (s_kind s =? 0); [reflexivity|].
    destruct (r_next m s) as [[[[x|e]|] s']|e| |]; cbn [bind]; rewrite ?set_nth_shift; try reflexivity.
    destruct (observe_name m (rr_owner x)); reflexivity.
  - (* ORNextSection *)
    destruct (nth_error loc i) as [s|]; [|reflexivity]. destruct (s_kind s =? 0); [reflexivity|].
    destruct (r_next_section m s) as [[n|]|e| |]; cbn; try reflexivity. rewrite app_assoc. reflexivity.
  - (* OFirst *)
    destruct (first_question m) as [[q|]|e| |]; cbn [bind]; try reflexivity. destruct (q_view m q); reflexivity.
  - destruct (sole_question m) as [q|e| |]; try reflexivity. destruct (q_view m q); reflexivity.
  - destruct (is_answer m m); reflexivity.
  - destruct (canonical_name m) as [[p|]|e| |]; cbn [bind]; try reflexivity. destruct (observe_name m p); reflexivity.
  - destruct (msg_sections m) as [[[[q a] n] r]|e| |]; reflexivity.
  - destruct (count_at m qd_off); cbn [bind]; try reflexivity.
    destruct (count_at m an_off); cbn [bind]; try reflexivity.
    destruct (count_at m ns_off); cbn [bind]; try reflexivity.
    destruct (count_at m ar_off); reflexivity.
  - destruct (iter_slice m start); reflexivity.
  - destruct (message_typed m); reflexivity.
  - destruct (msg_opt_typed m); reflexivity.
Qed.

Lemma run_op3_shift m st loc o :
  run_op3 m (st ++ loc) (shift_op3 (length st) o) = lift st (run_op3 m loc o).
Proof.
  destruct o; cbn [run_op3 shift_op3].
  - rewrite run_op_shift. destruct (run_op m loc o) as [[r l]|e| |]; reflexivity.
  - rewrite nth_error_shift. destruct (nth_error loc i) as [s|]; [|reflexivity].
    destruct (s_kind s =? 0); [reflexivity|]. destruct (limit_to m s _ _); reflexivity.
  - destruct (copy_records_read m); reflexivity.
  - destruct (get_last_additional m); reflexivity.
  - destruct (dig_walk m); reflexivity.
Qed.

Lemma run_op4_shift m st loc o :
  run_op4 m (st ++ loc) (shift_op4 (length st) o) = lift st (run_op4 m loc o).
Proof.
  destruct o; cbn [run_op4 shift_op4].
  - rewrite run_op3_shift. destruct (run_op3 m loc o) as [[r l]|e| |]; reflexivity.
  - destruct (message_display m); reflexivity.
Qed.

Lemma run_ops4_shift m st : forall ops loc,
  run_ops4 m (st ++ loc) (map (shift_op4 (length st)) ops) = lift st (run_ops4 m loc ops).
Proof.
  induction ops as [|o t IH]; intros loc; cbn [map run_ops4]; [reflexivity|].
  rewrite run_op4_shift. destruct (run_op4 m loc o) as [[r l]|e| |]; cbn [lift bind fst snd]; try reflexivity.
  rewrite IH. destruct (run_ops4 m l t) as [[rs l']|e| |]; reflexivity.
Qed.

(* whatever was done before (the iterators in st, wherever they stand), a
   traversal gives exactly what it gives on a fresh view of the message *)
Theorem traversal_independent_of_history m st ops :
  ofst (run_ops4 m st (map (shift_op4 (length st)) ops)) = ofst (run_ops4 m [] ops).
Proof.
  rewrite <- (app_nil_r st) at 1. rewrite run_ops4_shift.
  destruct (run_ops4 m [] ops) as [[r l]|e| |]; reflexivity.
Qed.

(* a message traversed twice yields the same results both times *)
Theorem traversed_twice_same m ops r st1 :
  run_ops4 m [] ops = Ok (r, st1) ->
  ofst (run_ops4 m st1 (map (shift_op4 (length st1)) ops)) = Ok r.
Proof. intros H. rewrite traversal_independent_of_history, H. reflexivity. Qed.

Example traversed_twice_example :
  let m := [0;7;128;0; 0;1; 0;1; 0;0; 0;0;  1;97;0; 0;1; 0;1;  192;12; 0;1; 0;1; 0;0;0;60; 0;4; 1;2;3;4] in
  let ops := [O3 (O2 OAnswer); O3 (O2 (ORNext 0)); O3 (O2 (ORNext 0)); ODisplay] in
  match run_ops4 m [] (ops ++ map (shift_op4 1) ops) with
  | Ok (r, _) => firstn 4 r = skipn 4 r
  | _ => False
  end.
Proof. vm_compute. reflexivity. Qed.

(* every constructor over raw octets hands out a view exactly for octet strings
   that hold the 12 octet header section; on those, everything above is total *)
Theorem constructors_agree m :
  Forall (fun b => b = (12 <=? mlen m)) (c01_ctor m) /\ length (c01_ctor m) = 7%nat.
Proof.
  unfold c01_ctor, checking_constructors. split; [|apply repeat_length].
  apply Forall_forall. intros b Hb. apply repeat_spec in Hb. subst b. reflexivity.
Qed.

Example constructors_short : c01_ctor [0;0;0;0;0] = [false;false;false;false;false;false;false].
Proof. reflexivity. Qed.
