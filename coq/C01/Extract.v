From Coq Require Import Extraction ExtrOcamlBasic NArith.
From DV Require Import Base.Outcome Base.PName C01.Gen C01.Model.
Extraction Language OCaml.
Extraction "../build/ml/C01/model.ml" c01_pname c01_skip c01_islice read_all.
