From Coq Require Import Extraction ExtrOcamlBasic NArith.
From DV Require Import Base.Outcome Base.PName C01.Gen C01.Model C01.Model2 C01.Model3 C01.Model4.
Extraction Language OCaml.
Extraction "../build/ml/C01/model.ml" c01_pname c01_skip c01_islice read_all c01_pops read_ops4 c01_xfr c01_isans c01_ctor.
