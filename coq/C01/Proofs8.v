(* C01 proofs, part 8 (widening round 3): the type bitmap iterator
   (RtypeBitmapIter::new / advance / next) and RtypeBitmap::contains on a
   bitmap RtypeBitmap::from_octets accepted: every slice index and the
   read_window(..).unwrap() are in range, and the iteration ends. *)
From Coq Require Import Arith NArith List Bool Lia ZArith.
From Coq Require Import ZifyN ZifyBool ZifyNat.
From DV Require Import Base.Outcome Base.Bytes Base.Names Base.PName C01.Gen C01.Model C01.Model2 C01.Model3 C01.Model4.
From DV Require Import C05.Schema C05.Model.
From DV Require Import C01.Proofs C01.Proofs2 C01.Proofs7.
Import ListNotations.
Local Open Scope N_scope.
Ltac Zify.zify_post_hook ::= Z.div_mod_to_equations.

(* the shape from_octets accepts: windows of 1..32 octets *)
Inductive windows : bytes -> Prop :=
| w_nil : windows []
| w_cons n l w rest : 1 <= l -> l <= 32 -> length w = N.to_nat l -> windows rest ->
    windows (n :: l :: w ++ rest).

Lemma check_windows : forall fuel d, bitmap_check fuel d = None -> windows d.
Proof.
  induction fuel as [|fuel IH]; intros d H; [discriminate|].
  cbn [bitmap_check] in H. destruct d as [|n [|l rest]]; [constructor|discriminate|].
  destruct (N.eqb_spec l 0); [discriminate|].
  destruct (N.ltb_spec 32 l); [discriminate|].
  destruct (Nat.ltb_spec (length rest) (N.to_nat l)); [discriminate|].
  rewrite <- (firstn_skipn (N.to_nat l) rest). constructor; [lia|lia| |apply IH; exact H].
  rewrite firstn_length. lia.
Qed.

Lemma idx_lt d i : (N.to_nat i < length d)%nat -> exists x, idx d i = Ok x.
Proof.
  intros H. unfold idx. destruct (nth_error d (N.to_nat i)) eqn:E; [eauto|].
  apply nth_error_None in E. lia.
Qed.

Lemma from_app w rest n : length w = N.to_nat n -> from (w ++ rest) n = Ok rest.
Proof.
  intros H. unfold from. rewrite len_length, app_length.
  destruct (N.ltb_spec (N.of_nat (length w + length rest)) n); [lia|].
  rewrite <- H. rewrite skipn_app, skipn_all, Nat.sub_diag. reflexivity.
Qed.

(* the iterator state between two calls *)
Definition Inv (s : bst) : Prop :=
  exists w rest, b_data s = w ++ rest /\ length w = N.to_nat (b_len s) /\
                 b_octet s < b_len s /\ b_bit s < 8 /\ windows rest.

Definition mu (s : bst) : nat :=
  (8 * (length (b_data s) - N.to_nat (b_octet s)) - N.to_nat (b_bit s))%nat.

(* one loop iteration that ends in state s1 (without the early return) *)
Lemma bm_advance_tail fuel (s s1 : bst)
  (IH : forall s, Inv s -> (mu s < fuel)%nat ->
        exists s', bm_advance fuel s = Ok s' /\
                   (b_data s' = [] \/ (Inv s' /\ (mu s' < mu s)%nat)) /\
                   (length (b_data s') <= length (b_data s))%nat) :
  Inv s1 -> (mu s1 < mu s)%nat -> (mu s < S fuel)%nat ->
  (length (b_data s1) <= length (b_data s))%nat ->
  exists s', (do x <- idx (b_data s1) (b_octet s1);
              if bit_set x (b_bit s1) then Ok s1 else bm_advance fuel s1) = Ok s' /\
             (b_data s' = [] \/ (Inv s' /\ (mu s' < mu s)%nat)) /\
             (length (b_data s') <= length (b_data s))%nat.
Proof.
  intros HI1 Hmu1 Hf Hle1.
  assert (Hlt : (N.to_nat (b_octet s1) < length (b_data s1))%nat).
  { destruct HI1 as [w [rest [Hd [Hw [Ho _]]]]]. rewrite Hd, app_length. lia. }
  destruct (idx_lt _ _ Hlt) as [x Ex]. rewrite Ex. cbn [bind].
  destruct (bit_set x (b_bit s1)).
  - exists s1. split; [reflexivity|]. split; [right; auto|exact Hle1].
  - destruct (IH s1 HI1 ltac:(lia)) as [s' [Es [Hc Hle]]].
    exists s'. split; [exact Es|]. split.
    + destruct Hc as [Hc|[Hc Hm]]; [left; exact Hc|right; split; [exact Hc|lia]].
    + lia.
Qed.

Lemma bm_advance_ok : forall fuel s, Inv s -> (mu s < fuel)%nat ->
  exists s', bm_advance fuel s = Ok s' /\
             (b_data s' = [] \/ (Inv s' /\ (mu s' < mu s)%nat)) /\
             (length (b_data s') <= length (b_data s))%nat.
Proof.
  induction fuel as [|fuel IH]; intros s HI Hf; [lia|].
  pose proof HI as [w [rest [Hd [Hw [Ho [Hb Hwin]]]]]].
  assert (Hlen : (N.to_nat (b_octet s) < length (b_data s))%nat) by (rewrite Hd, app_length; lia).
  cbn [bm_advance]. cbv zeta. unfold bitmap_bits.
  destruct (N.eqb_spec (b_bit s + 1) 8) as [H8|H8].
  - destruct (N.eqb_spec (b_octet s + 1) (b_len s)) as [Hl|Hl].
    + (* next window *)
      assert (Hfr : from (b_data s) (b_len s) = Ok rest) by (rewrite Hd; apply from_app; exact Hw).
      rewrite Hfr. cbn [bind].
      inversion Hwin as [|n l w' rest' Hl1 Hl32 Hw' Hwin' Heq]; subst rest.
      * eexists. split; [reflexivity|]. cbn [b_data]. split; [left; reflexivity|]. cbn [length]. lia.
      * assert (Hf2 : from (n :: l :: w' ++ rest') 2 = Ok (w' ++ rest')).
        { unfold from. rewrite len_length. cbn [length].
          destruct (N.ltb_spec (N.of_nat (S (S (length (w' ++ rest'))))) 2); [lia|]. reflexivity. }
        assert (Hi0 : idx (n :: l :: w' ++ rest') 0 = Ok n) by reflexivity.
        assert (Hi1 : idx (n :: l :: w' ++ rest') 1 = Ok l) by reflexivity.
        rewrite Hi0. cbn [bind]. rewrite Hi1. cbn [bind]. rewrite Hf2. cbn [bind].
        cbv beta iota. apply (bm_advance_tail fuel s (mkB (w' ++ rest') (n * 256) l 0 0) IH).
        -- exists w', rest'. cbn [b_data b_len b_octet b_bit]. repeat split; auto; lia.
        -- unfold mu. cbn [b_data b_octet b_bit]. rewrite Hd, !app_length. cbn [length]. rewrite app_length. lia.
        -- exact Hf.
        -- cbn [b_data]. rewrite Hd, !app_length. cbn [length]. rewrite app_length. lia.
    + cbn [bind].
      cbv beta iota. apply (bm_advance_tail fuel s (mkB (b_data s) (b_block s) (b_len s) (b_octet s + 1) 0) IH).
      * exists w, rest. cbn [b_data b_len b_octet b_bit]. repeat split; auto; lia.
      * unfold mu. cbn [b_data b_octet b_bit]. lia.
      * exact Hf.
      * cbn [b_data]. lia.
  - cbn [bind].
    cbv beta iota. apply (bm_advance_tail fuel s (mkB (b_data s) (b_block s) (b_len s) (b_octet s) (b_bit s + 1)) IH).
    + exists w, rest. cbn [b_data b_len b_octet b_bit]. repeat split; auto; lia.
    + unfold mu. cbn [b_data b_octet b_bit]. lia.
    + exact Hf.
    + cbn [b_data]. lia.
Qed.

Lemma mu_bound s : (mu s <= 8 * length (b_data s))%nat.
Proof. unfold mu. lia. Qed.

Lemma mu_pos s : Inv s -> (1 <= mu s)%nat.
Proof.
  intros [w [rest [Hd [Hw [Ho [Hb _]]]]]]. unfold mu. rewrite Hd, app_length. lia.
Qed.

Lemma bm_collect_ok : forall fuel total s acc,
  (b_data s = [] \/ Inv s) -> (mu s < fuel)%nat -> (8 * length (b_data s) < total)%nat ->
  exists l, bm_collect fuel total s acc = Ok l.
Proof.
  induction fuel as [|fuel IH]; intros total s acc HI Hf Ht; [lia|].
  cbn [bm_collect]. destruct (b_data s) eqn:Ed; [eauto|].
  destruct HI as [HI|HI]; [congruence|].
  destruct (bm_advance_ok total s HI) as [s' [Es [Hc Hle]]]; [pose proof (mu_bound s); rewrite Ed in *; lia|].
  rewrite Es. cbn [bind].
  apply IH.
  - destruct Hc as [Hc|[Hc _]]; auto.
  - pose proof (mu_pos s HI). destruct Hc as [Hc|[_ Hm]]; [unfold mu; rewrite Hc; cbn [length]; lia|lia].
  - rewrite Ed in Hle. lia.
Qed.

(* types().iter() / Display of the bitmap: total on every accepted bitmap *)
Theorem bitmap_iter_total d : rest_check KBitmap d = None -> exists l, bitmap_iter d = Ok l.
Proof.
  unfold rest_check. intros H. apply check_windows in H.
  unfold bitmap_iter, bm_new.
  inversion H as [|n l w rest Hl1 Hl32 Hw Hwin Heq]; subst d.
  - cbn [bind]. unfold bm_fuel. cbn [bm_collect b_data]. eauto.
  - assert (Hf2 : from (n :: l :: w ++ rest) 2 = Ok (w ++ rest)).
    { unfold from. rewrite len_length. cbn [length].
      destruct (N.ltb_spec (N.of_nat (S (S (length (w ++ rest))))) 2); [lia|]. reflexivity. }
    rewrite Hf2. cbn [bind]. unfold idx at 1 2.
    replace (N.to_nat 0) with 0%nat by reflexivity. replace (N.to_nat 1) with 1%nat by reflexivity.
    cbn [nth_error bind].
    set (s := mkB (w ++ rest) (n * 256) l 0 0).
    assert (HI : Inv s) by (exists w, rest; cbn; repeat split; auto; lia).
    destruct (idx_lt (w ++ rest) 0) as [x Ex]; [rewrite app_length; lia|]. rewrite Ex. cbn [bind].
    assert (Hfuel : (8 * length (b_data s) < bm_fuel (n :: l :: w ++ rest))%nat).
    { unfold bm_fuel, s. cbn [b_data length]. lia. }
    destruct (N.land x 128 =? 0).
    + destruct (bm_advance_ok (bm_fuel (n :: l :: w ++ rest)) s HI) as [s' [Es [Hc Hle]]];
        [pose proof (mu_bound s); lia|].
      rewrite Es. cbn [bind]. apply bm_collect_ok.
      * destruct Hc as [Hc|[Hc _]]; auto.
      * pose proof (mu_bound s'). lia.
      * lia.
    + cbn [bind]. apply bm_collect_ok; [right; exact HI|pose proof (mu_bound s); lia|lia].
Qed.

Lemma bm_contains_ok : forall fuel d rtype, windows d -> (length d < fuel)%nat ->
  exists b, bm_contains fuel d rtype = Ok b.
Proof.
  induction fuel as [|fuel IH]; intros d rtype H Hf; [lia|].
  cbn [bm_contains]. inversion H as [|n l w rest Hl1 Hl32 Hw Hwin Heq]; subst d; [eauto|].
  cbn [read_window]. rewrite len_length, app_length.
  destruct (N.ltb_spec (N.of_nat (length w + length rest)) l); [lia|]. cbn [bind].
  destruct (n =? rtype / 256).
  - destruct (nth_error _ _); eauto.
  - apply IH.
    + rewrite <- Hw. rewrite skipn_app, skipn_all, Nat.sub_diag. cbn [skipn app]. exact Hwin.
    + rewrite skipn_length, app_length. cbn [length] in Hf. rewrite app_length in Hf. lia.
Qed.

(* RtypeBitmap::contains: read_window(..).unwrap() is unreachable *)
Theorem bitmap_contains_total d rtype : rest_check KBitmap d = None ->
  exists b, bitmap_contains d rtype = Ok b.
Proof.
  unfold rest_check, bitmap_contains. intros H. apply bm_contains_ok; [eapply check_windows; exact H|lia].
Qed.

Example bitmap_iter_example : bitmap_iter [0; 6; 0x62; 0x01; 0x80; 0x08; 0x00; 0x03] = Ok [1; 2; 6; 15; 16; 28; 46; 47].
Proof. vm_compute. reflexivity. Qed.
Example bitmap_iter_empty_window_panics : bitmap_iter [0; 0] = Panic P_INDEX.
Proof. vm_compute. reflexivity. Qed.
Example bitmap_contains_example :
  bitmap_contains [0; 6; 0x62; 0x01; 0x80; 0x08; 0x00; 0x03] 46 = Ok true /\
  bitmap_contains [0; 6; 0x62; 0x01; 0x80; 0x08; 0x00; 0x03] 5 = Ok false.
Proof. split; vm_compute; reflexivity. Qed.

(* T1 tie: the display-time code has exactly the panic sites the model has,
   the bitmap window bounds are those of C05's acceptance check *)
Definition gen_matches_display : bool :=
  (sites_bitmap_contains =? 1) && (index_sites_bitmap_iter =? 9) && (bitmap_bits =? 8) &&
  (bitmap_len_empty =? 2) && (bitmap_len_max =? 34) && (sites_txt_iter =? 1) &&
  (sites_svc_display =? 3) && (sites_svc_parse_any =? 2) && (sites_svc_value_iters =? 6) &&
  (svc_keys_checked =? 10).
Lemma gen_matches_display_ok : gen_matches_display = true.
Proof. vm_compute. reflexivity. Qed.
