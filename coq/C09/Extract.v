From Coq Require Import Extraction ExtrOcamlBasic NArith.
From DV Require Import Base.Outcome C09.Gen C09.Model.
Extraction Language OCaml.
Extraction "../build/ml/C09/model.ml" c09_cell c09_trace c09_versions.
