(* C09 model: zonetree/in_memory/versioned.rs  Versioned<T>::{get,update,remove,rollback},
   nodes.rs NodeRrsets / ZoneNode / NodeChildren::{rollback,remove_all}, ZoneApex::{read,write},
   write.rs WriteZone::{open,commit,publish_new_zone_version,drop},
   WriteNode::{update_child,update_rrset,remove_rrset,make_regular,make_cname,remove_all,check_nx_domain},
   WriteNode::make_zone_cut, read.rs ReadZone::{query,walk} over the whole node tree
   (zone cuts, CNAMEs, wildcards at every level, ANY), nodes.rs ZoneNode::exists
   (a child is followed only if it or a descendant holds data in the reader's version).

   Representation.  `Versioned.data : Vec<(Version, Option<T>)>` is a list whose HEAD is
   the vector's LAST element (push = cons, pop = tail, last_mut = head,
   iter().rev() = the list itself).  Versions are u32 values as N; `Version <= Version`
   is the derived PartialOrd over Serial, i.e. C17's serial_partial_cmp.
   HashMap<Rtype, NodeRrset> and HashMap<OwnedLabel, Arc<ZoneNode>> are association
   lists in insertion order (iteration order is canonicalised by sorting in the
   driver and the harness).  Names are label paths from the apex downwards ([] = apex);
   label 1 is the wildcard label `*`.  RRsets are numbers; 0 is the empty RRset.
   Rtypes are numbers (1 = A, 2 = NS, 5 = CNAME, 6 = SOA, 43 = DS, 255 = ANY). *)
From Coq Require Import NArith List Bool.
From DV Require Import Base.Outcome C17.Model C09.Gen.
Import ListNotations.
Local Open Scope N_scope.

(* ---------------------------------------------------------------- versions *)

Definition ver_ocmp (a b : N) : option comparison :=
  if version_order_is_serial
  then match serial_partial_cmp a b with Ok c => c | _ => None end
  else Some (a ?= b).

(* `a OP b` on Version; OP is the operator read from the source by T1
   (0 <=, 1 <, 2 ==, 3 >=, 4 >, 5 !=).  == and != are the derived PartialEq on u32. *)
Definition ver_op (op a b : N) : bool :=
  match op with
  | 0 => match ver_ocmp a b with Some Lt | Some Eq => true | _ => false end
  | 1 => match ver_ocmp a b with Some Lt => true | _ => false end
  | 2 => a =? b
  | 3 => match ver_ocmp a b with Some Gt | Some Eq => true | _ => false end
  | 4 => match ver_ocmp a b with Some Gt => true | _ => false end
  | _ => negb (a =? b)
  end.

(* the same operators on usize *)
Definition n_op (op a b : N) : bool :=
  match op with
  | 0 => a <=? b | 1 => a <? b | 2 => a =? b | 3 => b <=? a | 4 => b <? a | _ => negb (a =? b)
  end.

Definition ver_next (a : N) : N :=
  match version_next a with Ok s => s | _ => a end.

(* ---------------------------------------------------------------- Versioned<T> *)

Notation entry T := (N * option T)%type.

Section Cell.
Context {T : Type}.

Definition v_get (d : list (entry T)) (v : N) : option T :=
  match find (fun it => ver_op get_cmp_op (fst it) v)
             (if get_scans_newest_first then d else rev d) with
  | Some it => snd it
  | None => None
  end.

Definition v_update (d : list (entry T)) (v : N) (x : T) : list (entry T) :=
  match d with
  | (lv, lx) :: rest =>
      if ver_op update_same_cmp_op lv v then (lv, Some x) :: rest
      else (v, Some x) :: d
  | [] => [(v, Some x)]
  end.

Definition v_rollback (d : list (entry T)) (v : N) : list (entry T) :=
  match d with
  | (lv, lx) :: rest => if ver_op rollback_cmp_op lv v then rest else d
  | [] => []
  end.

Definition is_marker (x : option T) : bool := match x with None => true | Some _ => false end.

Definition v_remove (d : list (entry T)) (v : N) : list (entry T) :=
  match d with
  | (lv, lx) :: rest =>
      if Bool.eqb (is_marker lx) remove_noop_when_last_is_marker then d
      else if ver_op remove_same_cmp_op lv v then
        (if n_op remove_pop_len_op (N.of_nat (length d)) remove_pop_len then rest
         else (lv, None) :: rest)
      else (v, None) :: d
  | [] => if remove_marker_only_when_nonempty then [] else [(v, None)]
  end.
End Cell.

(* operations of one cell, for the correspondence driver and the history theorems *)
Inductive cop (T : Type) := CUpd (v : N) (x : T) | CRem (v : N) | CRb (v : N).
Arguments CUpd {T} v x.
Arguments CRem {T} v.
Arguments CRb {T} v.

Definition c_apply {T} (d : list (entry T)) (o : cop T) : list (entry T) :=
  match o with
  | CUpd v x => v_update d v x
  | CRem v => v_remove d v
  | CRb v => v_rollback d v
  end.

Definition c_run {T} (d : list (entry T)) (os : list (cop T)) : list (entry T) :=
  fold_left c_apply os d.

(* ---------------------------------------------------------------- association lists *)

Fixpoint al_get {A} (k : N) (l : list (N * A)) : option A :=
  match l with
  | [] => None
  | (k', a) :: tl => if k' =? k then Some a else al_get k tl
  end.

(* entry(k).or_insert(dflt) then apply f *)
Fixpoint al_upd {A} (k : N) (f : A -> A) (dflt : A) (l : list (N * A)) : list (N * A) :=
  match l with
  | [] => [(k, f dflt)]
  | (k', a) :: tl => if k' =? k then (k', f a) :: tl else (k', a) :: al_upd k f dflt tl
  end.

Definition al_map {A} (f : A -> A) (l : list (N * A)) : list (N * A) :=
  map (fun p => (fst p, f (snd p))) l.

(* ---------------------------------------------------------------- NodeRrsets *)

(* a SharedRrset of some type: its TTL and its record data, one number per record
   (an SOA record is its serial, a CNAME / NS record its target, ...); the RRset
   without records is the empty RRset *)
Definition rrv : Type := (N * list N)%type.
Definition rrv_is_empty (x : rrv) : bool := match snd x with [] => true | _ => false end.
(* Rrset::first(): the first record as a SharedRr (TTL, data) *)
Definition rrv_first (x : rrv) : option (N * N) := match snd x with d :: _ => Some (fst x, d) | [] => None end.

Definition rrsets : Type := list (N * list (entry rrv)).

Definition cell (t : N) (rs : rrsets) : list (entry rrv) :=
  match al_get t rs with Some d => d | None => [] end.

Definition rs_get (rs : rrsets) (t v : N) : option rrv := v_get (cell t rs) v.

Definition rs_at (t : N) (f : list (entry rrv) -> list (entry rrv)) (rs : rrsets) : rrsets :=
  al_upd t f [] rs.

Definition rs_all (f : list (entry rrv) -> list (entry rrv)) (rs : rrsets) : rrsets := al_map f rs.

Definition rs_remove_rtype (rs : rrsets) (t v : N) : rrsets := rs_at t (fun d => v_remove d v) rs.

Definition rs_update (rs : rrsets) (t : N) (rr : rrv) (v : N) : rrsets :=
  if rrv_is_empty rr && update_empty_rrset_is_remove then rs_remove_rtype rs t v
  else rs_at t (fun d => v_update d v rr) rs.

Definition rs_rollback (rs : rrsets) (v : N) : rrsets := rs_all (fun d => v_rollback d v) rs.
Definition rs_remove_all (rs : rrsets) (v : N) : rrsets := rs_all (fun d => v_remove d v) rs.

Definition rs_is_empty (rs : rrsets) (v : N) : bool :=
  forallb (fun p => match v_get (snd p) v with Some _ => false | None => true end) rs.

(* ---------------------------------------------------------------- ZoneNode *)

(* Special::{Cut, Cname, NxDomain}; a cut is its NS RRset, an optional DS RRset
   and an optional glue record (an A record owned by the cut name) *)
Inductive special := SCut (ns : rrv) (ds glue : option rrv) | SCname (c : rrv) | SNx.

Inductive znode := mknode (rs : rrsets) (sp : list (entry (option special))) (ch : list (N * znode)).

Definition n_rrsets (n : znode) : rrsets := match n with mknode rs _ _ => rs end.
Definition n_special (n : znode) : list (entry (option special)) := match n with mknode _ sp _ => sp end.
Definition n_children (n : znode) : list (N * znode) := match n with mknode _ _ ch => ch end.

Definition empty_node : znode := mknode [] [] [].
Definition set_rrsets (n : znode) (rs : rrsets) : znode := mknode rs (n_special n) (n_children n).
Definition set_special (n : znode) (sp : list (entry (option special))) : znode := mknode (n_rrsets n) sp (n_children n).
Definition set_children (n : znode) (ch : list (N * znode)) : znode := mknode (n_rrsets n) (n_special n) ch.

Definition sp_get (sp : list (entry (option special))) (v : N) : option special :=
  match v_get sp v with Some (Some s) => Some s | _ => None end.
Definition n_with_special (n : znode) (v : N) : option special := sp_get (n_special n) v.

Definition n_update_special (n : znode) (v : N) (s : option special) : znode :=
  set_special n (v_update (n_special n) v s).

Definition check_nx (n : znode) (v : N) : znode :=
  if nx_marker_follows_emptiness then
    match n_with_special n v with
    | Some SNx => if negb (rs_is_empty (n_rrsets n) v) then n_update_special n v None else n
    | None => if rs_is_empty (n_rrsets n) v then n_update_special n v (Some SNx) else n
    | Some _ => n
    end
  else n.

Definition n_make_regular (n : znode) (v : N) : znode := check_nx (n_update_special n v None) v.
Definition n_make_cname (n : znode) (id : rrv) (v : N) : znode := n_update_special n v (Some (SCname id)).
Definition n_make_cut (n : znode) (ns : rrv) (ds glue : option rrv) (v : N) : znode :=
  n_update_special n v (Some (SCut ns ds glue)).
Definition n_update_rrset (n : znode) (t : N) (rr : rrv) (v : N) : znode :=
  check_nx (set_rrsets n (rs_update (n_rrsets n) t rr v)) v.
Definition n_remove_rrset (n : znode) (t v : N) : znode :=
  check_nx (set_rrsets n (rs_remove_rtype (n_rrsets n) t v)) v.

(* ZoneNode::rollback / remove_all: own cells, then every child *)
Fixpoint n_rollback (n : znode) (v : N) : znode :=
  match n with
  | mknode rs sp ch =>
      mknode (if node_rollback_rrsets then rs_rollback rs v else rs)
             (if node_rollback_special then v_rollback sp v else sp)
             (if node_rollback_children then map (fun p => (fst p, n_rollback (snd p) v)) ch else ch)
  end.
Fixpoint n_remove_all (n : znode) (v : N) : znode :=
  match n with
  | mknode rs sp ch =>
      mknode (if node_remove_all_rrsets then rs_remove_all rs v else rs)
             (if node_remove_all_special then v_remove sp v else sp)
             (if node_remove_all_children then map (fun p => (fst p, n_remove_all (snd p) v)) ch else ch)
  end.

(* ZoneNode::exists(version): the node owns RRsets, a zone cut or a CNAME in that
   version, or some child exists (an empty non-terminal) *)
Definition own_data (rs : rrsets) (sp : list (entry (option special))) (v : N) : bool :=
  (if exists_counts_rrsets then negb (rs_is_empty rs v) else false) ||
  (if exists_counts_cname then match sp_get sp v with Some (SCname _) | Some (SCut _ _ _) => true | _ => false end else false).
Fixpoint n_exists (n : znode) (v : N) : bool :=
  match n with
  | mknode rs sp ch =>
      own_data rs sp v || (if exists_counts_children then existsb (fun p => n_exists (snd p) v) ch else false)
  end.

(* ---------------------------------------------------------------- zone, writer *)

Record writer := mkw { w_new : N; w_dirty : bool; w_open : bool }.

Record zstate := mkz {
  z_cur : N;                        (* ZoneVersions.current.0 *)
  z_apex : rrsets;                  (* ZoneApex.rrsets *)
  z_nodes : list (N * znode);       (* ZoneApex.children *)
  z_writer : option writer;         (* the WriteZone holding update_lock, if any *)
  z_handle : option N               (* version carried by a root WriteNode that the client kept
                                       beyond the commit() or drop that ended its session *)
}.

Definition set_nodes (s : zstate) (ns : list (N * znode)) : zstate :=
  mkz (z_cur s) (z_apex s) ns (z_writer s) (z_handle s).
Definition set_apex (s : zstate) (rs : rrsets) : zstate :=
  mkz (z_cur s) rs (z_nodes s) (z_writer s) (z_handle s).
Definition set_writer (s : zstate) (w : option writer) : zstate :=
  mkz (z_cur s) (z_apex s) (z_nodes s) w (z_handle s).

(* update_child along the path, then `f` on the last node.  Every missing node
   is created as `fresh`: the writer passes a node that already went through
   make_regular at its version, the ZoneBuilder an empty one *)
Fixpoint path_do (ns : list (N * znode)) (p : list N) (fresh : znode) (f : znode -> znode) : list (N * znode) :=
  match p with
  | [] => ns
  | l :: rest =>
      al_upd l (fun n => match rest with
                         | [] => f n
                         | _ => set_children n (path_do (n_children n) rest fresh f)
                         end) fresh ns
  end.

Definition fresh_node (v : N) : znode :=
  if update_child_creates_node then n_make_regular empty_node v else empty_node.

Definition child_do (ns : list (N * znode)) (p : list N) (v : N) (f : znode -> znode) : list (N * znode) :=
  path_do ns p (fresh_node v) f.

Definition node_exists (ns : list (N * znode)) (name : N) : bool :=
  match al_get name ns with Some _ => true | None => false end.

(* ZoneApex::rollback / remove_all *)
Definition z_rollback (s : zstate) (v : N) : zstate :=
  mkz (z_cur s)
      (if apex_rollback_rrsets then rs_rollback (z_apex s) v else z_apex s)
      (if apex_rollback_children then al_map (fun n => n_rollback n v) (z_nodes s) else z_nodes s)
      (z_writer s) (z_handle s).
Definition z_remove_all (s : zstate) (v : N) : zstate :=
  mkz (z_cur s)
      (if apex_remove_all_rrsets then rs_remove_all (z_apex s) v else z_apex s)
      (if apex_remove_all_children then al_map (fun n => n_remove_all n v) (z_nodes s) else z_nodes s)
      (z_writer s) (z_handle s).

Inductive event :=
| EAcquire (r : N)                 (* zone.read() into reader slot r *)
| EQuery (r : N) (name : list N) (t : N)   (* reader r: query(name, t) *)
| EWalk (r : N)                    (* reader r: walk *)
| ERelease (r : N)                 (* drop reader r *)
| EWAcquire                        (* zone.write().await *)
| EWOpen                           (* writer.open(false) -> root node *)
| EUpdate (name : list N) (t : N) (rr : rrv)   (* root.update_child(..)*.update_rrset(rr) *)
| ERemove (name : list N) (t : N)      (* root.update_child(..)*.remove_rrset(t) *)
| ETouch (name : list N)               (* root.update_child(..)* only *)
| ERemoveAll                       (* root.remove_all() *)
| ERemoveAllAt (name : list N)         (* root.update_child(..)*.remove_all() *)
| ECname (name : list N) (id : rrv)    (* root.update_child(..)*.make_cname(id) *)
| ECut (name : list N) (ns : rrv) (ds glue : option rrv)   (* ...make_zone_cut *)
| ERegular (name : list N)             (* root.update_child(..)*.make_regular() *)
| ECommit                          (* writer.commit(false); the root handle is kept aside *)
| ECommitBump                      (* writer.commit(true): bump the SOA serial unless the writer set a new SOA *)
| EDrop                            (* drop(writer); the root handle is kept aside *)
| EStale (e : event)               (* data operation e through the handle kept aside *)
| EDump.                           (* (harness only) the version numbers of all stored entries, from Debug *)

Definition at_node (s : zstate) (v : N) (name : list N) (f : znode -> znode) : zstate :=
  match name with
  | [] => s
  | _ => set_nodes s (child_do (z_nodes s) name v f)
  end.

(* a data operation of the open writer at version v *)
Definition data_op (s : zstate) (v : N) (e : event) : zstate :=
  match e with
  | EUpdate name t rr =>
      match name with
      | [] => set_apex s (rs_update (z_apex s) t rr v)
      | _ => at_node s v name (fun n => n_update_rrset n t rr v)
      end
  | ERemove name t =>
      match name with
      | [] => set_apex s (rs_remove_rtype (z_apex s) t v)
      | _ => at_node s v name (fun n => n_remove_rrset n t v)
      end
  | ETouch name => at_node s v name (fun n => n)
  | ERemoveAll => z_remove_all s v
  | ERemoveAllAt name => at_node s v name (fun n => n_remove_all n v)
  | ECname name id => at_node s v name (fun n => n_make_cname n id v)
  | ECut name ns ds glue => at_node s v name (fun n => n_make_cut n ns ds glue v)
  | ERegular name => at_node s v name (fun n => n_make_regular n v)
  | _ => s
  end.

(* WriteZone::commit: publish_new_zone_version *)
Definition publish (s : zstate) (w : writer) : zstate :=
  mkz (if publish_sets_current_to_new then w_new w else z_cur s) (z_apex s) (z_nodes s)
      (Some (mkw (if publish_advances_new_version then ver_next (w_new w) else w_new w)
                 (if publish_clears_dirty then false else w_dirty w) false))
      (if w_open w then Some (w_new w) else z_handle s).

(* commit(true): if the published version has a SOA and the new version has none
   or the same first record (TTL and data: get_soa is Rrset::first), an RRset of
   one SOA record with the old TTL and serial + 1 (Serial::add, i.e. C17's wrapping
   serial_add) is stored at the new version.  An SOA record is identified with its
   serial (the other fields are copied). *)
Definition get_soa (s : zstate) (v : N) : option (N * N) :=
  match rs_get (z_apex s) 6 v with Some x => rrv_first x | None => None end.
Definition soa_eqb (a b : N * N) : bool := (fst a =? fst b) && (snd a =? snd b).

Definition bump_soa (s : zstate) (w : writer) : zstate :=
  match get_soa s (z_cur s) with
  | Some old =>
      if (match get_soa s (w_new w) with None => true | Some new => soa_eqb new old end)
      then set_apex s (rs_at 6 (fun d => v_update d (w_new w) (fst old, [ver_next (snd old)])) (z_apex s))
      else s
  | None => s
  end.

Definition is_data (e : event) : bool :=
  match e with
  | EUpdate _ _ _ | ERemove _ _ | ETouch _ | ERemoveAll | ERemoveAllAt _ | ECname _ _ | ECut _ _ _ _ | ERegular _ => true
  | _ => false
  end.

(* One API call.  A call that the API does not offer in the state (a data
   operation without an open root node, a second writer while one holds the
   mutex) leaves the state unchanged: the second `write().await` stays pending. *)
Definition step (s : zstate) (e : event) : zstate :=
  match e with
  | EWAcquire =>
      match z_writer s with
      | Some _ => if writer_takes_mutex then s
                  else set_writer s (Some (mkw (if writer_version_is_next then ver_next (z_cur s) else z_cur s) false false))
      | None => set_writer s (Some (mkw (if writer_version_is_next then ver_next (z_cur s) else z_cur s) false false))
      end
  | EWOpen =>
      match z_writer s with
      | Some w => set_writer s (Some (mkw (w_new w) (if open_sets_dirty then true else w_dirty w) true))
      | None => s
      end
  | ECommit =>
      match z_writer s with
      | Some w => publish s w
      | None => s
      end
  | ECommitBump =>
      match z_writer s with
      | Some w => publish (if commit_bumps_soa then bump_soa s w else s) w
      | None => s
      end
  | EDrop =>
      match z_writer s with
      | Some w =>
          let s' := set_writer (if w_dirty w && drop_rolls_back_when_dirty then z_rollback s (w_new w) else s) None in
          mkz (z_cur s') (z_apex s') (z_nodes s') None (if w_open w then Some (w_new w) else z_handle s)
      | None => s
      end
  | EStale e' =>
      (* WriteNode keeps a clone of the WriteZone with the version it was opened
         for; unless the handle is rejected it writes at that version, with or
         without a writer holding the lock *)
      if stale_handle_rejected then s
      else match z_handle s with
           | Some hv => if is_data e' then data_op s hv e' else s
           | None => s
           end
  | _ =>
      if is_data e then
        match z_writer s with
        | Some w => if w_open w then data_op s (w_new w) e else s
        | None => s
        end
      else s
  end.

Definition run (s : zstate) (evs : list event) : zstate := fold_left step evs s.

(* ---------------------------------------------------------------- ReadZone *)

Inductive answer :=
| ANx (soa : option (N * N))       (* NXDOMAIN, SOA record (TTL, serial) of the reader's version in authority *)
| ANoData (soa : option (N * N))   (* NOERROR, empty answer *)
| AData (rr : rrv)
| AAny                             (* ANY: some RRset of the version *)
| ACname (c : rrv)
| ARefer (ns : rrv) (ds glue : option rrv).   (* referral at a zone cut *)

(* query_rrsets *)
Definition rrsets_answer (rs : rrsets) (v t : N) (soa : option (N * N)) : answer :=
  if t =? 255 then (if rs_is_empty rs v then ANoData soa else AAny)
  else match rs_get rs t v with Some rr => AData rr | None => ANoData soa end.

(* query_node_here_but_not_below: the NxDomain marker is treated like None *)
Definition node_here (n : znode) (v t : N) (soa : option (N * N)) : answer :=
  match n_with_special n v with
  | Some (SCut ns ds glue) =>
      if t =? 43 then match ds with Some d => AData d | None => ANoData soa end
      else ARefer ns ds glue
  | Some (SCname id) => ACname id
  | Some SNx => if nx_marker_answers_like_regular then rrsets_answer (n_rrsets n) v t soa else ANx soa
  | None => rrsets_answer (n_rrsets n) v t soa
  end.

(* NodeChildren::with(label) filtered by exists(version) *)
Definition child_at (ns : list (N * znode)) (name v : N) : option znode :=
  match al_get name ns with
  | Some n => if query_follows_only_existing_children then (if n_exists n v then Some n else None) else Some n
  | None => None
  end.

(* query_children / query_node / query_node_here_and_below along the name *)
Fixpoint q_children (ns : list (N * znode)) (p : list N) (v t : N) (soa : option (N * N)) : answer :=
  match p with
  | [] => ANx soa
  | l :: rest =>
      match child_at ns l v with
      | Some n =>
          match rest with
          | [] => node_here n v t soa
          | _ => match n_with_special n v with
                 | Some (SCut ns' ds glue) => ARefer ns' ds glue
                 | _ => q_children (n_children n) rest v t soa
                 end
          end
      | None => match child_at ns 1 v with
                | Some n => node_here n v t soa
                | None => ANx soa
                end
      end
  end.

Definition query (s : zstate) (v : N) (name : list N) (t : N) : answer :=
  let soa := match rs_get (z_apex s) 6 v with Some x => rrv_first x | None => None end in
  match name with
  | [] => rrsets_answer (z_apex s) v t soa
  | _ => q_children (z_nodes s) name v t soa
  end.

Definition walk_rrsets {A} (name : A) (rs : rrsets) (v : N) : list (A * N * rrv) :=
  flat_map (fun p => match v_get (snd p) v with Some rr => [(name, fst p, rr)] | None => [] end) rs.

Definition opt_item {A} (name : A) (t : N) (x : option rrv) : list (A * N * rrv) :=
  match x with Some id => [(name, t, id)] | None => [] end.

(* walk of a node: its RRsets, then by special: a cut emits NS, DS, glue and ends
   the descent; a CNAME is emitted and the children are walked; otherwise the children *)
Fixpoint walk_node (path : list N) (n : znode) (v : N) : list (list N * N * rrv) :=
  match n with
  | mknode rs sp ch =>
      walk_rrsets path rs v ++
      match sp_get sp v with
      | Some (SCut ns ds glue) => [(path, 2, ns)] ++ opt_item path 43 ds ++ opt_item path 1 glue
      | Some (SCname id) => [(path, 5, id)] ++ flat_map (fun p => walk_node (path ++ [fst p]) (snd p) v) ch
      | _ => flat_map (fun p => walk_node (path ++ [fst p]) (snd p) v) ch
      end
  end.

Definition walk (s : zstate) (v : N) : list (list N * N * rrv) :=
  walk_rrsets [] (z_apex s) v ++ flat_map (fun p => walk_node [fst p] (snd p) v) (z_nodes s).

(* the version numbers of every entry stored anywhere in the tree (RRsets and
   specials of all nodes, whether or not their names exist in any version) *)
Fixpoint n_versions (n : znode) : list N :=
  match n with
  | mknode rs sp ch =>
      flat_map (fun p => map fst (snd p)) rs ++ map fst sp ++ flat_map (fun p => n_versions (snd p)) ch
  end.
Definition z_versions (s : zstate) : list N :=
  flat_map (fun p => map fst (snd p)) (z_apex s) ++ flat_map (fun p => n_versions (snd p)) (z_nodes s).

(* ---------------------------------------------------------------- ZoneBuilder *)

Inductive init := IRrset (name : list N) (t : N) (rr : rrv) | ICname (name : list N) (id : rrv)
                | ICut (name : list N) (ns : rrv) (ds glue : option rrv).

Definition build_one (s : zstate) (i : init) : zstate :=
  match i with
  | IRrset name t rr =>
      match name with
      | [] => set_apex s (rs_update (z_apex s) t rr 0)
      | _ => set_nodes s (path_do (z_nodes s) name empty_node (fun n => set_rrsets n (rs_update (n_rrsets n) t rr 0)))
      end
  | ICname name id =>
      match name with
      | [] => s
      | _ => set_nodes s (path_do (z_nodes s) name empty_node (fun n => n_update_special n 0 (Some (SCname id))))
      end
  | ICut name ns ds glue =>
      match name with
      | [] => s
      | _ => set_nodes s (path_do (z_nodes s) name empty_node (fun n => n_update_special n 0 (Some (SCut ns ds glue))))
      end
  end.

Definition build (is : list init) : zstate := fold_left build_one is (mkz 0 [] [] None None).

(* ---------------------------------------------------------------- trace runner (driver) *)

Inductive obs :=
| OAnswer (a : answer) | OWalk (l : list (list N * N * rrv)) | ONoReader
| OGranted | OPending
| OStaleDone | OStaleRejected | OStaleNoHandle
| ODump (vs : list N).

Fixpoint trace (s : zstate) (rd : list (N * N)) (evs : list event) : list obs :=
  match evs with
  | [] => []
  | e :: tl =>
      match e with
      | EAcquire r =>
          trace s ((r, if reader_pins_current then z_cur s else 0) :: rd) tl
      | ERelease r => trace s (filter (fun p => negb (fst p =? r)) rd) tl
      | EQuery r name t =>
          (match al_get r rd with Some v => OAnswer (query s v name t) | None => ONoReader end)
          :: trace s rd tl
      | EWalk r =>
          (match al_get r rd with Some v => OWalk (walk s v) | None => ONoReader end)
          :: trace s rd tl
      | EWAcquire =>
          (match z_writer s with Some _ => if writer_takes_mutex then OPending else OGranted | None => OGranted end)
          :: trace (step s e) rd tl
      | EDump => ODump (z_versions s) :: trace s rd tl
      | EStale _ =>
          (match z_handle s with
           | Some _ => if stale_handle_rejected then OStaleRejected else OStaleDone
           | None => OStaleNoHandle end)
          :: trace (step s e) rd tl
      | _ => trace (step s e) rd tl
      end
  end.

(* ---------------------------------------------------------------- ZoneVersions / VersionMarker *)

(* write.rs ZoneVersions { current: (Version, Arc<VersionMarker>), all: Vec<(Version, Weak<VersionMarker>)> }.
   An Arc<VersionMarker> allocation is a number; its strong count is 1 for the
   `current` field if it is the current marker, plus one per ReadZone that was
   created while it was current (ZoneApex::read clones `current`).  `all` is in
   Vec order (push = append). *)
Record zversions := mkzv {
  zv_cur : N * N;                  (* (version, marker) *)
  zv_all : list (N * N);           (* (version, marker), Weak *)
  zv_fresh : N;                    (* next marker allocation *)
  zv_readers : list (N * (N * N))  (* reader slot -> the (version, marker) it pinned *)
}.

Definition zv_default : zversions := mkzv (0, 0) [(0, 0)] 1 [].

Definition strong_count (z : zversions) (m : N) : N :=
  (if snd (zv_cur z) =? m then 1 else 0) +
  N.of_nat (length (filter (fun p => snd (snd p) =? m) (zv_readers z))).

Inductive zv_op :=
| VCommit                          (* publish_new_zone_version: update_current(next) + push_version *)
| VAcquire (slot : N)              (* ZoneApex::read *)
| VRelease (slot : N)              (* drop(ReadZone) *)
| VClean.                          (* clean_versions *)

(* clean_versions: retain the entries whose marker is alive; the result is the
   greatest version (by `>` on Version) among the removed ones *)
Definition zv_alive (z : zversions) (it : N * N) : bool :=
  n_op clean_alive_cmp_op (strong_count z (snd it)) clean_alive_bound.

Fixpoint clean_max (z : zversions) (l : list (N * N)) (acc : option N) : option N :=
  match l with
  | [] => acc
  | it :: tl =>
      if zv_alive z it then clean_max z tl acc
      else clean_max z tl (match acc with
                           | Some old => if ver_op clean_max_cmp_op (fst it) old then Some (fst it) else Some old
                           | None => Some (fst it)
                           end)
  end.

Definition zv_clean (z : zversions) : zversions * option N :=
  (mkzv (zv_cur z) (filter (zv_alive z) (zv_all z)) (zv_fresh z) (zv_readers z), clean_max z (zv_all z) None).

Definition zv_step (z : zversions) (o : zv_op) : zversions :=
  match o with
  | VCommit =>
      let v := ver_next (fst (zv_cur z)) in
      mkzv (v, zv_fresh z) (zv_all z ++ [(v, zv_fresh z)]) (zv_fresh z + 1) (zv_readers z)
  | VAcquire slot => mkzv (zv_cur z) (zv_all z) (zv_fresh z) ((slot, zv_cur z) :: zv_readers z)
  | VRelease slot => mkzv (zv_cur z) (zv_all z) (zv_fresh z) (filter (fun p => negb (fst p =? slot)) (zv_readers z))
  | VClean => fst (zv_clean z)
  end.

Definition zv_run (os : list zv_op) : zversions := fold_left zv_step os zv_default.

(* observation of a ZoneVersions history: after every operation the versions
   listed in `all`, and for a cleaning its result *)
Definition c09_versions (os : list zv_op) : list (list N * option (option N)) :=
  (fix go (z : zversions) (os : list zv_op) :=
     match os with
     | [] => []
     | o :: tl =>
         let z' := zv_step z o in
         (map fst (zv_all z'), match o with VClean => Some (snd (zv_clean z)) | _ => None end) :: go z' tl
     end) zv_default os.

(* entry points for the correspondence driver *)
Definition c09_cell (os : list (cop N)) (probes : list N) : list (list (N * option N) * list (option N)) :=
  (fix go (d : list (entry N)) (os : list (cop N)) :=
     match os with
     | [] => []
     | o :: tl => let d' := c_apply d o in (d', map (v_get d') probes) :: go d' tl
     end) [] os.

Definition c09_trace (is : list init) (evs : list event) : list obs := trace (build is) [] evs.
