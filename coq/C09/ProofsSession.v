(* C09 proofs, part 7: (a) what a NEW reader gets, in terms of the trace runner: before the
   commit call, after it, after an abandoned session; (b) the effect of remove_all in the
   writer's version; (c) frame: update_rrset / remove_rrset change the stored cell of the
   addressed (name, type) only. *)
From Coq Require Import NArith ZArith List Bool Lia ZifyN ZifyBool ZifyNat.
From DV Require Import Base.Outcome C17.Model C09.Gen C09.Model C09.Proofs C09.ProofsZone C09.ProofsTrace C09.ProofsEffect.
Import ListNotations.
Local Open Scope N_scope.
Ltac Zify.zify_post_hook ::= Z.div_mod_to_equations.

(* ---------------------------------------------------------------- (a) new readers *)

Lemma trace_new_reader s rd pre r name t :
  exists before,
    trace s rd (pre ++ [EAcquire r; EQuery r name t; EWalk r]) =
    before ++ [OAnswer (query (run s pre) (z_cur (run s pre)) name t); OWalk (walk (run s pre) (z_cur (run s pre)))].
Proof.
  rewrite trace_app. exists (trace s rd pre). f_equal.
  cbn [trace al_get fst]. cbv [reader_pins_current]. cbn [al_get]. now rewrite N.eqb_refl.
Qed.

(* a reader acquired while the writer's session is still open (whatever it has done)
   gets the zone of before the session; one acquired right after the commit call gets
   the writer's version whole (the state the writer built, read at its version); one
   acquired after the session was abandoned gets the zone of before the session *)
Theorem new_reader_visibility : forall s rd ops r name t,
  zinv s -> z_writer s = None -> z_cur s + 2 < LIM -> all_data ops ->
  let pre := [EWAcquire; EWOpen] ++ ops in
  (exists before,
     trace s rd (pre ++ [EAcquire r; EQuery r name t; EWalk r]) =
     before ++ [OAnswer (query s (z_cur s) name t); OWalk (walk s (z_cur s))]) /\
  (exists before,
     trace s rd ((pre ++ [ECommit]) ++ [EAcquire r; EQuery r name t; EWalk r]) =
     before ++ [OAnswer (query (run s pre) (z_cur s + 1) name t); OWalk (walk (run s pre) (z_cur s + 1))]) /\
  (exists before,
     trace s rd ((pre ++ [EDrop]) ++ [EAcquire r; EQuery r name t; EWalk r]) =
     before ++ [OAnswer (query s (z_cur s) name t); OWalk (walk s (z_cur s))]).
Proof.
  intros s rd ops r name t Hinv Hw Hlim Hd pre.
  destruct (commit_atomic s ops Hinv Hw Hlim Hd) as [[Hc [Hq Hwk]] [HcC HvC]].
  fold pre in Hc, Hq, Hwk, HcC, HvC.
  split; [|split].
  - destruct (trace_new_reader s rd pre r name t) as [b Hb]. exists b. rewrite Hb, Hc, Hq, Hwk. reflexivity.
  - destruct (trace_new_reader s rd (pre ++ [ECommit]) r name t) as [b Hb]. exists b. rewrite Hb.
    rewrite run_app. cbn [run fold_left]. change (fold_left step pre s) with (run s pre).
    rewrite HcC. destruct (HvC (z_cur s + 1)) as [H1 H2]. now rewrite H1, H2.
  - destruct (trace_new_reader s rd (pre ++ [EDrop]) r name t) as [b Hb]. exists b. rewrite Hb.
    destruct (abort_invisible s ops Hinv Hw ltac:(unfold LIM in *; lia) Hd) as [Ha [_ Hv]].
    unfold pre. rewrite <- app_assoc. rewrite Ha. destruct (Hv (z_cur s)) as [H1 H2]. now rewrite H1, H2.
Qed.

Example ex_new_reader :
  trace wit_zone [] (([EWAcquire; EWOpen] ++ [EUpdate [2] 1 (r1 12)]) ++ [EAcquire 0; EQuery 0 [2] 1]) = [OGranted; OAnswer (AData (r1 11))] /\
  trace wit_zone [] ((([EWAcquire; EWOpen] ++ [EUpdate [2] 1 (r1 12)]) ++ [ECommit]) ++ [EAcquire 0; EQuery 0 [2] 1]) = [OGranted; OAnswer (AData (r1 12))] /\
  trace wit_zone [] ((([EWAcquire; EWOpen] ++ [EUpdate [2] 1 (r1 12)]) ++ [EDrop]) ++ [EAcquire 0; EQuery 0 [2] 1]) = [OGranted; OAnswer (AData (r1 11))].
Proof. repeat split; reflexivity. Qed.

(* ---------------------------------------------------------------- (b) remove_all *)

Lemma removed_reads_none {T} c w r (d : list (entry T)) :
  c < w -> w <= r -> r < LIM -> cq c w d -> v_get (v_remove d w) r = None.
Proof.
  intros Hc Hw Hr Hq. apply cell_remove_value.
  - rewrite ver_le_small by (unfold LIM in *; lia). apply N.leb_le. lia.
  - now apply (visible_of_cq c w r).
Qed.

Lemma walk_rrsets_remove_all {A} c w r (nm : A) rs :
  c < w -> w <= r -> r < LIM -> rs_q c w rs -> walk_rrsets nm (rs_remove_all rs w) r = [].
Proof.
  intros Hc Hw Hr H. unfold rs_remove_all, rs_all, al_map.
  induction H as [|[k d] tl Hd _ IH]; [reflexivity|].
  cbn [map fst snd]. rewrite walk_rrsets_cons. cbn [snd] in Hd.
  rewrite (removed_reads_none c w r d Hc Hw Hr Hd). exact IH.
Qed.

Lemma walk_node_remove_all c w r : c < w -> w <= r -> r < LIM ->
  forall n, n_q c w n -> forall path, walk_node path (n_remove_all n w) r = [].
Proof.
  intros Hc Hw Hr. induction n as [rs sp ch IH] using znode_ind'. intros Hq path.
  destruct (n_q_inv _ _ _ _ _ Hq) as [Hrs [Hsp Hch]].
  rewrite n_remove_all_eq, walk_node_eq.
  rewrite (walk_rrsets_remove_all c w r path rs Hc Hw Hr Hrs). cbn [app].
  unfold sp_get. rewrite (removed_reads_none c w r sp Hc Hw Hr Hsp).
  apply flat_map_nil. intros [k n'] Hin. unfold al_map in Hin. apply in_map_iff in Hin.
  destruct Hin as [[k0 n0] [E Hin0]]. cbn [fst snd] in E. injection E as Ek En. subst k n'. cbn [fst snd].
  unfold ns_q, ns_all in Hch. rewrite Forall_forall in Hch, IH.
  exact (IH (k0, n0) Hin0 (Hch (k0, n0) Hin0) _).
Qed.

(* after root.remove_all() the writer's version (and every later one until the next
   change) holds no record at all: its walk is empty *)
Theorem remove_all_effect : forall c w s r,
  c < w -> z_q c w s -> w <= r -> r < LIM -> walk (data_op s w ERemoveAll) r = [].
Proof.
  intros c w s r Hc [Ha Hn] Hw Hr. cbn [data_op]. unfold z_remove_all, walk.
  cbv [apex_remove_all_rrsets apex_remove_all_children]. cbn [z_apex z_nodes].
  rewrite (walk_rrsets_remove_all c w r [] _ Hc Hw Hr Ha). cbn [app].
  apply flat_map_nil. intros [k n'] Hin. unfold al_map in Hin. apply in_map_iff in Hin.
  destruct Hin as [[k0 n0] [E Hin0]]. cbn [fst snd] in E. injection E as Ek En. subst k n'. cbn [fst snd].
  unfold ns_q, ns_all in Hn. rewrite Forall_forall in Hn.
  exact (walk_node_remove_all c w r Hc Hw Hr n0 (Hn (k0, n0) Hin0) _).
Qed.

Example ex_remove_all :
  let s := build [IRrset [] 6 (r1 1); IRrset [2; 3] 1 (r1 11); ICname [4] (r1 5)] in
  length (walk s 0) = 3%nat /\ walk (data_op s 1 ERemoveAll) 1 = [] /\ length (walk (data_op s 1 ERemoveAll) 0) = 3%nat.
Proof. repeat split; reflexivity. Qed.

(* ---------------------------------------------------------------- (c) frame *)

Definition ncell (t : N) (o : option znode) : list (entry rrv) :=
  match o with Some n => cell t (n_rrsets n) | None => [] end.

Lemma cell_of_ncell s name t :
  cell_of s name t = match name with [] => cell t (z_apex s) | _ => ncell t (find_node (z_nodes s) name) end.
Proof. destruct name; reflexivity. Qed.

Lemma find_node_nil p : find_node [] p = None.
Proof. destruct p; reflexivity. Qed.

Lemma check_nx_children n w : n_children (check_nx n w) = n_children n.
Proof.
  unfold check_nx. destruct nx_marker_follows_emptiness; [|reflexivity].
  destruct (n_with_special n w) as [[ns ds glue|id|]|]; try reflexivity.
  - destruct (negb (rs_is_empty (n_rrsets n) w)); destruct n; reflexivity.
  - destruct (rs_is_empty (n_rrsets n) w); destruct n; reflexivity.
Qed.

Lemma fresh_node_blank w : n_children (fresh_node w) = [] /\ n_rrsets (fresh_node w) = [].
Proof.
  unfold fresh_node. destruct update_child_creates_node; [|split; reflexivity].
  unfold n_make_regular. rewrite check_nx_children, check_nx_rrsets. split; reflexivity.
Qed.

(* path_do applies f at the node of path p (created if missing, with every missing
   node on the way): the stored cell of any (p', t') is unchanged unless p' = p, and
   then too if f leaves the cell of t' alone *)
Lemma frame_path fresh f t' :
  (forall n, n_children (f n) = n_children n) ->
  n_children fresh = [] -> n_rrsets fresh = [] ->
  forall p ns p', p <> [] -> p' <> [] ->
    (p' = p -> forall n, cell t' (n_rrsets (f n)) = cell t' (n_rrsets n)) ->
    ncell t' (find_node (path_do ns p fresh f) p') = ncell t' (find_node ns p').
Proof.
  intros Hfc Hc0 Hr0. induction p as [|l rest IH]; intros ns p' Hp Hp' Hsame; [contradiction|].
  destruct p' as [|l' rest']; [contradiction|].
  cbn [path_do find_node]. rewrite al_get_upd.
  destruct (N.eqb_spec l' l) as [->|Hne]; [|reflexivity].
  set (x := match al_get l ns with Some a => a | None => fresh end).
  assert (Hold : ncell t' (match al_get l ns with
                           | Some n => match rest' with [] => Some n | _ => find_node (n_children n) rest' end
                           | None => None end) =
                 ncell t' (match rest' with [] => Some x | _ => find_node (n_children x) rest' end)).
  { subst x. destruct (al_get l ns) as [a|]; [reflexivity|].
    destruct rest'; cbn [ncell]; [now rewrite Hr0|]. rewrite Hc0. now rewrite find_node_nil. }
  rewrite Hold. clear Hold.
  destruct rest as [|l2 rest2]; destruct rest' as [|l2' rest2'].
  - cbn [ncell]. now apply Hsame.
  - now rewrite Hfc.
  - cbn [ncell]. destruct x; reflexivity.
  - assert (E : n_children (set_children x (path_do (n_children x) (l2 :: rest2) fresh f)) =
                path_do (n_children x) (l2 :: rest2) fresh f) by (destruct x; reflexivity).
    rewrite E. apply IH; [discriminate|discriminate|].
    intros Heq. apply Hsame. now rewrite Heq.
Qed.

Lemma frame_at s w name f name' t' :
  (forall n, n_children (f n) = n_children n) ->
  (name' = name -> forall n, cell t' (n_rrsets (f n)) = cell t' (n_rrsets n)) ->
  cell_of (at_node s w name f) name' t' = cell_of s name' t'.
Proof.
  intros Hfc Hsame. unfold at_node. destruct name as [|l rest]; [reflexivity|].
  rewrite !cell_of_ncell. cbn [set_nodes z_apex z_nodes]. destruct name' as [|l' rest']; [reflexivity|].
  unfold child_do. destruct (fresh_node_blank w) as [H1 H2].
  apply frame_path; auto; discriminate.
Qed.

Lemma rs_at_other t t' g rs : t' <> t -> cell t' (rs_at t g rs) = cell t' rs.
Proof. intros Hne. unfold rs_at. rewrite cell_upd. destruct (N.eqb_spec t' t); [contradiction|reflexivity]. Qed.

Lemma rs_update_other rs t rr w t' : t' <> t -> cell t' (rs_update rs t rr w) = cell t' rs.
Proof.
  intros Hne. unfold rs_update, rs_remove_rtype.
  destruct (rrv_is_empty rr && update_empty_rrset_is_remove); now apply rs_at_other.
Qed.

(* update_rrset / remove_rrset at (name, t) leave the stored RRset history of every other
   (name', t') exactly as it was -- for every version, no invariant needed: together with
   update_effect / remove_effect the writer's version differs from its base in the
   addressed RRsets only *)
Theorem update_frame : forall s w name t rr name' t',
  name' <> name \/ t' <> t ->
  cell_of (data_op s w (EUpdate name t rr)) name' t' = cell_of s name' t'.
Proof.
  intros s w name t rr name' t' Hne. cbn [data_op]. destruct name as [|l rest].
  - rewrite !cell_of_ncell. cbn [set_apex z_apex z_nodes]. destruct name' as [|l' rest']; [|reflexivity].
    destruct Hne as [Hn|Ht]; [contradiction|]. now apply rs_update_other.
  - apply frame_at.
    + intros n. unfold n_update_rrset. rewrite check_nx_children. destruct n; reflexivity.
    + intros Heq n. destruct Hne as [Hn|Ht]; [contradiction|].
      unfold n_update_rrset. rewrite check_nx_rrsets. destruct n as [rs sp ch]. cbn [set_rrsets n_rrsets].
      now apply rs_update_other.
Qed.

Theorem remove_frame : forall s w name t name' t',
  name' <> name \/ t' <> t ->
  cell_of (data_op s w (ERemove name t)) name' t' = cell_of s name' t'.
Proof.
  intros s w name t name' t' Hne. cbn [data_op]. destruct name as [|l rest].
  - rewrite !cell_of_ncell. cbn [set_apex z_apex z_nodes]. destruct name' as [|l' rest']; [|reflexivity].
    destruct Hne as [Hn|Ht]; [contradiction|]. unfold rs_remove_rtype. now apply rs_at_other.
  - apply frame_at.
    + intros n. unfold n_remove_rrset. rewrite check_nx_children. destruct n; reflexivity.
    + intros Heq n. destruct Hne as [Hn|Ht]; [contradiction|].
      unfold n_remove_rrset. rewrite check_nx_rrsets. destruct n as [rs sp ch]. cbn [set_rrsets n_rrsets].
      unfold rs_remove_rtype. now apply rs_at_other.
Qed.

(* update_child alone, make_cname, make_zone_cut and make_regular store no RRset:
   every stored RRset history is as it was *)
Definition is_special_op (e : event) : bool :=
  match e with ETouch _ | ECname _ _ | ECut _ _ _ _ | ERegular _ => true | _ => false end.

Theorem special_ops_frame : forall s w e name' t',
  is_special_op e = true -> cell_of (data_op s w e) name' t' = cell_of s name' t'.
Proof.
  intros s w e name' t' He. destruct e; cbn [is_special_op] in He; try discriminate; cbn [data_op]; apply frame_at.
  all: try (intros n; unfold n_make_regular; rewrite ?check_nx_children; destruct n; reflexivity).
  all: intros _ n; unfold n_make_regular; rewrite ?check_nx_rrsets; destruct n; reflexivity.
Qed.

Example ex_frame :
  let s := build [IRrset [] 6 (r1 1); IRrset [2; 3] 1 (r1 11); IRrset [2; 3] 16 (r1 7); IRrset [2] 1 (r1 9)] in
  let s' := data_op s 1 (EUpdate [2; 3] 1 (r1 12)) in
  cell_of s' [2; 3] 1 <> cell_of s [2; 3] 1 /\ cell_of s' [2; 3] 16 = [(0, Some (r1 7))] /\
  cell_of s' [2] 1 = [(0, Some (r1 9))] /\ cell_of s' [] 6 = [(0, Some (r1 1))] /\
  cell_of (data_op s 1 (ECname [2; 3] (r1 4))) [2; 3] 1 = [(0, Some (r1 11))].
Proof. repeat split; try reflexivity. vm_compute. discriminate. Qed.

(* ---------------------------------------------------------------- (d) remove_all below a name *)

(* after update_child(..)*.remove_all() at a name the writer's version holds nothing at
   that name nor anywhere below it: the walk of that subtree is empty and every type reads None *)
Theorem remove_all_at_effect : forall c w s name r,
  c < w -> z_q c w s -> w <= r -> r < LIM -> name <> [] ->
  exists n, find_node (z_nodes (data_op s w (ERemoveAllAt name))) name = Some n /\
    (forall path, walk_node path n r = []) /\
    (forall t, v_get (cell_of (data_op s w (ERemoveAllAt name)) name t) r = None).
Proof.
  intros c w s name r Hc [Ha Hn] Hw Hr Hne. cbn [data_op]. destruct name as [|l rest]; [contradiction|].
  unfold at_node, child_do. cbn [cell_of set_nodes z_nodes].
  destruct (find_path_do c w (fresh_node w) (fun n => n_remove_all n w) (fresh_q c w Hc) (l :: rest) (z_nodes s) ltac:(discriminate) Hn)
    as [n0 [Hq0 E]].
  rewrite E. exists (n_remove_all n0 w). split; [reflexivity|split].
  - intros path. now apply (walk_node_remove_all c w r).
  - intros t. destruct n0 as [rs sp ch]. rewrite n_remove_all_eq. cbn [n_rrsets].
    unfold rs_remove_all, rs_all. rewrite cell_map by reflexivity.
    apply (removed_reads_none c w r); auto. apply cell_q. exact (proj1 (n_q_inv _ _ _ _ _ Hq0)).
Qed.

Example ex_remove_all_at :
  let s := build [IRrset [] 6 (r1 1); IRrset [2; 3] 1 (r1 11); IRrset [2] 1 (r1 9); IRrset [4] 1 (r1 8)] in
  let s' := data_op s 1 (ERemoveAllAt [2]) in
  walk s' 1 = [([], 6, r1 1); ([4], 1, r1 8)] /\ length (walk s' 0) = 4%nat.
Proof. repeat split; reflexivity. Qed.

(* ---------------------------------------------------------------- (e) what the commit publishes *)

Lemma cell_of_same a b name t : z_apex a = z_apex b -> z_nodes a = z_nodes b -> cell_of a name t = cell_of b name t.
Proof. intros E1 E2. unfold cell_of. now rewrite E1, E2. Qed.

Lemma data_op_fields s w e : z_cur (data_op s w e) = z_cur s /\ z_writer (data_op s w e) = z_writer s.
Proof. destruct e; cbn [data_op]; try (split; reflexivity); try (unfold at_node; destruct name; split; reflexivity). Qed.

(* a whole session: any data operations, then a last one, then commit(false) *)
Lemma session_then s ops e :
  zinv s -> z_writer s = None -> z_cur s + 2 < LIM -> all_data ops -> is_data e = true ->
  let s2 := run s ([EWAcquire; EWOpen] ++ ops) in
  let sC := run s (([EWAcquire; EWOpen] ++ ops) ++ [e; ECommit]) in
  z_q (z_cur s) (z_cur s + 1) s2 /\ z_cur sC = z_cur s + 1 /\
  z_apex sC = z_apex (data_op s2 (z_cur s + 1) e) /\ z_nodes sC = z_nodes (data_op s2 (z_cur s + 1) e).
Proof.
  intros Hinv Hw Hlim Hd He.
  destruct (open_session s Hinv Hw ltac:(unfold LIM in *; lia)) as [Hsd [Hc1 [Hw1 Hq1]]].
  set (s1 := run s [EWAcquire; EWOpen]) in *.
  rewrite <- Hc1 in Hq1.
  assert (Hn1 : w_new (mkw (z_cur s + 1) true true) = z_cur s1 + 1) by (cbn [w_new]; now rewrite Hc1).
  assert (Hl1 : z_cur s1 + 1 < LIM) by (rewrite Hc1; unfold LIM in *; lia).
  destruct (session_run ops s1 _ Hd Hw1 eq_refl eq_refl Hn1 Hq1 Hl1) as [Hw2 [Hc2 [Hq2 _]]].
  cbn zeta. rewrite !run_app. fold s1. set (s2 := run s1 ops) in *.
  assert (Hst : step s2 e = data_op s2 (z_cur s + 1) e).
  { destruct e; cbn [is_data] in He; try discriminate; cbn [step is_data]; rewrite Hw2; reflexivity. }
  cbn [run fold_left]. rewrite Hst.
  destruct (data_op_fields s2 (z_cur s + 1) e) as [Hc' Hw'].
  cbn [step]. rewrite Hw', Hw2. unfold publish.
  cbv [publish_sets_current_to_new publish_advances_new_version publish_clears_dirty].
  cbn [z_cur z_apex z_nodes w_new]. rewrite Hc1 in Hq2.
  split; [exact Hq2|split; [reflexivity|split; reflexivity]].
Qed.

(* after a committed session whose last operation on (name, t) was update_rrset(rr),
   the published version -- what every reader acquired from now on reads -- holds rr there;
   if it was remove_rrset, nothing *)
Theorem committed_update_visible : forall s ops name t rr,
  zinv s -> z_writer s = None -> z_cur s + 2 < LIM -> all_data ops -> rrv_is_empty rr = false ->
  let sC := run s (([EWAcquire; EWOpen] ++ ops) ++ [EUpdate name t rr; ECommit]) in
  z_cur sC = z_cur s + 1 /\ v_get (cell_of sC name t) (z_cur sC) = Some rr.
Proof.
  intros s ops name t rr Hinv Hw Hlim Hd Hrr.
  destruct (session_then s ops (EUpdate name t rr) Hinv Hw Hlim Hd eq_refl) as [Hq [Hc [Ea En]]].
  cbn zeta. split; [exact Hc|]. rewrite Hc. rewrite (cell_of_same _ _ name t Ea En).
  apply (update_effect (z_cur s) (z_cur s + 1)); [lia|exact Hq|exact Hrr|].
  apply ver_le_refl. unfold LIM in *. lia.
Qed.

Theorem committed_remove_visible : forall s ops name t,
  zinv s -> z_writer s = None -> z_cur s + 2 < LIM -> all_data ops ->
  let sC := run s (([EWAcquire; EWOpen] ++ ops) ++ [ERemove name t; ECommit]) in
  z_cur sC = z_cur s + 1 /\ v_get (cell_of sC name t) (z_cur sC) = None.
Proof.
  intros s ops name t Hinv Hw Hlim Hd.
  destruct (session_then s ops (ERemove name t) Hinv Hw Hlim Hd eq_refl) as [Hq [Hc [Ea En]]].
  cbn zeta. split; [exact Hc|]. rewrite Hc. rewrite (cell_of_same _ _ name t Ea En).
  apply (remove_effect (z_cur s) (z_cur s + 1)); [lia|exact Hq|lia|unfold LIM in *; lia].
Qed.

Theorem committed_remove_all_visible : forall s ops,
  zinv s -> z_writer s = None -> z_cur s + 2 < LIM -> all_data ops ->
  let sC := run s (([EWAcquire; EWOpen] ++ ops) ++ [ERemoveAll; ECommit]) in
  z_cur sC = z_cur s + 1 /\ walk sC (z_cur sC) = [].
Proof.
  intros s ops Hinv Hw Hlim Hd.
  destruct (session_then s ops ERemoveAll Hinv Hw Hlim Hd eq_refl) as [Hq [Hc [Ea En]]].
  cbn zeta. split; [exact Hc|]. rewrite Hc.
  rewrite (walk_same _ (data_op (run s ([EWAcquire; EWOpen] ++ ops)) (z_cur s + 1) ERemoveAll)) by (split; assumption).
  apply (remove_all_effect (z_cur s) (z_cur s + 1)); [lia|exact Hq|lia|unfold LIM in *; lia].
Qed.

Example ex_committed :
  let sC := run wit_zone (([EWAcquire; EWOpen] ++ [ERemove [2] 1]) ++ [EUpdate [2] 1 (r1 12); ECommit]) in
  z_cur sC = 1 /\ v_get (cell_of sC [2] 1) (z_cur sC) = Some (r1 12) /\ v_get (cell_of sC [2] 1) 0 = Some (r1 11) /\
  walk (run wit_zone (([EWAcquire; EWOpen] ++ []) ++ [ERemoveAll; ECommit])) 1 = [].
Proof. repeat split; reflexivity. Qed.
