(* C09 proofs, part 6: no torn RRsets.  Every RRset (TTL and record list as a
   whole) that is stored anywhere, and hence every RRset a query or a walk
   returns, is one that was handed over whole to ZoneBuilder / update_rrset /
   make_cname / make_zone_cut, or an SOA that commit(true) derived from one. *)
From Coq Require Import NArith ZArith List Bool Lia.
From DV Require Import Base.Outcome C17.Model C09.Gen C09.Model C09.Proofs C09.ProofsZone.
Import ListNotations.
Local Open Scope N_scope.

Section Vals.
Variable Q : rrv -> Prop.

Definition optQ (o : option rrv) : Prop := match o with Some x => Q x | None => True end.
Definition special_vals (s : special) : Prop :=
  match s with SCut ns ds glue => Q ns /\ optQ ds /\ optQ glue | SCname c => Q c | SNx => True end.

Definition cell_vals (d : list (entry rrv)) : Prop :=
  Forall (fun it => match snd it with Some x => Q x | None => True end) d.
Definition sp_vals (sp : list (entry (option special))) : Prop :=
  Forall (fun it => match snd it with Some (Some s) => special_vals s | _ => True end) sp.
Definition rs_vals (rs : rrsets) : Prop := Forall (fun p => cell_vals (snd p)) rs.

Inductive n_vals : znode -> Prop :=
| n_vals_intro rs sp ch : rs_vals rs -> sp_vals sp -> Forall (fun p => n_vals (snd p)) ch -> n_vals (mknode rs sp ch).
Definition ns_vals (ns : list (N * znode)) : Prop := Forall (fun p => n_vals (snd p)) ns.
Definition z_vals (s : zstate) : Prop := rs_vals (z_apex s) /\ ns_vals (z_nodes s).

(* ---- cells *)
Lemma vals_update {T} (P : option T -> Prop) (d : list (entry T)) v x :
  P (Some x) -> Forall (fun it => P (snd it)) d -> Forall (fun it => P (snd it)) (v_update d v x).
Proof.
  intros Hx H. rewrite v_update_eq. destruct d as [|[lv lx] rest]; [repeat constructor; exact Hx|].
  inversion H; subst. destruct (lv =? v); constructor; auto.
Qed.
Lemma vals_remove {T} (P : option T -> Prop) (d : list (entry T)) v :
  P None -> Forall (fun it => P (snd it)) d -> Forall (fun it => P (snd it)) (v_remove d v).
Proof.
  intros Hn H. rewrite v_remove_eq. destruct d as [|[lv [y|]] rest]; [constructor| |exact H].
  inversion H; subst. destruct (lv =? v).
  - destruct rest; [constructor|constructor; auto].
  - constructor; auto.
Qed.
Lemma vals_rollback {T} (P : option T -> Prop) (d : list (entry T)) v :
  Forall (fun it => P (snd it)) d -> Forall (fun it => P (snd it)) (v_rollback d v).
Proof.
  intros H. rewrite v_rollback_eq. destruct d as [|[lv lx] rest]; [constructor|].
  destruct (lv =? v); [now inversion H|exact H].
Qed.

Definition Pc (o : option rrv) : Prop := match o with Some x => Q x | None => True end.
Definition Ps (o : option (option special)) : Prop := match o with Some (Some s) => special_vals s | _ => True end.

Lemma rs_at_vals t f rs :
  (forall d, cell_vals d -> cell_vals (f d)) -> rs_vals rs -> rs_vals (rs_at t f rs).
Proof. intros Hf H. apply (Forall_al_upd cell_vals); [exact Hf|constructor|exact H]. Qed.
Lemma rs_all_vals f rs :
  (forall d, cell_vals d -> cell_vals (f d)) -> rs_vals rs -> rs_vals (rs_all f rs).
Proof. intros Hf H. apply (Forall_al_map cell_vals); [exact Hf|exact H]. Qed.

Lemma rs_update_vals rs t rr v : Q rr \/ rrv_is_empty rr = true -> rs_vals rs -> rs_vals (rs_update rs t rr v).
Proof.
  intros Hrr H. unfold rs_update, rs_remove_rtype. cbv [update_empty_rrset_is_remove]. rewrite andb_true_r.
  destruct (rrv_is_empty rr) eqn:E.
  - apply rs_at_vals; [|exact H]. intros d Hd. now apply (vals_remove Pc).
  - destruct Hrr as [Hq|Hq]; [|discriminate]. apply rs_at_vals; [|exact H]. intros d Hd. now apply (vals_update Pc).
Qed.
Lemma rs_remove_vals rs t v : rs_vals rs -> rs_vals (rs_remove_rtype rs t v).
Proof. intros H. apply rs_at_vals; [|exact H]. intros d Hd. now apply (vals_remove Pc). Qed.

(* ---- nodes *)
Definition keeps (F : znode -> znode) : Prop := forall n, n_vals n -> n_vals (F n).

Lemma keeps_update_special v s : match s with Some x => special_vals x | None => True end -> keeps (fun n => n_update_special n v s).
Proof.
  intros Hs [rs sp ch] H. inversion H; subst. unfold n_update_special, set_special. cbn [n_rrsets n_special n_children].
  constructor; [assumption| |assumption]. apply (vals_update Ps); [destruct s; exact Hs|assumption].
Qed.
Lemma keeps_check_nx v : keeps (fun n => check_nx n v).
Proof.
  intros n H. unfold check_nx. destruct nx_marker_follows_emptiness; [|exact H].
  destruct (n_with_special n v) as [[ns ds glue|c|]|]; try exact H.
  - destruct (negb (rs_is_empty (n_rrsets n) v)); [now apply (keeps_update_special v None)|exact H].
  - destruct (rs_is_empty (n_rrsets n) v); [now apply (keeps_update_special v (Some SNx))|exact H].
Qed.
Lemma keeps_set_rrsets (G : rrsets -> rrsets) : (forall rs, rs_vals rs -> rs_vals (G rs)) -> keeps (fun n => set_rrsets n (G (n_rrsets n))).
Proof. intros HG [rs sp ch] H. inversion H; subst. unfold set_rrsets. cbn [n_rrsets n_special n_children]. constructor; auto. Qed.

Lemma keeps_update_rrset t rr v : Q rr \/ rrv_is_empty rr = true -> keeps (fun n => n_update_rrset n t rr v).
Proof.
  intros Hrr n H. unfold n_update_rrset. apply keeps_check_nx.
  apply (keeps_set_rrsets (fun rs => rs_update rs t rr v)); [|exact H]. intros rs Hrs. now apply rs_update_vals.
Qed.
Lemma keeps_remove_rrset t v : keeps (fun n => n_remove_rrset n t v).
Proof.
  intros n H. unfold n_remove_rrset. apply keeps_check_nx.
  apply (keeps_set_rrsets (fun rs => rs_remove_rtype rs t v)); [|exact H]. intros rs Hrs. now apply rs_remove_vals.
Qed.
Lemma keeps_make_regular v : keeps (fun n => n_make_regular n v).
Proof. intros n H. unfold n_make_regular. apply keeps_check_nx. now apply (keeps_update_special v None). Qed.

Lemma keeps_remove_all v : keeps (fun n => n_remove_all n v).
Proof.
  intros n. induction n as [rs sp ch IH] using znode_ind'. intros H. inversion H as [? ? ? H1 H2 H3]; subst.
  rewrite n_remove_all_eq. constructor.
  - apply rs_all_vals; [|exact H1]. intros d Hd. now apply (vals_remove Pc).
  - now apply (vals_remove Ps).
  - unfold al_map. rewrite Forall_map. rewrite Forall_forall in *. intros p Hin. cbn [snd]. exact (IH p Hin (H3 p Hin)).
Qed.
Lemma keeps_rollback v : keeps (fun n => n_rollback n v).
Proof.
  intros n. induction n as [rs sp ch IH] using znode_ind'. intros H. inversion H as [? ? ? H1 H2 H3]; subst.
  rewrite n_rollback_eq. constructor.
  - apply rs_all_vals; [|exact H1]. intros d Hd. now apply (vals_rollback Pc).
  - now apply (vals_rollback Ps).
  - unfold al_map. rewrite Forall_map. rewrite Forall_forall in *. intros p Hin. cbn [snd]. exact (IH p Hin (H3 p Hin)).
Qed.

Lemma path_do_vals fresh f : n_vals fresh -> keeps f -> forall p ns, ns_vals ns -> ns_vals (path_do ns p fresh f).
Proof.
  intros Hfresh Hf. induction p as [|l rest IH]; intros ns H; cbn [path_do]; [exact H|].
  apply (Forall_al_upd n_vals); [|exact Hfresh|exact H].
  intros n Hn. destruct rest as [|l' rest']; [now apply Hf|].
  destruct n as [rs sp ch]. inversion Hn; subst. unfold set_children. cbn [n_rrsets n_special n_children].
  constructor; [assumption|assumption|]. now apply IH.
Qed.

Lemma empty_vals : n_vals empty_node.
Proof. constructor; constructor. Qed.
Lemma fresh_vals v : n_vals (fresh_node v).
Proof. unfold fresh_node. cbv [update_child_creates_node]. apply keeps_make_regular. apply empty_vals. Qed.

(* ---- events *)
Fixpoint ev_vals (e : event) : Prop :=
  match e with
  | EUpdate _ _ rr => Q rr \/ rrv_is_empty rr = true
  | ECname _ c => Q c
  | ECut _ ns ds glue => Q ns /\ optQ ds /\ optQ glue
  | EStale e' => ev_vals e'
  | _ => True
  end.
Definition init_vals (i : init) : Prop :=
  match i with
  | IRrset _ _ rr => Q rr \/ rrv_is_empty rr = true
  | ICname _ c => Q c
  | ICut _ ns ds glue => Q ns /\ optQ ds /\ optQ glue
  end.
(* an SOA derived by commit(true): the old TTL, one record, serial + 1 *)
Definition bump_closed : Prop :=
  forall x ttl d, Q x -> rrv_first x = Some (ttl, d) -> Q (ttl, [ver_next d]).

Lemma v_get_in {T} (d : list (entry T)) v x : v_get d v = Some x -> exists u, In (u, Some x) d.
Proof.
  induction d as [|[lv lx] rest IH]; [discriminate|]. rewrite v_get_cons.
  destruct (ver_le lv v).
  - intros ->. exists lv. now left.
  - intros H. destruct (IH H) as [u Hu]. exists u. now right.
Qed.

Lemma cell_vals_cell t rs : rs_vals rs -> cell_vals (cell t rs).
Proof.
  intros H. unfold cell. induction H as [|[k d] tl Hd _ IH]; cbn [al_get]; [constructor|].
  destruct (k =? t); [exact Hd|exact IH].
Qed.
Lemma rs_get_vals rs t v x : rs_vals rs -> rs_get rs t v = Some x -> Q x.
Proof.
  intros H E. unfold rs_get in E. destruct (v_get_in _ _ _ E) as [u Hin].
  pose proof (cell_vals_cell t rs H) as Hc. unfold cell_vals in Hc. rewrite Forall_forall in Hc. exact (Hc _ Hin).
Qed.
Lemma sp_get_vals sp v s : sp_vals sp -> sp_get sp v = Some s -> special_vals s.
Proof.
  intros H E. unfold sp_get in E. destruct (v_get sp v) as [[s'|]|] eqn:G; try discriminate. inversion E; subst.
  destruct (v_get_in _ _ _ G) as [u Hin]. unfold sp_vals in H. rewrite Forall_forall in H. exact (H _ Hin).
Qed.

Lemma data_op_vals s v e : ev_vals e -> z_vals s -> z_vals (data_op s v e).
Proof.
  intros He [Ha Hn].
  assert (Hchild : forall name F, keeps F -> z_vals (at_node s v name F)).
  { intros name F HF. unfold at_node. destruct name; [split; assumption|].
    split; cbn [set_nodes z_apex z_nodes]; [exact Ha|]. unfold child_do. apply path_do_vals; [apply fresh_vals|exact HF|exact Hn]. }
  destruct e; cbn [data_op ev_vals] in *; try (split; assumption).
  - destruct name; [split; cbn [set_apex z_apex z_nodes]; [now apply rs_update_vals|exact Hn]|].
    apply Hchild. now apply keeps_update_rrset.
  - destruct name; [split; cbn [set_apex z_apex z_nodes]; [now apply rs_remove_vals|exact Hn]|].
    apply Hchild. apply keeps_remove_rrset.
  - apply Hchild. intros n H. exact H.
  - unfold z_remove_all. cbv [apex_remove_all_rrsets apex_remove_all_children]. split; cbn [z_apex z_nodes].
    + apply rs_all_vals; [|exact Ha]. intros d Hd. now apply (vals_remove Pc).
    + unfold ns_vals, al_map. rewrite Forall_map. eapply Forall_impl; [|exact Hn]. intros p Hp. now apply keeps_remove_all.
  - apply Hchild. apply keeps_remove_all.
  - apply Hchild. unfold n_make_cname. now apply (keeps_update_special v (Some (SCname id))).
  - apply Hchild. unfold n_make_cut. now apply (keeps_update_special v (Some (SCut ns ds glue))).
  - apply Hchild. apply keeps_make_regular.
Qed.

Lemma step_vals s e : bump_closed -> ev_vals e -> z_vals s -> z_vals (step s e).
Proof.
  intros Hb He H.
  assert (Hdata : forall v e', ev_vals e' -> z_vals (data_op s v e')) by (intros; now apply data_op_vals).
  assert (Hroll : forall v, z_vals (z_rollback s v)).
  { intros v. destruct H as [Ha Hn]. rewrite z_rollback_eq. split; cbn [z_apex z_nodes].
    - apply rs_all_vals; [|exact Ha]. intros d Hd. now apply (vals_rollback Pc).
    - unfold ns_vals, al_map. rewrite Forall_map. eapply Forall_impl; [|exact Hn]. intros p Hp. now apply keeps_rollback. }
  destruct e; cbn [step is_data ev_vals] in *;
    try (destruct (z_writer s) as [w|]; [destruct (w_open w); [now apply Hdata|exact H]|exact H]);
    try exact H.
  - destruct (z_writer s); [destruct writer_takes_mutex|]; exact H.
  - destruct (z_writer s); exact H.
  - destruct (z_writer s) as [w|]; [|exact H]. exact H.
  - (* ECommitBump *)
    destruct (z_writer s) as [w|]; [|exact H]. cbv [commit_bumps_soa].
    change (z_vals (bump_soa s w)). unfold bump_soa, get_soa.
    destruct (rs_get (z_apex s) 6 (z_cur s)) as [x|] eqn:E; [|exact H].
    destruct (rrv_first x) as [[ttl d]|] eqn:F; [|exact H].
    destruct (match match rs_get (z_apex s) 6 (w_new w) with Some x0 => rrv_first x0 | None => None end with
              | Some new => soa_eqb new (ttl, d) | None => true end); [|exact H].
    destruct H as [Ha Hn]. split; cbn [set_apex z_apex z_nodes]; [|exact Hn].
    apply rs_at_vals; [|exact Ha]. intros d0 Hd0. apply (vals_update Pc); [|exact Hd0].
    cbn [fst snd]. apply (Hb x ttl d); [now apply (rs_get_vals (z_apex s) 6 (z_cur s))|exact F].
  - (* EDrop *)
    destruct (z_writer s) as [w|]; [|exact H].
    destruct (w_dirty w && drop_rolls_back_when_dirty); [exact (Hroll (w_new w))|exact H].
  - (* EStale *)
    destruct stale_handle_rejected; [exact H|]. destruct (z_handle s); [|exact H].
    destruct (is_data e); [now apply Hdata|exact H].
Qed.

Lemma build_vals is : Forall init_vals is -> z_vals (build is).
Proof.
  unfold build. assert (H : forall s, z_vals s -> Forall init_vals is -> z_vals (fold_left build_one is s)).
  { induction is as [|i tl IH]; intros s Hs Hi; [exact Hs|]. inversion Hi; subst. cbn [fold_left]. apply IH; [|assumption].
    destruct Hs as [Ha Hn]. destruct i as [name t rr|name c|name ns ds glue]; cbn [build_one init_vals] in *; destruct name;
      try (split; assumption).
    - split; cbn [set_apex z_apex z_nodes]; [now apply rs_update_vals|exact Hn].
    - split; cbn [set_nodes z_apex z_nodes]; [exact Ha|]. apply path_do_vals; [apply empty_vals| |exact Hn].
      apply (keeps_set_rrsets (fun rs => rs_update rs t rr 0)). intros rs Hrs. now apply rs_update_vals.
    - split; cbn [set_nodes z_apex z_nodes]; [exact Ha|]. apply path_do_vals; [apply empty_vals| |exact Hn].
      now apply (keeps_update_special 0 (Some (SCname c))).
    - split; cbn [set_nodes z_apex z_nodes]; [exact Ha|]. apply path_do_vals; [apply empty_vals| |exact Hn].
      now apply (keeps_update_special 0 (Some (SCut ns ds glue))). }
  intros Hi. apply H; [split; constructor|exact Hi].
Qed.

(* every stored RRset is a written one, over every history *)
Theorem stored_rrsets_were_written : forall is evs,
  bump_closed -> Forall init_vals is -> Forall ev_vals evs -> z_vals (run (build is) evs).
Proof.
  intros is evs Hb Hi He. unfold run.
  assert (H : forall s, z_vals s -> z_vals (fold_left step evs s)).
  { induction He as [|e tl He _ IH]; intros s Hs; [exact Hs|]. cbn [fold_left]. apply IH. now apply step_vals. }
  apply H. now apply build_vals.
Qed.

(* ---- what readers get *)
Definition answer_vals (a : answer) : Prop :=
  match a with
  | AData x => Q x
  | ACname c => Q c
  | ARefer ns ds glue => Q ns /\ optQ ds /\ optQ glue
  | _ => True
  end.

Lemma rrsets_answer_vals rs v t soa : rs_vals rs -> answer_vals (rrsets_answer rs v t soa).
Proof.
  intros H. unfold rrsets_answer. destruct (t =? 255); [destruct (rs_is_empty rs v); exact I|].
  destruct (rs_get rs t v) as [x|] eqn:E; [|exact I]. exact (rs_get_vals rs t v x H E).
Qed.

Lemma node_here_vals n v t soa : n_vals n -> answer_vals (node_here n v t soa).
Proof.
  intros H. destruct n as [rs sp ch]. inversion H as [? ? ? Hrs Hsp Hch]; subst. unfold node_here, n_with_special. cbn [n_rrsets n_special].
  destruct (sp_get sp v) as [[ns ds glue|c|]|] eqn:E.
  - pose proof (sp_get_vals sp v _ Hsp E) as [Ha [Hb Hc]].
    destruct (t =? 43); [destruct ds; [exact Hb|exact I]|repeat split; assumption].
  - exact (sp_get_vals sp v _ Hsp E).
  - cbv [nx_marker_answers_like_regular]. now apply rrsets_answer_vals.
  - now apply rrsets_answer_vals.
Qed.

Lemma child_at_vals ns l v n : ns_vals ns -> child_at ns l v = Some n -> n_vals n.
Proof.
  intros H E. unfold child_at in E. destruct (al_get l ns) as [m|] eqn:G; [|discriminate].
  assert (Hm : n_vals m). { destruct (al_get_in _ _ _ G) as [k Hin]. unfold ns_vals in H. rewrite Forall_forall in H. exact (H _ Hin). }
  destruct query_follows_only_existing_children; [destruct (n_exists m v); inversion E; subst; exact Hm|inversion E; subst; exact Hm].
Qed.

Lemma q_children_vals v t soa : forall p ns, ns_vals ns -> answer_vals (q_children ns p v t soa).
Proof.
  induction p as [|l rest IH]; intros ns H; [exact I|]. cbn [q_children].
  destruct (child_at ns l v) as [n|] eqn:E.
  - pose proof (child_at_vals ns l v n H E) as Hn.
    destruct rest as [|l' rest']; [now apply node_here_vals|].
    destruct n as [rs sp ch]. inversion Hn as [? ? ? Hrs Hsp Hch]; subst. unfold n_with_special. cbn [n_special n_children].
    destruct (sp_get sp v) as [[ns' ds glue|c|]|] eqn:G; try (now apply IH).
    exact (sp_get_vals sp v _ Hsp G).
  - destruct (child_at ns 1 v) as [n|] eqn:E1; [|exact I]. apply node_here_vals. exact (child_at_vals ns 1 v n H E1).
Qed.

Lemma in_walk_rrsets_local {A} (nm : A) rs v x :
  In x (walk_rrsets nm rs v) -> exists t d rr, x = (nm, t, rr) /\ In (t, d) rs /\ v_get d v = Some rr.
Proof.
  unfold walk_rrsets. rewrite in_flat_map.
  intros [[k d] [Hin Hx]]. cbn [fst snd] in Hx. destruct (v_get d v) as [y|] eqn:E; [|destruct Hx].
  destruct Hx as [Hx|[]]. subst x. exists k, d, y. repeat split; assumption.
Qed.

Lemma walk_rrsets_vals {A} (nm : A) rs v : rs_vals rs -> Forall (fun it => Q (snd it)) (walk_rrsets nm rs v).
Proof.
  intros H. rewrite Forall_forall. intros x Hx. apply in_walk_rrsets_local in Hx.
  destruct Hx as [t [d [rr [-> [Hin Hg]]]]]. cbn [snd].
  destruct (v_get_in _ _ _ Hg) as [u Hu]. unfold rs_vals in H. rewrite Forall_forall in H.
  specialize (H (t, d) Hin). cbn [snd] in H. unfold cell_vals in H. rewrite Forall_forall in H. exact (H _ Hu).
Qed.
End Vals.

Theorem query_vals (Q : rrv -> Prop) s v name t : z_vals Q s -> answer_vals Q (query s v name t).
Proof.
  intros [Ha Hn]. unfold query. destruct name; [now apply rrsets_answer_vals|now apply q_children_vals].
Qed.

Lemma walk_node_vals (Q : rrv -> Prop) v : forall n path, n_vals Q n -> Forall (fun it => Q (snd it)) (walk_node path n v).
Proof.
  induction n as [rs sp ch IH] using znode_ind'. intros path H. inversion H as [? ? ? Hrs Hsp Hch]; subst.
  rewrite walk_node_eq. rewrite Forall_app. split; [now apply walk_rrsets_vals|].
  assert (Hk : Forall (fun it => Q (snd it)) (flat_map (fun p => walk_node (path ++ [fst p]) (snd p) v) ch)).
  { rewrite Forall_forall. intros x Hx. apply in_flat_map in Hx. destruct Hx as [p [Hp Hx]].
    rewrite Forall_forall in IH, Hch. pose proof (IH p Hp (path ++ [fst p]) (Hch p Hp)) as Hq. rewrite Forall_forall in Hq. exact (Hq x Hx). }
  destruct (sp_get sp v) as [[ns ds glue|c|]|] eqn:E; try exact Hk.
  - destruct (sp_get_vals Q sp v _ Hsp E) as [Ha [Hb Hc]].
    rewrite !Forall_app. repeat split; [repeat constructor; exact Ha| |].
    + destruct ds; cbn [opt_item]; [repeat constructor; exact Hb|constructor].
    + destruct glue; cbn [opt_item]; [repeat constructor; exact Hc|constructor].
  - rewrite Forall_app. split; [repeat constructor; exact (sp_get_vals Q sp v _ Hsp E)|exact Hk].
Qed.

Theorem walk_vals (Q : rrv -> Prop) s v : z_vals Q s -> Forall (fun it => Q (snd it)) (walk s v).
Proof.
  intros [Ha Hn]. unfold walk. rewrite Forall_app. split; [now apply walk_rrsets_vals|].
  rewrite Forall_forall. intros x Hx. apply in_flat_map in Hx. destruct Hx as [p [Hp Hx]].
  unfold ns_vals in Hn. rewrite Forall_forall in Hn. pose proof (walk_node_vals Q v (snd p) [fst p] (Hn p Hp)) as Hq.
  rewrite Forall_forall in Hq. exact (Hq x Hx).
Qed.

(* no torn RRset: whatever API calls are made, every RRset in an answer or a walk of
   any reader is, TTL and records together, one of the RRsets that were written
   (or an SOA that commit(true) derived from a written one) *)
Theorem no_torn_rrset : forall (Q : rrv -> Prop) is evs v name t,
  bump_closed Q -> Forall (init_vals Q) is -> Forall (ev_vals Q) evs ->
  answer_vals Q (query (run (build is) evs) v name t) /\
  Forall (fun it => Q (snd it)) (walk (run (build is) evs) v).
Proof.
  intros Q is evs v name t Hb Hi He. pose proof (stored_rrsets_were_written Q is evs Hb Hi He) as H.
  split; [now apply query_vals|now apply walk_vals].
Qed.

(* non-vacuity: Q = "is one of these two RRsets or a one-record RRset" *)
Example ex_no_torn :
  let a := (3604, [44; 45; 46]) in let b := (3601, [100; 101]) in
  let Q := fun x : rrv => x = a \/ x = b \/ exists ttl s, x = (ttl, [s]) in
  answer_vals Q (query (run (build [IRrset [] 6 (3600, [5]); IRrset [2] 1 a]) [EWAcquire; EWOpen; EUpdate [2] 1 b; ECommitBump]) 1 [2] 1).
Proof.
  intros a b Q.
  refine (proj1 (no_torn_rrset Q [IRrset [] 6 (3600, [5]); IRrset [2] 1 a] [EWAcquire; EWOpen; EUpdate [2] 1 b; ECommitBump] 1 [2] 1 _ _ _)).
  - intros x ttl d Hx Hf. right; right; eauto.
  - constructor; [cbn; left; right; right; eauto|constructor; [cbn; left; now left|constructor]].
  - repeat (constructor; [cbn; try exact I; try (left; right; now left)|]). constructor.
Qed.
