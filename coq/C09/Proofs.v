(* C09 proofs, part 1: one Versioned<T> cell. *)
From Coq Require Import NArith ZArith List Bool Lia ZifyN ZifyBool ZifyNat Sorted.
From DV Require Import Base.Outcome C17.Gen C17.Model C17.Proofs C09.Gen C09.Model.
Import ListNotations.
Local Open Scope N_scope.
Ltac Zify.zify_post_hook ::= Z.div_mod_to_equations.

(* `a <= b` on Version *)
Definition ver_le (a b : N) : bool := ver_op 0 a b.
Definition LIM : N := 2147483648.

Lemma ver_le_small a b : a < LIM -> b < LIM -> ver_le a b = (a <=? b).
Proof.
  unfold LIM. intros Ha Hb.
  assert (Ua : u32 a) by (unfold u32, M32; lia).
  assert (Ub : u32 b) by (unfold u32, M32; lia).
  unfold ver_le, ver_op, ver_ocmp. rewrite (cmp_closed_form a b Ua Ub).
  unfold classify, wdiff, M32.
  destruct (N.leb_spec a b) as [Hle|Hgt].
  - assert (E : (b + 4294967296 - a) mod 4294967296 = b - a) by lia. rewrite E.
    destruct (N.eqb_spec (b - a) 0); [reflexivity|].
    destruct (N.ltb_spec (b - a) 2147483648); [reflexivity|lia].
  - assert (E : (b + 4294967296 - a) mod 4294967296 = b + 4294967296 - a) by lia. rewrite E.
    destruct (N.eqb_spec (b + 4294967296 - a) 0); [lia|].
    destruct (N.ltb_spec (b + 4294967296 - a) 2147483648); [lia|].
    destruct (N.eqb_spec (b + 4294967296 - a) 2147483648); [lia|reflexivity].
Qed.

Lemma ver_le_refl a : a < 4294967296 -> ver_le a a = true.
Proof.
  intros Ha. assert (Ua : u32 a) by (unfold u32, M32; lia).
  unfold ver_le, ver_op, ver_ocmp. rewrite (cmp_closed_form a a Ua Ua).
  unfold classify, wdiff, M32.
  assert (E : (a + 4294967296 - a) mod 4294967296 = 0) by lia. rewrite E. reflexivity.
Qed.

(* ---------------------------------------------------------------- equations *)

Section CellEq.
Context {T : Type}.

Lemma v_get_nil v : @v_get T [] v = None.
Proof. reflexivity. Qed.

Lemma v_get_cons lv (lx : option T) rest v :
  v_get ((lv, lx) :: rest) v = if ver_le lv v then lx else v_get rest v.
Proof.
  unfold v_get, ver_le. cbv [get_scans_newest_first get_cmp_op]. cbn [find fst snd].
  destruct (ver_op 0 lv v); reflexivity.
Qed.

Lemma v_update_eq (d : list (entry T)) v x :
  v_update d v x =
  match d with
  | (lv, _) :: rest => if lv =? v then (lv, Some x) :: rest else (v, Some x) :: d
  | [] => [(v, Some x)]
  end.
Proof. destruct d as [|[lv lx] rest]; reflexivity. Qed.

Lemma v_rollback_eq (d : list (entry T)) v :
  v_rollback d v =
  match d with
  | (lv, _) :: rest => if lv =? v then rest else d
  | [] => []
  end.
Proof. destruct d as [|[lv lx] rest]; reflexivity. Qed.

Lemma v_remove_eq (d : list (entry T)) v :
  v_remove d v =
  match d with
  | (lv, None) :: rest => d
  | (lv, Some _) :: rest =>
      if lv =? v then match rest with [] => [] | _ => (lv, None) :: rest end
      else (v, None) :: d
  | [] => []
  end.
Proof.
  destruct d as [|[lv [y|]] rest]; try reflexivity.
  unfold v_remove. cbv [is_marker remove_noop_when_last_is_marker Bool.eqb remove_same_cmp_op ver_op
                        remove_pop_len_op remove_pop_len n_op].
  destruct (lv =? v); [|reflexivity].
  destruct rest as [|e rest]; [reflexivity|].
  cbn [length].
  destruct (N.eqb_spec (N.of_nat (S (S (length rest)))) 1) as [E|E]; [lia|reflexivity].
Qed.
End CellEq.

(* ---------------------------------------------------------------- the writer's version *)

Definition cop_ver {T} (o : cop T) : N :=
  match o with CUpd v _ => v | CRem v => v | CRb v => v end.

(* no entry of version w *)
Definition nov {T} (w : N) (d : list (entry T)) : Prop := Forall (fun it => fst it <> w) d.

(* what a cell can look like while version w is being written on top of b *)
Definition shape {T} (w : N) (b d : list (entry T)) : Prop := d = b \/ exists x, d = (w, x) :: b.

Lemma shape_step {T} w (b d : list (entry T)) (o : cop T) :
  nov w b -> cop_ver o = w -> shape w b d -> shape w b (c_apply d o).
Proof.
  intros Hb Ho Hs. destruct o as [v x|v|v]; cbn [cop_ver] in Ho; subst v; cbn [c_apply].
  - (* update *)
    rewrite v_update_eq. destruct Hs as [->|[y ->]].
    + destruct b as [|[lv lx] rest]; [right; eauto|].
      inversion Hb as [|? ? Hne _]; subst. cbn [fst] in Hne.
      destruct (N.eqb_spec lv w); [contradiction|right; eauto].
    + rewrite N.eqb_refl. right; eauto.
  - (* remove *)
    rewrite v_remove_eq. destruct Hs as [->|[y ->]].
    + destruct b as [|[lv [z|]] rest]; [left; reflexivity| |left; reflexivity].
      inversion Hb as [|? ? Hne _]; subst. cbn [fst] in Hne.
      destruct (N.eqb_spec lv w); [contradiction|right; eauto].
    + destruct y as [z|]; [|right; eauto].
      rewrite N.eqb_refl. destruct b; [left; reflexivity|right; eauto].
  - (* rollback *)
    rewrite v_rollback_eq. destruct Hs as [->|[y ->]].
    + destruct b as [|[lv lx] rest]; [left; reflexivity|].
      inversion Hb as [|? ? Hne _]; subst. cbn [fst] in Hne.
      destruct (N.eqb_spec lv w); [contradiction|left; reflexivity].
    + rewrite N.eqb_refl. left; reflexivity.
Qed.

Lemma shape_run {T} w (b : list (entry T)) os :
  nov w b -> Forall (fun o => cop_ver o = w) os ->
  forall d, shape w b d -> shape w b (c_run d os).
Proof.
  intros Hb Hos. induction Hos as [|o os Ho _ IH]; intros d Hs; [exact Hs|].
  cbn [c_run fold_left]. apply IH. now apply shape_step.
Qed.

Lemma shape_rollback {T} w (b d : list (entry T)) :
  nov w b -> shape w b d -> v_rollback d w = b.
Proof.
  intros Hb [->|[x ->]]; rewrite v_rollback_eq.
  - destruct b as [|[lv lx] rest]; [reflexivity|].
    inversion Hb as [|? ? Hne _]; subst. cbn [fst] in Hne.
    destruct (N.eqb_spec lv w); [contradiction|reflexivity].
  - now rewrite N.eqb_refl.
Qed.

Lemma shape_get {T} w (b d : list (entry T)) r :
  ver_le w r = false -> shape w b d -> v_get d r = v_get b r.
Proof. intros Hr [->|[x ->]]; [reflexivity|]. now rewrite v_get_cons, Hr. Qed.

(* abort is invisible, cell level: after ANY mix of update / remove / rollback at
   the open version w on top of a cell b that has no entry of version w, rollback
   restores the exact entry list *)
Theorem cell_rollback_restores {T} w (b : list (entry T)) os :
  nov w b -> Forall (fun o => cop_ver o = w) os ->
  v_rollback (c_run b os) w = b.
Proof.
  intros Hb Hos. apply shape_rollback; [exact Hb|].
  apply shape_run; [exact Hb|exact Hos|left; reflexivity].
Qed.

(* snapshot isolation, cell level: a reader version r that does not satisfy
   w <= r never sees anything the writer of version w does *)
Theorem cell_snapshot_isolation {T} w (b : list (entry T)) os r :
  nov w b -> Forall (fun o => cop_ver o = w) os -> ver_le w r = false ->
  v_get (c_run b os) r = v_get b r.
Proof.
  intros Hb Hos Hr. apply (shape_get w); [exact Hr|].
  apply shape_run; [exact Hb|exact Hos|left; reflexivity].
Qed.

(* the open version occupies at most the last entry *)
Theorem cell_open_version_last_only {T} w (b : list (entry T)) os :
  nov w b -> Forall (fun o => cop_ver o = w) os ->
  match c_run b os with
  | [] => True
  | _ :: rest => nov w rest
  end.
Proof.
  intros Hb Hos.
  destruct (shape_run w b os Hb Hos b (or_introl eq_refl)) as [->|[x ->]].
  - destruct b; [exact I|]. now inversion Hb.
  - exact Hb.
Qed.

(* what the new version reads after a write *)
Theorem cell_update_value {T} (d : list (entry T)) w x r :
  ver_le w r = true -> v_get (v_update d w x) r = Some x.
Proof.
  intros Hr. rewrite v_update_eq. destruct d as [|[lv lx] rest].
  - now rewrite v_get_cons, Hr.
  - destruct (N.eqb_spec lv w) as [->|_]; now rewrite v_get_cons, Hr.
Qed.

Theorem cell_remove_value {T} (d : list (entry T)) w r :
  ver_le w r = true -> Forall (fun it => ver_le (fst it) r = true) d ->
  v_get (v_remove d w) r = None.
Proof.
  intros Hr Hd. rewrite v_remove_eq. destruct d as [|[lv [y|]] rest]; [reflexivity| |].
  - destruct (N.eqb_spec lv w) as [->|_].
    + destruct rest; [reflexivity|]. now rewrite v_get_cons, Hr.
    + now rewrite v_get_cons, Hr.
  - inversion Hd as [|? ? Hv _]; subst. cbn [fst] in Hv. now rewrite v_get_cons, Hv.
Qed.

(* ---------------------------------------------------------------- ordered histories *)

(* entry versions strictly decrease from the last entry to the first *)
Definition desc {T} (d : list (entry T)) : Prop :=
  StronglySorted (fun a b => fst b < fst a) d.
Definition le_all {T} (w : N) (d : list (entry T)) : Prop := Forall (fun it => fst it <= w) d.

Lemma desc_head_max {T} lv (lx : option T) rest :
  desc ((lv, lx) :: rest) -> Forall (fun it => fst it < lv) rest.
Proof. intros H. inversion H; subst. assumption. Qed.

Lemma step_sorted {T} (d : list (entry T)) (o : cop T) :
  desc d -> le_all (cop_ver o) d -> desc (c_apply d o) /\ le_all (cop_ver o) (c_apply d o).
Proof.
  intros Hd Hle. destruct o as [w x|w|w]; cbn [cop_ver c_apply] in *.
  - rewrite v_update_eq. destruct d as [|[lv lx] rest].
    + split; [repeat constructor|repeat constructor; cbn; lia].
    + inversion Hle as [|? ? Hlv Hrest]; subst. cbn [fst] in Hlv.
      pose proof (desc_head_max _ _ _ Hd) as Hmax. inversion Hd; subst.
      destruct (N.eqb_spec lv w) as [->|Hne].
      * split; [constructor; assumption|constructor; [cbn; lia|assumption]].
      * split.
        -- constructor; [exact Hd|]. constructor; [cbn; lia|].
           eapply Forall_impl; [|exact Hmax]. cbn. intros; lia.
        -- constructor; [cbn; lia|exact Hle].
  - rewrite v_remove_eq. destruct d as [|[lv [y|]] rest]; [split; constructor| |split; assumption].
    inversion Hle as [|? ? Hlv Hrest]; subst. cbn [fst] in Hlv.
    pose proof (desc_head_max _ _ _ Hd) as Hmax. inversion Hd; subst.
    destruct (N.eqb_spec lv w) as [->|Hne].
    + destruct rest as [|e rest']; [split; constructor|].
      split; [constructor; assumption|constructor; [cbn; lia|assumption]].
    + split.
      * constructor; [exact Hd|]. constructor; [cbn; lia|].
        eapply Forall_impl; [|exact Hmax]. cbn. intros; lia.
      * constructor; [cbn; lia|exact Hle].
  - rewrite v_rollback_eq. destruct d as [|[lv lx] rest]; [split; constructor|].
    destruct (N.eqb_spec lv w) as [->|Hne]; [|split; assumption].
    inversion Hd; subst. inversion Hle; subst. split; assumption.
Qed.

(* a history whose operation versions never decrease (what successive writers do:
   version current+1, again current+1 after an abort, current+2 after a commit) *)
Fixpoint mono_hist {T} (lo : N) (os : list (cop T)) : Prop :=
  match os with
  | [] => True
  | o :: tl => lo <= cop_ver o /\ mono_hist (cop_ver o) tl
  end.

Lemma le_all_weaken {T} a b (d : list (entry T)) : a <= b -> le_all a d -> le_all b d.
Proof. intros Hab H. eapply Forall_impl; [|exact H]. cbn. intros; lia. Qed.

Theorem history_monotone {T} (os : list (cop T)) : forall lo (d : list (entry T)),
  desc d -> le_all lo d -> mono_hist lo os ->
  desc (c_run d os) /\ (forall hi, Forall (fun o => cop_ver o <= hi) os -> lo <= hi -> le_all hi (c_run d os)).
Proof.
  induction os as [|o tl IH]; intros lo d Hd Hle Hm; cbn [c_run fold_left].
  - split; [exact Hd|]. intros hi _ Hhi. now apply (le_all_weaken lo).
  - destruct Hm as [Hlo Hm].
    destruct (step_sorted d o Hd (le_all_weaken _ _ _ Hlo Hle)) as [Hd' Hle'].
    destruct (IH (cop_ver o) (c_apply d o) Hd' Hle' Hm) as [H1 H2].
    split; [exact H1|]. intros hi Hall Hhi. inversion Hall; subst. apply H2; [assumption|lia].
Qed.

(* get = the entry with the greatest version <= v; a removal marker there hides
   everything older *)
Theorem versioned_get_spec {T} (d : list (entry T)) v :
  desc d -> le_all (LIM - 1) d -> v < LIM ->
  (forall u x, In (u, x) d -> u <= v ->
     (forall u' x', In (u', x') d -> u' <= v -> u' <= u) -> v_get d v = x) /\
  ((forall u x, In (u, x) d -> v < u) -> v_get d v = None).
Proof.
  unfold LIM. intros Hd Hle Hv. induction d as [|[lv lx] rest IH].
  - split; [intros u x []|reflexivity].
  - inversion Hle as [|? ? Hlv Hrest]; subst. cbn [fst] in Hlv.
    pose proof (desc_head_max _ _ _ Hd) as Hmax. inversion Hd as [|? ? Hd' _]; subst.
    destruct (IH Hd' Hrest) as [IH1 IH2].
    rewrite v_get_cons, ver_le_small by (unfold LIM; lia).
    split.
    + intros u x Hin Hu Hbest. destruct (N.leb_spec lv v) as [Hlv'|Hlv'].
      * destruct Hin as [E|Hin]; [now inversion E|].
        rewrite Forall_forall in Hmax. specialize (Hmax _ Hin). cbn [fst] in Hmax.
        specialize (Hbest lv lx (or_introl eq_refl) Hlv'). lia.
      * destruct Hin as [E|Hin]; [inversion E; subst; lia|].
        apply (IH1 u x Hin Hu). intros u' x' Hin' Hu'. apply (Hbest u' x'); [now right|exact Hu'].
    + intros Hall. destruct (N.leb_spec lv v) as [Hlv'|Hlv'].
      * specialize (Hall lv lx (or_introl eq_refl)). lia.
      * apply IH2. intros u x Hin. apply (Hall u x). now right.
Qed.

(* ---------------------------------------------------------------- non-vacuity *)

Example ex_rollback_pop_case :
  v_rollback (c_run ([] : list (entry N)) [CUpd 1 5; CRem 1; CUpd 1 6; CRem 1]) 1 = [].
Proof. reflexivity. Qed.
Example ex_rollback_marker_case :
  let b := [(0, Some 7)] in
  c_run b [CRem 1; CUpd 1 8; CRem 1] = [(1, None); (0, Some 7)] /\
  v_rollback (c_run b [CRem 1; CUpd 1 8; CRem 1]) 1 = b.
Proof. split; reflexivity. Qed.
Example ex_isolation :
  v_get (c_run [(0, Some 7)] [CUpd 1 8]) 0 = Some 7 /\ v_get (c_run [(0, Some 7)] [CUpd 1 8]) 1 = Some 8.
Proof. split; reflexivity. Qed.
Example ex_isolation_wrap :
  ver_le 0 4294967295 = false /\
  v_get (c_run [(4294967295, Some 7)] [CUpd 0 8]) 4294967295 = Some 7 /\
  v_get (c_run [(4294967295, Some 7)] [CUpd 0 8]) 0 = Some 8.
Proof. repeat split; reflexivity. Qed.
Example ex_open_last_only :
  c_run [(0, Some 7)] [CUpd 1 8; CUpd 1 9] = [(1, Some 9); (0, Some 7)].
Proof. reflexivity. Qed.
Example ex_update_value : v_get (v_update [(0, Some 7)] 1 8) 5 = Some 8.
Proof. reflexivity. Qed.
Example ex_remove_value : v_get (v_remove [(0, Some 7)] 1) 5 = None /\ v_get [(0, Some 7)] 5 = Some 7.
Proof. split; reflexivity. Qed.
Example ex_monotone :
  mono_hist 0 [CUpd 1 5; CRb 1; CRem 1; CUpd 1 6; CUpd 2 7] /\
  c_run [(0, Some 1)] [CUpd 1 5; CRb 1; CRem 1; CUpd 1 6; CUpd 2 7] = [(2, Some 7); (1, Some 6); (0, Some 1)].
Proof. split; [cbn; lia|reflexivity]. Qed.
Example ex_get_spec :
  v_get [(3, None); (1, Some 5)] 2 = Some 5 /\ v_get [(3, None); (1, Some 5)] 4 = None /\
  v_get [(3, None); (1, Some 5)] 0 = None.
Proof. repeat split; reflexivity. Qed.

(* ---------------------------------------------------------------- update then remove within one version *)

(* Versioned::remove when the version being written already wrote an entry:
   the entry is popped if it is the only one (nothing older to hide), otherwise it
   becomes the removal marker of that version -- whatever was there before *)
Theorem update_then_remove_same_version {T} (d : list (entry T)) w x :
  v_remove (v_update d w x) w =
  match v_rollback d w with
  | [] => []
  | b => (w, None) :: b
  end.
Proof.
  rewrite v_update_eq, v_rollback_eq. destruct d as [|[lv lx] rest].
  - rewrite v_remove_eq. now rewrite N.eqb_refl.
  - destruct (N.eqb_spec lv w) as [->|Hne]; rewrite v_remove_eq, N.eqb_refl; [destruct rest; reflexivity|reflexivity].
Qed.

(* ... and then nothing is read at that version or later, older readers are not
   affected, and a rollback still restores the cell *)
Corollary update_then_remove_reads {T} (b : list (entry T)) w x r :
  nov w b ->
  v_rollback (v_remove (v_update b w x) w) w = b /\
  (ver_le w r = false -> v_get (v_remove (v_update b w x) w) r = v_get b r) /\
  (ver_le w r = true -> v_get (v_remove (v_update b w x) w) r = None).
Proof.
  intros Hb.
  assert (Hs : shape w b (v_remove (v_update b w x) w)).
  { apply (shape_step w b _ (CRem w) Hb eq_refl). apply (shape_step w b _ (CUpd w x) Hb eq_refl). now left. }
  split; [now apply shape_rollback|split].
  - intros Hr. now apply (shape_get w).
  - intros Hr. rewrite update_then_remove_same_version.
    assert (E : v_rollback b w = b) by (apply shape_rollback; [exact Hb|now left]). rewrite E.
    destruct b as [|e rest]; [reflexivity|]. now rewrite v_get_cons, Hr.
Qed.

Example ex_update_remove_same :
  v_remove (v_update ([] : list (entry N)) 1 5) 1 = [] /\
  v_remove (v_update [(0, Some 7)] 1 5) 1 = [(1, None); (0, Some 7)] /\
  v_remove (v_update [(1, Some 4); (0, Some 7)] 1 5) 1 = [(1, None); (0, Some 7)] /\
  v_remove (v_update [(1, Some 4)] 1 5) 1 = [].
Proof. repeat split; reflexivity. Qed.
