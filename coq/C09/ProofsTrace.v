(* C09 proofs, part 3: API-call traces -- snapshot isolation, atomic commit,
   invisible abort, serialised writers, exact walk. *)
From Coq Require Import NArith ZArith List Bool Lia ZifyN ZifyBool ZifyNat.
From DV Require Import Base.Outcome C17.Gen C17.Model C17.Proofs C09.Gen C09.Model C09.Proofs C09.ProofsZone.
Import ListNotations.
Local Open Scope N_scope.
Ltac Zify.zify_post_hook ::= Z.div_mod_to_equations.

Lemma ver_next_small a : a + 1 < 4294967296 -> ver_next a = a + 1.
Proof.
  intros H. unfold ver_next, version_next. cbv [version_next_addend].
  rewrite add_total by lia. unfold M32. change ((a + 1) mod 4294967296 = a + 1). apply N.mod_small. exact H.
Qed.

(* ---------------------------------------------------------------- invariants *)

Definition n_upto (c : N) : znode -> Prop := n_all (fun T d => le_all c d).
Definition z_le (c : N) (s : zstate) : Prop :=
  Forall (fun p => le_all c (snd p)) (z_apex s) /\ Forall (fun p => n_upto c (snd p)) (z_nodes s).

Lemma z_le_q c w s : c < w -> z_le c s -> z_q c w s.
Proof.
  intros Hc [Ha Hn]. split.
  - eapply Forall_impl; [|exact Ha]. intros p Hp. now apply cq_of_le.
  - apply (ns_all_impl (fun T d => le_all c d)); [|exact Hn]. intros T d Hd. now apply cq_of_le.
Qed.

Lemma z_q_le c s : z_q c (c + 1) s -> z_le (c + 1) s.
Proof.
  intros [Ha Hn]. split.
  - eapply Forall_impl; [|exact Ha]. intros p Hp. now apply le_of_cq.
  - apply (ns_all_impl (fun T d => cq c (c + 1) d)); [|exact Hn]. intros T d Hd. now apply le_of_cq.
Qed.

Lemma z_le_weaken a b s : a <= b -> z_le a s -> z_le b s.
Proof.
  intros Hab [Ha Hn]. split.
  - eapply Forall_impl; [|exact Ha]. intros p Hp. now apply (le_all_weaken a).
  - apply (ns_all_impl (fun T d => le_all a d)); [|exact Hn]. intros T d Hd. now apply (le_all_weaken a).
Qed.

Lemma Forall_map' {A B} (f : A -> B) (P : B -> Prop) l : Forall (fun x => P (f x)) l -> Forall P (map f l).
Proof. intros H. induction H; cbn; constructor; auto. Qed.

Lemma n_q_rollback_upto c w : forall n, n_q c w n -> n_upto c (n_rollback n w).
Proof.
  induction n as [rs sp ch IH] using znode_ind'. intros H. destruct (n_q_inv _ _ _ _ _ H) as [Hr [Hs Hch]].
  rewrite n_rollback_eq. constructor.
  - unfold rs_rollback, rs_all, al_map. apply Forall_map'. exact Hr.
  - exact Hs.
  - unfold al_map. apply Forall_map'. unfold ns_q, ns_all in Hch. rewrite Forall_forall in *.
    intros p Hin. cbn [snd]. exact (IH p Hin (Hch p Hin)).
Qed.

Lemma z_q_rollback_le c w s : z_q c w s -> z_le c (z_rollback s w).
Proof.
  intros [Ha Hn]. rewrite z_rollback_eq. split; cbn [z_apex z_nodes].
  - unfold rs_rollback, rs_all, al_map. apply Forall_map'. exact Ha.
  - unfold al_map. apply Forall_map'. eapply Forall_impl; [|exact Hn]. intros p Hp. cbn [snd]. now apply n_q_rollback_upto.
Qed.

Lemma n_rollback_id c w : c < w -> forall n, n_upto c n -> n_rollback n w = n.
Proof.
  intros Hc. induction n as [rs sp ch IH] using znode_ind'. intros H. inversion H as [? ? ? H1 H2 H3]; subst.
  rewrite n_rollback_eq. f_equal; [now apply (rs_rollback_id c)|now apply (rollback_id c)|].
  apply al_map_id. rewrite Forall_forall in *. intros p Hin. exact (IH p Hin (H3 p Hin)).
Qed.

Lemma z_rollback_id c w s : c < w -> z_le c s -> z_eqv (z_rollback s w) s.
Proof.
  intros Hc [Ha Hn]. rewrite z_rollback_eq. split; cbn [z_apex z_nodes].
  - rewrite (rs_rollback_id c); [apply rs_eqv_refl|exact Hc|exact Ha].
  - rewrite al_map_id; [apply ns_le_refl|]. intros p Hin. rewrite Forall_forall in Hn.
    exact (n_rollback_id c w Hc (snd p) (Hn p Hin)).
Qed.

(* state invariant of the reader/writer protocol:
   nothing newer than current is stored, except last entries of version
   current+1 while a writer has opened the zone *)
Definition zinv (s : zstate) : Prop :=
  match z_writer s with
  | None => z_le (z_cur s) s
  | Some wr =>
      w_new wr = z_cur s + 1 /\ (w_open wr = true -> w_dirty wr = true) /\
      (if w_dirty wr then z_q (z_cur s) (z_cur s + 1) s else z_le (z_cur s) s)
  end.

(* use of a write handle after the commit or drop that ended its session *)
Definition is_stale (e : event) : bool := match e with EStale _ => true | _ => false end.
Fixpoint no_stale (evs : list event) : bool :=
  match evs with [] => true | e :: tl => negb (is_stale e) && no_stale tl end.
(* either the implementation rejects such use (T1 flag), or the trace has none *)
Definition stale_ok (e : event) : Prop := stale_handle_rejected = true \/ is_stale e = false.
Definition stale_free (evs : list event) : Prop := stale_handle_rejected = true \/ no_stale evs = true.

Lemma stale_free_cons e tl : stale_free (e :: tl) -> stale_ok e /\ stale_free tl.
Proof.
  intros [H|H]; [split; left; exact H|]. cbn [no_stale] in H. apply andb_prop in H. destruct H as [H1 H2].
  split; right; [now apply negb_true_iff in H1|exact H2].
Qed.

Fixpoint ncommits (evs : list event) : N :=
  match evs with
  | [] => 0
  | ECommit :: tl => 1 + ncommits tl
  | ECommitBump :: tl => 1 + ncommits tl
  | _ :: tl => ncommits tl
  end.

Definition same_data (a b : zstate) : Prop := z_apex a = z_apex b /\ z_nodes a = z_nodes b.

Lemma query_same a b v name t : same_data a b -> query a v name t = query b v name t.
Proof. intros [H1 H2]. unfold query. now rewrite H1, H2. Qed.
Lemma walk_same a b v : same_data a b -> walk a v = walk b v.
Proof. intros [H1 H2]. unfold walk. now rewrite H1, H2. Qed.

Definition view_eq (a b : zstate) (v : N) : Prop :=
  (forall name t, query a v name t = query b v name t) /\ walk a v = walk b v.

Lemma view_eq_refl a v : view_eq a a v.
Proof. split; reflexivity. Qed.
Lemma view_eq_trans a b c v : view_eq a b v -> view_eq b c v -> view_eq a c v.
Proof. intros [H1 H2] [H3 H4]. split; [intros; now rewrite H1|congruence]. Qed.
Lemma view_eq_sym a b v : view_eq a b v -> view_eq b a v.
Proof. intros [H1 H2]. split; [intros; now rewrite H1|congruence]. Qed.
Lemma view_of_same a b v : same_data a b -> view_eq a b v.
Proof. intros H. split; [intros; now apply query_same|now apply walk_same]. Qed.
Lemma view_of_eqv a b v : z_eqv a b -> view_eq a b v.
Proof. intros H. split; [intros; now apply query_eqv|now apply walk_eqv]. Qed.
Lemma view_of_base w s r : ver_le w r = false -> view_eq (z_rollback s w) s r.
Proof. intros H. split; [intros; now apply query_base|now apply walk_base]. Qed.

Lemma below_open c r : c + 1 < LIM -> r <= c -> ver_le (c + 1) r = false.
Proof. intros Hc Hr. rewrite ver_le_small by lia. apply N.leb_gt. lia. Qed.

(* ---------------------------------------------------------------- one step *)

Lemma publish_eq s wr :
  w_new wr = z_cur s + 1 -> z_cur s + 2 < 4294967296 ->
  publish s wr = mkz (z_cur s + 1) (z_apex s) (z_nodes s) (Some (mkw (z_cur s + 2) false false))
                     (if w_open wr then Some (z_cur s + 1) else z_handle s).
Proof.
  intros Hnew Hlim. unfold publish. cbv [publish_sets_current_to_new publish_advances_new_version publish_clears_dirty].
  rewrite Hnew. rewrite ver_next_small by lia. f_equal. do 2 f_equal. lia.
Qed.

Lemma publish_inv s wr :
  w_new wr = z_cur s + 1 -> z_cur s + 2 < 4294967296 -> z_q (z_cur s) (z_cur s + 1) s ->
  zinv (publish s wr) /\ z_cur (publish s wr) = z_cur s + 1 /\ same_data (publish s wr) s.
Proof.
  intros Hnew Hlim Hq. rewrite (publish_eq s wr Hnew Hlim). split; [|split; [reflexivity|split; reflexivity]].
  unfold zinv. cbn [z_writer z_cur w_new w_dirty w_open].
  split; [lia|split; [discriminate|]]. destruct (z_q_le _ _ Hq) as [H1 H2]. split; assumption.
Qed.

(* commit(true) stores at most one more last entry of version w at the apex *)
Lemma bump_base c s wr :
  c < w_new wr -> z_q c (w_new wr) s ->
  z_cur (bump_soa s wr) = z_cur s /\ z_q c (w_new wr) (bump_soa s wr) /\
  z_eqv (z_rollback s (w_new wr)) (z_rollback (bump_soa s wr) (w_new wr)).
Proof.
  intros Hc [Ha Hn]. unfold bump_soa.
  assert (Hsame : z_cur s = z_cur s /\ z_q c (w_new wr) s /\ z_eqv (z_rollback s (w_new wr)) (z_rollback s (w_new wr)))
    by (split; [reflexivity|split; [split; assumption|apply z_eqv_refl]]).
  destruct (get_soa s (z_cur s)) as [old|]; [|exact Hsame].
  destruct (match get_soa s (w_new wr) with None => true | Some new => soa_eqb new old end); [|exact Hsame].
  split; [reflexivity|split].
  - split; cbn [set_apex z_apex z_nodes]; [apply rs_at_q; auto using wl_update|exact Hn].
  - rewrite !z_rollback_eq. split; cbn [set_apex z_apex z_nodes]; [|apply ns_le_refl].
    apply rs_eqv_sym. apply (rs_at_base c); auto using wl_update.
Qed.

Lemma step_inv s e :
  zinv s -> z_cur s + 2 < LIM -> stale_ok e ->
  zinv (step s e) /\
  z_cur s <= z_cur (step s e) /\
  z_cur (step s e) <= z_cur s + (match e with ECommit | ECommitBump => 1 | _ => 0 end) /\
  (forall r, r <= z_cur s -> view_eq (step s e) s r).
Proof.
  unfold LIM. intros Hinv Hlim Hstale.
  assert (Hsame : forall k, zinv s /\ z_cur s <= z_cur s /\ z_cur s <= z_cur s + k /\ (forall r, r <= z_cur s -> view_eq s s r)).
  { intros k. repeat split; try lia; auto. }
  assert (Hdata : is_data e = true ->
     zinv (step s e) /\ z_cur s <= z_cur (step s e) /\ z_cur (step s e) <= z_cur s + 0 /\
     (forall r, r <= z_cur s -> view_eq (step s e) s r)).
  { intros He.
    assert (Hst : step s e = match z_writer s with
                             | Some w => if w_open w then data_op s (w_new w) e else s
                             | None => s end).
    { destruct e; cbn [is_data] in He; try discriminate; reflexivity. }
    rewrite Hst. unfold zinv in Hinv. destruct (z_writer s) as [wr|] eqn:Hw; [|exact (Hsame _)].
    destruct (w_open wr) eqn:Hop; [|exact (Hsame _)].
    destruct Hinv as [Hnew [Hod Hq]]. rewrite (Hod eq_refl) in Hq. rewrite Hnew.
    destruct (data_op_base (z_cur s) (z_cur s + 1) s e ltac:(lia) Hq) as [Hq' Heqv].
    assert (Hfields : z_cur (data_op s (z_cur s + 1) e) = z_cur s /\ z_writer (data_op s (z_cur s + 1) e) = z_writer s).
    { destruct e; cbn [data_op]; try (split; reflexivity);
        try (unfold at_node; destruct name; split; reflexivity). }
    destruct Hfields as [Hc' Hw'].
    repeat split.
    - unfold zinv. rewrite Hw', Hw, Hc'. rewrite (Hod eq_refl). auto.
    - rewrite Hc'. lia.
    - rewrite Hc'. lia.
    - intros name t.
      rewrite <- (query_base (z_cur s + 1) (data_op s (z_cur s + 1) e) r) by (apply below_open; unfold LIM; lia).
      rewrite <- (query_eqv _ _ r name t Heqv). apply query_base. apply below_open; unfold LIM; lia.
    - rewrite <- (walk_base (z_cur s + 1) (data_op s (z_cur s + 1) e) r) by (apply below_open; unfold LIM; lia).
      rewrite <- (walk_eqv _ _ r Heqv). apply walk_base. apply below_open; unfold LIM; lia. }
  destruct e; try (apply Hdata; reflexivity); try exact (Hsame _);
    try (destruct Hstale as [Hrej|Hns]; [|discriminate];
         assert (E : step s (EStale e) = s) by (cbn [step]; now rewrite Hrej); rewrite E; exact (Hsame _)).
  - (* EWAcquire *)
    destruct (z_writer s) as [wr|] eqn:Hw.
    + assert (E : step s EWAcquire = s) by (cbn [step]; now rewrite Hw). rewrite E. exact (Hsame _).
    + assert (E : step s EWAcquire = set_writer s (Some (mkw (z_cur s + 1) false false))).
      { cbn [step]. rewrite Hw. cbv [writer_version_is_next]. now rewrite ver_next_small by lia. }
      rewrite E. unfold zinv in Hinv. rewrite Hw in Hinv.
      split; [|split; [|split]]; cbn [set_writer z_cur]; try lia.
      * unfold zinv. cbn [set_writer z_writer z_cur w_new w_dirty w_open].
        split; [reflexivity|split; [discriminate|exact Hinv]].
      * intros r _. apply view_of_same. split; reflexivity.
  - (* EWOpen *)
    destruct (z_writer s) as [wr|] eqn:Hw.
    + assert (E : step s EWOpen = set_writer s (Some (mkw (w_new wr) true true))).
      { cbn [step]. now rewrite Hw. }
      rewrite E. unfold zinv in Hinv. rewrite Hw in Hinv. destruct Hinv as [Hnew [Hod Hq]].
      split; [|split; [|split]]; cbn [set_writer z_cur]; try lia.
      * unfold zinv. cbn [set_writer z_writer z_cur w_new w_dirty w_open].
        split; [exact Hnew|split; [reflexivity|]].
        destruct (w_dirty wr); [exact Hq|]. apply (z_le_q (z_cur s) (z_cur s + 1) s); [lia|exact Hq].
      * intros r _. apply view_of_same. split; reflexivity.
    + assert (E : step s EWOpen = s) by (cbn [step]; now rewrite Hw). rewrite E. exact (Hsame _).
  - (* ECommit *)
    destruct (z_writer s) as [wr|] eqn:Hw.
    + unfold zinv in Hinv. rewrite Hw in Hinv. destruct Hinv as [Hnew [Hod Hq]].
      assert (Hq0 : z_q (z_cur s) (z_cur s + 1) s).
      { destruct (w_dirty wr); [exact Hq|]. apply z_le_q; [lia|exact Hq]. }
      assert (E : step s ECommit = publish s wr) by (cbn [step]; now rewrite Hw). rewrite E.
      destruct (publish_inv s wr Hnew ltac:(lia) Hq0) as [H1 [H2 H3]].
      split; [exact H1|split; [lia|split; [lia|]]]. intros r _. now apply view_of_same.
    + assert (E : step s ECommit = s) by (cbn [step]; now rewrite Hw). rewrite E. exact (Hsame _).
  - (* ECommitBump *)
    destruct (z_writer s) as [wr|] eqn:Hw.
    + unfold zinv in Hinv. rewrite Hw in Hinv. destruct Hinv as [Hnew [Hod Hq]].
      assert (Hq0 : z_q (z_cur s) (z_cur s + 1) s).
      { destruct (w_dirty wr); [exact Hq|]. apply z_le_q; [lia|exact Hq]. }
      assert (E : step s ECommitBump = publish (bump_soa s wr) wr) by (cbn [step]; now rewrite Hw). rewrite E.
      assert (Hb : z_cur (bump_soa s wr) = z_cur s /\ z_q (z_cur s) (z_cur s + 1) (bump_soa s wr) /\
                   forall r, r <= z_cur s -> view_eq (bump_soa s wr) s r).
      { destruct (bump_base (z_cur s) s wr ltac:(lia) ltac:(rewrite Hnew; exact Hq0)) as [Hc0 [Hq' Heqv]]. rewrite Hnew in *.
        split; [exact Hc0|split; [exact Hq'|]]. intros r Hr.
        apply (view_eq_trans _ (z_rollback (bump_soa s wr) (z_cur s + 1))).
        - apply view_eq_sym. apply view_of_base. apply below_open; unfold LIM; lia.
        - apply (view_eq_trans _ (z_rollback s (z_cur s + 1))).
          + apply view_eq_sym. now apply view_of_eqv.
          + apply view_of_base. apply below_open; unfold LIM; lia. }
      destruct Hb as [Hc0 [Hqb Hvb]].
      destruct (publish_inv (bump_soa s wr) wr ltac:(rewrite Hc0; exact Hnew) ltac:(rewrite Hc0; lia) ltac:(rewrite Hc0; exact Hqb)) as [H1 [H2 H3]].
      rewrite Hc0 in H2.
      split; [exact H1|split; [lia|split; [lia|]]]. intros r Hr.
      apply (view_eq_trans _ (bump_soa s wr)); [now apply view_of_same|now apply Hvb].
    + assert (E : step s ECommitBump = s) by (cbn [step]; now rewrite Hw). rewrite E. exact (Hsame _).
  - (* EDrop *)
    destruct (z_writer s) as [wr|] eqn:Hw.
    + unfold zinv in Hinv. rewrite Hw in Hinv. destruct Hinv as [Hnew [Hod Hq]].
      destruct (w_dirty wr) eqn:Hdi.
      * assert (E : step s EDrop = mkz (z_cur s) (z_apex (z_rollback s (z_cur s + 1))) (z_nodes (z_rollback s (z_cur s + 1))) None
                                       (if w_open wr then Some (z_cur s + 1) else z_handle s)).
        { cbn [step]. rewrite Hw, Hdi, Hnew. reflexivity. }
        rewrite E.
        split; [|split; [|split]]; cbn [z_cur]; try lia.
        -- unfold zinv. cbn [z_writer z_cur].
           destruct (z_q_rollback_le _ _ _ Hq) as [H1 H2]. split; assumption.
        -- intros r Hr. apply (view_eq_trans _ (z_rollback s (z_cur s + 1))).
           ++ apply view_of_same. split; reflexivity.
           ++ apply view_of_base. apply below_open; unfold LIM; lia.
      * assert (E : step s EDrop = mkz (z_cur s) (z_apex s) (z_nodes s) None (if w_open wr then Some (z_cur s + 1) else z_handle s)).
        { cbn [step]. rewrite Hw, Hdi, Hnew. reflexivity. }
        rewrite E.
        split; [|split; [|split]]; cbn [z_cur]; try lia.
        -- unfold zinv. cbn [z_writer z_cur]. destruct Hq as [H1 H2]. split; assumption.
        -- intros r _. apply view_of_same. split; reflexivity.
    + assert (E : step s EDrop = s) by (cbn [step]; now rewrite Hw). rewrite E. exact (Hsame _).
Qed.

(* ---------------------------------------------------------------- traces *)

(* snapshot isolation: over every trace of API calls, a reader pinned at a
   version r <= current keeps reading exactly the same answers and the same walk *)
Theorem snapshot_isolation : forall evs s r,
  zinv s -> r <= z_cur s -> z_cur s + ncommits evs + 2 < LIM -> stale_free evs ->
  (forall name t, query (run s evs) r name t = query s r name t) /\ walk (run s evs) r = walk s r.
Proof.
  induction evs as [|e tl IH]; intros s r Hinv Hr Hlim Hsf; [split; reflexivity|].
  destruct (stale_free_cons _ _ Hsf) as [Hse Hsf'].
  assert (Hl : z_cur s + 2 < LIM) by (cbn [ncommits] in Hlim; destruct e; lia).
  destruct (step_inv s e Hinv Hl Hse) as [Hinv' [Hmono [Hup Hview]]].
  cbn [run fold_left]. change (fold_left step tl (step s e)) with (run (step s e) tl).
  assert (Hlim' : z_cur (step s e) + ncommits tl + 2 < LIM) by (cbn [ncommits] in Hlim; destruct e; lia).
  destruct (IH (step s e) r Hinv' ltac:(lia) Hlim' Hsf') as [H1 H2].
  destruct (Hview r Hr) as [H3 H4]. split; [intros; now rewrite H1|congruence].
Qed.

Lemma run_app s a b : run s (a ++ b) = run (run s a) b.
Proof. unfold run. apply fold_left_app. Qed.

Definition all_data (ops : list event) : Prop := Forall (fun e => is_data e = true) ops.

Lemma ncommits_data ops : all_data ops -> ncommits ops = 0.
Proof. intros H. induction H as [|e tl He _ IH]; [reflexivity|]. destruct e; cbn in *; try discriminate; exact IH. Qed.

(* state of an open writer session after data operations *)
Lemma session_run ops : forall s wr,
  all_data ops -> z_writer s = Some wr -> w_open wr = true -> w_dirty wr = true ->
  w_new wr = z_cur s + 1 -> z_q (z_cur s) (z_cur s + 1) s -> z_cur s + 1 < LIM ->
  let s' := run s ops in
  z_writer s' = Some wr /\ z_cur s' = z_cur s /\ z_q (z_cur s) (z_cur s + 1) s' /\
  z_eqv (z_rollback s (z_cur s + 1)) (z_rollback s' (z_cur s + 1)).
Proof.
  induction ops as [|e tl IH]; intros s wr Hd Hw Hop Hdi Hnew Hq Hlim.
  - cbn. split; [exact Hw|split; [reflexivity|split; [exact Hq|apply z_eqv_refl]]].
  - inversion Hd as [|? ? He Htl]; subst.
    assert (Hst : step s e = data_op s (z_cur s + 1) e).
    { destruct e; cbn [is_data] in He; try discriminate; cbn [step is_data]; now rewrite Hw, Hop, Hnew. }
    destruct (data_op_base (z_cur s) (z_cur s + 1) s e ltac:(lia) Hq) as [Hq' Heqv].
    assert (Hfields : z_cur (data_op s (z_cur s + 1) e) = z_cur s /\ z_writer (data_op s (z_cur s + 1) e) = z_writer s).
    { destruct e; cbn [data_op]; try (split; reflexivity); try (unfold at_node; destruct name; split; reflexivity). }
    destruct Hfields as [Hc' Hw'].
    cbn [run fold_left]. change (fold_left step tl (step s e)) with (run (step s e) tl). rewrite Hst in *.
    specialize (IH (data_op s (z_cur s + 1) e) wr Htl).
    rewrite Hc', Hw' in IH.
    destruct (IH Hw Hop Hdi Hnew Hq' Hlim) as [H1 [H2 [H3 H4]]].
    split; [exact H1|split; [exact H2|split; [exact H3|eapply z_eqv_trans; eauto]]].
Qed.

Lemma open_session s :
  zinv s -> z_writer s = None -> z_cur s + 1 < LIM ->
  let s1 := run s [EWAcquire; EWOpen] in
  same_data s1 s /\ z_cur s1 = z_cur s /\ z_writer s1 = Some (mkw (z_cur s + 1) true true) /\
  z_q (z_cur s) (z_cur s + 1) s1.
Proof.
  unfold LIM. intros Hinv Hw Hlim. unfold zinv in Hinv. rewrite Hw in Hinv.
  cbn [run fold_left step]. rewrite Hw. cbv [writer_version_is_next open_sets_dirty].
  cbn [set_writer z_writer z_cur z_apex z_nodes w_new]. rewrite ver_next_small by lia.
  split; [split; reflexivity|split; [reflexivity|split; [reflexivity|]]].
  exact (z_le_q (z_cur s) (z_cur s + 1) s ltac:(lia) Hinv).
Qed.

(* abort is invisible: a writer session that is dropped uncommitted leaves every
   answer and the walk of EVERY version (old, current and future) unchanged,
   including the sessions that call update_child for names that have no node *)
Theorem abort_invisible : forall s ops,
  zinv s -> z_writer s = None -> z_cur s + 1 < LIM -> all_data ops ->
  let s' := run s ([EWAcquire; EWOpen] ++ ops ++ [EDrop]) in
  z_cur s' = z_cur s /\ z_writer s' = None /\
  forall v, (forall name t, query s' v name t = query s v name t) /\ walk s' v = walk s v.
Proof.
  intros s ops Hinv Hw Hlim Hd.
  destruct (open_session s Hinv Hw Hlim) as [Hsd [Hc1 [Hw1 Hq1]]].
  set (s1 := run s [EWAcquire; EWOpen]) in *.
  rewrite <- Hc1 in Hq1.
  assert (Hn1 : w_new (mkw (z_cur s + 1) true true) = z_cur s1 + 1) by (cbn [w_new]; now rewrite Hc1).
  assert (Hl1 : z_cur s1 + 1 < LIM) by (now rewrite Hc1).
  destruct (session_run ops s1 _ Hd Hw1 eq_refl eq_refl Hn1 Hq1 Hl1) as [Hw2 [Hc2 [Hq2 Heqv]]].
  cbn zeta. rewrite !run_app. fold s1. set (s2 := run s1 ops) in *.
  cbn [run fold_left step]. rewrite Hw2. cbv [drop_rolls_back_when_dirty]. cbn [w_dirty w_new andb].
  cbn [set_writer z_cur z_writer].
  repeat split; [rewrite z_rollback_eq; cbn [z_cur]; congruence| |].
  - intros name t.
    rewrite (query_same _ (z_rollback s2 (z_cur s + 1))) by (split; reflexivity).
    rewrite <- Hc1 in *. rewrite <- (query_eqv _ _ v name t Heqv).
    rewrite (query_eqv _ _ v name t (z_rollback_id (z_cur s1) (z_cur s1 + 1) s1 ltac:(lia)
       ltac:(destruct Hsd as [E1 E2]; unfold zinv in Hinv; rewrite Hw in Hinv; destruct Hinv as [I1 I2];
             split; [rewrite E1, Hc1; exact I1|rewrite E2, Hc1; exact I2]))).
    now apply query_same.
  - rewrite (walk_same _ (z_rollback s2 (z_cur s + 1))) by (split; reflexivity).
    rewrite <- Hc1 in *. rewrite <- (walk_eqv _ _ v Heqv).
    rewrite (walk_eqv _ _ v (z_rollback_id (z_cur s1) (z_cur s1 + 1) s1 ltac:(lia)
       ltac:(destruct Hsd as [E1 E2]; unfold zinv in Hinv; rewrite Hw in Hinv; destruct Hinv as [I1 I2];
             split; [rewrite E1, Hc1; exact I1|rewrite E2, Hc1; exact I2]))).
    now apply walk_same.
Qed.

(* commit is atomic: up to the commit call the current version and everything a
   reader of it (old or new) can see are those of before the session -- none of the
   operations; the commit call itself changes no stored data and makes the writer's
   version current -- all of them at once. *)
Theorem commit_atomic : forall s ops,
  zinv s -> z_writer s = None -> z_cur s + 2 < LIM -> all_data ops ->
  let sN := run s ([EWAcquire; EWOpen] ++ ops) in
  let sC := step sN ECommit in
  (z_cur sN = z_cur s /\
   (forall name t, query sN (z_cur s) name t = query s (z_cur s) name t) /\ walk sN (z_cur s) = walk s (z_cur s)) /\
  (z_cur sC = z_cur s + 1 /\
   forall v, (forall name t, query sC v name t = query sN v name t) /\ walk sC v = walk sN v).
Proof.
  intros s ops Hinv Hw Hlim Hd.
  destruct (open_session s Hinv Hw ltac:(lia)) as [Hsd [Hc1 [Hw1 Hq1]]].
  set (s1 := run s [EWAcquire; EWOpen]) in *.
  rewrite <- Hc1 in Hq1.
  assert (Hn1 : w_new (mkw (z_cur s + 1) true true) = z_cur s1 + 1) by (cbn [w_new]; now rewrite Hc1).
  assert (Hl1 : z_cur s1 + 1 < LIM) by (rewrite Hc1; unfold LIM in *; lia).
  destruct (session_run ops s1 _ Hd Hw1 eq_refl eq_refl Hn1 Hq1 Hl1) as [Hw2 [Hc2 [Hq2 Heqv]]].
  cbn zeta. rewrite !run_app. fold s1. set (s2 := run s1 ops) in *.
  split.
  - assert (Hiso : (forall name t, query (run s ([EWAcquire; EWOpen] ++ ops)) (z_cur s) name t = query s (z_cur s) name t) /\
                   walk (run s ([EWAcquire; EWOpen] ++ ops)) (z_cur s) = walk s (z_cur s)).
    { apply snapshot_isolation; [exact Hinv|lia| |].
      - assert (E : ncommits ([EWAcquire; EWOpen] ++ ops) = 0) by (cbn [app ncommits]; now apply ncommits_data).
        rewrite E. lia.
      - right. cbn [app no_stale is_stale negb andb]. clear -Hd. induction Hd as [|e tl He _ IH]; [reflexivity|].
        cbn [no_stale]. destruct e; cbn [is_data] in He; try discriminate; exact IH. }
    rewrite run_app in Hiso. fold s1 s2 in Hiso. destruct Hiso as [H1 H2].
    repeat split; [congruence|exact H1|exact H2].
  - cbn [step]. rewrite Hw2. cbv [publish_sets_current_to_new publish_advances_new_version publish_clears_dirty].
    cbn [w_new z_cur]. split; [reflexivity|]. intros v. split; [intros name t; apply query_same|apply walk_same]; split; reflexivity.
Qed.

(* writers are serialised: while a writer exists a second write().await does not
   complete, and the version a writer writes is always current+1 *)
Theorem writers_serialised : forall s wr,
  zinv s -> z_writer s = Some wr ->
  step s EWAcquire = s /\ w_new wr = z_cur s + 1 /\
  (forall rd tl, exists rest, trace s rd (EWAcquire :: tl) = OPending :: rest).
Proof.
  intros s wr Hinv Hw. unfold zinv in Hinv. rewrite Hw in Hinv. destruct Hinv as [Hnew _].
  repeat split; [cbn [step]; now rewrite Hw|exact Hnew|].
  intros rd tl. cbn [trace]. rewrite Hw. cbv [writer_takes_mutex]. eauto.
Qed.

(* walk enumerates exactly the records of the reader's version: the RRsets that
   have a value at that version, the CNAME of a CNAME node, NS / DS / glue of a
   zone cut -- and nothing below a zone cut *)
Inductive n_has (v : N) : list N -> znode -> (list N * N * rrv) -> Prop :=
| has_rr path rs sp ch t d rr :
    In (t, d) rs -> v_get d v = Some rr -> n_has v path (mknode rs sp ch) (path, t, rr)
| has_cut_ns path rs sp ch ns ds glue :
    sp_get sp v = Some (SCut ns ds glue) -> n_has v path (mknode rs sp ch) (path, 2, ns)
| has_cut_ds path rs sp ch ns d glue :
    sp_get sp v = Some (SCut ns (Some d) glue) -> n_has v path (mknode rs sp ch) (path, 43, d)
| has_cut_glue path rs sp ch ns ds g :
    sp_get sp v = Some (SCut ns ds (Some g)) -> n_has v path (mknode rs sp ch) (path, 1, g)
| has_cname path rs sp ch id :
    sp_get sp v = Some (SCname id) -> n_has v path (mknode rs sp ch) (path, 5, id)
| has_child path rs sp ch k c x :
    (forall ns ds glue, sp_get sp v <> Some (SCut ns ds glue)) ->
    In (k, c) ch -> n_has v (path ++ [k]) c x -> n_has v path (mknode rs sp ch) x.

Lemma in_walk_rrsets {A} (nm : A) rs v x :
  In x (walk_rrsets nm rs v) <-> exists t d rr, x = (nm, t, rr) /\ In (t, d) rs /\ v_get d v = Some rr.
Proof.
  unfold walk_rrsets. rewrite in_flat_map. split.
  - intros [[k d] [Hin Hx]]. cbn [fst snd] in Hx. destruct (v_get d v) as [y|] eqn:E; [|destruct Hx].
    destruct Hx as [Hx|[]]. subst x. exists k, d, y. repeat split; assumption.
  - intros [t [d [rr [-> [Hin Hg]]]]]. exists (t, d). split; [exact Hin|]. cbn [fst snd]. rewrite Hg. now left.
Qed.

Lemma in_opt_item {A} (nm : A) t o x : In x (opt_item nm t o) <-> exists id, o = Some id /\ x = (nm, t, id).
Proof.
  destruct o as [id|]; cbn [opt_item In]; split.
  - intros [H|[]]. exists id. split; [reflexivity|now symmetry].
  - intros [id' [E ->]]. inversion E; subst. now left.
  - intros [].
  - intros [id' [E _]]. discriminate.
Qed.

Lemma walk_node_has v x : forall n path, In x (walk_node path n v) <-> n_has v path n x.
Proof.
  induction n as [rs sp ch IH] using znode_ind'. intros path. rewrite walk_node_eq, in_app_iff, in_walk_rrsets.
  assert (Hkids : In x (flat_map (fun p => walk_node (path ++ [fst p]) (snd p) v) ch) <->
                  exists k c, In (k, c) ch /\ n_has v (path ++ [k]) c x).
  { rewrite in_flat_map. rewrite Forall_forall in IH. split.
    - intros [[k c] [Hin Hx]]. exists k, c. split; [exact Hin|]. exact (proj1 (IH (k, c) Hin _) Hx).
    - intros [k [c [Hin Hx]]]. exists (k, c). split; [exact Hin|]. exact (proj2 (IH (k, c) Hin _) Hx). }
  split.
  - intros [[t [d [rr [-> [Hin Hg]]]]]|Hx]; [now apply (has_rr v path rs sp ch t d rr)|].
    destruct (sp_get sp v) as [[ns ds glue|id|]|] eqn:E.
    + rewrite !in_app_iff, !in_opt_item in Hx. destruct Hx as [[Hx|[]]|[[d [-> ->]]|[g [-> ->]]]].
      * subst x. now apply (has_cut_ns v path rs sp ch ns ds glue).
      * now apply (has_cut_ds v path rs sp ch ns d glue).
      * now apply (has_cut_glue v path rs sp ch ns ds g).
    + rewrite in_app_iff in Hx. destruct Hx as [[Hx|[]]|Hx]; [subst x; now apply has_cname|].
      apply Hkids in Hx. destruct Hx as [k [c [Hin Hx]]]. apply (has_child v path rs sp ch k c); [intros; rewrite E; discriminate|exact Hin|exact Hx].
    + apply Hkids in Hx. destruct Hx as [k [c [Hin Hx]]]. apply (has_child v path rs sp ch k c); [intros; rewrite E; discriminate|exact Hin|exact Hx].
    + apply Hkids in Hx. destruct Hx as [k [c [Hin Hx]]]. apply (has_child v path rs sp ch k c); [intros; rewrite E; discriminate|exact Hin|exact Hx].
  - intros H. inversion H as [? ? ? ? t d rr Hin Hg|? ? ? ? ns ds glue E|? ? ? ? ns d glue E|? ? ? ? ns ds g E|? ? ? ? id E|? ? ? ? k c ? Hnc Hin Hx]; subst.
    + left. exists t, d, rr. repeat split; assumption.
    + right. rewrite E. cbn [app In]. now left.
    + right. rewrite E. rewrite !in_app_iff, !in_opt_item. right. left. exists d. split; reflexivity.
    + right. rewrite E. rewrite !in_app_iff, !in_opt_item. right. right. exists g. split; reflexivity.
    + right. rewrite E. cbn [app In]. now left.
    + right. assert (Hk : In x (flat_map (fun p => walk_node (path ++ [fst p]) (snd p) v) ch)) by (apply Hkids; eauto).
      destruct (sp_get sp v) as [[ns ds glue|id|]|] eqn:E; [exfalso; exact (Hnc ns ds glue eq_refl)| | |]; try exact Hk.
      rewrite in_app_iff. now right.
Qed.

Theorem walk_exact : forall s v x,
  In x (walk s v) <->
  (exists t d rr, x = ([], t, rr) /\ In (t, d) (z_apex s) /\ v_get d v = Some rr) \/
  (exists k n, In (k, n) (z_nodes s) /\ n_has v [k] n x).
Proof.
  intros s v x. unfold walk. rewrite in_app_iff, in_walk_rrsets, in_flat_map. split.
  - intros [H|[[k n] [Hin Hx]]]; [now left|]. right. exists k, n. split; [exact Hin|]. now apply walk_node_has.
  - intros [H|[k [n [Hin Hx]]]]; [now left|]. right. exists (k, n). split; [exact Hin|]. now apply walk_node_has.
Qed.

(* ---------------------------------------------------------------- reachable states *)

Lemma le_update {T} c (d : list (entry T)) x : le_all c d -> le_all c (v_update d c x).
Proof.
  intros H. rewrite v_update_eq. destruct d as [|[lv lx] rest]; [repeat constructor; cbn; lia|].
  inversion H; subst. destruct (lv =? c); constructor; cbn in *; auto; lia.
Qed.
Lemma le_remove {T} c (d : list (entry T)) : le_all c d -> le_all c (v_remove d c).
Proof.
  intros H. rewrite v_remove_eq. destruct d as [|[lv [y|]] rest]; [constructor| |exact H].
  inversion H; subst. destruct (lv =? c).
  - destruct rest; [constructor|constructor; cbn in *; auto].
  - constructor; [cbn; lia|exact H].
Qed.

Lemma rs_update_le c rs t rr :
  Forall (fun p => le_all c (snd p)) rs -> Forall (fun p => le_all c (snd p)) (rs_update rs t rr c).
Proof.
  intros H. unfold rs_update, rs_remove_rtype, rs_at.
  destruct (rrv_is_empty rr && update_empty_rrset_is_remove);
    (apply Forall_al_upd; [|constructor|exact H]); intros d Hd; [now apply le_remove|now apply le_update].
Qed.

Lemma n_upto_empty c : n_upto c empty_node.
Proof. constructor; constructor. Qed.

Lemma path_do_upto c fresh f :
  n_upto c fresh -> (forall n, n_upto c n -> n_upto c (f n)) ->
  forall p ns, Forall (fun q => n_upto c (snd q)) ns -> Forall (fun q => n_upto c (snd q)) (path_do ns p fresh f).
Proof.
  intros Hfresh Hf. induction p as [|l rest IH]; intros ns H; cbn [path_do]; [exact H|].
  apply (Forall_al_upd (n_upto c)); [|exact Hfresh|exact H].
  intros n Hn. destruct rest as [|l' rest']; [now apply Hf|].
  destruct n as [rs sp ch]. inversion Hn as [? ? ? H1 H2 H3]; subst. unfold set_children. cbn [n_rrsets n_special n_children].
  constructor; [exact H1|exact H2|]. now apply IH.
Qed.

(* every zone made by the ZoneBuilder satisfies the invariant *)
Lemma build_zinv is : zinv (build is) /\ z_cur (build is) = 0 /\ z_writer (build is) = None.
Proof.
  unfold build.
  assert (H : forall s, (z_le 0 s /\ z_cur s = 0 /\ z_writer s = None) ->
              (z_le 0 (fold_left build_one is s) /\ z_cur (fold_left build_one is s) = 0 /\ z_writer (fold_left build_one is s) = None)).
  { induction is as [|i tl IH]; intros s Hs; [exact Hs|]. cbn [fold_left]. apply IH.
    destruct Hs as [[Ha Hn] [Hc Hw]].
    assert (Hsp : forall sp n, n_upto 0 n -> n_upto 0 (n_update_special n 0 sp)).
    { intros sp [rs sp0 ch] Hn0. inversion Hn0 as [? ? ? H1 H2 H3]; subst. unfold n_update_special, set_special. cbn [n_rrsets n_special n_children].
      constructor; [exact H1|now apply le_update|exact H3]. }
    destruct i as [name t rr|name id|name ns ds glue]; cbn [build_one]; destruct name as [|l rest];
      try (split; [split; assumption|split; assumption]).
    - repeat split; cbn [set_apex z_apex z_nodes z_cur z_writer]; auto. now apply rs_update_le.
    - repeat split; cbn [set_nodes z_apex z_nodes z_cur z_writer]; auto.
      apply path_do_upto; [apply n_upto_empty| |exact Hn].
      intros [rs sp ch] Hn0. inversion Hn0 as [? ? ? H1 H2 H3]; subst. unfold set_rrsets. cbn [n_rrsets n_special n_children].
      constructor; [now apply rs_update_le|exact H2|exact H3].
    - repeat split; cbn [set_nodes z_apex z_nodes z_cur z_writer]; auto.
      apply path_do_upto; [apply n_upto_empty|apply Hsp|exact Hn].
    - repeat split; cbn [set_nodes z_apex z_nodes z_cur z_writer]; auto.
      apply path_do_upto; [apply n_upto_empty|apply Hsp|exact Hn]. }
  destruct (H (mkz 0 [] [] None None)) as [H1 [H2 H3]]; [repeat split; constructor|].
  split; [|split; assumption]. unfold zinv. rewrite H3, H2. exact H1.
Qed.

Lemma run_zinv evs : forall s, zinv s -> z_cur s + ncommits evs + 2 < LIM -> stale_free evs ->
  zinv (run s evs) /\ z_cur (run s evs) <= z_cur s + ncommits evs.
Proof.
  induction evs as [|e tl IH]; intros s Hinv Hlim Hsf; [cbn; split; [exact Hinv|lia]|].
  destruct (stale_free_cons _ _ Hsf) as [Hse Hsf'].
  assert (Hl : z_cur s + 2 < LIM) by (cbn [ncommits] in Hlim; destruct e; lia).
  destruct (step_inv s e Hinv Hl Hse) as [Hinv' [Hmono [Hup _]]].
  cbn [run fold_left]. change (fold_left step tl (step s e)) with (run (step s e) tl).
  assert (Hlim' : z_cur (step s e) + ncommits tl + 2 < LIM) by (cbn [ncommits] in Hlim; destruct e; lia).
  destruct (IH (step s e) Hinv' Hlim' Hsf') as [H1 H2]. split; [exact H1|].
  cbn [ncommits]. destruct e; lia.
Qed.

(* the invariant holds in every state reachable from a built zone by API calls *)
Theorem reachable_invariant : forall is evs,
  ncommits evs + 2 < LIM -> stale_free evs -> zinv (run (build is) evs).
Proof.
  intros is evs Hlim Hsf. destruct (build_zinv is) as [H1 [H2 H3]].
  apply run_zinv; [exact H1| |exact Hsf]. rewrite H2. lia.
Qed.

(* ---------------------------------------------------------------- non-vacuity *)

(* the RRsets of the examples: one record, TTL 3600 *)
Definition r1 (x : N) : rrv := (3600, [x]).

Definition wit_zone : zstate := build [IRrset [] 6 (r1 1); IRrset [2] 1 (r1 11)].

Lemma wit_zinv : zinv wit_zone /\ z_writer wit_zone = None /\ z_cur wit_zone = 0.
Proof.
  repeat split; cbn; repeat constructor; cbn; lia.
Qed.

(* the history of DESIGN section 7 #13 (node existence used not to be versioned):
   update_child for a new name, seen by a held reader, then aborted / committed *)
Example ex_update_child_invisible :
  let s1 := run wit_zone [EWAcquire; EWOpen; EUpdate [3] 1 (r1 12)] in
  query wit_zone 0 [3] 1 = ANx (Some (3600, 1)) /\
  query s1 0 [3] 1 = ANx (Some (3600, 1)) /\
  query (run s1 [EDrop]) 0 [3] 1 = ANx (Some (3600, 1)) /\
  query (run s1 [ECommit]) 0 [3] 1 = ANx (Some (3600, 1)) /\
  query (run s1 [ECommit]) 1 [3] 1 = AData (r1 12) /\
  node_exists (z_nodes (run s1 [EDrop])) 3 = true.
Proof. repeat split; reflexivity. Qed.

Example ex_session :
  query (run wit_zone ([EWAcquire; EWOpen] ++ [EUpdate [2] 1 (r1 13)])) 0 [2] 1 = AData (r1 11) /\
  query (run wit_zone ([EWAcquire; EWOpen] ++ [EUpdate [2] 1 (r1 13)] ++ [ECommit])) 1 [2] 1 = AData (r1 13) /\
  query (run wit_zone ([EWAcquire; EWOpen] ++ [EUpdate [2] 1 (r1 13)] ++ [ECommit])) 0 [2] 1 = AData (r1 11) /\
  query (run wit_zone ([EWAcquire; EWOpen] ++ [EUpdate [2] 1 (r1 13)] ++ [EDrop])) 1 [2] 1 = AData (r1 11) /\
  walk (run wit_zone ([EWAcquire; EWOpen] ++ [EUpdate [2] 1 (r1 13)] ++ [ECommit])) 1 = [([], 6, r1 1); ([2], 1, r1 13)].
Proof. repeat split; reflexivity. Qed.
Example ex_second_writer :
  trace wit_zone [] [EWAcquire; EWAcquire; EDrop; EWAcquire] = [OGranted; OPending; OGranted].
Proof. reflexivity. Qed.

(* below the first level: a three-label name makes two empty non-terminals; a
   wildcard beside them stops matching for new readers only; remove_all at the
   inner node reaches the grandchild; a zone cut refers and ends the walk *)
Example ex_tree :
  let z := build [IRrset [] 6 (r1 1); IRrset [2; 1] 1 (r1 81); ICut [4] (r1 91) (Some (r1 92)) None; IRrset [4; 5] 1 (r1 94)] in
  let s1 := run z [EWAcquire; EWOpen; EUpdate [2; 3; 4] 1 (r1 82)] in
  query z 0 [2; 3] 1 = AData (r1 81) /\
  query s1 0 [2; 3] 1 = AData (r1 81) /\
  query (run s1 [ECommit]) 0 [2; 3] 1 = AData (r1 81) /\
  query (run s1 [ECommit]) 1 [2; 3] 1 = ANoData (Some (3600, 1)) /\
  query (run s1 [ECommit]) 1 [2; 3; 4] 1 = AData (r1 82) /\
  query (run s1 [EDrop]) 0 [2; 3; 4] 1 = AData (r1 81) /\
  query (run s1 [ECommit; EWOpen; ERemoveAllAt [2]; ECommit]) 2 [2; 3; 4] 1 = ANx (Some (3600, 1)) /\
  query (run s1 [ECommit; EWOpen; ERemoveAllAt [2]; ECommit]) 1 [2; 3; 4] 1 = AData (r1 82) /\
  query z 0 [4; 5] 1 = ARefer (r1 91) (Some (r1 92)) None /\ query z 0 [4] 43 = AData (r1 92) /\
  walk z 0 = [([], 6, r1 1); ([2; 1], 1, r1 81); ([4], 2, r1 91); ([4], 43, r1 92)] /\
  query z 0 [2; 1] 255 = AAny.
Proof. repeat split; reflexivity. Qed.

(* commit(true): the SOA serial is bumped unless the writer stored a new SOA; old readers keep theirs *)
Example ex_commit_bump :
  let s1 := run wit_zone [EWAcquire; EWOpen; EUpdate [2] 1 (r1 13)] in
  query (run s1 [ECommitBump]) 1 [] 6 = AData (r1 2) /\
  query (run s1 [ECommitBump]) 0 [] 6 = AData (r1 1) /\
  query (run s1 [ECommitBump]) 1 [3] 1 = ANx (Some (3600, 2)) /\
  query (run s1 [EUpdate [] 6 (r1 7); ECommitBump]) 1 [] 6 = AData (r1 7) /\
  query (run s1 [ERemove [] 6; ECommitBump]) 1 [] 6 = AData (r1 2) /\
  query (run s1 [ECommit]) 1 [] 6 = AData (r1 1) /\
  (* the serial wraps like Serial::add: 2^32 - 1 is followed by 0, which is a SOA, not an absence *)
  query (run (build [IRrset [] 6 (r1 4294967295)]) [EWAcquire; ECommitBump]) 1 [] 6 = AData (r1 0) /\
  query (run (build [IRrset [] 6 (r1 4294967295)]) [EWAcquire; ECommitBump; ECommitBump]) 2 [] 6 = AData (r1 1) /\
  query (run (build [IRrset [] 6 (r1 4294967295)]) [EWAcquire; ECommitBump]) 1 [3] 1 = ANx (Some (3600, 0)).
Proof. repeat split; reflexivity. Qed.

(* ---------------------------------------------------------------- write handle used after its session *)

(* A WriteNode obtained before commit() keeps writing at the version it was opened
   for, which is the CURRENT version after the commit: a reader acquired after the
   commit sees the record change without any further commit.  (When the handle is
   rejected -- T1 flag stale_handle_rejected -- the premise is false.) *)
Lemma stale_handle_refuted :
  stale_handle_rejected = false ->
  exists s evs r name t,
    zinv s /\ r <= z_cur s /\ z_cur s + ncommits evs + 2 < LIM /\ no_stale evs = false /\
    query s r name t = AData (r1 21) /\ query (run s evs) r name t = AData (r1 22).
Proof.
  intros H.
  first
    [ discriminate H
    | exists (run wit_zone [EWAcquire; EWOpen; EUpdate [2] 1 (r1 21); ECommit]), [EStale (EUpdate [2] 1 (r1 22))], 1, [2], 1;
      split; [apply reachable_invariant; [cbn; unfold LIM; lia|right; reflexivity]|];
      repeat split; try reflexivity; cbn; unfold LIM; lia ].
Qed.

(* ... and after the writer was dropped the handle still writes, without the lock,
   at the version number the next writer will use: that writer's commit publishes it *)
Lemma stale_handle_after_drop_refuted :
  stale_handle_rejected = false ->
  exists s evs name t,
    zinv s /\ z_writer s = None /\ no_stale evs = false /\
    query s 1 name t = ANoData (Some (3600, 1)) /\ query (run s evs) 1 name t = AData (r1 31).
Proof.
  intros H.
  first
    [ discriminate H
    | exists (run wit_zone [EWAcquire; EWOpen; EUpdate [2] 1 (r1 21); EDrop]),
        [EStale (EUpdate [2] 16 (r1 31)); EWAcquire; EWOpen; EUpdate [2] 1 (r1 22); ECommit], [2], 16;
      split; [apply reachable_invariant; [cbn; unfold LIM; lia|right; reflexivity]|];
      repeat split; reflexivity ].
Qed.

Example ex_stale_rejected_or_effective :
  trace (run wit_zone [EWAcquire; EWOpen; ECommit]) [] [EStale (EUpdate [2] 1 (r1 22))]
  = [if stale_handle_rejected then OStaleRejected else OStaleDone].
Proof. reflexivity. Qed.

(* ---------------------------------------------------------------- the property in terms of the trace runner *)

(* readers map after a list of events *)
Fixpoint rd_after (s : zstate) (rd : list (N * N)) (evs : list event) : list (N * N) :=
  match evs with
  | [] => rd
  | e :: tl =>
      match e with
      | EAcquire r => rd_after s ((r, z_cur s) :: rd) tl
      | ERelease r => rd_after s (filter (fun p => negb (fst p =? r)) rd) tl
      | EQuery _ _ _ | EWalk _ => rd_after s rd tl
      | _ => rd_after (step s e) rd tl
      end
  end.

Lemma trace_app : forall a s rd b,
  trace s rd (a ++ b) = trace s rd a ++ trace (run s a) (rd_after s rd a) b.
Proof.
  induction a as [|e tl IH]; intros s rd b; [reflexivity|].
  assert (Hst : forall r, step s (EAcquire r) = s) by reflexivity.
  destruct e; cbn [app trace rd_after run fold_left]; cbv [reader_pins_current];
    try (rewrite IH; reflexivity); try (cbn [app]; f_equal; rewrite IH; reflexivity).
Qed.

Definition touches_reader (r : N) (e : event) : bool :=
  match e with EAcquire r' | ERelease r' => r' =? r | _ => false end.

Lemma al_get_filter_other r r' (rd : list (N * N)) :
  (r' =? r) = false -> al_get r (filter (fun p => negb (fst p =? r')) rd) = al_get r rd.
Proof.
  intros Hne. induction rd as [|[k v] tl IH]; [reflexivity|]. cbn [filter fst al_get].
  destruct (N.eqb_spec k r') as [->|Hk]; cbn [negb].
  - rewrite Hne. exact IH.
  - cbn [al_get]. destruct (k =? r); [reflexivity|exact IH].
Qed.

Lemma rd_after_other r : forall evs s rd,
  forallb (fun e => negb (touches_reader r e)) evs = true -> al_get r (rd_after s rd evs) = al_get r rd.
Proof.
  induction evs as [|e tl IH]; intros s rd H; [reflexivity|]. cbn [forallb] in H. apply andb_prop in H. destruct H as [He Htl].
  apply negb_true_iff in He.
  destruct e; cbn [rd_after touches_reader] in *; try (now apply IH).
  - rewrite IH by exact Htl. cbn [al_get]. now rewrite He.
  - rewrite IH by exact Htl. now apply al_get_filter_other.
Qed.

(* THE property, in terms of what the API returns: a reader acquired now and
   queried (or asked to walk) after ANY further API calls -- by other readers and by
   writers opening, updating, removing, committing (also several versions),
   aborting -- gets the answer of the zone as it was when it was acquired *)
Theorem reader_sees_acquire_time : forall s rd r evs name t,
  zinv s -> z_cur s + ncommits evs + 2 < LIM -> stale_free evs ->
  forallb (fun e => negb (touches_reader r e)) evs = true ->
  exists before,
    trace s rd (EAcquire r :: evs ++ [EQuery r name t; EWalk r]) =
    before ++ [OAnswer (query s (z_cur s) name t); OWalk (walk s (z_cur s))].
Proof.
  intros s rd r evs name t Hinv Hlim Hsf Hr.
  cbn [trace]. cbv [reader_pins_current]. rewrite trace_app.
  exists (trace s ((r, z_cur s) :: rd) evs). f_equal.
  cbn [trace]. rewrite (rd_after_other r evs s _ Hr). cbn [al_get]. rewrite N.eqb_refl.
  destruct (snapshot_isolation evs s (z_cur s) Hinv ltac:(lia) Hlim Hsf) as [H1 H2].
  now rewrite H1, H2.
Qed.

Example ex_more_flags :
  (* a node that only has a CNAME exists; one that has nothing does not *)
  query (build [IRrset [] 6 (r1 1); ICname [2] (r1 7)]) 0 [2] 1 = ACname (r1 7) /\
  query (run (build [IRrset [] 6 (r1 1); ICname [2] (r1 7)]) [EWAcquire; EWOpen; ERegular [2]; ECommit]) 1 [2] 1 = ANx (Some (3600, 1)) /\
  (* an update with the empty RRset removes *)
  query (run wit_zone [EWAcquire; EWOpen; EUpdate [2] 1 (3600, []); ECommit]) 1 [2] 1 = ANx (Some (3600, 1)).
Proof. repeat split; reflexivity. Qed.

(* ---------------------------------------------------------------- no trace of an aborted version *)

Lemma upto_versions c : forall n, n_upto c n -> Forall (fun v => v <= c) (n_versions n).
Proof.
  induction n as [rs sp ch IH] using znode_ind'. intros H. inversion H as [? ? ? H1 H2 H3]; subst.
  cbn [n_versions]. rewrite !Forall_app. repeat split.
  - rewrite Forall_forall. intros v Hin. apply in_flat_map in Hin. destruct Hin as [p [Hp Hv]].
    apply in_map_iff in Hv. destruct Hv as [it [<- Hit]]. rewrite Forall_forall in H1. specialize (H1 p Hp). cbn in H1.
    unfold le_all in H1. rewrite Forall_forall in H1. exact (H1 it Hit).
  - unfold le_all in H2. rewrite Forall_forall in *. intros v Hin. apply in_map_iff in Hin. destruct Hin as [it [<- Hit]]. exact (H2 it Hit).
  - rewrite Forall_forall. intros v Hin. apply in_flat_map in Hin. destruct Hin as [p [Hp Hv]].
    rewrite Forall_forall in IH, H3. specialize (IH p Hp (H3 p Hp)). rewrite Forall_forall in IH. exact (IH v Hv).
Qed.

Lemma z_le_versions c s : z_le c s -> Forall (fun v => v <= c) (z_versions s).
Proof.
  intros [Ha Hn]. unfold z_versions. rewrite Forall_app. split.
  - rewrite Forall_forall. intros v Hin. apply in_flat_map in Hin. destruct Hin as [p [Hp Hv]].
    apply in_map_iff in Hv. destruct Hv as [it [<- Hit]]. rewrite Forall_forall in Ha. specialize (Ha p Hp). cbn in Ha.
    unfold le_all in Ha. rewrite Forall_forall in Ha. exact (Ha it Hit).
  - rewrite Forall_forall. intros v Hin. apply in_flat_map in Hin. destruct Hin as [p [Hp Hv]].
    rewrite Forall_forall in Hn. pose proof (upto_versions c (snd p) (Hn p Hp)) as H. rewrite Forall_forall in H. exact (H v Hv).
Qed.

(* whenever no writer has the zone open, no entry of a version above the current
   one is stored ANYWHERE in the tree -- under names that exist, that never existed
   or that stopped existing in an abandoned version alike.  In particular an aborted
   session leaves no marker of its version, so the next writer can reuse the number. *)
Theorem no_marker_above_current : forall is evs,
  ncommits evs + 2 < LIM -> stale_free evs ->
  let s := run (build is) evs in
  match z_writer s with
  | None => Forall (fun v => v <= z_cur s) (z_versions s)
  | Some wr => Forall (fun v => v <= z_cur s + 1) (z_versions s) /\ w_new wr = z_cur s + 1
  end.
Proof.
  intros is evs Hlim Hsf s. pose proof (reachable_invariant is evs Hlim Hsf) as Hinv. fold s in Hinv.
  unfold zinv in Hinv. destruct (z_writer s) as [wr|].
  - destruct Hinv as [Hnew [_ Hq]]. split; [|exact Hnew]. apply z_le_versions.
    destruct (w_dirty wr); [now apply z_q_le|apply (z_le_weaken (z_cur s)); [lia|exact Hq]].
  - now apply z_le_versions.
Qed.

(* the write lock is held across commit(): a WriteZone kept after a commit (to be
   re-opened for the next batch) still excludes every other writer, and it writes
   the version after the one it just published *)
Theorem lock_held_across_commit : forall s wr,
  zinv s -> z_cur s + 2 < LIM -> z_writer s = Some wr ->
  let s' := step s ECommit in
  exists wr', z_writer s' = Some wr' /\ z_cur s' = z_cur s + 1 /\ w_new wr' = z_cur s' + 1 /\
    step s' EWAcquire = s' /\
    (forall rd tl, exists rest, trace s' rd (EWAcquire :: tl) = OPending :: rest) /\
    z_writer (step s' EWOpen) = Some (mkw (w_new wr') true true).
Proof.
  intros s wr Hinv Hlim Hw s'.
  destruct (step_inv s ECommit Hinv Hlim (or_intror eq_refl)) as [Hinv' [Hm [Hu _]]]. fold s' in Hinv', Hm, Hu.
  assert (Hnew : w_new wr = z_cur s + 1) by (unfold zinv in Hinv; rewrite Hw in Hinv; exact (proj1 Hinv)).
  assert (E : s' = publish s wr) by (unfold s'; cbn [step]; now rewrite Hw).
  rewrite (publish_eq s wr Hnew ltac:(unfold LIM in Hlim; lia)) in E.
  exists (mkw (z_cur s + 2) false false).
  assert (Hw' : z_writer s' = Some (mkw (z_cur s + 2) false false)) by (rewrite E; reflexivity).
  assert (Hc' : z_cur s' = z_cur s + 1) by (rewrite E; reflexivity).
  destruct (writers_serialised s' _ Hinv' Hw') as [H1 [H2 H3]].
  split; [exact Hw'|split; [exact Hc'|split; [rewrite Hc'; cbn [w_new]; lia|split; [exact H1|split; [exact H3|]]]]].
  cbn [step]. rewrite Hw'. reflexivity.
Qed.

Example ex_reopen_two_writers :
  trace wit_zone [] [EWAcquire; EWOpen; EUpdate [2] 1 (r1 21); ECommit; EWAcquire; EWOpen; EUpdate [2] 1 (r1 22); ECommit; EDrop; EWAcquire; EDump]
  = [OGranted; OPending; OGranted; ODump [0; 2; 1; 0]].
Proof. reflexivity. Qed.

Example ex_abort_after_removing_everything :
  let z := build [IRrset [] 6 (r1 1); IRrset [2; 3] 1 (r1 11)] in
  (* the aborted version removes all data of 3.2 (the name stops existing in it): no marker stays *)
  trace z [] [EWAcquire; EWOpen; ERemove [2; 3] 1; ERemoveAll; EDump; EDrop; EDump;
              EWAcquire; EWOpen; EUpdate [2; 3; 4] 16 (r1 7); ECommit; EDump; EAcquire 0; EQuery 0 [2; 3] 1; EQuery 0 [2; 3; 4] 16]
  = [OGranted; ODump [1; 0; 1; 0]; ODump [0; 0]; OGranted; ODump [0; 0; 1; 1]; OAnswer (AData (r1 11)); OAnswer (AData (r1 7))].
Proof. reflexivity. Qed.
