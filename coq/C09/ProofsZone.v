(* C09 proofs, part 2: cells inside NodeRrsets / ZoneNode / the zone; every data
   operation of the writer of version w leaves the rolled-back state unchanged. *)
From Coq Require Import NArith ZArith List Bool Lia ZifyN ZifyBool ZifyNat.
From DV Require Import Base.Outcome C17.Model C09.Gen C09.Model C09.Proofs.
Import ListNotations.
Local Open Scope N_scope.

(* ---------------------------------------------------------------- w-local cell functions *)

(* the cell minus a last entry of version w holds versions <= c only *)
Definition cq {T} (c w : N) (d : list (entry T)) : Prop := le_all c (v_rollback d w).

Lemma cq_nov {T} c w (d : list (entry T)) : c < w -> cq c w d -> nov w (v_rollback d w).
Proof. intros Hc H. eapply Forall_impl; [|exact H]. cbn. intros; lia. Qed.

Lemma shape_of_cinv {T} w (d : list (entry T)) : shape w (v_rollback d w) d.
Proof.
  rewrite v_rollback_eq. destruct d as [|[lv lx] rest]; [left; reflexivity|].
  destruct (N.eqb_spec lv w) as [->|_]; [right; eauto|left; reflexivity].
Qed.

(* f does not touch anything but a last entry of version w *)
Definition wl {T} (w : N) (f : list (entry T) -> list (entry T)) : Prop :=
  forall d, nov w (v_rollback d w) -> v_rollback (f d) w = v_rollback d w.

Lemma wl_cop {T} w (o : cop T) : cop_ver o = w -> wl w (fun d => c_apply d o).
Proof.
  intros Ho d Hd. apply shape_rollback; [exact Hd|].
  apply shape_step; [exact Hd|exact Ho|apply shape_of_cinv].
Qed.
Lemma wl_update {T} w (x : T) : wl w (fun d => v_update d w x).
Proof. exact (wl_cop w (CUpd w x) eq_refl). Qed.
Lemma wl_remove {T} w : @wl T w (fun d => v_remove d w).
Proof. exact (wl_cop w (CRem w) eq_refl). Qed.
Lemma wl_id {T} w : @wl T w (fun d => d).
Proof. intros d _. reflexivity. Qed.

Lemma wl_cq {T} c w (f : list (entry T) -> list (entry T)) d :
  c < w -> wl w f -> cq c w d -> cq c w (f d).
Proof. intros Hc Hf Hd. unfold cq. rewrite (Hf d (cq_nov c w d Hc Hd)). exact Hd. Qed.

Lemma cq_nil {T} c w : @cq T c w [].
Proof. constructor. Qed.

Lemma get_base {T} w (d : list (entry T)) r :
  ver_le w r = false -> v_get (v_rollback d w) r = v_get d r.
Proof. intros Hr. symmetry. apply (shape_get w); [exact Hr|apply shape_of_cinv]. Qed.

Lemma rollback_id {T} c w (d : list (entry T)) : c < w -> le_all c d -> v_rollback d w = d.
Proof.
  intros Hc Hd. rewrite v_rollback_eq. destruct d as [|[lv lx] rest]; [reflexivity|].
  inversion Hd; subst. cbn [fst] in *. destruct (N.eqb_spec lv w); [lia|reflexivity].
Qed.

Lemma cq_of_le {T} c w (d : list (entry T)) : c < w -> le_all c d -> cq c w d.
Proof. intros Hc Hd. unfold cq. now rewrite (rollback_id c w d Hc Hd). Qed.

Lemma le_of_cq {T} c (d : list (entry T)) : cq c (c + 1) d -> le_all (c + 1) d.
Proof.
  unfold cq. rewrite v_rollback_eq. destruct d as [|[lv lx] rest]; [constructor|].
  destruct (N.eqb_spec lv (c + 1)) as [->|_]; intros H.
  - constructor; [cbn; lia|]. eapply le_all_weaken; [|exact H]. lia.
  - eapply le_all_weaken; [|exact H]. lia.
Qed.

Lemma le_rollback {T} c w (d : list (entry T)) : le_all c d -> le_all c (v_rollback d w).
Proof.
  intros H. rewrite v_rollback_eq. destruct d as [|[lv lx] rest]; [constructor|].
  destruct (lv =? w); [now inversion H|exact H].
Qed.

(* ---------------------------------------------------------------- association lists *)

Lemma al_get_upd {A} k k' (f : A -> A) dflt (l : list (N * A)) :
  al_get k' (al_upd k f dflt l) =
  if k' =? k then Some (f (match al_get k l with Some a => a | None => dflt end)) else al_get k' l.
Proof.
  induction l as [|[k0 a] tl IH]; cbn [al_upd al_get].
  - rewrite (N.eqb_sym k k'). destruct (k' =? k); reflexivity.
  - destruct (N.eqb_spec k0 k) as [->|Hne]; cbn [al_get].
    + rewrite (N.eqb_sym k k'). destruct (k' =? k); reflexivity.
    + rewrite IH. destruct (N.eqb_spec k' k) as [->|_].
      * destruct (N.eqb_spec k0 k); [contradiction|reflexivity].
      * reflexivity.
Qed.

Lemma al_get_map {A} k (g : A -> A) (l : list (N * A)) :
  al_get k (al_map g l) = option_map g (al_get k l).
Proof.
  induction l as [|[k0 a] tl IH]; [reflexivity|]. cbn [al_map map al_get fst snd].
  destruct (k0 =? k); [reflexivity|exact IH].
Qed.

Lemma al_map_id {A} (g : A -> A) (l : list (N * A)) :
  (forall p, In p l -> g (snd p) = snd p) -> al_map g l = l.
Proof.
  intros H. unfold al_map. rewrite <- (map_id l) at 2. apply map_ext_in.
  intros [k a] Hin. cbn. f_equal. exact (H (k, a) Hin).
Qed.

Lemma al_map_map {A} (g h : A -> A) (l : list (N * A)) :
  al_map g (al_map h l) = al_map (fun a => g (h a)) l.
Proof. unfold al_map. rewrite map_map. apply map_ext. intros [k a]. reflexivity. Qed.

Lemma Forall_al_upd {A} (Q : A -> Prop) k f dflt (l : list (N * A)) :
  (forall a, Q a -> Q (f a)) -> Q dflt ->
  Forall (fun p => Q (snd p)) l -> Forall (fun p => Q (snd p)) (al_upd k f dflt l).
Proof.
  intros Hf Hd H. induction H as [|[k0 a] tl Ha Htl IH]; cbn [al_upd].
  - constructor; [cbn; auto|constructor].
  - destruct (k0 =? k); constructor; cbn in *; auto.
Qed.

Lemma Forall_al_map {A} (Q : A -> Prop) g (l : list (N * A)) :
  (forall a, Q a -> Q (g a)) ->
  Forall (fun p => Q (snd p)) l -> Forall (fun p => Q (snd p)) (al_map g l).
Proof.
  intros Hg H. induction H as [|[k0 a] tl Ha _ IH]; cbn; constructor; cbn in *; auto.
Qed.

(* ---------------------------------------------------------------- NodeRrsets *)

Definition rs_q (c w : N) (rs : rrsets) : Prop := Forall (fun p => cq c w (snd p)) rs.

Definition rs_eqv (a b : rrsets) : Prop :=
  (forall t, cell t a = cell t b) /\ (forall (nm : list N) v, walk_rrsets nm a v = walk_rrsets nm b v).

Lemma rs_eqv_refl a : rs_eqv a a.
Proof. split; reflexivity. Qed.
Lemma rs_eqv_trans a b c : rs_eqv a b -> rs_eqv b c -> rs_eqv a c.
Proof. intros [H1 H2] [H3 H4]. split; intros; [now rewrite H1|now rewrite H2]. Qed.
Lemma rs_eqv_sym a b : rs_eqv a b -> rs_eqv b a.
Proof. intros [H1 H2]. split; intros; [now rewrite H1|now rewrite H2]. Qed.

Lemma cell_upd t t' f (rs : rrsets) :
  cell t' (al_upd t f [] rs) = if t' =? t then f (cell t rs) else cell t' rs.
Proof. unfold cell. rewrite al_get_upd. destruct (t' =? t); reflexivity. Qed.

Lemma cell_map t g (rs : rrsets) : g [] = [] -> cell t (al_map g rs) = g (cell t rs).
Proof. intros Hg. unfold cell. rewrite al_get_map. destruct (al_get t rs); cbn; auto. Qed.

Lemma cell_q c w t rs : rs_q c w rs -> cq c w (cell t rs).
Proof.
  intros H. unfold cell. induction H as [|[k d] tl Hd _ IH]; cbn [al_get]; [apply cq_nil|].
  destruct (k =? t); [exact Hd|exact IH].
Qed.

Lemma walk_rrsets_cons {A} (nm : A) k d (tl : rrsets) v :
  walk_rrsets nm ((k, d) :: tl) v =
  (match v_get d v with Some rr => [(nm, k, rr)] | None => [] end) ++ walk_rrsets nm tl v.
Proof. reflexivity. Qed.

Lemma walk_upd_base {A} c w t f (rs : rrsets) (nm : A) v :
  c < w -> wl w f -> rs_q c w rs ->
  walk_rrsets nm (rs_rollback (al_upd t f [] rs) w) v = walk_rrsets nm (rs_rollback rs w) v.
Proof.
  intros Hc Hf H. unfold rs_rollback, rs_all.
  induction H as [|[k d] tl Hd _ IH]; cbn [al_upd al_map map fst snd].
  - rewrite walk_rrsets_cons. rewrite (Hf [] (Forall_nil _)). reflexivity.
  - destruct (k =? t); cbn [al_map map fst snd]; rewrite !walk_rrsets_cons.
    + now rewrite (Hf d (cq_nov c w d Hc Hd)).
    + f_equal. exact IH.
Qed.

Lemma rs_at_base c w t f rs :
  c < w -> wl w f -> rs_q c w rs ->
  rs_eqv (rs_rollback (rs_at t f rs) w) (rs_rollback rs w).
Proof.
  intros Hc Hf H. split.
  - intros t'. unfold rs_rollback, rs_all, rs_at. rewrite !cell_map by reflexivity.
    rewrite cell_upd. destruct (N.eqb_spec t' t) as [->|_]; [|reflexivity].
    apply Hf. apply (cq_nov c); [exact Hc|now apply cell_q].
  - intros nm v. now apply (walk_upd_base c).
Qed.

Lemma rs_all_base c w f rs :
  c < w -> wl w f -> rs_q c w rs -> rs_rollback (rs_all f rs) w = rs_rollback rs w.
Proof.
  intros Hc Hf H. unfold rs_rollback, rs_all, al_map. rewrite map_map. apply map_ext_in.
  intros [k d] Hin. cbn. f_equal. apply Hf. apply (cq_nov c); [exact Hc|].
  unfold rs_q in H. rewrite Forall_forall in H. exact (H (k, d) Hin).
Qed.

Lemma rs_at_q c w t f rs : c < w -> wl w f -> rs_q c w rs -> rs_q c w (rs_at t f rs).
Proof.
  intros Hc Hf H. apply Forall_al_upd; [|apply cq_nil|exact H].
  intros d Hd. now apply wl_cq.
Qed.
Lemma rs_all_q c w f rs : c < w -> wl w f -> rs_q c w rs -> rs_q c w (rs_all f rs).
Proof. intros Hc Hf H. apply Forall_al_map; [|exact H]. intros d Hd. now apply wl_cq. Qed.

Lemma rs_update_wl c w t rr rs :
  c < w -> rs_q c w rs ->
  rs_q c w (rs_update rs t rr w) /\ rs_eqv (rs_rollback (rs_update rs t rr w) w) (rs_rollback rs w).
Proof.
  intros Hc H. unfold rs_update, rs_remove_rtype.
  destruct (rrv_is_empty rr && update_empty_rrset_is_remove).
  - split; [apply rs_at_q|apply (rs_at_base c)]; auto using wl_remove.
  - split; [apply rs_at_q|apply (rs_at_base c)]; auto using wl_update.
Qed.

Lemma rs_remove_wl c w t rs :
  c < w -> rs_q c w rs ->
  rs_q c w (rs_remove_rtype rs t w) /\ rs_eqv (rs_rollback (rs_remove_rtype rs t w) w) (rs_rollback rs w).
Proof.
  intros Hc H. unfold rs_remove_rtype.
  split; [apply rs_at_q|apply (rs_at_base c)]; auto using wl_remove.
Qed.

(* reading below w through the base *)
Lemma rs_get_base w rs t r :
  ver_le w r = false -> rs_get (rs_rollback rs w) t r = rs_get rs t r.
Proof.
  intros Hr. unfold rs_get, rs_rollback, rs_all. rewrite cell_map by reflexivity. now apply get_base.
Qed.

Lemma walk_rrsets_base {A} w (nm : A) rs r :
  ver_le w r = false -> walk_rrsets nm (rs_rollback rs w) r = walk_rrsets nm rs r.
Proof.
  intros Hr. unfold rs_rollback, rs_all. induction rs as [|[k d] tl IH]; [reflexivity|].
  cbn [al_map map fst snd]. rewrite !walk_rrsets_cons. rewrite (get_base w d r Hr). f_equal. exact IH.
Qed.

Lemma rs_rollback_id c w rs : c < w -> Forall (fun p => le_all c (snd p)) rs -> rs_rollback rs w = rs.
Proof.
  intros Hc H. unfold rs_rollback, rs_all. apply al_map_id. intros p Hin.
  rewrite Forall_forall in H. exact (rollback_id c w _ Hc (H _ Hin)).
Qed.

(* ---------------------------------------------------------------- more on NodeRrsets *)

Lemma rs_get_eqv a b t v : rs_eqv a b -> rs_get a t v = rs_get b t v.
Proof. intros [H _]. unfold rs_get. now rewrite H. Qed.

Lemma is_empty_walk rs v :
  rs_is_empty rs v = match walk_rrsets (@nil N) rs v with [] => true | _ => false end.
Proof.
  induction rs as [|[k d] tl IH]; [reflexivity|].
  rewrite walk_rrsets_cons. cbn [rs_is_empty forallb snd]. destruct (v_get d v); [reflexivity|exact IH].
Qed.

Lemma is_empty_eqv a b v : rs_eqv a b -> rs_is_empty a v = rs_is_empty b v.
Proof. intros [_ H]. now rewrite !is_empty_walk, H. Qed.

Lemma is_empty_base w rs r : ver_le w r = false -> rs_is_empty (rs_rollback rs w) r = rs_is_empty rs r.
Proof. intros Hr. now rewrite !is_empty_walk, (walk_rrsets_base w (@nil N) rs r Hr). Qed.

Lemma rrsets_answer_eqv a b v t soa : rs_eqv a b -> rrsets_answer a v t soa = rrsets_answer b v t soa.
Proof. intros H. unfold rrsets_answer. now rewrite (is_empty_eqv _ _ v H), (rs_get_eqv _ _ t v H). Qed.

Lemma rrsets_answer_base w rs r t soa :
  ver_le w r = false -> rrsets_answer (rs_rollback rs w) r t soa = rrsets_answer rs r t soa.
Proof. intros Hr. unfold rrsets_answer. now rewrite (is_empty_base w _ r Hr), (rs_get_base w _ t r Hr). Qed.

(* ---------------------------------------------------------------- ZoneNode: the tree *)

Lemma znode_ind' (P : znode -> Prop) :
  (forall rs sp ch, Forall (fun p => P (snd p)) ch -> P (mknode rs sp ch)) -> forall n, P n.
Proof.
  intros H. fix IH 1. intros [rs sp ch]. apply H.
  induction ch as [|[k c] tl IHl]; constructor; [apply IH|exact IHl].
Qed.

(* a property of every cell of a subtree *)
Section AllCells.
Variable P : forall T, list (entry T) -> Prop.
Inductive n_all : znode -> Prop :=
| n_all_intro rs sp ch :
    Forall (fun p => P _ (snd p)) rs -> P _ sp -> Forall (fun p => n_all (snd p)) ch ->
    n_all (mknode rs sp ch).
Definition ns_all (ns : list (N * znode)) : Prop := Forall (fun p => n_all (snd p)) ns.
End AllCells.

Lemma n_all_impl (P Q : forall T, list (entry T) -> Prop) :
  (forall T d, P T d -> Q T d) -> forall n, n_all P n -> n_all Q n.
Proof.
  intros HPQ. induction n as [rs sp ch IH] using znode_ind'. intros H. inversion H as [? ? ? H1 H2 H3]; subst.
  constructor.
  - eapply Forall_impl; [|exact H1]. intros p. apply HPQ.
  - now apply HPQ.
  - rewrite Forall_forall in *. intros p Hin. apply (IH p Hin). exact (H3 p Hin).
Qed.

Lemma ns_all_impl (P Q : forall T, list (entry T) -> Prop) ns :
  (forall T d, P T d -> Q T d) -> ns_all P ns -> ns_all Q ns.
Proof. intros HPQ H. eapply Forall_impl; [|exact H]. intros p. now apply n_all_impl. Qed.

Definition n_q (c w : N) : znode -> Prop := n_all (fun T d => cq c w d).
Definition ns_q (c w : N) : list (N * znode) -> Prop := ns_all (fun T d => cq c w d).

Lemma n_q_inv c w rs sp ch :
  n_q c w (mknode rs sp ch) -> rs_q c w rs /\ cq c w sp /\ ns_q c w ch.
Proof. intros H. inversion H; subst. repeat split; assumption. Qed.
Lemma n_q_intro c w rs sp ch : rs_q c w rs -> cq c w sp -> ns_q c w ch -> n_q c w (mknode rs sp ch).
Proof. intros. constructor; assumption. Qed.

Lemma n_q_empty c w : n_q c w empty_node.
Proof. constructor; constructor. Qed.

Lemma n_rollback_eq rs sp ch w :
  n_rollback (mknode rs sp ch) w =
  mknode (rs_rollback rs w) (v_rollback sp w) (al_map (fun n => n_rollback n w) ch).
Proof. reflexivity. Qed.
Lemma n_remove_all_eq rs sp ch w :
  n_remove_all (mknode rs sp ch) w =
  mknode (rs_remove_all rs w) (v_remove sp w) (al_map (fun n => n_remove_all n w) ch).
Proof. reflexivity. Qed.

(* ---- "the same up to empty cells and blank nodes" *)

(* a node all of whose cells are empty, with blank nodes below: what rollback
   leaves of a subtree that the rolled-back version created *)
Inductive blank : znode -> Prop :=
| blank_intro rs ch : rs_eqv rs [] -> Forall (fun p => blank (snd p)) ch -> blank (mknode rs [] ch).

Inductive n_le : znode -> znode -> Prop :=
| n_le_intro rs sp ch rs' ch' : rs_eqv rs rs' -> ns_le ch ch' -> n_le (mknode rs sp ch) (mknode rs' sp ch')
with ns_le : list (N * znode) -> list (N * znode) -> Prop :=
| ns_le_nil extra : Forall (fun p => blank (snd p)) extra -> ns_le [] extra
| ns_le_cons k n n' a b : n_le n n' -> ns_le a b -> ns_le ((k, n) :: a) ((k, n') :: b).

Scheme n_le_min := Minimality for n_le Sort Prop
  with ns_le_min := Minimality for ns_le Sort Prop.
Combined Scheme le_mut from n_le_min, ns_le_min.

Lemma ns_le_refl_of a : Forall (fun p => n_le (snd p) (snd p)) a -> ns_le a a.
Proof. intros H. induction H as [|[k n] tl Hn _ IH]; constructor; [constructor|exact Hn|exact IH]. Qed.

Lemma n_le_refl n : n_le n n.
Proof.
  induction n as [rs sp ch IH] using znode_ind'. constructor; [apply rs_eqv_refl|now apply ns_le_refl_of].
Qed.
Lemma ns_le_refl a : ns_le a a.
Proof. apply ns_le_refl_of. apply Forall_forall. intros; apply n_le_refl. Qed.

Lemma blank_le_mut :
  (forall n n', n_le n n' -> blank n -> blank n') /\
  (forall a b, ns_le a b -> Forall (fun p => blank (snd p)) a -> Forall (fun p => blank (snd p)) b).
Proof.
  apply le_mut.
  - intros rs sp ch rs' ch' Hr _ IH Hb. inversion Hb as [? ? Hr0 Hch]; subst.
    constructor; [eapply rs_eqv_trans; [apply rs_eqv_sym; exact Hr|exact Hr0]|now apply IH].
  - intros extra He _. exact He.
  - intros k n n' a b _ IHn _ IHs Hb. inversion Hb as [|? ? Hn Htl]; subst. cbn [snd] in Hn.
    constructor; [cbn [snd]; now apply IHn|now apply IHs].
Qed.

Lemma le_trans_mut :
  (forall a b, n_le a b -> forall c, n_le b c -> n_le a c) /\
  (forall a b, ns_le a b -> forall c, ns_le b c -> ns_le a c).
Proof.
  apply le_mut.
  - intros rs sp ch rs' ch' Hr _ IH c Hc. inversion Hc as [? ? ? rs'' ch'' Hr' Hs']; subst.
    constructor; [eapply rs_eqv_trans; eauto|now apply IH].
  - intros extra He c Hc. constructor. exact (proj2 blank_le_mut _ _ Hc He).
  - intros k n n' a b _ IHn _ IHs c Hc. inversion Hc as [|? ? n'' ? c' Hn' Hc']; subst.
    constructor; [now apply IHn|now apply IHs].
Qed.
Definition n_le_trans := proj1 le_trans_mut.
Definition ns_le_trans := proj2 le_trans_mut.

Lemma blank_of_le_empty m : n_le empty_node m -> blank m.
Proof.
  intros H. inversion H as [? ? ? rs' ch' Hr Hs]; subst. inversion Hs; subst.
  constructor; [now apply rs_eqv_sym|assumption].
Qed.

Lemma ns_le_map (g g' : znode -> znode) ch :
  Forall (fun p => n_le (g (snd p)) (g' (snd p))) ch -> ns_le (al_map g ch) (al_map g' ch).
Proof.
  intros H. induction H as [|[k n] tl Hn _ IH]; cbn [al_map map fst snd]; constructor; [constructor|exact Hn|exact IH].
Qed.

(* ---- w-local node functions *)

(* F changes the subtree only by w-local cell functions and by adding nodes that
   the rollback of w leaves blank *)
Definition nl (w : N) (F : znode -> znode) : Prop :=
  forall c n, c < w -> n_q c w n -> n_q c w (F n) /\ n_le (n_rollback n w) (n_rollback (F n) w).

Lemma nl_id w : nl w (fun n => n).
Proof. intros c n Hc H. split; [exact H|apply n_le_refl]. Qed.

Lemma nl_comp w F G : nl w F -> nl w G -> nl w (fun n => G (F n)).
Proof.
  intros HF HG c n Hc H. destruct (HF c n Hc H) as [H1 H2]. destruct (HG c (F n) Hc H1) as [H3 H4].
  split; [exact H3|eapply n_le_trans; eauto].
Qed.

Lemma nl_update_special w s : nl w (fun n => n_update_special n w s).
Proof.
  intros c [rs sp ch] Hc H. destruct (n_q_inv _ _ _ _ _ H) as [Hr [Hs Hch]].
  unfold n_update_special, set_special. cbn [n_rrsets n_special n_children]. split.
  - apply n_q_intro; [exact Hr| |exact Hch].
    apply (wl_cq c w (fun d => v_update d w s)); auto using wl_update.
  - rewrite !n_rollback_eq. rewrite (wl_update w s sp (cq_nov c w sp Hc Hs)).
    constructor; [apply rs_eqv_refl|apply ns_le_refl].
Qed.

Lemma nl_check_nx w : nl w (fun n => check_nx n w).
Proof.
  intros c n Hc H. unfold check_nx. destruct nx_marker_follows_emptiness; [|now apply nl_id].
  destruct (n_with_special n w) as [[ns ds glue|id|]|].
  - now apply nl_id.
  - now apply nl_id.
  - destruct (negb (rs_is_empty (n_rrsets n) w)); [now apply nl_update_special|now apply nl_id].
  - destruct (rs_is_empty (n_rrsets n) w); [now apply nl_update_special|now apply nl_id].
Qed.

Lemma nl_set_rrsets w (G : rrsets -> rrsets) :
  (forall c rs, c < w -> rs_q c w rs -> rs_q c w (G rs) /\ rs_eqv (rs_rollback (G rs) w) (rs_rollback rs w)) ->
  nl w (fun n => set_rrsets n (G (n_rrsets n))).
Proof.
  intros HG c [rs sp ch] Hc H. destruct (n_q_inv _ _ _ _ _ H) as [Hr [Hs Hch]].
  destruct (HG c _ Hc Hr) as [H1 H2]. unfold set_rrsets. cbn [n_rrsets n_special n_children]. split.
  - now apply n_q_intro.
  - rewrite !n_rollback_eq. constructor; [now apply rs_eqv_sym|apply ns_le_refl].
Qed.

Lemma nl_update_rrset w t rr : nl w (fun n => n_update_rrset n t rr w).
Proof.
  unfold n_update_rrset.
  apply (nl_comp w (fun n => set_rrsets n (rs_update (n_rrsets n) t rr w)) (fun n => check_nx n w));
    [|apply nl_check_nx].
  apply (nl_set_rrsets w (fun rs => rs_update rs t rr w)). intros c rs Hc H. now apply rs_update_wl.
Qed.

Lemma nl_remove_rrset w t : nl w (fun n => n_remove_rrset n t w).
Proof.
  unfold n_remove_rrset.
  apply (nl_comp w (fun n => set_rrsets n (rs_remove_rtype (n_rrsets n) t w)) (fun n => check_nx n w));
    [|apply nl_check_nx].
  apply (nl_set_rrsets w (fun rs => rs_remove_rtype rs t w)). intros c rs Hc H. now apply rs_remove_wl.
Qed.

Lemma nl_make_regular w : nl w (fun n => n_make_regular n w).
Proof.
  unfold n_make_regular.
  apply (nl_comp w (fun n => n_update_special n w None) (fun n => check_nx n w));
    [apply nl_update_special|apply nl_check_nx].
Qed.

Lemma nl_make_cname w id : nl w (fun n => n_make_cname n id w).
Proof. unfold n_make_cname. apply nl_update_special. Qed.
Lemma nl_make_cut w ns ds glue : nl w (fun n => n_make_cut n ns ds glue w).
Proof. unfold n_make_cut. apply nl_update_special. Qed.

(* remove_all recurses into every child *)
Lemma nl_remove_all w : nl w (fun n => n_remove_all n w).
Proof.
  intros c n Hc. induction n as [rs sp ch IH] using znode_ind'. intros H.
  destruct (n_q_inv _ _ _ _ _ H) as [Hr [Hs Hch]].
  assert (Hkids : Forall (fun p => n_q c w (n_remove_all (snd p) w) /\
                                   n_le (n_rollback (snd p) w) (n_rollback (n_remove_all (snd p) w) w)) ch).
  { unfold ns_q, ns_all in Hch. rewrite Forall_forall in *. intros p Hin. apply (IH p Hin). exact (Hch p Hin). }
  rewrite n_remove_all_eq. split.
  - apply n_q_intro.
    + apply rs_all_q; auto using wl_remove.
    + apply (wl_cq c w (fun d => v_remove d w)); auto using wl_remove.
    + unfold ns_q, ns_all, al_map. rewrite Forall_map. eapply Forall_impl; [|exact Hkids]. intros p [H1 _]. exact H1.
  - rewrite !n_rollback_eq. unfold rs_remove_all. rewrite (rs_all_base c) by auto using wl_remove.
    rewrite (wl_remove w sp (cq_nov c w sp Hc Hs)).
    constructor; [apply rs_eqv_refl|].
    rewrite al_map_map.
    apply (ns_le_map (fun n => n_rollback n w) (fun n => n_rollback (n_remove_all n w) w)).
    eapply Forall_impl; [|exact Hkids]. intros p [_ H2]. exact H2.
Qed.

(* ---- association lists of nodes *)

Lemma al_upd_le c w l G fresh ns :
  c < w -> nl w G -> n_q c w (G fresh) -> blank (n_rollback (G fresh) w) -> ns_q c w ns ->
  ns_q c w (al_upd l G fresh ns) /\
  ns_le (al_map (fun n => n_rollback n w) ns) (al_map (fun n => n_rollback n w) (al_upd l G fresh ns)).
Proof.
  intros Hc HG Hq Hb H. induction H as [|[k n] tl Hn Htl IH]; cbn [al_upd].
  - split; [constructor; [exact Hq|constructor]|].
    cbn [al_map map fst snd]. constructor. constructor; [exact Hb|constructor].
  - destruct (k =? l).
    + destruct (HG c n Hc Hn) as [H1 H2]. split.
      * constructor; assumption.
      * cbn [al_map map fst snd]. constructor; [exact H2|apply ns_le_refl].
    + destruct IH as [H1 H2]. split.
      * constructor; assumption.
      * cbn [al_map map fst snd]. constructor; [apply n_le_refl|exact H2].
Qed.

Lemma fresh_ok c w G :
  c < w -> nl w G -> n_q c w (G (fresh_node w)) /\ blank (n_rollback (G (fresh_node w)) w).
Proof.
  intros Hc HG. unfold fresh_node. cbv [update_child_creates_node].
  destruct (nl_comp w _ _ (nl_make_regular w) HG c empty_node Hc (n_q_empty c w)) as [H1 H2].
  split; [exact H1|]. apply blank_of_le_empty. exact H2.
Qed.

Lemma nl_set_children w (X : list (N * znode) -> list (N * znode)) :
  (forall c ns, c < w -> ns_q c w ns ->
     ns_q c w (X ns) /\ ns_le (al_map (fun n => n_rollback n w) ns) (al_map (fun n => n_rollback n w) (X ns))) ->
  nl w (fun n => set_children n (X (n_children n))).
Proof.
  intros HX c [rs sp ch] Hc H. destruct (n_q_inv _ _ _ _ _ H) as [Hr [Hs Hch]].
  destruct (HX c ch Hc Hch) as [H1 H2]. unfold set_children. cbn [n_rrsets n_special n_children]. split.
  - now apply n_q_intro.
  - rewrite !n_rollback_eq. constructor; [apply rs_eqv_refl|exact H2].
Qed.

(* update_child along a path, creating what is missing, then f on the last node *)
Lemma path_do_le w f :
  nl w f -> forall p c ns, c < w -> ns_q c w ns ->
  ns_q c w (path_do ns p (fresh_node w) f) /\
  ns_le (al_map (fun n => n_rollback n w) ns) (al_map (fun n => n_rollback n w) (path_do ns p (fresh_node w) f)).
Proof.
  intros Hf. induction p as [|l rest IH]; intros c ns Hc H; cbn [path_do].
  - split; [exact H|apply ns_le_refl].
  - destruct rest as [|l' rest'].
    + destruct (fresh_ok c w f Hc Hf) as [Hq Hb]. now apply al_upd_le.
    + set (G := fun n => set_children n (path_do (n_children n) (l' :: rest') (fresh_node w) f)).
      assert (HG : nl w G) by (apply (nl_set_children w (fun ch => path_do ch (l' :: rest') (fresh_node w) f)); intros; now apply IH).
      destruct (fresh_ok c w G Hc HG) as [Hq Hb]. now apply (al_upd_le c w l G).
Qed.

(* ---------------------------------------------------------------- zone *)

Definition z_q (c w : N) (s : zstate) : Prop := rs_q c w (z_apex s) /\ ns_q c w (z_nodes s).
Definition z_eqv (a b : zstate) : Prop := rs_eqv (z_apex a) (z_apex b) /\ ns_le (z_nodes a) (z_nodes b).

Lemma z_eqv_refl a : z_eqv a a.
Proof. split; [apply rs_eqv_refl|apply ns_le_refl]. Qed.
Lemma z_eqv_trans a b c : z_eqv a b -> z_eqv b c -> z_eqv a c.
Proof. intros [H1 H2] [H3 H4]. split; [eapply rs_eqv_trans; eauto|eapply ns_le_trans; eauto]. Qed.

Lemma z_rollback_eq s w :
  z_rollback s w = mkz (z_cur s) (rs_rollback (z_apex s) w) (al_map (fun n => n_rollback n w) (z_nodes s)) (z_writer s) (z_handle s).
Proof. reflexivity. Qed.

(* THE step lemma: whatever data operation the writer of version w performs
   (update_child along any path, creating what is missing, included), the
   rolled-back zone stays the same up to empty cells and blank nodes *)
Lemma data_op_base c w s e :
  c < w -> z_q c w s ->
  z_q c w (data_op s w e) /\ z_eqv (z_rollback s w) (z_rollback (data_op s w e) w).
Proof.
  intros Hc [Ha Hn].
  assert (Hsame : z_q c w s /\ z_eqv (z_rollback s w) (z_rollback s w)) by (split; [split; assumption|apply z_eqv_refl]).
  assert (Hchild : forall name F, nl w F ->
            z_q c w (at_node s w name F) /\ z_eqv (z_rollback s w) (z_rollback (at_node s w name F) w)).
  { intros name F HF. unfold at_node. destruct name as [|l rest]; [exact Hsame|].
    destruct (path_do_le w F HF (l :: rest) c _ Hc Hn) as [H1 H2]. unfold child_do.
    split; [split; assumption|]. rewrite !z_rollback_eq. split; cbn [z_apex z_nodes set_nodes]; [apply rs_eqv_refl|exact H2]. }
  destruct e; cbn [data_op]; try exact Hsame.
  - (* EUpdate *)
    destruct name as [|l rest].
    + destruct (rs_update_wl c w t rr _ Hc Ha) as [H1 H2].
      split; [split; assumption|]. rewrite !z_rollback_eq. split; cbn [z_apex z_nodes set_apex]; [apply rs_eqv_sym; exact H2|apply ns_le_refl].
    + apply (Hchild (l :: rest)). apply nl_update_rrset.
  - (* ERemove *)
    destruct name as [|l rest].
    + destruct (rs_remove_wl c w t _ Hc Ha) as [H1 H2].
      split; [split; assumption|]. rewrite !z_rollback_eq. split; cbn [z_apex z_nodes set_apex]; [apply rs_eqv_sym; exact H2|apply ns_le_refl].
    + apply (Hchild (l :: rest)). apply nl_remove_rrset.
  - (* ETouch *) apply Hchild. apply nl_id.
  - (* ERemoveAll *)
    unfold z_remove_all. cbv [apex_remove_all_rrsets apex_remove_all_children].
    assert (Hkids : Forall (fun p => n_q c w (n_remove_all (snd p) w) /\
                                     n_le (n_rollback (snd p) w) (n_rollback (n_remove_all (snd p) w) w)) (z_nodes s)).
    { unfold ns_q, ns_all in Hn. rewrite Forall_forall in *. intros p Hin. exact (nl_remove_all w c (snd p) Hc (Hn p Hin)). }
    split.
    + split; cbn [z_apex z_nodes]; [apply rs_all_q; auto using wl_remove|].
      unfold ns_q, ns_all, al_map. rewrite Forall_map. eapply Forall_impl; [|exact Hkids]. intros p [H1 _]. exact H1.
    + rewrite !z_rollback_eq. split; cbn [z_apex z_nodes].
      * unfold rs_remove_all. rewrite (rs_all_base c); auto using wl_remove. apply rs_eqv_refl.
      * rewrite al_map_map.
        apply (ns_le_map (fun n => n_rollback n w) (fun n => n_rollback (n_remove_all n w) w)).
        eapply Forall_impl; [|exact Hkids]. intros p [_ H2]. exact H2.
  - (* ERemoveAllAt *) apply Hchild. apply nl_remove_all.
  - (* ECname *) apply Hchild. apply nl_make_cname.
  - (* ECut *) apply Hchild. apply nl_make_cut.
  - (* ERegular *) apply Hchild. apply nl_make_regular.
Qed.

(* ---------------------------------------------------------------- observations respect n_le / z_eqv *)

Lemma own_data_eqv rs rs' sp v : rs_eqv rs rs' -> own_data rs sp v = own_data rs' sp v.
Proof. intros H. unfold own_data. now rewrite (is_empty_eqv _ _ v H). Qed.

Lemma n_exists_eq rs sp ch v :
  n_exists (mknode rs sp ch) v = own_data rs sp v || existsb (fun p => n_exists (snd p) v) ch.
Proof. reflexivity. Qed.

Lemma existsb_false {A} (f : A -> bool) l : (forall x, In x l -> f x = false) -> existsb f l = false.
Proof. induction l as [|a tl IH]; intros H; [reflexivity|]. cbn [existsb]. rewrite (H a (or_introl eq_refl)). apply IH. intros x Hx. apply H. now right. Qed.
Lemma flat_map_nil {A B} (f : A -> list B) l : (forall x, In x l -> f x = []) -> flat_map f l = [].
Proof. induction l as [|a tl IH]; intros H; [reflexivity|]. cbn [flat_map]. rewrite (H a (or_introl eq_refl)). apply IH. intros x Hx. apply H. now right. Qed.

Lemma blank_not_exists v : forall n, blank n -> n_exists n v = false.
Proof.
  induction n as [rs sp ch IH] using znode_ind'. intros H. inversion H as [? ? Hr Hch]; subst.
  rewrite n_exists_eq. rewrite (own_data_eqv rs [] [] v Hr).
  change (own_data [] [] v) with false. cbn [orb].
  rewrite Forall_forall in *. apply existsb_false. intros p Hin. exact (IH p Hin (Hch p Hin)).
Qed.

Lemma exists_le_mut v :
  (forall a b, n_le a b -> n_exists a v = n_exists b v) /\
  (forall a b, ns_le a b -> existsb (fun p => n_exists (snd p) v) a = existsb (fun p => n_exists (snd p) v) b).
Proof.
  apply le_mut.
  - intros rs sp ch rs' ch' Hr _ IH. rewrite !n_exists_eq. now rewrite (own_data_eqv _ _ sp v Hr), IH.
  - intros extra He. cbn [existsb]. symmetry. induction He as [|p tl Hp _ IHl]; [reflexivity|].
    cbn [existsb]. now rewrite (blank_not_exists v _ Hp), IHl.
  - intros k n n' a b _ IHn _ IHs. cbn [existsb snd]. now rewrite IHn, IHs.
Qed.
Definition n_exists_le v := proj1 (exists_le_mut v).

Lemma n_le_special a b : n_le a b -> n_special a = n_special b.
Proof. intros H. inversion H; reflexivity. Qed.
Lemma n_le_rrsets a b : n_le a b -> rs_eqv (n_rrsets a) (n_rrsets b).
Proof. intros H. inversion H; assumption. Qed.
Lemma n_le_children a b : n_le a b -> ns_le (n_children a) (n_children b).
Proof. intros H. inversion H; assumption. Qed.

Lemma node_here_le a b v t soa : n_le a b -> node_here a v t soa = node_here b v t soa.
Proof.
  intros H. unfold node_here, n_with_special. rewrite (n_le_special _ _ H).
  now rewrite (rrsets_answer_eqv _ _ v t soa (n_le_rrsets _ _ H)).
Qed.

Lemma al_get_in {A} k (l : list (N * A)) y : al_get k l = Some y -> exists k', In (k', y) l.
Proof.
  induction l as [|[k0 a] tl IH]; cbn [al_get]; [discriminate|].
  destruct (k0 =? k); [intros E; inversion E; subst; eexists; now left|].
  intros E. destruct (IH E) as [k' Hin]. eexists; right; eauto.
Qed.

Lemma al_get_le k a b :
  ns_le a b ->
  match al_get k a, al_get k b with
  | Some x, Some y => n_le x y
  | None, None => True
  | None, Some y => blank y
  | Some _, None => False
  end.
Proof.
  intros H. induction H as [extra He|k0 n n' a b Hn _ IH]; cbn [al_get].
  - destruct (al_get k extra) as [y|] eqn:E; [|exact I].
    destruct (al_get_in _ _ _ E) as [k' Hin]. rewrite Forall_forall in He. exact (He _ Hin).
  - destruct (k0 =? k); [exact Hn|exact IH].
Qed.

Lemma child_at_le k v a b :
  ns_le a b ->
  match child_at a k v, child_at b k v with
  | Some x, Some y => n_le x y
  | None, None => True
  | _, _ => False
  end.
Proof.
  intros H. pose proof (al_get_le k a b H) as Hg. unfold child_at. cbv [query_follows_only_existing_children].
  destruct (al_get k a) as [x|], (al_get k b) as [y|]; try contradiction.
  - rewrite (n_exists_le v _ _ Hg). destruct (n_exists y v); [exact Hg|exact I].
  - now rewrite (blank_not_exists v y Hg).
  - exact I.
Qed.

Lemma q_children_le v t soa : forall p a b, ns_le a b -> q_children a p v t soa = q_children b p v t soa.
Proof.
  induction p as [|l rest IH]; intros a b H; [reflexivity|]. cbn [q_children].
  pose proof (child_at_le l v a b H) as H1. pose proof (child_at_le 1 v a b H) as H2.
  destruct (child_at a l v) as [x|], (child_at b l v) as [y|]; try contradiction.
  - destruct rest as [|l' rest']; [now apply node_here_le|].
    unfold n_with_special. rewrite (n_le_special _ _ H1).
    destruct (sp_get (n_special y) v) as [[ns ds glue|id|]|]; try reflexivity;
      apply IH; now apply n_le_children.
  - destruct (child_at a 1 v), (child_at b 1 v); try contradiction; [now apply node_here_le|reflexivity].
Qed.

Lemma query_eqv a b v name t : z_eqv a b -> query a v name t = query b v name t.
Proof.
  intros [Ha Hn]. unfold query. rewrite (rs_get_eqv _ _ 6 v Ha).
  destruct name; [now apply rrsets_answer_eqv|now apply q_children_le].
Qed.

Lemma walk_node_eq path rs sp ch v :
  walk_node path (mknode rs sp ch) v =
  walk_rrsets path rs v ++
  match sp_get sp v with
  | Some (SCut ns ds glue) => [(path, 2, ns)] ++ opt_item path 43 ds ++ opt_item path 1 glue
  | Some (SCname id) => [(path, 5, id)] ++ flat_map (fun p => walk_node (path ++ [fst p]) (snd p) v) ch
  | _ => flat_map (fun p => walk_node (path ++ [fst p]) (snd p) v) ch
  end.
Proof. reflexivity. Qed.

Lemma blank_walk v : forall n, blank n -> forall path, walk_node path n v = [].
Proof.
  induction n as [rs sp ch IH] using znode_ind'. intros H path. inversion H as [? ? Hr Hch]; subst.
  rewrite walk_node_eq. destruct Hr as [_ Hw]. rewrite Hw. change (sp_get [] v) with (@None special).
  cbn [walk_rrsets flat_map app].
  rewrite Forall_forall in *. apply flat_map_nil. intros p Hin. exact (IH p Hin (Hch p Hin) _).
Qed.

Lemma walk_le_mut v :
  (forall a b, n_le a b -> forall path, walk_node path a v = walk_node path b v) /\
  (forall a b, ns_le a b -> forall path,
     flat_map (fun p => walk_node (path ++ [fst p]) (snd p) v) a =
     flat_map (fun p => walk_node (path ++ [fst p]) (snd p) v) b).
Proof.
  apply le_mut.
  - intros rs sp ch rs' ch' [_ Hw] _ IH path. rewrite !walk_node_eq, Hw, IH. reflexivity.
  - intros extra He path. cbn [flat_map]. symmetry. induction He as [|p tl Hp _ IHl]; [reflexivity|].
    cbn [flat_map]. now rewrite (blank_walk v _ Hp), IHl.
  - intros k n n' a b _ IHn _ IHs path. cbn [flat_map fst snd]. now rewrite IHn, IHs.
Qed.

Lemma walk_eqv a b v : z_eqv a b -> walk a v = walk b v.
Proof.
  intros [[_ Ha] Hn]. unfold walk. rewrite Ha. f_equal.
  exact (proj2 (walk_le_mut v) _ _ Hn []).
Qed.

(* ---------------------------------------------------------------- a reader below w reads through the base *)

Lemma sp_get_base w sp r : ver_le w r = false -> sp_get (v_rollback sp w) r = sp_get sp r.
Proof. intros Hr. unfold sp_get. now rewrite (get_base w sp r Hr). Qed.

Lemma own_data_base w rs sp r :
  ver_le w r = false -> own_data (rs_rollback rs w) (v_rollback sp w) r = own_data rs sp r.
Proof. intros Hr. unfold own_data. now rewrite (is_empty_base w _ r Hr), (sp_get_base w _ r Hr). Qed.

Lemma n_exists_base w r : ver_le w r = false -> forall n, n_exists (n_rollback n w) r = n_exists n r.
Proof.
  intros Hr. induction n as [rs sp ch IH] using znode_ind'.
  rewrite n_rollback_eq, !n_exists_eq, (own_data_base w _ _ r Hr). f_equal.
  unfold al_map. rewrite Forall_forall in IH. induction ch as [|p tl IHl]; [reflexivity|].
  cbn [map existsb snd]. rewrite (IH p (or_introl eq_refl)). f_equal. apply IHl. intros q Hq. apply IH. now right.
Qed.

Lemma node_here_base w n r t soa :
  ver_le w r = false -> node_here (n_rollback n w) r t soa = node_here n r t soa.
Proof.
  intros Hr. destruct n as [rs sp ch]. unfold node_here, n_with_special. rewrite n_rollback_eq. cbn [n_rrsets n_special].
  now rewrite (sp_get_base w _ r Hr), (rrsets_answer_base w _ r t soa Hr).
Qed.

Lemma child_at_base w ns k r :
  ver_le w r = false ->
  child_at (al_map (fun n => n_rollback n w) ns) k r = option_map (fun n => n_rollback n w) (child_at ns k r).
Proof.
  intros Hr. unfold child_at. rewrite al_get_map. destruct (al_get k ns) as [n|]; cbn [option_map]; [|reflexivity].
  rewrite (n_exists_base w r Hr n). cbv [query_follows_only_existing_children]. destruct (n_exists n r); reflexivity.
Qed.

Lemma q_children_base w r t soa :
  ver_le w r = false -> forall p ns,
  q_children (al_map (fun n => n_rollback n w) ns) p r t soa = q_children ns p r t soa.
Proof.
  intros Hr. induction p as [|l rest IH]; intros ns; [reflexivity|]. cbn [q_children].
  rewrite !(child_at_base w _ _ r Hr).
  destruct (child_at ns l r) as [n|]; cbn [option_map].
  - destruct rest as [|l' rest']; [now apply node_here_base|].
    destruct n as [rs sp ch]. unfold n_with_special. rewrite n_rollback_eq. cbn [n_special n_children].
    rewrite (sp_get_base w _ r Hr). destruct (sp_get sp r) as [[ns' ds glue|id|]|]; try reflexivity; apply IH.
  - destruct (child_at ns 1 r); cbn [option_map]; [now apply node_here_base|reflexivity].
Qed.

Lemma query_base w s r name t :
  ver_le w r = false -> query (z_rollback s w) r name t = query s r name t.
Proof.
  intros Hr. unfold query. rewrite z_rollback_eq. cbn [z_apex z_nodes].
  rewrite (rs_get_base w _ 6 r Hr). destruct name; [now apply rrsets_answer_base|now apply q_children_base].
Qed.

Lemma walk_node_base w r : ver_le w r = false -> forall n path, walk_node path (n_rollback n w) r = walk_node path n r.
Proof.
  intros Hr. induction n as [rs sp ch IH] using znode_ind'. intros path.
  rewrite n_rollback_eq, !walk_node_eq, (walk_rrsets_base w path rs r Hr), (sp_get_base w sp r Hr).
  assert (E : flat_map (fun p => walk_node (path ++ [fst p]) (snd p) r) (al_map (fun n => n_rollback n w) ch) =
              flat_map (fun p => walk_node (path ++ [fst p]) (snd p) r) ch).
  { unfold al_map. rewrite Forall_forall in IH. induction ch as [|p tl IHl]; [reflexivity|].
    cbn [map flat_map fst snd]. rewrite (IH p (or_introl eq_refl)). f_equal. apply IHl. intros q Hq. apply IH. now right. }
  now rewrite E.
Qed.

Lemma walk_base w s r : ver_le w r = false -> walk (z_rollback s w) r = walk s r.
Proof.
  intros Hr. unfold walk. rewrite z_rollback_eq. cbn [z_apex z_nodes].
  rewrite (walk_rrsets_base w [] _ r Hr). f_equal.
  unfold al_map. induction (z_nodes s) as [|[k n] tl IH]; [reflexivity|].
  cbn [map flat_map fst snd]. now rewrite IH, (walk_node_base w r Hr n).
Qed.

(* ---------------------------------------------------------------- nodes that do not exist in a version *)

(* a node whose name does not exist in version v (created by an uncommitted, an
   abandoned or a later version, or emptied) contributes nothing to a walk at v *)
Lemma not_exists_walk v : forall n, n_exists n v = false -> forall path, walk_node path n v = [].
Proof.
  induction n as [rs sp ch IH] using znode_ind'. intros H path. rewrite n_exists_eq in H.
  apply orb_false_elim in H. destruct H as [Hown Hkids]. cbv [exists_counts_children] in Hkids.
  unfold own_data in Hown. cbv [exists_counts_rrsets exists_counts_cname] in Hown.
  apply orb_false_elim in Hown. destruct Hown as [He Hsp]. apply negb_false_iff in He.
  rewrite walk_node_eq.
  assert (Hw : walk_rrsets path rs v = []).
  { clear -He. induction rs as [|[k d] tl IHl]; [reflexivity|]. rewrite walk_rrsets_cons.
    cbn [rs_is_empty forallb snd] in He. destruct (v_get d v); [discriminate|]. cbn [app]. now apply IHl. }
  rewrite Hw. cbn [app].
  assert (Hk : flat_map (fun p => walk_node (path ++ [fst p]) (snd p) v) ch = []).
  { apply flat_map_nil. intros p Hin. rewrite Forall_forall in IH. apply (IH p Hin).
    destruct (n_exists (snd p) v) eqn:E; [|reflexivity].
    assert (existsb (fun q => n_exists (snd q) v) ch = true) by (apply existsb_exists; exists p; split; assumption). congruence. }
  destruct (sp_get sp v) as [[ns ds glue|id|]|]; try discriminate; exact Hk.
Qed.

Lemma al_get_filter {A} l k (ns : list (N * A)) :
  al_get k (filter (fun p => negb (fst p =? l)) ns) = if k =? l then None else al_get k ns.
Proof.
  induction ns as [|[k0 a] tl IH]; cbn [filter al_get fst]; [now destruct (k =? l)|].
  destruct (N.eqb_spec k0 l) as [->|Hne]; cbn [negb al_get].
  - rewrite IH. rewrite (N.eqb_sym l k). destruct (N.eqb_spec k l); reflexivity.
  - rewrite IH. destruct (N.eqb_spec k0 k) as [->|Hk]; [|reflexivity].
    destruct (N.eqb_spec k l); [contradiction|reflexivity].
Qed.

(* ... and to a query it is as if the node were not in the tree at all: the same
   answers for every name, in particular for names two or more labels below it
   and for the wildcard fallback beside it *)
Theorem nonexistent_node_is_absent : forall ns l v t soa,
  child_at ns l v = None ->
  forall p, q_children ns p v t soa = q_children (filter (fun q => negb (fst q =? l)) ns) p v t soa.
Proof.
  intros ns l v t soa Hl p.
  assert (Hc : forall k, child_at (filter (fun q => negb (fst q =? l)) ns) k v = child_at ns k v).
  { intros k. unfold child_at. rewrite al_get_filter. destruct (N.eqb_spec k l) as [->|_]; [|reflexivity].
    unfold child_at in Hl. symmetry. exact Hl. }
  destruct p as [|k rest]; [reflexivity|]. cbn [q_children]. now rewrite !Hc.
Qed.
